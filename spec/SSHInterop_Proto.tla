--------------------------- MODULE SSHInterop_Proto ---------------------------
(* A small two-party abstraction of one SSH connection, composed with the server-side
   monitor SSHInterop: every packet the abstract Go server writes or reads is fed to
   Observe in the same step, exactly where harness/c27 logs "wire" / "recv", and the
   completion of a key exchange to ObserveKexDone.

   Server "s": golang.org/x/crypto/ssh handshakeTransport, one action per step of
   kexLoop/enterKeyExchange, readLoop and writePacket:
     * sent[s] is sentInitMsg # nil: set by sendKexInit, cleared at 'kexdone';
     * application packets (here: the replies of the service/auth/echo layers, FIFO `owe`)
       are written only while ~sent[s] -- otherwise they sit in pendingPackets (GoQueues);
     * readLoop hands the peer's KEXINIT to kexLoop and blocks; kexLoop then reads the kex
       messages and NEWKEYS itself, writes NEWKEYS (+ EXT_INFO after the first one) before
       it reads the peer's NEWKEYS.
   Client "c": a foreign implementation constrained only by RFC 4253: it does not send
   service/auth/connection packets between its KEXINIT and its NEWKEYS, it may send them
   right after its own NEWKEYS, it may start a re-key at any time after the first exchange,
   it answers a KEXINIT with a KEXINIT, and it uses a one-round-trip (ECDH/DH: 30/31) or a
   two-round-trip (DH-GEX: 34/31/32/33) method.  It runs the session the check runs:
   service request, one signed auth request, NData data packets, each echoed by the server.

   TLC checks: no rule of the monitor is ever flagged (so the trace spec cannot reject a
   correct connection, whatever the interleaving: simultaneous KEXINITs, a re-key starting
   while echoes are owed, back-to-back re-keys from both sides), the monitor's counters stay
   consistent, the monitor counts exactly the key exchanges that completed, and the
   composition never deadlocks before the echo is complete.  With GoQueues = FALSE (a server
   that writes application packets during its own key exchange) TLC must find K1Out broken. *)
EXTENDS SSHInterop

CONSTANTS NData,       \* data packets the client sends
          MaxRekeyS, MaxRekeyC,   \* spontaneous re-keys the server / the client may start
          Methods,     \* subset of {"one", "two"}
          ExtInfo,     \* BOOLEAN: server sends EXT_INFO after its first NEWKEYS
          GoQueues     \* BOOLEAN

Ends == {"s", "c"}

VARIABLES c2s, s2c,    \* FIFO channels: sequences of SSH message numbers
          sent,        \* [Ends -> BOOLEAN] own KEXINIT sent, exchange not finished
          got,         \* [Ends -> BOOLEAN] peer's KEXINIT received for the exchange in progress
          kst,         \* [Ends -> STRING]  position inside the exchange
          nkS, nkR,    \* client only: NEWKEYS sent / received in the exchange in progress
          want,        \* [Ends -> BOOLEAN] a key exchange was requested locally
          left,        \* [Ends -> Nat]     spontaneous re-keys left
          kdone,       \* [Ends -> Nat]     exchanges completed
          owe,         \* server: packets its upper layers want to write (FIFO)
          cstage,      \* client session stage
          csent, cgot, \* data packets sent / echoes received by the client
          ended        \* the monitor saw the "end" event
pvars == <<c2s, s2c, sent, got, kst, nkS, nkR, want, left, kdone, owe, cstage, csent, cgot, ended>>
vars == <<pvars, mvars>>

Init ==
  /\ MInit
  /\ c2s = <<>> /\ s2c = <<>>
  /\ sent = [x \in Ends |-> FALSE] /\ got = [x \in Ends |-> FALSE]
  /\ kst = [x \in Ends |-> "none"] /\ nkS = FALSE /\ nkR = FALSE
  /\ want = [x \in Ends |-> TRUE]            \* "We always start with a mandatory key exchange."
  /\ left = [x \in Ends |-> IF x = "s" THEN MaxRekeyS ELSE MaxRekeyC] /\ kdone = [x \in Ends |-> 0]
  /\ owe = <<>> /\ cstage = "svc" /\ csent = 0 /\ cgot = 0 /\ ended = FALSE

\* ---- server I/O: the observation points
SSend(ty) == s2c' = Append(s2c, ty) /\ Observe("out", ty, 1) /\ UNCHANGED c2s
SRecv(ty) == c2s # <<>> /\ Head(c2s) = ty /\ c2s' = Tail(c2s) /\ Observe("in", ty, 1) /\ UNCHANGED s2c
CSend(ty) == c2s' = Append(c2s, ty) /\ UNCHANGED s2c /\ UNCHANGED mvars
CRecv(ty) == s2c # <<>> /\ Head(s2c) = ty /\ s2c' = Tail(s2c) /\ UNCHANGED c2s /\ UNCHANGED mvars

SUnch == <<nkS, nkR, cstage, csent, cgot, ended>>
CUnch == <<owe, ended>>

-----------------------------------------------------------------------------
(* server *)
SWant ==       \* a threshold fires / requestKeyExchange
  /\ kdone["s"] >= 1 /\ ~want["s"] /\ left["s"] > 0
  /\ want' = [want EXCEPT !["s"] = TRUE] /\ left' = [left EXCEPT !["s"] = @ - 1]
  /\ UNCHANGED <<c2s, s2c, sent, got, kst, kdone, owe>> /\ UNCHANGED SUnch /\ UNCHANGED mvars

SSendInit ==   \* kexLoop: sendKexInit
  /\ ~sent["s"] /\ (want["s"] \/ got["s"]) /\ kst["s"] # "fin"
  /\ SSend(20)
  /\ sent' = [sent EXCEPT !["s"] = TRUE] /\ want' = [want EXCEPT !["s"] = FALSE]
  /\ UNCHANGED <<got, kst, left, kdone, owe>> /\ UNCHANGED SUnch

Reply(ty) == IF ty = 5 THEN <<6>> ELSE IF ty = 50 THEN <<52>> ELSE IF ty = 94 THEN <<94>> ELSE <<>>

SReadLoop ==   \* readLoop: readOnePacket outside a key exchange
  /\ ~got["s"] /\ kst["s"] # "fin" /\ c2s # <<>>
  /\ LET ty == Head(c2s) IN
     /\ ~IsKexMsg(ty) /\ ~IsNewKeys(ty)
     /\ SRecv(ty)
     /\ IF IsKexInit(ty) THEN got' = [got EXCEPT !["s"] = TRUE] /\ UNCHANGED owe
        ELSE owe' = owe \o Reply(ty) /\ UNCHANGED got
  /\ UNCHANGED <<sent, kst, want, left, kdone>> /\ UNCHANGED SUnch

SK(from, to) == kst["s"] = from /\ kst' = [kst EXCEPT !["s"] = to]
SKexStep ==    \* kexLoop inside enterKeyExchange
  /\ sent["s"] /\ got["s"]
  /\ \/ SK("none", "r1") /\ SRecv(30)
     \/ SK("none", "g1") /\ SRecv(34)
     \/ SK("r1", "nk")   /\ SSend(31)
     \/ SK("g1", "g2")   /\ SSend(31)
     \/ SK("g2", "g3")   /\ SRecv(32)
     \/ SK("g3", "nk")   /\ SSend(33)
     \/ SK("nk", IF kdone["s"] = 0 /\ ExtInfo THEN "ext" ELSE "wnk") /\ SSend(21)
     \/ SK("ext", "wnk") /\ SSend(7)
     \/ SK("wnk", "fin") /\ SRecv(21)
  /\ UNCHANGED <<sent, got, want, left, kdone, owe>> /\ UNCHANGED SUnch

SKexDone ==    \* under t.mu: sentInitMsg = nil, thresholds reset, request tokens drained
  /\ kst["s"] = "fin"
  /\ ObserveKexDone
  /\ sent' = [sent EXCEPT !["s"] = FALSE] /\ got' = [got EXCEPT !["s"] = FALSE]
  /\ kst' = [kst EXCEPT !["s"] = "none"] /\ kdone' = [kdone EXCEPT !["s"] = @ + 1]
  /\ want' = [want EXCEPT !["s"] = FALSE]
  /\ UNCHANGED <<c2s, s2c, left, owe>> /\ UNCHANGED SUnch

SAppWrite ==   \* writePacket / the flush of pendingPackets
  /\ owe # <<>> /\ kst["s"] # "fin" /\ (GoQueues => ~sent["s"])
  /\ SSend(Head(owe)) /\ owe' = Tail(owe)
  /\ UNCHANGED <<sent, got, kst, want, left, kdone>> /\ UNCHANGED SUnch

-----------------------------------------------------------------------------
(* client: foreign peer *)
CWant ==
  /\ kdone["c"] >= 1 /\ ~want["c"] /\ ~sent["c"] /\ left["c"] > 0
  /\ want' = [want EXCEPT !["c"] = TRUE] /\ left' = [left EXCEPT !["c"] = @ - 1]
  /\ UNCHANGED <<c2s, s2c, sent, got, kst, nkS, nkR, kdone, cstage, csent, cgot>> /\ UNCHANGED CUnch /\ UNCHANGED mvars

CSendInit ==
  /\ ~sent["c"] /\ (want["c"] \/ got["c"])
  /\ CSend(20)
  /\ sent' = [sent EXCEPT !["c"] = TRUE] /\ want' = [want EXCEPT !["c"] = FALSE]
  /\ UNCHANGED <<got, kst, nkS, nkR, left, kdone, cstage, csent, cgot>> /\ UNCHANGED CUnch

\* both NEWKEYS through: the exchange is complete on the client
CComplete(s, r) ==
  IF s /\ r
  THEN /\ nkS' = FALSE /\ nkR' = FALSE
       /\ sent' = [sent EXCEPT !["c"] = FALSE] /\ got' = [got EXCEPT !["c"] = FALSE]
       /\ kst' = [kst EXCEPT !["c"] = "none"] /\ kdone' = [kdone EXCEPT !["c"] = @ + 1]
  ELSE /\ nkS' = s /\ nkR' = r /\ UNCHANGED <<sent, got, kst, kdone>>

CK(from, to) == kst["c"] = from /\ kst' = [kst EXCEPT !["c"] = to]
CKexStep ==
  /\ sent["c"] /\ got["c"]
  /\ \/ /\ "one" \in Methods /\ CK("none", "w1") /\ CSend(30) /\ UNCHANGED <<nkS, nkR, sent, got, kdone>>
     \/ /\ "two" \in Methods /\ CK("none", "gw1") /\ CSend(34) /\ UNCHANGED <<nkS, nkR, sent, got, kdone>>
     \/ /\ CK("w1", "nk") /\ CRecv(31) /\ UNCHANGED <<nkS, nkR, sent, got, kdone>>
     \/ /\ CK("gw1", "g2") /\ CRecv(31) /\ UNCHANGED <<nkS, nkR, sent, got, kdone>>
     \/ /\ CK("g2", "gw2") /\ CSend(32) /\ UNCHANGED <<nkS, nkR, sent, got, kdone>>
     \/ /\ CK("gw2", "nk") /\ CRecv(33) /\ UNCHANGED <<nkS, nkR, sent, got, kdone>>
     \/ /\ kst["c"] = "nk" /\ ~nkS /\ CSend(21) /\ CComplete(TRUE, nkR)
     \/ /\ kst["c"] = "nk" /\ ~nkR /\ CRecv(21) /\ CComplete(nkS, TRUE)
  /\ UNCHANGED <<want, left, cstage, csent, cgot>> /\ UNCHANGED CUnch

CRecvOther ==   \* KEXINIT and everything that is not part of a key exchange, at any time
  /\ s2c # <<>>
  /\ LET ty == Head(s2c) IN
     /\ ~IsKexMsg(ty) /\ ~IsNewKeys(ty)
     /\ CRecv(ty)
     /\ IF IsKexInit(ty) THEN ~got["c"] /\ got' = [got EXCEPT !["c"] = TRUE] /\ UNCHANGED <<cstage, cgot>>
        ELSE /\ UNCHANGED got
             /\ cstage' = IF ty = 6 /\ cstage = "svcW" THEN "auth"
                          ELSE IF ty = 52 /\ cstage = "authW" THEN "data"
                          ELSE cstage
             /\ cgot' = IF ty = 94 THEN cgot + 1 ELSE cgot
  /\ UNCHANGED <<sent, kst, nkS, nkR, want, left, kdone, csent>> /\ UNCHANGED CUnch

\* RFC 4253 7.1: nothing of the upper layers between own KEXINIT and own NEWKEYS, nothing
\* before the first NEWKEYS
CMayWrite == (kdone["c"] >= 1 \/ nkS) /\ (~sent["c"] \/ nkS)
CAppWrite ==
  /\ CMayWrite
  /\ \/ cstage = "svc" /\ CSend(5) /\ cstage' = "svcW" /\ UNCHANGED csent
     \/ cstage = "auth" /\ CSend(50) /\ cstage' = "authW" /\ UNCHANGED csent
     \/ cstage = "data" /\ csent < NData /\ CSend(94) /\ csent' = csent + 1 /\ UNCHANGED cstage
  /\ UNCHANGED <<sent, got, kst, nkS, nkR, want, left, kdone, cgot>> /\ UNCHANGED CUnch

-----------------------------------------------------------------------------
Quiet == /\ c2s = <<>> /\ s2c = <<>> /\ owe = <<>>
         /\ \A x \in Ends : ~sent[x] /\ ~got[x] /\ ~want[x] /\ kst[x] = "none"
EchoComplete == cstage = "data" /\ csent = NData /\ cgot = NData

End ==         \* the harness appends the "end" event once the peer has exited
  /\ ~ended /\ EchoComplete /\ Quiet
  /\ ObserveEnd(1, kdone["c"] - 1)     \* min := the re-keys the model knows were completed
  /\ ended' = TRUE
  /\ UNCHANGED <<c2s, s2c, sent, got, kst, nkS, nkR, want, left, kdone, owe, cstage, csent, cgot>>

Stutter == ended /\ UNCHANGED vars

Next == SWant \/ SSendInit \/ SReadLoop \/ SKexStep \/ SKexDone \/ SAppWrite
        \/ CWant \/ CSendInit \/ CKexStep \/ CRecvOther \/ CAppWrite
        \/ End \/ Stutter
Spec == Init /\ [][Next]_vars

-----------------------------------------------------------------------------
PTypeOK == /\ MTypeOK
           /\ sent \in [Ends -> BOOLEAN] /\ got \in [Ends -> BOOLEAN]
           /\ cgot <= csent /\ csent <= NData
\* the monitor counts exactly the exchanges the server completed, and the two ends agree up to
\* the one in flight
DoneAgrees == /\ done = kdone["s"] /\ ~failed
              /\ kdone["c"] <= kdone["s"] + 1 /\ kdone["s"] <= kdone["c"] + 1
\* no deadlock before the echo is complete is checked by TLC's deadlock detection (End and
\* Stutter make the completed session the only terminal state)
=============================================================================
