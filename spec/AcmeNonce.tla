------------------------------ MODULE AcmeNonce ------------------------------
(* Nonce pool, signed POST, retry/back-off and context handling of the ACME client in
   golang.org/x/crypto/acme:

     acme.go   popNonce / fetchNonce / addNonce / clearNonces   (Client.nonces, noncesMu)
     http.go   post (retry loop) / postNoRetry / doNoRetry / retryTimer.backoff,
               isBadNonce / isRetriable
     rfc8555.go + acme.go: every RFC 8555 operation is one or several consecutive post() calls
               (Register = 1, CreateOrderCert = finalize + certificate download = 2, ...)

   The ACME server is the environment: it hands out nonces (each one unique: 1, 2, 3, ...) in
   Replay-Nonce headers and answers every request with a reply kind of its choosing.  One
   action per critical section of the client:

     Call        the public method is entered (budget = number of positive RetryBackoff answers,
                 phases = number of consecutive post() calls it makes)
     PopPool     popNonce, pool non-empty: some nonce LEAVES the pool (under noncesMu)
     HeadStart   popNonce, pool empty: HEAD newNonce is sent while noncesMu is HELD
     HeadReply   server answers the HEAD (nonce / no header / 5xx / transport error / slow+cancel);
     HeadStart2  without a newNonce URL a failed HEAD of the directory falls back to a HEAD of the
                 request URL (second fetchNonce, still under the mutex)
     Send        the signed POST carrying the nonce reaches the server
     PostReply   server answers the POST
     AddNonce    addNonce(res.Header) under noncesMu (dropped when the pool is full), then the
                 decision of post(): ok -> next phase / return; badNonce -> clearNonces;
                 non-retriable -> return the error; retriable -> back-off
     Clear       clearNonces() -- as the code does it, AFTER addNonce, so the fresh nonce that came
                 with the badNonce error is discarded as well
     Backoff     RetryBackoff(n) <= 0 -> return last error; else sleep, during which the context
                 may be cancelled -> return last error
   Results carry the serial number of the reply they were derived from. *)
EXTENDS Integers, Sequences, FiniteSets, TLC

CONSTANTS Ops,          \* operation ids (integers)
          Budgets,      \* set of budgets an operation may be called with
          PhaseSet,     \* set of phase counts (1..3)
          MaxNonces,    \* capacity of the pool (100 in the code)
          MaxReplies,   \* bound on the number of server replies (script length)
          NonceURLs,    \* subset of BOOLEAN: does the directory advertise newNonce
          InitPools,    \* subset of {0,1}: did Discover's response carry a nonce
          StopVals      \* classes of the NON-POSITIVE value RetryBackoff returns when it ends the retries: "zero", "neg"

NoOp == 0
ASSUME NoOp \notin Ops

PostKinds == {"ok", "okNoNonce", "badNonce", "e500", "e429", "e403", "neterr", "cancel"}
HeadKinds == {"nonce", "noNonce", "e500", "neterr", "cancel"}
OkKinds   == {"ok", "okNoNonce"}
WithNonce == {"ok", "badNonce", "e500", "e429", "e403"}      \* POST replies with a Replay-Nonce header
Retriable == {"e500", "e429"}

\* class of the value/error the caller gets when reply kind k is the final one
Class(k) == CASE k \in OkKinds -> "ok"
              [] k \in {"badNonce", "e500", "e429", "e403"} -> "acmeerr"
              [] k = "neterr" -> "neterr"
              [] k = "cancel" -> "ctx"
              [] k = "noNonce" -> "nononce"
              [] OTHER -> "none"

VARIABLES hasNonceURL,  \* configuration (chosen in Init)
          nextN,        \* server: next nonce to issue; issued = 1..nextN-1
          used,         \* server: nonces seen in POSTs
          nrep,         \* server: number of replies given (serial of the last one)
          pool,         \* client: Client.nonces
          mu,           \* client: holder of noncesMu across a HEAD, or NoOp
          pc, nonce, tries, phase, posts, budget, phases, stopv, lastR, res, cancelled,
          bad,          \* history: some POST carried a nonce that was not issued or was already used
          late,         \* history: some request was sent by an operation after its context was cancelled
          ev            \* last event (hidden by VIEW in model checking; history for generation)

cvars == <<hasNonceURL, nextN, used, nrep, pool, mu, pc, nonce, tries, phase, posts, budget, phases, stopv, lastR, res, cancelled, bad, late>>
vars  == <<cvars, ev>>

NoReply == [k |-> "none", s |-> 0, m |-> 0]
NoRes   == [c |-> "none", s |-> 0]
E(t, o, k, n, s) == [t |-> t, o |-> o, k |-> k, n |-> n, s |-> s]

Issued == 1..(nextN - 1)

InitCfg(nurl, ip) ==
        /\ hasNonceURL = nurl
        /\ pool = 1..ip /\ nextN = ip + 1
        /\ used = {} /\ nrep = 0 /\ mu = NoOp
        /\ pc = [o \in Ops |-> "idle"] /\ nonce = [o \in Ops |-> 0] /\ tries = [o \in Ops |-> 0]
        /\ phase = [o \in Ops |-> 1] /\ posts = [o \in Ops |-> 0]
        /\ budget = [o \in Ops |-> 0] /\ phases = [o \in Ops |-> 1] /\ stopv = [o \in Ops |-> "zero"]
        /\ lastR = [o \in Ops |-> NoReply] /\ res = [o \in Ops |-> NoRes]
        /\ cancelled = [o \in Ops |-> FALSE]
        /\ bad = FALSE /\ late = FALSE
        /\ ev = E("init", 0, "", ip, 0)

Init == \E nurl \in NonceURLs, ip \in InitPools : InitCfg(nurl, ip)

Call(o, b, p, sv) ==
  /\ pc[o] = "idle"
  /\ budget' = [budget EXCEPT ![o] = b] /\ phases' = [phases EXCEPT ![o] = p] /\ stopv' = [stopv EXCEPT ![o] = sv]
  /\ pc' = [pc EXCEPT ![o] = "need"]
  /\ ev' = E("call", o, sv, b, p)
  /\ UNCHANGED <<hasNonceURL, nextN, used, nrep, pool, mu, nonce, tries, phase, posts, lastR, res, cancelled, bad, late>>

PopPool(o) ==
  /\ pc[o] = "need" /\ mu = NoOp /\ pool # {}
  /\ \E n \in pool : /\ pool' = pool \ {n}
                     /\ nonce' = [nonce EXCEPT ![o] = n]
                     /\ ev' = E("pop", o, "", n, 0)
  /\ pc' = [pc EXCEPT ![o] = "send"]
  /\ UNCHANGED <<hasNonceURL, nextN, used, nrep, mu, tries, phase, posts, budget, phases, stopv, lastR, res, cancelled, bad, late>>

HeadStart(o) ==
  /\ pc[o] = "need" /\ mu = NoOp /\ pool = {}
  /\ mu' = o
  /\ pc' = [pc EXCEPT ![o] = "head1"]
  /\ late' = (late \/ cancelled[o])
  /\ ev' = E("head", o, "", 0, 0)
  /\ UNCHANGED <<hasNonceURL, nextN, used, nrep, pool, nonce, tries, phase, posts, budget, phases, stopv, lastR, res, cancelled, bad>>

\* the fallback HEAD (request URL) goes on the wire; noncesMu is still held
HeadStart2(o) ==
  /\ pc[o] = "fb" /\ mu = o
  /\ pc' = [pc EXCEPT ![o] = "head2"]
  /\ late' = (late \/ cancelled[o])
  /\ ev' = E("head", o, "", 0, 0)
  /\ UNCHANGED <<hasNonceURL, nextN, used, nrep, pool, mu, nonce, tries, phase, posts, budget, phases, stopv, lastR, res, cancelled, bad>>

\* result of an operation that ends with reply r
Finish(o, r) == /\ pc' = [pc EXCEPT ![o] = "done"]
                /\ res' = [res EXCEPT ![o] = [c |-> Class(r.k), s |-> r.s]]

HeadReply(o, k) ==
  /\ pc[o] \in {"head1", "head2"} /\ nrep < MaxReplies
  /\ LET s == nrep + 1
         r == [k |-> k, s |-> s, m |-> IF k = "nonce" THEN nextN ELSE 0] IN
     /\ nrep' = s
     /\ lastR' = [lastR EXCEPT ![o] = r]
     /\ ev' = E("headReply", o, k, r.m, s)
     /\ IF k = "nonce"
        THEN /\ nextN' = nextN + 1
             /\ nonce' = [nonce EXCEPT ![o] = nextN]
             /\ pc' = [pc EXCEPT ![o] = "send"]
             /\ mu' = NoOp
             /\ UNCHANGED <<res, cancelled>>
        ELSE /\ UNCHANGED <<nextN, nonce>>
             /\ cancelled' = [cancelled EXCEPT ![o] = (k = "cancel")]
             /\ IF pc[o] = "head1" /\ ~hasNonceURL /\ k # "cancel"
                THEN \* fallback: second fetchNonce on the request URL, mutex still held
                     /\ pc' = [pc EXCEPT ![o] = "fb"] /\ UNCHANGED <<mu, res>>
                ELSE \* (after "cancel" the fallback HEAD is refused by the transport: ctx error)
                     /\ Finish(o, r) /\ mu' = NoOp
  /\ UNCHANGED <<hasNonceURL, used, pool, tries, phase, posts, budget, phases, stopv, bad, late>>

Send(o) ==
  /\ pc[o] = "send"
  /\ posts' = [posts EXCEPT ![o] = @ + 1]
  /\ bad' = (bad \/ nonce[o] \notin Issued \/ nonce[o] \in used)
  /\ late' = (late \/ cancelled[o])
  /\ used' = used \cup {nonce[o]}
  /\ pc' = [pc EXCEPT ![o] = "wait"]
  /\ ev' = E("post", o, "", nonce[o], phase[o])
  /\ UNCHANGED <<hasNonceURL, nextN, nrep, pool, mu, nonce, tries, phase, budget, phases, stopv, lastR, res, cancelled>>

PostReply(o, k) ==
  /\ pc[o] = "wait" /\ nrep < MaxReplies
  /\ LET s == nrep + 1
         r == [k |-> k, s |-> s, m |-> IF k \in WithNonce THEN nextN ELSE 0] IN
     /\ nrep' = s
     /\ nextN' = IF k \in WithNonce THEN nextN + 1 ELSE nextN
     /\ lastR' = [lastR EXCEPT ![o] = r]
     /\ nonce' = [nonce EXCEPT ![o] = 0]
     /\ ev' = E("postReply", o, k, r.m, s)
     /\ IF k \in {"neterr", "cancel"}
        THEN /\ Finish(o, r)
             /\ cancelled' = [cancelled EXCEPT ![o] = (k = "cancel")]
        ELSE /\ pc' = [pc EXCEPT ![o] = "add"] /\ UNCHANGED <<res, cancelled>>
  /\ UNCHANGED <<hasNonceURL, used, pool, mu, tries, phase, posts, budget, phases, stopv, bad, late>>

AddNonce(o) ==
  /\ pc[o] = "add"
  /\ LET r == lastR[o] IN
     /\ IF r.m = 0 THEN pool' = pool          \* no header: addNonce returns before taking the lock
        ELSE /\ mu = NoOp
             /\ pool' = IF Cardinality(pool) >= MaxNonces THEN pool ELSE pool \cup {r.m}
     /\ ev' = E("add", o, r.k, r.m, r.s)
     /\ CASE r.k \in OkKinds ->
               IF phase[o] < phases[o]
               THEN /\ phase' = [phase EXCEPT ![o] = @ + 1] /\ tries' = [tries EXCEPT ![o] = 0]
                    /\ posts' = [posts EXCEPT ![o] = 0] /\ pc' = [pc EXCEPT ![o] = "need"]
                    /\ UNCHANGED res
               ELSE Finish(o, r) /\ UNCHANGED <<phase, tries, posts>>
          [] r.k = "badNonce" -> pc' = [pc EXCEPT ![o] = "clear"] /\ UNCHANGED <<phase, tries, posts, res>>
          [] r.k \in Retriable -> /\ pc' = [pc EXCEPT ![o] = "backoff"] /\ tries' = [tries EXCEPT ![o] = @ + 1]
                                  /\ UNCHANGED <<phase, posts, res>>
          [] OTHER -> Finish(o, r) /\ UNCHANGED <<phase, tries, posts>>
  /\ UNCHANGED <<hasNonceURL, nextN, used, nrep, mu, nonce, budget, phases, stopv, lastR, cancelled, bad, late>>

Clear(o) ==
  /\ pc[o] = "clear" /\ mu = NoOp
  /\ pool' = {}
  /\ tries' = [tries EXCEPT ![o] = @ + 1]
  /\ pc' = [pc EXCEPT ![o] = "backoff"]
  /\ ev' = E("clear", o, "", 0, 0)
  /\ UNCHANGED <<hasNonceURL, nextN, used, nrep, mu, nonce, phase, posts, budget, phases, stopv, lastR, res, cancelled, bad, late>>

(* The value RetryBackoff returns has a class: positive (n <= budget), or NON-POSITIVE -- stopv[o] in
   {"zero", "neg"} -- once the budget is used up.  Client.RetryBackoff's documentation: "If the returned
   value is negative or zero, no more retries are done and an error is returned": BOTH classes end the
   retries with the CA's error of the final reply, and the requests sent are retries taken + 1.
   The default back-off (RetryBackoff = nil) produces the same classes from the reply's Retry-After:
   absent / positive seconds / zero seconds (+ jitter >= 1 ms) / date in the future -> positive;
   negative seconds below the jitter / date in the past -> negative. *)
DefaultBackoffClass(ra) == IF ra \in {"absent", "posSeconds", "zeroSeconds", "futureDate"} THEN "pos" ELSE "neg"
ASSUME \A ra \in {"negSeconds", "pastDate"} : DefaultBackoffClass(ra) = "neg"
\* how: "stop" (RetryBackoff <= 0: zero OR negative), "wake" (slept), "cancel" (context cancelled while sleeping)
Backoff(o, how) ==
  /\ pc[o] = "backoff"
  /\ IF tries[o] > budget[o] THEN how = "stop" ELSE how \in {"wake", "cancel"}
  /\ ev' = E("backoff", o, how, tries[o], lastR[o].s)
  /\ IF how = "wake"
     THEN pc' = [pc EXCEPT ![o] = "need"] /\ UNCHANGED <<res, cancelled>>
     ELSE /\ pc' = [pc EXCEPT ![o] = "done"]
          /\ res' = [res EXCEPT ![o] = [c |-> "acmeerr", s |-> lastR[o].s]]
          /\ cancelled' = [cancelled EXCEPT ![o] = (how = "cancel")]
  /\ UNCHANGED <<hasNonceURL, nextN, used, nrep, pool, mu, nonce, tries, phase, posts, budget, phases, stopv, lastR, bad, late>>

Next == \E o \in Ops :
          \/ \E b \in Budgets, p \in PhaseSet, sv \in StopVals : Call(o, b, p, sv)
          \/ PopPool(o) \/ HeadStart(o) \/ HeadStart2(o) \/ Send(o) \/ AddNonce(o) \/ Clear(o)
          \/ \E k \in HeadKinds : HeadReply(o, k)
          \/ \E k \in PostKinds : PostReply(o, k)
          \/ \E h \in {"stop", "wake", "cancel"} : Backoff(o, h)

Spec == Init /\ [][Next]_vars

-----------------------------------------------------------------------------
(* Properties *)

TypeOK == /\ pool \subseteq Issued /\ used \subseteq Issued
          /\ mu \in Ops \cup {NoOp}
          /\ \A o \in Ops : pc[o] \in {"idle", "need", "head1", "fb", "head2", "send", "wait", "add", "clear", "backoff", "done", "returned"}

\* N1: every signed request carries a nonce the server issued and that was never used before.
N1_FreshNonces == ~bad
\* the reason why (inductive shape): nonces held by operations, the pool and the used set are disjoint
N1_Discipline == /\ pool \cap used = {}
                 /\ \A o \in Ops : pc[o] = "send" =>
                        /\ nonce[o] \in Issued /\ nonce[o] \notin used /\ nonce[o] \notin pool
                        /\ \A o2 \in Ops \ {o} : pc[o2] = "send" => nonce[o2] # nonce[o]
                 \* a nonce that arrived with a reply but is not yet added is nowhere else
                 /\ \A o \in Ops : pc[o] = "add" /\ lastR[o].m # 0 => lastR[o].m \notin pool \cup used

\* N2: POSTs per post() call bounded by the back-off budget; retry counter bounded; nothing is sent
\*     once the operation's context is cancelled, and a cancelled operation has returned.
N2_Bounded == \A o \in Ops : posts[o] <= budget[o] + 1 /\ tries[o] <= budget[o] + 1
N2_Cancel  == ~late /\ \A o \in Ops : cancelled[o] => pc[o] \in {"done", "returned"}

\* N3: the value/error returned corresponds to the last reply the operation received.
N3_LastReply == \A o \in Ops : pc[o] = "done" =>
                   /\ res[o].s = lastR[o].s
                   /\ res[o].c = Class(lastR[o].k)
                   /\ res[o].c = "ok" => phase[o] = phases[o]

\* N4: the pool never exceeds its capacity.
N4_PoolCap == Cardinality(pool) <= MaxNonces

\* the mutex is held exactly while some operation is in a HEAD
MutexOK == /\ (mu # NoOp) <=> (\E o \in Ops : pc[o] \in {"head1", "fb", "head2"})
           /\ \A o \in Ops : pc[o] \in {"head1", "fb", "head2"} => mu = o
AllDone == \A o \in Ops : pc[o] = "done"
=============================================================================
