SPECIFICATION TraceSpec
CONSTANTS
  MaxSrv = 1000000
  MaxCli = 1000000
  ReqBuf = 16
  Cfgs = {}
  Lite = "full"
INVARIANTS S1_ExitResult S2_Conservation S2_NoDataLoss S3_StartOnce S5_StdinEOF S6_StartFailure S7_ReplyValue S8_NoStuckCall S9_NoStall
CONSTRAINT HWM
POSTCONDITION TraceAccepted
CHECK_DEADLOCK FALSE
