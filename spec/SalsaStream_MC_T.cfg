SPECIFICATION Spec
CONSTANTS
  BS = 3
  Wide = 4
  DB = 4
  ND = 4
  MaxLen = 40
  Impls = {"gen", "asm"}
  NoCarry = FALSE
INVARIANTS TypeOK PrefixOK CounterOK DoneOK
PROPERTIES Terminates
CHECK_DEADLOCK FALSE
