------------------------------ MODULE SSHSession ------------------------------
(* Growth specification X01: the SSH client session layer (RFC 4254 section 6).

   Models golang.org/x/crypto/ssh  session.go  on top of the channel/mux layer that SSHChannel.tla
   (flow control, C35) and SSHMux.tla (packet handling, reply gates, C36) already specify:
     newSession (+ the goroutine running Session.wait over the channel's request stream),
     Start / Shell / Run / Output / CombinedOutput, Session.start (stdin/stdout/stderr copy goroutines),
     Wait (exitStatus, stdinPipeWriter.Close, collection of the copy results),
     Session.wait (exit-status, exit-signal, other requests answered with failure, malformed payloads),
     StdinPipe / StdoutPipe / StderrPipe, sessionStdin.Close (= CloseWrite),
     Setenv / RequestPty / RequestSubsystem / SendRequest(wantReply) , Signal / WindowChange /
     SendRequest(no reply), Close, ExitError / ExitMissingError.

   Big-step semantics (as SSHMux): one action = one event followed by everything the client does
   until the connection is quiescent again.  Events are (a) a call the application starts on the
   Session, (b) something the harness-controlled Stdin reader does (yields a chunk / EOF / an error),
   (c) ONE thing the server does on its end of the session channel through the real server-side
   Channel API: answer the pending want-reply request, write a chunk to stdout / stderr, CloseWrite
   (EOF), send exit-status / exit-signal (well-formed or truncated), send a want-reply keepalive
   request, Close, or drop the connection.  The server may do these in every order the channel API
   permits (no data after its own EOF, nothing after its own close).  Because both ends are real
   muxes the close handshake completes inside one step, so at quiescent points "closed" is one flag.

   Observable per step (compared with the real Session by harness/x01): control packets the client
   wrote (`out`), calls that returned with their result (`done`), tokens delivered so far to each
   output destination (`gotOut`, `gotErr`), stdin tokens the server has read (`srvIn`), the result of
   the server's keepalive request.

   Data is abstracted to tokens: the i-th chunk the server writes is token i (the harness gives it
   a seeded length and a byte pattern that identifies stream, token and offset); likewise for stdin.

   PROPERTIES (documented behaviour of package ssh, session.go doc comments, RFC 4254 6.5-6.10):
     S1 ExitResult    Wait/Run/Output/CombinedOutput return nil iff the exit-status the server sent
                      (the last one) is 0 and no copy failed; *ExitError carrying that status (or
                      128+signal number and the signal name when only exit-signal was sent) when it is
                      not 0; *ExitMissingError iff the channel closed without exit-status and
                      exit-signal; the result does not depend on the order of EOF / exit-* / data.
     S2 NoDataLoss    when Wait (or Run/Output/CombinedOutput) returns, every byte the server wrote
                      to stdout / stderr before its EOF / close has been delivered, complete and in
                      order, to the configured writer (or is returned by Output / CombinedOutput);
                      at every moment delivered ++ buffered = sent (nothing lost, invented, reordered).
     S3 StartOnce     at most one of Start/Shell/Run/Output/CombinedOutput succeeds per Session; later
                      ones fail without sending a request; Wait before a successful start fails.
     S4 RunIsStartWait Run(cmd) behaves as Start(cmd) followed by Wait() (by construction of the model;
                      the binding replays real Run against it).
     S5 StdinEOF      closing the StdinPipe sends EOF after all data written before; with Stdin = nil
                      the server sees EOF right after the command started; with a Stdin reader EOF is
                      sent when the reader is exhausted or when Wait has seen the exit status; stdin
                      data reaches the server complete and in order.
     S6 StartFailure  a failure reply (or the channel closing) makes the start call return an error,
                      the session is not started and no copy goroutine / EOF is produced.
     S7 ReplyValue    a want-reply request returns exactly the answer the server gave to it, in the
                      step in which the answer arrived; no-reply requests return nil iff sent.
     S8 NoStuckCall   once the channel is closed (close from either side, or connection lost) no call
                      is blocked: Wait has returned, pending requests have failed.
     S9 NoPanic       (binding) no server packet order makes the client panic or leaves a goroutine
                      of package ssh blocked for ever after the connection ended; model level: the
                      client's read loop is never blocked by requests nobody services (S9_NoStall; fails
                      for the code as it is beyond the bounds, see Unserviced and known finding X01-F1).

   Scope of S2 on connection loss (sdrop): asserted for what was consumed at quiescent points; output
   still in flight when the connection disappears is outside the promise (see the claim's note).
*)
EXTENDS Integers, Sequences, FiniteSets, TLC

CONSTANTS MaxSrv,      \* server events per history
          MaxCli,      \* client events (calls + stdin reader events) per history
          Cfgs,        \* set of session configurations [stdin: "nil"|"reader", outs: "nil"|"buf"]
          ReqBuf,      \* capacity of the channel's request stream (chanSize = 16 in channel.go)
          Lite         \* alphabets: "full" | "lite" (reduced, deeper histories) | "srv" (one start call, then the server acts)

VARIABLES S, hist

Ev(k, v, x) == [k |-> k, v |-> v, x |-> x]
R(c, st, sig) == [c |-> c, st |-> st, sig |-> sig]       \* result of a call
NoRes == R("", 0, "")
Ok == R("ok", 0, "")
Err == R("err", 0, "")

\* signal numbers behind "128 + n" (session.go `signals`; USR1 / USR2 and unknown names have none: status 128)
SigTable == [ABRT |-> 6, ALRM |-> 14, FPE |-> 8, HUP |-> 1, ILL |-> 4, INT |-> 2, KILL |-> 9, PIPE |-> 13, QUIT |-> 3,
             SEGV |-> 11, TERM |-> 15]
SigNum(sig) == IF sig \in DOMAIN SigTable THEN SigTable[sig] ELSE 0

Init0(c) ==
  [cfg |-> c, started |-> FALSE, inpipe |-> FALSE, outpipe |-> FALSE, errpipe |-> FALSE,
   outW |-> IF c.outs = "buf" THEN -1 ELSE 0,      \* s.Stdout: 0 nil, -1 the user's writer, -2 io.Discard, i > 0 the buffer of call i
   errW |-> IF c.outs = "buf" THEN -1 ELSE 0,
   outMode |-> "none", errMode |-> "none",         \* who consumes the stream: "none" | "pipe" (StdoutPipe reader) | "copy"
   calls |-> <<>>, reqWaiter |-> 0, waiter |-> 0, wph |-> "", wres |-> NoRes, waited |-> FALSE,
   wm |-> [status |-> -1, sig |-> ""], waitG |-> "run", exitRes |-> NoRes, exitAvail |-> FALSE,
   closed |-> FALSE, dead |-> FALSE, cEOF |-> FALSE, sEOF |-> FALSE,
   bufOut |-> <<>>, bufErr |-> <<>>, gotOut |-> <<>>, gotErr |-> <<>>, sentOut |-> <<>>, sentErr |-> <<>>,
   cpIn |-> "none", cpOut |-> "none", cpErr |-> "none",          \* "none" | "run" | "ok" | "err"
   rd |-> "open", pipeW |-> "open", srvIn |-> <<>>, nIn |-> 0, nTok |-> 0,
   sKA |-> "none", ka |-> "",
   exits |-> <<>>,                                   \* ghost: exit-* requests the server sent while the channel was open
   nStartOk |-> 0,                                   \* ghost: start calls that succeeded
   ioRace |-> FALSE,                                 \* see TakeExit
   early |-> FALSE,                                  \* Session.wait returned before the channel closed (malformed exit-* request)
   unsv |-> 0, stalled |-> FALSE,                    \* requests nobody reads any more; the mux read loop is blocked on the stream
   out |-> <<>>, done |-> {}, last |-> Ev("init", "", 0), ns |-> 0, nc |-> 0]

Begin(s, e) == [s EXCEPT !.out = <<>>, !.done = {}, !.last = e, !.ka = "", !.ioRace = FALSE]
Emit(s, p) == [s EXCEPT !.out = Append(@, p)]
Finish(s, c, res) ==
  IF c = 0 THEN s
  ELSE [s EXCEPT !.calls[c] = [@ EXCEPT !.st = "done", !.res = res], !.done = @ \cup {<<c, res>>}]

-----------------------------------------------------------------------------
(* the client's reactions *)

\* Session.wait's final computation
ExitResult(wm) ==
  IF wm.status = 0 THEN R("nil", 0, "")
  ELSE IF wm.status = -1
         THEN (IF wm.sig = "" THEN R("missing", 0, "") ELSE R("exit", 128 + SigNum(wm.sig), wm.sig))
         ELSE R("exit", wm.status, wm.sig)

\* CloseWrite by the stdin copy goroutine (or sessionStdin.Close): EOF packet unless the channel is closed
SendEOF(s) == IF s.closed THEN [s EXCEPT !.cEOF = TRUE] ELSE Emit([s EXCEPT !.cEOF = TRUE], "eof")

\* the goroutine running Session.wait: returns when the request stream is closed
WaitG(s) ==
  IF s.waitG = "run" /\ s.closed
    THEN [s EXCEPT !.waitG = "done", !.exitRes = ExitResult(s.wm), !.exitAvail = TRUE]
    ELSE s

\* stdout / stderr consumers (copy goroutine or pipe reader): take everything buffered; finish at EOF / close
Copy(s) ==
  LET eof == s.sEOF \/ s.closed
      s1 == IF s.cpOut = "run"
              THEN [s EXCEPT !.gotOut = @ \o s.bufOut, !.bufOut = <<>>, !.cpOut = IF eof THEN "ok" ELSE "run"]
              ELSE s
  IN IF s1.cpErr = "run"
       THEN [s1 EXCEPT !.gotErr = @ \o s1.bufErr, !.bufErr = <<>>, !.cpErr = IF eof THEN "ok" ELSE "run"]
       ELSE s1

CopierDone(st) == st \in {"none", "ok", "err"}
AwaitedDone(s) == /\ CopierDone(s.cpIn)
                  /\ (s.outMode = "copy" => CopierDone(s.cpOut))
                  /\ (s.errMode = "copy" => CopierDone(s.cpErr))
AwaitedErr(s) == \/ s.cpIn = "err"
                 \/ (s.outMode = "copy" /\ s.cpOut = "err")
                 \/ (s.errMode = "copy" /\ s.cpErr = "err")

\* Wait after it received the exit result: closes stdinPipeWriter (the stdin copy then sees EOF and does CloseWrite)
\* ioRace: when the connection is lost (no close handshake) mux.loop runs channel.close(), which closes the
\* request stream BEFORE it sets sentClose; Session.wait and Wait wake up, the stdin copy does CloseWrite and may
\* still reach the dead connection, whose write error (not io.EOF) becomes the copy result: Wait may then return
\* that I/O error instead of nil ("Other error types may be returned for I/O problems").  The model returns the
\* result without the race and flags the step; the binding accepts a non-nil non-Exit error in place of nil there.
TakeExit(s) ==
  LET s1 == [s EXCEPT !.exitAvail = FALSE, !.wph = "copies", !.wres = s.exitRes] IN
  IF s1.cfg.stdin = "reader" /\ ~s1.inpipe /\ s1.pipeW = "open"
    THEN LET s2 == [s1 EXCEPT !.pipeW = "closed"] IN
         IF s2.cpIn = "run" THEN [SendEOF(s2) EXCEPT !.cpIn = "ok", !.ioRace = (s2.dead /\ s2.last.k = "sdrop")] ELSE s2
    ELSE s1

WaitCall(s) ==
  IF s.waiter = 0 THEN s
  ELSE LET s1 == IF s.wph = "exit" /\ s.exitAvail THEN TakeExit(s) ELSE s IN
       IF s1.wph = "copies" /\ AwaitedDone(s1)
         THEN Finish([s1 EXCEPT !.waiter = 0, !.wph = ""], s1.waiter,
                     IF s1.wres.c # "nil" THEN s1.wres ELSE IF AwaitedErr(s1) THEN R("copyerr", 0, "") ELSE s1.wres)
         ELSE s1

Settle(s) == WaitCall(Copy(WaitG(s)))

\* the channel is closed (close handshake done, or the mux loop exited): pending requests fail
OnClosed(s) ==
  LET s1 == [s EXCEPT !.closed = TRUE, !.reqWaiter = 0,
                      !.sKA = "none", !.ka = IF s.sKA = "pending" THEN "err" ELSE @] IN
  Finish(s1, s.reqWaiter, Err)

\* Session.start
DoStart(s) ==
  LET s1 == [s EXCEPT !.started = TRUE, !.nStartOk = @ + 1]
      s2 == IF s1.inpipe THEN s1
            ELSE IF s1.cfg.stdin = "nil" THEN [SendEOF(s1) EXCEPT !.cpIn = "ok"]    \* io.Copy of an empty buffer, then CloseWrite
            ELSE [s1 EXCEPT !.cpIn = "run"]
      s3 == IF s2.outpipe THEN s2                        \* a nil writer becomes io.Discard (-2)
            ELSE [s2 EXCEPT !.outMode = "copy", !.cpOut = "run", !.outW = IF @ = 0 THEN -2 ELSE @]
  IN IF s3.errpipe THEN s3
     ELSE [s3 EXCEPT !.errMode = "copy", !.cpErr = "run", !.errW = IF @ = 0 THEN -2 ELSE @]

EnterWait(s, c) == [s EXCEPT !.waited = TRUE, !.waiter = c, !.wph = "exit"]

StartKinds == {"start", "shell", "run", "output", "combined"}
RunKinds == {"run", "output", "combined"}

\* the answer to the pending want-reply request arrived
Replied(s, ok) ==
  LET c == s.reqWaiter
      k == s.calls[c].k
      s1 == [s EXCEPT !.reqWaiter = 0] IN
  IF k = "reqwr" THEN Finish(s1, c, R(IF ok THEN "true" ELSE "false", 0, ""))
  ELSE IF ~ok THEN Finish(s1, c, Err)                                   \* "ssh: command ... failed"
  ELSE IF k \in RunKinds THEN EnterWait(DoStart(s1), c)
  ELSE Finish(DoStart(s1), c, Ok)

-----------------------------------------------------------------------------
(* server events; s is the state after Begin *)

\* The code as it is: once Session.wait has returned early (malformed exit-status / exit-signal) nobody reads the
\* channel's request stream; it buffers ReqBuf requests, the next one blocks mux.loop inside channel.handlePacket:
\* the whole connection stalls and the loop never gets to close anything (S9_NoStall fails; design-level
\* counterexample with a small ReqBuf in SSHSession_Stall.cfg, directed test harness/x01 TestStall for ReqBuf = 16).
\* A repaired Session.wait (keeps discarding requests, answering failure) never gets here; whether a keepalive
\* after the early return is answered is therefore not compared by the bindings (Obs.kf).
Unserviced(s) == IF s.unsv >= ReqBuf THEN [s EXCEPT !.stalled = TRUE] ELSE [s EXCEPT !.unsv = @ + 1]

SrvStep(s0, e) ==
  LET s == [Begin(s0, e) EXCEPT !.ns = @ + 1] IN
  Settle(
  CASE e.k = "sreply" -> Replied(s, e.v = "ok")
    [] e.k = "sdata" ->
         LET t == s.nTok + 1 IN
         IF e.v = "out" THEN [s EXCEPT !.nTok = t, !.sentOut = Append(@, t), !.bufOut = Append(@, t)]
                        ELSE [s EXCEPT !.nTok = t, !.sentErr = Append(@, t), !.bufErr = Append(@, t)]
    [] e.k = "seof" -> [s EXCEPT !.sEOF = TRUE]
    [] e.k = "sexit" ->
         LET s1 == [s EXCEPT !.exits = Append(@, Ev("status", "", e.x))] IN
         IF s.waitG = "run" THEN [s1 EXCEPT !.wm.status = e.x] ELSE Unserviced(s1)
    [] e.k = "ssig" ->
         LET s1 == [s EXCEPT !.exits = Append(@, Ev("sig", e.v, 0))] IN
         IF s.waitG = "run" THEN [s1 EXCEPT !.wm.sig = e.v] ELSE Unserviced(s1)
    [] e.k \in {"sexitbad", "ssigbad"} ->
         LET s1 == [s EXCEPT !.exits = Append(@, Ev("bad", "", 0))] IN
         IF s.waitG = "run" THEN [s1 EXCEPT !.waitG = "done", !.early = TRUE, !.exitRes = R("malformed", 0, ""), !.exitAvail = TRUE]
         ELSE Unserviced(s1)
    [] e.k = "ska" ->                              \* want-reply request of another type: Session.wait answers failure
         IF s.waitG = "run" THEN [Emit(s, "fail") EXCEPT !.ka = "false"] ELSE Unserviced([s EXCEPT !.sKA = "pending"])
    [] e.k = "sclose" -> OnClosed(Emit(s, "close"))    \* the client's mux answers close, then channel.close()
    [] e.k = "sdrop" -> OnClosed([s EXCEPT !.dead = TRUE]))

FullSrvEvents(s) ==
  IF s.closed THEN {}
  ELSE {Ev("sreply", v, 0) : v \in IF s.reqWaiter # 0 THEN {"ok", "fail"} ELSE {}}
       \cup {Ev("sdata", v, 0) : v \in IF s.sEOF THEN {} ELSE {"out", "err"}}
       \cup {Ev("seof", "", 0) : x \in IF s.sEOF THEN {} ELSE {1}}
       \cup {Ev("sexit", "", x) : x \in {0, 3}}
       \cup {Ev("ssig", v, x) : v \in {"KILL", "USR1"}, x \in {0, 1}}
       \cup {Ev("sexitbad", "", 0), Ev("ssigbad", "", 0), Ev("sclose", "", 0), Ev("sdrop", "", 0)}
       \cup {Ev("ska", "", 0) : x \in IF s.sKA = "none" THEN {1} ELSE {}}

LiteSrvEvents(s) ==
  IF s.closed THEN {}
  ELSE {Ev("sreply", v, 0) : v \in IF s.reqWaiter # 0 THEN {"ok", "fail"} ELSE {}}
       \cup {Ev("sdata", v, 0) : v \in IF s.sEOF THEN {} ELSE {"out", "err"}}
       \cup {Ev("seof", "", 0) : x \in IF s.sEOF THEN {} ELSE {1}}
       \cup {Ev("sexit", "", 0), Ev("sexit", "", 3), Ev("ssig", "KILL", 1), Ev("sexitbad", "", 0), Ev("sclose", "", 0)}

SrvCentricEvents(s) ==
  IF s.closed THEN {}
  ELSE {Ev("sreply", v, 0) : v \in IF s.reqWaiter # 0 THEN {"ok", "fail"} ELSE {}}
       \cup {Ev("sdata", v, 0) : v \in IF s.sEOF THEN {} ELSE {"out", "err"}}
       \cup {Ev("seof", "", 0) : x \in IF s.sEOF THEN {} ELSE {1}}
       \cup {Ev("sexit", "", 0), Ev("sexit", "", 3), Ev("ssig", "KILL", 1), Ev("ssig", "USR1", 0),
             Ev("sexitbad", "", 0), Ev("ssigbad", "", 0), Ev("sclose", "", 0), Ev("sdrop", "", 0)}
       \cup {Ev("ska", "", 0) : x \in IF s.sKA = "none" THEN {1} ELSE {}}

SrvEvents(s) == IF Lite = "lite" THEN LiteSrvEvents(s) ELSE IF Lite = "srv" THEN SrvCentricEvents(s) ELSE FullSrvEvents(s)

-----------------------------------------------------------------------------
(* client events *)

NewCall(s, e) == [s EXCEPT !.calls = Append(@, [k |-> e.k, st |-> "wait", res |-> NoRes])]
Me(s) == Len(s.calls)
IsCall(e) == e.k \notin {"feed", "feedeof", "feederr"}

\* Start / Shell and, for the Run family, the checks of Output / CombinedOutput first
CStart(s, k) ==
  LET c == Me(s)
      refused == \/ (k = "output" /\ s.outW # 0)
                 \/ (k = "combined" /\ (s.outW # 0 \/ s.errW # 0))
      s1 == IF k = "output" THEN [s EXCEPT !.outW = c]
            ELSE IF k = "combined" THEN [s EXCEPT !.outW = c, !.errW = c] ELSE s
  IN IF refused THEN Finish(s, c, Err)
     ELSE IF s1.started THEN Finish(s1, c, Err)                       \* "ssh: session already started"
     ELSE IF s1.closed THEN Finish(s1, c, Err)                        \* the request cannot be sent: io.EOF
     ELSE [Emit(s1, IF k = "shell" THEN "req:shell:1" ELSE "req:exec:1") EXCEPT !.reqWaiter = c]

CWait(s) == IF ~s.started THEN Finish(s, Me(s), Err) ELSE EnterWait(s, Me(s))

CReq(s, wr, name) ==
  IF s.closed THEN Finish(s, Me(s), Err)
  ELSE IF wr THEN [Emit(s, "req:" \o name \o ":1") EXCEPT !.reqWaiter = Me(s)]
  ELSE Finish(Emit(s, "req:" \o name \o ":0"), Me(s), Ok)

CliStep(s0, e) ==
  LET sb == [Begin(s0, e) EXCEPT !.nc = @ + 1]
      s == IF IsCall(e) THEN NewCall(sb, e) ELSE sb IN
  Settle(
  CASE e.k \in StartKinds -> CStart(s, e.k)
    [] e.k = "wait" -> CWait(s)
    [] e.k = "reqwr" -> CReq(s, TRUE, e.v)
    [] e.k = "reqnw" -> CReq(s, FALSE, e.v)
    [] e.k = "stdinpipe" ->
         IF s.cfg.stdin = "reader" \/ s.started THEN Finish(s, Me(s), Err)
         ELSE Finish([s EXCEPT !.inpipe = TRUE], Me(s), Ok)
    [] e.k = "stdoutpipe" ->
         IF s.outW # 0 \/ s.started THEN Finish(s, Me(s), Err)
         ELSE Finish([s EXCEPT !.outpipe = TRUE, !.outMode = "pipe", !.cpOut = "run"], Me(s), Ok)
    [] e.k = "stderrpipe" ->
         IF s.errW # 0 \/ s.started THEN Finish(s, Me(s), Err)
         ELSE Finish([s EXCEPT !.errpipe = TRUE, !.errMode = "pipe", !.cpErr = "run"], Me(s), Ok)
    [] e.k = "close" ->
         IF s.closed THEN Finish(s, Me(s), Err)
         ELSE Finish(OnClosed(Emit(s, "close")), Me(s), Ok)           \* the server's mux answers close at once
    [] e.k = "pwrite" ->                                              \* Write on the StdinPipe
         IF s.closed \/ s.cEOF THEN Finish(s, Me(s), Err)
         ELSE Finish([s EXCEPT !.nIn = @ + 1, !.srvIn = Append(@, s.nIn + 1)], Me(s), Ok)
    [] e.k = "pclose" ->                                              \* Close on the StdinPipe = CloseWrite
         IF s.closed THEN Finish([s EXCEPT !.cEOF = TRUE], Me(s), Err)
         ELSE Finish(SendEOF(s), Me(s), Ok)
    [] e.k = "feed" ->                                                \* the Stdin reader yields a chunk
         IF s.cpIn # "run" THEN [s EXCEPT !.nIn = @ + 1]              \* nobody reads the internal pipe any more
         ELSE IF s.closed THEN [s EXCEPT !.nIn = @ + 1, !.cpIn = "err", !.cEOF = TRUE]   \* Write fails: io.EOF
         ELSE [s EXCEPT !.nIn = @ + 1, !.srvIn = Append(@, s.nIn + 1)]
    [] e.k = "feedeof" ->
         IF s.cpIn = "run" THEN [SendEOF([s EXCEPT !.rd = "eof"]) EXCEPT !.cpIn = "ok"] ELSE [s EXCEPT !.rd = "eof"]
    [] e.k = "feederr" ->
         IF s.cpIn = "run" THEN [SendEOF([s EXCEPT !.rd = "err"]) EXCEPT !.cpIn = "err"] ELSE [s EXCEPT !.rd = "err"])

WantReplyKinds == StartKinds \cup {"reqwr"}

FullCliEvents(s) ==
  {Ev(k, "", 0) : k \in IF s.reqWaiter = 0 \/ s.started THEN StartKinds ELSE {}}
  \cup {Ev("wait", "", 0) : x \in IF s.waited THEN {} ELSE {1}}
  \cup {Ev("reqwr", v, 0) : v \in IF s.reqWaiter = 0 THEN {"env", "pty-req", "subsystem", "raw"} ELSE {}}
  \cup {Ev("reqnw", v, 0) : v \in {"signal", "window-change", "raw"}}
  \cup {Ev("stdinpipe", "", 0), Ev("close", "", 0)}
  \cup {Ev("stdoutpipe", "", 0) : x \in IF s.outpipe THEN {} ELSE {1}}
  \cup {Ev("stderrpipe", "", 0) : x \in IF s.errpipe THEN {} ELSE {1}}
  \cup {Ev(k, "", 0) : k \in IF s.inpipe THEN {"pwrite", "pclose"} ELSE {}}
  \cup {Ev(k, "", 0) : k \in IF s.cfg.stdin = "reader" /\ s.started /\ s.rd = "open" THEN {"feed", "feedeof", "feederr"} ELSE {}}

LiteCliEvents(s) ==
  {Ev(k, "", 0) : k \in IF s.reqWaiter = 0 /\ ~s.started THEN {"start", "run", "combined"} ELSE {}}
  \cup {Ev("wait", "", 0) : x \in IF s.waited \/ ~s.started THEN {} ELSE {1}}
  \cup {Ev("reqwr", "env", 0) : x \in IF s.reqWaiter = 0 THEN {1} ELSE {}}
  \cup {Ev("reqnw", "signal", 0)}
  \cup {Ev("stdinpipe", "", 0) : x \in IF s.inpipe \/ s.started THEN {} ELSE {1}}
  \cup {Ev("stdoutpipe", "", 0) : x \in IF s.outpipe \/ s.started THEN {} ELSE {1}}
  \cup {Ev("close", "", 0) : x \in IF s.closed THEN {} ELSE {1}}
  \cup {Ev(k, "", 0) : k \in IF s.inpipe THEN {"pwrite", "pclose"} ELSE {}}
  \cup {Ev(k, "", 0) : k \in IF s.cfg.stdin = "reader" /\ s.started /\ s.rd = "open" THEN {"feed", "feedeof"} ELSE {}}

SrvCentricCliEvents(s) ==
  {Ev(k, "", 0) : k \in IF s.calls = <<>> THEN {"start", "run", "output", "combined"} ELSE {}}
  \cup {Ev("wait", "", 0) : x \in IF s.waited \/ ~s.started THEN {} ELSE {1}}
  \cup {Ev(k, "", 0) : k \in IF s.cfg.stdin = "reader" /\ s.started /\ s.rd = "open" THEN {"feed", "feedeof"} ELSE {}}

CliEvents(s) == IF Lite = "lite" THEN LiteCliEvents(s) ELSE IF Lite = "srv" THEN SrvCentricCliEvents(s) ELSE FullCliEvents(s)

-----------------------------------------------------------------------------
Init == \E c \in Cfgs : S = Init0(c) /\ hist = <<>>

Obs(s) == [ev |-> s.last, out |-> s.out, done |-> s.done, go |-> s.gotOut, ge |-> s.gotErr,
           om |-> s.outMode, em |-> s.errMode, ow |-> s.outW, ew |-> s.errW,
           si |-> s.srvIn, ka |-> s.ka, closed |-> s.closed, race |-> s.ioRace, kf |-> s.early]

Srv == /\ S.ns < MaxSrv /\ ~S.stalled
       /\ \E e \in SrvEvents(S) : S' = SrvStep(S, e) /\ hist' = Append(hist, Obs(S'))
Cli == /\ S.nc < MaxCli /\ ~S.stalled
       /\ \E e \in CliEvents(S) : S' = CliStep(S, e) /\ hist' = Append(hist, Obs(S'))
Next == Srv \/ Cli
Spec == Init /\ [][Next]_<<S, hist>>

View == S

\* what must be true after the harness finally drops the connection
Final(s) == IF s.closed THEN s ELSE SrvStep(s, Ev("sdrop", "", 0))

-----------------------------------------------------------------------------
(* Properties *)

Calls == 1 .. Len(S.calls)
IsPrefix(a, b) == Len(a) <= Len(b) /\ SubSeq(b, 1, Len(a)) = a

\* declarative reading of the exit-* requests the server sent (RFC 4254 6.10 / doc comment of Wait)
BadIdx(q) == {i \in 1 .. Len(q) : q[i].k = "bad"}
FirstBad(q) == IF BadIdx(q) = {} THEN 0 ELSE CHOOSE i \in BadIdx(q) : \A j \in BadIdx(q) : i <= j
Good(q) == IF FirstBad(q) = 0 THEN q ELSE SubSeq(q, 1, FirstBad(q) - 1)
LastOf(q, k) == LET I == {i \in 1 .. Len(q) : q[i].k = k} IN
                IF I = {} THEN 0 ELSE CHOOSE i \in I : \A j \in I : j <= i
Declared(q) ==
  LET g == Good(q)
      is == LastOf(g, "status")
      ig == LastOf(g, "sig")
      sig == IF ig = 0 THEN "" ELSE g[ig].v
  IN IF FirstBad(q) # 0 THEN R("malformed", 0, "")
     ELSE IF is # 0 THEN (IF g[is].x = 0 THEN R("nil", 0, "") ELSE R("exit", g[is].x, sig))
     ELSE IF ig # 0 THEN R("exit", 128 + SigNum(sig), sig)
     ELSE R("missing", 0, "")

\* a call of the Wait family returned its Wait result in this step
WaitReturns == {d \in S.done : /\ S.calls[d[1]].k \in RunKinds \cup {"wait"}
                                /\ d[2].c \in {"nil", "exit", "missing", "malformed", "copyerr"}}

S1_ExitResult ==
  \A d \in WaitReturns :
    /\ d[2].c \in {"exit", "missing", "malformed"} => d[2] = Declared(S.exits)
    /\ d[2].c = "nil" <=> (Declared(S.exits).c = "nil" /\ ~AwaitedErr(S))
    /\ d[2].c = "copyerr" => (Declared(S.exits).c = "nil" /\ AwaitedErr(S))
    /\ d[2].c = "missing" <=> (\A i \in 1 .. Len(S.exits) : S.exits[i].k \notin {"status", "sig", "bad"})
    /\ d[2].c = "exit" => d[2].st # 0

S2_Conservation == /\ S.gotOut \o S.bufOut = S.sentOut
                   /\ S.gotErr \o S.bufErr = S.sentErr
S2_NoDataLoss ==
  \A d \in WaitReturns :
    /\ (S.outMode = "copy" /\ S.cpOut = "ok") => S.gotOut = S.sentOut
    /\ (S.errMode = "copy" /\ S.cpErr = "ok") => S.gotErr = S.sentErr
    /\ S.outMode = "copy" => S.cpOut # "run"
    /\ S.errMode = "copy" => S.cpErr # "run"
    /\ (S.outMode = "copy" \/ S.errMode = "copy") => (S.sEOF \/ S.closed)   \* not while the server may still write

S3_StartOnce ==
  /\ S.nStartOk <= 1
  /\ S.started <=> S.nStartOk = 1
  /\ \A d \in S.done : (S.calls[d[1]].k \in StartKinds \cup {"wait"} /\ S.last.k = S.calls[d[1]].k /\ d[1] = Len(S.calls)
                        /\ d[2] = Err) => S.out = <<>>    \* refused at once: nothing was sent

S5_StdinEOF ==
  /\ \A d \in S.done : (S.calls[d[1]].k = "pclose" /\ d[2] = Ok) => (S.out = <<"eof">> /\ S.cEOF)
  /\ (S.last.k \in {"feedeof", "feederr"} /\ ~S.closed /\ S.pipeW = "open") => S.out = <<"eof">>   \* reader exhausted: EOF sent
  /\ (S.started /\ ~S.inpipe /\ S.cfg.stdin = "nil" /\ S.nStartOk = 1) => S.cEOF      \* empty stdin: EOF right after start
  /\ (S.cpIn = "ok" => S.cEOF)
  /\ Len(S.srvIn) <= S.nIn

S6_StartFailure ==
  (~S.started) => /\ S.cpIn = "none" /\ S.outMode # "copy" /\ S.errMode # "copy"
                  /\ (S.inpipe \/ ~S.cEOF)

S7_ReplyValue ==
  /\ \A d \in S.done : d[2].c \in {"true", "false"} =>
        /\ S.calls[d[1]].k = "reqwr" /\ S.last.k = "sreply"
        /\ d[2].c = (IF S.last.v = "ok" THEN "true" ELSE "false")
  /\ (S.last.k = "sreply") => Cardinality({d \in S.done : S.calls[d[1]].k \in WantReplyKinds}) <= 1
  /\ \A d \in S.done : (S.calls[d[1]].k \in {"start", "shell"} /\ d[2] = Ok) => (S.last.k = "sreply" /\ S.last.v = "ok")

S8_NoStuckCall ==
  S.closed => /\ S.reqWaiter = 0 /\ S.waiter = 0 /\ S.sKA = "none"
              /\ \A c \in Calls : S.calls[c].st = "done"

\* S9 (model level): the client's read loop is never blocked for good by requests nobody services
S9_NoStall == ~S.stalled

TypeOK ==
  /\ S.ns \in 0 .. MaxSrv /\ S.nc \in 0 .. MaxCli
  /\ S.reqWaiter \in {0} \cup Calls /\ S.waiter \in {0} \cup Calls
  /\ S.waiter # 0 => (S.wph \in {"exit", "copies"} /\ S.started /\ S.waited)
  /\ S.reqWaiter # 0 => S.calls[S.reqWaiter].st = "wait"
  /\ (S.reqWaiter # 0 /\ S.waiter # 0) => S.reqWaiter # S.waiter
  /\ S.dead => S.closed
  /\ S.cpIn \in {"none", "run", "ok", "err"} /\ S.cpOut \in {"none", "run", "ok"} /\ S.cpErr \in {"none", "run", "ok"}
=============================================================================
