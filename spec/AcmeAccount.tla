------------------------------ MODULE AcmeAccount ------------------------------
(* X09 (growth) -- ACME account life cycle, key identification ("jwk" vs "kid"), account key
   rollover and revocation as done by golang.org/x/crypto/acme.

   Go code modelled (acme.go, rfc8555.go, http.go, jws.go):
     Client.Discover (directory cached under cacheMu), Client.accountKID (c.KID cached under cacheMu,
     looked up lazily by newAccount {"onlyReturnExisting":true}; only a successful lookup is cached),
     Register/registerRFC (newAccount under cacheMu, External Account Binding, 201 vs 200 ->
     ErrAccountAlreadyExists, Location cached as KID in both cases), GetReg/getRegRFC (does NOT cache),
     UpdateReg/updateRegRFC, DeactivateReg, AccountKeyRollover/accountKeyRollover (inner JWS by the
     new key, outer by c.Key with kid; c.Key replaced after the 200 without any lock), RevokeCert/
     revokeCertRFC (nil key -> account key + kid; given key -> that key + jwk), and the nil-key rule of
     postNoRetry used by every other signed request (RevokeAuthorization, GetOrder, ...): "kid" when
     accountKID yields one, otherwise -- documented in postNoRetry -- the jwk form as a fall-back.

   Environment: an RFC 8555 CA with an account table (account -> key, status), one certificate that
   can be revoked, answering every request with the class its table dictates or with an injected
   failure (500, transport error, malformed, unauthorized, "lost": effect applied but the reply lost).

   One action per client step that is atomic with respect to cacheMu:
     Call, Disc (Discover), Kid1Hit / Kid1Miss (first accountKID of UpdateReg / DeactivateReg /
     AccountKeyRollover), SendMain (requests that need no kid; for the others the accountKID of
     postNoRetry: cache hit, or the start of a lookup), SendAfterLookup (the request of a nil-key
     operation leaves, after nonce and signature), ReplyLookup, ReplyMain, Commit (c.Key = newKey), Return.
   cacheMu is held from a request sent under it (lookup, newAccount of Register) to its reply. *)
EXTENDS Integers, Sequences, FiniteSets, TLC

CONSTANTS Callers,      \* set of caller ids (goroutines), e.g. {1, 2}
          MaxCalls,     \* bound on the number of public calls
          Ops,          \* public operations that may be called
          Inject,       \* failure classes the environment may inject
          Exclusive,    \* TRUE: AccountKeyRollover runs alone ("updating Key is not concurrency safe")
          Mut,          \* "none", or the name of a deliberately wrong client
          InitSet       \* initial configurations [sk, ss, kid, dir]

Keys    == {"k1", "k2"}           \* account keys the client may hold
CertKey == "ck"                   \* the key pair of the certificate (never an account key)
Accts   == {"a1", "a2"}           \* account URLs the CA can hand out
NoKid   == ""

AllOps == {"discover", "register", "registerEAB", "getreg", "update", "deactivate", "rollover",
           "revokeAcct", "revokeCert", "revokeExpl", "generic"}
KidOps    == {"update", "deactivate", "rollover"}            \* call accountKID themselves: ErrNoAccount without one
NilKeyOps == KidOps \cup {"revokeAcct", "generic"}          \* main request through post(ctx, nil, ...)
Injectable == {"e500", "neterr", "malformed", "unauth"}

VARIABLES sKey, sStat, revoked,       \* the CA: account -> key | "none", account -> none|valid|deactivated, certificate revoked
          issued, accepted, lostEver, \* ghosts: key -> account URLs ever bound to it by the CA; keys whose rollover reply reached the client; a reply was lost
          ckey, kid, dir, mu,         \* the client: c.Key, c.KID, directory cached, holder of cacheMu (0 = free)
          pc, op, nk, kv1, kv, oldk, req, seen, res,   \* per caller
          calls, ev

svars == <<sKey, sStat, revoked, issued, accepted, lostEver>>
cvars == <<ckey, kid, dir, mu>>
pvars == <<pc, op, nk, kv1, kv, oldk, req, seen, res>>
vars  == <<svars, cvars, pvars, calls, ev>>

NoReq == [url |-> "none", signer |-> "none", form |-> "none", kid |-> NoKid, pay |-> "none", nk |-> "none",
          iacct |-> NoKid, iold |-> "none", lk |-> FALSE]
NoRes == [c |-> "none", d |-> "none"]

AcctOfKey(k) == IF \E a \in Accts : sKey[a] = k /\ sStat[a] # "none"
                THEN CHOOSE a \in Accts : sKey[a] = k /\ sStat[a] # "none" ELSE NoKid
Fresh == IF sStat["a1"] = "none" THEN "a1" ELSE IF sStat["a2"] = "none" THEN "a2" ELSE NoKid

-----------------------------------------------------------------------------
(* The CA.  Genuine(r): the class RFC 8555 dictates for request r in the current table. *)
RevokeClass == IF revoked THEN "alreadyRevoked" ELSE "ok200"

Genuine(r) ==
  IF r.url = "newAccount" THEN
       IF r.form # "jwk" THEN "malformed"
       ELSE LET a == AcctOfKey(r.signer) IN
            IF a # NoKid THEN (IF sStat[a] = "deactivated" THEN "unauth" ELSE "exists200")
            ELSE IF r.pay = "lookup" THEN "noacct"
            ELSE IF Fresh = NoKid THEN "e500" ELSE "created201"
  ELSE IF r.form = "jwk" THEN
       IF r.pay = "revoke" THEN (IF r.signer = CertKey THEN RevokeClass ELSE "unauth") ELSE "malformed"
  ELSE LET a == r.kid IN
       IF a \notin Accts \/ sStat[a] # "valid" \/ sKey[a] # r.signer THEN "unauth"
       ELSE CASE r.pay \in {"update", "deactivate"} -> IF r.url = a THEN "ok200" ELSE "unauth"
              [] r.pay = "keychange" -> IF r.url # "keyChange" \/ r.iacct # a \/ r.iold # sKey[a] THEN "malformed"
                                        ELSE IF AcctOfKey(r.nk) # NoKid THEN "conflict409" ELSE "ok200"
              [] r.pay = "revoke"    -> IF r.url = "revoke" THEN RevokeClass ELSE "malformed"
              [] OTHER               -> "ok200"

Effectful(r, cls) == \/ cls = "created201"
                     \/ cls = "ok200" /\ r.pay \in {"deactivate", "keychange", "revoke"}

\* the Location header of a reply
Loc(r, cls) == CASE cls = "created201"  -> Fresh
                 [] cls = "exists200"   -> AcctOfKey(r.signer)
                 [] cls = "conflict409" -> AcctOfKey(r.nk)
                 [] OTHER               -> NoKid

\* replies the CA may give: <<class, lost>>
Replies(r) == LET g == Genuine(r) IN
              {<<g, FALSE>>} \cup {<<x, FALSE>> : x \in (Inject \cap Injectable)}
              \cup (IF "lost" \in Inject /\ Effectful(r, g) THEN {<<g, TRUE>>} ELSE {})

\* effect of an accepted request on the table
Effect(r, cls) ==
  /\ sKey' = CASE cls = "created201" -> [sKey EXCEPT ![Fresh] = r.signer]
               [] cls = "ok200" /\ r.pay = "keychange" -> [sKey EXCEPT ![r.kid] = r.nk]
               [] OTHER -> sKey
  /\ sStat' = CASE cls = "created201" -> [sStat EXCEPT ![Fresh] = "valid"]
                [] cls = "ok200" /\ r.pay = "deactivate" -> [sStat EXCEPT ![r.kid] = "deactivated"]
                [] OTHER -> sStat
  /\ revoked' = (revoked \/ (cls = "ok200" /\ r.pay = "revoke"))
  /\ issued' = CASE cls = "created201" -> [issued EXCEPT ![r.signer] = @ \cup {Fresh}]
                 [] cls = "ok200" /\ r.pay = "keychange" -> [issued EXCEPT ![r.nk] = @ \cup {r.kid}]
                 [] OTHER -> issued

-----------------------------------------------------------------------------
(* The client. *)
E(t, c, f) == [ev |-> t, c |-> c] @@ f
Tau(c) == [ev |-> "tau", c |-> c]

ReqEvent(c, r) == [ev |-> "req", c |-> c, url |-> r.url, signer |-> r.signer, form |-> r.form, kid |-> r.kid,
                   pay |-> r.pay, nk |-> r.nk, iacct |-> r.iacct, iold |-> r.iold,
                   iform |-> IF r.pay = "keychange" THEN "jwk" ELSE "none",
                   inonce |-> FALSE,
                   iurl |-> IF r.pay = "keychange" THEN r.url ELSE "none",
                   eab |-> IF r.pay = "newacct-eab" THEN r.signer ELSE "none"]

Lookup(lk) == [NoReq EXCEPT !.url = "newAccount", !.signer = ckey, !.form = "jwk", !.pay = "lookup", !.lk = lk]

PayOf(o) == CASE o = "update" -> "update" [] o = "deactivate" -> "deactivate" [] o = "rollover" -> "keychange"
              [] o \in {"revokeAcct", "revokeCert", "revokeExpl"} -> "revoke" [] OTHER -> "generic"
UrlOf(o, k) == CASE o \in {"update", "deactivate"} -> k [] o = "rollover" -> "keyChange"
                 [] o \in {"revokeAcct", "revokeCert", "revokeExpl"} -> "revoke" [] OTHER -> "generic"

\* the main request of a nil-key operation, identified by k (NoKid -> documented jwk fall-back), signed by s
Main(c, k, s) == [url |-> UrlOf(op[c], kv1[c]), signer |-> s, form |-> IF k = NoKid THEN "jwk" ELSE "kid", kid |-> k,
                  pay |-> PayOf(op[c]), nk |-> nk[c],
                  iacct |-> IF op[c] = "rollover" THEN kv1[c] ELSE NoKid,
                  iold |-> IF op[c] = "rollover" THEN oldk[c] ELSE "none", lk |-> FALSE]

Finish(c, cls, d) == /\ res' = [res EXCEPT ![c] = [c |-> cls, d |-> d]]
                     /\ pc' = [pc EXCEPT ![c] = "done"]

NoRollover(c) == \A d \in Callers \ {c} : ~(pc[d] # "idle" /\ op[d] = "rollover")

Call(c, o, n) ==
  /\ pc[c] = "idle" /\ calls < MaxCalls /\ o \in Ops
  /\ n \in (IF o = "rollover" THEN Keys ELSE {"none"})
  /\ Exclusive => /\ NoRollover(c)
                  /\ o = "rollover" => \A d \in Callers \ {c} : pc[d] = "idle"
  /\ pc' = [pc EXCEPT ![c] = "disc"] /\ op' = [op EXCEPT ![c] = o] /\ nk' = [nk EXCEPT ![c] = n]
  /\ kv1' = [kv1 EXCEPT ![c] = NoKid] /\ kv' = [kv EXCEPT ![c] = NoKid] /\ oldk' = [oldk EXCEPT ![c] = "none"]
  /\ seen' = [seen EXCEPT ![c] = "none"] /\ res' = [res EXCEPT ![c] = NoRes]
  /\ calls' = calls + 1
  /\ ev' = E("call", c, [op |-> o, nk |-> n])
  /\ UNCHANGED <<svars, cvars, req>>

AfterDisc(o) == CASE o = "discover" -> "done" [] o \in KidOps -> "kid1" [] OTHER -> "send"

\* Discover: the GET of the directory happens under cacheMu; its result is cached only on success
Disc(c) ==
  /\ pc[c] = "disc" /\ mu = 0
  /\ \/ /\ dir
        /\ pc' = [pc EXCEPT ![c] = AfterDisc(op[c])]
        /\ res' = IF op[c] = "discover" THEN [res EXCEPT ![c] = [c |-> "ok", d |-> "cached"]] ELSE res
        /\ ev' = Tau(c) /\ UNCHANGED dir
     \/ /\ ~dir
        /\ \E ok \in {TRUE} \cup (IF "dirfail" \in Inject THEN {FALSE} ELSE {}) :
             /\ dir' = ok
             /\ IF ok THEN /\ pc' = [pc EXCEPT ![c] = AfterDisc(op[c])]
                           /\ res' = IF op[c] = "discover" THEN [res EXCEPT ![c] = [c |-> "ok", d |-> "fetched"]] ELSE res
                      ELSE Finish(c, "acmeerr", "e500")
             /\ ev' = E("dir", c, [ok |-> ok])
  /\ UNCHANGED <<svars, ckey, kid, mu, op, nk, kv1, kv, oldk, req, seen, calls>>

\* accountKID, first call (UpdateReg, DeactivateReg, AccountKeyRollover): cache hit
Kid1Hit(c) ==
  /\ pc[c] = "kid1" /\ mu = 0 /\ kid # NoKid
  /\ kv1' = [kv1 EXCEPT ![c] = kid] /\ oldk' = [oldk EXCEPT ![c] = ckey]
  /\ pc' = [pc EXCEPT ![c] = "send"]
  /\ ev' = Tau(c)
  /\ UNCHANGED <<svars, cvars, op, nk, kv, req, seen, res, calls>>

\* accountKID: cache miss -> newAccount onlyReturnExisting, sent while holding cacheMu
StartLookup(c, nextpc) ==
  /\ kid = NoKid
  /\ IF Mut = "noMutex" THEN UNCHANGED mu ELSE mu = 0 /\ mu' = c
  /\ req' = [req EXCEPT ![c] = Lookup(Mut # "noMutex")]
  /\ pc' = [pc EXCEPT ![c] = nextpc]
  /\ ev' = ReqEvent(c, Lookup(Mut # "noMutex"))
  /\ UNCHANGED <<svars, ckey, kid, dir, op, nk, kv1, kv, oldk, seen, res, calls>>

Kid1Miss(c) == pc[c] = "kid1" /\ StartLookup(c, "kid1w")

\* the CA answers a lookup; accountKID caches the Location only on success and returns what it has
ReplyLookup(c, cls, lost) ==
  /\ pc[c] \in {"kid1w", "kid2w"}
  /\ <<cls, lost>> \in Replies(req[c])
  /\ LET r   == req[c]
         loc == Loc(r, cls)
         got == IF cls = "exists200" THEN loc ELSE NoKid
     IN /\ kid' = IF got # NoKid THEN got ELSE kid
        /\ mu' = IF mu = c THEN 0 ELSE mu
        /\ IF pc[c] = "kid1w"
           THEN /\ kv1' = [kv1 EXCEPT ![c] = got] /\ oldk' = [oldk EXCEPT ![c] = ckey] /\ UNCHANGED kv
                /\ IF got = NoKid THEN Finish(c, "noacct", "nokid")
                   ELSE pc' = [pc EXCEPT ![c] = "send"] /\ UNCHANGED res
           ELSE /\ kv' = [kv EXCEPT ![c] = got] /\ UNCHANGED <<kv1, oldk, res>>
                /\ pc' = [pc EXCEPT ![c] = "send2"]
        /\ req' = [req EXCEPT ![c] = NoReq]
        /\ seen' = [seen EXCEPT ![c] = "lookup:" \o cls]
        /\ ev' = E("reply", c, [cls |-> cls, lost |-> lost, loc |-> loc])
  /\ UNCHANGED <<svars, ckey, dir, op, nk, calls>>

\* the request of the operation itself
SendMain(c) ==
  /\ pc[c] = "send"
  /\ LET o == op[c] IN
     \/ /\ o \in {"register", "registerEAB"}                 \* registerRFC: whole exchange under cacheMu, always jwk
        /\ mu = 0 /\ mu' = c
        /\ LET r == [NoReq EXCEPT !.url = "newAccount", !.signer = ckey, !.form = "jwk",
                                  !.pay = IF o = "register" THEN "newacct" ELSE "newacct-eab", !.lk = TRUE]
           IN req' = [req EXCEPT ![c] = r] /\ ev' = ReqEvent(c, r)
        /\ pc' = [pc EXCEPT ![c] = "wait"]
        /\ UNCHANGED <<ckey, kv>>
     \/ /\ o = "getreg"                                       \* getRegRFC called directly: no lock, nothing cached
        /\ req' = [req EXCEPT ![c] = Lookup(FALSE)] /\ ev' = ReqEvent(c, Lookup(FALSE))
        /\ pc' = [pc EXCEPT ![c] = "wait"]
        /\ UNCHANGED <<ckey, mu, kv>>
     \/ /\ o \in {"revokeCert", "revokeExpl"}                 \* a key was given: that key, jwk form, no accountKID
        /\ LET r == [NoReq EXCEPT !.url = "revoke", !.signer = IF o = "revokeCert" THEN CertKey ELSE ckey,
                                  !.form = "jwk", !.pay = "revoke"]
           IN req' = [req EXCEPT ![c] = r] /\ ev' = ReqEvent(c, r)
        /\ pc' = [pc EXCEPT ![c] = "wait"]
        /\ UNCHANGED <<ckey, mu, kv>>
     \/ /\ o \in NilKeyOps /\ mu = 0 /\ kid # NoKid          \* postNoRetry: accountKID hits the cache (the request itself
        /\ kv' = [kv EXCEPT ![c] = kid]                       \* leaves later: nonce, signature -- SendAfterLookup)
        /\ pc' = [pc EXCEPT ![c] = "send2"]
        /\ ev' = Tau(c)
        /\ UNCHANGED <<ckey, mu, req>>
  /\ UNCHANGED <<svars, kid, dir, op, nk, kv1, oldk, seen, res, calls>>

SendMainMiss(c) == pc[c] = "send" /\ op[c] \in NilKeyOps /\ StartLookup(c, "kid2w")

\* postNoRetry after its accountKID returned: kid form if there is an account URL, else the documented jwk fall-back
SendAfterLookup(c) ==
  /\ pc[c] = "send2"
  /\ LET s == IF Mut = "commitEarly" /\ op[c] = "rollover" THEN nk[c] ELSE ckey
         r == Main(c, kv[c], s)
     IN req' = [req EXCEPT ![c] = r] /\ ev' = ReqEvent(c, r) /\ ckey' = s
  /\ pc' = [pc EXCEPT ![c] = "wait"]
  /\ UNCHANGED <<svars, kid, dir, mu, op, nk, kv1, kv, oldk, seen, res, calls>>

OkClasses(o) == CASE o = "register" -> {"created201"} [] o = "registerEAB" -> {"created201"}
                  [] o = "getreg" -> {"exists200"}
                  [] o \in {"revokeAcct", "revokeCert", "revokeExpl"} -> {"ok200", "alreadyRevoked"}
                  [] OTHER -> {"ok200"}

ReplyMain(c, cls, lost) ==
  /\ pc[c] = "wait"
  /\ <<cls, lost>> \in Replies(req[c])
  /\ LET r    == req[c]
         o    == op[c]
         loc  == Loc(r, cls)
         see  == IF lost THEN "neterr" ELSE cls                   \* what reaches the client
     IN /\ IF Effectful(r, cls) /\ cls = Genuine(r) THEN Effect(r, cls) ELSE UNCHANGED <<sKey, sStat, revoked, issued>>
        /\ lostEver' = (lostEver \/ lost)
        /\ mu' = IF mu = c THEN 0 ELSE mu
        /\ kid' = IF o \in {"register", "registerEAB"} /\ see \in {"created201", "exists200"} THEN loc
                  ELSE IF Mut = "cache409" /\ see = "conflict409" THEN loc ELSE kid
        /\ seen' = [seen EXCEPT ![c] = see]
        /\ req' = [req EXCEPT ![c] = NoReq]
        /\ ev' = E("reply", c, [cls |-> cls, lost |-> lost, loc |-> loc])
        /\ IF o = "rollover" /\ see = "ok200"
           THEN /\ accepted' = accepted \cup {nk[c]} /\ pc' = [pc EXCEPT ![c] = "commit"] /\ UNCHANGED <<res, ckey>>
           ELSE /\ UNCHANGED accepted
                /\ ckey' = IF Mut = "keepNew" /\ o = "rollover" THEN nk[c] ELSE ckey
                /\ CASE see \in OkClasses(o) -> Finish(c, "ok", see)
                     [] see = "exists200" /\ o \in {"register", "registerEAB"} -> Finish(c, "exists", see)
                     [] see = "noacct" /\ o = "getreg" -> Finish(c, "noacct", see)
                     [] see = "neterr" -> Finish(c, "other", see)
                     [] OTHER -> Finish(c, "acmeerr", see)
  /\ UNCHANGED <<dir, op, nk, kv1, kv, oldk, calls>>

\* accountKeyRollover: c.Key = newKey after the 200 (no lock)
Commit(c) ==
  /\ pc[c] = "commit"
  /\ ckey' = nk[c]
  /\ Finish(c, "ok", "ok200")
  /\ ev' = Tau(c)
  /\ UNCHANGED <<svars, kid, dir, mu, op, nk, kv1, kv, oldk, req, seen, calls>>

Return(c) ==
  /\ pc[c] = "done"
  /\ pc' = [pc EXCEPT ![c] = "idle"]
  /\ ev' = E("ret", c, [res |-> res[c].c, d |-> res[c].d, key |-> ckey, kid |-> kid])
  /\ UNCHANGED <<svars, cvars, op, nk, kv1, kv, oldk, req, seen, res, calls>>

Step(c) == \/ Disc(c) \/ Kid1Hit(c) \/ Kid1Miss(c) \/ SendMain(c) \/ SendMainMiss(c) \/ SendAfterLookup(c)
           \/ Commit(c) \/ Return(c)
           \/ \E cls \in {"created201", "exists200", "noacct", "ok200", "alreadyRevoked", "conflict409"} \cup Injectable,
                 lost \in BOOLEAN : ReplyLookup(c, cls, lost) \/ ReplyMain(c, cls, lost)

Next == \E c \in Callers : \/ Step(c)
                           \/ \E o \in AllOps, n \in Keys \cup {"none"} : Call(c, o, n)

InitWith(i) ==
  /\ sKey = i.sk /\ sStat = i.ss /\ revoked = FALSE
  /\ issued = [k \in Keys \cup {CertKey} |-> {a \in Accts : i.sk[a] = k /\ i.ss[a] # "none"}]
  /\ accepted = {} /\ lostEver = FALSE
  /\ ckey = "k1" /\ kid = i.kid /\ dir = i.dir /\ mu = 0
  /\ pc = [c \in Callers |-> "idle"] /\ op = [c \in Callers |-> "none"] /\ nk = [c \in Callers |-> "none"]
  /\ kv1 = [c \in Callers |-> NoKid] /\ kv = [c \in Callers |-> NoKid] /\ oldk = [c \in Callers |-> "none"]
  /\ req = [c \in Callers |-> NoReq] /\ seen = [c \in Callers |-> "none"] /\ res = [c \in Callers |-> NoRes]
  /\ calls = 0
  /\ ev = [ev |-> "init", kid |-> i.kid, dir |-> i.dir, sk |-> i.sk, ss |-> i.ss]

Init == \E i \in InitSet : InitWith(i)
Spec == Init /\ [][Next]_vars

-----------------------------------------------------------------------------
(* Properties. *)
InFlight(c) == req[c] # NoReq
Active(c)   == pc[c] # "idle"

TypeOK ==
  /\ sKey \in [Accts -> Keys \cup {"none"}] /\ sStat \in [Accts -> {"none", "valid", "deactivated"}]
  /\ revoked \in BOOLEAN /\ lostEver \in BOOLEAN /\ accepted \subseteq Keys
  /\ ckey \in Keys /\ kid \in Accts \cup {NoKid} /\ dir \in BOOLEAN /\ mu \in Callers \cup {0}
  /\ \A c \in Callers : /\ pc[c] \in {"idle", "disc", "kid1", "kid1w", "send", "kid2w", "send2", "wait", "commit", "done"}
                        /\ op[c] \in AllOps \cup {"none"}
                        /\ kv1[c] \in Accts \cup {NoKid} /\ kv[c] \in Accts \cup {NoKid}
                        /\ (pc[c] \in {"kid1w", "kid2w", "wait"}) = InFlight(c)

\* the CA never binds one key to two accounts
ServerSane == \A a, b \in Accts : (a # b /\ sStat[a] # "none" /\ sStat[b] # "none") => sKey[a] # sKey[b]

\* A1: exactly one of jwk / kid; jwk for newAccount and for revocation by a given key; kid otherwise
\*     (jwk fall-back only when this very call's account lookup found nothing -- documented in postNoRetry)
A1_HeaderForm == \A c \in Callers : InFlight(c) =>
  LET r == req[c] IN
  /\ r.form \in {"jwk", "kid"}
  /\ (r.form = "kid") = (r.kid # NoKid)
  /\ r.url = "newAccount" => r.form = "jwk"
  /\ op[c] \in {"revokeCert", "revokeExpl"} => r.form = "jwk" /\ r.kid = NoKid
  /\ (op[c] = "revokeCert") = (r.signer = CertKey)
  /\ (r.form = "jwk" /\ r.url # "newAccount" /\ op[c] \notin {"revokeCert", "revokeExpl"})
        => (op[c] \in {"revokeAcct", "generic"} /\ kv[c] = NoKid /\ seen[c] \notin {"lookup:exists200"})
  /\ (op[c] \in KidOps /\ r.url # "newAccount") => r.form = "kid"

\* A1: the kid is an account URL the CA bound to the signing key, never another key's
A1_KidBelongs == \A c \in Callers : (InFlight(c) /\ req[c].form = "kid") => req[c].kid \in issued[req[c].signer]

\* A2: at most one account lookup at a time, under cacheMu, and only while nothing is cached
A2_OneLookup == /\ Cardinality({c \in Callers : pc[c] \in {"kid1w", "kid2w"}}) <= 1
                /\ \A c \in Callers : pc[c] \in {"kid1w", "kid2w"} => (mu = c /\ kid = NoKid)
                /\ \A c \in Callers : (InFlight(c) /\ req[c].lk) => mu = c

\* A2: what is cached is an account URL of the client's key (a failed lookup caches nothing)
A2_CacheSound == kid # NoKid => kid \in issued[ckey]

\* A3: result classes
A3_Results == \A c \in Callers : pc[c] = "done" =>
  LET o == op[c] s == seen[c] IN
  /\ res[c].c \in {"ok", "exists", "noacct", "acmeerr", "other"}
  /\ res[c].c = "exists" => (o \in {"register", "registerEAB"} /\ s = "exists200")
  /\ (o \in {"register", "registerEAB"} /\ s = "exists200") => res[c].c = "exists"
  /\ res[c].c = "noacct" => \/ (o = "getreg" /\ s = "noacct")
                            \/ (o \in KidOps /\ kv1[c] = NoKid)
  /\ res[c].c = "ok" => (o = "discover" \/ s \in OkClasses(o))
  /\ s \in {"e500", "malformed", "unauth", "conflict409"} => res[c].c = "acmeerr" /\ res[c].d = s
  /\ s = "neterr" => res[c].c = "other"

\* A4: key change request shape; the key is replaced only by a rollover the CA acknowledged
A4_RolloverShape == \A c \in Callers : (InFlight(c) /\ req[c].pay = "keychange") =>
  LET r == req[c] IN /\ r.url = "keyChange" /\ r.form = "kid" /\ r.iacct = r.kid /\ r.iold = r.signer /\ r.nk = nk[c]
A4_KeyAccepted == ckey = "k1" \/ ckey \in accepted
\* with AccountKeyRollover run alone, every request in flight is signed by the client's current key
A4_OneSigner == \A c \in Callers : (InFlight(c) /\ op[c] # "revokeCert") => req[c].signer = ckey
\* when no reply was lost and nothing is running, client and CA agree on the key of the cached account
A4_Agreement == (~lostEver /\ \A c \in Callers : pc[c] = "idle") => (kid # NoKid => sKey[kid] = ckey)

\* A5: deactivation / update go to the account URL itself, identified by it.  The URL comes from the first
\* accountKID call and the kid from the one inside postNoRetry; they can differ only if a concurrent Register
\* re-registered the key in between, which needs a CA that lost the reply to an accepted key change
\* (observation; the CA refuses such a request).
A5_Deactivate == \A c \in Callers : (InFlight(c) /\ req[c].pay \in {"deactivate", "update"}) =>
                    /\ req[c].form = "kid" /\ req[c].url = kv1[c] /\ req[c].kid = kv[c]
                    /\ ~lostEver => req[c].url = req[c].kid

\* the client cannot get stuck inside a call
Progress == (\E c \in Callers : Active(c)) => \E c \in Callers : ENABLED Step(c)
=============================================================================
