------------------------------ MODULE KdfScrypt ------------------------------
(***************************************************************************)
(* C16 - scrypt.Key returns the RFC 7914 key or an error, never a panic.   *)
(*                                                                         *)
(* Models the decision structure of /repo/scrypt/scrypt.go:Key             *)
(*                                                                         *)
(*   if N <= 1 || N&(N-1) != 0                     -> nil, error           *)
(*   if r <= 0 || p <= 0                           -> nil, error           *)
(*   if uint64(r)*uint64(p) >= 1<<30 || r > maxInt/128/p ||                *)
(*      r > maxInt/256 || N > maxInt/128/r         -> nil, error           *)
(*   xy := make(64*r); v := make(32*N*r)                                   *)
(*   b := pbkdf2.Key(.., p*128*r); smix ...                                *)
(*   return pbkdf2.Key(password, b, 1, keyLen, sha256.New), nil            *)
(*                                                                         *)
(* and of /repo/pbkdf2/pbkdf2.go:Key, which PANICS when crypto/pbkdf2      *)
(* returns an error (keyLength <= 0, or longer than (2^32-1)*32 bytes).    *)
(*                                                                         *)
(* CodeOutcome is the transcription of those guards, in the code's order   *)
(* and with the code's floor divisions and uint64 wrap-around; Decl is the *)
(* declarative statement of the property (RFC 7914 section 2 parameter     *)
(* domain + "the sizes fit in an int" + "does not exhaust memory").  TLC   *)
(* checks CodeOutcome against Decl over the class product of the MC        *)
(* module.  The numeric core (Salsa20/8, BlockMix, ROMix) is NOT modelled: *)
(* key bytes come from the RFC 7914 vectors and independent               *)
(* implementations in the harness.                                         *)
(*                                                                         *)
(* Go ints are 64-bit here and TLC integers are 32-bit: naturals are       *)
(* little-endian limb sequences in base 4096 (normalised: no high zero     *)
(* limb; zero = <<>>).  An argument is given as a "value class" record     *)
(* [k, d] meaning 2^k + d (k = -1: just d), so that 2^30-1, 2^30, 2^56 ... *)
(* are exact.                                                              *)
(***************************************************************************)
EXTENDS Integers, Sequences, Bitwise, SequencesExt, TLC

CONSTANTS IntBits,        \* 63 (int is int64: this platform) or 31 (32-bit platforms)
          KeyLenGuard,    \* TRUE: scrypt.Key rejects keyLen <= 0 itself (the repair); FALSE: code as found
          MemLog2,        \* "exhausts memory" = the slices need more than 2^MemLog2 bytes
          WorkLog2,       \* replay budget only: tuples with N*r*p > 2^WorkLog2 BlockMix calls are enumerated and checked by TLC but not run
          NSet, RSet, PSet, KSet   \* value classes to enumerate

(******************************* naturals ***********************************)
B == 4096
Limb(x, i) == IF i <= Len(x) THEN x[i] ELSE 0
RECURSIVE Norm(_)
Norm(x) == IF Len(x) > 0 /\ x[Len(x)] = 0 THEN Norm(SubSeq(x, 1, Len(x) - 1)) ELSE x
RECURSIVE CarryR(_, _, _)
CarryR(x, i, c) == IF i > Len(x) THEN (IF c = 0 THEN <<>> ELSE <<c % B>> \o CarryR(x, i + 1, c \div B))
                   ELSE LET t == x[i] + c IN <<t % B>> \o CarryR(x, i + 1, t \div B)
Carry(x) == Norm(CarryR(x, 1, 0))
Max2(a, b) == IF a > b THEN a ELSE b

RECURSIVE FromNat(_)
FromNat(n) == IF n = 0 THEN <<>> ELSE <<n % B>> \o FromNat(n \div B)
Pow2(k) == [i \in 1..(k \div 12) |-> 0] \o <<2 ^ (k % 12)>>
One == <<1>>
IsZero(x) == Len(x) = 0

Add(a, b) == Carry([i \in 1..Max2(Len(a), Len(b)) |-> Limb(a, i) + Limb(b, i)])

RECURSIVE ColSum(_, _, _, _, _)
ColSum(a, b, k, i, hi) == IF i > hi THEN 0 ELSE a[i] * b[k + 1 - i] + ColSum(a, b, k, i + 1, hi)
Mul(a, b) ==
  IF IsZero(a) \/ IsZero(b) THEN <<>> ELSE
  LET la == Len(a)  lb == Len(b) IN
  Carry([k \in 1..(la + lb - 1) |-> ColSum(a, b, k, IF k > lb THEN k + 1 - lb ELSE 1, IF k < la THEN k ELSE la)])

RECURSIVE CmpR(_, _, _)
CmpR(a, b, i) == IF i = 0 THEN 0 ELSE IF a[i] > b[i] THEN 1 ELSE IF a[i] < b[i] THEN -1 ELSE CmpR(a, b, i - 1)
Cmp(a, b) == IF Len(a) > Len(b) THEN 1 ELSE IF Len(a) < Len(b) THEN -1 ELSE CmpR(a, b, Len(a))
Ge(a, b) == Cmp(a, b) >= 0
Gt(a, b) == Cmp(a, b) > 0

\* a - b for a >= b
RECURSIVE SubR(_, _, _, _)
SubR(a, b, i, br) == IF i > Len(a) THEN <<>> ELSE
                     LET t == a[i] - Limb(b, i) - br IN
                     IF t < 0 THEN <<t + B>> \o SubR(a, b, i + 1, 1) ELSE <<t>> \o SubR(a, b, i + 1, 0)
Sub(a, b) == Norm(SubR(a, b, 1, 0))

\* floor(a / b), b > 0.  One-limb divisor: schoolbook short division; otherwise binary long
\* division (greatest q with q*b <= a).
RECURSIVE SDivTop(_, _, _, _)
SDivTop(a, d, i, rem) == IF i = 0 THEN <<>> ELSE
                         LET cur == rem * B + a[i] IN <<cur \div d>> \o SDivTop(a, d, i - 1, cur % d)

ShortDiv(a, d) == Norm(Reverse(SDivTop(a, d, Len(a), 0)))
\* x * 2^i
ShiftL(x, i) == IF IsZero(x) THEN <<>> ELSE
                LET m == 2 ^ (i % 12) IN [j \in 1..(i \div 12) |-> 0] \o Carry([j \in 1..Len(x) |-> x[j] * m])
\* binary long division as a left fold over the bit positions hi, hi-1, .., 0 (st = <<q, acc>> with acc = q * b <= a).
\* Slow in TLC (about 40 bignum additions per quotient): used only to cross-check LongDiv in the ASSUME below.
DivStep(a, b, st, i) == LET t == Add(st[2], ShiftL(b, i)) IN IF Ge(a, t) THEN <<Add(st[1], Pow2(i)), t>> ELSE st
LongDivSlow(a, b) == IF Len(a) < Len(b) THEN <<>> ELSE
                     LET hi == 12 * (Len(a) - Len(b) + 1) IN
                     FoldLeft(LAMBDA st, i : DivStep(a, b, st, i), << <<>>, <<>> >>, [j \in 1..(hi + 1) |-> hi + 1 - j])[1]
\* schoolbook long division (Knuth D): scale so that the divisor's top limb is >= B/2, then one quotient limb per dividend
\* limb, estimated from the top limbs (never too small, at most 2 too large) and corrected downwards.
MulSmall(x, m) == IF m = 0 THEN <<>> ELSE Carry([j \in 1..Len(x) |-> x[j] * m])
RECURSIVE FixDigit(_, _, _)
FixDigit(qh, v, rem) == IF qh > 0 /\ Gt(MulSmall(v, qh), rem) THEN FixDigit(qh - 1, v, rem) ELSE qh
KStep(v, st, x) ==                       \* st = <<quotient limbs so far (top first), remainder>>
  LET rem == Norm(<<x>> \o st[2])        \* rem * B + x
      lv  == Len(v)
      est == IF Len(rem) < lv THEN 0
             ELSE IF Len(rem) = lv THEN rem[lv] \div v[lv]
             ELSE LET e == (rem[lv + 1] * B + rem[lv]) \div v[lv] IN IF e > B - 1 THEN B - 1 ELSE e
      q   == FixDigit(est, v, rem)
  IN <<Append(st[1], q), Sub(rem, MulSmall(v, q))>>
LongDiv(a, b) == IF Len(a) < Len(b) THEN <<>> ELSE
                 LET d == B \div (b[Len(b)] + 1)
                     u == MulSmall(a, d)
                     v == MulSmall(b, d)
                 IN Norm(Reverse(FoldLeft(LAMBDA st, x : KStep(v, st, x), << <<>>, <<>> >>, Reverse(u))[1]))
Div(a, b) == IF Len(b) = 1 THEN ShortDiv(a, b[1]) ELSE LongDiv(a, b)

AndN(a, b) == Norm([i \in 1..Max2(Len(a), Len(b)) |-> Limb(a, i) & Limb(b, i)])
\* x mod 2^64 (uint64 wrap-around): 64 = 5*12 + 4
Mod64(x) == Norm([i \in 1..(IF Len(x) < 6 THEN Len(x) ELSE 6) |-> IF i = 6 THEN x[i] % 16 ELSE x[i]])

(******************************* Go ints ************************************)
\* value class [k, d] -> signed number [neg, mag]; all operators below take signed numbers
Val(v) == IF v.k < 0 THEN (IF v.d < 0 THEN [neg |-> TRUE, mag |-> FromNat(-v.d)] ELSE [neg |-> FALSE, mag |-> FromNat(v.d)])
          ELSE [neg |-> FALSE, mag |-> IF v.d >= 0 THEN Add(Pow2(v.k), FromNat(v.d)) ELSE Sub(Pow2(v.k), FromNat(-v.d))]
MaxInt == Sub(Pow2(IntBits), One)
MinIntMag == Pow2(IntBits)                                   \* |math.MinInt| = 2^IntBits
InRange(x) == IF x.neg THEN ~Gt(x.mag, MinIntMag) ELSE ~Gt(x.mag, MaxInt)   \* representable as a Go int: MinInt..MaxInt
LeC(x, c) == x.neg \/ ~Gt(x.mag, FromNat(c))                 \* x <= c for a small natural c
C(n) == FromNat(n)
MaxInt128 == Div(MaxInt, C(128))      \* maxInt/128
MaxInt256 == Div(MaxInt, C(256))      \* maxInt/256

(******************************* the code ***********************************)
\* bytes held by xy, v, b and the result
MemBytes(N, r, p, kl) == Add(Add(Mul(C(256), r), Mul(C(128), Mul(N, r))),
                             Add(Mul(C(128), Mul(r, p)), IF kl.neg THEN <<>> ELSE kl.mag))
ExhaustsMemory(N, r, p, kl) == Gt(MemBytes(N, r, p, kl), Pow2(MemLog2))

\* the third if-statement's four disjuncts, evaluated for N > 1, r > 0, p > 0 (the code's short-circuit order does not matter:
\* all four are total on such values)
Guards(N, r, p) ==
  IF LeC(N, 0) \/ LeC(r, 0) \/ LeC(p, 0) THEN [rp |-> FALSE, a |-> FALSE, b |-> FALSE, c |-> FALSE]
  ELSE [rp |-> Ge(Mod64(Mul(r.mag, p.mag)), Pow2(30)),       \* uint64(r)*uint64(p) >= 1<<30
        a  |-> Gt(r.mag, Div(MaxInt128, p.mag)),              \* r > maxInt/128/p
        b  |-> Gt(r.mag, MaxInt256),                          \* r > maxInt/256
        c  |-> Gt(N.mag, Div(MaxInt128, r.mag))]              \* N > maxInt/128/r

CodeOutcomeG(N, r, p, kl, g) ==
  IF LeC(N, 1) \/ ~IsZero(AndN(N.mag, Sub(N.mag, One)))                          \* N <= 1 || N&(N-1) != 0
  THEN "error"
  ELSE IF LeC(r, 0) \/ LeC(p, 0)
  THEN "error"
  ELSE IF g.rp \/ g.a \/ g.b \/ g.c
  THEN "error"
  ELSE IF KeyLenGuard /\ LeC(kl, 0)                                               \* the repair: fixes/C16-scrypt-keylen.diff
  THEN "error"
  ELSE IF ExhaustsMemory(N.mag, r.mag, p.mag, kl)                                 \* make(...) / pbkdf2 of that size: outside the property
  THEN "excluded"
  ELSE IF LeC(kl, 0)
  THEN "panic"                                                                    \* pbkdf2.Key: panic(err) on "keyLength must be larger than 0"
  ELSE "key"
\* not part of the property: a valid tuple whose computation is too long to replay (memory is fine)
Heavy(N, r, p) == ~N.neg /\ ~r.neg /\ ~p.neg /\ Gt(Mul(N.mag, Mul(r.mag, p.mag)), Pow2(WorkLog2))
CodeOutcome(N, r, p, kl) == CodeOutcomeG(N, r, p, kl, Guards(N, r, p))

(******************************* the property *******************************)
IsPow2(x) == ~IsZero(x) /\ \E e \in (12 * (Len(x) - 1))..(12 * Len(x) - 1) : x = Pow2(e)
\* RFC 7914 section 2 / package doc: N a power of two > 1, r, p >= 1, r*p < 2^30
ValidParams(N, r, p) == /\ ~N.neg /\ Gt(N.mag, One) /\ IsPow2(N.mag)
                        /\ ~LeC(r, 0) /\ ~LeC(p, 0)
                        /\ ~Ge(Mul(r.mag, p.mag), Pow2(30))
\* the slice lengths 128*r*p, 256*r, 128*N*r are Go ints
SizesFit(N, r, p) == /\ ~Gt(Mul(C(128), Mul(r.mag, p.mag)), MaxInt)
                     /\ ~Gt(Mul(C(256), r.mag), MaxInt)
                     /\ ~Gt(Mul(C(128), Mul(N.mag, r.mag)), MaxInt)
\* what the property allows: "error" = (nil, err); "key" = exactly keyLen bytes of RFC 7914 output;
\* keyLen = 0: both readings satisfy the statement (zero bytes, or nil and an error); keyLen < 0: only the error.
Decl(N, r, p, kl) ==
  IF ~ValidParams(N, r, p) THEN "error"
  ELSE IF ~SizesFit(N, r, p) THEN "error"
  ELSE IF ExhaustsMemory(N.mag, r.mag, p.mag, kl) THEN "excluded"
  ELSE IF kl.neg THEN "error"
  ELSE IF IsZero(kl.mag) THEN "key-or-error"
  ELSE "key"

Allowed(d) == CASE d = "error" -> {"error"}
                [] d = "key" -> {"key"}
                [] d = "key-or-error" -> {"key", "error"}
                [] d = "excluded" -> {"excluded", "error"}     \* keyLen <= 0 may be refused before the memory is asked for

(******************************* enumeration ********************************)
\* one state per argument tuple; two levels (N, keyLen first, then r, p) so that TLC's workers share the evaluation;
\* the outcome of the transcription, its guards and the declarative outcome are computed once, into variables
VARIABLES n, r, p, k, ph, g, code, decl
vars == <<n, r, p, k, ph, g, code, decl>>
NumOne == [neg |-> FALSE, mag |-> One]
Init == /\ n \in NSet /\ k \in KSet /\ InRange(n) /\ InRange(k) /\ r = NumOne /\ p = NumOne /\ ph = 0
        /\ g = Guards(n, NumOne, NumOne) /\ code = "-" /\ decl = "-"
Next == /\ ph = 0 /\ ph' = 1 /\ r' \in RSet /\ p' \in PSet /\ InRange(r') /\ InRange(p') /\ UNCHANGED <<n, k>>
        /\ g' = Guards(n, r', p')
        /\ code' = CodeOutcomeG(n, r', p', k, g')
        /\ decl' = Decl(n, r', p', k)
Spec == Init /\ [][Next]_vars

NeverPanics == ph = 1 => code # "panic"
Conforms == ph = 1 => code \in Allowed(decl)
Pos3 == ph = 1 /\ ~LeC(r, 0) /\ ~LeC(p, 0) /\ ~LeC(n, 0)
\* the code's floor-division guards are exactly the "size does not fit in an int" statements
DivisionFormIsProductForm ==
  Pos3 => /\ g.a <=> Gt(Mul(C(128), Mul(r.mag, p.mag)), MaxInt)
          /\ g.b <=> Gt(Mul(C(256), r.mag), MaxInt)
          /\ g.c <=> Gt(Mul(C(128), Mul(n.mag, r.mag)), MaxInt)
\* uint64(r)*uint64(p) may wrap around; whenever the true product reaches 2^30 the first or the second disjunct fires,
\* and on a 64-bit platform they fire only then (on 32-bit platforms the sizes stop fitting earlier, at r*p >= 2^24)
WrapCovered == Pos3 => /\ Ge(Mul(r.mag, p.mag), Pow2(30)) => (g.rp \/ g.a)
                       /\ IntBits = 63 /\ (g.rp \/ g.a \/ g.b) => Ge(Mul(r.mag, p.mag), Pow2(30))

ASSUME /\ Mul(FromNat(123456), FromNat(7890)) = Add(FromNat(974067840), <<>>)
       /\ Div(FromNat(1000000007), FromNat(12345)) = FromNat(81004)
       /\ Sub(Pow2(30), One) = FromNat(1073741823)
       /\ Cmp(Pow2(63), Sub(Pow2(63), One)) = 1
       /\ Mod64(Mul(Pow2(32), Pow2(32))) = <<>>
       /\ Mod64(Add(Pow2(64), FromNat(5))) = FromNat(5)
       /\ AndN(FromNat(1024), FromNat(1023)) = <<>> /\ AndN(FromNat(6), FromNat(5)) = FromNat(4)
       /\ Div(Div(Sub(Pow2(63), One), C(128)), FromNat(3)) = Div(Sub(Pow2(56), One), FromNat(3))
       /\ \A d \in {1, 2, 3, 7, 128, 4095} : /\ ShortDiv(Sub(Pow2(63), One), d) = LongDiv(Sub(Pow2(63), One), <<d>>)
                                               /\ ShortDiv(Sub(Pow2(63), One), d) = LongDivSlow(Sub(Pow2(63), One), <<d>>)
       /\ \A e \in {13, 24, 29, 30, 31, 36, 47, 55} : \A dd \in {0, 1, 4095} : \A top \in {Sub(Pow2(56), One), Sub(Pow2(63), One), Pow2(60)} :
             LongDiv(top, Add(Pow2(e), FromNat(dd))) = LongDivSlow(top, Add(Pow2(e), FromNat(dd)))
       /\ LongDiv(Mul(FromNat(99999999), FromNat(88888888)), FromNat(99999999)) = FromNat(88888888)
       /\ LongDiv(Sub(Pow2(56), One), Pow2(30)) = Sub(Pow2(26), One)
       /\ LongDiv(Sub(Pow2(56), One), Add(Pow2(30), One)) = FromNat(67108863)
=============================================================================
