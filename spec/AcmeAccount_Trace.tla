--------------------------- MODULE AcmeAccount_Trace ---------------------------
(* Binding T for X09: validates the event logs recorded by the fake CA of harness/x09 while the REAL
   acme.Client ran (sequential replays and seeded random sessions of two goroutines sharing one client)
   against AcmeAccount.

   Logged events: init (CA table, preset Client.KID, directory cached), call, dir (the directory was
   fetched; outcome), req (what the CA's independent JWS verifier saw: url, which known key verified the
   signature, jwk/kid, kid, payload class, and for keyChange the inner JWS: signer, jwk/kid, nonce, url,
   account, oldKey; for EAB the key the binding covers), reply (class, lost, Location), ret (result class,
   problem class, and at quiescent points the client's Key and KID).
   Silent steps: Discover served from the cache, accountKID served from the cache (both calls), c.Key = newKey.
   Every request must be one the model's client sends at that point, every reply one the model's CA may
   give in its current table (so the Go fake CA is checked against the specification's CA as well),
   every result the one the model derives; the invariants A1..A5 are checked on the states the recorded
   execution drives the model through. *)
EXTENDS AcmeAccount_MC, TraceLib

SetInit(i) ==
  /\ sKey' = i.sk /\ sStat' = i.ss /\ revoked' = FALSE
  /\ issued' = [k \in Keys \cup {CertKey} |-> {a \in Accts : i.sk[a] = k /\ i.ss[a] # "none"}]
  /\ accepted' = {} /\ lostEver' = FALSE
  /\ ckey' = "k1" /\ kid' = i.kid /\ dir' = i.dir /\ mu' = 0
  /\ pc' = [c \in Callers |-> "idle"] /\ op' = [c \in Callers |-> "none"] /\ nk' = [c \in Callers |-> "none"]
  /\ kv1' = [c \in Callers |-> NoKid] /\ kv' = [c \in Callers |-> NoKid] /\ oldk' = [c \in Callers |-> "none"]
  /\ req' = [c \in Callers |-> NoReq] /\ seen' = [c \in Callers |-> "none"] /\ res' = [c \in Callers |-> NoRes]
  /\ calls' = 0
  /\ ev' = [ev |-> "init", kid |-> i.kid, dir |-> i.dir, sk |-> i.sk, ss |-> i.ss]

TraceInit == InitWith(IEmpty) /\ l = 1 /\ HWMInit

TReset == IsEvent("reset") /\ SetInit(IEmpty)
TInit  == /\ IsEvent("init") /\ calls = 0
          /\ SetInit([sk |-> [a \in Accts |-> Ev.sk[a]], ss |-> [a \in Accts |-> Ev.ss[a]], kid |-> Ev.kid, dir |-> Ev.dir])

TCall == IsEvent("call") /\ Call(Ev.c, Ev.op, Ev.nk)

TDir == IsEvent("dir") /\ Disc(Ev.c) /\ ev'.ev = "dir" /\ ev'.ok = Ev.ok

ReqFields == {"url", "signer", "form", "kid", "pay", "nk", "iacct", "iold", "iform", "inonce", "iurl", "eab"}
TReq == /\ IsEvent("req")
        /\ \/ Kid1Miss(Ev.c) \/ SendMain(Ev.c) \/ SendMainMiss(Ev.c) \/ SendAfterLookup(Ev.c)
        /\ ev'.ev = "req"
        /\ \A f \in ReqFields : ev'[f] = Ev[f]

TReply == /\ IsEvent("reply")
          /\ \/ ReplyLookup(Ev.c, Ev.cls, Ev.lost) \/ ReplyMain(Ev.c, Ev.cls, Ev.lost)
          /\ ev'.loc = Ev.loc

TRet == /\ IsEvent("ret")
        /\ Return(Ev.c)
        /\ ev'.res = Ev.res
        /\ Ev.res = "acmeerr" => ev'.d = Ev.d
        /\ Ev.key # "?" => (ev'.key = Ev.key /\ ev'.kid = Ev.kid)

TSilent == /\ l' = l
           /\ \E c \in Callers : \/ (Disc(c) /\ ev'.ev = "tau")
                                 \/ Kid1Hit(c)
                                 \/ (SendMain(c) /\ ev'.ev = "tau")
                                 \/ Commit(c)

TraceNext == TReset \/ TInit \/ TCall \/ TDir \/ TReq \/ TReply \/ TRet \/ TSilent
TraceSpec == TraceInit /\ [][TraceNext]_<<vars, l>>
=============================================================================
