SPECIFICATION Spec
CONSTANTS
  Keys <- K2
  RSAKeys <- R1
  Pass <- P2
  Lifetimes <- L2
  Ticks <- T2
  Comments <- C2
  Flags <- F5
  MaxLen = 0
INVARIANTS TypeOK NoDuplicates Corr PurgeExact ResAgree SigOnlyIfUsable LockedRevealsNothing
PROPERTIES LockedFrozen
INVARIANTS NoBoundary
