SPECIFICATION TraceSpec
CONSTANTS
  MaxPending = 64
  ChanSize = 16
  Writers = {1, 2, 3, 4, 5, 6, 7, 8}
  NPkts = 1000000
  MaxRekeys = 1000000
  Threshold = 1000000000
  PktLens = {1}
  ExtInfo = TRUE
  NetCap = 1000000
  ReleaseAfterFlush = FALSE
INVARIANTS K1Wire K2State K3 QueueOnlyInKex
CONSTRAINT HWM
VIEW TraceView
POSTCONDITION TraceAccepted
CHECK_DEADLOCK FALSE
