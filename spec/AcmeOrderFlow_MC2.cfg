\* two authorizations per order (the shared nextTyp index matters), two offer sets
SPECIFICATION Spec
CONSTANTS
  HTTP01 = {TRUE, FALSE}
  NAuthz = 2
  OfferSets <- TwoOffers
  MaxOrders = 3
  Faults <- AllFaults
VIEW MCView
INVARIANTS F1_Bounded F2_ProvisionedBeforeAccept F3_NoTokenLeft F4_NoPendingLeft F5_FinalizeOnlyReady F6_OnlyPendingAccepted
CHECK_DEADLOCK FALSE
