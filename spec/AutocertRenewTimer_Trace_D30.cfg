\* trace validation, renewal threshold 2592000 s (Manager.RenewBefore / a third of the 90-day lifetime capped at 30 days), jitter < 1 h, retry 30..60 min
SPECIFICATION TraceSpec
CONSTANTS
  Keys = {"a.verif.test", "a.verif.test+rsa", "b.verif.test", "b.verif.test+rsa"}
  Callers = {"g1", "g2", "g3"}
  MaxCalls = 1000000
  MaxT = 2000000000
  Life = 7779600
  Thr = 2592000
  MaxJit = 3600
  RetryLo = 1800
  RetryHi = 3600
  MaxCerts = 1000000
  CAOutcomes = {"ok", "fail"}
  PutOutcomes = {"ok", "fail"}
  Preload = {}
  WithStop = TRUE
INVARIANTS T1_OneTimer T3_StopFinal T11_KeyMatch
CONSTRAINT HWM
POSTCONDITION TraceAccepted
CHECK_DEADLOCK FALSE
