SPECIFICATION Spec
CONSTANTS
  Alphabet = {0, 7}
  MaxL = 3
  PrefixSet = {0, 14}
INVARIANTS Injective Shape
CHECK_DEADLOCK FALSE
