SPECIFICATION Spec
CONSTANTS
  MaxLine = 255
  MaxPre = 1024
  MaxPending = 2
  ChanSize = 1
  Roles <- OnlyServer
  Owns <- OwnsOne
  StrictOpts <- OnlyT
  ExtcOpts <- OnlyT
  RkOpts <- OnlyT
  StartPh = "kex0"
  VerSteps <- NoVer
  MaxVer = 0
  Kinds <- KindsLite
  MaxPkt = 14
  MaxNoise = 0
  MaxPing = 3
  PingRuns <- RunsScaled
  Bursts <- NoRuns
  AsIs = TRUE
INVARIANTS NoStall
CHECK_DEADLOCK FALSE
