----------------------------- MODULE BcryptPbkdf -----------------------------
(***************************************************************************)
(* C19: the construction of OpenBSD's bcrypt_pbkdf(3) (libutil/             *)
(* bcrypt_pbkdf.c, the KDF of passphrase-protected OpenSSH private keys)    *)
(* and of its Go implementation                                             *)
(*   /repo/ssh/internal/bcrypt_pbkdf/bcrypt_pbkdf.go  (func Key).           *)
(*                                                                         *)
(* The two primitives are CONSTANT operators: Hash (SHA-512 in reality;     *)
(* Go standard library = trusted base) and BHash (bcrypt_hash: executable   *)
(* in spec/PrimBlowfish.tla).  This module has three parts.                 *)
(*                                                                         *)
(*  A. The argument decision table: the documented conditions under which  *)
(*     the function fails (bcrypt_pbkdf.c "nothing crazy": rounds < 1,      *)
(*     empty password, empty or > 2^20-byte salt, key length 0 or > 1024;   *)
(*     Go: the four error messages of Key) against a transcription of the   *)
(*     Go guard sequence AND of what the statements after the guards do     *)
(*     with the arguments that pass them (GoOutcome: a negative keyLen      *)
(*     reaches make/slicing).                                               *)
(*                                                                         *)
(*  B. The output loop as a state machine, one action per generated block,  *)
(*     in both published forms -- OpenBSD's (stride / amt / "dest >=        *)
(*     origkeylen: break" / keylen -= i) and Go's (allocate numBlocks*BS,   *)
(*     scatter every block with stride numBlocks, truncate) -- over         *)
(*     SYMBOLIC block bytes Sym(c, i) ("byte i of the block with counter     *)
(*     c"), so TLC can run it at the REAL block size 32 for every key       *)
(*     length 1..1024.  Invariants: both loops deliver exactly KeyMap (the  *)
(*     declarative statement of the "pbkdf2 deviation": key byte d is byte  *)
(*     d div stride of block (d mod stride) + 1), neither indexes out of    *)
(*     range, each consumes exactly stride blocks, OpenBSD's loop always    *)
(*     makes progress.                                                      *)
(*                                                                         *)
(*  C. The byte-level definition KeySpec (counter = big-endian uint32       *)
(*     appended to the salt; first round salted by Hash(salt || counter),   *)
(*     later rounds by Hash(previous bcrypt_hash output); XOR fold; the     *)
(*     interleaving) and a transcription GoKey of the Go statements         *)
(*     (tmp / out / key arrays).  With executable Hash/BHash TLC evaluates  *)
(*     both: GoKey = KeySpec is checked and the vectors are emitted for     *)
(*     the conformance harness.                                             *)
(***************************************************************************)
EXTENDS Integers, Sequences, Bitwise, SequencesExt

CONSTANTS Hash(_),        \* byte string -> digest
          BHash(_, _),    \* (hashed password, hashed salt) -> BS bytes
          BS,             \* block size: 32
          MaxSaltLen      \* 2^20

MaxKeyLen(bs) == bs * bs                    \* sizeof(out) * sizeof(out) = 1024
CeilDiv(a, b) == (a + b - 1) \div b
\* Go's / on ints truncates toward zero (TLA+ \div floors)
GoDiv(a, b) == IF a >= 0 THEN a \div b ELSE -((-a) \div b)
Iota(n) == [i \in 1..n |-> i]

(***************************************************************************)
(* A. Arguments.                                                            *)
(***************************************************************************)
\* what the property demands: "error", "key" (a key of keyLen bytes), or "either" (keyLen = 0: OpenBSD fails,
\* the Go package returns an empty key; neither the package documentation nor the property text settles it)
Documented(rounds, passLen, saltLen, keyLen) ==
  IF rounds < 1 \/ passLen = 0 \/ saltLen = 0 \/ saltLen > MaxSaltLen \/ keyLen > MaxKeyLen(BS) \/ keyLen < 0 THEN "error"
  ELSE IF keyLen = 0 THEN "either" ELSE "key"

\* transcription of Key's guards, in order (the error messages)
GoGuard(rounds, passLen, saltLen, keyLen) ==
  IF rounds < 1 THEN "rounds-too-small"
  ELSE IF passLen = 0 THEN "empty-password"
  ELSE IF saltLen = 0 \/ saltLen > MaxSaltLen THEN "bad-salt-length"
  ELSE IF keyLen > MaxKeyLen(BS) THEN "keylen-too-large"
  ELSE "pass"
\* ... and of what follows them: numBlocks := (keyLen + blockSize - 1) / blockSize; make([]byte, numBlocks*blockSize);
\* ...; key[:keyLen].  NegFix = TRUE models a guard that also rejects keyLen < 0 (see known finding C19-F1).
GoOutcome(negFix, rounds, passLen, saltLen, keyLen) ==
  LET g == GoGuard(rounds, passLen, saltLen, keyLen)
      nb == GoDiv(keyLen + BS - 1, BS)
  IN IF g # "pass" THEN "error"
     ELSE IF negFix /\ keyLen < 0 THEN "error"
     ELSE IF nb < 0 THEN "panic"                      \* makeslice: len out of range
     ELSE IF keyLen < 0 \/ keyLen > nb * BS THEN "panic"   \* slice bounds out of range
     ELSE "key"
ArgsOK(negFix, rounds, passLen, saltLen, keyLen) ==
  LET d == Documented(rounds, passLen, saltLen, keyLen)
      o == GoOutcome(negFix, rounds, passLen, saltLen, keyLen)
  IN /\ o # "panic"
     /\ d = "error" => o = "error"
     /\ d = "key" => o = "key"

(***************************************************************************)
(* B. The output loop over symbolic bytes.                                  *)
(***************************************************************************)
\* byte i (0-based, i < 64) of the block generated for counter c (1-based), as one number (keeps TLC states small)
Unset == 0
Sym(c, i) == c * 64 + i
SymBlock(s) == s \div 64
SymIndex(s) == s % 64
\* a destination of n unset bytes (kept as a TLA+ sequence: 0-based position d is element d + 1)
Blank(n) == [d \in 1..n |-> Unset] \o <<>>
Stride(bs, keyLen) == CeilDiv(keyLen, bs)
\* the declarative interleaving: 0-based key position d
KeyMapAt(bs, keyLen, d) == Sym((d % Stride(bs, keyLen)) + 1, d \div Stride(bs, keyLen))
KeyMap(bs, keyLen) == [d \in 0..(keyLen - 1) |-> KeyMapAt(bs, keyLen, d)]

VARIABLES impl,      \* "go" | "bsd"
          bs,        \* block size of this behaviour
          klen,      \* requested key length (origkeylen)
          count,     \* next counter value (Go: block)
          remaining, \* bsd: keylen (decremented); go: unused (0)
          amt,       \* bsd: amt; go: unused (0)
          key,       \* sequence of symbolic bytes, 0-based position d at key[d + 1] (go: numBlocks*bs positions)
          pc,        \* "loop" | "done"
          bad        \* set of strings: "oob" (index outside the destination), "overwrite", "noprogress"
lvars == <<impl, bs, klen, count, remaining, amt, key, pc, bad>>

\* The instance (loop form, block size, key length) is chosen in three small steps (Init; PickHi; PickLo) rather
\* than in Init, only so that TLC's workers share the 2 x 1024 instances of the real block size.
LoopInit(bsSet) ==
  /\ impl \in {"go", "bsd"}
  /\ bs \in bsSet
  /\ klen = 0 /\ count = 0 /\ remaining = 0 /\ amt = 0 /\ key = <<>> /\ bad = {}
  /\ pc = "pickhi"
PickHi ==
  /\ pc = "pickhi"
  /\ \E hi \in 0..(bs - 1) : klen' = hi * bs
  /\ pc' = "picklo"
  /\ UNCHANGED <<impl, bs, count, remaining, amt, key, bad>>
PickLo ==
  /\ pc = "picklo"
  /\ \E lo \in 1..bs :
       LET n == klen + lo IN
       /\ klen' = n                                   \* 1..bs*bs
       /\ IF impl = "go"
          THEN /\ remaining' = 0 /\ amt' = 0
               /\ key' = Blank(CeilDiv(n, bs) * bs)                              \* make([]byte, numBlocks*blockSize)
          ELSE /\ remaining' = n
               /\ amt' = CeilDiv(n, CeilDiv(n, bs))                          \* amt = (keylen + stride - 1) / stride
               /\ key' = Blank(n)
  /\ count' = 1
  /\ pc' = "loop"
  /\ UNCHANGED <<impl, bs, bad>>

IotaZ(n) == [i \in 1..n |-> i - 1]
\* one store key[dest] = v with the two run-time hazards recorded.  st = <<key, flags>>
Store(st, dest, v) ==
  IF dest < 0 \/ dest >= Len(st[1]) THEN <<st[1], st[2] \cup {"oob"}>>
  ELSE << [st[1] EXCEPT ![dest + 1] = v], IF st[1][dest + 1] # Unset THEN st[2] \cup {"overwrite"} ELSE st[2] >>

\* Go:  for i, v := range out { key[i*numBlocks+(block-1)] = v }
GoBlock ==
  /\ impl = "go" /\ pc = "loop"
  /\ LET nb == CeilDiv(klen, bs) IN
     \* (bound with \E so that TLC evaluates the fold once)
     \E r \in {FoldLeft(LAMBDA st, i : Store(st, i * nb + (count - 1), Sym(count, i)), <<key, bad>>, IotaZ(bs))} :
        /\ key' = r[1]
        /\ bad' = r[2]
        /\ count' = count + 1
        /\ pc' = IF count + 1 > nb THEN "done" ELSE "loop"
  /\ UNCHANGED <<impl, bs, klen, remaining, amt>>

\* OpenBSD:  amt = MINIMUM(amt, keylen);
\*           for (i = 0; i < amt; i++) { dest = i * stride + (count - 1); if (dest >= origkeylen) break; key[dest] = out[i]; }
\*           keylen -= i;
\* st = <<key, flags, broke, i>>  (i = value of the loop variable when the for statement is left)
BsdBlock ==
  /\ impl = "bsd" /\ pc = "loop"
  /\ LET stride == CeilDiv(klen, bs)
         a == IF amt < remaining THEN amt ELSE remaining
         body(st, i) ==
           IF st[3] THEN st
           ELSE IF i * stride + (count - 1) >= klen THEN <<st[1], st[2], TRUE, i>>
           ELSE LET w == Store(<<st[1], st[2]>>, i * stride + (count - 1), Sym(count, i))
                IN <<w[1], IF i >= bs THEN w[2] \cup {"oob"} ELSE w[2], FALSE, i + 1>>       \* out[i] with i >= sizeof(out)
     IN \E r \in {FoldLeft(body, <<key, bad, FALSE, 0>>, IotaZ(a))} : \E i \in {r[4]} :
        /\ key' = r[1]
        /\ amt' = a
        /\ remaining' = remaining - i
        /\ bad' = r[2] \cup (IF i = 0 THEN {"noprogress"} ELSE {})
        /\ count' = count + 1
        /\ pc' = IF remaining - i > 0 /\ i > 0 THEN "loop" ELSE "done"
  /\ UNCHANGED <<impl, bs, klen>>

LoopNext == PickHi \/ PickLo \/ GoBlock \/ BsdBlock
LoopSpec(bsSet) == LoopInit(bsSet) /\ [][LoopNext]_lvars

\* the delivered key: Go truncates key[:keyLen]
Delivered == [d \in 0..(klen - 1) |-> key[d + 1]]
LoopSafe == bad = {}
LoopResult == pc = "done" =>
  /\ Delivered = KeyMap(bs, klen)
  /\ count - 1 = Stride(bs, klen)                    \* exactly stride blocks were generated
  /\ impl = "bsd" => remaining = 0
\* while running: everything written so far is what KeyMap says, everything else is still unset
LoopPartial == pc \in {"loop", "done"} => \A d \in 0..(klen - 1) :
  key[d + 1] = IF (d % Stride(bs, klen)) + 1 < count THEN KeyMapAt(bs, klen, d) ELSE Unset
\* the interleaving is a bijection between key positions and the first keyLen symbolic bytes in "column" order:
\* block c contributes its bytes 0..n_c-1 with n_c = number of positions congruent to c-1 mod stride
KeyMapBijective == \A d1, d2 \in 0..(klen - 1) : KeyMapAt(bs, klen, d1) = KeyMapAt(bs, klen, d2) => d1 = d2
KeyMapInBlock == pc = "loop" /\ count = 1 /\ impl = "go" => \A d \in 0..(klen - 1) : LET s == KeyMapAt(bs, klen, d) IN SymBlock(s) \in 1..Stride(bs, klen) /\ SymIndex(s) \in 0..(bs - 1)

(***************************************************************************)
(* C. Bytes.                                                                *)
(***************************************************************************)
BE32(n) == << (n \div 16777216) % 256, (n \div 65536) % 256, (n \div 256) % 256, n % 256 >>
XorB(a, b) == [i \in 1..Len(a) |-> a[i] ^^ b[i]] \o <<>>

\* T_1 = BHash(hp, Hash(salt || BE32(c))),  T_r = BHash(hp, Hash(T_{r-1}));  block = T_1 xor ... xor T_rounds.
\* acc = <<T_r, T_1 xor ... xor T_r>>
OutBlock(hp, salt, rounds, c) ==
  LET t1 == BHash(hp, Hash(salt \o BE32(c)))
      step(acc) == LET t == BHash(hp, Hash(acc[1])) IN <<t, XorB(acc[2], t)>>
  IN FoldLeft(LAMBDA acc, r : step(acc), <<t1, t1>>, Iota(rounds - 1))[2]

KeySpec(pass, salt, rounds, keyLen) ==
  LET stride == Stride(BS, keyLen)
      hp == Hash(pass)
      blocks == [c \in 1..stride |-> OutBlock(hp, salt, rounds, c)] \o <<>>
  IN [d \in 1..keyLen |-> blocks[((d - 1) % stride) + 1][((d - 1) \div stride) + 1]] \o <<>>

\* transcription of the statements of Key after the guards (key is 1-based here)
GoKey(pass, salt, rounds, keyLen) ==
  LET numBlocks == CeilDiv(keyLen, BS)
      shapass == Hash(pass)
      blockStep(k, block) ==
        LET tmp1 == BHash(shapass, Hash(salt \o BE32(block)))
            \* for i := 2; i <= rounds; i++ { tmp = bcryptHash(shapass, H(tmp)); out ^= tmp }      acc = <<tmp, out>>
            fin == FoldLeft(LAMBDA acc, i : LET tmp == BHash(shapass, Hash(acc[1])) IN <<tmp, XorB(acc[2], tmp)>>,
                            <<tmp1, tmp1>>, Iota(rounds - 1))
            out == fin[2]
        IN [d \in 1..Len(k) |-> IF (d - 1) % numBlocks = block - 1 THEN out[((d - 1) \div numBlocks) + 1] ELSE k[d]] \o <<>>
      full == FoldLeft(blockStep, [d \in 1..(numBlocks * BS) |-> 0] \o <<>>, Iota(numBlocks))
  IN SubSeq(full, 1, keyLen)
=============================================================================
