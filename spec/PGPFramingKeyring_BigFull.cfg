SPECIFICATION Spec
CONSTANTS
  SignCapable <- Signers
  Alphabet <- Full
  MaxLen = 4
INVARIANTS Sound Ordered ErrShape Complete 
PROPERTIES UnknownInvisible

CHECK_DEADLOCK FALSE
