SPECIFICATION Spec
CONSTANTS
  KeyTypes <- AllKeys
  Ops <- QuickOps
  KidStates = {"preset", "lookupOK", "lookupFail"}
  Shapes = {0, 1}
  EABs = {TRUE, FALSE}
INVARIANTS Emit J1_JwkXorKid J2_Alg J3_FixedWidth J4_PostAsGet J5_Thumbprint J6_Protected
CHECK_DEADLOCK FALSE
