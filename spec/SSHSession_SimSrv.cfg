SPECIFICATION Spec
CONSTANTS
  MaxSrv = 10
  MaxCli = 3
  ReqBuf = 16
  Cfgs <- AllCfgs
  Lite = "srv"
INVARIANTS TypeOK S1_ExitResult S2_Conservation S2_NoDataLoss S3_StartOnce S5_StdinEOF S6_StartFailure S7_ReplyValue S8_NoStuckCall S9_NoStall EmitEnd
CHECK_DEADLOCK FALSE
