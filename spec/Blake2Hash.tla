------------------------------ MODULE Blake2Hash ------------------------------
(***************************************************************************)
(* C05 / C07 - abstract specification ("BufferedHash" of DESIGN.md) of the *)
(* hash.Hash returned by blake2b.New*/blake2s.New* (type digest in         *)
(* /repo/blake2b/blake2b.go and /repo/blake2s/blake2s.go):                 *)
(*   Write appends to the message; Sum returns H(key, size, all bytes      *)
(*   written since the last Reset) and leaves the state unchanged; Reset   *)
(*   restores the keyed initial state; MarshalBinary (unkeyed only) takes  *)
(*   a snapshot and UnmarshalBinary into a fresh hash of the same kind     *)
(*   restores it, after which the hash behaves as the original did.        *)
(*                                                                         *)
(* Bytes are abstract: every byte ever written has a unique id (1, 2, ...  *)
(* in order of writing); key bytes are -1..-KeyLen; 0 is a zero padding    *)
(* byte.  H is RFC 7693 section 3.3 as the *sequence of compression        *)
(* calls* it prescribes (block contents, counter t, final flag) on the     *)
(* parameter block (size, keyLen): two digests are equal iff these         *)
(* sequences are (F is treated as injective - an uninterpreted function);  *)
(* the byte oracle spec/PrimBlake2.tla materialises them.                  *)
(***************************************************************************)
EXTENDS Integers, Sequences

CONSTANTS B,          \* block size in bytes (128 for BLAKE2b, 64 for BLAKE2s; scaled to 4 for model checking)
          Size,       \* digest size the hash was created with
          KeyLen,     \* key length, 0..B
          NSet,       \* lengths passed to Write
          MaxBytes    \* bound on the total number of bytes written in a behaviour

VARIABLES msg,        \* ids of the bytes written since the last Reset (or restored by Unmarshal)
          nextId,     \* id of the next byte to be written
          snap,       \* <<TRUE, m>> after a successful MarshalBinary of message m, else <<FALSE, <<>>>>
          last        \* the last call and its observable result
avars == <<msg, nextId, snap, last>>

Force(s) == s \o <<>>      \* explicit tuple instead of TLC's lazy function closure
Zero(n) == Force([i \in 1..n |-> 0])
KeyBlockOf(k) == IF k = 0 THEN <<>> ELSE Force([i \in 1..B |-> IF i <= k THEN 0 - i ELSE 0])
KeyBlock == KeyBlockOf(KeyLen)

\* RFC 7693 section 3.3 on data = key block || message: all blocks but the last with t = bytes so
\* far; the last block (never empty unless data is) zero-padded, t = Len(data), final flag set.
RECURSIVE Calls(_, _)
Calls(data, done) ==
  IF Len(data) - done <= B
  THEN << [blk |-> SubSeq(data, done + 1, Len(data)) \o Zero(B - (Len(data) - done)), t |-> Len(data), f |-> TRUE] >>
  ELSE << [blk |-> SubSeq(data, done + 1, done + B), t |-> done + B, f |-> FALSE] >> \o Calls(data, done + B)

\* the digest, abstractly
\* (size, klen: the parameter block; outlen: how many bytes of the final state are returned)
H(size, klen, m) == [size |-> size, klen |-> klen, outlen |-> size, calls |-> Calls(KeyBlockOf(klen) \o m, 0)]

NoOut == [size |-> 0, klen |-> 0, outlen |-> 0, calls |-> <<>>]
Ev(op, n, ok, out) == [op |-> op, n |-> n, ok |-> ok, out |-> out]

Init == /\ msg = <<>> /\ nextId = 1 /\ snap = <<FALSE, <<>>>>
        /\ last = Ev("new", 0, TRUE, NoOut)

Write(n) == /\ nextId + n - 1 <= MaxBytes
            /\ msg' = msg \o [i \in 1..n |-> nextId + i - 1]
            /\ nextId' = nextId + n
            /\ UNCHANGED snap
            /\ last' = Ev("write", n, TRUE, NoOut)

Sum == /\ UNCHANGED <<msg, nextId, snap>>
       /\ last' = Ev("sum", Len(msg), TRUE, H(Size, KeyLen, msg))

Reset == /\ msg' = <<>>
         /\ UNCHANGED <<nextId, snap>>
         /\ last' = Ev("reset", 0, TRUE, NoOut)

\* MarshalBinary: keyed hashes refuse ("cannot marshal MACs")
Marshal == /\ UNCHANGED <<msg, nextId>>
           /\ IF KeyLen = 0 THEN snap' = <<TRUE, msg>> /\ last' = Ev("marshal", Len(msg), TRUE, NoOut)
              ELSE UNCHANGED snap /\ last' = Ev("marshal", Len(msg), FALSE, NoOut)

\* UnmarshalBinary of the bytes of the last successful MarshalBinary into a fresh hash of the same
\* kind, which then replaces the object under observation
Unmarshal == /\ snap[1]
             /\ msg' = snap[2]
             /\ UNCHANGED <<nextId, snap>>
             /\ last' = Ev("unmarshal", Len(snap[2]), TRUE, NoOut)

Next == (\E n \in NSet : Write(n)) \/ Sum \/ Reset \/ Marshal \/ Unmarshal
Spec == Init /\ [][Next]_avars

TypeOK == /\ nextId \in 1..(MaxBytes + 1) /\ Len(msg) < nextId
\* C05: any chunking gives the digest of the concatenation; Sum depends on the message only
SumIsDefinition == (last.op = "sum") => last.out = H(Size, KeyLen, msg)
\* C05: Sum does not alter the running state (so it may be repeated, and writing may continue)
SumStable == [][(last'.op = "sum") => (msg' = msg /\ ((last.op = "sum") => last'.out = last.out))]_avars
\* C05: Reset restores the keyed initial state: what follows a Reset is what follows New
ResetRestores == [][(last'.op = "reset") => msg' = <<>>]_avars
\* C07: transparency - after Unmarshal the hash is in the state the original had at Marshal time
Transparent == [][(last'.op = "unmarshal") => msg' = snap[2]]_avars
=============================================================================
