SPECIFICATION Spec
CONSTANTS
  Lifetimes <- NsLife
  RenewBefores <- NsRB
  NowOffsets <- NsOff
  Day30 = 2000000000
  Hour1 = 2000000000
INVARIANTS Emit R1_NonNegative R2_Window R3_ZeroOnlyWhenDue R4_BeforeExpiry
CHECK_DEADLOCK FALSE
