------------------------- MODULE SSHClientLife_Trace -------------------------
(* Binding T for X04: validates executions recorded from the REAL ssh.Client by the model-independent
   long-session driver (harness/x04 TestLong) against SSHClientLife.  A recorded line is one event and
   what was observed at the quiescent point after it:
     "step" - an application call, the end of a context, or a peer event: the spec takes the same big
              step and must predict exactly the observation (packets the client wrote, calls that
              returned with their results, NewChannels delivered to handler channels, handler channels
              closed, connection ended);
     "race" - two things done without waiting in between (the end of a DialContext's context and the
              peer's answer; a second want-reply request and the reply to the first): the observation
              must be that of one of the outcomes the spec allows, and the spec continues from it.
   The event must also be one the modelled application / a conforming peer can perform in that state.
   Plumbing as in TraceLib.tla (own names, because SSHClientLife already defines Ev). *)
EXTENDS SSHClientLife, Json

VARIABLES l

JTrace == ndJsonDeserialize("trace.ndjson")
Ln == JTrace[l]
IsLn(e) == l <= Len(JTrace) /\ JTrace[l].ev = e /\ l' = l + 1

HWM == IF l > TLCGet(1) THEN TLCSet(1, l) ELSE TRUE
TraceAccepted == IF TLCGet(1) = Len(JTrace) + 1 THEN TRUE
                 ELSE /\ PrintT("HWM " \o ToString(TLCGet(1)))
                      /\ FALSE
HWMInit == TLCSet(1, 1)

\* the level at which the driver reports results: the payload of a REQUEST_FAILURE is not compared
NormRes(r) == IF r.c = "false" THEN [r EXCEPT !.x = 0] ELSE r
NormDone(D) == {<<d[1], NormRes(d[2])>> : d \in D}
LnDone(ln) == {<<ln.done[i][1], NormRes(ln.done[i][2])>> : i \in 1 .. Len(ln.done)}
SeqSet(q) == {q[i] : i \in 1 .. Len(q)}

ObsOK(s, ln) ==
  /\ s.out = ln.out
  /\ NormDone(s.done) = LnDone(ln)
  /\ s.del = ln.del
  /\ s.dead = ln.dead
  /\ HClosed(s) = SeqSet(ln.hc)

EvOf(ln) == Ev(ln.k, ln.o, ln.v, ln.x)
Allowed(s, e) == e \in PeerEvents(s) \cup LocalEvents(s) \cup RaceEvents(s)

TReset == IsLn("reset") /\ S' = StartOf("empty") /\ hist' = hist
TStep == /\ IsLn("step") \/ IsLn("race")
         /\ LET e == EvOf(Ln) IN
            /\ Allowed(S, e)
            /\ e.k \in {"race", "greq2"} <=> Ln.ev = "race"
            /\ \E ns \in Outcomes(S, e) : ObsOK(ns, Ln) /\ S' = ns
         /\ hist' = hist

TraceInit == S = StartOf("empty") /\ hist = <<>> /\ l = 1 /\ HWMInit
TraceNext == TReset \/ TStep
TraceSpec == TraceInit /\ [][TraceNext]_<<S, hist, l>>
=============================================================================
