SPECIFICATION Spec
CONSTANTS
  Lanes = 4
  SegLen = 2
  Passes = 2
  Variant = "rfc"
INVARIANTS TypeOK AreaAgrees BlockAgrees RefWritten NoRace FirstSlice Complete
CHECK_DEADLOCK FALSE
