SPECIFICATION Spec
CONSTANTS
  NData = 3
  MaxRekeyS = 2
  MaxRekeyC = 2
  Methods = {"one", "two"}
  ExtInfo = TRUE
  GoQueues = TRUE
INVARIANTS PTypeOK NoRuleBroken Counts DoneAgrees
CHECK_DEADLOCK TRUE
