---------------------------- MODULE KnownHosts_MCF ----------------------------
(* Instance F of KnownHosts: files of several simple lines (property C42). *)
EXTENDS KnownHosts_MC

(* ---- instance F: several simple lines (markers x keys x hashed) -- interactions between lines ---- *)
Unh(ps) == [hashed |-> FALSE, pats |-> ps]
Hsh(h, pt) == [hashed |-> TRUE, pats |-> <<Pat(FALSE, h, pt)>>]
FShapes == << Unh(<<Pos(A)>>), Unh(<<Pos(Star)>>), Unh(<<Pos(B)>>), Unh(<<Pos(Star), Pat(TRUE, A, P22)>>),
              Unh(<<Pat(FALSE, A, P2)>>), Hsh(A, P22), Hsh(A, P2), Unh(<<Pos(AStar)>>) >>
FKeys == <<"k1", "k2", "ca1">>
MkLine(sh, mk, k) == [m |-> mk, hashed |-> sh.hashed, pats |-> sh.pats, key |-> k]
\* 48 non-revoked lines, then 6 @revoked lines (their patterns are irrelevant to the package: one
\* matching-everything and one matching only b)
FL == Prod3(FShapes, <<"none", "ca">>, FKeys, MkLine)
      \o Prod3(<<Unh(<<Pos(Star)>>), Unh(<<Pos(B)>>)>>, <<"revoked">>, FKeys, MkLine)
FLines == Range(FL)
FilesF1 == {<<>>} \cup {<<l>> : l \in FLines}
FilesF2 == FilesF1 \cup {<<l1, l2>> : l1, l2 \in FLines}
QueriesF ==
  Prod3(<< [hh |-> FALSE, h |-> A, pt |-> P22], [hh |-> TRUE, h |-> A, pt |-> P22],
           [hh |-> TRUE, h |-> B, pt |-> P22], [hh |-> TRUE, h |-> A, pt |-> P2] >>,
        << [h |-> A, pt |-> P22], [h |-> B, pt |-> P2] >>,
        << Plain("k1"), Plain("k2"), Plain("ca1"), Cert("k1", "ca1"), Cert("k1", "k2") >>,
        LAMBDA a, r, k : Q(a.hh, a.h, a.pt, r.h, r.pt, k))
\* the same with one remote address per hostname (quick tier)
QueriesFq ==
  Prod3(<< [hh |-> FALSE, h |-> A, pt |-> P22, rh |-> A, rpt |-> P22], [hh |-> TRUE, h |-> A, pt |-> P22, rh |-> B, rpt |-> P2],
           [hh |-> TRUE, h |-> B, pt |-> P22, rh |-> A, rpt |-> P22], [hh |-> TRUE, h |-> A, pt |-> P2, rh |-> A, rpt |-> P22] >>,
        << 0 >>,
        << Plain("k1"), Plain("k2"), Plain("ca1"), Cert("k1", "ca1"), Cert("k1", "k2") >>,
        LAMBDA a, z, k : Q(a.hh, a.h, a.pt, a.rh, a.rpt, k))

=============================================================================
