------------------------------ MODULE Bn256Enc ------------------------------
(* golang.org/x/crypto/bn256: what an accepted encoding of a group element is, and the laws the group
   operations and the pairing must satisfy (bn256.go: G1/G2/GT Marshal, Unmarshal, Add, Neg, ScalarMult,
   ScalarBaseMult, Pair; curve.go / twist.go: IsOnCurve, Mul).

   Part 1 (encodings).  A G1 element is encoded as two fixed-width big-endian coordinates, a G2 element as
   four; the point at infinity is the all-zero string.  The property: Unmarshal accepts exactly the canonical
   encoding (every coordinate below p) of a point on the curve, so Unmarshal o Marshal = id and every element
   has exactly one accepted encoding.  This is stated and model-checked twice:
     - exhaustively on a toy instance of the same shape (curve y^2 = x^3 + B over GF(P), coordinates of W
       bits with P < 2^W < 2P, so that some but not all residues x also fit as x+P -- as for the real p,
       where 2^256/p is about 1.78): AcceptSpec is the property's predicate and what the code does since the
       repair (bn256 57c7a7b: coordinates >= p are rejected before the curve check).  Two wrong predicates are kept
       for the Doc configurations only, whose counterexamples TLC must still find: AcceptOld (the code before the
       repair: coordinates reduced modulo p inside IsOnCurve, never compared with p) and AcceptLeP (an off-by-one
       comparison: the value p itself, a second spelling of 0, passes -- it matters exactly for points with a zero
       coordinate, which the twist has);
     - on coordinate classes for the real curve (G1: 2 coordinates, G2: 4): canonical / +p / the value p /
       zero / 2^256-1, with or without the curve equation holding for the residues.
   TLC emits one case per class tuple with the predicted decision; the harness materialises the classes on
   real points and compares with the real Unmarshal (binding R).

   Part 2 (laws).  The three groups are cyclic of prime order n with generators g1, g2, gT = e(g1, g2);
   abstractly an element is its discrete logarithm in Z_n, Add is +, Neg is -, ScalarMult is *, Pair is
   multiplication of logarithms.  TLC checks the laws on the toy order N over scalar classes
   {0, 1, 2, n-1, n, n+1, -1, -2, r1, r2} and emits the law instances; the harness evaluates both sides with
   the real G1/G2/GT operations (metamorphic: there is no second implementation) and the expected
   logarithms with math/big.

   NOT decided here: that the tower-field arithmetic (gfp2/gfp6/gfp12, the Miller loop, the final
   exponentiation) computes the mathematically correct pairing value -- only its algebraic laws are bound. *)
EXTENDS Integers, Sequences, FiniteSets, TLC

CONSTANTS P,    \* toy field prime (P = 3 mod 4)
          W,    \* toy coordinate range 0..W-1, P < W < 2P
          B,    \* curve constant (3)
          N     \* toy group order for the laws (prime)

VARIABLES phase, case
vars == <<phase, case>>

-----------------------------------------------------------------------------
(* Part 1a: the toy instance, exhaustively. *)
Coord == 0..(W - 1)
Enc1 == Coord \X Coord
OnCurve(x, y) == (y * y - x * x * x - B) % P = 0
Inf == <<-1, -1>>
Points == {pt \in (0..(P - 1)) \X (0..(P - 1)) : OnCurve(pt[1], pt[2])}
Marshal(pt) == IF pt = Inf THEN <<0, 0>> ELSE pt
Decode(e) == IF e = <<0, 0>> THEN Inf ELSE <<e[1] % P, e[2] % P>>
(* the property's acceptance predicate *)
AcceptSpec(e) == e = <<0, 0>> \/ (e[1] < P /\ e[2] < P /\ OnCurve(e[1], e[2]))
(* the code before 57c7a7b: both zero -> infinity, otherwise IsOnCurve (which reduces modulo p) *)
AcceptOld(e) == e = <<0, 0>> \/ OnCurve(e[1] % P, e[2] % P)
(* an off-by-one canonical check: coordinates <= p pass *)
AcceptLeP(e) == e = <<0, 0>> \/ (e[1] <= P /\ e[2] <= P /\ OnCurve(e[1] % P, e[2] % P))

RoundTrip(Acc(_)) == \A pt \in Points \cup {Inf} : Acc(Marshal(pt)) /\ Decode(Marshal(pt)) = pt
OnlyCurve(Acc(_)) == \A e \in Enc1 : Acc(e) => (Decode(e) = Inf \/ Decode(e) \in Points)
OneEncoding(Acc(_)) == \A e1, e2 \in Enc1 : (Acc(e1) /\ Acc(e2) /\ Decode(e1) = Decode(e2)) => e1 = e2
Canonical(Acc(_)) == \A e \in Enc1 : Acc(e) => Marshal(Decode(e)) = e

SpecRoundTrip   == RoundTrip(AcceptSpec)
SpecOnlyCurve   == OnlyCurve(AcceptSpec)
SpecOneEncoding == OneEncoding(AcceptSpec)
SpecCanonical   == Canonical(AcceptSpec)
(* Doc configurations: the wrong predicates lose 'one encoding per element' (expected counterexamples) *)
OldOneEncoding == phase = "case" => OneEncoding(AcceptOld)
LePOneEncoding == phase = "case" => OneEncoding(AcceptLeP)
(* non-vacuity of the toy instance: a point whose x also fits as x+P, one whose x does not, an encoding only the old
   predicate accepts *)
ToyShape == /\ \E pt \in Points : pt[1] + P < W
            /\ \E pt \in Points : pt[1] + P >= W
            /\ \E e \in Enc1 : AcceptOld(e) /\ ~AcceptSpec(e)
(* the toy instance with B = 4 has points with a zero coordinate (as the twist of the real curve has): there the value P
   is a second spelling of 0 that only the exact comparison '< P' rejects *)
ToyZeroShape == /\ \E pt \in Points : pt[1] = 0 \/ pt[2] = 0
                /\ \E e \in Enc1 : AcceptLeP(e) /\ ~AcceptSpec(e)

-----------------------------------------------------------------------------
(* Part 1b: coordinate classes for the real curve. *)
CoordClass == {"canon", "plusp", "p", "zero", "max"}
(* canon: the residue itself (0 < v < p); plusp: v + p where that still fits in 256 bits; p: the value p (residue 0);
   zero: 0; max: 2^256-1 (residue 2^256-1-p, which is below p) *)
IsCanonical(c) == c \in {"canon", "zero"}
AllZero(cs) == \A i \in 1..Len(cs) : cs[i] = "zero"
(* on: the curve equation holds for the residues of the coordinates (the harness chooses residues accordingly) *)
AcceptClass(cs, on) == AllZero(cs) \/ (on /\ \A i \in 1..Len(cs) : IsCanonical(cs[i]))
OldAcceptClass(cs, on) == AllZero(cs) \/ on               \* the code before 57c7a7b
(* which class tuples the harness MUST materialise (binding R fails with exit 2 otherwise): every tuple with the
   residues off the curve; with the residues on the curve, every tuple that prescribes the residue of at most one
   coordinate (0 for "p"/"zero", 2^256-1-p for "max") -- except on G1, which has no affine point with a zero
   coordinate (y = 0 would be a point of order 2 on a curve of odd prime order; x = 0 needs 3 to be a square
   modulo p, which it is not: the harness verifies both facts on the real p).  Tuples prescribing two or more
   residues are materialised where the equations happen to have a solution and counted otherwise. *)
Forced(cs) == Cardinality({i \in 1..Len(cs) : cs[i] \in {"p", "zero", "max"}})
ZeroForced(cs) == \E i \in 1..Len(cs) : cs[i] \in {"p", "zero"}
Must(g, cs, on) == IF ~on THEN TRUE ELSE Forced(cs) <= 1 /\ ~(g = "G1" /\ ZeroForced(cs))
RECURSIVE Tuples(_)
Tuples(k) == IF k = 0 THEN {<<>>} ELSE {Append(t, c) : t \in Tuples(k - 1), c \in CoordClass}

-----------------------------------------------------------------------------
(* Part 2: laws over Z_N. *)
ScalarClass == {"0", "1", "2", "n-1", "n", "n+1", "-1", "-2", "r1", "r2"}
Val(s) == CASE s = "0" -> 0 [] s = "1" -> 1 [] s = "2" -> 2 [] s = "n-1" -> N - 1 [] s = "n" -> N
            [] s = "n+1" -> N + 1 [] s = "-1" -> -1 [] s = "-2" -> -2 [] s = "r1" -> 5 [] s = "r2" -> 8
Mod(x) == x % N                       \* TLC's % is the mathematical modulus for a positive divisor
Elt(s) == Mod(Val(s))                 \* the element [s]g as its logarithm
Add(x, y) == Mod(x + y)
Neg(x) == Mod(0 - x)
Smul(x, k) == Mod(x * k)
Pair(x, y) == Mod(x * y)              \* logarithm of e([x]g1, [y]g2) to the base gT

Laws ==
  /\ \A a, b \in ScalarClass : Add(Elt(a), Elt(b)) = Add(Elt(b), Elt(a))                                     \* commutative
  /\ \A a, b, c \in ScalarClass : Add(Add(Elt(a), Elt(b)), Elt(c)) = Add(Elt(a), Add(Elt(b), Elt(c)))         \* associative
  /\ \A a \in ScalarClass : Add(Elt(a), 0) = Elt(a) /\ Add(Elt(a), Neg(Elt(a))) = 0                           \* identity, inverse
  /\ \A a, b \in ScalarClass : Smul(Elt(a), Val(b)) = Elt(a) * Val(b) % N                                     \* scalar multiplication
  /\ \A a, b \in ScalarClass : Add(Smul(1, Val(a)), Smul(1, Val(b))) = Smul(1, Val(a) + Val(b))               \* [a]g + [b]g = [a+b]g
  /\ \A a \in ScalarClass : Smul(Elt(a), N) = 0                                                               \* order
  /\ \A a, b \in ScalarClass : Pair(Smul(1, Val(a)), Smul(1, Val(b))) = Smul(Pair(1, 1), Val(a) * Val(b))     \* bilinear
  /\ Pair(1, 1) # 0                                                                                           \* non-degenerate

-----------------------------------------------------------------------------
(* Case emission (binding R): one state per case. *)
NoCase == [kind |-> "none", grp |-> "", cs |-> <<>>, on |-> FALSE, accept |-> FALSE, oldAccept |-> FALSE, must |-> FALSE,
           a |-> "", b |-> "", c |-> ""]
EncCase(g, cs, on) == [NoCase EXCEPT !.kind = "enc", !.grp = g, !.cs = cs, !.on = on, !.must = Must(g, cs, on),
                                     !.accept = AcceptClass(cs, on), !.oldAccept = OldAcceptClass(cs, on)]
LawCase(k, g, a, b, c) == [NoCase EXCEPT !.kind = k, !.grp = g, !.a = a, !.b = b, !.c = c]

Groups == {"G1", "G2", "GT"}
Cases ==
  {EncCase("G1", cs, on) : cs \in Tuples(2), on \in BOOLEAN}
  \cup {EncCase("G2", cs, on) : cs \in Tuples(4), on \in BOOLEAN}
  \cup {LawCase("hom", g, a, b, "") : g \in Groups, a \in ScalarClass, b \in ScalarClass}          \* [a]P + [b]P = [a+b]P
  \cup {LawCase("smul", g, a, b, "") : g \in Groups, a \in ScalarClass, b \in ScalarClass}         \* [b]([a]g) = [ab]g
  \cup {LawCase("assoc", g, a, b, c) : g \in Groups, a \in ScalarClass, b \in ScalarClass, c \in {"1", "n-1", "r2", "0"}}
  \cup {LawCase("neg", g, a, "", "") : g \in Groups, a \in ScalarClass}                            \* P + (-P) = 0, -(-P) = P
  \cup {LawCase("order", g, a, "", "") : g \in Groups, a \in ScalarClass}                          \* [n]P = 0
  \cup {LawCase("roundtrip", g, a, "", "") : g \in Groups, a \in ScalarClass}                      \* Unmarshal(Marshal(P)) = P
  \cup {LawCase("bilinear", "GT", a, b, "") : a \in ScalarClass, b \in ScalarClass}                \* e([a]g1,[b]g2) = gT^(ab)
  \cup {LawCase("nondegenerate", "GT", "", "", "")}

Init == phase = "start" /\ case = NoCase
Next == /\ phase = "start"
        /\ \E k \in Cases : case' = k
        /\ phase' = "case"
Spec == Init /\ [][Next]_vars

(* the decision table is consistent: the old predicate accepted a superset, and the difference is exactly the on-curve
   tuples with a non-canonical coordinate; every coordinate position of both groups has a must-materialise tuple in which
   that coordinate alone is the value p (the boundary of the canonical check) *)
TableOK == case.kind = "enc" =>
             /\ (case.accept => case.oldAccept)
             /\ ((case.oldAccept /\ ~case.accept) <=> (case.on /\ ~AllZero(case.cs) /\ \E i \in 1..Len(case.cs) : ~IsCanonical(case.cs[i])))
BoundaryCovered == \A i \in 1..4 : \E k \in Cases :
                     k.kind = "enc" /\ k.grp = "G2" /\ k.on /\ k.must /\ ~k.accept /\ k.cs[i] = "p" /\ \A j \in (1..4) \ {i} : k.cs[j] = "canon"
=============================================================================
