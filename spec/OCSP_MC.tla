------------------------------ MODULE OCSP_MC ------------------------------
(* Exhaustive instance of OCSP (C48) and the case generator for binding R: one line per configuration
   with the model's decision and the fields a successful parse must return. *)
EXTENDS OCSP, Json

Emit == Parsed => PrintT("TRACE " \o ToJson([
          signer |-> cfg.signer, respId |-> cfg.respId, status |-> cfg.status, issuerGiven |-> cfg.issuerGiven,
          issuerSelfSigned |-> cfg.issuerSelfSigned, certArg |-> cfg.certArg, region |-> cfg.region, imp |-> cfg.imp,
          sigKey |-> SigKey(cfg.signer), emb |-> Embedded(cfg.signer, cfg.issuerSelfSigned),
          maker |-> IF cfg.respId = "byKey" THEN "harness-encoder" ELSE "CreateResponse",
          d |-> res.d, authorized |-> Authorized(resp), rstatus |-> res.status, rrespId |-> res.respId, hasCert |-> res.hasCert]))
=============================================================================
