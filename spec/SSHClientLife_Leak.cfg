SPECIFICATION Spec
CONSTANTS
  MaxPeer = 2
  MaxLocal = 2
  MaxDial = 1
  MaxGReq = 0
  MaxIn = 0
  MaxReg = 0
  Configs <- CfgCore
  Alpha = "lite"
  Races = TRUE
  CloseLate = FALSE
INVARIANTS TypeOK L1_Once L1_Result L1_NotStuck L2_NoLeak
VIEW View
CHECK_DEADLOCK FALSE
