SPECIFICATION Spec
CONSTANTS
  Modes <- AllModes
  MaxPacket = 262144
  SeqMod = 16
  CtrBase = 256
  CtrLimbs = 8
  Sizes <- SizesSeqGen
  StartSeqs <- SeqNearWrap16
  StartCtrs <- CtrReal
  MaxPkts = 6
  MaxFaults = 0
  AttackOps <- NoOps
  Phased = TRUE
  PadRule = "code"
INVARIANTS EmitFinished
CHECK_DEADLOCK FALSE
ACTION_CONSTRAINT CloseLate
