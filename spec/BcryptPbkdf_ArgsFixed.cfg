\* part A with a guard rejecting keyLen < 0 (fixes/C19-negative-keylen.diff): never a panic, error exactly when documented
CONSTANTS
  Hash <- MCHash
  BHash <- MCBHash
  BS = 32
  MaxSaltLen = 1048576
  NegFix = TRUE
INIT ArgsInit
NEXT Stutter
CHECK_DEADLOCK FALSE
INVARIANTS ArgsHold
