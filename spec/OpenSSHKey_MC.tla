---------------------------- MODULE OpenSSHKey_MC ----------------------------
EXTENDS OpenSSHKey, Json
Modes == {"nopass", "right", "wrong"}
MAll  == [src |-> {"go", "keygen"}, kt |-> KeyTypes, enc |-> {"none", "ctr", "cbc"}, mode |-> Modes, corr |-> AllCorr]
MenusAll == {MAll}
\* generator menus: the bcrypt KDF is slow, so encrypted files get the classes that matter for them
GPlain == [src |-> {"go", "keygen"}, kt |-> KeyTypes, enc |-> {"none"}, mode |-> {"nopass", "right"}, corr |-> AllCorr]
GEnc   == [src |-> {"go", "keygen"}, kt |-> KeyTypes, enc |-> {"ctr"}, mode |-> Modes,
           corr |-> {"none", "check", "padWrongByte", "outerPubOther", "seedMismatch", "nMismatch", "pointMismatch", "pointNegated", "pointShareY", "nkeys2", "cipherUnknown", "kdfUnknown", "roundsHuge", "trailing"}]
GCbc   == [src |-> {"keygen"}, kt |-> {"ed25519", "rsa"}, enc |-> {"cbc"}, mode |-> Modes, corr |-> {"none", "check", "padWrongByte"}]
MenusGenQ == {GPlain, [GEnc EXCEPT !.kt = {"ed25519", "ecdsa256", "rsa"}, !.corr = {"none", "check", "outerPubOther", "seedMismatch", "nMismatch", "pointMismatch", "pointNegated", "cipherUnknown"}],
              [src |-> {"go"}, kt |-> {"ecdsa384", "ecdsa521"}, enc |-> {"ctr"}, mode |-> {"right"}, corr |-> {"pointNegated", "pointShareY"}]}
MenusGenT == {GPlain, GEnc, GCbc}
Emit == Done => PrintT("TRACE " \o ToJson([f |-> f, res |-> res, want |-> Want(f)]))
=============================================================================
