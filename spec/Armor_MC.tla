------------------------------ MODULE Armor_MC ------------------------------
(* Bounded instances of Armor (C46) and the case generator for binding E+R. *)
EXTENDS Armor, Json

TSig == <<80, 71, 80, 32, 83, 73, 71, 78, 65, 84, 85, 82, 69>>     \* "PGP SIGNATURE"
TMsg == <<80, 71, 80, 32, 77, 69, 83, 83, 65, 71, 69>>             \* "PGP MESSAGE"
TX   == <<88>>                                                     \* "X"
TAB_ == <<65, 32, 66>>                                             \* "A B"

In(id, typ, hdrs, body) == [id |-> id, typ |-> typ, hdrs |-> hdrs, body |-> body, flip |-> FALSE]
WithFlips(S) == {[x EXCEPT !.flip = TRUE] : x \in S}

\* ---- bodies: every length 0..N of the arithmetic pattern (seed 7), plus all-zero / all-0xff at a few lengths
BodyIn(seed, n) == In(<<"body", seed, n>>, TSig, <<>>, Pat(seed, n))
Bodies(ns) == {BodyIn(7, n) : n \in ns}
BodiesAll == Bodies(0..100) \cup {BodyIn(s, n) : s \in {0, 1}, n \in {1, 2, 3, 47, 48, 49, 96}}
             \cup {In(<<"type", i, 0>>, (<<TMsg, TX, TAB_>>)[i], <<>>, Pat(9, 5)) : i \in 1..3}
\* bodies whose CRC line ends in '5' or '9': one bit turns that character into '=' (see ShortCrcLine in Armor)
ShortCrcLens == {n \in 0..100 : CrcLine(Crc24(Pat(7, n)))[5] \in {53, 57}}
MinOf(S) == CHOOSE x \in S : \A y \in S : x <= y
FlipLensQ == {0, 1, 2, 3, 49} \cup {MinOf(ShortCrcLens)}
FlipLensT == 0..100
WithFlipLens(L) == {IF x.id[1] = "body" /\ x.id[2] = 7 /\ x.id[3] \in L THEN [x EXCEPT !.flip = TRUE] ELSE x : x \in BodiesAll}
BodyQ == WithFlipLens(FlipLensQ)
BodyT == WithFlipLens(FlipLensT)
ShortCrcOnly == WithFlips(Bodies({MinOf(ShortCrcLens)}))
ASSUME ShortCrcLens # {}

\* ---- header maps: every key and value over {a, space, ':'} of length <= 3 (40 x 40 single-header maps),
\*      and two-header maps (a fixed "Version" header first or second)
RECURSIVE Strs(_, _)
Strs(A, n) == IF n = 0 THEN {<<>>} ELSE LET S == Strs(A, n - 1) IN S \cup {Append(s, a) : s \in S, a \in A}
HAlpha == {97, 32, 58}
KVs(n) == Strs(HAlpha, n) \X Strs(HAlpha, n)
Version == <<86, 101, 114, 115, 105, 111, 110>>
HdrInputs == {In(<<"hdr1", 0, 0>>, TSig, <<kv>>, <<1, 2, 3>>) : kv \in KVs(3)}
             \cup {In(<<"hdr0", 0, 0>>, TSig, <<>>, <<1, 2, 3>>)}
Hdr2Inputs == {In(<<"hdr2a", 0, 0>>, TSig, << <<Version, <<97>>>>, kv >>, <<1, 2, 3>>) : kv \in KVs(2)}
              \cup {In(<<"hdr2b", 0, 0>>, TSig, << kv, <<Version, <<97>>>> >>, <<1, 2, 3>>) : kv \in KVs(2)}
HdrAll == HdrInputs \cup Hdr2Inputs
HdrQ == {x \in HdrAll : \A i \in 1..Len(x.hdrs) : Len(x.hdrs[i][1]) <= 2 /\ Len(x.hdrs[i][2]) <= 2}     \* quick tier: keys/values up to length 2
AllQ == HdrQ \cup BodyQ          \* quick tier, one TLC run
AllT == HdrAll \cup BodyT       \* thorough tier
AlwaysTrue == TRUE               \* for the documentation cfgs that switch the pre-fix behaviour on
EmptyValueOnly == {x \in HdrInputs : Len(x.hdrs) = 1 /\ Len(x.hdrs[1][2]) = 0 /\ Len(x.hdrs[1][1]) = 1}

\* ---- generator.  Undamaged and CRC-level cases carry the text; bit flips only (input id, position, bit,
\*      predicted outcome): the harness applies them to the text of the undamaged case with the same id.
Emit == Decoded =>
  IF mut.k = "flip"
  THEN PrintT("TRACE " \o ToJson([k |-> "flip", id |-> inp.id, pos |-> mut.pos - 1, bit |-> mut.bit, ok |-> res.ok, afterPad |-> res.afterPad]))
  ELSE PrintT("TRACE " \o ToJson([k |-> mut.k, id |-> inp.id, d |-> mut.pos, typ |-> inp.typ, hdrs |-> inp.hdrs, body |-> inp.body,
                                  text |-> text, lo |-> RegionLo(inp.typ, inp.hdrs) - 1, hi |-> RegionHi(inp.typ, inp.hdrs, inp.body) - 1,
                                  crc |-> Crc24(inp.body), safe |-> [i \in 1..Len(inp.hdrs) |-> HeaderClass(inp.hdrs[i])],
                                  ok |-> res.ok, rtyp |-> res.typ, rhdr |-> res.hdr, rbody |-> res.body, crcChecked |-> res.crcChecked]))
=============================================================================
