SPECIFICATION Spec
CONSTANTS
  Callers <- Three
  MaxCalls = 4
  Ops <- OpsCore
  Inject <- InjSmall
  Exclusive = TRUE
  Mut = "none"
  InitSet <- InitSmall
INVARIANTS TypeOK ServerSane A1_HeaderForm A1_KidBelongs A2_OneLookup A2_CacheSound A3_Results A4_RolloverShape A4_KeyAccepted A4_OneSigner A4_Agreement A5_Deactivate Progress
CHECK_DEADLOCK FALSE
