INIT GInit
NEXT GNext
CONSTANTS
  WSet = {0, 1, 2, 15, 16, 17, 31, 32, 33, 48}
  MaxLen = 80
  MaxWrites = 4
INVARIANTS Emit
CHECK_DEADLOCK FALSE
