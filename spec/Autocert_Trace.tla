---------------------------- MODULE Autocert_Trace ----------------------------
(* Binding T for C51 (b): validates event logs recorded while real goroutines called
   Manager.GetCertificate concurrently (recording HostPolicy, recording Cache, fake in-process
   ACME CA) against Autocert.

   Logged events (the goroutine id attributes every callback to its GetCertificate call):
     cfg       policy answer, clock position, initial cache classes
     call      GetCertificate(g) entered with name class / key type
     policy    HostPolicy consulted by g                      -> Policy(g)
     cacheget  Cache.Get of the certificate entry by g         -> Lookup(g), cache branch
     finalize  the CA received g's finalize request            -> Order(g)
     issued    the CA answered it (ok + serial | cafail | badcert) -> Finish(g, o)
     cacheput  Cache.Put of the certificate entry by g         -> Put(g)
     ret       GetCertificate(g) returned (certificate serial / source, or error)
   Silent steps (Start, Lookup through an existing state, CState, RWait, CWait): see below. *)
EXTENDS Autocert, TraceLib

TraceInit == /\ policyOK = TRUE /\ clock = "mid" /\ cache = [k \in KeyTypes |-> "miss"] /\ cache0 = cache /\ tokenCache = "miss"
             /\ st = [k \in KeyTypes |-> [s |-> "absent", owner |-> NoProc, cert |-> NoCert]]
             /\ orders = [k \in KeyTypes |-> 0] /\ inflight = [k \in KeyTypes |-> 0]
             /\ issued = 0 /\ cleanups = 0
             /\ pc = [g \in Procs |-> "idle"]
             /\ nc = [g \in Procs |-> "plain"] /\ kt = [g \in Procs |-> "E"] /\ tok = [g \in Procs |-> FALSE]
             /\ res = [g \in Procs |-> [t |-> "none", why |-> "", cert |-> NoCert]]
             /\ polBefore = {}
             /\ ev = E("init", NoProc, "", "", 0)
             /\ l = 1 /\ HWMInit

TReset == /\ IsEvent("reset")
          /\ policyOK' = TRUE /\ clock' = "mid" /\ cache' = [k \in KeyTypes |-> "miss"] /\ cache0' = cache' /\ tokenCache' = "miss"
          /\ st' = [k \in KeyTypes |-> [s |-> "absent", owner |-> NoProc, cert |-> NoCert]]
          /\ orders' = [k \in KeyTypes |-> 0] /\ inflight' = [k \in KeyTypes |-> 0]
          /\ issued' = 0 /\ cleanups' = 0
          /\ pc' = [g \in Procs |-> "idle"]
          /\ nc' = [g \in Procs |-> "plain"] /\ kt' = [g \in Procs |-> "E"] /\ tok' = [g \in Procs |-> FALSE]
          /\ res' = [g \in Procs |-> [t |-> "none", why |-> "", cert |-> NoCert]]
          /\ polBefore' = {}
          /\ ev' = E("init", NoProc, "", "", 0)

TCfg == /\ IsEvent("cfg")
        /\ policyOK' = Ev.policy /\ clock' = Ev.clock
        /\ cache' = [k \in KeyTypes |-> IF k = "E" THEN Ev.cacheE ELSE Ev.cacheR] /\ cache0' = cache'
        /\ UNCHANGED <<tokenCache, st, orders, inflight, issued, cleanups, pc, nc, kt, tok, res, polBefore, ev>>

\* The harness only calls with well-formed names and regular hellos: Start is a local step, fused here.
TCall == /\ IsEvent("call") /\ Ev.g \in Procs /\ pc[Ev.g] = "idle" /\ Ev.nc \in GoodNames
         /\ nc' = [nc EXCEPT ![Ev.g] = Ev.nc] /\ kt' = [kt EXCEPT ![Ev.g] = Ev.kt]
         /\ pc' = [pc EXCEPT ![Ev.g] = "policy"]
         /\ UNCHANGED <<policyOK, clock, cache, cache0, tokenCache, st, orders, inflight, issued, cleanups, tok, res, polBefore, ev>>

TPolicy == IsEvent("policy") /\ Ev.g \in Procs /\ Policy(Ev.g)
\* the cache was read: only the cache branch of Lookup does that (no state existed), and the outcome must agree
TCacheGet == /\ IsEvent("cacheget") /\ Ev.g \in Procs
             /\ pc[Ev.g] = "lookup" /\ st[kt[Ev.g]].s = "absent"
             /\ Lookup(Ev.g)

(* Silent steps.  Within a recorded session no clean-up happens, so Manager.state only grows
   (absent -> locked -> ready/failed) and the silent steps commute with everything up to the
   process's next logged event; they are therefore performed AT that event (this keeps the
   validation linear instead of exploring every placement of up to 16 processes' silent steps):
     - CState as owner is performed at the owner's "finalize" event: the process must be past a
       cache miss and NO state may exist (a second issuance for the key is not explainable);
     - Lookup-through-state + RWait / CState-as-waiter + CWait are performed at the process's
       "ret" (or, for a waiter that got the certificate, "cacheput") event: a state
       must exist and be unlocked, and the caller must have got exactly what it holds. *)
TFinalize == /\ IsEvent("finalize") /\ Ev.g \in Procs /\ Ev.kt = kt[Ev.g]
             /\ pc[Ev.g] = "cstate" /\ st[Ev.kt].s = "absent"
             /\ st' = [st EXCEPT ![Ev.kt] = [s |-> "locked", owner |-> Ev.g, cert |-> NoCert]]
             /\ orders' = [orders EXCEPT ![Ev.kt] = @ + 1]
             /\ inflight' = [inflight EXCEPT ![Ev.kt] = @ + 1]
             /\ polBefore' = IF policyOK THEN polBefore ELSE polBefore \cup {Ev.g}
             /\ pc' = [pc EXCEPT ![Ev.g] = "finish"]
             /\ ev' = E("order", Ev.g, Ev.kt, "", 0)
             /\ UNCHANGED <<policyOK, clock, cache, cache0, tokenCache, issued, cleanups, nc, kt, tok, res>>
\* The certificate serial is an identifier chosen by the environment (the CA): nothing relates the
\* order in which the CA numbers certificates of DIFFERENT certKeys to the order in which their
\* issuances complete, so the recorded serial is taken as the certificate's identity (Finish with
\* the identity from the log instead of the model's own counter); it only has to be fresh.
TIssued == /\ IsEvent("issued") /\ Ev.g \in Procs /\ Ev.o \in Outcomes
           /\ pc[Ev.g] = "finish"
           /\ LET k == kt[Ev.g] IN
              /\ inflight' = [inflight EXCEPT ![k] = @ - 1]
              /\ IF Ev.o = "ok"
                 THEN /\ \A k2 \in KeyTypes : st[k2].cert.src = "new" => st[k2].cert.n # Ev.serial
                      /\ issued' = issued + 1
                      /\ st' = [st EXCEPT ![k] = [s |-> "ready", owner |-> Ev.g, cert |-> NewCert(Ev.serial, "ok")]]
                      /\ pc' = [pc EXCEPT ![Ev.g] = "put"] /\ UNCHANGED res
                 ELSE /\ issued' = IF Ev.o = "badcert" THEN issued + 1 ELSE issued
                      /\ st' = [st EXCEPT ![k] = [s |-> "failed", owner |-> Ev.g, cert |-> NoCert]]
                      /\ Err(Ev.g, "issue") /\ pc' = [pc EXCEPT ![Ev.g] = "done"]
              /\ ev' = E("finish", Ev.g, k, Ev.o, Ev.serial)
           /\ UNCHANGED <<policyOK, clock, cache, cache0, tokenCache, orders, cleanups, nc, kt, tok, polBefore>>
\* the owner, or a createCert waiter that found the state ready (CState-as-waiter + CWait fused), stores the certificate
TCachePut == /\ IsEvent("cacheput") /\ Ev.g \in Procs
             /\ \/ Put(Ev.g)
                \/ /\ pc[Ev.g] = "cstate" /\ st[kt[Ev.g]].s = "ready"
                   /\ cache' = [cache EXCEPT ![kt[Ev.g]] = "new"]
                   /\ Serve(Ev.g, st[kt[Ev.g]].cert, "issued")
                   /\ pc' = [pc EXCEPT ![Ev.g] = "done"]
                   /\ ev' = E("put", Ev.g, kt[Ev.g], "", st[kt[Ev.g]].cert.n)
                   /\ UNCHANGED <<policyOK, clock, cache0, tokenCache, st, orders, inflight, issued, cleanups, nc, kt, tok, polBefore>>

Matches(r) == /\ r.t = Ev.t
              /\ (Ev.t = "cert") => /\ r.cert.src = Ev.src
                                    /\ (Ev.src = "new") => r.cert.n = Ev.serial
\* what the caller got: an error, or the certificate with the serial the model says
TRet == /\ IsEvent("ret") /\ Ev.g \in Procs
        /\ \/ /\ pc[Ev.g] = "done" /\ Matches(res[Ev.g]) /\ UNCHANGED res
           \/ /\ \/ pc[Ev.g] = "lookup" /\ st[kt[Ev.g]].s \in {"ready", "failed"}      \* reader in m.cert
                 \/ pc[Ev.g] = "cstate" /\ st[kt[Ev.g]].s = "failed"                 \* createCert waiter, owner failed
              /\ LET r == IF st[kt[Ev.g]].s = "ready"
                           THEN [t |-> "cert", why |-> "state", cert |-> st[kt[Ev.g]].cert]
                           ELSE [t |-> "err", why |-> "missing", cert |-> NoCert] IN
                 Matches(r) /\ res' = [res EXCEPT ![Ev.g] = r]
        /\ pc' = [pc EXCEPT ![Ev.g] = "done"]
        /\ UNCHANGED <<policyOK, clock, cache, cache0, tokenCache, st, orders, inflight, issued, cleanups, nc, kt, tok, polBefore, ev>>

TraceNext == TReset \/ TCfg \/ TCall \/ TPolicy \/ TCacheGet \/ TFinalize \/ TIssued \/ TCachePut \/ TRet
TraceSpec == TraceInit /\ [][TraceNext]_<<vars, l>>
=============================================================================
