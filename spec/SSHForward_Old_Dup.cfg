SPECIFICATION Spec
CONSTANTS
  Listeners <- L_Dup
  Targets <- T_Dup
  TNet <- CTNet
  LAddr <- A_Dup
  PreReg <- Reg_L1L2
  MaxOpens = 1
  Cap = 1
  MaxHist = 0
CHECK_DEADLOCK FALSE
INVARIANTS NoAcceptAfterCloseStuck
\* (the temporal form, PROPERTIES R3_AcceptAfterCloseReturns, is violated as well)
