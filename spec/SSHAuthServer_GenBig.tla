------------------------- MODULE SSHAuthServer_GenBig -------------------------
(* Thorough-tier configuration set of check C33 (kept apart: TLC evaluates every constant definition at start-up). *)
EXTENDS SSHAuthServer_Gen

SrcListsAll2 == SeqsUpTo(SrcEntriesAll, 2) \ {<<>>}
SrcLists3 == { l \in SeqsUpTo({"ip_a1", "net_m1", "bad", "empty"}, 3) : Len(l) = 3 }
ConfigsSrcBig == SrcConfigs(SrcListsAll2, BOOLEAN) \cup SrcConfigs(SrcLists3, {TRUE})
ConfigsC33Thorough == ConfigsLimits \cup ConfigsSrcBig \cup ConfigsGeneral
=============================================================================
