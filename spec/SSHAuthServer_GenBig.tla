------------------------- MODULE SSHAuthServer_GenBig -------------------------
(* Thorough-tier tables of check C33 (kept apart: TLC evaluates every constant definition at start-up). *)
EXTENDS SSHAuthServer_Gen

SrcListsBig == (SeqsUpTo(SrcEntriesAll, 2) \cup SeqsUpTo({"ip_a1", "net_n2", "net_m1", "bad", "empty"}, 3)) \ {<<>>}
TableSrcBig == SrcTable(SrcListsBig, BOOLEAN)
TableC33Thorough == TableLimits @@ TableSrcBig @@ TableGeneral
=============================================================================
