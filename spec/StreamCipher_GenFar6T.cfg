SPECIFICATION GSpec
CONSTANTS
  L <- GLfar
  NSet <- GNfarT
  CSet <- GCfarT
  Depth = 5
INVARIANTS Emit
CHECK_DEADLOCK FALSE
