------------------------------ MODULE SSHKex_MCGex ------------------------------
(* DH-GEX requests (property C29): every (min, preferred, max) over the boundary values, nothing else altered. *)
EXTENDS SSHKex_MC

GexPlans == {[Base("gex") EXCEPT !.req = <<a, b, c>>] : a, b, c \in Boundary}
=============================================================================
