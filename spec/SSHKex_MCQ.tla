------------------------------ MODULE SSHKex_MCQ ------------------------------
(* Plans replayed on the real code (property C29): at most one / at most two altered slots. *)
EXTENDS SSHKex_MC

Plans1 == UNION {{Base(m)} \cup Singles(m) : m \in Methods}
Plans2 == Plans1 \cup UNION {Pairs(m) : m \in Methods}
=============================================================================
