INIT Init
NEXT Next
CONSTANTS
  HkdfCases <- HkdfCasesT
  PbCases <- PbCasesT
  PbBig <- PbBigT
INVARIANTS Check
CHECK_DEADLOCK FALSE
