SPECIFICATION Spec
CONSTANTS
  Alphabet <- Alpha6
  MaxLen = 5
INVARIANTS DecodeIsCanon SigVerifies EscapeSafe Idempotent RFCAgrees WriterState Emit
CHECK_DEADLOCK FALSE
