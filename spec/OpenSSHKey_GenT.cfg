SPECIFICATION Spec
CONSTANTS
  Menus <- MenusGenT
  FixConsistency = TRUE
INVARIANTS Emit
CHECK_DEADLOCK FALSE
