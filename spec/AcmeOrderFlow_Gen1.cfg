\* generator: all histories, one authorization per order
SPECIFICATION GenSpec
CONSTANTS
  HTTP01 = {TRUE, FALSE}
  NAuthz = 1
  OfferSets <- AllOffers
  MaxOrders = 4
  Faults <- AllFaults
INVARIANTS Emit F1_Bounded F2_ProvisionedBeforeAccept F3_NoTokenLeft F4_NoPendingLeft F5_FinalizeOnlyReady F6_OnlyPendingAccepted
CHECK_DEADLOCK FALSE
