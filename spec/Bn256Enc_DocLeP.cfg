SPECIFICATION Spec
CONSTANTS
  P = 19
  W = 32
  B = 4
  N = 13
INVARIANTS LePOneEncoding
CHECK_DEADLOCK FALSE
