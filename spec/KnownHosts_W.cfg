SPECIFICATION Spec
CONSTANTS
  FileSet <- FilesW
  QuerySeq <- QueriesWG
  StarFix = TRUE
  SubjectFix = TRUE
  CAListsPlain = TRUE
  RevokedSubject = TRUE
INVARIANTS TypeOK WildAgree WildSelf RoundTrip Agree WantExact Emit
CHECK_DEADLOCK FALSE
