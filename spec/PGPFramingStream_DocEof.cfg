SPECIFICATION SpecCrafted
CONSTANTS
  MinFirst = 8
  MaxPow = 3
  Sizes <- SizesQ
  MaxWrites = 0
  ReadSizes <- ReadsQ
  EofStyles = {"with-data"}
  CutAll = TRUE
  FixEof = FALSE
  FixShort = FALSE
  Tag = 11
  Crafted <- CraftedSet
INVARIANTS NoSilentTruncation

CHECK_DEADLOCK FALSE
