SPECIFICATION Spec
CONSTANTS Scenarios <- ScWeak1
INVARIANTS Emit
CHECK_DEADLOCK FALSE
