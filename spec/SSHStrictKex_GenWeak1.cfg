SPECIFICATION Spec
CONSTANTS Scenarios <- ScWeak1
          ServerStrictRule = "peer"
INVARIANTS Emit
CHECK_DEADLOCK FALSE
