-------------------------- MODULE AcmeOrderFlow_MC --------------------------
(* Bounded instances of AcmeOrderFlow (X02, autocert issuance flow). *)
EXTENDS AcmeOrderFlow
AllOffers == { {"tls-alpn-01", "http-01", "dns-01"}, {"http-01", "dns-01"}, {"tls-alpn-01"}, {"dns-01"} }
QuickOffers == { {"tls-alpn-01", "http-01"}, {"http-01", "dns-01"}, {"dns-01"} }
TwoOffers == { {"tls-alpn-01", "http-01"}, {"http-01"} }
AllFaults == {"newOrder", "getAuthz", "accept", "deact"}
MCView == hvars

=============================================================================
