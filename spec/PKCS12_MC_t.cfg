SPECIFICATION Spec
CONSTANTS
  KeyTypes <- KT
  FilePw <- FP
  Given <- GV
  Iters <- ITt
  Damage <- DM
INVARIANTS CorrectPasswordRecovers WrongPasswordIsBadPw DamageNeverOk ApisAgree EmptyPasswordBothWays OutcomeType
CHECK_DEADLOCK FALSE
