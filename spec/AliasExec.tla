------------------------------ MODULE AliasExec ------------------------------
(***************************************************************************)
(* C53 - the hazard analysis of Alias.tla is sound: executing a call's     *)
(* program (Alias!Prog) on a symbolic memory gives, whenever Alias!Hazard  *)
(* is false, exactly the result of the ideal execution in which every read *)
(* of an input sees the caller's original bytes - which is what the same   *)
(* call computes with separate buffers - and this for every order in which *)
(* an implementation may carry out an element-wise step: ascending byte    *)
(* loop, descending, or "read the whole block, then write it" (SIMD /      *)
(* block-buffered code, copy()).                                           *)
(*                                                                         *)
(* Memory is a function from addresses to terms.  Initially cell a holds   *)
(* <<"i", a>>.  Step k of the program:                                     *)
(*   xor   : w[j] := <<"f", k, j, (content of r[j] at the time)>>          *)
(*   write : w[j] := <<"w", k, j>>                                         *)
(*   read  : appends the contents of r (at the time) to the observations   *)
(*           (what the MAC / signature / verification gets to see).        *)
(* Checked on the small exhaustive instance of Alias_MC (same calls).      *)
(* Converse sanity (ExecSeesHazards): among the calls that have a hazard,  *)
(* some really do compute a different result - the analysis is not         *)
(* vacuous.                                                                *)
(***************************************************************************)
EXTENDS Alias_MC

Orders == {"asc", "desc", "buf"}

Addrs(prog) == UNION {Cells(prog[k].w) \cup Cells(prog[k].r) : k \in 1..Len(prog)}
Mem0(A) == [a \in A |-> <<"i", a>>]

RECURSIVE XorLoop(_, _, _, _, _)
\* cells j of the index sequence js, one after the other
XorLoop(mem, k, s, js, i) ==
  IF i > Len(js) THEN mem
  ELSE LET j == js[i] IN XorLoop([mem EXCEPT ![s.w.a + j] = <<"f", k, j, mem[s.r.a + j]>>], k, s, js, i + 1)

XorStep(mem, k, s, ord) ==
  LET n == s.w.n IN
  CASE ord = "asc"  -> XorLoop(mem, k, s, [i \in 1..n |-> i - 1], 1)
    [] ord = "desc" -> XorLoop(mem, k, s, [i \in 1..n |-> n - i], 1)
    [] ord = "buf"  -> [a \in DOMAIN mem |-> IF a \in Cells(s.w) THEN <<"f", k, a - s.w.a, mem[s.r.a + (a - s.w.a)]>> ELSE mem[a]]

WriteStep(mem, k, s) == [a \in DOMAIN mem |-> IF a \in Cells(s.w) THEN <<"w", k, a - s.w.a>> ELSE mem[a]]
ReadObs(mem, s) == [j \in 1..s.r.n |-> mem[s.r.a + j - 1]]

RECURSIVE Run(_, _, _, _, _)
\* state = [mem, obs]
Run(prog, k, mem, obs, ord) ==
  IF k > Len(prog) THEN [mem |-> mem, obs |-> obs]
  ELSE LET s == prog[k] IN
       CASE s.k = "xor"   -> Run(prog, k + 1, XorStep(mem, k, s, ord), obs, ord)
         [] s.k = "write" -> Run(prog, k + 1, WriteStep(mem, k, s), obs, ord)
         [] s.k = "read"  -> Run(prog, k + 1, mem, Append(obs, ReadObs(mem, s)), ord)

\* the ideal execution: every read sees the original content
RECURSIVE Ideal(_, _, _, _, _)
Ideal(prog, k, m0, mem, obs) ==
  IF k > Len(prog) THEN [mem |-> mem, obs |-> obs]
  ELSE LET s == prog[k] IN
       CASE s.k = "xor"   -> Ideal(prog, k + 1, m0, [a \in DOMAIN mem |-> IF a \in Cells(s.w) THEN <<"f", k, a - s.w.a, m0[s.r.a + (a - s.w.a)]>> ELSE mem[a]], obs)
         [] s.k = "write" -> Ideal(prog, k + 1, m0, WriteStep(mem, k, s), obs)
         [] s.k = "read"  -> Ideal(prog, k + 1, m0, mem, Append(obs, ReadObs(m0, s)))

Written(prog) == UNION {Cells(prog[k].w) : k \in 1..Len(prog)}

SameAsIdeal(prog, ord) ==
  LET A  == Addrs(prog)
      m0 == Mem0(A)
      r  == Run(prog, 1, m0, <<>>, ord)
      id == Ideal(prog, 1, m0, m0, <<>>)
  IN /\ r.obs = id.obs
     /\ \A a \in Written(prog) : r.mem[a] = id.mem[a]

\* soundness of the analysis
Sound(x) == ~Hazard(Prog(x)) => \A ord \in Orders : SameAsIdeal(Prog(x), ord)
\* and consequently the property on the executions themselves: a call that does not panic and is allowed - or is forbidden
\* but not one of the named deviations - computes the separate-buffer result under every order
ExecProperty(x) == (~Panics(x) /\ (Allowed(x) \/ ~DeviationApplies(x))) => \A ord \in Orders : SameAsIdeal(Prog(x), ord)
\* both, with one symbolic execution per call
ExecOK == (c.t = "call") =>
            LET x == c.x IN
            (~Hazard(Prog(x)) \/ (~Panics(x) /\ (Allowed(x) \/ ~DeviationApplies(x)))) => \A ord \in Orders : SameAsIdeal(Prog(x), ord)

\* non-vacuity: this is expected to FAIL (some call with a hazard does compute something else under some order)
NoHazardEverMatters == (c.t = "call") => \A ord \in Orders : SameAsIdeal(Prog(c.x), ord)
=============================================================================
