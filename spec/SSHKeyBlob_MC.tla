---------------------------- MODULE SSHKeyBlob_MC ----------------------------
(* SSHKeyBlob over the generated boundary key set, and the case generator for binding R. *)
EXTENDS SSHKeyBlob, SSHKeyBlob_Keys, Json
Emit == Done => PrintT("TRACE " \o ToJson([name |-> k.name, type |-> k.type, ints |-> k.ints, raws |-> k.raws,
                                            classes |-> k.classes, blob |-> blob]))
=============================================================================
