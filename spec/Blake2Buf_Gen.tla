---------------------------- MODULE Blake2Buf_Gen ----------------------------
(***************************************************************************)
(* C05 / C07, binding R: history generator at the REAL block size.         *)
(* Extends the implementation-shaped Blake2Buf with a history variable and *)
(* prints every history of exactly Depth calls from Ops as one TRACE line  *)
(*    {"h": [[op, n, mlen, offset, c], ...]}                               *)
(* op 0 = Write(n bytes), 1 = Sum, 2 = Reset, 3 = MarshalBinary,           *)
(* 4 = UnmarshalBinary into a fresh hash of the same kind (which replaces  *)
(* the object); mlen = the model's message length since Reset after the    *)
(* call (so every Sum is predicted to return H(key, size, those mlen       *)
(* bytes)); offset, c = the model's d.offset and d.c after the call        *)
(* (compared with the MarshalBinary image of the real state,               *)
(* informational).  A failed MarshalBinary (keyed hash) has n = -1.        *)
(***************************************************************************)
EXTENDS Blake2Buf, TLC, Json

CONSTANTS Depth, Ops
VARIABLE hist
gvars == <<h, c, size, block, offset, saved, panicked, taint, msg, nextId, snapMsg, last, hist>>

OpCode(op) == CASE op = "write" -> 0 [] op = "sum" -> 1 [] op = "reset" -> 2 [] op = "marshal" -> 3 [] op = "unmarshal" -> 4
Code == << OpCode(last'.op), IF last'.op = "marshal" /\ ~last'.ok THEN -1 ELSE IF last'.op = "write" THEN last'.n ELSE 0,
           Len(msg'), offset', c' >>

GInit == Init /\ hist = <<>>
GNext == /\ Len(hist) < Depth
         /\ Next
         /\ last'.op \in Ops
         /\ hist' = Append(hist, Code)
GSpec == GInit /\ [][GNext]_gvars
Emit == (Len(hist) = Depth) => PrintT("TRACE " \o ToJson([h |-> hist]))

HashOps == {"write", "sum", "reset"}
AllOps == {"write", "sum", "reset", "marshal", "unmarshal"}
NSetB == {0, 1, 127, 128, 129, 256, 257}
NSetS == {0, 1, 63, 64, 65, 128, 129}
NSetBm == {0, 1, 127, 128, 129, 257}
NSetSm == {0, 1, 63, 64, 65, 129}
None == {}
=============================================================================
