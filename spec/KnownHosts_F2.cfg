SPECIFICATION Spec
CONSTANTS
  FileSet <- FilesF2
  QuerySeq <- QueriesF
  StarFix = TRUE
  SubjectFix = TRUE
  CAListsPlain = TRUE
  RevokedSubject = TRUE
INVARIANTS TypeOK Agree AcceptSound RevokedDominates WantExact OrderIndependent RemoteIrrelevant
CHECK_DEADLOCK FALSE
