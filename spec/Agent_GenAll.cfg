SPECIFICATION Spec
CONSTANTS
  Keys <- K2
  RSAKeys <- R1
  Pass <- P2
  Lifetimes <- L2
  Ticks <- T2
  Comments <- C2
  Flags <- F4
  MaxLen = 3
INVARIANTS EmitAll NoBoundary
CHECK_DEADLOCK FALSE
