SPECIFICATION Spec
CONSTANTS
  Lifetimes <- SLife
  RenewBefores <- SRB
  NowOffsets <- SOff
  Day30 = 2592000
  Hour1 = 3600
INVARIANTS Emit R1_NonNegative R2_Window R3_ZeroOnlyWhenDue R4_BeforeExpiry
CHECK_DEADLOCK FALSE
