SPECIFICATION Spec
CONSTANTS
  Cases <- C05Quick
  Groups = 24
INVARIANTS Emit
CHECK_DEADLOCK FALSE
