INIT Init
NEXT Next
CONSTANTS
  Seeds = {7, 29, 1}
  TagMax = 260
  Extra = {311, 312, 319, 320, 321, 500, 1000, 1023, 1024, 1999, 2000}
  Groups = 8
INVARIANTS Emit
CHECK_DEADLOCK FALSE
