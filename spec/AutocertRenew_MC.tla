--------------------------- MODULE AutocertRenew_MC ---------------------------
EXTENDS AutocertRenew
\* nanosecond regime: every lifetime 0..100 ns, RenewBefore unset or 1..40 ns, now around the window
NsLife == 0..100
NsRB   == 0..40
NsOff  == {-5, 0, 1, 10, 33, 50, 66, 67, 90, 99, 100, 101, 200}
NsOffQ == {0, 50, 101}
\* second regime: hours .. years (unit = 1 s; 30 d = 2592000 s)
D == 86400
\* (values are multiples of 30 s resp. 10 s so that /3 and /10 commute with the change of unit)
SLife == {0, 30, 60, 90, 270, 300, 330, 3600, D, 7*D, 30*D, 89*D, 90*D, 91*D, 365*D, 398*D, 3*365*D}
SRB   == {0, 10, 20, 100, 3600, 35990, 36000, 36010, D, 10*D, 29*D, 30*D, 31*D, 60*D}
SOff  == {-D, 0, 1, 1800, D, 29*D, 30*D, 59*D, 60*D, 61*D, 89*D, 90*D, 91*D, 365*D, 2*365*D}
=============================================================================
