SPECIFICATION GSpec
CONSTANTS
  Starts <- AnyStart
  MaxData = 2
  FragChoices <- F123
  MaxFaults = 1
  FaultKinds <- AllFaults
  MaxAuth = 1
  Secrets <- S12
  Questions <- Q01
  AllowEnd = TRUE
  MaxRequery = 0
  FixCommitState = TRUE
  SeqSMP = FALSE
  FixSMPReset = TRUE
INVARIANTS EmitLong40
CHECK_DEADLOCK FALSE
