\* thorough: the three polling operations, 6 replies, back-off budget 2
SPECIFICATION Spec
CONSTANTS
  OpSet <- WaitOps
  Bundles = {TRUE, FALSE}
  MaxCalls = 1
  MaxReq = 7
  MaxEnv = 4
  Shapes <- CoreShapes
  RetrySet = {0, 3}
  Budget = 2
  Malformed = FALSE
  CertKinds <- FewCerts
  AltSet = {0, 2}
  InitStates <- InitRFC
  CallOK <- AnyCall
  EnvOK <- AnyEnv
  FixNegRA = FALSE
  Mut = "none"
VIEW MCView
INVARIANTS TypeOK P1_NoFalseSuccess P2_TypedFailures P3_FinalizeOnce P4_PollSpacing P5_StopOnCancel P6_CertAfterValid P7_LastObserved P8_ChainLimits P9_PollExactlyWhileNotFinal ServerSane
CHECK_DEADLOCK FALSE
