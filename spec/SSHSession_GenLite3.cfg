SPECIFICATION GenSpec
CONSTANTS
  MaxSrv = 3
  MaxCli = 3
  ReqBuf = 16
  Cfgs <- AllCfgs
  Lite = "lite"
VIEW AbsView
CHECK_DEADLOCK FALSE
