------------------------------ MODULE AgentWire ------------------------------
(* X06 (growth) -- the ssh-agent WIRE layer of golang.org/x/crypto/ssh/agent under concurrency:
   client.go (NewClient: serialCall under client.mu when the transport has no Close, the pipeline
   -- writeMu, FIFO of reply channels, reader goroutine, shutdown -- when it has), server.go
   (ServeAgent: read a frame, dispatch, write one reply, loop), forward.go (one ServeAgent goroutine
   per auth-agent@openssh.com channel, all on ONE agent), keyring.go (every operation is one critical
   section under keyring.mu).  C43 (spec/Agent.tla) treats the agent through results of sequential
   calls; this module adds what is between a caller and the agent.

   PROPERTIES (defined for X06 from the package documentation and draft-miller-ssh-agent):

   W1 OwnReply        a caller is handed the reply to ITS OWN request, or a connection error; never the
                      reply to another caller's request (NewClient: "callers can issue Sign and other
                      operations from multiple goroutines"; draft 3: "replies are sent in order").
   W2 OneReplyInOrder on every connection the server answers each well-framed request exactly once and in
                      the order of arrival: the frames in flight (replies not yet consumed, the request
                      being served, requests not yet read) are exactly the waiting callers in FIFO order;
                      the serialised client has at most one.
   W3 Linearizable    every request takes effect on the shared agent in ONE atomic step (Serve) that lies
                      between the server reading the request and writing its reply, hence between the
                      caller's invocation and return; histories over several connections are therefore
                      linearizable w.r.t. the agent of C43 (LinInsideCall, AgentOnlyByServe).
   W4 FailureIsolated an unknown message type or a malformed body yields exactly one SSH_AGENT_FAILURE,
                      leaves the agent unchanged, and the loop continues (later requests on the connection
                      are served normally)  (draft 3: "agents MUST reply SSH_AGENT_FAILURE to unknown or
                      unsupported requests").
   W5 OversizeEndsOne a frame whose declared length is 0 or exceeds the maximum (16 MiB here) ends THAT
                      connection without a reply (ServeAgent returns): callers of that connection get a
                      connection error, a caller gets a connection error ONLY on a connection that was ended
                      this way, the agent and the other connections are not affected.
   W6 Progress        under fair scheduling every call returns (no lost wake-up in the mutex / pipeline /
                      shutdown protocol).

   One action per critical section: Send (the caller enters the API: client.mu.Lock + Write, or
   writeMu: enqueue reply channel + Write), SrvRead (ServeAgent got a whole frame), SrvServe
   (processRequest: the agent's critical section), SrvWrite (reply written), Deliver (serialCall read
   its reply and unlocks / readLoop hands the reply to the head of the FIFO), Shutdown (readLoop's
   shutdown / the serial caller's failed read); the call returns with Deliver / Shutdown.

   Transport faults (constant Faults): W1 must survive a transient failure of one Read of the client.  The
   pipelined client shuts down for good; the serialised client of this package goes on using the stream
   (Sticky = FALSE: AgentWire_DocDesync.cfg, OwnReply is violated -- finding X06-D1, reproduced on the real
   client by harness/x06 TestDesync); with the repair (Sticky = TRUE) W1 holds (AgentWire_Faults.cfg).

   Deliberately WRONG variants (constants, FALSE in the design; each must violate a property -- they
   show the properties bite): NoMutex (serialCall without client.mu), LateEnqueue (reply channel
   enqueued after the write, outside writeMu), ContinueAfterOversize (ServeAgent skips an oversized
   header and reads on), UnknownKills (unknown type ends the loop). *)
EXTENDS AgentWireServe

CONSTANTS Conns,          \* connections (each: one client object, one ServeAgent goroutine)
          Callers,        \* goroutines sharing the client of a connection (integers 1..N)
          PipeConns,      \* the connections whose client is pipelined (transport is an io.Closer)
          MaxCalls,       \* calls per caller
          Budget,         \* calls per connection
          ReqMenu,        \* requests a caller may issue (AReq records; op "zero"/"oversize" = bad frame header)
          NoMutex, LateEnqueue, ContinueAfterOversize, UnknownKills,
          Faults,         \* BOOLEAN: the client's transport may fail one Read transiently (a deadline, an interrupted call)
          Sticky          \* BOOLEAN: the serialised client treats a failed call as terminal (as the pipelined one does)

VARIABLES cl,       \* [Conns -> [Callers -> [pc, n, req, res]]]  pc: idle | sent;  n: calls completed
          mu,       \* [Conns -> Callers \cup {0}]   holder of client.mu (serialised client)
          pend,     \* [Conns -> Seq(Callers)]       pipeline.pending: reply channels in FIFO order
          late,     \* [Conns -> SUBSET Callers]     LateEnqueue only: written but not yet enqueued
          c2s, s2c, \* [Conns -> Seq(frame)]         the two octet streams, frame by frame
          srv,      \* [Conns -> [st, id, req, rep]] the ServeAgent loop
          ended,    \* [Conns -> "no" | "badframe" | "killed"]  why ServeAgent has returned (transport closed), if it has
          down,     \* [Conns -> BOOLEAN]            pipeline shut down (exitCh closed)
          used,     \* [Conns -> Nat]                calls issued (budget)
          fault     \* [Conns -> BOOLEAN]            a Read of the client failed (Faults only)

wireVars == <<cl, mu, pend, late, c2s, s2c, srv, ended, down, used, fault>>
closed == [c \in Conns |-> ended[c] # "no"]
vars == <<agentVars, wireVars>>

FrameErr == {"zero", "oversize"}
NoReq == AReq("none", "", "", 0, "none")
NoReply == Rp("none")
JunkId == <<0, 0>>
Idle == [st |-> "idle", id |-> JunkId, req |-> NoReq, rep |-> NoReply]
NoRes == [t |-> "none", id |-> JunkId, rep |-> NoReply]
Serial(c) == c \notin PipeConns

WInit == /\ cl = [c \in Conns |-> [p \in Callers |-> [pc |-> "idle", n |-> 0, req |-> NoReq, res |-> NoRes]]]
         /\ mu = [c \in Conns |-> 0]
         /\ pend = [c \in Conns |-> <<>>]
         /\ late = [c \in Conns |-> {}]
         /\ c2s = [c \in Conns |-> <<>>] /\ s2c = [c \in Conns |-> <<>>]
         /\ srv = [c \in Conns |-> Idle]
         /\ ended = [c \in Conns |-> "no"] /\ down = [c \in Conns |-> FALSE]
         /\ used = [c \in Conns |-> 0]
         /\ fault = [c \in Conns |-> FALSE]
Init == A!Init /\ WInit

Id(c, p) == <<p, cl[c][p].n>>
SetCl(c, p, f) == cl' = [cl EXCEPT ![c][p] = f]

-----------------------------------------------------------------------------
(* client side *)

ConnErr == [t |-> "connerr", id |-> JunkId, rep |-> NoReply]
Done(c, p, res) == [cl[c][p] EXCEPT !.pc = "idle", !.n = @ + 1, !.res = res]
CanCall(c, p) == cl[c][p].pc = "idle" /\ cl[c][p].n < MaxCalls /\ used[c] < Budget

\* the caller enters the API with request r; the write fails (transport closed by the server side) or the
\* pipeline is already shut down: the call returns a connection error
SendFails(c, p, r) ==
  /\ CanCall(c, p)
  /\ closed[c] \/ down[c]
  /\ IF Serial(c) THEN mu[c] = 0 \/ NoMutex ELSE TRUE
  /\ SetCl(c, p, [Done(c, p, ConnErr) EXCEPT !.req = r])
  /\ used' = [used EXCEPT ![c] = @ + 1]
  /\ UNCHANGED <<agentVars, mu, pend, late, c2s, s2c, srv, ended, down, fault>>

\* the caller enters the API with request r and gets to write it: client.mu.Lock + Write (serialised), or
\* writeMu.Lock + enqueue reply channel + Write + Unlock (pipelined).  (The time a caller spends waiting for
\* the mutex is not a state of its own: which request it will send does not depend on anything.)
Send(c, p, r) ==
  /\ CanCall(c, p)
  /\ ~closed[c] /\ ~down[c]
  /\ IF Serial(c)
     THEN /\ mu[c] = 0 \/ NoMutex
          /\ mu' = [mu EXCEPT ![c] = p]
          /\ UNCHANGED <<pend, late>>
     ELSE /\ IF LateEnqueue THEN late' = [late EXCEPT ![c] = @ \cup {p}] /\ UNCHANGED pend
                            ELSE pend' = [pend EXCEPT ![c] = Append(@, p)] /\ UNCHANGED late
          /\ UNCHANGED mu
  /\ c2s' = [c2s EXCEPT ![c] = Append(@, [id |-> Id(c, p), req |-> r])]
  /\ SetCl(c, p, [cl[c][p] EXCEPT !.pc = "sent", !.req = r, !.res = NoRes])
  /\ used' = [used EXCEPT ![c] = @ + 1]
  /\ UNCHANGED <<agentVars, s2c, srv, ended, down, fault>>

\* LateEnqueue only: the reply channel joins the FIFO some time after the write
Enqueue(c, p) ==
  /\ p \in late[c]
  /\ late' = [late EXCEPT ![c] = @ \ {p}]
  /\ pend' = [pend EXCEPT ![c] = Append(@, p)]
  /\ UNCHANGED <<agentVars, cl, mu, c2s, s2c, srv, ended, down, used, fault>>

Deliver(c) ==
  /\ s2c[c] # <<>>
  /\ LET m == Head(s2c[c]) IN
     IF Serial(c)
     THEN \E p \in Callers :
            /\ cl[c][p].pc = "sent"
            /\ mu[c] = p \/ NoMutex
            /\ SetCl(c, p, Done(c, p, [t |-> "reply", id |-> m.id, rep |-> m.rep]))
            /\ mu' = [mu EXCEPT ![c] = 0]
            /\ UNCHANGED pend
     ELSE /\ ~down[c] /\ pend[c] # <<>>
          /\ LET q == Head(pend[c]) IN
             SetCl(c, q, Done(c, q, [t |-> "reply", id |-> m.id, rep |-> m.rep]))
          /\ pend' = [pend EXCEPT ![c] = Tail(@)]
          /\ UNCHANGED mu
  /\ s2c' = [s2c EXCEPT ![c] = Tail(@)]
  /\ UNCHANGED <<agentVars, late, c2s, srv, ended, down, used, fault>>

\* Faults only: one Read of the client fails although the connection is alive.  The serialised caller returns the
\* error and unlocks -- its reply is still on its way; with Sticky the client refuses further calls, without it the
\* next caller will read that reply as its own.  The pipelined reader treats any failed Read as the end: shutdown.
ReadFault(c) ==
  /\ Faults /\ ~fault[c] /\ ~closed[c] /\ ~down[c]
  /\ fault' = [fault EXCEPT ![c] = TRUE]
  /\ IF Serial(c)
     THEN /\ \E p \in Callers :
               /\ cl[c][p].pc = "sent" /\ mu[c] = p
               /\ SetCl(c, p, Done(c, p, ConnErr))
          /\ mu' = [mu EXCEPT ![c] = 0]
          /\ down' = [down EXCEPT ![c] = Sticky]
          /\ UNCHANGED <<pend, late, s2c>>
     ELSE /\ down' = [down EXCEPT ![c] = TRUE]
          /\ cl' = [cl EXCEPT ![c] = [p \in Callers |-> IF cl[c][p].pc = "sent" THEN Done(c, p, ConnErr) ELSE cl[c][p]]]
          /\ pend' = [pend EXCEPT ![c] = <<>>] /\ late' = [late EXCEPT ![c] = {}]
          /\ s2c' = [s2c EXCEPT ![c] = <<>>]
          /\ UNCHANGED mu
  /\ UNCHANGED <<agentVars, c2s, srv, ended, used>>

\* the connection has ended: the serial caller's read fails; readLoop fails and shuts the pipeline down,
\* handing the terminal error to every waiting caller (replies still buffered may or may not have been
\* delivered before: Deliver and Shutdown are both enabled).
Shutdown(c) ==
  /\ closed[c]
  /\ IF Serial(c)
     THEN /\ s2c[c] = <<>>
          /\ \E p \in Callers :
               /\ cl[c][p].pc = "sent" /\ (mu[c] = p \/ NoMutex)
               /\ SetCl(c, p, Done(c, p, ConnErr))
          /\ mu' = [mu EXCEPT ![c] = 0]
          /\ UNCHANGED <<pend, down, s2c, late>>
     ELSE /\ ~down[c]
          /\ down' = [down EXCEPT ![c] = TRUE]
          /\ cl' = [cl EXCEPT ![c] = [p \in Callers |-> IF cl[c][p].pc = "sent"
                                                        THEN Done(c, p, ConnErr) ELSE cl[c][p]]]
          /\ pend' = [pend EXCEPT ![c] = <<>>] /\ late' = [late EXCEPT ![c] = {}]
          /\ s2c' = [s2c EXCEPT ![c] = <<>>]
          /\ UNCHANGED mu
  /\ UNCHANGED <<agentVars, c2s, srv, ended, used, fault>>

-----------------------------------------------------------------------------
(* server side: the ServeAgent loop of connection c *)

SrvRead(c) ==
  /\ srv[c].st = "idle" /\ ~closed[c] /\ c2s[c] # <<>>
  /\ LET h == Head(c2s[c]) IN
     IF h.req.op \in FrameErr /\ ~(ContinueAfterOversize /\ h.req.op = "oversize")
     THEN /\ srv' = [srv EXCEPT ![c] = [Idle EXCEPT !.st = "exit"]]        \* ServeAgent returns; no reply
          /\ ended' = [ended EXCEPT ![c] = "badframe"]
          /\ c2s' = [c2s EXCEPT ![c] = <<>>]                                \* whatever follows is never read
     ELSE /\ srv' = [srv EXCEPT ![c] = IF h.req.op = "oversize"
                                       THEN [st |-> "got", id |-> JunkId, req |-> AReq("unknown", "", "", 0, "none"), rep |-> NoReply]
                                       ELSE [st |-> "got", id |-> h.id, req |-> h.req, rep |-> NoReply]]
          /\ c2s' = [c2s EXCEPT ![c] = Tail(@)]
          /\ UNCHANGED ended
  /\ UNCHANGED <<agentVars, cl, mu, pend, late, s2c, down, used, fault>>

SrvServe(c) ==
  /\ srv[c].st = "got"
  /\ IF UnknownKills /\ srv[c].req.op = "unknown"
     THEN /\ srv' = [srv EXCEPT ![c] = [Idle EXCEPT !.st = "exit"]]
          /\ ended' = [ended EXCEPT ![c] = "killed"]
          /\ c2s' = [c2s EXCEPT ![c] = <<>>]
          /\ UNCHANGED agentVars
     ELSE /\ Serve(srv[c].req)
          /\ srv' = [srv EXCEPT ![c] = [@ EXCEPT !.st = "done", !.rep = ReplyFor(srv[c].req, last')]]
          /\ UNCHANGED <<ended, c2s>>
  /\ UNCHANGED <<cl, mu, pend, late, s2c, down, used, fault>>

SrvWrite(c) ==
  /\ srv[c].st = "done"
  /\ s2c' = [s2c EXCEPT ![c] = Append(@, [id |-> srv[c].id, rep |-> srv[c].rep])]
  /\ srv' = [srv EXCEPT ![c] = Idle]
  /\ UNCHANGED <<agentVars, cl, mu, pend, late, c2s, ended, down, used, fault>>

-----------------------------------------------------------------------------
ClientStep(c) == \/ \E p \in Callers : (\E r \in ReqMenu : Send(c, p, r) \/ SendFails(c, p, r)) \/ Enqueue(c, p)
                 \/ Deliver(c) \/ Shutdown(c) \/ ReadFault(c)
ServerStep(c) == SrvRead(c) \/ SrvServe(c) \/ SrvWrite(c)
Next == \E c \in Conns : ClientStep(c) \/ ServerStep(c)
\* everything but the callers' decision to call is fair
Fair == \A c \in Conns : /\ WF_vars(ServerStep(c)) /\ WF_vars(Deliver(c)) /\ WF_vars(Shutdown(c))
                         /\ \A p \in Callers : WF_vars(Enqueue(c, p))
Spec == Init /\ [][Next]_vars /\ Fair

-----------------------------------------------------------------------------
(* properties *)

TypeOK == /\ \A c \in Conns : mu[c] \in Callers \cup {0} /\ used[c] \in 0..Budget
          /\ \A c \in Conns, p \in Callers : cl[c][p].pc \in {"idle", "sent"}
          /\ \A c \in Conns : srv[c].st \in {"idle", "got", "done", "exit"}

\* W1
\* (a caller that has returned keeps its result in res until its next call; its call had index n - 1)
Returned(c, p) == cl[c][p].pc = "idle" /\ cl[c][p].res.t # "none"
OwnReply == \A c \in Conns, p \in Callers :
              (Returned(c, p) /\ cl[c][p].res.t = "reply") => cl[c][p].res.id = <<p, cl[c][p].n - 1>>

\* W2: frames in flight, oldest first = the waiting callers in FIFO order
Ids(q) == [i \in 1..Len(q) |-> q[i].id]
GoodOnly(q) == SelectSeq(q, LAMBDA m : m.req.op \notin FrameErr)
InFlight(c) == Ids(s2c[c]) \o (IF srv[c].st \in {"got", "done"} THEN <<srv[c].id>> ELSE <<>>) \o Ids(GoodOnly(c2s[c]))
OneReplyInOrder ==
  \A c \in Conns :
    (~closed[c] /\ ~down[c] /\ ~fault[c]) =>
       IF Serial(c)
       THEN InFlight(c) = (IF mu[c] # 0 /\ cl[c][mu[c]].pc = "sent" /\ cl[c][mu[c]].req.op \notin FrameErr
                           THEN <<Id(c, mu[c])>> ELSE <<>>)
       ELSE InFlight(c) = SelectSeq([i \in 1..Len(pend[c]) |-> Id(c, pend[c][i])],
                                    LAMBDA d : cl[c][d[1]].req.op \notin FrameErr)

\* W3: the agent changes only in SrvServe, and the request served belongs to a caller that is inside its call
AgentOnlyByServe == [][agentVars' # agentVars => \E c \in Conns : srv[c].st = "got" /\ srv'[c].st = "done"]_vars
\* (after a failed Read the outcome of the abandoned call is unknown: its request may still be served)
LinInsideCall == \A c \in Conns : srv[c].st \in {"got", "done"} /\ srv[c].id # JunkId /\ ~fault[c] =>
                   LET p == srv[c].id[1] IN cl[c][p].pc = "sent" /\ cl[c][p].n = srv[c].id[2] /\ cl[c][p].req = srv[c].req

\* W4
FailureIsolated == [][\A c \in Conns : (srv[c].st = "got" /\ srv[c].req.op \in RejectOps /\ srv'[c] # srv[c]) =>
                        /\ srv'[c].st = "done" /\ srv'[c].rep = Rp("failure")
                        /\ <<list, akeys, locked, pass>>' = <<list, akeys, locked, pass>>]_vars
\* a reply of kind failure/success/... reaches its caller with the content the server computed (no reply is altered)
RejectGetsFailure == \A c \in Conns, p \in Callers :
                       (Returned(c, p) /\ cl[c][p].res.t = "reply" /\ cl[c][p].req.op \in RejectOps)
                          => cl[c][p].res.rep = Rp("failure")

\* W5
ConnErrOnlyIfEnded == \A c \in Conns, p \in Callers :
                        (Returned(c, p) /\ cl[c][p].res.t = "connerr") => closed[c] \/ fault[c]
EndsOnlyByBadFrame == \A c \in Conns : ended[c] \in {"no", "badframe"}
NoReplyToBadFrame == \A c \in Conns, p \in Callers :
                       (Returned(c, p) /\ cl[c][p].req.op \in FrameErr) => cl[c][p].res.t = "connerr"
EndIsLocal == [][\A c \in Conns : ended'[c] # ended[c] =>
                    /\ agentVars' = agentVars
                    /\ \A d \in Conns \ {c} : <<cl[d], mu[d], pend[d], c2s[d], s2c[d], srv[d], ended[d], down[d]>>'
                                               = <<cl[d], mu[d], pend[d], c2s[d], s2c[d], srv[d], ended[d], down[d]>>]_vars

\* W6
Progress == \A c \in Conns, p \in Callers : (cl[c][p].pc # "idle") ~> (cl[c][p].pc = "idle")
=============================================================================
