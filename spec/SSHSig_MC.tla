------------------------------ MODULE SSHSig_MC ------------------------------
(* Bounded instances of SSHSig and the case generator for binding R. *)
EXTENDS SSHSig, Json

AllMut  == {"none"} \cup RealMut \cup SKMut \cup BenignMut
FlagsAll == 0..255
FlagsQ  == {0, 1, 4, 5, 128, 254, 255}
RSALists == {<<"rsa-sha2-512">>, <<"rsa-sha2-256", "rsa-sha2-512">>, <<"ssh-rsa">>, <<"rsa-sha2-512", "ssh-rsa", "rsa-sha2-256">>,
             <<>>, <<"ssh-ed25519">>, <<"rsa-sha2-256", "unknown@verif">>}
Lists2  == {<<"-">>, <<"rsa-sha2-512">>, <<"rsa-sha2-256">>, <<"ssh-rsa">>, <<"rsa-sha2-512", "rsa-sha2-256">>}
OtherLists == {<<"ssh-ed25519">>, <<"ecdsa-sha2-nistp256">>, <<"ssh-dss">>, <<"rsa-sha2-512">>, <<>>, <<"ecdsa-sha2-nistp384">>, <<"ecdsa-sha2-nistp521">>}
SignerTypes == KeyTypes \ SKTypes
Algs    == {"", "ssh-rsa", "rsa-sha2-256", "rsa-sha2-512", "ssh-ed25519", "ecdsa-sha2-nistp256", "ssh-dss", "unknown@verif"}

P1(ts, tv, f, mu, fl, fa, nt) == [part |-> 1, ts |-> ts, tv |-> tv, f |-> f, mu |-> mu, fl |-> fl, fa |-> fa, nt |-> nt, wrap |-> {"plain", "cert"}]
P1w(ts, tv, f, mu, fl, fa, nt, w) == [part |-> 1, ts |-> ts, tv |-> tv, f |-> f, mu |-> mu, fl |-> fl, fa |-> fa, nt |-> nt, wrap |-> w]
P2(kt, l1, l2, alg) == [part |-> 2, kt |-> kt, l1 |-> l1, l2 |-> l2, alg |-> alg]
P3(fl) == [part |-> 3, fl |-> fl]

\* the key type x format cross product with every mutation class, a few flag values
MCross  == P1(KeyTypes, KeyTypes, Formats, AllMut, FlagsQ, {0, 1}, BOOLEAN)
\* the whole flag byte space on security keys (signed flags x presented flags on the classes that matter)
MFlags  == P1(SKTypes, SKTypes, {}, {"none", "otherdata", "flipA", "flagsAfter"}, FlagsAll, {0, 1, 4, 255}, BOOLEAN)
MFlagsQ == P1w(SKTypes, SKTypes, {}, {"none", "flagsAfter"}, FlagsAll, {0, 1}, BOOLEAN, {"plain"})
MSignersRSA == P2({"ssh-rsa"}, RSALists, Lists2, Algs)
MSignersOther == P2(SignerTypes, OtherLists, {<<"-">>, <<"ssh-ed25519">>}, Algs)
MOptOut == P3(FlagsAll)
MenusT == {MCross, MFlags, MSignersRSA, MSignersOther, MOptOut}
MCrossQ == P1w(KeyTypes, KeyTypes, Formats, AllMut, {0, 1}, {0, 1}, BOOLEAN, {"plain"})
MenusQ == {MCrossQ, MFlagsQ, MSignersRSA, MSignersOther, MOptOut}

\* generators
GCrossQ == P1w(KeyTypes, KeyTypes, Formats, {"none"}, {0, 1}, {}, BOOLEAN, {"plain"})
GMutQ   == P1(KeyTypes, KeyTypes, {}, AllMut, {0, 1, 5}, {0, 1}, BOOLEAN)
MenusGenQ == {GCrossQ, GMutQ, MFlagsQ, MSignersRSA, MSignersOther, P3(FlagsQ \cup {2, 3})}
GCrossT == P1(KeyTypes, KeyTypes, Formats, {"none", "otherdata", "flipA", "trail", "flagsAfter", "rsaShort", "ecdsaPadR"}, {0, 1, 4}, {0, 1}, BOOLEAN)
GMutT   == P1(KeyTypes, KeyTypes, {"ssh-rsa", "rsa-sha2-256", "ssh-ed25519", ""}, AllMut, FlagsQ, {0, 1, 255}, BOOLEAN)
MenusGenT == {GCrossT, GMutT, MFlags, MSignersRSA, MSignersOther, MOptOut}

Emit == Done => PrintT("TRACE " \o ToJson(
   CASE part = 1 -> [part |-> 1, v |-> v, acc |-> res.acc, why |-> res.why, valid |-> Valid(v), unjudged |-> Unjudged(v)]
     [] part = 2 -> [part |-> 2, m |-> m, new |-> mres.new, ok |-> mres.ok, fmt |-> mres.fmt, algs |-> mres.algs]
     [] OTHER    -> [part |-> 3, o |-> o, login |-> ores]))
=============================================================================
