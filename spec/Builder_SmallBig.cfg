SPECIFICATION Spec
CONSTANTS
  Profiles <- ProfSmallBig
INVARIANTS ErrIff CapErrOnlyFixed FitsAll ParseBack CapRespected LenIsSum PanicOnlyMisuse
CHECK_DEADLOCK FALSE
