SPECIFICATION Spec
CONSTANTS
  Modes <- WrapStrong
  MaxPacket = 262144
  SeqMod = 2
  CtrBase = 3
  CtrLimbs = 2
  Sizes <- SizesAttack
  StartSeqs <- Seq0
  StartCtrs <- Ctr0Small
  MaxPkts = 3
  MaxFaults = 1
  AttackOps <- DupOnly
  Phased = FALSE
  PadRule = "code"
INVARIANTS DeliveredPrefix OnlyIntactAccepted
CHECK_DEADLOCK FALSE
