----------------------------- MODULE PrimWords -----------------------------
(***************************************************************************)
(* Layer P (executable primitives, binding E): 32-bit machine words.       *)
(*                                                                         *)
(* TLC integers are 32-bit signed, so a 32-bit word is a pair <<hi, lo>>   *)
(* of 16-bit limbs (each 0..65535).  Bytes are integers 0..255, byte       *)
(* strings are sequences of bytes.  All operators are constant-level and   *)
(* are *evaluated* by TLC (Bitwise ^^ has a Java override).                *)
(*                                                                         *)
(* Used by PrimChaCha (C01, C02, C03, C53); models uint32 arithmetic of    *)
(* math/bits / encoding/binary as used by /repo/chacha20/chacha_generic.go *)
(***************************************************************************)
EXTENDS Integers, Sequences, Bitwise

\* TLC keeps [i \in 1..n |-> e] as a lazy closure and re-evaluates e on every application;
\* concatenation with <<>> converts it into an explicit tuple once.
Force(s) == s \o <<>>

W32(hi, lo) == <<hi, lo>>
IsW32(w) == /\ w[1] \in 0..65535 /\ w[2] \in 0..65535

\* a + b mod 2^32
Add32(a, b) == LET lo == a[2] + b[2]
                   hi == a[1] + b[1] + (lo \div 65536)
               IN <<hi % 65536, lo % 65536>>

\* w + k mod 2^32 for a small natural k < 2^31
AddInt32(w, k) == Add32(w, <<(k \div 65536) % 65536, k % 65536>>)

Xor32(a, b) == <<a[1] ^^ b[1], a[2] ^^ b[2]>>

\* rotate left by n, 0 < n < 32
Rotl32(a, n) ==
  IF n = 16 THEN <<a[2], a[1]>>
  ELSE IF n < 16 THEN
       LET p == 2^n  q == 2^(16-n) IN
       << ((a[1] * p) % 65536) + (a[2] \div q), ((a[2] * p) % 65536) + (a[1] \div q) >>
  ELSE LET m == n - 16  p == 2^m  q == 2^(16-m) IN       \* swap halves, then rotate by n-16
       << ((a[2] * p) % 65536) + (a[1] \div q), ((a[1] * p) % 65536) + (a[2] \div q) >>

\* little-endian: bytes b[i..i+3] (1-based) -> word, word -> 4 bytes
LE32(b, i) == << b[i+3] * 256 + b[i+2], b[i+1] * 256 + b[i] >>
Bytes32(w) == << w[2] % 256, w[2] \div 256, w[1] % 256, w[1] \div 256 >>

\* bytewise xor of two equal-length byte strings
XorBytes(a, b) == Force([i \in 1..Len(a) |-> a[i] ^^ b[i]])

\* flip bit `bit` (0..7) of byte i (1-based) of string s
FlipBit(s, i, bit) == [s EXCEPT ![i] = s[i] ^^ (2^bit)]

\* little-endian 8-byte encoding of a natural n < 2^31 (lengths)
LE64(n) == << n % 256, (n \div 256) % 256, (n \div 65536) % 256, (n \div 16777216) % 256, 0, 0, 0, 0 >>

Zeros(n) == Force([i \in 1..n |-> 0])

(***************************************************************************)
(* Input patterns.  Keys, nonces, messages and additional data used by the *)
(* conformance cases are produced from small generator parameters          *)
(* (a "seed" 0..999 and a length) by this arithmetic pattern, which the Go *)
(* harness re-implements (harness/c03prim.Pat).  Seed 0 is special: the    *)
(* all-zero string; seed 1: all 0xff.                                      *)
(***************************************************************************)
PatByte(seed, i) ==      \* i is the 0-based index
  IF seed = 0 THEN 0 ELSE IF seed = 1 THEN 255 ELSE
  ((seed * 131 + i * 197 + (i \div 7) * 31 + 17) ^^ (((i % 251) * (i % 241) + seed) % 256)) % 256
Pat(seed, n) == Force([i \in 1..n |-> PatByte(seed, i - 1)])

ASSUME /\ Add32(<<65535, 65535>>, <<0, 1>>) = <<0, 0>>
       /\ Add32(<<4660, 22136>>, <<65535, 65535>>) = <<4660, 22135>>
       /\ Rotl32(<<4660, 22136>>, 8) = <<13398, 30738>>     \* 0x12345678 <<< 8 = 0x34567812
       /\ Rotl32(<<4660, 22136>>, 7) = <<6699, 15369>>      \* 0x1a2b3c09
       /\ Rotl32(<<4660, 22136>>, 12) = <<17767, 33059>>    \* 0x45678123
       /\ Rotl32(<<4660, 22136>>, 20) = <<26497, 9029>>     \* 0x67812345
       /\ LE32(<<120, 86, 52, 18>>, 1) = <<4660, 22136>>
       /\ Bytes32(<<4660, 22136>>) = <<120, 86, 52, 18>>
=============================================================================
