------------------------------ MODULE OCSPCerts ------------------------------
(***************************************************************************)
(* golang.org/x/crypto/ocsp, ParseResponseForCert: the certificates field  *)
(* of a BasicOCSPResponse is a SEQUENCE of certificates.  This module is   *)
(* the part of the OCSP model (see OCSP.tla, whose configurations are the  *)
(* projection to at most one certificate) in which the response carries a  *)
(* sequence of 0..MaxCerts embedded certificates in any order.  [C48]      *)
(*                                                                         *)
(* A certificate is [key, byIssuer, eku]: whose key it certifies, whether  *)
(* the issuer given to ParseResponseForCert signed it, whether it has the  *)
(* OCSPSigning EKU (the code does not look at it).  The response is signed *)
(* by sigKey.  The code uses Certificates[0] only ("ignore all but the     *)
(* first"): it must verify the response and, with an issuer, be signed by  *)
(* the issuer; it is the certificate returned in Response.Certificate.     *)
(* The property (C48) is quantified over ALL positions: accepted only if   *)
(* the response is signed by the issuer or by a certificate in the         *)
(* sequence that the issuer signed -- and what is returned as the signer   *)
(* must be that very certificate.                                          *)
(***************************************************************************)
EXTENDS Integers, Sequences, FiniteSets, TLC

CONSTANT MaxCerts

(* I = the issuer's key, D = a delegated responder, L = some other subject the issuer certified (e.g. the queried leaf),
   A = an attacker's key the issuer never certified *)
Keys == {"I", "D", "L", "A"}
CertKinds == {
  [name |-> "issuerOwn",    key |-> "I", byIssuer |-> TRUE,  eku |-> FALSE],   \* the (self-signed) issuer certificate itself
  [name |-> "delegated",    key |-> "D", byIssuer |-> TRUE,  eku |-> TRUE],
  [name |-> "leafByIssuer", key |-> "L", byIssuer |-> TRUE,  eku |-> FALSE],   \* public material: genuinely issuer-signed, not a responder
  [name |-> "attackerSelf", key |-> "A", byIssuer |-> FALSE, eku |-> TRUE],    \* self-signed
  [name |-> "attackerByOther", key |-> "A", byIssuer |-> FALSE, eku |-> TRUE] }\* issued by some other CA

RECURSIVE SeqsUpTo(_, _)
SeqsUpTo(S, n) == IF n = 0 THEN {<<>>} ELSE LET T == SeqsUpTo(S, n - 1) IN T \cup {Append(t, x) : t \in T, x \in S}

Configs == [certs : SeqsUpTo(CertKinds, MaxCerts), sigKey : Keys, issuerGiven : BOOLEAN, region : {"none", "tbs"}]

VARIABLES cfg, res, phase
vars == <<cfg, res, phase>>

Init == cfg \in Configs /\ res = [d |-> "-", returned |-> 0] /\ phase = "sent"

\* the signature verifies under key k: signed by k and the signed bytes are as signed
Verifies(k) == cfg.sigKey = k /\ cfg.region = "none"

(* ParseResponseForCert as written: first certificate only *)
Decide ==
  IF ~cfg.issuerGiven /\ cfg.region # "none" THEN [d |-> "any", returned |-> 0]            \* nothing anchors the check (see OCSP.tla)
  ELSE IF Len(cfg.certs) > 0 THEN
       LET c == cfg.certs[1] IN
       IF ~Verifies(c.key) THEN [d |-> "reject", returned |-> 0]                            \* bad signature on embedded certificate
       ELSE IF cfg.issuerGiven /\ ~c.byIssuer THEN [d |-> "reject", returned |-> 0]         \* issuer did not sign the embedded certificate
       ELSE [d |-> "accept", returned |-> 1]
  ELSE IF cfg.issuerGiven /\ ~Verifies("I") THEN [d |-> "reject", returned |-> 0]
  ELSE [d |-> "accept", returned |-> 0]

Parse == phase = "sent" /\ phase' = "parsed" /\ res' = Decide /\ UNCHANGED cfg
Next == Parse
Spec == Init /\ [][Next]_vars

-----------------------------------------------------------------------------
Parsed == phase = "parsed"
\* C48, over all positions
Authorized == Verifies("I") \/ \E i \in 1..Len(cfg.certs) : cfg.certs[i].byIssuer /\ Verifies(cfg.certs[i].key)
OnlyAuthorized == (Parsed /\ cfg.issuerGiven /\ res.d = "accept") => Authorized
\* the certificate reported as the signer is the one whose key verified the response AND that the issuer signed
ReturnedIsTheSigner == (Parsed /\ res.d = "accept" /\ res.returned > 0) =>
                         /\ Verifies(cfg.certs[res.returned].key)
                         /\ (cfg.issuerGiven => cfg.certs[res.returned].byIssuer)
NothingReturnedMeansIssuer == (Parsed /\ cfg.issuerGiven /\ res.d = "accept" /\ res.returned = 0) => Verifies("I")
\* a certificate the issuer signed elsewhere in the sequence never vouches for a key it does not certify
NoBorrowedTrust == (Parsed /\ cfg.issuerGiven /\ res.d = "accept") =>
                     ~(\A i \in 1..Len(cfg.certs) : cfg.certs[i].key = cfg.sigKey => ~cfg.certs[i].byIssuer) \/ Verifies("I")
\* modified signed bytes are rejected with an issuer, whatever is embedded
SignedBytesProtected == (Parsed /\ cfg.issuerGiven /\ cfg.region = "tbs") => res.d = "reject"
\* exactly what the implementation accepts with an issuer: position 1 only (stricter than C48, allowed by "only if")
FirstOnly == (Parsed /\ cfg.issuerGiven /\ cfg.region = "none") =>
               (res.d = "accept" <=> IF Len(cfg.certs) = 0 THEN cfg.sigKey = "I"
                                     ELSE cfg.certs[1].key = cfg.sigKey /\ cfg.certs[1].byIssuer)
=============================================================================
