--------------------------- MODULE PrimSalsa_Gen ---------------------------
(***************************************************************************)
(* C09, binding E: TLC evaluates the executable Salsa20 definitions         *)
(* (PrimSalsa) and prints the tables that the Go harness compares the real *)
(* salsa20.XORKeyStream / salsa.XORKeyStream (assembly and portable) /     *)
(* salsa.HSalsa20 / salsa.Core208 with:                                    *)
(*                                                                         *)
(*  TRACE {"t":"ks", kseed, nseed, start, nb, cb, bytes}  nb keystream     *)
(*        blocks of the stream whose first counter block is                *)
(*        cb = Pat(nseed, 8) || StartBytes(start) under key Pat(kseed,32)  *)
(*  TRACE {"t":"xs", kseed, nseed, nb, subkey, bytes}  XSalsa20 with the   *)
(*        24-byte nonce Pat(nseed, 24): HSalsa20 subkey and nb blocks      *)
(*  TRACE {"t":"hs", kseed, nseed, cseed, bytes}  HSalsa20 with constant   *)
(*        Sigma (cseed = -1) or Pat(cseed, 16)                             *)
(*  TRACE {"t":"c208", seed, bytes}  Salsa20/8 core of Pat(seed, 64)       *)
(*                                                                         *)
(* Start counters are named so that values beyond TLC's 32-bit integers    *)
(* can be addressed: "z" = 0, "p32-k" = 2^32-k, "p32+k" = 2^32+k,          *)
(* "p64-k" = 2^64-k (the stream then wraps to 0), and "bN" = 2^N - 1       *)
(* (every byte carry of the little-endian counter).                        *)
(***************************************************************************)
EXTENDS PrimSalsa, TLC, Json

CONSTANTS KSCases,     \* set of [kseed, nseed, start, nb]
          XSCases,     \* set of [kseed, nseed, nb]
          HSCases,     \* set of [kseed, nseed, cseed]
          C208Cases    \* set of seeds
VARIABLE c
Init == c \in ({[t |-> "ks", x |-> k] : k \in KSCases} \cup {[t |-> "xs", x |-> k] : k \in XSCases}
               \cup {[t |-> "hs", x |-> k] : k \in HSCases} \cup {[t |-> "c208", x |-> [seed |-> k]] : k \in C208Cases})
Next == FALSE /\ UNCHANGED c
Spec == Init /\ [][Next]_c

FF(n) == [i \in 1..n |-> 255]
\* 8 little-endian bytes of the named start counter
StartBytes(s) ==
  CASE s = "z"     -> Zeros(8)
    [] s = "p32-5" -> <<251, 255, 255, 255, 0, 0, 0, 0>>
    [] s = "p32-4" -> <<252, 255, 255, 255, 0, 0, 0, 0>>
    [] s = "p32-3" -> <<253, 255, 255, 255, 0, 0, 0, 0>>
    [] s = "p32-2" -> <<254, 255, 255, 255, 0, 0, 0, 0>>
    [] s = "p32-1" -> <<255, 255, 255, 255, 0, 0, 0, 0>>
    [] s = "p32+0" -> <<0, 0, 0, 0, 1, 0, 0, 0>>
    [] s = "p32+1" -> <<1, 0, 0, 0, 1, 0, 0, 0>>
    [] s = "p64-5" -> <<251>> \o FF(7)
    [] s = "p64-4" -> <<252>> \o FF(7)
    [] s = "p64-3" -> <<253>> \o FF(7)
    [] s = "p64-2" -> <<254>> \o FF(7)
    [] s = "p64-1" -> FF(8)
    [] s = "b8"    -> FF(1) \o Zeros(7)
    [] s = "b16"   -> FF(2) \o Zeros(6)
    [] s = "b24"   -> FF(3) \o Zeros(5)
    [] s = "b40"   -> FF(5) \o Zeros(3)
    [] s = "b48"   -> FF(6) \o Zeros(2)
    [] s = "b56"   -> FF(7) \o Zeros(1)
    [] s = "hi"    -> <<254, 255, 255, 255, 4, 3, 2, 1>>      \* 0x01020304fffffffe: carry into a non-zero high word

Emit ==
  LET k == c.x IN
  CASE c.t = "ks" ->
         LET cb == Pat(k.nseed, 8) \o StartBytes(k.start) IN
         PrintT("TRACE " \o ToJson([t |-> "ks", kseed |-> k.kseed, nseed |-> k.nseed, start |-> k.start, nb |-> k.nb,
                                    cb |-> cb, bytes |-> SKSBlocks(Pat(k.kseed, 32), cb, k.nb)]))
    [] c.t = "xs" ->
         LET key == Pat(k.kseed, 32)  nonce == Pat(k.nseed, 24) IN
         PrintT("TRACE " \o ToJson([t |-> "xs", kseed |-> k.kseed, nseed |-> k.nseed, nb |-> k.nb,
                                    subkey |-> SEffKey(key, nonce),
                                    bytes |-> SKSBlocks(SEffKey(key, nonce), SEffBlock(nonce), k.nb)]))
    [] c.t = "hs" ->
         PrintT("TRACE " \o ToJson([t |-> "hs", kseed |-> k.kseed, nseed |-> k.nseed, cseed |-> k.cseed,
                                    bytes |-> HSalsa20C(Pat(k.kseed, 32), Pat(k.nseed, 16),
                                                        IF k.cseed < 0 THEN Sigma ELSE Pat(k.cseed, 16))]))
    [] c.t = "c208" ->
         PrintT("TRACE " \o ToJson([t |-> "c208", seed |-> k.seed, bytes |-> Core208(Pat(k.seed, 64))]))

\* model-level facts checked on every evaluated case (not only printed):
\*  - a stream is the concatenation of its blocks, and block j of a stream is block 0 of the stream started at counter + j
\*    (split invariance of the message-oriented API: the keystream depends on the counter block only);
\*  - XSalsa20 with a 24-byte nonce is Salsa20 under the HSalsa20 subkey with the last 8 nonce bytes.
Laws ==
  LET k == c.x IN
  CASE c.t = "ks" ->
         LET key == Pat(k.kseed, 32)  cb == Pat(k.nseed, 8) \o StartBytes(k.start) IN
         /\ SubSeq(SKSBlocks(key, cb, 3), 129, 192) = SalsaBlock(key, CtrAdd(cb, 2))
         /\ SubSeq(CtrAdd(cb, 2), 1, 8) = SubSeq(cb, 1, 8)
         /\ SKS(key, cb, 70) = SubSeq(SKSBlocks(key, cb, 2), 1, 70)
    [] c.t = "xs" ->
         LET key == Pat(k.kseed, 32)  nonce == Pat(k.nseed, 24) IN
         SalsaXOR(key, nonce, Zeros(64)) = SalsaBlock(HSalsa20(key, SubSeq(nonce, 1, 16)), SubSeq(nonce, 17, 24) \o Zeros(8))
    [] OTHER -> TRUE

KSRec(ks, ns, st, nb) == [kseed |-> ks, nseed |-> ns, start |-> st, nb |-> nb]
StartsCore == {"z", "p32-3", "p32-2", "p32-1", "p32+0", "p32+1", "p64-3", "p64-2", "p64-1"}
StartsMore == {"p32-5", "p32-4", "p64-5", "p64-4", "b8", "b16", "b24", "b40", "b48", "b56", "hi"}
KSQuick == {KSRec(7, 47, st, 6) : st \in StartsCore} \cup {KSRec(1, 0, st, 5) : st \in {"z", "p32-4", "p64-4", "hi"}}
           \cup {KSRec(23, 5, st, 2) : st \in {"b8", "b16", "b24", "b40", "b48", "b56"}}
KSThorough == {KSRec(ks, ks + 40, st, 9) : ks \in {7, 23}, st \in StartsCore \cup StartsMore}
              \cup {KSRec(ks, ks, st, 5) : ks \in {0, 1}, st \in StartsCore}
              \cup {KSRec(99, 3, "z", 32)}
XSRec(ks, ns, nb) == [kseed |-> ks, nseed |-> ns, nb |-> nb]
XSQuick == {XSRec(7, 11, 5), XSRec(1, 0, 2), XSRec(0, 1, 2)}
XSThorough == {XSRec(ks, ns, 5) : ks \in {0, 1, 7, 23}, ns \in {0, 1, 11, 77}} \cup {XSRec(99, 3, 32)}
HSRec(ks, ns, cs) == [kseed |-> ks, nseed |-> ns, cseed |-> cs]
HSQuick == {HSRec(a, b, -1) : a \in {0, 1, 7}, b \in {0, 1, 9}} \cup {HSRec(7, 9, 5), HSRec(23, 1, 0)}
HSThorough == {HSRec(a, b, cs) : a \in {0, 1, 7, 23, 99}, b \in {0, 1, 9, 77}, cs \in {-1, 5}}
C208Quick == {0, 1, 5, 9, 200}
C208Thorough == {0, 1} \cup 2..40
=============================================================================
