\* DOCUMENTATION ONLY (finding C46-F1, fixed in /repo 5d307c4): with the pre-fix treatment of a short checksum line switched on,
\* TLC refutes CorruptRejected.  Nothing here is expected of the code; the default model rejects such a line.
SPECIFICATION Spec
CONSTANTS
  Inputs <- ShortCrcOnly
  Mutations = {"flip"}
  PreFixShortCrc <- AlwaysTrue
INVARIANTS CorruptRejected
CHECK_DEADLOCK FALSE
