\* documentation / non-vacuity: without the known-defect exception TLC must refute the invariant (see Armor.tla, ShortCrcLine)
SPECIFICATION Spec
CONSTANTS
  Inputs <- ShortCrcOnly
  Mutations = {"flip"}
INVARIANTS CorruptRejectedStrict
CHECK_DEADLOCK FALSE
