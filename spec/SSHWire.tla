------------------------------- MODULE SSHWire -------------------------------
(* The reflection codec of golang.org/x/crypto/ssh/messages.go: Marshal / marshalStruct,
   Unmarshal, and the packet decoder decode().                          [property C24]

   A message struct is a *signature*: the accepted type bytes (sshtype tag of the first field,
   "a|b" = several; none for ad hoc structs) and the sequence of field kinds

      byte bool u32 u64 string bytes namelist mpint arr1 arr4 arr8 arr16 rest

   (string and []byte share the wire format; rest = trailing []byte with `ssh:"rest"`).
   MsgTable is the signature of every message struct declared in messages.go; it is part of the
   specification and the harness cross-checks it against the Go structs by reflection.

   Marshal(sig, vals)  = [first type byte] ++ encodings of the fields (PrimSSHEnc).
   Unmarshal(sig, data) succeeds iff data is non-empty, its first byte is one of the (non-zero)
   accepted types (when the struct has a type tag) and the fields consume the rest of the input
   exactly; a rest field takes whatever is left.
   Decode(data) dispatches on the first byte (DecodeTable) and unmarshals into that struct;
   unknown types are errors; it must never panic -- the empty packet is an error too.

   One behaviour = one case: pick a message and field values, marshal, unmarshal the result and
   every mutant of it (all truncations, 1..4 trailing bytes, wrong type bytes, each length field set
   to 0 / len-1 / len+1 / 2^31 / 2^32-1). *)
EXTENDS Integers, Sequences, FiniteSets, TLC, PrimSSHEnc

CONSTANTS Messages,      \* names (subset of DOMAIN Table) explored by this instance
          Menu(_),       \* kind -> set of boundary values
          Base(_)        \* kind -> a typical value

Sig(types, fields) == [types |-> types, fields |-> fields]
LenKinds == {"string", "bytes", "namelist", "mpint"}

-----------------------------------------------------------------------------
EncField(k, v) == CASE k = "byte" -> <<v>>
                    [] k = "bool" -> EncBool(v)
                    [] k = "u32" -> EncU32(v)
                    [] k = "u64" -> EncU64(v)
                    [] k \in {"string", "bytes"} -> EncString(v)
                    [] k = "namelist" -> EncNameList(v)
                    [] k = "mpint" -> EncMpint(v)
                    [] OTHER -> v                              \* arrN, rest: the bytes themselves
DecField(k, b) == CASE k = "byte" -> DecByte(b)
                    [] k = "bool" -> DecBool(b)
                    [] k = "u32" -> DecU32(b)
                    [] k = "u64" -> DecU64(b)
                    [] k \in {"string", "bytes"} -> DecString(b)
                    [] k = "namelist" -> DecNameList(b)
                    [] k = "mpint" -> DecMpint(b)
                    [] k = "arr1" -> DecArray(b, 1)
                    [] k = "arr4" -> DecArray(b, 4)
                    [] k = "arr8" -> DecArray(b, 8)
                    [] k = "arr16" -> DecArray(b, 16)
                    [] OTHER -> Ok(b, <<>>)                    \* rest

TypePrefix(sig) == IF sig.types = <<>> THEN <<>> ELSE <<sig.types[1]>>
RECURSIVE EncFields(_, _, _)
EncFields(kinds, vals, i) == IF i > Len(kinds) THEN <<>> ELSE EncField(kinds[i], vals[i]) \o EncFields(kinds, vals, i + 1)
Marshal(sig, vals) == TypePrefix(sig) \o EncFields(sig.fields, vals, 1)

\* offsets (0-based) and values of the uint32 length fields inside Marshal(sig, vals)
RECURSIVE LenFields(_, _, _, _)
LenFields(kinds, vals, i, off) ==
  IF i > Len(kinds) THEN <<>>
  ELSE LET e == EncField(kinds[i], vals[i]) IN
       (IF kinds[i] \in LenKinds THEN << <<off, Len(e) - 4>> >> ELSE <<>>) \o LenFields(kinds, vals, i + 1, off + Len(e))
LenOffsets(sig, vals) == LenFields(sig.fields, vals, 1, Len(TypePrefix(sig)))
RestOffset(sig, vals) == Len(Marshal(sig, vals)) - (IF sig.fields # <<>> /\ sig.fields[Len(sig.fields)] = "rest" THEN Len(vals[Len(vals)]) ELSE 0)
HasRest(sig) == \E i \in 1..Len(sig.fields) : sig.fields[i] = "rest"

Err == [ok |-> FALSE, vals |-> <<>>]
RECURSIVE ParseFields(_, _, _, _)
ParseFields(kinds, i, b, acc) ==
  IF i > Len(kinds) THEN (IF b = <<>> THEN [ok |-> TRUE, vals |-> acc] ELSE Err)     \* trailing bytes
  ELSE LET r == DecField(kinds[i], b) IN
       IF ~r.ok THEN Err ELSE ParseFields(kinds, i + 1, r.rest, Append(acc, r.v))
Unmarshal(sig, data) ==
  IF data = <<>> THEN Err
  ELSE IF sig.types = <<>> THEN ParseFields(sig.fields, 1, data, <<>>)
  ELSE IF \E j \in 1..Len(sig.types) : sig.types[j] > 0 /\ data[1] = sig.types[j]
       THEN ParseFields(sig.fields, 1, Tail(data), <<>>)
       ELSE Err

-----------------------------------------------------------------------------
(* messages.go *)
MsgTable ==
  [ disconnectMsg            |-> Sig(<<1>>,   <<"u32", "string", "string">>),
    kexInitMsg               |-> Sig(<<20>>,  <<"arr16", "namelist", "namelist", "namelist", "namelist", "namelist", "namelist",
                                                "namelist", "namelist", "namelist", "namelist", "bool", "u32">>),
    kexDHInitMsg             |-> Sig(<<30>>,  <<"mpint">>),
    kexECDHInitMsg           |-> Sig(<<30>>,  <<"bytes">>),
    kexECDHReplyMsg          |-> Sig(<<31>>,  <<"bytes", "bytes", "bytes">>),
    kexDHReplyMsg            |-> Sig(<<31>>,  <<"bytes", "mpint", "bytes">>),
    kexDHGexGroupMsg         |-> Sig(<<31>>,  <<"mpint", "mpint">>),
    kexDHGexInitMsg          |-> Sig(<<32>>,  <<"mpint">>),
    kexDHGexReplyMsg         |-> Sig(<<33>>,  <<"bytes", "mpint", "bytes">>),
    kexDHGexRequestMsg       |-> Sig(<<34>>,  <<"u32", "u32", "u32">>),
    serviceRequestMsg        |-> Sig(<<5>>,   <<"string">>),
    serviceAcceptMsg         |-> Sig(<<6>>,   <<"string">>),
    extInfoMsg               |-> Sig(<<7>>,   <<"u32", "rest">>),
    userAuthRequestMsg       |-> Sig(<<50>>,  <<"string", "string", "string", "rest">>),
    userAuthSuccessMsg       |-> Sig(<<>>,    <<>>),
    userAuthFailureMsg       |-> Sig(<<51>>,  <<"namelist", "bool">>),
    userAuthBannerMsg        |-> Sig(<<53>>,  <<"string", "string">>),
    userAuthInfoRequestMsg   |-> Sig(<<60>>,  <<"string", "string", "string", "u32", "rest">>),
    channelOpenMsg           |-> Sig(<<90>>,  <<"string", "u32", "u32", "u32", "rest">>),
    channelDataMsg           |-> Sig(<<94>>,  <<"u32", "u32", "rest">>),
    channelOpenConfirmMsg    |-> Sig(<<91>>,  <<"u32", "u32", "u32", "u32", "rest">>),
    channelOpenFailureMsg    |-> Sig(<<92>>,  <<"u32", "u32", "string", "string">>),
    channelRequestMsg        |-> Sig(<<98>>,  <<"u32", "string", "bool", "rest">>),
    channelRequestSuccessMsg |-> Sig(<<99>>,  <<"u32">>),
    channelRequestFailureMsg |-> Sig(<<100>>, <<"u32">>),
    channelCloseMsg          |-> Sig(<<97>>,  <<"u32">>),
    channelEOFMsg            |-> Sig(<<96>>,  <<"u32">>),
    globalRequestMsg         |-> Sig(<<80>>,  <<"string", "bool", "rest">>),
    globalRequestSuccessMsg  |-> Sig(<<81>>,  <<"rest">>),
    globalRequestFailureMsg  |-> Sig(<<82>>,  <<"rest">>),
    windowAdjustMsg          |-> Sig(<<93>>,  <<"u32", "u32">>),
    userAuthPubKeyOkMsg      |-> Sig(<<60>>,  <<"string", "bytes">>),
    userAuthGSSAPIResponse   |-> Sig(<<60>>,  <<"bytes">>),
    userAuthGSSAPIToken      |-> Sig(<<61>>,  <<"bytes">>),
    userAuthGSSAPIMIC        |-> Sig(<<66>>,  <<"bytes">>),
    userAuthGSSAPIErrTok     |-> Sig(<<64>>,  <<"bytes">>),
    userAuthGSSAPIError      |-> Sig(<<65>>,  <<"u32", "u32", "string", "string">>),
    pingMsg                  |-> Sig(<<192>>, <<"string">>),
    pongMsg                  |-> Sig(<<193>>, <<"string">>) ]

\* ad hoc structs (declared identically in the harness): every supported field kind, no type tag,
\* several accepted types, two mpints in a row
AdHocTable ==
  [ adhocAll     |-> Sig(<<200>>, <<"byte", "bool", "u32", "u64", "string", "bytes", "arr4", "namelist", "mpint", "rest">>),
    adhocNoTag   |-> Sig(<<>>,    <<"u32", "string">>),
    adhocMulti   |-> Sig(<<202, 203>>, <<"string">>),
    adhocMpints  |-> Sig(<<201>>, <<"mpint", "mpint", "byte">>) ]

(* Position-complete struct shapes: every field kind as the only, the FIRST, a MIDDLE and the LAST field
   of a struct (the codec's per-kind code must work whatever follows or precedes the field, in particular
   when the field consumes the input exactly).  A rest field is documented as a final member only, so it
   appears as the only and as the last field.  The harness builds these structs with reflect.StructOf. *)
ShapeKinds == {"byte", "bool", "u32", "u64", "string", "bytes", "namelist", "mpint", "arr1", "arr4", "arr8", "arr16", "rest"}
ShapePos == {"only", "first", "middle", "last"}
ShapeDefs == {d \in {[name |-> "shape_" \o p \o "_" \o k, p |-> p, k |-> k] : p \in ShapePos, k \in ShapeKinds} :
                 ~(d.k = "rest" /\ d.p \in {"first", "middle"})}
ShapeFields(p, k) == CASE p = "only" -> <<k>>
                       [] p = "first" -> <<k, "u32", "string">>
                       [] p = "middle" -> <<"byte", k, "u32">>
                       [] OTHER -> <<"u32", k>>
ShapeIdx(p) == IF p \in {"only", "first"} THEN 1 ELSE 2           \* where the kind under test sits
ShapeNames == {d.name : d \in ShapeDefs}
ShapeOf(n) == CHOOSE d \in ShapeDefs : d.name = n
ShapeTable == [n \in ShapeNames |-> Sig(<<210>>, ShapeFields(ShapeOf(n).p, ShapeOf(n).k))]

Table == MsgTable @@ AdHocTable @@ ShapeTable

\* decode(): first byte -> struct
DecodeTable ==
  { <<1, "disconnectMsg">>, <<5, "serviceRequestMsg">>, <<6, "serviceAcceptMsg">>, <<7, "extInfoMsg">>,
    <<20, "kexInitMsg">>, <<30, "kexDHInitMsg">>, <<31, "kexDHReplyMsg">>, <<50, "userAuthRequestMsg">>,
    <<51, "userAuthFailureMsg">>, <<52, "userAuthSuccessMsg">>, <<53, "userAuthBannerMsg">>, <<60, "userAuthPubKeyOkMsg">>,
    <<80, "globalRequestMsg">>, <<81, "globalRequestSuccessMsg">>, <<82, "globalRequestFailureMsg">>,
    <<90, "channelOpenMsg">>, <<94, "channelDataMsg">>, <<91, "channelOpenConfirmMsg">>, <<92, "channelOpenFailureMsg">>,
    <<93, "windowAdjustMsg">>, <<96, "channelEOFMsg">>, <<97, "channelCloseMsg">>, <<98, "channelRequestMsg">>,
    <<99, "channelRequestSuccessMsg">>, <<100, "channelRequestFailureMsg">>, <<61, "userAuthGSSAPIToken">>,
    <<66, "userAuthGSSAPIMIC">>, <<64, "userAuthGSSAPIErrTok">>, <<65, "userAuthGSSAPIError">> }
DecodeTypes == {p[1] : p \in DecodeTable}
DecodeName(t) == (CHOOSE p \in DecodeTable : p[1] = t)[2]
NoDec == [ok |-> FALSE, name |-> "", vals |-> <<>>]
Decode(data) ==
  IF data = <<>> THEN NoDec                                   \* an error, not a panic
  ELSE IF data[1] \notin DecodeTypes THEN NoDec
  ELSE IF data[1] = 52 THEN (IF Len(data) = 1 THEN [ok |-> TRUE, name |-> "userAuthSuccessMsg", vals |-> <<>>] ELSE NoDec)
  ELSE LET n == DecodeName(data[1])
           r == Unmarshal(MsgTable[n], data) IN
       IF r.ok THEN [ok |-> TRUE, name |-> n, vals |-> r.vals] ELSE NoDec

-----------------------------------------------------------------------------
(* mutants of a marshaled message *)
Mut(m, a, b) == [m |-> m, a |-> a, b |-> b]
RECURSIVE Flatten(_)
Flatten(ss) == IF ss = <<>> THEN <<>> ELSE ss[1] \o Flatten(Tail(ss))
Patch(w, off, b) == SubSeq(w, 1, off) \o b \o SubSeq(w, off + Len(b) + 1, Len(w))
Apply(w, mu) == CASE mu.m = "trunc" -> SubSeq(w, 1, mu.a)
                  [] mu.m = "trail" -> w \o mu.b
                  [] mu.m = "type" -> <<mu.a>> \o Tail(w)
                  [] OTHER -> Patch(w, mu.a, mu.b)             \* "len"
\* every truncation of a short message; for long ones (boundary-size strings) both ends and every 16th
\* length (the harness tries *every* truncation of every message against TruncRule as well)
TruncSeq(n) ==
  IF n <= 96 THEN [i \in 1..n |-> Mut("trunc", i - 1, <<>>)]
  ELSE [i \in 1..48 |-> Mut("trunc", i - 1, <<>>)]
       \o [i \in 1..((n - 24 - 48) \div 16) |-> Mut("trunc", 48 + 16 * (i - 1), <<>>)]
       \o [i \in 1..24 |-> Mut("trunc", n - 25 + i, <<>>)]
Mutants(sig, vals) ==
  LET w == Marshal(sig, vals)
      lf == LenOffsets(sig, vals) IN
  TruncSeq(Len(w))
  \o [n \in 1..4 |-> Mut("trail", n, Zeros(n))] \o <<Mut("trail", 1, <<255>>)>>
  \o (IF sig.types = <<>> THEN <<>>
      ELSE LET t == sig.types[1] IN
           <<Mut("type", 0, <<>>), Mut("type", (t + 1) % 256, <<>>), Mut("type", (t + 255) % 256, <<>>), Mut("type", 255 - t, <<>>)>>)
  \o Flatten([j \in 1..Len(lf) |->
        LET off == lf[j][1]
            n == lf[j][2] IN
        <<Mut("len", off, EncLen(0)), Mut("len", off, EncLen(n + 1)), Mut("len", off, <<128, 0, 0, 0>>),
          Mut("len", off, <<255, 255, 255, 255>>)>> \o (IF n > 0 THEN <<Mut("len", off, EncLen(n - 1))>> ELSE <<>>)])

-----------------------------------------------------------------------------
VARIABLES c,       \* the case: [name, sig, vals]
          wire,    \* Marshal(c)
          muts,    \* the mutants of wire (edit descriptions)
          out,     \* results: res = Unmarshal(wire), dec = Decode(wire), mres[j].u = Unmarshal(mutant j)
          phase
vars == <<c, wire, muts, out, phase>>

KindOf(name, i) == Table[name].fields[i]
BaseVals(name) == [i \in 1..Len(Table[name].fields) |-> Base(KindOf(name, i))]
\* one field at a time takes every boundary value of its kind, the others stay at their base value
\* (in a shape struct only the field under test varies)
VaryIdx(name) == IF name \in ShapeNames THEN {ShapeIdx(ShapeOf(name).p)} ELSE 1..Len(Table[name].fields)
CaseVals(name) == {BaseVals(name)} \cup
                  UNION {{[BaseVals(name) EXCEPT ![i] = v] : v \in Menu(KindOf(name, i))} : i \in VaryIdx(name)}

Init == /\ \E name \in Messages : \E vs \in CaseVals(name) : c = [name |-> name, sig |-> Table[name], vals |-> vs]
        /\ wire = <<>> /\ muts = <<>> /\ out = <<>> /\ phase = "init"

\* Marshal(msg)
DoMarshal == /\ phase = "init"
             /\ wire' = Marshal(c.sig, c.vals)
             /\ muts' = Mutants(c.sig, c.vals)
             /\ phase' = "wire" /\ UNCHANGED <<c, out>>
\* Unmarshal / decode of the marshaled bytes and of every mutant
DoUnmarshal == /\ phase = "wire"
               /\ out' = [res |-> Unmarshal(c.sig, wire),
                          dec |-> Decode(wire),
                          mres |-> [j \in 1..Len(muts) |->
                                      [u |-> Unmarshal(c.sig, Apply(wire, muts[j]))]]]
               /\ phase' = "done" /\ UNCHANGED <<c, wire, muts>>
Next == DoMarshal \/ DoUnmarshal
Spec == Init /\ [][Next]_vars

-----------------------------------------------------------------------------
(* properties *)
Done == phase = "done"
SigC == c.sig
MOk(j) == out.mres[j].u.ok
\* Unmarshal(Marshal(m)) reproduces m
RoundTrip == Done => (out.res.ok /\ out.res.vals = c.vals)
\* mpints are encoded in minimal two's complement, and decode to the value
MpintMinimal == phase = "init" => \A i \in 1..Len(SigC.fields) : SigC.fields[i] = "mpint" =>
                   LET e == TwosMin(c.vals[i]) IN
                   /\ IsMinimalTwos(e) /\ TwosVal(e) = c.vals[i] /\ (c.vals[i] = BigZero <=> e = <<>>)
                   /\ EncField("mpint", c.vals[i]) = EncLen(Len(e)) \o e
\* a wrong type byte is rejected (a mutated type that is another accepted type of the struct is not wrong)
WrongTypeRejected == Done => \A j \in 1..Len(muts) : muts[j].m = "type" =>
                        (MOk(j) <=> \E t \in 1..Len(SigC.types) : SigC.types[t] = muts[j].a)
TrailingRejected == (Done /\ ~HasRest(SigC)) => \A j \in 1..Len(muts) : muts[j].m = "trail" => ~MOk(j)
\* a truncation is accepted exactly when it only shortens a rest field
TruncRule == Done => LET ro == RestOffset(SigC, c.vals) IN
                     \A j \in 1..Len(muts) : muts[j].m = "trunc" =>
                        (MOk(j) <=> (HasRest(SigC) /\ muts[j].a >= ro /\ muts[j].a >= 1))
\* a length field pointing beyond the input is rejected
HugeLenRejected == Done => \A j \in 1..Len(muts) : (muts[j].m = "len" /\ muts[j].b[1] >= 128) => ~MOk(j)
\* decode only accepts types it knows, and decodes a message of its own table to itself
DecodeConsistent == Done => (out.dec.ok => (wire # <<>> /\ wire[1] \in DecodeTypes))
DecodeOwn == (Done /\ SigC.types # <<>> /\ <<SigC.types[1], c.name>> \in DecodeTable) =>
                (out.dec.ok /\ out.dec.name = c.name /\ out.dec.vals = c.vals)
=============================================================================
