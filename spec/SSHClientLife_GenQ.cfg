SPECIFICATION GenSpec
CONSTANTS
  MaxPeer = 2
  MaxLocal = 1
  MaxDial = 2
  MaxGReq = 2
  MaxIn = 1
  MaxReg = 2
  Configs <- AllCfgs
  Alpha = "full"
  Races = TRUE
  CloseLate = TRUE
VIEW AbsView
CHECK_DEADLOCK FALSE
