---------------------------- MODULE SSHInterop_MC ----------------------------
(* C27 — the configuration space of the interoperability check, enumerated by TLC.

   The property quantifies over "the full cross product of mutually supported algorithms"
   of the OpenSSH client and the Go server.  The lists are CONSTANTS: checks/C27.py
   instantiates them with the real names (`ssh -Q ...` intersected with what the package
   implements, see the header of that file) in a generated module that EXTENDS this one;
   SSHInterop_MCsmall.tla is a fixed abstract instance used to check the definitions.

   A configuration is a record
       [kex, hostkey, cipher, mac, usersig, rekey, size]
   mac = "-" when the cipher is an AEAD (no MAC is negotiated then), usersig the public key
   algorithm the client signs its user-auth request with, rekey who forces key re-exchanges
   ("client": ssh -o RekeyLimit=16K; "server": ServerConfig.RekeyThreshold = 16 KiB; "both"),
   size the payload class (harness: zero, one, small < 1 kB, medium 16-64 kB, large 64-200 kB,
   max = 200 000 bytes; bytes and exact size seeded).

   Rows are index triples <<i, j, k>> into KexL, HostL and CM (the sequence of admissible
   cipher/MAC pairs); the remaining three coordinates are Latin-square functions of (j, k)
   and Seed (linear forms modulo the list lengths, so that a different seed translates them
   without changing what is covered):

     Full      KexL x HostL x CM                                  (thorough tier)
     Pairwise  HostL x CM with i = f(j, k): every PAIR of values of any two of the six
               coordinates occurs in some row (ASSUME PairwiseCovers, evaluated by TLC)
     Each      max(|KexL|, |HostL|, |CM|) rows: every kex, every host key algorithm and every
               cipher/MAC pair occurs (ASSUME EachCovers)
     Quick     Each plus a seed-dependent seventh of Pairwise: every value of each of the six
               coordinates occurs (ASSUME QuickCovers)                (quick tier)

   TLC enumerates the chosen set as initial states; the invariant Emit prints one TRACE line
   per configuration with the model's prediction (expect = "ok": OpenSSH exits 0, the echoed
   bytes are equal and the server-side packet trace is accepted by SSHInterop_Trace). *)
EXTENDS Integers, Sequences, FiniteSets, TLC, Json

CONSTANTS KexL, HostL, CipherL, MacL, UserL, RekeyL, SizeL,   \* sequences of names
          AeadS,        \* set: ciphers of CipherL that are AEADs
          Tier,         \* "each" | "quick" | "pairwise" | "full"
          Seed          \* Nat

RECURSIVE Flat(_)
Flat(ss) == IF ss = <<>> THEN <<>> ELSE Head(ss) \o Flat(Tail(ss))
PairsOf(c) == IF c \in AeadS THEN << <<c, "-">> >> ELSE [m \in 1..Len(MacL) |-> <<c, MacL[m]>>]
CM == Flat([c \in 1..Len(CipherL) |-> PairsOf(CipherL[c])])

nK == Len(KexL)
nH == Len(HostL)
nCM == Len(CM)
Max3(a, b, c) == IF a >= b /\ a >= c THEN a ELSE IF b >= c THEN b ELSE c

Pick(L, x) == L[(x % Len(L)) + 1]
Rec(t) == LET i == t[1]  j == t[2]  k == t[3] IN
  [kex     |-> KexL[i],
   hostkey |-> HostL[j],
   cipher  |-> CM[k][1],
   mac     |-> CM[k][2],
   usersig |-> Pick(UserL, j + 2 * k + Seed),
   rekey   |-> Pick(RekeyL, j + k + Seed),
   size    |-> Pick(SizeL, 5 * j + k + Seed),
   expect  |-> "ok"]

Full     == (1..nK) \X (1..nH) \X (1..nCM)
Pairwise == {<<((j + k + Seed) % nK) + 1, j, k>> : j \in 1..nH, k \in 1..nCM}
Each     == {<<((r - 1) % nK) + 1, ((r - 1) % nH) + 1, ((r - 1) % nCM) + 1>> : r \in 1..Max3(nK, nH, nCM)}
Quick    == Each \cup {t \in Pairwise : (5 * t[2] + t[3] + Seed) % 7 = 0}

Rows == CASE Tier = "full" -> Full
          [] Tier = "pairwise" -> Pairwise
          [] Tier = "each" -> Each
          [] Tier = "quick" -> Quick

-----------------------------------------------------------------------------
(* Coverage facts, evaluated by TLC before anything is emitted. *)
Range(L) == {L[x] : x \in 1..Len(L)}
Coords == <<"kex", "hostkey", "cm", "usersig", "rekey", "size">>
Val(r, a) == IF a = "cm" THEN <<r.cipher, r.mac>> ELSE r[a]
Dom(a) == CASE a = "kex" -> Range(KexL) [] a = "hostkey" -> Range(HostL) [] a = "cm" -> Range(CM)
            [] a = "usersig" -> Range(UserL) [] a = "rekey" -> Range(RekeyL) [] a = "size" -> Range(SizeL)

EachRecs == {Rec(t) : t \in Each}
PairRecs == {Rec(t) : t \in Pairwise}

QuickRecs == {Rec(t) : t \in Quick}

EachCovers == \A a \in {"kex", "hostkey", "cm"} : {Val(r, a) : r \in EachRecs} = Dom(a)
QuickCovers == \A a \in Range(Coords) : {Val(r, a) : r \in QuickRecs} = Dom(a)
PairwiseCovers == \A x \in 1..Len(Coords) : \A y \in (x + 1)..Len(Coords) :
                    {<<Val(r, Coords[x]), Val(r, Coords[y])>> : r \in PairRecs} = Dom(Coords[x]) \X Dom(Coords[y])
WellFormed == /\ nK > 0 /\ nH > 0 /\ nCM > 0 /\ Len(UserL) > 0 /\ Len(RekeyL) > 0 /\ Len(SizeL) > 0
              /\ AeadS \subseteq Range(CipherL)
              /\ \A c \in Range(CipherL) : c \notin AeadS => Len(MacL) > 0
              /\ Cardinality(Range(CM)) = nCM                 \* no duplicates
              /\ Each \subseteq Full /\ Pairwise \subseteq Full /\ Quick \subseteq Full

ASSUME WellFormed
ASSUME EachCovers
ASSUME Tier = "pairwise" => PairwiseCovers
ASSUME Tier = "quick" => QuickCovers

-----------------------------------------------------------------------------
VARIABLE row
Init == row \in Rows
Next == UNCHANGED row
Spec == Init /\ [][Next]_row

Emit == PrintT("TRACE " \o ToJson(Rec(row)))
=============================================================================
