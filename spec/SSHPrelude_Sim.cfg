SPECIFICATION SimSpec
CONSTANTS
  MaxLine = 255
  MaxPre = 1024
  MaxPending = 64
  ChanSize = 16
  Roles <- BothRoles
  Owns <- OwnsOne
  StrictOpts <- Bool
  ExtcOpts <- Bool
  RkOpts <- Bool
  StartPh = "kex0"
  VerSteps <- NoVer
  MaxVer = 0
  Kinds <- KindsAll
  MaxPkt = 26
  MaxNoise = 5
  MaxPing = 8
  PingRuns <- RunsSim
  Bursts <- BurstsReal
  AsIs = FALSE
INVARIANTS EmitEnd
CHECK_DEADLOCK FALSE
