SPECIFICATION Spec
CONSTANTS
  Procs = {"g1"}
  NameClasses <- AllNames
  CacheClasses <- AllCache
  ClockPos = {"pre", "start", "mid", "end", "post"}
  Outcomes = {"ok", "cafail", "badcert"}
  KeyTypes = {"E", "R"}
  Tokens = {TRUE, FALSE}
  Cleanups = 0
INVARIANTS Emit S1_OnlyApprovedValid S2_TokenOnlyForToken S3_PolicyFirst E1_OneIssuance E2_OwnersResult E3_LockOwner
CHECK_DEADLOCK FALSE
