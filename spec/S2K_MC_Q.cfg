INIT Init
NEXT Next
CONSTANTS
  PassLens = {0, 1, 5, 10}
  ToyCounts = {0, 7, 13, 14, 20, 37, 100}
  KeyMax = 13
  PreLens = {0, 1, 10, 55, 100}
INVARIANTS Check
CHECK_DEADLOCK FALSE
