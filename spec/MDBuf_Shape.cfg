SPECIFICATION Spec
CONSTANTS
  BS = 64
  LF = 8
  WSet = {0, 1, 55, 56, 57, 63, 64, 65}
  MaxLen = 200
INVARIANTS TypeOK PadShape SumIsDefinition
PROPERTIES SumPure WriteAppends
CHECK_DEADLOCK FALSE
