SPECIFICATION Spec
CONSTANTS
  RangeCheck = FALSE
  Full = FALSE
INVARIANTS AcceptImpliesShape
CHECK_DEADLOCK FALSE
