SPECIFICATION GenSpec
CONSTANTS
  Listeners <- LAB
  Kind <- KMix
  Order <- OCode
  CapIncoming = 16
  CapHandler = 16
  MaxPer = 0
  Bursts <- B20
  MaxHist = 4
CHECK_DEADLOCK FALSE
INVARIANT Emit
