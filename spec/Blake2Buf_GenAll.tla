--------------------------- MODULE Blake2Buf_GenAll ---------------------------
(***************************************************************************)
(* C05 / C07, binding R: the four instances of Blake2Buf_Gen the checks    *)
(* replay (BLAKE2b block 128 / BLAKE2s block 64, unkeyed / keyed) in one   *)
(* TLC run: `which` is chosen initially and selects the instance whose     *)
(* GInit/GNext drive the shared variables.  TRACE {"w": which, "h": hist}. *)
(***************************************************************************)
EXTENDS Integers, Sequences, TLC, Json

CONSTANTS Depth, Ops, Which, Small
VARIABLES h, c, size, block, offset, saved, panicked, taint, msg, nextId, snapMsg, last, hist, which
allvars == <<h, c, size, block, offset, saved, panicked, taint, msg, nextId, snapMsg, last, hist, which>>

\* Small = 0: the full write-size alphabet; 1: without 2B; 2: {1, B, B+1} (deep marshal histories)
NB == CASE Small = 0 -> {0, 1, 127, 128, 129, 256, 257} [] Small = 1 -> {0, 1, 127, 128, 129, 257} [] Small = 2 -> {1, 128, 129}
NS == CASE Small = 0 -> {0, 1, 63, 64, 65, 128, 129} [] Small = 1 -> {0, 1, 63, 64, 65, 129} [] Small = 2 -> {1, 64, 65}
B0 == INSTANCE Blake2Buf_Gen WITH B <- 128, KeyLen <- 0, NSet <- NB, Size <- 32, MaxBytes <- 100000, MaxSize <- 64,
                                  RangeCheck <- TRUE, CorruptSizes <- {}, CorruptOffsets <- {}, WithMarshal <- TRUE
B1 == INSTANCE Blake2Buf_Gen WITH B <- 128, KeyLen <- 1, NSet <- NB, Size <- 32, MaxBytes <- 100000, MaxSize <- 64,
                                  RangeCheck <- TRUE, CorruptSizes <- {}, CorruptOffsets <- {}, WithMarshal <- TRUE
S0 == INSTANCE Blake2Buf_Gen WITH B <- 64, KeyLen <- 0, NSet <- NS, Size <- 32, MaxBytes <- 100000, MaxSize <- 32,
                                  RangeCheck <- TRUE, CorruptSizes <- {}, CorruptOffsets <- {}, WithMarshal <- TRUE
S1 == INSTANCE Blake2Buf_Gen WITH B <- 64, KeyLen <- 1, NSet <- NS, Size <- 32, MaxBytes <- 100000, MaxSize <- 32,
                                  RangeCheck <- TRUE, CorruptSizes <- {}, CorruptOffsets <- {}, WithMarshal <- TRUE

Init == /\ which \in Which
        /\ CASE which = "b0" -> B0!GInit [] which = "b1" -> B1!GInit [] which = "s0" -> S0!GInit [] which = "s1" -> S1!GInit
Next == /\ UNCHANGED which
        /\ CASE which = "b0" -> B0!GNext [] which = "b1" -> B1!GNext [] which = "s0" -> S0!GNext [] which = "s1" -> S1!GNext
Spec == Init /\ [][Next]_allvars
Emit == (Len(hist) = Depth) => PrintT("TRACE " \o ToJson([w |-> which, h |-> hist]))

HashOps == {"write", "sum", "reset"}
AllOps == {"write", "sum", "reset", "marshal", "unmarshal"}
WAll == {"b0", "b1", "s0", "s1"}
WUnkeyed == {"b0", "s0"}
WKeyed == {"b1", "s1"}
=============================================================================
