SPECIFICATION Spec
CONSTANTS
  BS = 8
  LF = 2
  WSet = {0, 1, 2, 3, 5, 6, 7, 8, 9, 13, 14, 15, 16, 17, 23, 24, 25}
  MaxLen = 50
INVARIANTS AbsInv BufInv NoPanic
PROPERTIES Refines AbsSumPure
CHECK_DEADLOCK FALSE
