-------------------------- MODULE SSHAuthServer_MC --------------------------
(* Bounded instances of SSHAuthServer (properties C32 and C33): callback-outcome  *)
(* configurations, request alphabets (MCAt) and configuration sets.  The          *)
(* behaviour generator for binding R is SSHAuthServer_Gen.                        *)
EXTENDS SSHAuthServer, Json

CONSTANT General      \* names of the general configurations (K...) to include in ConfigsGeneral

\* ---------------------------------------------------------------- helpers
AllU(o) == [u \in Users |-> o]
AllK(o) == [k \in Keys |-> o]
AllUK(o) == [u \in Users |-> AllK(o)]
U2(o1, o2) == [u \in Users |-> IF u = "u1" THEN o1 ELSE o2]
Stage(hasPw, pw, hasKbd, kbd, hasPk, pk) == [hasPw |-> hasPw, pw |-> pw, hasKbd |-> hasKbd, kbd |-> kbd, hasPk |-> hasPk, pk |-> pk]
NoStageCb == Stage(FALSE, AllU(AbsentO), FALSE, AllU(AbsentO), FALSE, AllUK(AbsentO))
PwOnly(pw) == Stage(TRUE, pw, FALSE, AllU(AbsentO), FALSE, AllUK(AbsentO))
PkOnly(pk) == Stage(FALSE, AllU(AbsentO), FALSE, AllU(AbsentO), TRUE, pk)
KbdOnly(kbd) == Stage(FALSE, AllU(AbsentO), TRUE, kbd, FALSE, AllUK(AbsentO))
Cfg(remote, nca, hasNone, noneCb, mt, hasV, v, banner, pkaa, pkaaDefault, stages) ==
  [remote |-> remote, noClientAuth |-> nca, hasNoneCb |-> hasNone, noneCb |-> noneCb, maxTries |-> mt,
   hasVerified |-> hasV, verified |-> v, banner |-> banner, pkaa |-> pkaa, pkaaDefault |-> pkaaDefault, stages |-> stages,
   alpha |-> "pruned", depth |-> 0, allpaths |-> FALSE]    \* request alphabet (MCAt) and own exploration depth (0: the run's ShallowLen)
NoV == AllK(AbsentO)

SrcGood == PS("srcGood", <<"ip_a3", "net_n1">>)      \* allows a1, a2, a3
SrcBad == PS("srcBad", <<"ip_a3", "net_m1">>)        \* does not allow a1
SrcEmpty == PS("srcEmpty", <<"empty">>)              \* empty option value: denies everybody
SrcMalf == PS("srcMalf", <<"bad", "ip_a1">>)         \* unparsable entry before the match: denies

\* ---------------------------------------------------------------- configurations
\* K1: one stage with all three methods; outcomes differ per user and per key; no VerifiedPublicKeyCallback.
PkK1 == [u \in Users |-> [k \in Keys |->
   IF u = "u1" THEN CASE k = "ed1" -> Accept(SrcGood) [] k = "ed2" -> Reject [] k = "rsa1" -> Accept(P("pk-rsa1"))
                      [] k = "ec1" -> Accept(SrcBad) [] k = "edcert1" -> Accept(NilPerms) [] k = "rsacert1" -> Accept(P("pk-rsacert1"))
   ELSE CASE k = "ed1" -> Reject [] k = "ed2" -> Accept(P("pk-u2-ed2")) [] k = "rsa1" -> RejectP(P("ignored"))
          [] k = "ec1" -> Banner("pk-banner") [] OTHER -> Reject]]
K1 == Cfg("a1", FALSE, FALSE, AbsentO, 3, FALSE, NoV, "absent", DefaultPKAA, TRUE,
       << Stage(TRUE, U2(Accept(P("pw-u1")), Reject), TRUE, U2(Accept(P("kbd-u1")), Banner("kbd-banner")), TRUE, PkK1) >>)

\* K2: NoClientAuth without callback; partial-success chains 1 -> 2 -> 3 (3 has no methods); MaxAuthTries 2.
PkK2a == [u \in Users |-> [k \in Keys |-> IF k = "ed1" THEN Partial(2) ELSE IF k = "rsa1" THEN PartialP(2, P("bad-partial"))
                                          ELSE IF k = "ec1" THEN PartialP(2, SrcBad) ELSE Reject]]
PkK2b == [u \in Users |-> [k \in Keys |-> IF k = "ed2" THEN Accept(P("pk2-ed2")) ELSE IF k = "ed1" /\ u = "u1" THEN Accept(SrcGood) ELSE Reject]]
K2 == Cfg("a1", TRUE, FALSE, AbsentO, 2, FALSE, NoV, "absent", DefaultPKAA, TRUE,
       << Stage(TRUE, U2(Partial(2), Reject), FALSE, AllU(AbsentO), TRUE, PkK2a),
          Stage(FALSE, AllU(AbsentO), TRUE, U2(Partial(3), Accept(P("kbd2-u2"))), TRUE, PkK2b),
          NoStageCb >>)
\* K2n: same stages, NoClientAuth off, so that none is a failure and the chains are reachable from a none start.
K2n == [K2 EXCEPT !.noClientAuth = FALSE, !.maxTries = 3]

\* K3: VerifiedPublicKeyCallback with every outcome; NoClientAuthCallback rejecting; unlimited tries; banner text.
PkK3 == [u \in Users |-> [k \in Keys |->
   CASE k = "ed1" -> Accept(P("pk3-ed1")) [] k = "ed2" -> Accept(NilPerms) [] k = "rsa1" -> Accept(SrcGood)
     [] k = "ec1" -> Accept(SrcBad) [] k = "edcert1" -> IF u = "u1" THEN Accept(P("pk3-cert")) ELSE Reject
     [] k = "rsacert1" -> Accept(P("pk3-rsacert"))]]
VK3 == [k \in Keys |->
   CASE k = "ed1" -> Accept(P("v-ed1")) [] k = "ed2" -> AcceptSame [] k = "rsa1" -> AcceptSame
     [] k = "ec1" -> Accept(P("v-ec1")) [] k = "edcert1" -> Partial(2) [] k = "rsacert1" -> Accept(SrcBad)]
K3 == Cfg("a1", TRUE, TRUE, Reject, -1, TRUE, VK3, "text", DefaultPKAA, TRUE,
       << PkOnly(PkK3), PwOnly(U2(Accept(P("pw3-u1")), Accept(SrcBad))) >>)

\* K4: library misuse and rejecting VerifiedPublicKeyCallback; MaxAuthTries 1; NoClientAuthCallback partial.
PkK4 == [u \in Users |-> [k \in Keys |-> IF k = "ed1" THEN Partial(2) ELSE Accept(P("pk4"))]]
VK4 == [k \in Keys |-> CASE k = "ed2" -> Reject [] k = "rsa1" -> PartialP(2, P("v-bad-partial")) [] k = "ec1" -> Banner("v-banner")
                          [] OTHER -> Accept(P("v4"))]
K4 == Cfg("a2", TRUE, TRUE, Partial(2), 1, TRUE, VK4, "empty", DefaultPKAA, TRUE,
       << Stage(TRUE, U2(PartialP(2, P("pw-bad-partial")), Accept(SrcMalf)), FALSE, AllU(AbsentO), TRUE, PkK4),
          Stage(TRUE, AllU(Accept(P("pw4-2"))), FALSE, AllU(AbsentO), TRUE, AllUK(Accept(P("pk4-2")))) >>)

\* K5: restricted PublicKeyAuthAlgorithms; MaxAuthTries 0 (i.e. 6); every key accepted.
K5 == Cfg("a1", FALSE, FALSE, AbsentO, 0, FALSE, NoV, "absent", {R256, ED}, FALSE,
       << PkOnly(AllUK(Accept(P("pk5")))) >>)
\* K5b: only rsa-sha2-512 and ssh-rsa (insecure list) accepted.
K5b == Cfg("a1", FALSE, FALSE, AbsentO, 2, TRUE, AllK(AcceptSame), "absent", {R512, RSA}, FALSE,
       << PkOnly(AllUK(Accept(P("pk5b")))) >>)

\* K6: NoClientAuthCallback accepting with Permissions the source-address check refuses / admits.
K6 == Cfg("a3", TRUE, TRUE, Accept(SrcBad), 2, FALSE, NoV, "absent", DefaultPKAA, TRUE,
       << Stage(TRUE, U2(Banner("pw-banner"), Accept(SrcEmpty)), TRUE, AllU(Accept(SrcBad)), TRUE,
                AllUK(Accept(PS("only-a1", <<"ip_a1">>)))) >>)
K6b == [K6 EXCEPT !.noneCb = Accept(P("none-perms")), !.remote = "a1"]

\* K7: non-TCP and nil remote address: every Permissions with a source-address option is refused.
K7 == [K1 EXCEPT !.remote = "unix", !.maxTries = -1]
K7b == [K3 EXCEPT !.remote = "none"]
\* K8: IPv6 remote.
K8 == [K1 EXCEPT !.remote = "b1", !.banner = "text"]

\* path-by-path variants over a core alphabet
AP(c) == [c EXCEPT !.alpha = "core", !.depth = 3, !.allpaths = TRUE]
AllNames == {"K1", "K2", "K2n", "K3", "K4", "K5", "K5b", "K6", "K6b", "K7", "K7b", "K8", "K1ap", "K2ap", "K3ap", "K4ap", "K6bap"}
TableAll == [n \in AllNames |->
   CASE n = "K1" -> K1 [] n = "K2" -> K2 [] n = "K2n" -> K2n [] n = "K3" -> K3 [] n = "K4" -> K4 [] n = "K5" -> K5 [] n = "K5b" -> K5b
     [] n = "K6" -> K6 [] n = "K6b" -> K6b [] n = "K7" -> K7 [] n = "K7b" -> K7b [] n = "K8" -> K8
     [] n = "K1ap" -> AP(K1) [] n = "K2ap" -> AP(K2n) [] n = "K3ap" -> AP(K3) [] n = "K4ap" -> AP(K4) [] n = "K6bap" -> AP(K6b)]

\* ---------------------------------------------------------------- request alphabets
NaturalAlgo(k) == CASE k = "rsa1" -> R256 [] k = "rsacert1" -> R256C [] k = "junk" -> ED [] OTHER -> KeyType(k)
NaturalFmt(k) == Underlying(NaturalAlgo(k))
SigKinds == {"valid", "wrongSession", "otherUser", "otherAlgo", "otherKey", "garbage", "malformed", "trailing"}
AlgoNames == {ED, RSA, R256, R512, EC, EDC, RSAC, R256C, R512C, BOGUS}
FmtNames == {ED, RSA, R256, R512, EC, R256C, BOGUS}

Simple(u) == { Req("none", u, "-", "-", "-", "-", "-"),
               Req("unknown", u, "-", "-", "-", "-", "-"), Req("gssapi", u, "-", "-", "-", "-", "-"),
               Req("wrongService", u, "-", "-", "-", "-", "-"), Req("eof", u, "-", "-", "-", "-", "-"),
               Req("badpacket", u, "-", "-", "-", "-", "-") }
              \cup { Req("password", u, a, "-", "-", "-", "-") : a \in {"good", "bad", "malformed"} }
              \cup { Req("kbdint", u, a, "-", "-", "-", "-") : a \in {"good", "bad", "badresp"} }
Query(u, k, algo, arg) == Req("pkquery", u, arg, k, algo, "-", "-")
Sign(u, k, algo, fmt, sig) == Req("pksign", u, "-", k, algo, fmt, sig)

\* one dimension varied at a time from the natural, valid request for each key
PkPruned(u, KS) ==
       { Query(u, k, NaturalAlgo(k), "plain") : k \in KS \cup {"junk"} }
  \cup { Query(u, k, NaturalAlgo(k), "trailing") : k \in {"ed1"} }
  \cup { Query(u, "ed1", a, "plain") : a \in {EDC, BOGUS, R256} }
  \cup { Query(u, "rsa1", a, "plain") : a \in {RSA, R512, RSAC} }
  \cup { Sign(u, k, NaturalAlgo(k), NaturalFmt(k), "valid") : k \in KS \cup {"junk"} }
  \cup { Sign(u, k, NaturalAlgo(k), NaturalFmt(k), s) : k \in {"ed1", "rsa1"} \cap KS, s \in SigKinds }
  \cup { Sign(u, "rsa1", a, f, "valid") : a \in {RSA, R256, R512, RSAC, ED}, f \in {RSA, R256, R512} }
  \cup { Sign(u, "rsa1", R256, f, "valid") : f \in {ED, R256C, BOGUS} }
  \cup { Sign(u, "rsacert1", a, f, "valid") : a \in {RSAC, R256C, R512C, R256}, f \in {R256, R512, R256C} }
  \cup { Sign(u, "ed1", a, f, "valid") : a \in {ED, EDC, BOGUS}, f \in {ED, EDC, R256, BOGUS} }
  \cup { Sign(u, "edcert1", a, f, "valid") : a \in {EDC, ED}, f \in {ED, EDC} }
  \cup { Sign(u, "ec1", EC, EC, s) : s \in {"valid", "garbage"} }

ReqPrunedRaw == Simple("u1") \cup PkPruned("u1", Keys)
             \cup { Req("none", "u2", "-", "-", "-", "-", "-"), Req("password", "u2", "good", "-", "-", "-", "-"),
                    Req("kbdint", "u2", "good", "-", "-", "-", "-") }
             \cup { Query("u2", k, NaturalAlgo(k), "plain") : k \in {"ed1", "ed2", "rsa1", "ec1"} }
             \cup { Sign("u2", k, NaturalAlgo(k), NaturalFmt(k), s) : k \in {"ed1", "ed2", "rsa1", "ec1"}, s \in {"valid", "otherUser"} }
ReqPruned == TLCEval(ReqPrunedRaw)
\* core alphabet for path-by-path exploration
ReqCore == { Req("none", "u1", "-", "-", "-", "-", "-"), Req("password", "u1", "good", "-", "-", "-", "-"),
             Req("password", "u1", "bad", "-", "-", "-", "-"), Req("kbdint", "u1", "good", "-", "-", "-", "-"),
             Query("u1", "ed1", ED, "plain"), Query("u1", "rsa1", R256, "plain"), Query("u2", "ed1", ED, "plain"),
             Sign("u1", "ed1", ED, ED, "valid"), Sign("u1", "rsa1", R256, R256, "valid"), Sign("u1", "ed2", ED, ED, "valid"),
             Sign("u1", "ed1", ED, ED, "garbage"), Sign("u2", "ed1", ED, ED, "valid"), Sign("u1", "ec1", EC, EC, "valid"),
             Sign("u1", "edcert1", EDC, ED, "valid") }

\* limits alphabets (C33): requests that keep the loop running, so that only the counters (and a user change) end a behaviour
ReqLimits == { Req("none", u, "-", "-", "-", "-", "-") : u \in Users }
             \cup { Req("password", "u1", a, "-", "-", "-", "-") : a \in {"good", "bad"} }
             \cup { Req("password", "u2", "good", "-", "-", "-", "-"), Req("unknown", "u1", "-", "-", "-", "-", "-"),
                    Req("kbdint", "u1", "good", "-", "-", "-", "-"), Req("kbdint", "u1", "bad", "-", "-", "-", "-") }
             \cup { Query("u1", k, NaturalAlgo(k), "plain") : k \in {"ed1", "ed2", "rsa1"} }
             \cup { Sign("u1", "ed1", ED, ED, "valid"), Sign("u1", "rsa1", R256, ED, "valid"), Sign("u1", "ed2", ED, ED, "valid"),
                    Sign("u1", "rsa1", R256, R256, "valid") }
ReqLimitsCore == { Req("none", "u1", "-", "-", "-", "-", "-"), Req("none", "u2", "-", "-", "-", "-", "-"),
                   Req("password", "u1", "good", "-", "-", "-", "-"), Req("password", "u1", "bad", "-", "-", "-", "-"),
                   Req("password", "u2", "good", "-", "-", "-", "-"), Req("kbdint", "u1", "bad", "-", "-", "-", "-"),
                   Query("u1", "ed1", ED, "plain"), Query("u1", "ed2", ED, "plain"), Sign("u1", "ed1", ED, ED, "valid"),
                   Sign("u1", "rsa1", R256, R256, "valid") }
\* long random walks (real constant 128): no user change ...
ReqLimitsU1 == { r \in ReqLimits : r.u = "u1" }
\* ... and walks that approach the 128-request cap without failures (PK_OK, partial success) and then mix
ReqNoFail == { Query("u1", "ed1", ED, "plain"), Req("password", "u1", "good", "-", "-", "-", "-"), Sign("u1", "ed1", ED, ED, "valid") }
\* two keys of one user, all accepted: which key did PublicKeyCallback see last?
ReqTwoKeys == { Query("u1", "ed1", ED, "plain"), Query("u1", "rsa1", R256, "plain"), Query("u1", "ed2", ED, "plain"),
                Sign("u1", "ed1", ED, ED, "valid"), Sign("u1", "rsa1", R256, R256, "valid"), Sign("u1", "ed1", ED, ED, "garbage") }

\* limits configurations: every request of ReqLimits is a failure, a PK_OK or a partial success to the same
\* stage.  L<m> has MaxAuthTries m; the n-variants have NoClientAuth with a rejecting callback.
PkL == [u \in Users |-> [k \in Keys |-> IF k = "ed1" THEN Partial(1) ELSE IF k = "ed2" THEN Reject ELSE Accept(SrcBad)]]
LCfg(mt, nca, alpha, depth) ==
  [Cfg("a1", nca, nca, Reject, mt, FALSE, NoV, "absent", DefaultPKAA, TRUE,
       << Stage(TRUE, U2(Partial(1), Reject), TRUE, AllU(Banner("kbd-limit")), TRUE, PkL) >>) EXCEPT !.alpha = alpha, !.depth = depth]
LTable(names, alpha, depth) == [n \in names |->
   CASE n = "Lm1" -> LCfg(-1, FALSE, alpha, depth) [] n = "L0" -> LCfg(0, FALSE, alpha, depth) [] n = "L1" -> LCfg(1, FALSE, alpha, depth)
     [] n = "L2" -> LCfg(2, FALSE, alpha, depth) [] n = "L3" -> LCfg(3, FALSE, alpha, depth) [] n = "L6" -> LCfg(6, FALSE, alpha, depth)
     [] n = "Lm1n" -> LCfg(-1, TRUE, alpha, depth) [] n = "L2n" -> LCfg(2, TRUE, alpha, depth) [] n = "L6n" -> LCfg(6, TRUE, alpha, depth)]
LimitNames == {"Lm1", "L0", "L1", "L2", "L3", "L6", "Lm1n", "L2n", "L6n"}
LimitNamesCore == {"Lm1", "L0", "L1", "L2", "L6"}
TwoKeys == [Cfg("a1", FALSE, FALSE, AbsentO, 2, FALSE, NoV, "absent", DefaultPKAA, TRUE, << PkOnly(AllUK(Accept(P("two-keys")))) >>)
            EXCEPT !.alpha = "twokeys", !.depth = 3, !.allpaths = TRUE]
TableLimits == LTable(LimitNames, "limits", 8) @@ [n \in {"TwoKeys"} |-> TwoKeys]
TableLimitsCore == LTable(LimitNamesCore, "limitsCore", 7) @@ [n \in {"TwoKeys"} |-> TwoKeys]
\* random-walk configurations: the same, walked with the "long" and the "cap" alphabets
WalkNames == {n \o "/long" : n \in LimitNames} \cup {n \o "/cap" : n \in LimitNames}
TableWalk == [w \in WalkNames |->
   LET n == CHOOSE x \in LimitNames : w \in {x \o "/long", x \o "/cap"}
   IN LTable({n}, IF w = n \o "/long" THEN "long" ELSE "cap", 140)[n]]

\* ---------------------------------------------------------------- source-address configurations (C33)
\* One configuration per (remote address, source-address list): every callback of user u1 succeeds with
\* Permissions carrying that list; with VerifiedPublicKeyCallback ("v") the list is on PublicKeyCallback's
\* Permissions and the verified callback replaces them by unrestricted ones.
Remotes == {"a1", "a2", "a3", "b1", "unix", "none"}
SrcEntriesSmall == {"ip_a1", "ip_a3", "net_n1", "net_m1", "bad", "empty"}
SrcEntriesAll == {"ip_a1", "ip_a2", "ip_a3", "ip_b1", "net_n1", "net_n2", "net_m1", "bad", "empty"}
RECURSIVE SeqsUpTo(_, _)
SeqsUpTo(S, n) == IF n = 0 THEN {<<>>} ELSE LET L == SeqsUpTo(S, n - 1) IN L \cup {Append(l, e) : l \in L, e \in S}
SrcListsSmall == SeqsUpTo(SrcEntriesSmall, 2) \ {<<>>}
SrcCfg(remote, list, v) ==
  LET p == PS("src", list) IN
  [Cfg(remote, TRUE, TRUE, Accept(p), 6, v,
       IF v THEN [k \in Keys |-> IF k = "rsa1" THEN AcceptSame ELSE Accept(P("v-unrestricted"))] ELSE NoV, "absent", DefaultPKAA, TRUE,
      << Stage(TRUE, U2(Accept(p), Partial(2)), TRUE, U2(Accept(p), Reject), TRUE,
               [u \in Users |-> AllK(IF u = "u1" THEN Accept(p) ELSE IF v THEN Accept(p) ELSE Partial(2))]),
         PkOnly([u \in Users |-> AllK(Accept(p))]) >>) EXCEPT !.alpha = "src", !.depth = 2]
RECURSIVE JoinS(_)
JoinS(l) == IF l = <<>> THEN "" ELSE IF Len(l) = 1 THEN l[1] ELSE l[1] \o "," \o JoinS(Tail(l))
SrcName(r, l, v) == "S/" \o r \o "/" \o JoinS(l) \o (IF v THEN "/v" ELSE "")
SrcConfigs(lists, vs) == { [name |-> SrcName(r, l, v)] @@ SrcCfg(r, l, v) : r \in Remotes, l \in lists, v \in vs }
ConfigsSrcSmall == SrcConfigs(SrcListsSmall, {TRUE})
ReqSrc == { Req("none", "u1", "-", "-", "-", "-", "-"), Req("password", "u1", "good", "-", "-", "-", "-"),
            Req("kbdint", "u1", "good", "-", "-", "-", "-"),
            Query("u1", "ed1", ED, "plain"), Sign("u1", "ed1", ED, ED, "valid"), Sign("u1", "rsa1", R512, R512, "valid"),
            Req("password", "u2", "good", "-", "-", "-", "-"), Sign("u2", "ed1", ED, ED, "valid"), Query("u2", "ed2", ED, "plain") }
ReqSrc2 == { Sign("u1", "ed1", ED, ED, "valid"), Sign("u2", "ed1", ED, ED, "valid"), Req("password", "u1", "good", "-", "-", "-", "-") }

\* ---------------------------------------------------------------- alphabets by name, merged tables
MCAt(a, i) ==
  CASE a = "pruned" -> ReqPruned
    [] a = "core" -> ReqCore
    [] a = "limits" -> ReqLimits
    [] a = "limitsCore" -> ReqLimitsCore
    [] a = "long" -> ReqLimitsU1
    [] a = "cap" -> IF i < 119 THEN ReqNoFail ELSE ReqLimitsU1
    [] a = "twokeys" -> ReqTwoKeys
    [] a = "src" -> IF i = 0 THEN ReqSrc ELSE ReqSrc2
\* configuration sets: general configurations restricted to the names in General; the merged set of check C33 (quick)
CfgsOf(T) == { [name |-> n] @@ T[n] : n \in DOMAIN T }
ConfigsGeneral == { [name |-> n] @@ TableAll[n] : n \in General }
ConfigsLimits == CfgsOf(TableLimits)
ConfigsLimitsCore == CfgsOf(TableLimitsCore)
ConfigsWalk == CfgsOf(TableWalk)
ConfigsC33Quick == ConfigsLimitsCore \cup ConfigsSrcSmall \cup ConfigsGeneral
=============================================================================
