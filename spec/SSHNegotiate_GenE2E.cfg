SPECIFICATION Spec
CONSTANTS
  Menu <- MenuE2E
  AEAD <- MCAEAD
INVARIANTS EmitE2E
CHECK_DEADLOCK FALSE
