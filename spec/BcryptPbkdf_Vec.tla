--------------------------- MODULE BcryptPbkdf_Vec ---------------------------
(***************************************************************************)
(* BcryptPbkdf (C19) part C with executable primitives at toy scale:        *)
(* Hash = 8-byte ToyHash (PrimToy), BHash = bcrypt_hash over a Blowfish     *)
(* with 4 rounds, 4-entry S-boxes, 2 expansion pairs, 2 magic encryptions   *)
(* (PrimBlowfish at scale ScToy); block size 32 as in reality.  TLC checks  *)
(* GoKey = KeySpec on every case and emits the vectors that validate the    *)
(* Go transcription harness/c19ref.  One dummy state per case (the variable *)
(* klen carries the case index) so that TLC workers share the evaluation.   *)
(***************************************************************************)
EXTENDS BcryptPbkdf, PrimBlowfish, PrimToy, TLC, Json

ScToy == [nr |-> 4, sb |-> 4, cost |-> 2, mag |-> 2]
MCHash(m) == ToyHash(8, m)
MCBHash(p, s) == BcryptHash(ScToy, p, s)

\* ---------------------------------------------------------------- dummy states for the table / vector runs
Dummy(tag, idSet) == /\ impl = tag /\ bs = 0 /\ klen \in idSet /\ count = 0 /\ remaining = 0 /\ amt = 0
                     /\ key = <<>> /\ pc = "case" /\ bad = {}
Stutter == UNCHANGED lvars

\* ---------------------------------------------------------------- Vec
\* <<passLen, saltLen, rounds, keyLen, pattern seed>>: password = Pat(seed, passLen), salt = Pat(seed + 1, saltLen)
VecQuick == <<
  <<1, 1, 1, 1, 2>>,     <<8, 16, 1, 31, 3>>,   <<8, 16, 1, 32, 4>>,   <<8, 16, 1, 33, 5>>,   <<8, 16, 2, 48, 6>>,
  <<73, 17, 1, 63, 7>>,  <<5, 4, 1, 64, 8>>,    <<5, 4, 2, 65, 9>>,    <<9, 16, 3, 48, 10>>,  <<9, 16, 4, 33, 11>>,
  <<3, 64, 1, 96, 12>>,  <<3, 65, 1, 97, 13>>,  <<16, 16, 3, 100, 14>>, <<8, 8, 5, 40, 16>>
>>
VecThorough == VecQuick \o <<
  <<2, 3, 1, 129, 15>>,   <<4, 16, 1, 160, 0>>,   <<4, 16, 1, 161, 1>>,  <<1, 16, 2, 128, 17>>,
  <<8, 16, 1, 1024, 20>>, <<8, 16, 1, 1023, 21>>, <<8, 16, 1, 993, 22>>, <<8, 16, 1, 992, 23>>, <<8, 16, 2, 991, 24>>,
  <<100, 1, 1, 513, 25>>, <<1, 100, 1, 512, 26>>, <<7, 16, 1, 511, 27>>, <<7, 16, 3, 257, 28>>, <<7, 16, 2, 256, 29>>,
  <<7, 16, 1, 255, 30>>,  <<12, 16, 8, 44, 31>>,  <<12, 16, 16, 48, 32>>, <<12, 16, 7, 64, 33>>, <<6, 32, 1, 200, 34>>,
  <<6, 33, 2, 199, 35>>,  <<6, 31, 3, 193, 36>>,  <<6, 16, 1, 192, 37>>,  <<6, 16, 1, 191, 38>>, <<80, 16, 1, 2, 39>>,
  <<72, 16, 1, 3, 40>>,   <<73, 16, 1, 30, 41>>,  <<10, 16, 1, 34, 42>>,  <<10, 16, 1, 62, 43>>, <<10, 16, 1, 66, 44>>,
  <<10, 16, 1, 94, 45>>,  <<10, 16, 1, 95, 46>>,  <<10, 16, 1, 98, 47>>,   <<10, 16, 1, 127, 48>>, <<10, 16, 4, 130, 49>>
>>
CONSTANT VecCases
\* (initial states are evaluated by one thread: the case is activated by a step, so that the workers share them)
VecInit == Dummy("pick", 1..Len(VecCases))
VecGo == impl = "pick" /\ impl' = "vec" /\ UNCHANGED <<bs, klen, count, remaining, amt, key, pc, bad>>
VecPass(c) == Pat(c[5], c[1])
VecSalt(c) == Pat(c[5] + 1, c[2])
\* the transcription of the Go statements computes the declared key; the vector is emitted
VecHold == impl = "vec" =>
  LET c == VecCases[klen]
      spec == KeySpec(VecPass(c), VecSalt(c), c[3], c[4])
  IN /\ Len(spec) = c[4]
     /\ GoKey(VecPass(c), VecSalt(c), c[3], c[4]) = spec
     /\ PrintT("TRACE " \o ToJson([k |-> "toykey", pass |-> VecPass(c), salt |-> VecSalt(c), rounds |-> c[3], keyLen |-> c[4], key |-> spec]))
\* anchors of the toy-scale primitives themselves (validated in the Go twin as well)
VecPrimEmit == impl = "vec" /\ klen = 1 =>
  /\ PrintT("TRACE " \o ToJson([k |-> "toyhash", m |-> Pat(5, 37), out |-> MCHash(Pat(5, 37))]))
  /\ PrintT("TRACE " \o ToJson([k |-> "toybhash", pass |-> Pat(6, 8), salt |-> Pat(7, 8), out |-> MCBHash(Pat(6, 8), Pat(7, 8))]))
=============================================================================
