--------------------------- MODULE AcmeOrder_Trace ---------------------------
(* Binding T for X02: validates the event log recorded by the stateful fake CA (harness/x02)
   while the REAL acme.Client ran seeded random sessions of public calls against seeded random
   server evolutions, against AcmeOrder.

   Logged events: cfg (initial server state), call, env (a status change of one resource),
   req (wire kind of the signed request, virtual milliseconds since the previous request of the
   call), reply (shape, status shown, server choice, serial, Retry-After, alternates), cancel
   (the caller's context is cancelled while the call sleeps), backoff (RetryBackoff consulted),
   ret (class / status / serial / count of the value or error the caller got).
   Timer and BackoffWake are silent steps.  Every environment step must be one the model allows
   (so the Go fake CA is itself checked against the RFC 8555 state machine of the specification),
   every request must be the one the model's client sends at that point after exactly the
   modelled sleep, every result must be the one the model derives; P1..P9 are checked as
   invariants on the states the recorded execution drives the model through. *)
EXTENDS AcmeOrder_MC, TraceLib

TraceInit == InitWith("pending", "pending", "pending") /\ l = 1 /\ HWMInit

TReset == /\ IsEvent("reset")
          /\ ord' = "pending" /\ az' = "pending" /\ ch' = "pending" /\ acct' = "valid" /\ finSeen' = FALSE
          /\ nrep' = 0 /\ nenv' = 0
          /\ pc' = "idle" /\ op' = NoOp /\ cur' = "" /\ calls' = 0 /\ tries' = 0 /\ delay' = 0 /\ slept' = 0
          /\ mustWait' = FALSE /\ cancelled' = FALSE /\ obs' = NoObs /\ lastOrd' = "" /\ finReq' = 0 /\ finAcc' = 0
          /\ res' = NoRes /\ busy' = FALSE /\ late' = FALSE /\ early' = FALSE
          /\ ev' = E("init", "pending", "pending", "pending", 0, 0)

TCfg == /\ IsEvent("cfg") /\ pc = "idle" /\ calls = 0
        /\ ord' = Ev.ord /\ az' = Ev.az /\ ch' = Ev.ch
        /\ finSeen' = (Ev.ord \in {"processing", "valid"})
        /\ UNCHANGED <<acct, nrep, nenv, cvars, ev>>

TCall == IsEvent("call") /\ Ev.op \in OpSet /\ Call(Ev.op, Ev.bundle)

TEnv == /\ IsEvent("env")
        /\ EnvStep
        /\ ord' = Ev.ord /\ az' = Ev.az /\ ch' = Ev.ch

Wire(k) == IF k = "alts" THEN "cert" ELSE k
TReq == /\ IsEvent("req")
        /\ pc = "req" /\ Wire(cur) = Ev.k /\ slept * 1000 = Ev.gap
        /\ Send

TReply == /\ IsEvent("reply") /\ pc = "wait"
          /\ \E fx \in FxDom(Ev.sh), cb \in CbDom(Ev.sh), na \in NaDom(Ev.sh) :
               /\ (cur = "cert" /\ Ev.sh \in TwoXX) => cb = Ev.x
               /\ fx # "" => fx = Ev.x
               /\ (cur = "alts" /\ Ev.sh \in TwoXX) => na = Ev.na
               /\ Reply(Ev.sh, fx, cb, na)
          /\ nrep' = Ev.s /\ obs'.st = Ev.st
          /\ pc' = "sleep" => ev'.m = Ev.ra

TCancel == IsEvent("cancel") /\ obs.s = Ev.s /\ CancelWait

TBackoff == IsEvent("backoff") /\ tries = Ev.n /\ Backoff(Ev.how)

ClassEq(a, b) == a = b \/ {a, b} \subseteq {"neterr", "other"}
TRet == /\ IsEvent("ret")
        /\ pc = "done"
        /\ ClassEq(res.c, Ev.c)
        /\ (res.c \in {"ok", "ordererr", "authzerr"} /\ Ev.st # "") => res.st = Ev.st
        /\ Ev.s >= 0 => res.s = Ev.s
        /\ res.c = "ok" => res.n = Ev.n
        /\ Return

TSilent == (Timer \/ BackoffWake) /\ l' = l

TraceNext == TReset \/ TCfg \/ TCall \/ TEnv \/ TReq \/ TReply \/ TCancel \/ TBackoff \/ TRet \/ TSilent
TraceSpec == TraceInit /\ [][TraceNext]_<<vars, l>>
=============================================================================
