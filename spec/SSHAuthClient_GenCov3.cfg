SPECIFICATION GenSpec
CONSTANTS
  Configs <- AllConfigs
  Servers <- GridServers
  SrvNames <- SrvScript
  GridCfgNames <- NoNames
  CfgNames <- NamesThorough
  Pre <- PreQuick4
  Items <- ItemsAll
  MaxScript = 3
  LongNames <- NamesLong
  LongPre <- PreLong
  LongItems <- ItemsLong
  LongMax = 70
  FocusNames <- NamesFocus
  FocusPre <- PreFocus
  FocusItems <- ItemsFocus
  FocusMax = 5
  FocusDeepNames <- NamesFocusRetry
  FocusDeepMax = 6
  FocusDeepItems <- ItemsFocusDeep
  FixO1 = TRUE
  FixRetry = TRUE
  FixRetryList = TRUE
  MaxTried = 64
INVARIANTS Q1 Q1b Q1r Q2 Q3 Q4 Q5 PickIsDoc ViewsAgree GridOK EmitCase EmitGrid
VIEW GenView
CHECK_DEADLOCK FALSE
