------------------------------ MODULE ClearSign ------------------------------
(***************************************************************************)
(* OpenPGP cleartext signatures (RFC 4880 section 7) as implemented by     *)
(* /repo/openpgp/clearsign/clearsign.go (dashEscaper.Write/Close = the     *)
(* writer returned by Encode; Decode) and /repo/openpgp/canonical_text.go  *)
(* (the hash wrapper CheckDetachedSignature uses for text signatures).     *)
(*                                                              [C46]      *)
(*                                                                         *)
(* One action per public call: WriteByte(b) (dashEscaper.Write is a loop   *)
(* over single bytes, so how the caller cuts the text into Write calls     *)
(* cannot matter), Close (terminates the last line, the armored signature  *)
(* follows), after which Decode is applied to what was written.            *)
(*   out    -- bytes written between the "Hash:" header block and the       *)
(*             "-----BEGIN PGP SIGNATURE-----" line (dash-escaped text)    *)
(*   hashed -- bytes fed to the signature hash (what is signed)            *)
(*   dPlain, dBytes -- Block.Plaintext / Block.Bytes returned by Decode    *)
(* Bytes are integers, texts sequences of bytes.                           *)
(***************************************************************************)
EXTENDS Integers, Sequences, FiniteSets, TLC

CONSTANTS Alphabet,     \* bytes the plaintext is made of
          MaxLen        \* plaintexts up to this length

VARIABLES txt,          \* plaintext written so far (history)
          bol,          \* atBeginningOfLine
          first,        \* isFirstLine
          ws,           \* buffered whitespace (d.whitespace)
          out, hashed,
          phase,        \* "writing" | "closed"
          dPlain, dBytes, dOk
vars == <<txt, bol, first, ws, out, hashed, phase, dPlain, dBytes, dOk>>

LF == 10
CR == 13
SP == 32
TAB == 9
DASH == 45
CRLF == <<13, 10>>
EndText == <<45, 45, 45, 45, 45, 66, 69, 71, 73, 78, 32, 80, 71, 80, 32, 83, 73, 71, 78, 65, 84, 85, 82, 69, 45, 45, 45, 45, 45>>
           \* "-----BEGIN PGP SIGNATURE-----"
IsWS(b) == b \in {SP, TAB, CR}          \* what dashEscaper buffers as "whitespace"

-----------------------------------------------------------------------------
(* the writer, transcribed branch by branch *)
Init == /\ txt = <<>> /\ bol = TRUE /\ first = TRUE /\ ws = <<>> /\ out = <<>> /\ hashed = <<>>
        /\ phase = "writing" /\ dPlain = <<>> /\ dBytes = <<>> /\ dOk = FALSE

WriteByte(b) ==
  /\ phase = "writing" /\ Len(txt) < MaxLen
  /\ txt' = Append(txt, b)
  /\ LET h0 == IF bol /\ ~first THEN hashed \o CRLF ELSE hashed       \* the CRLF of the previous line, delayed
         first1 == IF bol THEN FALSE ELSE first
     IN /\ first' = first1
        /\ IF IsWS(b)
           THEN /\ ws' = Append(ws, b) /\ bol' = FALSE /\ hashed' = h0 /\ out' = out
           ELSE IF bol
                THEN IF b = DASH
                     THEN /\ out' = out \o <<DASH, SP, DASH>> /\ hashed' = Append(h0, b) /\ bol' = FALSE /\ ws' = ws
                     ELSE IF b = LF
                          THEN /\ out' = Append(out, LF) /\ hashed' = h0 /\ bol' = TRUE /\ ws' = ws
                          ELSE /\ out' = Append(out, b) /\ hashed' = Append(h0, b) /\ bol' = FALSE /\ ws' = ws
                ELSE IF b = LF
                     THEN /\ ws' = <<>> /\ out' = Append(out, LF) /\ hashed' = h0 /\ bol' = TRUE      \* trailing whitespace dropped
                     ELSE /\ ws' = <<>> /\ out' = out \o ws \o <<b>> /\ hashed' = h0 \o ws \o <<b>> /\ bol' = FALSE
  /\ UNCHANGED <<phase, dPlain, dBytes, dOk>>

-----------------------------------------------------------------------------
(* Decode, transcribed: getLine and the loop that collects Bytes/Plaintext until the EndText line *)
RECURSIVE IndexLF(_, _)
IndexLF(s, i) == IF i > Len(s) THEN 0 ELSE IF s[i] = LF THEN i ELSE IndexLF(s, i + 1)
GetLine(d) == LET i == IndexLF(d, 1) IN
  IF i = 0 THEN [line |-> d, rest |-> <<>>]
  ELSE [line |-> SubSeq(d, 1, IF i > 1 /\ d[i - 1] = CR THEN i - 2 ELSE i - 1), rest |-> SubSeq(d, i + 1, Len(d))]
RECURSIVE TrimRight(_)
TrimRight(s) == IF Len(s) > 0 /\ s[Len(s)] \in {SP, TAB} THEN TrimRight(SubSeq(s, 1, Len(s) - 1)) ELSE s
Unescape(l) == IF Len(l) >= 2 /\ l[1] = DASH /\ l[2] = SP THEN SubSeq(l, 3, Len(l)) ELSE l

RECURSIVE DecodeLoop(_, _, _, _)
DecodeLoop(rest, firstLine, bytes, plain) ==
  LET g == GetLine(rest) IN
  IF Len(g.line) = 0 /\ Len(g.rest) = 0 THEN [ok |-> FALSE, bytes |-> bytes, plain |-> plain]      \* no armored signature
  ELSE IF g.line = EndText THEN [ok |-> TRUE, bytes |-> bytes, plain |-> plain]
  ELSE LET l == TrimRight(Unescape(g.line))
       IN DecodeLoop(g.rest, FALSE, (IF firstLine THEN bytes ELSE bytes \o CRLF) \o l, plain \o l \o <<LF>>)
\* the text after the header block: escaped text, then the armored signature (its first line is all that matters here)
DecodeText(o) == DecodeLoop(o \o EndText \o <<LF, 88, LF>>, TRUE, <<>>, <<>>)

Close == /\ phase = "writing"
         /\ phase' = "closed"
         /\ out' = IF bol THEN out ELSE Append(out, LF)
         /\ LET d == DecodeText(out') IN dOk' = d.ok /\ dBytes' = d.bytes /\ dPlain' = d.plain
         /\ UNCHANGED <<txt, bol, first, ws, hashed>>

Next == (\E b \in Alphabet : WriteByte(b)) \/ Close
Spec == Init /\ [][Next]_vars

-----------------------------------------------------------------------------
(* canonical_text.go: LF -> CRLF unless the LF follows a CR (state s); applied by the verifier to Bytes *)
RECURSIVE CTHFrom(_, _, _)
CTHFrom(s, i, st) == IF i > Len(s) THEN <<>>
                     ELSE IF st = 1 THEN <<s[i]>> \o CTHFrom(s, i + 1, 0)
                     ELSE IF s[i] = CR THEN <<CR>> \o CTHFrom(s, i + 1, 1)
                     ELSE IF s[i] = LF THEN CRLF \o CTHFrom(s, i + 1, 0)
                     ELSE <<s[i]>> \o CTHFrom(s, i + 1, 0)
CTH(s) == CTHFrom(s, 1, 0)

-----------------------------------------------------------------------------
(* The declarative side: the canonical form of a text.
   Lines are the LF-terminated segments plus a non-empty unterminated last segment; from each line the
   trailing run of space / tab / CR is removed (this makes CRLF and LF line ends equivalent; it is also what
   GnuPG does: trailing " \t\r" is not part of a cleartext-signed line). *)
RECURSIVE SplitLF(_, _, _)
SplitLF(s, i, start) == IF i > Len(s) THEN (IF start <= Len(s) THEN <<SubSeq(s, start, Len(s))>> ELSE <<>>)
                        ELSE IF s[i] = LF THEN <<SubSeq(s, start, i - 1)>> \o SplitLF(s, i + 1, i + 1)
                        ELSE SplitLF(s, i + 1, start)
RECURSIVE StripWS(_)
StripWS(l) == IF Len(l) > 0 /\ IsWS(l[Len(l)]) THEN StripWS(SubSeq(l, 1, Len(l) - 1)) ELSE l
CanonLines(s) == LET ls == SplitLF(s, 1, 1) IN [i \in 1..Len(ls) |-> StripWS(ls[i])]
RECURSIVE JoinWith(_, _)
JoinWith(ls, sep) == IF Len(ls) = 0 THEN <<>> ELSE IF Len(ls) = 1 THEN ls[1] ELSE ls[1] \o sep \o JoinWith(Tail(ls), sep)
RECURSIVE EachLF(_)
EachLF(ls) == IF Len(ls) = 0 THEN <<>> ELSE ls[1] \o <<LF>> \o EachLF(Tail(ls))
CanonPlain(s) == EachLF(CanonLines(s))              \* Block.Plaintext: every line LF-terminated
CanonSigned(s) == JoinWith(CanonLines(s), CRLF)     \* Block.Bytes / the signed bytes: CRLF between lines, none at the end

\* RFC 4880 section 7.1 taken literally: line ends are CRLF or LF, only space and tab are trailing whitespace.
\* It coincides with the above when every CR is part of a CRLF pair ("no bare CR").
RECURSIVE StripSpTab(_)
StripSpTab(l) == IF Len(l) > 0 /\ l[Len(l)] \in {SP, TAB} THEN StripSpTab(SubSeq(l, 1, Len(l) - 1)) ELSE l
DropOneCR(l) == IF Len(l) > 0 /\ l[Len(l)] = CR THEN SubSeq(l, 1, Len(l) - 1) ELSE l
RFCLines(s) == LET n == Len(s)
                   ls == SplitLF(s, 1, 1)
                   term(i) == i < Len(ls) \/ (n > 0 /\ s[n] = LF)         \* line i was LF-terminated
               IN [i \in 1..Len(ls) |-> StripSpTab(IF term(i) THEN DropOneCR(ls[i]) ELSE ls[i])]
NoBareCR(s) == \A i \in 1..Len(s) : s[i] = CR => (i < Len(s) /\ s[i + 1] = LF)

-----------------------------------------------------------------------------
(* properties, on the closed writer *)
Closed == phase = "closed"
\* Decode finds the message, returns the canonical plaintext (dash-escaping undone) and the canonical signed bytes
DecodeIsCanon == Closed => dOk /\ dPlain = CanonPlain(txt) /\ dBytes = CanonSigned(txt)
\* the signature verifies: the verifier hashes CTH(Bytes), the signer hashed `hashed`
SigVerifies == Closed => CTH(dBytes) = hashed /\ hashed = CanonSigned(txt)
\* no line of the escaped text can be taken for the start of the signature (or of anything armored)
EscapeSafe == Closed => LET ls == SplitLF(out, 1, 1) IN
                /\ \A i \in 1..Len(ls) : (Len(ls[i]) > 0 /\ ls[i][1] = DASH) => (Len(ls[i]) >= 2 /\ ls[i][2] = SP)
                /\ Len(ls) = Len(CanonLines(txt))
                /\ (Len(out) > 0 => out[Len(out)] = LF)
\* canonicalisation is idempotent, and a canonical text survives unchanged
Idempotent == Closed => CanonPlain(dPlain) = dPlain /\ CanonSigned(dPlain) = dBytes
\* agreement with the literal RFC reading wherever there is no bare CR
RFCAgrees == (Closed /\ NoBareCR(txt)) => CanonLines(txt) = RFCLines(txt)
\* writer state is what the text says (refinement mapping of the writer's bookkeeping)
WriterState == phase = "writing" =>
                 /\ bol = (Len(txt) = 0 \/ txt[Len(txt)] = LF)
                 /\ first = (Len(txt) = 0)
                 /\ \A i \in 1..Len(ws) : IsWS(ws[i])
=============================================================================
