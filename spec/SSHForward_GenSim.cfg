SPECIFICATION GenSpec
CONSTANTS
  Listeners <- L_Two
  Targets <- T_Two
  TNet <- CTNet
  LAddr <- A_Two
  PreReg <- Reg_L1L2
  MaxOpens = 20
  Cap = 1
  MaxHist = 30
CHECK_DEADLOCK FALSE
INVARIANT Emit
