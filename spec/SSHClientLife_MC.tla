-------------------------- MODULE SSHClientLife_MC --------------------------
(* Bounded instances of SSHClientLife (growth check X04): exhaustive model checking and behaviour generation. *)
EXTENDS SSHClientLife, Json

AllCfgs == AllConfigNames
CfgEmpty == {"empty"}
CfgConn == {"conn", "two"}
CfgCore == {"empty", "conn", "pend"}
CfgRest == {"hreg", "two"}

\* what the end of the connection must look like: the calls that return then (all with errors), the handler channels closed
FinalInfo(s) == LET f == Final(s) IN
  [done |-> f.done, hc |-> HClosed(f), pending |-> {c \in 1 .. Len(f.calls) : f.calls[c].st # "done"}, was |-> s.dead]

\* generator "one test per model transition" (see SSHMux_MC): the view hides step observables, counters and ghosts, and
\* keeps of the calls only what matters for the future (who is blocked where)
B(x) == IF x = 0 THEN 0 ELSE 1
AbsView == [S EXCEPT !.last = Ev("", 0, "", 0), !.out = <<>>, !.done = {}, !.del = <<>>, !.alt = NoAlt, !.pre = NoPre,
                     !.np = 0, !.nl = 0, !.nrep = 0, !.dup = FALSE, !.late = FALSE,
                     !.calls = 0, !.gwait = B(S.gwait), !.waiters = IF S.waiters = {} THEN 0 ELSE 1,
                     !.obj = [o \in 1 .. NObj(S) |->
                                [S.obj[o] EXCEPT !.opener = B(@), !.reader = B(@), !.writer = B(@),
                                                 !.rbuf = Len(@), !.nrecv = 0, !.got = 0]]]
\* model checking: the same abstraction, but the event counters stay (so the bounds are explored exactly); the properties
\* are checked on every transition by ACTION_CONSTRAINT StepOK
MCView == [AbsView EXCEPT !.np = S.np, !.nl = S.nl]
Line(s, h) == PrintT("TRACE " \o ToJson([cfg |-> s.cfg, steps |-> h, final |-> FinalInfo(s)]))
GPeer == /\ ~S.dead /\ S.np < MaxPeer
         /\ \E e \in PeerEvents(S) : S' = PeerStep(S, e) /\ hist' = Append(hist, Obs(S')) /\ Line(S', hist')
GLocal == /\ S.nl < MaxLocal
          /\ \E e \in LocalEvents(S) : S' = LocalStep(S, e) /\ hist' = Append(hist, Obs(S')) /\ Line(S', hist')
GRace == /\ S.np < MaxPeer /\ S.nl < MaxLocal
         /\ \E e \in RaceEvents(S) : \E n \in Outcomes(S, e) : S' = n /\ hist' = Append(hist, Obs(S')) /\ Line(S', hist')
GenSpec == Init /\ [][GPeer \/ GLocal \/ GRace]_<<S, hist>>

\* the same steps keeping the history, without printing (simulation prints complete histories with EmitEnd)
HPeer == /\ ~S.dead /\ S.np < MaxPeer
         /\ \E e \in PeerEvents(S) : S' = PeerStep(S, e) /\ hist' = Append(hist, Obs(S'))
HLocal == /\ S.nl < MaxLocal
          /\ \E e \in LocalEvents(S) : S' = LocalStep(S, e) /\ hist' = Append(hist, Obs(S'))
HRace == /\ S.np < MaxPeer /\ S.nl < MaxLocal
         /\ \E e \in RaceEvents(S) : \E n \in Outcomes(S, e) : S' = n /\ hist' = Append(hist, Obs(S'))
HistSpec == Init /\ [][HPeer \/ HLocal \/ HRace]_<<S, hist>>

\* simulation: every history that used up the peer bound or ended the connection
EmitEnd == ((S.np = MaxPeer \/ S.dead) /\ S.last.k # "init") =>
              PrintT("TRACE " \o ToJson([cfg |-> S.cfg, steps |-> hist, final |-> FinalInfo(S)]))
=============================================================================
