----------------------------- MODULE AEAD_Tamper -----------------------------
(***************************************************************************)
(* C02 - Open rejects everything it did not produce.                       *)
(*                                                                         *)
(* A base case is a sealed message (variant, plaintext length, AD length;  *)
(* key/nonce/plaintext/AD = Pat(seed, len)).  The action Tamper(d) applies *)
(* one modification d = <<kind, i, b>> to what Seal was given/produced:    *)
(*   "sealed"   flip bit b of byte i of the sealed output (CT || tag)      *)
(*   "sealedff" xor byte i of the sealed output with ff (multi-bit)        *)
(*   "ad"       flip bit b of byte i of the additional data                *)
(*   "adext"/"adtrunc"  append a zero byte to / drop the last byte of AD   *)
(*   "nonce"    flip bit b of byte i of the nonce                          *)
(*   "key"      flip bit b of byte i of the key                            *)
(*   "trunc"    drop the last i bytes of the sealed output (this includes  *)
(*              inputs shorter than the tag)                               *)
(*   "ext"      append i bytes                                             *)
(*   "tagmask"  correlated multi-position change of the 16-byte tag: xor   *)
(*              with b every tag byte whose index is set in the 16-bit     *)
(*              position mask i.  The classes mirror how tag comparisons   *)
(*              are implemented (word-wise accumulation): byte k and k+8   *)
(*              (the same delta in both 8-byte halves), the same delta in  *)
(*              two, three or four 4-byte words, the same delta on several *)
(*              bytes of both halves, all sixteen bytes                    *)
(*   "tagswap"  i = 0: swap the 8-byte halves; i = 1: rotate by 4 bytes    *)
(* The model's prediction for every such input is AEAD!Open = Rejected, no *)
(* plaintext.  For the EvalBases TLC *evaluates* AEAD!Open on every        *)
(* tampered input (invariant Rejects: the model-level statement, decided   *)
(* by the executable definitions; a Poly1305 collision would show up here  *)
(* as a counterexample - probability ~2^-100 per case).  For all Bases TLC *)
(* prints the base case with its full tamper set for replay on the real    *)
(* code; variants "secretbox"/"box" (NaCl: tag first, no AD) have no       *)
(* executable model here (XSalsa20 is C09/C10) and are predicted by class. *)
(***************************************************************************)
EXTENDS AEAD, TLC, Json, FiniteSets

CONSTANTS Bases,      \* set of <<variant, ptLen, adLen>> printed for replay
          EvalBases,  \* subset evaluated in the model
          EvalBits,   \* bit indices flipped per byte in the model evaluation
          EvalMasks,  \* xor masks used for the "tagmask" class in the model evaluation
          Seed        \* <<kseed, nseed, pseed, aseed>>
VARIABLE c

NonceLen(v) == IF v = "std" THEN 12 ELSE 24
HasAD(v) == v \in {"std", "x"}
KeyOf == Pat(Seed[1], 32)
NonceOf(v) == Pat(Seed[2], NonceLen(v))
PtOf(n) == Pat(Seed[3], n)
AdOf(n) == Pat(Seed[4], n)

\* position masks of the correlated tag modifications (bit k = tag byte k)
Pow2(k) == 2^k
RECURSIVE SumPow(_)
SumPow(S) == IF S = {} THEN 0 ELSE LET x == CHOOSE y \in S : TRUE IN Pow2(x) + SumPow(S \ {x})
TagPosMasks ==
       {Pow2(k) + Pow2(k + 8) : k \in 0..7}                                          \* byte k of both halves
  \cup UNION {{SumPow(S) : S \in {T \in SUBSET {j, j + 4, j + 8, j + 12} : Cardinality(T) >= 2}} : j \in 0..3}   \* byte j of 2..4 words
  \cup {SumPow(S \cup {k + 8 : k \in S}) : S \in {{0, 1}, {0, 7}, {3, 4}, {0, 1, 2, 3}, 0..7}}    \* several bytes of both halves
TagMasks == {1, 90, 128, 255}
\* where the tag sits in the sealed output: at the end (RFC 8439) or at the start (NaCl)
TagOff(v, sl) == IF v \in {"std", "x"} THEN sl - 16 ELSE 0

TamperSet(base, bits, masks) ==
  LET v == base[1]  pl == base[2]  al == base[3]  sl == pl + 16 IN
       {<<"sealed", i, b>> : i \in 0..(sl - 1), b \in bits}
  \cup {<<"sealedff", i, 0>> : i \in 0..(sl - 1)}
  \cup (IF HasAD(v) THEN {<<"ad", i, b>> : i \in 0..(al - 1), b \in bits} \cup {<<"adext", 0, 0>>}
                         \cup (IF al > 0 THEN {<<"adtrunc", 0, 0>>} ELSE {}) ELSE {})
  \cup {<<"nonce", i, b>> : i \in 0..(NonceLen(v) - 1), b \in bits}
  \cup {<<"key", i, b>> : i \in 0..31, b \in bits}
  \cup {<<"trunc", n, 0>> : n \in 1..(IF sl < 32 THEN sl ELSE 32)}
  \cup {<<"ext", n, 0>> : n \in 1..32}
  \cup {<<"tagmask", pm, m>> : pm \in TagPosMasks, m \in masks}
  \cup {<<"tagswap", 0, 0>>, <<"tagswap", 1, 0>>}

SealedOf(base) == Seal(KeyOf, NonceOf(base[1]), PtOf(base[2]), AdOf(base[3]))

Init == c = [t |-> "root"]
\* (a tree, so that TLC's workers share the evaluation; the sealed output is computed once per base)
Next == \/ c.t = "root" /\ c' \in {[t |-> "bgrp", j |-> j] : j \in 0..7}
        \/ c.t = "bgrp" /\ c' \in {[t |-> "base", base |-> b] : b \in {x \in Bases : (x[2] + x[3] + NonceLen(x[1])) % 8 = c.j}}
        \/ c.t = "base" /\ c.base \in EvalBases
                        /\ LET S == SealedOf(c.base) IN
                           c' \in {[t |-> "kind", base |-> c.base, k |-> k, sealed |-> S] :
                                      k \in {"sealed", "sealedff", "ad", "adext", "adtrunc", "nonce", "key", "trunc", "ext", "tagmask", "tagswap"}}
        \/ c.t = "kind" /\ c' \in {[t |-> "tam", base |-> c.base, d |-> d, sealed |-> c.sealed] :
                                       d \in {x \in TamperSet(c.base, EvalBits, EvalMasks) : x[1] = c.k}}

\* the tampered inputs of Open (sealed = the untampered Seal output)
Tampered(base, d, sealed) ==
  LET v == base[1]
      key == KeyOf  nonce == NonceOf(v)  ad == AdOf(base[3])
      k == d[1]  i == d[2]  b == d[3]
  IN [key    |-> IF k = "key" THEN FlipBit(key, i + 1, b) ELSE key,
      nonce  |-> IF k = "nonce" THEN FlipBit(nonce, i + 1, b) ELSE nonce,
      ad     |-> CASE k = "ad" -> FlipBit(ad, i + 1, b)
                   [] k = "adext" -> ad \o <<0>>
                   [] k = "adtrunc" -> SubSeq(ad, 1, Len(ad) - 1)
                   [] OTHER -> ad,
      sealed |-> CASE k = "sealed" -> FlipBit(sealed, i + 1, b)
                   [] k = "sealedff" -> [sealed EXCEPT ![i + 1] = sealed[i + 1] ^^ 255]
                   [] k = "trunc" -> SubSeq(sealed, 1, Len(sealed) - i)
                   [] k = "ext" -> sealed \o Pat(99, i)
                   [] k = "tagmask" -> LET off == TagOff(v, Len(sealed)) IN
                        [j \in 1..Len(sealed) |-> IF j > off /\ j <= off + 16 /\ (i \div Pow2(j - off - 1)) % 2 = 1
                                                  THEN sealed[j] ^^ b ELSE sealed[j]]
                   [] k = "tagswap" -> LET off == TagOff(v, Len(sealed))  sh == IF i = 0 THEN 8 ELSE 4 IN
                        [j \in 1..Len(sealed) |-> IF j > off /\ j <= off + 16
                                                  THEN sealed[off + 1 + ((j - off - 1 + sh) % 16)] ELSE sealed[j]]
                   [] OTHER -> sealed]

Rejects == (c.t = "tam") =>
             LET x == Tampered(c.base, c.d, c.sealed) IN Open(x.key, x.nonce, x.sealed, x.ad) = Rejected

Emit == (c.t = "base") =>
  PrintT("TRACE " \o ToJson([v |-> c.base[1], ptLen |-> c.base[2], adLen |-> c.base[3],
                             kseed |-> Seed[1], nseed |-> Seed[2], pseed |-> Seed[3], aseed |-> Seed[4],
                             sealed |-> IF HasAD(c.base[1]) THEN SealedOf(c.base) ELSE <<>>,
                             tampers |-> TamperSet(c.base, 0..7, TagMasks)]))

\* ---- instances
Lens(S, A, V) == {<<v, p, a>> : v \in V, p \in S, a \in A}
BasesQuick == Lens({0, 1, 15, 16, 17, 33, 64, 65, 80}, {0, 13}, {"std", "x"}) \cup Lens({17}, {269}, {"std", "x"}) \cup Lens({0, 1, 16, 31, 32, 33, 65, 80}, {0}, {"secretbox", "box"})
EvalQuick == {<<"std", 1, 5>>, <<"x", 17, 0>>}
BasesThorough == Lens((0..40) \cup {47, 48, 49, 63, 64, 65, 79, 80, 81, 127, 128, 129, 193, 257, 321, 513, 600}, {0, 13, 33}, {"std", "x"})
           \cup Lens({17, 129}, {269, 525}, {"std", "x"})
           \cup Lens((0..40) \cup {63, 64, 65, 80, 129, 600}, {0}, {"secretbox", "box"})
EvalThorough == {<<"std", 1, 5>>, <<"x", 17, 0>>, <<"std", 33, 13>>, <<"x", 0, 17>>, <<"std", 64, 0>>, <<"x", 65, 13>>, <<"std", 0, 0>>, <<"std", 16, 33>>}
SeedQ == <<7, 11, 5, 9>>
SeedT2 == <<23, 3, 42, 77>>
=============================================================================
