-------------------------- MODULE SSHForwardBacklog --------------------------
(* C37 -- Listener.Close and the backlog of un-accepted forwards (golang.org/x/crypto/ssh: mux.go,
   client.go, tcpip.go, streamlocal.go).  Complements SSHForward.tla (which models the forward list, its
   mutex and Accept in detail with an unbounded inbox): here the BOUNDED queues between the connection's
   read loop and a listener are explicit, and Close is the multi-step action of the code, per listener kind.

     peer --stream--> mux.loop --incomingChannels (CapIncoming = 16)--> Client.handleChannelOpens
          --handler channel of the channel type (CapHandler = 16, one per kind)--> forwardList.handleChannels
          --forward(): lookup, then parked in the send/closed select--> entry.c (1 slot) --> Accept

   Each stage reads an item and then blocks holding it when the next queue is full (muxHeld, hcoHeld, the
   dispatcher's parked forward), exactly as the goroutines do.  The reply to a cancel-*-forward request
   travels in the same stream and is delivered by mux.loop, so Close can only return if mux.loop gets to it.

     tcpListener.Close / unixListener.Close:  forwards.remove(entry)  ->  SendRequest(cancel)  ->  await reply
   ("remove-first", the order of both kinds in the code).  Order is a constant so that the swapped order
   ("cancel-first") can be shown to deadlock (SSHForwardBacklog_DocUnixCancelFirst.cfg).

   The application may never call Accept (no fairness on Accept).  What TLC establishes:
     * one listener: Close returns whatever the backlog (NoCloseStuck, CloseReturns);
     * several listeners: a pending Close in a quiescent library has always removed its own entry
       (StuckCloseHasRemoved) -- it can only be waiting behind forwards for OTHER listeners that the
       application does not accept; that residual case is real in the code as well (NoCloseStuck is
       violated with two listeners; reproduced by harness/c37 and recorded as a known finding). *)
EXTENDS Integers, Sequences, FiniteSets, TLC

CONSTANTS Listeners,     \* listener ids, all registered initially
          Kind,          \* [Listeners -> {"tcp","unix"}]
          Order,         \* [{"tcp","unix"} -> {"remove-first","cancel-first"}]
          CapIncoming, CapHandler,
          MaxPer,        \* opens the peer sends per listener (single sends)
          Bursts,        \* burst sizes offered to the generator (external event Burst)
          MaxHist        \* 0 = model checking; > 0 = generator (settled histories)

Kinds == {"tcp", "unix"}
None == "-"

VARIABLES stream,     \* messages sent by the peer, not yet read by mux.loop: [t |-> "open" | "reply", l |-> listener]
          muxHeld,    \* open read by mux.loop, waiting for room in incomingChannels (None if none)
          incoming,   \* mux.incomingChannels
          hcoHeld,    \* open taken by handleChannelOpens, waiting for room in the handler channel
          handler,    \* [Kinds -> Seq]  per-type handler channels
          parked,     \* [Kinds -> Listeners \cup {None}]  the forward parked in forward()'s select, by target listener
          slot,       \* [Listeners -> 0..1]  forwards queued in entry.c
          registered, \* [Listeners -> BOOLEAN]  entry in forwardList.entries
          cpc,        \* [Listeners -> "open" | "remove" | "send" | "await" | "done"]  Close; "rdone" marks remove done in cancel-first
          removed,    \* [Listeners -> BOOLEAN]  Close has run forwards.remove
          gotReply,   \* [Listeners -> BOOLEAN]
          sent, rej, acc,  \* [Listeners -> Nat]  opens sent / rejected / accepted
          hist

vars == <<stream, muxHeld, incoming, hcoHeld, handler, parked, slot, registered, cpc, removed, gotReply, sent, rej, acc, hist>>

Open(l) == [t |-> "open", l |-> l]
Reply(l) == [t |-> "reply", l |-> l]
IsReply(m) == m.t = "reply"

Init == /\ stream = <<>> /\ muxHeld = None /\ incoming = <<>> /\ hcoHeld = None
        /\ handler = [k \in Kinds |-> <<>>] /\ parked = [k \in Kinds |-> None]
        /\ slot = [l \in Listeners |-> 0] /\ registered = [l \in Listeners |-> TRUE]
        /\ cpc = [l \in Listeners |-> "open"] /\ removed = [l \in Listeners |-> FALSE]
        /\ gotReply = [l \in Listeners |-> FALSE]
        /\ sent = [l \in Listeners |-> 0] /\ rej = [l \in Listeners |-> 0] /\ acc = [l \in Listeners |-> 0]
        /\ hist = <<>>

Rec == MaxHist > 0
Obs == [cpc |-> cpc, rej |-> rej, acc |-> acc, sent |-> sent, muxBlocked |-> (muxHeld # None), registered |-> registered]
Log(e) == hist' = IF Rec THEN Append(hist, [ev |-> e, pre |-> Obs]) ELSE hist
CanLog == (~Rec) \/ Len(hist) < MaxHist

RECURSIVE Rep(_, _)
Rep(x, n) == IF n = 0 THEN <<>> ELSE <<x>> \o Rep(x, n - 1)

-----------------------------------------------------------------------------
(* environment *)
PeerSend(l) == /\ ~Rec /\ sent[l] < MaxPer
               /\ stream' = Append(stream, Open(l)) /\ sent' = [sent EXCEPT ![l] = @ + 1]
               /\ UNCHANGED <<muxHeld, incoming, hcoHeld, handler, parked, slot, registered, cpc, removed, gotReply, rej, acc, hist>>
Burst(l, n) == /\ Rec /\ CanLog /\ sent[l] = 0
               /\ stream' = stream \o Rep(Open(l), n) /\ sent' = [sent EXCEPT ![l] = n]
               /\ Log([e |-> "burst", l |-> l, n |-> n])
               /\ UNCHANGED <<muxHeld, incoming, hcoHeld, handler, parked, slot, registered, cpc, removed, gotReply, rej, acc>>
Accept(l) == /\ CanLog /\ slot[l] > 0 /\ registered[l]
             /\ slot' = [slot EXCEPT ![l] = @ - 1] /\ acc' = [acc EXCEPT ![l] = @ + 1]
             /\ Log([e |-> "accept", l |-> l, n |-> 0])
             /\ UNCHANGED <<stream, muxHeld, incoming, hcoHeld, handler, parked, registered, cpc, removed, gotReply, sent, rej>>
CStart(l) == /\ CanLog /\ cpc[l] = "open"
             /\ cpc' = [cpc EXCEPT ![l] = IF Order[Kind[l]] = "remove-first" THEN "remove" ELSE "send"]
             /\ Log([e |-> "close", l |-> l, n |-> 0])
             /\ UNCHANGED <<stream, muxHeld, incoming, hcoHeld, handler, parked, slot, registered, removed, gotReply, sent, rej, acc>>
External == \E l \in Listeners : PeerSend(l) \/ Accept(l) \/ CStart(l) \/ (\E n \in Bursts : Burst(l, n))

-----------------------------------------------------------------------------
(* the connection's read loop: mux.loop / onePacket / handleChannelOpen *)
MuxRead == /\ muxHeld = None /\ stream # <<>>
           /\ stream' = Tail(stream)
           /\ IF IsReply(Head(stream))
              THEN gotReply' = [gotReply EXCEPT ![Head(stream).l] = TRUE] /\ UNCHANGED <<muxHeld, incoming>>
              ELSE /\ UNCHANGED gotReply
                   /\ IF Len(incoming) < CapIncoming THEN incoming' = Append(incoming, Head(stream).l) /\ UNCHANGED muxHeld
                      ELSE muxHeld' = Head(stream).l /\ UNCHANGED incoming
           /\ UNCHANGED <<hcoHeld, handler, parked, slot, registered, cpc, removed, sent, rej, acc, hist>>
MuxUnblock == /\ muxHeld # None /\ Len(incoming) < CapIncoming
              /\ incoming' = Append(incoming, muxHeld) /\ muxHeld' = None
              /\ UNCHANGED <<stream, hcoHeld, handler, parked, slot, registered, cpc, removed, gotReply, sent, rej, acc, hist>>
Mux == MuxRead \/ MuxUnblock

(* Client.handleChannelOpens *)
HcoTake == /\ hcoHeld = None /\ incoming # <<>>
           /\ incoming' = Tail(incoming)
           /\ LET o == Head(incoming) IN
              IF Len(handler[Kind[o]]) < CapHandler THEN handler' = [handler EXCEPT ![Kind[o]] = Append(@, o)] /\ UNCHANGED hcoHeld
              ELSE hcoHeld' = o /\ UNCHANGED handler
           /\ UNCHANGED <<stream, muxHeld, parked, slot, registered, cpc, removed, gotReply, sent, rej, acc, hist>>
HcoUnblock == /\ hcoHeld # None /\ Len(handler[Kind[hcoHeld]]) < CapHandler
              /\ handler' = [handler EXCEPT ![Kind[hcoHeld]] = Append(@, hcoHeld)] /\ hcoHeld' = None
              /\ UNCHANGED <<stream, muxHeld, incoming, parked, slot, registered, cpc, removed, gotReply, sent, rej, acc, hist>>
Hco == HcoTake \/ HcoUnblock

(* forwardList.handleChannels / forward, one goroutine per kind *)
DTake(k) == /\ parked[k] = None /\ handler[k] # <<>>
            /\ handler' = [handler EXCEPT ![k] = Tail(@)]
            /\ LET o == Head(handler[k]) IN
               IF ~registered[o] THEN rej' = [rej EXCEPT ![o] = @ + 1] /\ UNCHANGED <<parked, slot>>   \* no forward for address
               ELSE IF slot[o] = 0 THEN slot' = [slot EXCEPT ![o] = 1] /\ UNCHANGED <<parked, rej>>
               ELSE parked' = [parked EXCEPT ![k] = o] /\ UNCHANGED <<slot, rej>>
            /\ UNCHANGED <<stream, muxHeld, incoming, hcoHeld, registered, cpc, removed, gotReply, sent, acc, hist>>
DUnpark(k) == /\ parked[k] # None
              /\ LET o == parked[k] IN
                 \/ /\ ~registered[o]                       \* case <-e.closed: rejected
                    /\ rej' = [rej EXCEPT ![o] = @ + 1] /\ UNCHANGED slot
                 \/ /\ registered[o] /\ slot[o] = 0          \* case e.c <- forward
                    /\ slot' = [slot EXCEPT ![o] = 1] /\ UNCHANGED rej
              /\ parked' = [parked EXCEPT ![k] = None]
              /\ UNCHANGED <<stream, muxHeld, incoming, hcoHeld, handler, registered, cpc, removed, gotReply, sent, acc, hist>>
Disp == \E k \in Kinds : DTake(k) \/ DUnpark(k)

(* Close *)
CRemove(l) == /\ cpc[l] = "remove"
              /\ registered' = [registered EXCEPT ![l] = FALSE] /\ removed' = [removed EXCEPT ![l] = TRUE]
              /\ rej' = [rej EXCEPT ![l] = @ + slot[l]] /\ slot' = [slot EXCEPT ![l] = 0]     \* rejectPending
              /\ cpc' = [cpc EXCEPT ![l] = IF Order[Kind[l]] = "remove-first" THEN "send" ELSE "done"]
              /\ UNCHANGED <<stream, muxHeld, incoming, hcoHeld, handler, parked, gotReply, sent, acc, hist>>
CSend(l) == /\ cpc[l] = "send"              \* the peer answers at once; its answer queues behind what it sent before
            /\ stream' = Append(stream, Reply(l))
            /\ cpc' = [cpc EXCEPT ![l] = "await"]
            /\ UNCHANGED <<muxHeld, incoming, hcoHeld, handler, parked, slot, registered, removed, gotReply, sent, rej, acc, hist>>
CAwait(l) == /\ cpc[l] = "await" /\ gotReply[l]
             /\ cpc' = [cpc EXCEPT ![l] = IF Order[Kind[l]] = "remove-first" THEN "done" ELSE "remove"]
             /\ UNCHANGED <<stream, muxHeld, incoming, hcoHeld, handler, parked, slot, registered, removed, gotReply, sent, rej, acc, hist>>
Closer == \E l \in Listeners : CRemove(l) \/ CSend(l) \/ CAwait(l)

Internal == Mux \/ Hco \/ Disp \/ Closer
Next == External \/ Internal
Spec == Init /\ [][Next]_vars /\ WF_vars(Mux) /\ WF_vars(Hco) /\ WF_vars(Disp) /\ WF_vars(Closer)

\* generator: settle between external events; the stages are confluent, so a fixed priority is used
Quiescent == ~ENABLED Internal
GenInternal == \/ Disp
               \/ (~ENABLED Disp) /\ Hco
               \/ (~ENABLED Disp) /\ (~ENABLED Hco) /\ Mux
               \/ (~ENABLED Disp) /\ (~ENABLED Hco) /\ (~ENABLED Mux) /\ Closer
GenNext == GenInternal \/ (Quiescent /\ External)
GenSpec == Init /\ [][GenNext]_vars

-----------------------------------------------------------------------------
Pending(l) == cpc[l] \notin {"open", "done"}
\* R2: Close returns
CloseReturns == \A l \in Listeners : Pending(l) ~> (cpc[l] = "done")
NoCloseStuck == ~(Quiescent /\ \E l \in Listeners : Pending(l))
\* what holds with several listeners: a Close that is stuck has removed its own entry; it waits behind forwards
\* for other, still registered listeners which the application does not accept
StuckCloseHasRemoved == Quiescent => \A l \in Listeners : Pending(l) => (removed[l] /\ \E k \in Kinds : parked[k] # None /\ parked[k] # l /\ registered[parked[k]])
\* every open for a closed listener is decided once its Close has returned and the library is quiescent, unless it is
\* still in the pipeline behind a forward parked at another listener
TypeOK == /\ Len(incoming) <= CapIncoming /\ \A k \in Kinds : Len(handler[k]) <= CapHandler
          /\ \A l \in Listeners : slot[l] \in 0..1
=============================================================================
