SPECIFICATION Spec
CONSTANTS
  FileSet <- FilesF1
  QuerySeq <- QueriesFq
  StarFix = TRUE
  SubjectFix = TRUE
  CAListsPlain = FALSE
  RevokedSubject = TRUE
INVARIANTS Agree
CHECK_DEADLOCK FALSE
