SPECIFICATION Spec
CONSTANTS
  CaseSet <- CasesF1
  QueriesOf <- QOf
  StarFix = TRUE
  SubjectFix = TRUE
  CAListsPlain = FALSE
  RevokedSubject = TRUE
INVARIANTS Agree
CHECK_DEADLOCK FALSE
