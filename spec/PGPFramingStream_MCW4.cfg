SPECIFICATION Spec
CONSTANTS
  MinFirst = 8
  MaxPow = 3
  Sizes <- SizesT
  MaxWrites = 4
  ReadSizes <- ReadsW
  EofStyles = {"separate", "with-data"}
  CutAll = FALSE
  FixEof = TRUE
  FixShort = FALSE
  Tag = 11
  Crafted <- CraftedSet
INVARIANTS WriteReturns BufferBound Conservation ChunkShape FirstDuringWrites FirstChunkKept OnePacket RoundTrip NoSilentTruncation PrefixOnly AgreesWithFunction
PROPERTIES Progress
CHECK_DEADLOCK FALSE
