------------------------------ MODULE TraceDemo ------------------------------
(* Smallest complete example of the conventions: a bounded FIFO queue, its trace spec, and
   (see selftest/) a demonstration that a corrupted trace is rejected. *)
EXTENDS Integers, Sequences
CONSTANT Cap
VARIABLE q
vars == <<q>>
Init == q = <<>>
Enq(x) == Len(q) < Cap /\ q' = Append(q, x)
Deq(x) == q # <<>> /\ Head(q) = x /\ q' = Tail(q)
Next == \E x \in 0..3 : Enq(x) \/ Deq(x)
Spec == Init /\ [][Next]_vars
Bounded == Len(q) <= Cap
=============================================================================
