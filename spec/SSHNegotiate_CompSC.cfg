SPECIFICATION Spec
CONSTANTS
  Menu <- MenuCompSC
  AEAD <- MCAEAD
INVARIANTS BothOrNeither Mirror RFCChoice FailIffNoCommon FindCommonIsRFC
CHECK_DEADLOCK FALSE
