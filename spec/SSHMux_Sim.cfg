SPECIFICATION Spec
CONSTANTS
  MaxPeer = 6
  MaxLocal = 2
  MaxObj = 3
  Configs <- AllConfigs
  Lite = TRUE
  Hold = FALSE
  Burst = FALSE
  DecidedInLoop = TRUE
  DrainAll = TRUE
  RejectChecksSlot = TRUE
INVARIANTS EmitLeaf
CHECK_DEADLOCK FALSE
