-------------------------- MODULE SSHInterop_MCsmall --------------------------
(* A fixed abstract instance of SSHInterop_MC (list lengths chosen co-prime and awkward on
   purpose) on which TLC evaluates the coverage ASSUMEs and enumerates all four row sets.
   checks/C27.py generates the same kind of module with the real algorithm names. *)
EXTENDS SSHInterop_MC
aKexL == <<"k1", "k2", "k3", "k4", "k5">>
aHostL == <<"h1", "h2", "h3", "h4", "h5", "h6", "h7", "h8">>
aCipherL == <<"g1", "g2", "c1", "c2", "c3">>
aMacL == <<"m1", "m2", "m3">>
aUserL == <<"u1", "u2", "u3", "u4", "u5", "u6", "u7">>
aRekeyL == <<"client", "server", "both">>
aSizeL == <<"zero", "one", "small", "medium", "large", "max">>
aAeadS == {"g1", "g2"}
=============================================================================
