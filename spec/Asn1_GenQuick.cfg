SPECIFICATION Spec
CONSTANTS
  Alphabet <- Alphabet17
  MaxEnum = 4
  AlphabetLong <- Alphabet13
  LongLen = 0
  Inputs <- InputsQuick
  Values <- ValuesAll
INVARIANTS TLVIsDER DERIsTLV IntCanon EnumCanon FitsByValue OidCanon TimeCanon EncDec TypedImpliesTLV Emit
CHECK_DEADLOCK FALSE
