-------------------------- MODULE StreamCipherImpl --------------------------
(***************************************************************************)
(* C03 - implementation-shaped specification: a transcription of the       *)
(* bookkeeping of chacha20.Cipher in /repo/chacha20/chacha_generic.go      *)
(*   fields  counter uint32, len int, overflow bool, buf [bufSize]byte     *)
(*   XORKeyStream: drain buffered key stream; block-count check and        *)
(*     `overflow` latch; whole multiples of bufSize; the one-block-at-a-   *)
(*     time path when a multi-block refill would pass 2^32; padded refill  *)
(*   SetCounter: outputCounter := counter - len/64, rollback check,        *)
(*     advance inside the buffer or reset len                              *)
(* statement by statement, for bufSize = 64*BPB (BPB = 1: amd64/generic,   *)
(* chacha_noasm.go; BPB = 4: arm64/s390x/ppc64).  uint32 is scaled to      *)
(* [Repaired = FALSE reproduces the pre-fix defect for BPB = 4: a partial   *)
(*  refill at counter 2^32-4 wrapped the counter without setting overflow] *)
(* arithmetic modulo L.  The buffer is modelled by the block number held   *)
(* in each 64-byte slot (-1: no keystream), so an output is computed from  *)
(* what the buffer really contains, not from what it ought to contain.     *)
(*                                                                         *)
(* TLC checks the refinement  Spec => Abs!Spec  with the mapping the       *)
(* comment in SetCounter derives by hand:                                  *)
(*        pos = 64 * (blocks generated) - len                              *)
(***************************************************************************)
EXTENDS Integers, Sequences

CONSTANTS L, NSet, CSet,
          BPB,     \* blocks per buffer (bufSize / blockSize)
          Repaired \* TRUE: the code as it is (`counter+blocksPerBuf >= 1<<32`, since fix 3982d60);
                   \* FALSE: the condition before the fix (`>`), kept only to document the counterexample

VARIABLES counter,   \* s.counter (uint32, modulo L)
          len,       \* s.len
          overflow,  \* s.overflow
          buf,       \* buf[1..BPB]: block number whose keystream is in slot i, or -1
          dead, last

ivars == <<counter, len, overflow, buf, dead, last>>
BufSize == 64 * BPB

Ev(op, arg, res, out) == [op |-> op, arg |-> arg, res |-> res, out |-> out]
Rng(from, n) == [from |-> from, n |-> n]
Min(a, b) == IF a < b THEN a ELSE b

\* append range r to a sequence of ranges, merging contiguous ranges and dropping empty ones
AppendRng(s, r) ==
  IF r.n = 0 THEN s
  ELSE IF Len(s) > 0 /\ s[Len(s)].from + s[Len(s)].n = r.from
       THEN [s EXCEPT ![Len(s)] = Rng(s[Len(s)].from, s[Len(s)].n + r.n)]
       ELSE Append(s, r)

\* keystream positions of buffer bytes [start, start+cnt) (0-based), given slot contents bb;
\* a slot without keystream (-1) yields position -1000 (never equal to a real position)
RECURSIVE BufOut(_, _, _, _)
BufOut(acc, bb, start, cnt) ==
  IF cnt = 0 THEN acc
  ELSE LET slot == start \div 64
           off  == start % 64
           k    == Min(cnt, 64 - off)
           base == IF bb[slot + 1] < 0 THEN -1000 ELSE 64 * bb[slot + 1]
       IN BufOut(AppendRng(acc, Rng(base + off, k)), bb, start + k, cnt - k)

\* positions of nb whole blocks generated from counter value c (counter wraps modulo L, as uint32 does)
RECURSIVE GenOut(_, _, _)
GenOut(acc, c, nb) == IF nb = 0 THEN acc ELSE GenOut(AppendRng(acc, Rng(64 * (c % L), 64)), c + 1, nb - 1)

Init == /\ counter = 0 /\ len = 0 /\ overflow = FALSE
        /\ buf = [i \in 1..BPB |-> -1]
        /\ dead = FALSE /\ last = Ev("new", 0, "ok", <<>>)

XOR(n) ==
  /\ ~dead
  /\ IF n = 0 THEN                                  \* if len(src) == 0 { return }
       /\ UNCHANGED <<counter, len, overflow, buf, dead>>
       /\ last' = Ev("xor", 0, "ok", <<>>)
     ELSE
       LET \* First, drain any remaining key stream from a previous XORKeyStream.
           d    == IF len # 0 THEN Min(n, len) ELSE 0
           o1   == BufOut(<<>>, buf, BufSize - len, d)
           len1 == len - d
           n1   == n - d
       IN
       IF n1 = 0 THEN                               \* if len(src) == 0 { return }
         /\ len' = len1
         /\ UNCHANGED <<counter, overflow, buf, dead>>
         /\ last' = Ev("xor", n, "ok", o1)
       ELSE
         LET numBlocks == (n1 + 63) \div 64 IN
         IF overflow \/ counter + numBlocks > L THEN      \* panic("chacha20: counter overflow")
           /\ len' = len1
           /\ dead' = TRUE
           /\ UNCHANGED <<counter, overflow, buf>>
           /\ last' = Ev("xor", n, "panic", <<>>)
         ELSE
           LET ov1   == overflow \/ (counter + numBlocks = L)
               full  == n1 - (n1 % BufSize)
               o2    == GenOut(o1, counter, full \div 64)     \* xorKeyStreamBlocks(dst[:full], src[:full])
               c1    == (counter + full \div 64) % L
               n2    == n1 - full
           IN
           IF (IF Repaired THEN c1 + BPB >= L ELSE c1 + BPB > L) THEN   \* multi-block refill would overflow: generic, block by block
             LET nb   == (n2 + 63) \div 64
                 buf2 == [i \in 1..BPB |-> IF i > BPB - nb THEN (c1 + (i - (BPB - nb)) - 1) % L ELSE -1]
             IN /\ buf' = buf2
                /\ counter' = (c1 + nb) % L
                /\ len' = 64 * nb - n2
                /\ overflow' = ov1
                /\ dead' = FALSE
                /\ last' = Ev("xor", n, "ok", BufOut(o2, buf2, BufSize - 64 * nb, n2))
           ELSE IF n2 > 0 THEN                     \* partial (multi-)block: pad, keep the leftover
             LET buf2 == [i \in 1..BPB |-> (c1 + i - 1) % L]
             IN /\ buf' = buf2
                /\ counter' = (c1 + BPB) % L
                /\ len' = BufSize - n2
                /\ overflow' = ov1
                /\ dead' = FALSE
                /\ last' = Ev("xor", n, "ok", BufOut(o2, buf2, 0, n2))
           ELSE
             /\ counter' = c1
             /\ len' = len1
             /\ overflow' = ov1
             /\ UNCHANGED <<buf, dead>>
             /\ last' = Ev("xor", n, "ok", o2)

SetCounter(c) ==
  /\ ~dead
  /\ LET outputCounter == (counter - (len \div 64)) % L IN     \* uint32 arithmetic
     IF overflow \/ c < outputCounter THEN
       /\ dead' = TRUE
       /\ UNCHANGED <<counter, len, overflow, buf>>
       /\ last' = Ev("setctr", c, "panic", <<>>)
     ELSE IF c < counter THEN
       /\ len' = (counter - c) * 64
       /\ UNCHANGED <<counter, overflow, buf, dead>>
       /\ last' = Ev("setctr", c, "ok", <<>>)
     ELSE
       /\ counter' = c
       /\ len' = 0
       /\ UNCHANGED <<overflow, buf, dead>>
       /\ last' = Ev("setctr", c, "ok", <<>>)

Next == (\E n \in NSet : XOR(n)) \/ (\E c \in CSet : SetCounter(c))
Spec == Init /\ [][Next]_ivars

\* blocks generated so far: the counter register, except that after the last block it has wrapped to 0
Generated == IF overflow THEN L ELSE counter
AbsPos == 64 * Generated - len

Abs == INSTANCE StreamCipher WITH pos <- AbsPos
Refines == Abs!Spec
\* the abstract properties, checked on the implementation through the mapping
AbsMonotone == Abs!Monotone
AbsContiguous == Abs!Contiguous
AbsPanicExact == Abs!PanicExact
AbsSeek == Abs!Seek

TypeOK == /\ counter \in 0..(L-1) /\ len \in 0..BufSize /\ overflow \in BOOLEAN
          /\ AbsPos \in 0..(64 * L)
\* the leftover key stream really is the key stream that follows the bytes already output
BufferHoldsNext == (len > 0 /\ ~dead) => BufOut(<<>>, buf, BufSize - len, len) = <<Rng(AbsPos, len)>>
\* the overflow latch is set exactly when the last block has been generated
OverflowLatch == overflow => (counter = 0)
=============================================================================
