--------------------------- MODULE PGPFramingReader ---------------------------
(***************************************************************************)
(* packet.Reader of golang.org/x/crypto/openpgp/packet (reader.go): a      *)
(* stack of io.Readers (Push; popped at io.EOF) and a stack of unread      *)
(* packets (Unread), with Next skipping packets of unknown type and        *)
(* surfacing every other parse error once.  The recursion limit            *)
(* maxReaders = 32 bounds the nesting of compressed / encrypted containers *)
(* (CVE-2013-4402).                                        [growth X03 c]  *)
(*                                                                         *)
(* A stream is a sequence of tokens                                        *)
(*    pkt(id)   a packet of a type the package parses                      *)
(*    unk       a packet of unknown type (UnknownPacketTypeError: skipped) *)
(*    bad       a packet whose parse fails (Unsupported/StructuralError):  *)
(*              the error is returned, the packet has been consumed        *)
(*    cont(s)   a container (Compressed) whose body is stream s            *)
(* One action per public call; the client follows the protocol of          *)
(* ReadMessage: a container that Next returned is pushed before Next is    *)
(* called again (or unread).                                               *)
(*                                                                         *)
(* PROPERTIES                                                              *)
(*  DepthBound   never more than MaxReaders readers; Push fails with a     *)
(*               StructuralError exactly when MaxReaders are stacked, and  *)
(*               then changes nothing                                      *)
(*  Order        the results Next produces from the readers (not from the  *)
(*               unread stack) are, in order, the depth-first flattening   *)
(*               of the stream tree with unknown packets removed           *)
(*  Lifo         Next returns the most recently unread packet first and    *)
(*               does not touch the readers while unread packets exist     *)
(*  Complete     when Next reports io.EOF everything has been delivered,   *)
(*               and it keeps reporting io.EOF                             *)
(* With Residue = TRUE (partial-length compressed packets, code as it is)  *)
(* Order fails: a spurious StructuralError precedes the packet that        *)
(* follows the container (documented counterexample, reproduced on the     *)
(* real Reader and through ReadMessage by the harness).                    *)
(***************************************************************************)
EXTENDS Integers, Sequences, FiniteSets, TLC

CONSTANTS Residue,        \* TRUE: a container's body reader stops before the end of the container packet (the code as it is for
                          \* compressed packets written with partial lengths: the decompressor never asks for the final length
                          \* octet, which the enclosing reader then takes for a packet header); FALSE: definite-length
                          \* containers, or the proposed repair (drain the packet when the decompressor reports io.EOF)
          Streams,        \* stream id -> sequence of tokens; stream 1 is the input of NewReader
          MaxReaders,     \* maxReaders (32)
          MaxUnread,      \* bound on Unread calls per behaviour
          MaxOps

Pkt(id) == [k |-> "pkt", id |-> id]
Unk == [k |-> "unk", id |-> 0]
Bad == [k |-> "bad", id |-> 0]
Cont(s) == [k |-> "cont", id |-> s]

VARIABLES q,          \* unread packets, top = last
          readers,    \* <<[sid, pos, junk]>>, top = last; junk: unread residue of a container packet precedes position pos
          ret,        \* result of the last call
          must,       \* stream the client has to push next (0: none)
          fresh,      \* ghost: results Next took from the readers, in order
          seen,       \* ghost: packets (pkt/cont records) returned so far
          nun,        \* Unread calls so far
          hist        \* the calls and their results (for binding R)
vars == <<q, readers, ret, must, fresh, seen, nun, hist>>

R(k, id) == [k |-> k, id |-> id]          \* k: "pkt" | "cont" | "err" | "eof" | "ok" | "toomany" | "none"
Init == /\ q = <<>> /\ readers = << [sid |-> 1, pos |-> 1, junk |-> FALSE] >> /\ ret = R("none", 0) /\ must = 0
        /\ fresh = <<>> /\ seen = {} /\ nun = 0 /\ hist = <<>>

\* the loop of Next over the reader stack: result and the new stack
RECURSIVE Pull(_)
Pull(rs) ==
  IF rs = <<>> THEN [r |-> R("eof", 0), rs |-> rs]
  ELSE LET top == rs[Len(rs)]
           s == Streams[top.sid] IN
       IF top.junk THEN [r |-> R("err", 0), rs |-> [rs EXCEPT ![Len(rs)].junk = FALSE]] \* "tag byte does not have MSB set"
       ELSE IF top.pos > Len(s) THEN Pull(SubSeq(rs, 1, Len(rs) - 1))                 \* io.EOF: pop
       ELSE LET t == s[top.pos]
                adv == [rs EXCEPT ![Len(rs)].pos = top.pos + 1, ![Len(rs)].junk = (Residue /\ t.k = "cont")] IN
            IF t.k = "unk" THEN Pull(adv)                                               \* UnknownPacketTypeError: skip
            ELSE IF t.k = "bad" THEN [r |-> R("err", 0), rs |-> adv]
            ELSE [r |-> R(t.k, t.id), rs |-> adv]

Log(op, arg, r) == hist' = Append(hist, [op |-> op, arg |-> arg, k |-> r.k, id |-> r.id])
Active == ret.k # "toomany" /\ Len(hist) < MaxOps

CallNext == /\ Active /\ must = 0
            /\ IF q # <<>>
               THEN /\ ret' = q[Len(q)] /\ q' = SubSeq(q, 1, Len(q) - 1)
                    /\ UNCHANGED <<readers, fresh>>
               ELSE \E p \in {Pull(readers)} :
                      /\ ret' = p.r /\ readers' = p.rs /\ q' = q
                      /\ fresh' = IF p.r.k = "eof" THEN fresh ELSE Append(fresh, p.r)
            /\ must' = IF ret'.k = "cont" THEN ret'.id ELSE 0
            /\ seen' = IF ret'.k \in {"pkt", "cont"} THEN seen \cup {ret'} ELSE seen
            /\ Log("next", 0, ret') /\ UNCHANGED nun

\* Push(body of the container just returned)
CallPush == /\ Active /\ must # 0
            /\ IF Len(readers) >= MaxReaders
               THEN ret' = R("toomany", must) /\ UNCHANGED readers
               ELSE ret' = R("ok", must) /\ readers' = Append(readers, [sid |-> must, pos |-> 1, junk |-> FALSE])
            /\ must' = 0
            /\ Log("push", must, ret') /\ UNCHANGED <<q, fresh, seen, nun>>

\* Unread(p) for a packet returned earlier (ReadMessage / ReadEntity unread the packet they just got)
CallUnread(p) == /\ Active /\ nun < MaxUnread /\ p \in seen /\ (must # 0 => p = ret)
                 /\ (p.k = "cont" => (must # 0 /\ p = ret))        \* a container is unread only before its body was pushed
                 /\ ~\E i \in 1..Len(q) : q[i] = p
                 /\ q' = Append(q, p) /\ must' = 0 /\ nun' = nun + 1 /\ ret' = R("ok", p.id)
                 /\ Log("unread", p.id, [k |-> p.k, id |-> p.id]) /\ UNCHANGED <<readers, fresh, seen>>

Next == CallNext \/ CallPush \/ \E p \in seen : CallUnread(p)
Spec == Init /\ [][Next]_vars

-----------------------------------------------------------------------------
(* the expected order: depth-first flattening, unknown packets removed, containers followed by their body *)
RECURSIVE Flat(_, _)
Flat(sid, i) == LET s == Streams[sid] IN
                IF i > Len(s) THEN <<>>
                ELSE (CASE s[i].k = "unk" -> <<>>
                        [] s[i].k = "bad" -> <<R("err", 0)>>
                        [] s[i].k = "cont" -> <<R("cont", s[i].id)>> \o Flat(s[i].id, 1)
                        [] OTHER -> <<R("pkt", s[i].id)>>) \o Flat(sid, i + 1)
Expected == Flat(1, 1)

DepthBound == Len(readers) <= MaxReaders
PushRule == [][must # 0 /\ must' = 0 /\ nun' = nun =>
                 IF Len(readers) >= MaxReaders THEN ret'.k = "toomany" /\ readers' = readers /\ q' = q
                 ELSE ret'.k = "ok" /\ Len(readers') = Len(readers) + 1]_vars
Order == Len(fresh) <= Len(Expected) /\ fresh = SubSeq(Expected, 1, Len(fresh))
Lifo == [][(q # <<>> /\ hist' # hist /\ hist'[Len(hist')].op = "next") => (ret' = q[Len(q)] /\ readers' = readers /\ Len(q') = Len(q) - 1)]_vars
Complete == (ret.k = "eof") => (readers = <<>> /\ q = <<>> /\ fresh = Expected)
EofSticky == [][(ret.k = "eof" /\ hist' # hist /\ hist'[Len(hist')].op = "next") => ret'.k = "eof"]_vars
=============================================================================
