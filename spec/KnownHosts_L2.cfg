SPECIFICATION Spec
CONSTANTS
  FileSet <- FilesL2
  QuerySeq <- QueriesL
  StarFix = TRUE
  SubjectFix = TRUE
  CAListsPlain = TRUE
  RevokedSubject = TRUE
INVARIANTS TypeOK Agree AcceptSound RevokedDominates WantExact OrderIndependent Emit
CHECK_DEADLOCK FALSE
