\* non-vacuity: the deliberately wrong client invalidOk must violate P1_NoFalseSuccess
SPECIFICATION Spec
CONSTANTS
  OpSet <- WaitOps
  Bundles = {TRUE, FALSE}
  MaxCalls = 1
  MaxReq = 3
  MaxEnv = 1
  Shapes <- CoreShapes
  RetrySet = {0, 3}
  Budget = 1
  Malformed = TRUE
  CertKinds <- FewCerts
  AltSet = {0, 2}
  InitStates <- InitRFC
  CallOK <- AnyCall
  EnvOK <- AnyEnv
  FixNegRA = FALSE
  Mut = "invalidOk"
VIEW MCView
INVARIANTS P1_NoFalseSuccess
CHECK_DEADLOCK FALSE
