---------------------------- MODULE AuthorizedKeys ----------------------------
(* authorized_keys and known_hosts lines as golang.org/x/crypto/ssh parses them
   (ssh/keys.go: ParseAuthorizedKey, parseAuthorizedKey, ParseKnownHosts).

   A file is a sequence of symbols.  Ordinary symbols stand for one byte
        "a" "="  ","  "q" (double quote)  "b" (backslash)  "s" (space)  "t" (tab)
        "r" (CR)  "n" (LF)  "#"  "@"
   and field symbols stand for a whole field that contains none of the special bytes
        "T"  the key type name embedded in blob K        "X"  another valid key type name
        "K"  base64 of a valid public key blob            "B"  not base64      "J"  base64 of junk
        "C"  a comment word      "H" "G"  host names      "M"  a marker word (cert-authority)

   Two descriptions are given and TLC checks them against each other:
     * ParseAK / ParseKH: transcriptions of the Go functions, statement by statement, working on
       the symbol sequence (line splitting, CR cut, TrimSpace, the "try without options first"
       strategy, the option scanner loop, the declared-type check, bytes.Fields for known_hosts);
     * the line grammar  [options SP] keytype SP base64 [SP comment]  (sshd(8)) with the option
       field split as sshd does it -- comma separated, double-quoted values, \" inside quotes does
       not end the value, commas inside quotes do not split (RefSplit) -- applied to the
       *structure* a line was assembled from (variable st).
   One state = one assembled input; action Parse runs the transcriptions. *)
EXTENDS Integers, Sequences, FiniteSets, TLC

CONSTANT Menus   \* set of menus (records of component sets), see AuthorizedKeys_MC

VARIABLES st,    \* the structure the input was assembled from
          inp,   \* the assembled symbol sequence
          ak,    \* result of ParseAK(inp)
          kh,    \* result of ParseKH(inp)
          phase
vars == <<st, inp, ak, kh, phase>>

WS == {"s", "t"}
IsWS(x) == x \in WS

-----------------------------------------------------------------------------
(* sequence helpers *)
RECURSIVE FirstIdx(_, _, _)
FirstIdx(s, set, i) == IF i > Len(s) THEN 0 ELSE IF s[i] \in set THEN i ELSE FirstIdx(s, set, i + 1)
First(s, set) == FirstIdx(s, set, 1)                       \* 0 = none (bytes.IndexAny = -1)
From(s, i) == IF i > Len(s) THEN <<>> ELSE SubSeq(s, i, Len(s))
Upto(s, i) == IF i < 1 THEN <<>> ELSE SubSeq(s, 1, i)
RECURSIVE TrimL(_)
TrimL(s) == IF s # <<>> /\ IsWS(s[1]) THEN TrimL(Tail(s)) ELSE s
RECURSIVE TrimR(_)
TrimR(s) == IF s # <<>> /\ IsWS(s[Len(s)]) THEN TrimR(Upto(s, Len(s) - 1)) ELSE s
Trim(s) == TrimR(TrimL(s))                                  \* bytes.TrimSpace (CR/LF never reach it)
RECURSIVE FieldsOf(_)                                       \* bytes.Fields
FieldsOf(s) == LET t == TrimL(s) IN
               IF t = <<>> THEN <<>>
               ELSE LET e == First(t, WS) IN
                    IF e = 0 THEN <<t>> ELSE <<Upto(t, e - 1)>> \o FieldsOf(From(t, e))
RECURSIVE JoinWith(_, _)
JoinWith(fs, sep) == IF fs = <<>> THEN <<>> ELSE IF Len(fs) = 1 THEN fs[1] ELSE fs[1] \o sep \o JoinWith(Tail(fs), sep)
RECURSIVE SplitOn(_, _)                                     \* strings.Split
SplitOn(s, c) == LET e == First(s, {c}) IN IF e = 0 THEN <<s>> ELSE <<Upto(s, e - 1)>> \o SplitOn(From(s, e + 1), c)

-----------------------------------------------------------------------------
(* parseAuthorizedKey: base64 field, ParsePublicKey, comment *)
PAK(x) == LET y == Trim(x)
              i == First(y, WS)
              b64 == IF i = 0 THEN y ELSE Upto(y, i - 1)
          IN IF b64 = <<"K">> THEN [ok |-> TRUE, comment |-> Trim(IF i = 0 THEN <<>> ELSE From(y, i))]
             ELSE [ok |-> FALSE, comment |-> <<>>]
KeyType == <<"T">>                                          \* out.Type() of the key in blob K

(* the option scanner loop of ParseAuthorizedKey (1-based i; start = optionStart) *)
RECURSIVE Scan(_, _, _, _, _)
Scan(s, i, inQ, start, opts) ==
  IF i > Len(s) THEN [term |-> 0, opts |-> opts]
  ELSE LET b == s[i]
           isEnd == ~inQ /\ IsWS(b)
           split == (b = "," /\ ~inQ) \/ isEnd
           opts2 == IF split /\ i - start > 0 THEN Append(opts, SubSeq(s, start, i - 1)) ELSE opts
           start2 == IF split THEN i + 1 ELSE start
       IN IF isEnd THEN [term |-> i, opts |-> opts2]
          ELSE Scan(s, i + 1, IF b = "q" /\ (i = 1 \/ s[i - 1] # "b") THEN ~inQ ELSE inQ, start2, opts2)

RECURSIVE SkipWS(_, _)
SkipWS(s, i) == IF i <= Len(s) /\ IsWS(s[i]) THEN SkipWS(s, i + 1) ELSE i

NoKeyAK == [ok |-> FALSE, opts |-> <<>>, comment |-> <<>>, rest |-> <<>>]
(* one line of ParseAuthorizedKey: returns [hit, opts, comment] *)
LineAK(raw) ==
  LET cr == First(raw, {"r"})
      line == Trim(IF cr = 0 THEN raw ELSE Upto(raw, cr - 1))
      miss == [hit |-> FALSE, opts |-> <<>>, comment |-> <<>>]
  IN IF line = <<>> \/ line[1] = "#" THEN miss
     ELSE LET i == First(line, WS) IN
       IF i = 0 THEN miss
       ELSE LET t1 == PAK(From(line, i)) IN
         IF t1.ok /\ Upto(line, i - 1) = KeyType THEN [hit |-> TRUE, opts |-> <<>>, comment |-> t1.comment]
         ELSE LET sc == Scan(line, 1, FALSE, 1, <<>>)
                  j0 == IF sc.term = 0 THEN Len(line) ELSE sc.term
                  j == SkipWS(line, j0)
              IN IF j > Len(line) THEN miss
                 ELSE LET l2 == From(line, j)
                          k == First(l2, WS)
                      IN IF k = 0 THEN miss
                         ELSE LET t2 == PAK(From(l2, k)) IN
                              IF t2.ok /\ Upto(l2, k - 1) = KeyType THEN [hit |-> TRUE, opts |-> sc.opts, comment |-> t2.comment]
                              ELSE miss

RECURSIVE ParseAK(_)
ParseAK(in) ==
  IF in = <<>> THEN NoKeyAK
  ELSE LET e == First(in, {"n"})
           raw == IF e = 0 THEN in ELSE Upto(in, e - 1)
           rest == IF e = 0 THEN <<>> ELSE From(in, e + 1)
           r == LineAK(raw)
       IN IF r.hit THEN [ok |-> TRUE, opts |-> r.opts, comment |-> r.comment, rest |-> rest]
          ELSE ParseAK(rest)

(* ParseKnownHosts: res = "ok" | "eof" | "err" *)
NoKH(w) == [res |-> w, marker |-> <<>>, hosts |-> <<>>, comment |-> <<>>, rest |-> <<>>]
RECURSIVE ParseKH(_)
ParseKH(in) ==
  IF in = <<>> THEN NoKH("eof")
  ELSE LET e == First(in, {"n"})
           raw == IF e = 0 THEN in ELSE Upto(in, e - 1)
           rest == IF e = 0 THEN <<>> ELSE From(in, e + 1)
           cr == First(raw, {"r"})
           line == Trim(IF cr = 0 THEN raw ELSE Upto(raw, cr - 1))
       IN IF line = <<>> \/ line[1] = "#" \/ First(line, WS) = 0 THEN ParseKH(rest)
          ELSE LET f0 == FieldsOf(line) IN
            IF Len(f0) < 3 \/ Len(f0) > 5 THEN NoKH("err")
            ELSE LET hasM == f0[1][1] = "@"
                     mk == IF hasM THEN Tail(f0[1]) ELSE <<>>
                     f == IF hasM THEN Tail(f0) ELSE f0
                     k == PAK(JoinWith(SubSeq(f, 3, Len(f)), <<"s">>))
                 IN IF ~k.ok \/ f[2] # KeyType THEN NoKH("err")
                    ELSE [res |-> "ok", marker |-> mk, hosts |-> SplitOn(f[1], ","), comment |-> k.comment, rest |-> rest]

-----------------------------------------------------------------------------
(* sshd's split of an options field.  Units: \" is one unit (it never opens or closes a quoted value) *)
RECURSIVE Units(_)
Units(s) == IF s = <<>> THEN <<>>
            ELSE IF Len(s) >= 2 /\ s[1] = "b" /\ s[2] = "q" THEN <<<<"b", "q">>>> \o Units(From(s, 3))
            ELSE <<<<s[1]>>>> \o Units(Tail(s))
(* walk the units: cur = option being collected; returns [good, opts]; good = the field is well formed:
   every quote closed and no white space outside quotes *)
RECURSIVE Walk(_, _, _, _)
Walk(us, inQ, cur, opts) ==
  IF us = <<>> THEN [good |-> ~inQ, opts |-> IF cur = <<>> THEN opts ELSE Append(opts, cur)]
  ELSE LET u == us[1] IN
       IF u = <<"q">> THEN Walk(Tail(us), ~inQ, cur \o u, opts)
       ELSE IF u = <<",">> /\ ~inQ THEN Walk(Tail(us), inQ, <<>>, IF cur = <<>> THEN opts ELSE Append(opts, cur))
       ELSE IF Len(u) = 1 /\ IsWS(u[1]) /\ ~inQ THEN [good |-> FALSE, opts |-> <<>>]
       ELSE Walk(Tail(us), inQ, cur \o u, opts)
RefSplit(o) == Walk(Units(o), FALSE, <<>>, <<>>)

(* a line assembled from: lead ws, options field (<<>> = absent), sep1, type field, sep2, blob field,
   comment (with its leading separator, <<>> = absent), trailing ws, end of line, following text *)
Render(x) == x.lead \o x.opts \o (IF x.opts = <<>> THEN <<>> ELSE x.sep1) \o x.type \o (IF x.type = <<>> THEN <<>> ELSE x.sep2)
             \o x.blob \o x.comment \o x.trail \o x.eol \o x.next

(* the grammar's verdict on the first line of the structure.  Empty pieces between commas are dropped
   (sshd itself rejects such a field); an options field is well formed when every quote is closed and
   no white space occurs outside quotes *)
OptsGood(x) == x.opts = <<>> \/ RefSplit(x.opts).good
GrammarOK(x) == x.type = KeyType /\ x.blob = <<"K">> /\ OptsGood(x)
GrammarOpts(x) == IF x.opts = <<>> THEN <<>> ELSE RefSplit(x.opts).opts
GrammarComment(x) == Trim(x.comment)
(* what follows the first line.  A bare CR does not end a line: the text after it is dropped with the line *)
HasLF(x) == First(x.eol, {"n"}) # 0
GrammarRest(x) == IF HasLF(x) THEN x.next ELSE <<>>
NextIsKey(x) == x.next = <<"T", "s", "K">>                  \* the only following text used that is itself a key line

-----------------------------------------------------------------------------
Unset == [ok |-> FALSE, opts |-> <<>>, comment |-> <<>>, rest |-> <<>>]
Init == /\ \E mn \in Menus :
             \E ld \in mn.lead, op \in mn.opts, s1 \in mn.sep1, ty \in mn.type, s2 \in mn.sep2, bl \in mn.blob,
                cm \in mn.comment, tr \in mn.trail, el \in mn.eol, nx \in mn.next :
               /\ (nx # <<>> => el # <<>>)             \* following text needs a line end (LF, CRLF or the bare CR)
               /\ (op # <<>> => ~IsWS(op[1]) /\ ~IsWS(op[Len(op)]))   \* surrounding white space belongs to lead / sep1
               /\ st = [kind |-> mn.kind, lead |-> ld, opts |-> op, sep1 |-> s1, type |-> ty, sep2 |-> s2, blob |-> bl,
                        comment |-> cm, trail |-> tr, eol |-> el, next |-> nx]
        /\ inp = Render(st)
        /\ ak = Unset /\ kh = NoKH("unset") /\ phase = "init"

Parse == /\ phase = "init"
         /\ ak' = IF st.kind = "ak" THEN ParseAK(inp) ELSE Unset
         /\ kh' = IF st.kind = "kh" THEN ParseKH(inp) ELSE NoKH("unset")
         /\ phase' = "done"
         /\ UNCHANGED <<st, inp>>
Next == Parse
Spec == Init /\ [][Next]_vars

-----------------------------------------------------------------------------
Done == phase = "done"
IsAK == st.kind = "ak"
IsKH == st.kind = "kh"

(* C38, authorized_keys: a key is returned for the first line exactly when the grammar accepts it, with the options as
   sshd splits them, the comment and the unparsed remainder; otherwise the line is skipped and the next line decides *)
AKMatchesGrammar == (Done /\ IsAK) =>
   IF GrammarOK(st)
   THEN ak = [ok |-> TRUE, opts |-> GrammarOpts(st), comment |-> GrammarComment(st), rest |-> GrammarRest(st)]
   ELSE IF HasLF(st) /\ NextIsKey(st) THEN ak = [ok |-> TRUE, opts |-> <<>>, comment |-> <<>>, rest |-> <<>>]
   ELSE ~ak.ok
(* a key is returned only when the declared type matches the blob *)
AKTypeMatches == (Done /\ IsAK /\ ak.ok /\ ~(HasLF(st) /\ NextIsKey(st))) => (st.type = KeyType /\ st.blob = <<"K">>)

(* C38, known_hosts.  For kind "kh" the same record shape carries  lead  marker(=opts)  sep1  hosts-ws-declaredtype(=type)
   sep2  blob  comment ...  *)
KHDeclared == FieldsOf(st.type)                             \* <<hosts, declared type>>
HasMarker == st.opts # <<>> /\ st.opts[1] = "@"
KHok == (Done /\ IsKH /\ kh.res = "ok") =>
          /\ Len(KHDeclared) = 2 /\ KHDeclared[2] = KeyType /\ st.blob = <<"K">>     \* only when the declared type matches the blob
          /\ (st.opts = <<>> \/ HasMarker)
          /\ kh.hosts = SplitOn(KHDeclared[1], ",")
          /\ kh.marker = (IF st.opts = <<>> THEN <<>> ELSE Tail(st.opts))
          /\ kh.comment = JoinWith(FieldsOf(st.comment), <<"s">>)
          /\ kh.rest = GrammarRest(st)
(* a well-formed entry whose field count stays within the implementation's limit of five is returned *)
KHaccepts == (Done /\ IsKH /\ Len(KHDeclared) = 2 /\ KHDeclared[2] = KeyType /\ st.blob = <<"K">>
              /\ (st.opts = <<>> \/ HasMarker)
              /\ Len(FieldsOf(st.comment)) + (IF HasMarker THEN 1 ELSE 0) <= 2) => kh.res = "ok"
=============================================================================
