SPECIFICATION TraceSpec
CONSTANT MaxTried = 64
CONSTRAINT HWM
POSTCONDITION TraceAccepted
CHECK_DEADLOCK FALSE
