--------------------------- MODULE SSHPrelude_Trace ---------------------------
(* Binding T for X07: validates executions recorded from the REAL library (ssh.NewClientConn / ssh.NewServerConn
   against the independent raw peer of harness/x07) by the model-independent long-session driver (TestLong)
   against SSHPrelude.  A recorded line is
     "cfg"  - the configuration of the session and what was observed when the library started (its own
              identification line or its refusal; with start = "kex0", its first KEXINIT after a plain version
              exchange);
     "step" - one thing the peer did (a run of identification-string bytes, a packet, n pings, a burst, end of
              file) and what was observed at the quiescent point after it: packets the library wrote, results of
              the constructor and of Conn.Wait, disconnect reason, whether the library closed the connection.
   The event must be one whose outcome the specification determines (Legal), and the observation must be that of
   one of the outcomes the specification allows.  Plumbing as in TraceLib.tla (own names, because SSHPrelude
   defines Ev). *)
EXTENDS SSHPrelude, Json

VARIABLES l

JTrace == ndJsonDeserialize("trace.ndjson")
Ln == JTrace[l]
IsLn(e) == l <= Len(JTrace) /\ JTrace[l].ev = e /\ l' = l + 1

HWM == IF l > TLCGet(1) THEN TLCSet(1, l) ELSE TRUE
TraceAccepted == IF TLCGet(1) = Len(JTrace) + 1 THEN TRUE
                 ELSE /\ PrintT("HWM " \o ToString(TLCGet(1)))
                      /\ FALSE
HWMInit == TLCSet(1, 1)

\* packets written, modulo an in-order prefix of the PONGs that may still be flushed after a failed key exchange
RECURSIVE StripFlush(_, _, _)
StripFlush(out, from, n) ==
  IF n > 0 /\ out # <<>> /\ out[1].t = "pong" /\ out[1].i = from + 1 THEN StripFlush(Tail(out), from + 1, n - 1) ELSE out
SameClass(got, want, weak) == got = want \/ (weak /\ want = "eof" /\ got = "err")

ObsOK(s, ln) ==
  /\ StripFlush(ln.out, s.fl.from, s.fl.n) = s.out
  /\ SameClass(ln.res, s.res, s.weak)
  /\ SameClass(ln.wait, s.wait, s.weak)
  /\ (s.res = "disc" \/ s.wait = "disc") => ln.disc = s.disc
  /\ ln.closed = s.closed

\* between recorded sessions: a state of the specification in which nothing can happen
Parked == Opened(Start("client", "junk", FALSE, FALSE, FALSE))

TReset == IsLn("reset") /\ S' = Parked /\ hist' = hist
TCfg == /\ IsLn("cfg")
        /\ Ln.role \in {"client", "server"} /\ Ln.own \in {"default", "custom", "junk"}
        /\ LET s0 == Opened(Start(Ln.role, Ln.own, Ln.sp, Ln.xc, Ln.rk))
               s1 == IF Ln.start = "kex0" /\ s0.ph = "ver" THEN AfterPlain(s0) ELSE s0 IN
           ObsOK(s1, Ln) /\ S' = s1
        /\ hist' = hist
TStep == /\ IsLn("step")
         /\ LET e == Ev(Ln.k, Ln.c, Ln.n) IN
            /\ Legal(S, e)
            /\ \E ns \in Outcomes(S, e) : ObsOK(ns, Ln) /\ S' = ns
         /\ hist' = hist

TraceInit == S = Parked /\ hist = <<>> /\ l = 1 /\ HWMInit
TraceNext == TReset \/ TCfg \/ TStep
TraceSpec == TraceInit /\ [][TraceNext]_<<S, hist, l>>
=============================================================================
