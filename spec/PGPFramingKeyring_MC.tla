-------------------------- MODULE PGPFramingKeyring_MC --------------------------
(* Bounded instances of PGPFramingKeyring (X03 d): alphabets, the exhaustive configurations and the case generator.
   Keys: K1 (RSA, secret variant KS1), K2 (ECDSA); subkeys S1 (RSA: its algorithm can sign), S2 (ElGamal: it cannot);
   KE an ElGamal key in a primary key packet; user ids U1, U2. *)
EXTENDS PGPFramingKeyring, Json

Signers == {<<"K", 1>>, <<"K", 2>>, <<"S", 1>>}
T0(k) == Tok(k, 0, 0)
Full == {Tok("K", 1, 0), Tok("K", 2, 0), Tok("KS", 1, 0), T0("KE"), T0("KU"),
         Tok("S", 0, 1), Tok("S", 0, 2), Tok("SS", 0, 1),
         Tok("U", 0, 1), Tok("U", 0, 2),
         Tok("C", 1, 1), Tok("C", 1, 2), Tok("C", 2, 1), Tok("G", 1, 1), Tok("Q", 1, 1),
         Tok("R", 1, 0), Tok("R", 2, 0),
         Tok("B", 1, 1), Tok("B", 1, 2), Tok("B", 2, 1), Tok("BN", 1, 1), Tok("V", 1, 1),
         Tok("D", 1, 0), T0("X"), T0("A"), T0("EU"), T0("EM"), T0("T")}
\* the core of the grammar: two keys, one user id, one subkey, the signatures that fit or do not fit, an unknown packet
Core == {Tok("K", 1, 0), Tok("K", 2, 0), Tok("U", 0, 1), Tok("C", 1, 1), Tok("C", 2, 1), Tok("R", 1, 0),
         Tok("S", 0, 1), Tok("B", 1, 1), Tok("V", 1, 1), T0("X"), T0("EU"), Tok("KS", 1, 0)}
Core13 == Core \cup {T0("EM")}
Core10 == Core \ {T0("X"), Tok("KS", 1, 0)}

Name(t) == t.k \o (IF t.a > 0 THEN ToString(t.a) ELSE "") \o (IF t.b > 0 THEN (IF t.a > 0 THEN "" ELSE "_") \o ToString(t.b) ELSE "")
CEnt(e) == [pk |-> e.pk, priv |-> e.priv, ids |-> e.ids, subs |-> e.subs, nrev |-> Len(e.revs)]
Emit == \A r \in {Res} : PrintT("TRACE " \o ToJson([inp |-> [i \in 1..Len(inp) |-> Name(inp[i])],
                                   el |-> [i \in 1..Len(r.el) |-> CEnt(r.el[i])], err |-> r.err, wf |-> WellFormed]))
\* hide the input: one witness per reachable acceptor state
StView == st
=============================================================================
