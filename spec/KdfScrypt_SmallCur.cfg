SPECIFICATION Spec
CONSTANTS
  IntBits = 63
  KeyLenGuard = FALSE
  MemLog2 = 27
  WorkLog2 = 20
  NSet <- CurN
  RSet <- CurRP
  PSet <- CurRP
  KSet <- KeyLens
INVARIANTS NeverPanics Conforms
CHECK_DEADLOCK FALSE
