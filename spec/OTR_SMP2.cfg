SPECIFICATION Spec
CONSTANTS
  Starts <- StartA
  MaxData = 0
  FragChoices <- F1
  MaxFaults = 0
  FaultKinds <- NoFaults
  MaxAuth = 2
  Secrets <- S12
  Questions <- Q0
  AllowEnd = FALSE
  MaxRequery = 0
  FixCommitState = TRUE
  SeqSMP = FALSE
  FixSMPReset = TRUE
INVARIANTS TypeOK InOrderNoDup AllDelivered SlotsSuffice SlotBound SMPSound RunOutcome
CHECK_DEADLOCK FALSE
