SPECIFICATION Spec
CONSTANTS
  Starts <- StartA
  MaxData = 1
  FragChoices <- F1
  MaxFaults = 0
  FaultKinds <- NoFaults
  MaxAuth = 2
  Secrets <- S12
  Questions <- Q0
  AllowEnd = FALSE
  MaxRequery = 0
  FixCommitState = TRUE
  SeqSMP = FALSE
  FixSMPReset = FALSE
INVARIANTS TypeOK InOrderNoDup AllDelivered SlotsSuffice SlotBound SMPSound RunOutcomeKnown
CHECK_DEADLOCK FALSE
