SPECIFICATION Spec
CONSTANTS Scenarios <- ScNoise
          ServerStrictRule = "peer"
INVARIANTS Emit
CHECK_DEADLOCK FALSE
