SPECIFICATION Spec
CONSTANTS Scenarios <- ScNoise
INVARIANTS Emit
CHECK_DEADLOCK FALSE
