SPECIFICATION Spec
CONSTANTS
  P = 19
  W = 32
  B = 3
  N = 13
INVARIANTS SpecRoundTrip SpecOnlyCurve SpecOneEncoding SpecCanonical ToyShape Laws TableOK BoundaryCovered
CHECK_DEADLOCK FALSE
