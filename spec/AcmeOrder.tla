------------------------------ MODULE AcmeOrder ------------------------------
(* GROWTH SPECIFICATION X02 -- order / authorization / challenge life cycle of the RFC 8555 client in
   golang.org/x/crypto/acme:

     rfc8555.go  AuthorizeOrder, GetOrder, WaitOrder, responseOrder, CreateOrderCert (finalize ->
                 WaitOrder -> fetchCertRFC), fetchCertRFC (size / PEM type / chain length limits, the
                 bundle flag), ListCertAlternates, DeactivateReg
     acme.go     GetAuthorization, WaitAuthorization, GetChallenge, Accept, RevokeAuthorization,
                 FetchCert
     http.go     post() retry loop as far as it is visible here (retriable 5xx -> RetryBackoff,
                 non-retriable 4xx -> *acme.Error, transport error, context); the nonce discipline
                 of that layer is property C50 (spec/AcmeNonce.tla) and is not repeated.

   The ACME server is the ENVIRONMENT.  It owns one order with one authorization with one
   challenge (statuses per RFC 8555 section 7.1.6) and an account; the resources evolve by
   environment steps (EnvStep: one RFC transition at a time; with Malformed = TRUE also status
   regressions and the status string "unknown") and by the server-side effect of client requests
   (newOrder, finalize, challenge accept, authorization / account deactivation).  Every request is
   answered with a reply SHAPE of the server's choosing:

     ok       expected 2xx code, well formed JSON/PEM body showing the current state, Location set
     ctype    as ok but Content-Type text/html (the client never inspects the content type)
     noloc    as ok but without a Location header (the client takes Order.URI from Location)
     nocert   as ok, order is valid, but the "certificate" URL is missing
     garbage  2xx code with a body that is not JSON
     e4xx     403 + problem document (not retriable)      e5xx   503 + problem document (retriable)
     neterr   transport error                             cancel slow reply; the caller's context
                                                                 is cancelled while waiting
   and poll replies carry a Retry-After value (0 = header absent or "0").

   The client is one sequential caller; one action per request / reply / timer:
     Call(op)  Send  Reply  Timer (poll timer fired)  Backoff (RetryBackoff decision)  BackoffWake
     CancelWait (context cancelled while in a timer)  Return

   PROPERTIES (stated from the package documentation and RFC 8555; checked as invariants below)
     P1  no false success: WaitOrder returns an order only when the last reply it received showed
         "ready" or "valid"; WaitAuthorization returns an authorization only for "valid";
         CreateOrderCert returns a chain only when the last order status it observed in that call
         was "valid" and the certificate URL served a usable chain.
     P2  typed failures: WaitOrder -> *OrderError iff the order it observed is "invalid";
         WaitAuthorization -> *AuthorizationError iff "invalid"; CreateOrderCert -> *OrderError when
         the order ends "invalid" or "ready" (anything but "valid"); a CA error response is returned
         as *acme.Error; cancellation as the context's error.
     P3  finalize exactly once: per CreateOrderCert call the server accepts at most one finalize
         request, and re-sends happen only after a retriable error reply (at most Budget of them).
     P4  polling never busy-loops: every poll after the first is preceded by a timer of
         Retry-After seconds when that is positive, else of the 1 s default.
     P5  polling stops on cancel: nothing is sent after the context was cancelled and the call
         returns at that moment.
     P6  the certificate is requested only after an order reply with status "valid".
     P7  every result (value or typed error) is derived from the LAST reply received.
     P8  chain limits: a returned chain has >= 1 certificate, exactly 1 without bundle, at most
         5 (maxChainLen) with bundle, all from CERTIFICATE blocks; an empty / garbage / oversized /
         over-long / wrongly typed chain is an error.
     P9  Wait* keeps polling exactly while the last observation is not final for it (never past a
         final status, never returning on a non-final one).
   Documented limitation modelled as the code behaves (observation, not a defect at the level of
   the documentation): WaitAuthorization treats only valid / invalid as final, so "deactivated",
   "expired" and "revoked" are polled until the context ends.                                  *)
EXTENDS Integers, Sequences, FiniteSets, TLC

CONSTANTS OpSet,       \* names of the public methods that may be called
          Bundles,     \* subset of BOOLEAN: values of the bundle argument (CreateOrderCert, FetchCert)
          MaxCalls,    \* public calls per behaviour
          MaxReq,      \* server replies per behaviour
          MaxEnv,      \* environment steps per behaviour
          Shapes,      \* reply shapes the server may use
          RetrySet,    \* Retry-After values on poll replies (0 = absent; negative = a date in the past)
          Budget,      \* RetryBackoff(n) > 0 iff n <= Budget
          Malformed,   \* TRUE: status regressions / "unknown" / 2xx where RFC 8555 demands an error
          CertKinds,   \* bodies the certificate URL may serve
          AltSet,      \* numbers of rel="alternate" Link headers
          InitStates,  \* set of <<order, authorization, challenge>> statuses to start from
          CallOK(_, _, _, _), \* CallOK(op, order, authz, challenge): may op be the FIRST call from this server state
                       \* (generators use it to skip initial states that differ only in resources op never sees)
          EnvOK(_),    \* EnvOK(r): may the environment change resource r ("ord" | "az" | "ch") now (generators use it
                       \* to skip changes of resources the pending request does not show)
          FixNegRA,    \* TRUE: a non-positive poll delay falls back to the default (repaired code)
          Mut          \* "none", or the name of a deliberately wrong client (non-vacuity of P1..P9)

OrdSt == {"pending", "ready", "processing", "valid", "invalid"}
AzSt  == {"pending", "valid", "invalid", "deactivated", "expired", "revoked"}
ChSt  == {"pending", "processing", "valid", "invalid"}
Weird == "unknown"

TwoXX     == {"ok", "ctype", "noloc", "nocert", "garbage"}
OrderReqs == {"newOrder", "order", "finalize"}
JsonReqs  == OrderReqs \cup {"authz", "chal", "accept"}
BackoffDelay == 2
DefaultDelay == 1
MaxChainLen  == 5

VARIABLES ord, az, ch, acct, finSeen,       \* server resources
          nrep, nenv,                       \* server: replies given (serial of the last), env steps taken
          pc, op, cur, calls, tries, delay, slept, mustWait, cancelled,
          obs,                              \* last reply received in this call
          lastOrd,                          \* last order status observed in this call ("" = none)
          finReq, finAcc,                   \* finalize requests sent / accepted (2xx) in this call
          res,                              \* result of the call
          busy, late, early,                \* history: P4 / P5 / P6 broken at some point
          ev                                \* last event (hidden by VIEW; history for generation)

svars == <<ord, az, ch, acct, finSeen, nrep, nenv>>
cvars == <<pc, op, cur, calls, tries, delay, slept, mustWait, cancelled, obs, lastOrd, finReq, finAcc, res, busy, late, early>>
vars  == <<svars, cvars, ev>>

E(t, k, a, b, n, m) == [t |-> t, k |-> k, a |-> a, b |-> b, n |-> n, m |-> m]
NoOp  == [name |-> "", bundle |-> FALSE]
NoObs == [k |-> "", sh |-> "", st |-> "", s |-> 0]
NoRes == [c |-> "", st |-> "", s |-> 0, n |-> 0, u |-> FALSE]

InitWith(o, a, c) ==
  /\ ord = o /\ az = a /\ ch = c /\ acct = "valid" /\ finSeen = (o \in {"processing", "valid"})
  /\ nrep = 0 /\ nenv = 0
  /\ pc = "idle" /\ op = NoOp /\ cur = "" /\ calls = 0 /\ tries = 0 /\ delay = 0 /\ slept = 0
  /\ mustWait = FALSE /\ cancelled = FALSE /\ obs = NoObs /\ lastOrd = "" /\ finReq = 0 /\ finAcc = 0
  /\ res = NoRes /\ busy = FALSE /\ late = FALSE /\ early = FALSE
  /\ ev = E("init", o, a, c, 0, 0)

Init == \E t \in InitStates : InitWith(t[1], t[2], t[3])

-----------------------------------------------------------------------------
(* Environment: RFC 8555 section 7.1.6 *)

OrdNext(o, a) == CASE o = "pending"    -> (IF a = "valid" THEN {"ready"} ELSE {}) \cup {"invalid"}
                   [] o = "ready"      -> (IF finSeen THEN {"processing"} ELSE {}) \cup {"invalid"}
                   [] o = "processing" -> {"valid", "invalid"}
                   [] OTHER            -> {}
AzNext(a, c)  == CASE a = "pending" -> (IF c = "valid" THEN {"valid"} ELSE {}) \cup (IF c = "invalid" THEN {"invalid"} ELSE {})
                                        \cup {"expired", "deactivated"}
                   [] a = "valid"   -> {"expired", "revoked", "deactivated"}
                   [] OTHER         -> {}
ChNext(c)     == CASE c = "processing" -> {"valid", "invalid"} [] OTHER -> {}

\* the server changes the status of one resource; it does so while a request is in flight, i.e.
\* right before it answers (steps at other moments are not observable earlier than that)
EnvTo(o2, a2, c2) ==
  /\ ord' = o2 /\ az' = a2 /\ ch' = c2 /\ nenv' = nenv + 1
  /\ ev' = E("env", o2, a2, c2, 0, 0)
  /\ UNCHANGED <<acct, finSeen, nrep, cvars>>
EnvStep ==
  /\ pc = "wait" /\ nenv < MaxEnv /\ nrep < MaxReq
  /\ \/ EnvOK("ord") /\ \E o2 \in (IF Malformed THEN OrdSt \cup {Weird} ELSE OrdNext(ord, az)) \ {ord} : EnvTo(o2, az, ch)
     \/ EnvOK("az") /\ \E a2 \in (IF Malformed THEN AzSt \cup {Weird} ELSE AzNext(az, ch)) \ {az} : EnvTo(ord, a2, ch)
     \/ EnvOK("ch") /\ \E c2 \in (IF Malformed THEN ChSt \cup {Weird} ELSE ChNext(ch)) \ {ch} : EnvTo(ord, az, c2)

-----------------------------------------------------------------------------
(* Client *)

First(n) == CASE n = "AuthorizeOrder" -> "newOrder"
              [] n \in {"GetOrder", "WaitOrder"} -> "order"
              [] n = "CreateOrderCert" -> "finalize"
              [] n = "FetchCert" -> "cert"
              [] n = "ListCertAlternates" -> "alts"
              [] n \in {"GetAuthorization", "WaitAuthorization"} -> "authz"
              [] n = "GetChallenge" -> "chal"
              [] n = "Accept" -> "accept"
              [] n = "RevokeAuthorization" -> "deact"
              [] n = "DeactivateReg" -> "deactAcct"
AllOps == {"AuthorizeOrder", "GetOrder", "WaitOrder", "CreateOrderCert", "FetchCert", "ListCertAlternates",
           "GetAuthorization", "WaitAuthorization", "GetChallenge", "Accept", "RevokeAuthorization", "DeactivateReg"}
HasBundle(n) == n \in {"CreateOrderCert", "FetchCert"}

Call(n, b) ==
  /\ pc = "idle" /\ calls < MaxCalls
  /\ calls = 0 => CallOK(n, ord, az, ch)
  /\ IF HasBundle(n) THEN b \in Bundles ELSE b = FALSE
  /\ op' = [name |-> n, bundle |-> b] /\ cur' = First(n) /\ pc' = "req" /\ calls' = calls + 1
  /\ tries' = 0 /\ delay' = 0 /\ slept' = 0 /\ mustWait' = FALSE /\ cancelled' = FALSE
  /\ obs' = NoObs /\ lastOrd' = "" /\ finReq' = 0 /\ finAcc' = 0 /\ res' = NoRes
  /\ ev' = E("call", n, IF b THEN "bundle" ELSE "", "", 0, 0)
  /\ UNCHANGED <<svars, busy, late, early>>

\* the signed request reaches the server
Send ==
  /\ pc = "req"
  /\ pc' = "wait"
  /\ busy' = (busy \/ (mustWait /\ slept < DefaultDelay))
  /\ late' = (late \/ cancelled)
  /\ early' = (early \/ (op.name = "CreateOrderCert" /\ cur = "cert" /\ lastOrd # "valid"))
  /\ finReq' = IF cur = "finalize" THEN finReq + 1 ELSE finReq
  /\ finSeen' = (finSeen \/ cur = "finalize")
  /\ mustWait' = FALSE /\ slept' = 0
  /\ ev' = E("req", cur, "", "", slept, 0)
  /\ UNCHANGED <<ord, az, ch, acct, nrep, nenv, op, cur, calls, tries, delay, cancelled, obs, lastOrd, finAcc, res>>

Shown(k, o, a, c, ac) == CASE k \in OrderReqs -> o
                           [] k \in {"authz", "deact"} -> a
                           [] k \in {"chal", "accept"} -> c
                           [] k = "deactAcct" -> ac
                           [] OTHER -> ""

\* which shapes make sense for a request kind (shapes that would be indistinguishable from "ok" are left out)
ShapeOK(sh, k, st) ==
  /\ sh \in Shapes
  /\ sh = "noloc" => k \in OrderReqs
  /\ sh = "nocert" => (k \in OrderReqs /\ st = "valid")
  /\ sh = "garbage" => k \in JsonReqs
  \* a conforming server refuses everything from a deactivated account and a finalize of a non-ready order
  /\ (~Malformed /\ sh \in TwoXX) => (acct = "valid" /\ (k = "finalize" => ord = "ready"))

\* what fetchCertRFC makes of the body kinds, as (class, number of DER certificates returned)
\*   c<N>      N CERTIFICATE blocks             empty     zero-length body
\*   junk      bytes that are not PEM           keyfirst  first block is not a CERTIFICATE
\*   c1key     a CERTIFICATE then a PRIVATE KEY block     big   more than maxCertChainSize(+1/33) bytes
ChainLen(cb) == CASE cb = "c1" -> 1 [] cb = "c2" -> 2 [] cb = "c5" -> 5 [] cb = "c6" -> 6 [] cb = "c1key" -> 1 [] OTHER -> 0
CertResult(cb, bundle) ==
  CASE cb \in {"c1", "c2", "c5"} -> [c |-> "ok", n |-> IF bundle THEN ChainLen(cb) ELSE 1]
    [] cb = "c6"    -> IF bundle THEN [c |-> "other", n |-> 0] ELSE [c |-> "ok", n |-> 1]
    [] cb = "c1key" -> IF bundle THEN [c |-> "other", n |-> 0] ELSE [c |-> "ok", n |-> 1]
    [] OTHER        -> [c |-> "other", n |-> 0]

D(t, c, nx, n, u) == [t |-> t, c |-> c, nx |-> nx, n |-> n, u |-> u]
Fin(c)  == D("done", c, "", 0, FALSE)

OrderFinal(st) == st \in {"ready", "valid", "invalid"}
\* deliberately wrong clients, to show that the invariants are not vacuous (see AcmeOrder_Mut*.cfg)
OrdDoneSet == IF Mut = "processingDone" THEN {"ready", "valid", "processing"} ELSE {"ready", "valid"}

\* the client's reaction to a reply of shape sh showing status st (cb: certificate body, na: alternates)
Decide(sh, st, cb, na) ==
  CASE sh = "neterr" -> Fin("neterr")
    [] sh = "cancel" -> Fin("ctx")
    [] sh = "e4xx"   -> Fin("acmeerr")
    [] sh = "e5xx"   -> D("backoff", "", "", 0, FALSE)
    [] OTHER ->
       CASE cur = "newOrder" -> IF sh = "garbage" THEN Fin("other") ELSE D("done", "ok", "", 0, sh # "noloc")
         [] cur = "order" /\ op.name = "GetOrder" -> IF sh = "garbage" THEN Fin("other") ELSE D("done", "ok", "", 0, sh # "noloc")
         [] cur = "order" /\ op.name # "GetOrder" ->      \* WaitOrder, also as called by CreateOrderCert
              IF sh = "garbage" THEN D("sleep", "", "", 0, FALSE)
              ELSE IF st = "invalid" THEN Fin("ordererr")
              ELSE IF st \in OrdDoneSet
                   THEN IF op.name = "WaitOrder" THEN D("done", "ok", "", 0, sh # "noloc")
                        ELSE IF st = "valid" \/ Mut = "certEarly"
                             THEN (IF sh = "nocert" THEN Fin("other") ELSE D("next", "", "cert", 0, FALSE))
                             ELSE Fin("ordererr")
                   ELSE D("sleep", "", "", 0, FALSE)
         [] cur = "finalize" ->
              IF sh = "garbage" THEN Fin("other")
              ELSE IF st = "valid" THEN (IF sh = "nocert" THEN Fin("other") ELSE D("next", "", "cert", 0, FALSE))
              ELSE IF sh = "noloc" THEN Fin("other")       \* WaitOrder("") fails in the transport
              ELSE D("next", "", "order", 0, FALSE)
         [] cur = "cert" -> LET r == CertResult(cb, op.bundle) IN D("done", r.c, "", r.n, FALSE)
         [] cur = "alts" -> D("done", "ok", "", na, FALSE)
         [] cur = "authz" /\ op.name = "GetAuthorization" -> IF sh = "garbage" THEN Fin("other") ELSE Fin("ok")
         [] cur = "authz" /\ op.name # "GetAuthorization" ->
              IF sh = "garbage" THEN D("sleep", "", "", 0, FALSE)
              ELSE IF st = "valid" THEN Fin("ok")
              ELSE IF st = "invalid" THEN (IF Mut = "invalidOk" THEN Fin("ok") ELSE Fin("authzerr"))
              ELSE D("sleep", "", "", 0, FALSE)
         [] cur \in {"chal", "accept"} -> IF sh = "garbage" THEN Fin("other") ELSE Fin("ok")
         [] OTHER -> Fin("ok")                               \* deact, deactAcct: body ignored

PollDelay(ra) == IF ra > 0 THEN ra
                 ELSE IF ra = 0 \/ FixNegRA THEN DefaultDelay
                 ELSE 0                                      \* NewTimer(d <= 0) fires at once
FxDom(sh) == IF sh \in TwoXX /\ cur = "finalize" /\ ord = "ready" THEN {"processing", "valid"}
             ELSE IF sh \in TwoXX /\ cur = "newOrder" THEN {"pending", "ready"} ELSE {""}
CbDom(sh) == IF sh \in TwoXX /\ cur = "cert" THEN CertKinds ELSE {""}
NaDom(sh) == IF sh \in TwoXX /\ cur = "alts" THEN AltSet ELSE {0}

\* server-side effect of a request answered with shape sh (fx: the server's choice for finalize / newOrder)
Effect(sh, fx) ==
  LET two == sh \in TwoXX IN
  [ord  |-> IF two /\ cur = "finalize" /\ ord = "ready" THEN fx
            ELSE IF two /\ cur = "newOrder" THEN fx ELSE ord,
   az   |-> IF two /\ cur = "newOrder" THEN (IF fx = "ready" THEN "valid" ELSE "pending")
            ELSE IF two /\ cur = "deact" /\ az \in {"pending", "valid"} THEN "deactivated" ELSE az,
   ch   |-> IF two /\ cur = "newOrder" THEN (IF fx = "ready" THEN "valid" ELSE "pending")
            ELSE IF two /\ cur = "accept" /\ ch = "pending" THEN "processing" ELSE ch,
   acct |-> IF two /\ cur = "deactAcct" THEN "deactivated" ELSE acct]

\* the server processes the request (side effect), answers; the client takes its decision.
\* (effect, shown status and decision are bound once: TLC re-evaluates LET definitions at every use)
Reply(sh, fx, cb, na) ==
  /\ pc = "wait" /\ nrep < MaxReq
  /\ \E x \in {Effect(sh, fx)} :
     \E shown \in {Shown(cur, x.ord, x.az, x.ch, x.acct)} :
     /\ ShapeOK(sh, cur, shown)
     /\ \E st \in {IF sh \in TwoXX /\ sh # "garbage" THEN shown ELSE ""} :
        \E d \in {Decide(sh, st, cb, na)} :
        \E ra \in (IF d.t = "sleep" THEN RetrySet ELSE {0}) :
        \E s \in {nrep + 1} :
        /\ nrep' = s /\ ord' = x.ord /\ az' = x.az /\ ch' = x.ch /\ acct' = x.acct
        /\ finSeen' = IF sh \in TwoXX /\ cur = "newOrder" THEN FALSE ELSE finSeen
        /\ obs' = [k |-> cur, sh |-> sh, st |-> st, s |-> s]
        /\ lastOrd' = IF cur \in OrderReqs /\ sh \in TwoXX /\ sh # "garbage" THEN st ELSE lastOrd
        /\ finAcc' = IF cur = "finalize" /\ sh \in TwoXX THEN finAcc + 1 ELSE finAcc
        /\ ev' = E("reply", sh, st, IF cb # "" THEN cb ELSE fx, s, IF cur = "alts" THEN na ELSE ra)
        /\ cancelled' = (sh = "cancel")
        /\ CASE d.t = "done" ->
                  /\ pc' = "done"
                  /\ res' = [c |-> d.c, st |-> st, s |-> s, n |-> d.n, u |-> d.u]
                  /\ UNCHANGED <<cur, tries, delay, mustWait>>
             [] d.t = "next" ->
                  /\ pc' = "req" /\ cur' = d.nx /\ tries' = 0
                  /\ UNCHANGED <<res, delay, mustWait>>
             [] d.t = "sleep" ->
                  /\ IF Mut = "noTimer" THEN pc' = "req" ELSE pc' = "sleep"
                  /\ delay' = PollDelay(ra) /\ mustWait' = TRUE /\ tries' = 0
                  /\ UNCHANGED <<res, cur>>
             [] d.t = "backoff" ->
                  /\ pc' = "backoff" /\ tries' = tries + 1
                  /\ UNCHANGED <<res, cur, delay, mustWait>>
  /\ UNCHANGED <<nenv, op, calls, slept, finReq, busy, late, early>>

\* the poll timer fires
Timer ==
  /\ pc = "sleep"
  /\ pc' = "req" /\ slept' = slept + delay
  /\ ev' = E("timer", "", "", "", delay, 0)
  /\ UNCHANGED <<svars, op, cur, calls, tries, delay, mustWait, cancelled, obs, lastOrd, finReq, finAcc, res, busy, late, early>>

\* the context is cancelled while the call sits in the poll timer or in the back-off sleep
CancelWait ==
  /\ pc \in {"sleep", "bsleep"}
  /\ pc' = "done" /\ cancelled' = TRUE
  /\ res' = IF pc = "sleep" THEN [c |-> "ctx", st |-> "", s |-> obs.s, n |-> 0, u |-> FALSE]
            ELSE [c |-> "acmeerr", st |-> "", s |-> obs.s, n |-> 0, u |-> FALSE]   \* post() returns the CA's last error
  /\ ev' = E("cancel", pc, "", "", obs.s, 0)
  /\ UNCHANGED <<svars, op, cur, calls, tries, delay, slept, mustWait, obs, lastOrd, finReq, finAcc, busy, late, early>>

\* RetryBackoff(tries) is consulted: <= 0 stops with the CA's error, otherwise the call sleeps
Backoff(how) ==
  /\ pc = "backoff"
  /\ IF tries > Budget THEN how = "stop" ELSE how = "wake"
  /\ ev' = E("backoff", how, "", "", tries, 0)
  /\ IF how = "wake"
     THEN /\ pc' = "bsleep" /\ UNCHANGED res
     ELSE /\ pc' = "done"
          /\ res' = [c |-> "acmeerr", st |-> "", s |-> obs.s, n |-> 0, u |-> FALSE]
  /\ UNCHANGED <<svars, op, cur, calls, tries, delay, slept, mustWait, cancelled, obs, lastOrd, finReq, finAcc, busy, late, early>>

\* the back-off sleep ends: the same request is sent again
BackoffWake ==
  /\ pc = "bsleep"
  /\ pc' = "req" /\ slept' = slept + BackoffDelay
  /\ ev' = E("bwake", "", "", "", BackoffDelay, 0)
  /\ UNCHANGED <<svars, op, cur, calls, tries, delay, mustWait, cancelled, obs, lastOrd, finReq, finAcc, res, busy, late, early>>

Return ==
  /\ pc = "done"
  /\ pc' = "idle" /\ cancelled' = FALSE
  /\ ev' = E("ret", res.c, res.st, IF res.u THEN "uri" ELSE "", res.s, res.n)
  /\ UNCHANGED <<svars, op, cur, calls, tries, delay, slept, mustWait, obs, lastOrd, finReq, finAcc, res, busy, late, early>>

StSet == OrdSt \cup AzSt \cup ChSt \cup {Weird}

AnyReply == pc = "wait" /\ \E sh \in Shapes : \E fx \in FxDom(sh), cb \in CbDom(sh), na \in NaDom(sh) : Reply(sh, fx, cb, na)

Next == \/ \E n \in OpSet, b \in BOOLEAN : Call(n, b)
        \/ Send \/ Timer \/ BackoffWake \/ CancelWait \/ Return
        \/ \E h \in {"stop", "wake"} : Backoff(h)
        \/ EnvStep
        \/ AnyReply

Spec == Init /\ [][Next]_vars
\* fairness for the termination property: the client's own steps and the server's answers happen
FairSpec == Spec /\ WF_vars(Send \/ Timer \/ BackoffWake \/ Return \/ \E h \in {"stop", "wake"} : Backoff(h))
                 /\ WF_vars(AnyReply)

-----------------------------------------------------------------------------
(* Properties *)

TypeOK == /\ ord \in OrdSt \cup {Weird} /\ az \in AzSt \cup {Weird} /\ ch \in ChSt \cup {Weird}
          /\ acct \in {"valid", "deactivated"}
          /\ pc \in {"idle", "req", "wait", "sleep", "backoff", "bsleep", "done"}
          /\ op.name \in OpSet \cup {""}
          /\ nrep <= MaxReq /\ nenv <= MaxEnv /\ calls <= MaxCalls

IsDone == pc = "done"
Polling == op.name \in {"WaitOrder", "WaitAuthorization"} \/ (op.name = "CreateOrderCert" /\ cur = "order")

P1_NoFalseSuccess ==
  (IsDone /\ res.c = "ok") =>
     /\ op.name = "WaitOrder" => (obs.k = "order" /\ obs.st \in {"ready", "valid"})
     /\ op.name = "WaitAuthorization" => (obs.k = "authz" /\ obs.st = "valid")
     /\ op.name = "CreateOrderCert" => (obs.k = "cert" /\ lastOrd = "valid" /\ res.n >= 1 /\ finAcc = 1)

P2_TypedFailures ==
  IsDone =>
     /\ (op.name = "WaitOrder" /\ obs.sh \in TwoXX /\ obs.st = "invalid") => res.c = "ordererr"
     /\ (op.name = "WaitAuthorization" /\ obs.sh \in TwoXX /\ obs.st = "invalid") => res.c = "authzerr"
     /\ (op.name = "CreateOrderCert" /\ obs.k = "order" /\ obs.sh \in TwoXX /\ obs.st \in {"invalid", "ready"}) => res.c = "ordererr"
     /\ res.c = "ordererr" => (op.name \in {"WaitOrder", "CreateOrderCert"} /\ obs.k = "order" /\ obs.st \in {"invalid", "ready"}
                               /\ (obs.st = "ready" => op.name = "CreateOrderCert"))
     /\ res.c = "authzerr" => (op.name = "WaitAuthorization" /\ obs.st = "invalid")
     /\ obs.sh = "e4xx" => res.c = "acmeerr"
     /\ res.c = "ctx" => cancelled

P3_FinalizeOnce == finAcc <= 1 /\ finReq <= Budget + 1 /\ (finAcc = 1 => pc # "req" \/ cur # "finalize")

P4_PollSpacing == ~busy /\ (pc = "sleep" => delay >= DefaultDelay)

P5_StopOnCancel == ~late /\ (cancelled => pc = "done")

P6_CertAfterValid == ~early

P7_LastObserved ==
  IsDone => /\ res.s = obs.s
            /\ res.c \in {"ok", "ordererr", "authzerr"} => res.st = obs.st

P8_ChainLimits ==
  (IsDone /\ res.c = "ok" /\ HasBundle(op.name)) =>
     /\ res.n >= 1
     /\ op.bundle => res.n <= MaxChainLen
     /\ ~op.bundle => res.n = 1

P9_PollExactlyWhileNotFinal ==
  /\ (pc = "sleep" /\ obs.sh \in TwoXX /\ obs.sh # "garbage") =>
        /\ obs.k = "order" => ~OrderFinal(obs.st)
        /\ obs.k = "authz" => obs.st \notin {"valid", "invalid"}
  /\ pc = "sleep" => Polling

\* server-side sanity of the environment model when it conforms to RFC 8555
ServerSane == ~Malformed => (ord = "processing" => finSeen)

\* termination: with a fair client and a server that keeps answering, a call ends or the bounded
\* server has used up its replies (WaitAuthorization on deactivated/expired/revoked is the documented
\* exception that needs the context to end; it shows up as exhaustion of MaxReq)
Terminates == [](pc = "req" => <>(pc = "idle" \/ nrep = MaxReq))

AllDone == pc = "idle" /\ calls = MaxCalls
=============================================================================
