--------------------------- MODULE PGPFramingKeyring ---------------------------
(***************************************************************************)
(* The keyring grammar of golang.org/x/crypto/openpgp (keys.go):           *)
(* ReadKeyRing / ReadEntity / addUserID / addSubkey / readToNextPublicKey  *)
(* on top of packet.Reader (Next skips unknown packets; Unread).           *)
(*                                                        [growth X03 d]   *)
(*                                                                         *)
(* The input is a sequence of packets, abstracted to TOKENS that keep what *)
(* the grammar looks at: the packet type, for keys which key it is and     *)
(* whether its algorithm can sign, for signatures the type, the issuing    *)
(* primary key and the object signed.  A signature verifies in a context   *)
(* iff it was made by the context's primary key over the context's object: *)
(* that is the abstraction of the cryptography (the harness builds every   *)
(* token as a real packet with real signatures).                           *)
(*                                                                         *)
(*   K(a) KS(a)   public / secret primary key packet of key a (can sign)   *)
(*   KE           public primary key packet whose algorithm cannot sign    *)
(*   KU           key packet with an unsupported algorithm (parse error)   *)
(*   S(b) SS(b)   public / secret subkey packet b                          *)
(*   U(b)         user id b                                                *)
(*   C(a,b) G(a,b) Q(a,b)  positive / generic / casual certification by    *)
(*                key a over (key a, user id b)                            *)
(*   R(a)         key revocation by key a over key a                       *)
(*   B(a,b) BN(a,b) V(a,b)  subkey binding (BN: a newer one) / subkey      *)
(*                revocation by key a over (key a, subkey b)               *)
(*   D(a)         direct-key signature by key a                            *)
(*   X            packet of unknown type;  A  user attribute packet        *)
(*   EU  EM       signature packet that is unsupported / malformed         *)
(*   T            truncated packet (the input ends inside it)              *)
(*                                                                         *)
(* The acceptor is a deterministic machine: Step consumes one packet       *)
(* (= one packets.Next() that reads from the input; an Unread packet is    *)
(* re-dispatched in the mode that pops it), Finish is the end of input.    *)
(* Result: the entities returned (primary key, secret?, identities with    *)
(* the kind of self-signature and the number of other certifications,      *)
(* subkeys with the kind of the retained signature, number of revocations) *)
(* and the error class: none | unsup (errors.UnsupportedError) | struct    *)
(* (errors.StructuralError) | other.                                       *)
(*                                                                         *)
(* PROPERTIES (checked for every token sequence up to the bound)           *)
(*  Sound      every returned entity has a primary key that can sign, at   *)
(*             least one identity, and is WITNESSED by the input: its key  *)
(*             packet occurs, each identity's user id packet occurs after  *)
(*             it followed (through signatures only) by a self-            *)
(*             certification by that key over that user id, each subkey    *)
(*             packet is directly followed by a binding or revocation by   *)
(*             that key over that subkey, every revocation is by that key  *)
(*  Complete   a well-formed keyring -- entities K R.. (U C sig..)+ (S B)..    *)
(*             with unknown packets anywhere -- is returned entity by      *)
(*             entity without error                                        *)
(*  ErrShape   an error is returned only together with no entities; with   *)
(*             no error and no entities the input had no key material      *)
(*             that could start an entity                                  *)
(*  Ordered    entities are returned in the order of their key packets     *)
(*  UnknownInvisible  unknown packets never change the result              *)
(***************************************************************************)
EXTENDS Integers, Sequences, FiniteSets, TLC

Tok(k, a, b) == [k |-> k, a |-> a, b |-> b]
ParseErr(t) == CASE t.k \in {"KU", "EU"} -> "unsup" [] t.k = "EM" -> "struct" [] t.k = "T" -> "other" [] OTHER -> "none"
IsSig(t) == t.k \in {"C", "G", "Q", "R", "B", "BN", "V", "D"}
IsPrimaryPkt(t) == t.k \in {"K", "KS", "KE"}
IsSubPkt(t) == t.k \in {"S", "SS"}
IsKeyPkt(t) == IsPrimaryPkt(t) \/ IsSubPkt(t)
KeyOf(t) == IF t.k \in {"K", "KS"} THEN <<"K", t.a>> ELSE IF t.k = "KE" THEN <<"KE", 0>> ELSE <<"S", t.b>>
CONSTANT SignCapable        \* keys (as <<"K",a>> / <<"S",b>>) whose algorithm can sign
CanSign(key) == key \in SignCapable

NoEnt == [pk |-> <<"none", 0>>, priv |-> FALSE, ids |-> {}, subs |-> <<>>, revs |-> <<>>]
NoCur == [id |-> 0, n |-> 0, added |-> FALSE, self |-> "none", sig |-> "none", priv |-> FALSE]
S0 == [mode |-> "start", ent |-> NoEnt, cur |-> NoCur, el |-> <<>>, lastErr |-> "none", err |-> "none", atEnd |-> FALSE]

\* ReadEntity returned an Unsupported/StructuralError: ReadKeyRing remembers it and skips to the next public primary key
Fail(s, cls) == [s EXCEPT !.mode = "skip", !.lastErr = cls, !.ent = NoEnt, !.cur = NoCur]
\* any other error (or a StructuralError while skipping) ends ReadKeyRing: no entities, that error
Die(s, cls) == [s EXCEPT !.mode = "dead", !.err = cls, !.el = <<>>, !.ent = NoEnt, !.cur = NoCur]

\* the identity under construction is the same object as the one stored in the map once it has a self-signature
SyncId(s) == IF s.cur.added
             THEN [s EXCEPT !.ent.ids = {x \in s.ent.ids : x.uid # s.cur.id} \cup {[uid |-> s.cur.id, self |-> s.cur.self, n |-> s.cur.n]}]
             ELSE s
\* the end of ReadEntity's packet loop
FinishEntity(s) ==
  IF s.ent.ids = {} THEN Fail(s, "struct")                                            \* entity without any identities
  ELSE IF \E i \in 1..Len(s.ent.revs) : <<"K", s.ent.revs[i]>> # s.ent.pk THEN Fail(s, "struct")   \* revocation by an alternate key
  ELSE [s EXCEPT !.mode = "start", !.el = Append(s.el, s.ent), !.ent = NoEnt, !.cur = NoCur]
\* the end of addSubkey
CloseSub(s) == IF s.cur.sig = "none" THEN Fail(s, "struct")                           \* subkey packet not followed by signature
               ELSE [s EXCEPT !.mode = "main", !.cur = NoCur,
                              !.ent.subs = Append(s.ent.subs, [sub |-> s.cur.id, sig |-> s.cur.sig, priv |-> s.cur.priv])]
CloseUid(s) == [SyncId(s) EXCEPT !.mode = "main", !.cur = NoCur]

RECURSIVE Dispatch(_, _)
Dispatch(s, t) ==
  LET pe == ParseErr(t) IN
  CASE s.mode = "dead" -> s
    [] s.mode = "start" ->                                                             \* ReadEntity: first packet
         IF pe = "other" THEN Die(s, "other")
         ELSE IF pe # "none" THEN Fail(s, pe)
         ELSE IF IsKeyPkt(t)                                                           \* any PublicKey / PrivateKey packet, subkey or not
              THEN IF CanSign(KeyOf(t))
                   THEN [s EXCEPT !.mode = "main", !.ent = [NoEnt EXCEPT !.pk = KeyOf(t), !.priv = t.k \in {"KS", "SS"}]]
                   ELSE Fail(s, "struct")                                              \* primary key cannot be used for signatures
              ELSE Fail(s, "struct")                                                   \* first packet was not a key (unread, then skipped)
    [] s.mode = "skip" ->                                                              \* readToNextPublicKey
         IF pe = "unsup" THEN s
         ELSE IF pe # "none" THEN Die(s, pe)
         ELSE IF t.k \in {"K", "KE"} THEN Dispatch([s EXCEPT !.mode = "start"], t)      \* *packet.PublicKey, not a subkey: unread
         ELSE s                                                                        \* (a secret primary key packet is NOT recognised here)
    [] s.mode = "main" ->                                                              \* ReadEntity: EachPacket
         IF pe = "other" THEN Die(s, "other")
         ELSE IF pe # "none" THEN Fail(s, pe)
         ELSE IF t.k = "U" THEN [s EXCEPT !.mode = "uid", !.cur = [NoCur EXCEPT !.id = t.b]]
         ELSE IF t.k = "R" THEN [s EXCEPT !.ent.revs = Append(s.ent.revs, t.a)]
         ELSE IF IsPrimaryPkt(t) THEN Dispatch(FinishEntity(s), t)                     \* unread; the entity ends here
         ELSE IF IsSubPkt(t) THEN [s EXCEPT !.mode = "sub", !.cur = [NoCur EXCEPT !.id = t.b, !.priv = t.k = "SS"]]
         ELSE s                                                                        \* other signatures, user attributes: ignored
    [] s.mode = "uid" ->                                                               \* addUserID
         IF pe = "other" THEN Die(s, "other")
         ELSE IF pe # "none" THEN Fail(s, pe)
         ELSE IF ~IsSig(t) THEN Dispatch(CloseUid(s), t)                               \* unread
         ELSE IF t.k \in {"C", "G"} /\ <<"K", t.a>> = s.ent.pk                          \* positive/generic certification issued by the primary key
              THEN IF t.b = s.cur.id
                   THEN SyncId([s EXCEPT !.cur.added = TRUE, !.cur.self = t.k])
                   ELSE Fail(s, "struct")                                              \* user ID self-signature invalid
              ELSE SyncId([s EXCEPT !.cur.n = s.cur.n + 1])                            \* kept as a certification by someone else, unverified
    [] OTHER ->                                                                        \* "sub": addSubkey
         IF pe # "none" THEN Fail(s, "struct")                                         \* every error is wrapped as StructuralError
         ELSE IF ~IsSig(t) THEN Dispatch(CloseSub(s), t)                               \* unread
         ELSE IF t.k \notin {"B", "BN", "V"} THEN Fail(s, "struct")                    \* subkey signature with wrong type
         ELSE IF ~(<<"K", t.a>> = s.ent.pk /\ t.b = s.cur.id) THEN Fail(s, "struct")   \* subkey signature invalid
         ELSE IF t.k = "V" \/ s.cur.sig = "none" THEN [s EXCEPT !.cur.sig = t.k]
         ELSE IF s.cur.sig = "B" /\ t.k = "BN" THEN [s EXCEPT !.cur.sig = "BN"]        \* replaced only by a newer binding, never after a revocation
         ELSE s

\* one packet read from the input
Step(s, t) == IF t.k = "X" THEN s                                                      \* unknown packet types are skipped by Next
              ELSE [Dispatch(s, t) EXCEPT !.atEnd = (t.k = "T")]
\* end of input
Finish(s) == CASE s.mode = "main" -> FinishEntity(s)
               [] s.mode = "uid" -> FinishEntity(CloseUid(s))
               [] s.mode = "sub" -> (LET c == CloseSub(s) IN IF c.mode = "main" THEN FinishEntity(c) ELSE c)
               [] OTHER -> s
Result(s) == LET f == Finish(s) IN
             IF f.mode = "dead" THEN [el |-> <<>>, err |-> f.err]
             ELSE [el |-> f.el, err |-> IF f.el = <<>> THEN f.lastErr ELSE "none"]

-----------------------------------------------------------------------------
CONSTANTS Alphabet, MaxLen
VARIABLES inp, st
vars == <<inp, st>>
Init == inp = <<>> /\ st = S0
Feed(t) == /\ Len(inp) < MaxLen /\ ~st.atEnd
           /\ inp' = Append(inp, t) /\ st' = Step(st, t)
Next == \E t \in Alphabet : Feed(t)
Spec == Init /\ [][Next]_vars
Res == Result(st)

-----------------------------------------------------------------------------
(* properties, stated on the input *)
\* position of the first packet after i that is not of unknown type (0: none)
NextVisible(i) == IF \E j \in (i + 1)..Len(inp) : inp[j].k # "X"
                  THEN CHOOSE j \in (i + 1)..Len(inp) : inp[j].k # "X" /\ \A m \in (i + 1)..(j - 1) : inp[m].k = "X"
                  ELSE 0
Witnessed(e, p) ==
  /\ IsKeyPkt(inp[p]) /\ KeyOf(inp[p]) = e.pk /\ (e.priv <=> inp[p].k \in {"KS", "SS"})
  /\ \A id \in e.ids : \E i \in (p + 1)..Len(inp) : \E j \in (i + 1)..Len(inp) :
        /\ inp[i].k = "U" /\ inp[i].b = id.uid
        /\ inp[j].k = id.self /\ id.self \in {"C", "G"} /\ <<"K", inp[j].a>> = e.pk /\ inp[j].b = id.uid
        /\ \A m \in (i + 1)..(j - 1) : IsSig(inp[m]) \/ inp[m].k = "X"
  /\ \A x \in 1..Len(e.subs) : \E i \in (p + 1)..Len(inp) :
        /\ IsSubPkt(inp[i]) /\ inp[i].b = e.subs[x].sub /\ (e.subs[x].priv <=> inp[i].k = "SS")
        /\ NextVisible(i) # 0
        /\ LET g == inp[NextVisible(i)] IN g.k \in {"B", "BN", "V"} /\ <<"K", g.a>> = e.pk /\ g.b = e.subs[x].sub
  /\ \A x \in 1..Len(e.revs) : <<"K", e.revs[x]>> = e.pk
\* ({Res} binds the value once: TLC re-evaluates a state-level definition at every reference)
Sound == \A r \in {Res} : \A x \in 1..Len(r.el) : \A e \in {r.el[x]} :
            /\ CanSign(e.pk) /\ e.ids # {}
            /\ \E p \in 1..Len(inp) : Witnessed(e, p)
\* strictly increasing witness positions
Ordered == \A r \in {Res} :
           /\ Len(r.el) <= Cardinality({i \in 1..Len(inp) : IsKeyPkt(inp[i])})
           /\ \A x \in 1..(Len(r.el) - 1) :
                 \E p1 \in 1..Len(inp) : \E p2 \in (p1 + 1)..Len(inp) : Witnessed(r.el[x], p1) /\ Witnessed(r.el[x + 1], p2)
ErrShape == \A r \in {Res} :
            /\ (r.err # "none" => r.el = <<>>)
            /\ ((r.err = "none" /\ r.el = <<>>) => \A i \in 1..Len(inp) : inp[i].k = "X")

(* the well-formed keyrings and what they must yield: an independent, declarative reading of the grammar.
   Without the unknown packets the input must split into entity blocks
       key  R(key)*  ( U(b)  C|G(key,b)  <certifications by other keys>* )+  ( S(b)|SS(b)  B|BN|V(key,b) )*                *)
Vis == SelectSeq(inp, LAMBDA t : t.k # "X")
RECURSIVE WFEntities(_, _)
\* parse v from position i; result: sequence of ideal entities, or <<BadEnt>> when v is not well formed
BadEnt == [NoEnt EXCEPT !.pk = <<"bad", 0>>]
IsBad(es) == es # <<>> /\ es[1].pk[1] = "bad"
WFEntities(v, i) ==
  IF i > Len(v) THEN <<>>
  ELSE IF ~(v[i].k \in {"K", "KS"}) THEN <<BadEnt>>
  ELSE LET a == v[i].a
           IsRev(t) == t.k = "R" /\ t.a = a
           \* end of the run of elements satisfying P starting at j
           RunEnd(j, P(_)) == IF \E m \in j..Len(v) : ~P(v[m]) THEN (CHOOSE m \in j..Len(v) : ~P(v[m]) /\ \A n \in j..(m - 1) : P(v[n])) ELSE Len(v) + 1
           r1 == RunEnd(i + 1, IsRev)                                                  \* first packet after the revocations
           \* the packets up to the next primary key packet form this entity
           e1 == RunEnd(r1, LAMBDA t : ~IsPrimaryPkt(t))
           body == SubSeq(v, r1, e1 - 1)
           uidStarts == {m \in 1..Len(body) : body[m].k = "U"}
           subStarts == {m \in 1..Len(body) : IsSubPkt(body[m])}
           firstSub == IF subStarts = {} THEN Len(body) + 1 ELSE CHOOSE m \in subStarts : \A n \in subStarts : m <= n
           okUids == /\ uidStarts # {} /\ 1 \in uidStarts
                     /\ \A m \in uidStarts : m < firstSub /\ m + 1 <= Len(body) /\ body[m + 1].k \in {"C", "G"} /\ body[m + 1].a = a /\ body[m + 1].b = body[m].b
                     /\ \A m \in 1..(firstSub - 1) : m \notin uidStarts /\ (m - 1) \notin uidStarts =>
                            (IsSig(body[m]) /\ ~(body[m].k \in {"C", "G"} /\ body[m].a = a))      \* further certifications by other keys
                     /\ \A m, n \in uidStarts : m # n => body[m].b # body[n].b
           okSubs == /\ \A m \in firstSub..Len(body) : IF (m - firstSub) % 2 = 0 THEN IsSubPkt(body[m])
                                                        ELSE body[m].k \in {"B", "BN", "V"} /\ body[m].a = a /\ body[m].b = body[m - 1].b
                     /\ (Len(body) - firstSub + 1) % 2 = 0
           CountOther(m) == LET nxt == {n \in uidStarts \cup {firstSub} : n > m}
                                stop == CHOOSE n \in nxt : \A o \in nxt : n <= o IN stop - m - 2
           ent == [pk |-> <<"K", a>>, priv |-> v[i].k = "KS",
                   ids |-> {[uid |-> body[m].b, self |-> body[m + 1].k, n |-> CountOther(m)] : m \in uidStarts},
                   subs |-> [x \in 1..((Len(body) - firstSub + 1) \div 2) |->
                               [sub |-> body[firstSub + 2 * (x - 1)].b, sig |-> body[firstSub + 2 * (x - 1) + 1].k,
                                priv |-> body[firstSub + 2 * (x - 1)].k = "SS"]],
                   revs |-> [x \in 1..(r1 - i - 1) |-> a]] IN
       IF ~(okUids /\ okSubs) THEN <<BadEnt>>
       ELSE LET rest == WFEntities(v, e1) IN
            IF IsBad(rest) THEN <<BadEnt>> ELSE <<ent>> \o rest
Ideal == WFEntities(Vis, 1)
WellFormed == Vis # <<>> /\ ~IsBad(Ideal)
Complete == Vis # <<>> => \A ideal \in {Ideal} : ~IsBad(ideal) => \A r \in {Res} : r.err = "none" /\ r.el = ideal

\* an unknown packet does not change the acceptor state
UnknownInvisible == [][(inp' # inp /\ inp'[Len(inp')].k = "X") => st' = st]_vars
=============================================================================
