SPECIFICATION TraceSpec
CONSTANTS
  Procs = {"g1","g2","g3","g4","g5","g6","g7","g8","g9","g10","g11","g12","g13","g14","g15","g16","g17","g18","g19","g20","g21","g22","g23","g24","g25","g26","g27","g28","g29","g30","g31","g32"}
  NameClasses = {"plain", "trailingdot", "upper", "mixed", "idn"}
  CacheClasses = {"miss"}
  ClockPos = {"mid"}
  Outcomes = {"ok", "cafail", "badcert"}
  KeyTypes = {"E", "R"}
  Tokens = {FALSE}
  Cleanups = 0
INVARIANTS S1_OnlyApprovedValid S3_PolicyFirst E1_OneIssuance E2_OwnersResult
CONSTRAINT HWM
POSTCONDITION TraceAccepted
CHECK_DEADLOCK FALSE
