SPECIFICATION Spec
CONSTANTS
  Lanes = 1
  SegLen = 2
  Passes = 2
  Variant = "rfc"
INVARIANTS TypeOK AreaAgrees BlockAgrees RefWritten NoRace FirstSlice Complete
CHECK_DEADLOCK FALSE
