\* DOCUMENTATION ONLY: a reader that masks the partial length octet with 0x0f instead of 0x1f loses framing at chunks of 2^16 and more.
\* Nothing here is expected of the code.
SPECIFICATION Spec
CONSTANTS
  Patterns <- PatternsQ
  ExpMask <- Mask0f
INVARIANTS RoundTrip
CHECK_DEADLOCK FALSE
