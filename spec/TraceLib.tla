------------------------------ MODULE TraceLib ------------------------------
(* Shared plumbing for trace validation (binding T).

   trace.ndjson is a concatenation of recorded executions; each starts with a line
   {"ev":"reset", ...}.  A trace spec does

       EXTENDS X, TraceLib
       TraceInit == Init /\ l = 1                      \* X's own Init
       TReset == IsEvent("reset") /\ <X's variables take their initial values>'
       TFoo   == IsEvent("Foo") /\ Foo(Ev.arg) /\ someVar' = Ev.logged
       TraceNext == TReset \/ TFoo \/ ...
       TraceSpec == TraceInit /\ [][TraceNext]_<<vars, l>>

   and its cfg says   CONSTRAINT HWM   POSTCONDITION TraceAccepted   CHECK_DEADLOCK FALSE
   and is run with -workers 1.  HWM records the highest line index reached in TLC register 1
   (robust when unlogged variables make the trace spec branch or take silent steps); on
   rejection TraceAccepted prints "HWM <n>": lines 1..n-1 were explained, line n was not. *)
EXTENDS Integers, Sequences, TLC, Json

VARIABLE l                                 \* index of the next trace line to explain

Trace == ndJsonDeserialize("trace.ndjson")
Ev == Trace[l]
IsEvent(e) == l <= Len(Trace) /\ Trace[l].ev = e /\ l' = l + 1

HWM == IF l > TLCGet(1) THEN TLCSet(1, l) ELSE TRUE
TraceAccepted == IF TLCGet(1) = Len(Trace) + 1 THEN TRUE
                 ELSE /\ PrintT("HWM " \o ToString(TLCGet(1)))
                      /\ FALSE
HWMInit == TLCSet(1, 1)
=============================================================================
