INIT Init
NEXT Next
CONSTANTS
  Fns <- FnsAll
  Seeds = {7}
  NW = 1
  Extra = {}
  OutBlocks = 1
  NSCases = TRUE
  LongFns <- LongQ
INVARIANTS Emit
CHECK_DEADLOCK FALSE
