--------------------------- MODULE HkdfReader_Gen ---------------------------
(***************************************************************************)
(* C18, binding R: histories of Read calls of the abstract HkdfReader with *)
(* the model's prediction for each call (error, or the stream position the *)
(* returned bytes start at).  Five instances of HkdfReader - hash sizes    *)
(* 3 and 4 (toy hash), 20, 32, 64 (SHA-1, SHA-256, SHA-512) - are stepped  *)
(* in lock step through every sequence of exactly Depth reads over a size  *)
(* alphabet given relative to H (0, 1, around one and two blocks, around   *)
(* (incl. exactly one and two blocks and 2H-1, to end on block boundaries), *)
(* half, around and beyond the 255*H limit); one JVM start then yields the *)
(* histories for all five sizes.  The harness replays each on real hkdf    *)
(* readers and compares errors and bytes.                                  *)
(***************************************************************************)
EXTENDS Integers, Sequences, TLC, Json
CONSTANT Depth
VARIABLES p3, l3, p4, l4, p20, l20, p32, l32, p64, l64, hist

R3  == INSTANCE HkdfReader WITH H <- 3,  MaxBlocks <- 255, ReadSizes <- {}, produced <- p3,  last <- l3
R4  == INSTANCE HkdfReader WITH H <- 4,  MaxBlocks <- 255, ReadSizes <- {}, produced <- p4,  last <- l4
R20 == INSTANCE HkdfReader WITH H <- 20, MaxBlocks <- 255, ReadSizes <- {}, produced <- p20, last <- l20
R32 == INSTANCE HkdfReader WITH H <- 32, MaxBlocks <- 255, ReadSizes <- {}, produced <- p32, last <- l32
R64 == INSTANCE HkdfReader WITH H <- 64, MaxBlocks <- 255, ReadSizes <- {}, produced <- p64, last <- l64

\* the size alphabet: index -> size for hash size h
NSizes == 14
Size(h, i) == CASE i = 1 -> 0          [] i = 2 -> 1           [] i = 3 -> h - 1        [] i = 4 -> h
                [] i = 5 -> h + 1      [] i = 6 -> 2 * h + 1   [] i = 7 -> 127 * h + 3  [] i = 8 -> 254 * h
                [] i = 9 -> 255 * h - 2 [] i = 10 -> 255 * h - 1 [] i = 11 -> 255 * h   [] i = 12 -> 255 * h + 1
                [] i = 13 -> 2 * h - 1 [] i = 14 -> 2 * h

\* The history contains the pattern the caller-buffer clause needs: a successful Read whose freshly
\* generated part is a positive whole number of blocks (so it ends on a block boundary, leftover
\* empty), followed later by a successful non-empty Read (which must generate a new block).  The
\* harness scribbles the caller's buffer in between (HkdfReader!Scribble is a stuttering step, so the
\* predictions do not change); the check refuses to run without such histories.
Bnd(h, rs) == \E i \in 1..Len(rs) :
                 /\ ~rs[i].err
                 /\ LET lo == (h - (rs[i].from % h)) % h  fresh == rs[i].n - lo
                    IN fresh >= h /\ fresh % h = 0
                 /\ \E j \in (i + 1)..Len(rs) : ~rs[j].err /\ rs[j].n > 0

Ev(lastN, prodBefore) == [n |-> lastN.n, err |-> lastN.err, from |-> IF lastN.err THEN -1 ELSE prodBefore]

GInit == R3!Init /\ R4!Init /\ R20!Init /\ R32!Init /\ R64!Init /\ hist = <<>>
GNext == /\ Len(hist) < Depth
         /\ \E i \in 1..NSizes :
              /\ R3!Read(Size(3, i)) /\ R4!Read(Size(4, i)) /\ R20!Read(Size(20, i))
              /\ R32!Read(Size(32, i)) /\ R64!Read(Size(64, i))
              /\ hist' = Append(hist, [h3 |-> Ev(l3', p3), h4 |-> Ev(l4', p4), h20 |-> Ev(l20', p20),
                                       h32 |-> Ev(l32', p32), h64 |-> Ev(l64', p64)])
Emit == Len(hist) = Depth =>
          /\ PrintT("TRACE " \o ToJson([t |-> "hist", h |-> 3, bnd |-> Bnd(3, [k \in 1..Depth |-> hist[k].h3]), reads |-> [k \in 1..Depth |-> hist[k].h3]]))
          /\ PrintT("TRACE " \o ToJson([t |-> "hist", h |-> 4, bnd |-> Bnd(4, [k \in 1..Depth |-> hist[k].h4]), reads |-> [k \in 1..Depth |-> hist[k].h4]]))
          /\ PrintT("TRACE " \o ToJson([t |-> "hist", h |-> 20, bnd |-> Bnd(20, [k \in 1..Depth |-> hist[k].h20]), reads |-> [k \in 1..Depth |-> hist[k].h20]]))
          /\ PrintT("TRACE " \o ToJson([t |-> "hist", h |-> 32, bnd |-> Bnd(32, [k \in 1..Depth |-> hist[k].h32]), reads |-> [k \in 1..Depth |-> hist[k].h32]]))
          /\ PrintT("TRACE " \o ToJson([t |-> "hist", h |-> 64, bnd |-> Bnd(64, [k \in 1..Depth |-> hist[k].h64]), reads |-> [k \in 1..Depth |-> hist[k].h64]]))
TypeOK == R3!TypeOK /\ R4!TypeOK /\ R20!TypeOK /\ R32!TypeOK /\ R64!TypeOK
=============================================================================
