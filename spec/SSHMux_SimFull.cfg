SPECIFICATION Spec
CONSTANTS
  MaxPeer = 5
  MaxLocal = 2
  MaxObj = 3
  Configs <- AllConfigs
  Lite = FALSE
  Hold = FALSE
  Burst = FALSE
  DecidedInLoop = TRUE
  DrainAll = TRUE
  RejectChecksSlot = TRUE
INVARIANTS EmitLeaf
CHECK_DEADLOCK FALSE
