SPECIFICATION Spec
CONSTANTS
  P = 19
  W = 32
  B = 3
  N = 13
INVARIANTS ImplOneEncoding
CHECK_DEADLOCK FALSE
