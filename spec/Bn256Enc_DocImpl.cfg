SPECIFICATION Spec
CONSTANTS
  P = 19
  W = 32
  B = 3
  N = 13
INVARIANTS OldOneEncoding
CHECK_DEADLOCK FALSE
