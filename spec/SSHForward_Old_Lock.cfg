SPECIFICATION Spec
CONSTANTS
  Listeners <- L_One
  Targets <- T_One
  TNet <- CTNet
  LAddr <- A_One
  PreReg <- Reg_L1
  MaxOpens = 2
  Cap = 1
  MaxHist = 0
CHECK_DEADLOCK FALSE
INVARIANTS NoBlockingUnderLock
