------------------------------ MODULE PGPFraming ------------------------------
(***************************************************************************)
(* OpenPGP packet framing (RFC 4880 section 4.2) as implemented by         *)
(* golang.org/x/crypto/openpgp/packet:                                     *)
(*   packet.go   readHeader, readLength, spanReader, partialLengthReader,  *)
(*               serializeHeader, serializeStreamHeader,                   *)
(*               partialLengthWriter, Read (consumes the packet on error)  *)
(*   opaque.go   OpaquePacket.Serialize, OpaqueReader.Next, nextSubpacket, *)
(*               OpaqueSubpacket.Serialize (signature.go:                  *)
(*               serializeSubpacketLength)                                 *)
(*   literal.go / compressed.go / symmetrically_encrypted.go: only the     *)
(*               stream wrappers (they write through partialLengthWriter). *)
(*                                                        [growth X03 a,b] *)
(*                                                                         *)
(* Everything here is constant-level and is EVALUATED by TLC (binding E):  *)
(* TLC emits the expected octets of every header and the predicted result  *)
(* of reading crafted octets.  The state machines built on these operators *)
(* are PGPFramingStream (partial-length writer/reader), PGPFramingReader   *)
(* (packet.Reader) and PGPFramingKeyring (ReadKeyRing).                    *)
(*                                                                         *)
(* PROPERTIES (stated at the level of RFC 4880 and the package docs):      *)
(*  A1 shortest form: serializeHeader writes a new-format header whose     *)
(*     length is one octet iff n < 192, two octets iff 192 <= n <= 8383,   *)
(*     five octets otherwise; tag octet = 0xC0 | tag.                      *)
(*  A2 round trip: reading header++body yields (tag, body), consumes       *)
(*     exactly header+body octets, and leaves a following packet intact.   *)
(*  A3 the reader is liberal: old-format headers (length types 0,1,2 and   *)
(*     3 = indeterminate: body runs to the end of input), non-shortest     *)
(*     new-format lengths and partial lengths 2^k, k in 0..30 all decode   *)
(*     to the body they describe.                                          *)
(*  A4 no silent truncation: if the input ends before the header or the    *)
(*     declared body is complete the result is io.ErrUnexpectedEOF (never  *)
(*     a clean io.EOF, never success); io.EOF only for input that is empty *)
(*     at a packet boundary; a first octet without bit 7 is a              *)
(*     StructuralError.                                                    *)
(*  B1 partial-length stream: a partial chunk must be followed by another  *)
(*     length; the last chunk has a definite length of any form; the body  *)
(*     is the concatenation of the chunk bodies.                           *)
(*  B2 writer: for every sequence of Write sizes, each Write(p) returns    *)
(*     len(p); partial chunks are powers of two not above 2^30; after      *)
(*     Close the stream is ONE packet of the given tag whose body is the   *)
(*     concatenation of everything written, with nothing left over;        *)
(*  B3 (RFC 4880 4.2.2.4 MUST) the first partial chunk is at least 512     *)
(*     octets.  The code keeps this whenever at least 512 octets are       *)
(*     written; for shorter streams Close emits short partial chunks       *)
(*     (parameter FixShort = FALSE models the code as it is).              *)
(*  S1 signature subpacket lengths (opaque.go / signature.go): one octet   *)
(*     < 192, two octets 192..16319, five octets otherwise.                *)
(*                                                                         *)
(* Octet strings are ABSTRACT WIRES: a sequence of segments, each either   *)
(* explicit octets (headers) or a range of a data pattern (bodies), so     *)
(* that lengths like 8384, 65536 or 2^24 cost nothing in TLC.  The harness *)
(* materialises a wire with PatByte (PrimWords).  Lengths >= 2^31 (TLC     *)
(* integers are 32-bit) are carried as 16-bit limbs and are always longer  *)
(* than any wire considered.                                               *)
(***************************************************************************)
EXTENDS Integers, Sequences, FiniteSets, TLC, PrimWords, SequencesExt

-----------------------------------------------------------------------------
(* wires *)
H(v) == [t |-> "h", v |-> v, from |-> 0, n |-> Len(v)]        \* explicit octets
D(from, n) == [t |-> "d", v |-> <<>>, from |-> from, n |-> n] \* data[from .. from+n)

RECURSIVE SumN(_, _)
SumN(segs, k) == IF k = 0 THEN 0 ELSE segs[k].n + SumN(segs, k - 1)
\* a wire: segments with their start offsets, the total length, the data pattern seed
MkWire(segs, seed) == [segs |-> segs, start |-> Force([k \in 1..Len(segs) |-> SumN(segs, k - 1)]),
                       n |-> SumN(segs, Len(segs)), seed |-> seed]
SegOf(w, i) == CHOOSE k \in 1..Len(w.segs) : w.start[k] <= i /\ i < w.start[k] + w.segs[k].n
\* octet at 0-based offset i < w.n
At(w, i) == LET k == SegOf(w, i)  s == w.segs[k] IN
            IF s.t = "h" THEN s.v[i - w.start[k] + 1] ELSE PatByte(w.seed, s.from + (i - w.start[k]))

Min2(a, b) == IF a < b THEN a ELSE b
Max2(a, b) == IF a > b THEN a ELSE b

\* canonical form of a piece list: no empty pieces, adjacent data ranges / octet runs merged
\* (folds are used instead of recursion with accumulators: TLC re-evaluates lazy arguments of recursive operators)
NormStep(acc, p) ==
  IF p.n = 0 THEN acc
  ELSE IF acc = <<>> THEN <<p>>
  ELSE LET a == acc[Len(acc)] IN
       IF a.t = "d" /\ p.t = "d" /\ a.from + a.n = p.from THEN [acc EXCEPT ![Len(acc)] = D(a.from, a.n + p.n)]
       ELSE IF a.t = "h" /\ p.t = "h" THEN [acc EXCEPT ![Len(acc)] = H(a.v \o p.v)]
       ELSE Append(acc, p)
Norm(ps) == FoldLeft(NormStep, <<>>, ps)

\* octets [off, off+n) of a wire as pieces
RECURSIVE SliceFrom(_, _, _, _)
SliceFrom(w, k, off, n) ==
  IF k > Len(w.segs) \/ w.start[k] >= off + n THEN <<>>
  ELSE LET s == w.segs[k]
           lo == Max2(off, w.start[k])
           hi == Min2(off + n, w.start[k] + s.n) IN
       (IF lo >= hi THEN <<>>
        ELSE IF s.t = "h" THEN <<H(SubSeq(s.v, lo - w.start[k] + 1, hi - w.start[k]))>>
        ELSE <<D(s.from + (lo - w.start[k]), hi - lo)>>) \o SliceFrom(w, k + 1, off, n)
Slice(w, off, n) == IF n <= 0 THEN <<>> ELSE SliceFrom(w, 1, off, n)
\* the first m octets of a wire
Trunc(w, m) == MkWire(Norm(Slice(w, 0, m)), w.seed)
\* the whole data [0, n) as a piece list
Data(n) == IF n = 0 THEN <<>> ELSE <<D(0, n)>>

-----------------------------------------------------------------------------
(* encoders: serializeHeader, serializeStreamHeader, old-format headers (never written by the package, read by it) *)
Pow2(k) == 2^k
BE(n, k) == [i \in 1..k |-> (n \div (256^(k - i))) % 256]            \* k <= 3, or k = 4 with n < 2^31
BE4(n) == <<(n \div 16777216) % 256, (n \div 65536) % 256, (n \div 256) % 256, n % 256>>

EncLen1(n) == <<n>>                                                  \* n < 192
EncLen2(n) == <<192 + ((n - 192) \div 256), (n - 192) % 256>>        \* 192 <= n <= 8383
EncLen5(n) == <<255>> \o BE4(n)
EncLen(n) == IF n < 192 THEN EncLen1(n) ELSE IF n < 8384 THEN EncLen2(n) ELSE EncLen5(n)
EncPartial(k) == <<224 + k>>                                         \* chunk of 2^k octets, k in 0..30
NewTag(tag) == 192 + tag                                             \* 0x80 | 0x40 | tag, tag in 0..63
EncNewHeader(tag, n) == <<NewTag(tag)>> \o EncLen(n)
OldTag(tag, lt) == 128 + 4 * tag + lt                                \* tag in 0..15, length type lt in 0..3
EncOldHeader(tag, lt, n) == <<OldTag(tag, lt)>> \o (IF lt = 3 THEN <<>> ELSE IF lt = 2 THEN BE4(n) ELSE BE(n, Pow2(lt)))
\* forms a new-format definite length can take on the wire (the reader accepts all that can express n)
EncLenForm(n, form) == CASE form = 1 -> EncLen1(n) [] form = 2 -> EncLen2(n) [] OTHER -> EncLen5(n)
FormsFor(n) == (IF n < 192 THEN {1} ELSE {}) \cup (IF n >= 192 /\ n < 8384 THEN {2} ELSE {}) \cup {5}

\* signature subpacket length (serializeSubpacketLength); n counts the type octet
EncSubLen(n) == IF n < 192 THEN <<n>>
                ELSE IF n < 16320 THEN <<192 + ((n - 192) \div 256), (n - 192) % 256>>
                ELSE <<255>> \o BE4(n)

-----------------------------------------------------------------------------
(* decoders *)
Limbs(b1, b2, b3, b4) == <<b1 * 256 + b2, b3 * 256 + b4>>
LimbsOf(n) == <<n \div 65536, n % 65536>>
\* a length as an integer, -1 when it is >= 2^31 (longer than any wire)
IntOf(l) == IF l[1] >= 32768 THEN -1 ELSE l[1] * 65536 + l[2]
NoLen == [st |-> "short", len |-> 0, lenw |-> <<0, 0>>, partial |-> FALSE, used |-> 0]

\* readLength at offset off
DecLen(w, off) ==
  IF off >= w.n THEN NoLen
  ELSE LET b == At(w, off) IN
       IF b < 192 THEN [st |-> "ok", len |-> b, lenw |-> <<0, b>>, partial |-> FALSE, used |-> 1]
       ELSE IF b < 224 THEN
            IF off + 1 >= w.n THEN NoLen
            ELSE LET n == (b - 192) * 256 + At(w, off + 1) + 192 IN
                 [st |-> "ok", len |-> n, lenw |-> LimbsOf(n), partial |-> FALSE, used |-> 2]
       ELSE IF b < 255 THEN
            [st |-> "ok", len |-> Pow2(b - 224), lenw |-> LimbsOf(Pow2(b - 224)), partial |-> TRUE, used |-> 1]
       ELSE IF off + 4 >= w.n THEN NoLen
            ELSE LET l == Limbs(At(w, off + 1), At(w, off + 2), At(w, off + 3), At(w, off + 4)) IN
                 [st |-> "ok", len |-> IntOf(l), lenw |-> l, partial |-> FALSE, used |-> 5]

Res(st, tag, fmt, lenw, body, used) == [st |-> st, tag |-> tag, fmt |-> fmt, lenw |-> lenw, body |-> Norm(body), used |-> used]

\* a definite body of len octets (len = -1: >= 2^31) starting at off, after pieces acc
Span(w, tag, fmt, lenw, acc, off, len) ==
  IF len < 0 \/ len > w.n - off THEN Res("uneof", tag, fmt, lenw, acc \o Slice(w, off, w.n - off), w.n)
  ELSE Res("ok", tag, fmt, lenw, acc \o Slice(w, off, len), off + len)

\* partialLengthReader: rem octets of the current chunk start at off; partial: another length must follow.
\* One step per chunk on a state record; {..: x \in {e}} binds x to the VALUE of e before the recursive call.
ChunkStep(w, tag, s) ==
  IF ~s.partial THEN [s EXCEPT !.done = TRUE, !.res = Span(w, tag, "partial", <<65535, 65535>>, s.acc, s.off, s.rem)]
  ELSE IF s.rem > w.n - s.off
       THEN [s EXCEPT !.done = TRUE, !.res = Res("uneof", tag, "partial", <<65535, 65535>>, s.acc \o Slice(w, s.off, w.n - s.off), w.n)]
  ELSE LET l == DecLen(w, s.off + s.rem)
           acc2 == Norm(s.acc \o Slice(w, s.off, s.rem)) IN
       IF l.st # "ok" THEN [s EXCEPT !.done = TRUE, !.res = Res("uneof", tag, "partial", <<65535, 65535>>, acc2, w.n)]
       ELSE [s EXCEPT !.acc = acc2, !.off = s.off + s.rem + l.used, !.rem = l.len, !.partial = l.partial]   \* l.len = -1 (>= 2^31) only if ~l.partial
RECURSIVE ChunksR(_, _, _)
ChunksR(w, tag, s) == IF s.done THEN s.res ELSE CHOOSE r \in {ChunksR(w, tag, s2) : s2 \in {ChunkStep(w, tag, s)}} : TRUE
Chunks(w, tag, acc, off, rem, partial) ==
  ChunksR(w, tag, [done |-> FALSE, res |-> Res("eof", 0, "none", <<0, 0>>, <<>>, 0), acc |-> acc, off |-> off, rem |-> rem, partial |-> partial])

\* readHeader + reading the contents to their end (OpaqueReader.Next; Read of a UserId / unknown packet), at offset off:
\*   st: "ok" | "eof" (no octet at a packet boundary) | "uneof" (io.ErrUnexpectedEOF) | "structural" (bit 7 clear)
\*   lenw: declared length as limbs (<<65535,65535>> for streams: partial / indeterminate), used: offset after the packet
ParsePacket(w, off) ==
  IF off >= w.n THEN Res("eof", 0, "none", <<0, 0>>, <<>>, off)
  ELSE LET b == At(w, off) IN
  IF b < 128 THEN Res("structural", 0, "none", <<0, 0>>, <<>>, off + 1)
  ELSE IF b < 192 THEN
       LET tag == (b % 64) \div 4
           lt == b % 4 IN
       IF lt = 3 THEN Res("ok", tag, "old3", <<65535, 65535>>, Slice(w, off + 1, w.n - off - 1), w.n)
       ELSE LET nb == Pow2(lt) IN
            IF off + 1 + nb > w.n THEN Res("uneof", tag, "old" \o ToString(lt), <<0, 0>>, <<>>, w.n)
            ELSE LET l == IF lt = 0 THEN <<0, At(w, off + 1)>>
                          ELSE IF lt = 1 THEN <<0, At(w, off + 1) * 256 + At(w, off + 2)>>
                          ELSE Limbs(At(w, off + 1), At(w, off + 2), At(w, off + 3), At(w, off + 4)) IN
                 Span(w, tag, "old" \o ToString(lt), l, <<>>, off + 1 + nb, IntOf(l))
  ELSE LET tag == b % 64
           l == DecLen(w, off + 1) IN
       IF l.st # "ok" THEN Res("uneof", tag, "new", <<0, 0>>, <<>>, w.n)
       ELSE IF l.partial THEN Chunks(w, tag, <<>>, off + 1 + l.used, l.len, TRUE)
       ELSE Span(w, tag, "new" \o ToString(l.used), l.lenw, <<>>, off + 1 + l.used, l.len)

\* all packets of a wire, stopping at the first result that is not "ok" (which is included)
RECURSIVE ParseAllFrom(_, _)
ParseAllFrom(w, off) == CHOOSE x \in {IF r.st = "ok" THEN <<r>> \o ParseAllFrom(w, r.used) ELSE <<r>> : r \in {ParsePacket(w, off)}} : TRUE
ParseAll(w) == ParseAllFrom(w, 0)

(* signature subpackets: nextSubpacket / OpaqueSubpackets over explicit octets b (1-based sequence).
   Result: the subpackets parsed before the end or the first error, and whether an error ("subpacket truncated") occurred. *)
RECURSIVE SubParse(_, _)
SubParse(b, acc) ==
  IF b = <<>> THEN [ok |-> TRUE, subs |-> acc]
  ELSE LET hl == IF b[1] < 192 THEN 1 ELSE IF b[1] < 255 THEN 2 ELSE 5 IN
       IF Len(b) < hl + 1 THEN [ok |-> FALSE, subs |-> acc]
       ELSE LET big == hl = 5 /\ b[2] >= 128
                sl == IF hl = 1 THEN b[1] ELSE IF hl = 2 THEN (b[1] - 192) * 256 + b[2] + 192
                      ELSE IF big THEN -1 ELSE b[2] * 16777216 + b[3] * 65536 + b[4] * 256 + b[5]
                rest == SubSeq(b, hl + 1, Len(b)) IN
            IF big \/ sl = 0 \/ sl > Len(rest) THEN [ok |-> FALSE, subs |-> acc]
            ELSE SubParse(SubSeq(rest, sl + 1, Len(rest)), Append(acc, [type |-> rest[1], body |-> SubSeq(rest, 2, sl)]))
EncSub(type, body) == EncSubLen(Len(body) + 1) \o <<type>> \o body

-----------------------------------------------------------------------------
(* partialLengthWriter as a pure state transformer (used by PGPFramingStream's actions and by the case generator).
   State: sent = sentFirst, bufN = len(buf) (the buffer holds data[pos-bufN, pos)), pos = octets accepted so far,
   out = segments written to the underlying writer after the tag octet, ret = value returned by the last Write. *)
CONSTANTS MinFirst,     \* minFirstPartialWrite (512)
          MaxPow        \* largest chunk exponent the writer uses (30)

WInit == [sent |-> FALSE, bufN |-> 0, pos |-> 0, out |-> <<>>, ret |-> 0, closed |-> FALSE]

\* the Write loop: n octets data[from, from+n) leave as partial chunks, largest power of two first: n div 2^MaxPow chunks of
\* 2^MaxPow, then one chunk per set bit of the rest, high to low (closed form of the loop over `power`)
ChunkExps(n) == LET q == n \div Pow2(MaxPow)
                    r == n % Pow2(MaxPow) IN
                [i \in 1..q |-> MaxPow] \o SelectSeq([i \in 1..MaxPow |-> MaxPow - i], LAMBDA k : (r \div Pow2(k)) % 2 = 1)
ChunkOut(from, n) ==
  LET ks == Force(ChunkExps(n))
      q == n \div Pow2(MaxPow)
      r == n % Pow2(MaxPow)
      Off(i) == IF i <= q THEN from + (i - 1) * Pow2(MaxPow)
                ELSE from + q * Pow2(MaxPow) + (r - (r % Pow2(ks[i] + 1))) IN
  Force([j \in 1..(2 * Len(ks)) |-> IF j % 2 = 1 THEN H(EncPartial(ks[(j + 1) \div 2])) ELSE D(Off(j \div 2), Pow2(ks[j \div 2]))])
SegSum(segs) == FoldLeft(LAMBDA a, x : IF x.t = "d" THEN a + x.n ELSE a, 0, segs)

WWrite(s, k) ==
  IF ~s.sent /\ (s.bufN > 0 \/ k < MinFirst) THEN
       LET tot == s.bufN + k IN
       IF tot < MinFirst THEN [s EXCEPT !.bufN = tot, !.pos = s.pos + k, !.ret = k]
       ELSE LET chunks == ChunkOut(s.pos - s.bufN, tot) IN
            [s EXCEPT !.sent = TRUE, !.bufN = 0, !.pos = s.pos + k, !.out = s.out \o chunks,
                      !.ret = SegSum(chunks) - s.bufN]                  \* n - off
  ELSE LET chunks == ChunkOut(s.pos, k) IN
       [s EXCEPT !.sent = TRUE, !.pos = s.pos + k, !.out = s.out \o chunks, !.ret = SegSum(chunks)]

\* Close.  fixShort = FALSE: the code as it is (a stream shorter than MinFirst leaves as short partial chunks followed by a
\* zero length); fixShort = TRUE: the proposed repair (nothing sent yet: one definite length for the buffered octets).
WClose(s, fixShort) ==
  IF fixShort /\ ~s.sent
  THEN [s EXCEPT !.sent = TRUE, !.bufN = 0, !.closed = TRUE,
                 !.out = s.out \o <<H(EncLen(s.bufN))>> \o (IF s.bufN > 0 THEN <<D(s.pos - s.bufN, s.bufN)>> ELSE <<>>)]
  ELSE [s EXCEPT !.sent = TRUE, !.bufN = 0, !.closed = TRUE,
                 !.out = s.out \o ChunkOut(s.pos - s.bufN, s.bufN) \o <<H(<<0>>)>>]

WRun(sizes) == FoldLeft(WWrite, WInit, sizes)
\* serializeStreamHeader(tag); Write(sizes[1]); ...; Close()
WStream(tag, sizes, fixShort) == <<H(<<NewTag(tag)>>)>> \o WClose(WRun(sizes), fixShort).out
SeqSum(s) == FoldLeft(LAMBDA a, x : a + x, 0, s)

\* the partial chunk sizes of a stream in order, and its first length octet
ChunkSizes(segs) == Force([i \in 1..Len(segs) |-> IF segs[i].t = "h" /\ segs[i].n = 1 /\ segs[i].v[1] >= 224 /\ segs[i].v[1] < 255
                                                  THEN Pow2(segs[i].v[1] - 224) ELSE 0])

-----------------------------------------------------------------------------
(* RFC 4880 section 4.2.3 examples *)
ASSUME EncLen(100) = <<100>>                                         \* 0x64
ASSUME EncLen(1723) = <<197, 251>>                                   \* 0xC5 0xFB
ASSUME EncLen(100000) = <<255, 0, 1, 134, 160>>                      \* 0xFF 0x00 0x01 0x86 0xA0
ASSUME EncLen(191) = <<191>> /\ EncLen(192) = <<192, 0>> /\ EncLen(8383) = <<223, 255>> /\ EncLen(8384) = <<255, 0, 0, 32, 192>>
\* "0xEF, first 32768 octets; 0xE1, next two; 0xE0, next one; 0xF0, next 65536; 0xC5, 0xDD, last 1693 octets"
ASSUME LET w == MkWire(<<H(<<NewTag(11), 239>>), D(0, 32768), H(<<225>>), D(32768, 2), H(<<224>>), D(32770, 1),
                         H(<<240>>), D(32771, 65536), H(<<197, 221>>), D(98307, 1693)>>, 2)
           r == ParsePacket(w, 0) IN
       r.st = "ok" /\ r.tag = 11 /\ r.body = Data(100000) /\ r.used = w.n
ASSUME EncSubLen(191) = <<191>> /\ EncSubLen(192) = <<192, 0>> /\ EncSubLen(16319) = <<254, 255>> /\ EncSubLen(16320) = <<255, 0, 0, 63, 192>>
=============================================================================
