SPECIFICATION Spec
CONSTANTS
  KeyTypes <- KT
  FilePw <- FP
  Given <- GV
  Iters <- ITq
  Damage <- DM
INVARIANTS Emit
CHECK_DEADLOCK FALSE
