SPECIFICATION Spec
CONSTANTS
  Menus <- MenusT
INVARIANTS AKMatchesGrammar AKTypeMatches KHok KHaccepts
CHECK_DEADLOCK FALSE
