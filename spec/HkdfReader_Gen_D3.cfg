INIT GInit
NEXT GNext
CONSTANTS
  Depth = 3
INVARIANTS Emit TypeOK
CHECK_DEADLOCK FALSE
