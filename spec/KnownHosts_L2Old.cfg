SPECIFICATION Spec
CONSTANTS
  CaseSet <- CasesL2
  QueriesOf <- QOf
  StarFix = FALSE
  SubjectFix = TRUE
  CAListsPlain = TRUE
  RevokedSubject = TRUE
INVARIANTS Agree
CHECK_DEADLOCK FALSE
