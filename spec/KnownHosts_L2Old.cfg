SPECIFICATION Spec
CONSTANTS
  FileSet <- FilesL2
  QuerySeq <- QueriesL
  StarFix = FALSE
  SubjectFix = TRUE
  CAListsPlain = TRUE
  RevokedSubject = TRUE
INVARIANTS Agree
CHECK_DEADLOCK FALSE
