------------------------------ MODULE SSHKeyBlob ------------------------------
(* The wire encoding of SSH public keys (RFC 4253 6.6, RFC 5656 3.1, RFC 8709 4, PROTOCOL.u2f) as
   golang.org/x/crypto/ssh writes and reads it (ssh/keys.go: rsaPublicKey / dsaPublicKey /
   ecdsaPublicKey / ed25519PublicKey / skECDSAPublicKey / skEd25519PublicKey .Marshal, parseRSA,
   parseDSA, parseECDSA, parseED25519, parseSKECDSA, parseSKEd25519; MarshalAuthorizedKey and the
   fingerprints are functions of these bytes).                                        [property C38]

   An executable encoder over byte sequences.  A key is a record
        [name, type, ints, raws, classes]
   ints = the integer components as magnitudes (big-endian byte sequences WITHOUT leading zero
   bytes; <<>> is zero), raws = the byte-string components.  Each component has a WIDTH RULE:
        mpint        RSA e, n; DSA p, q, g, y: minimal two's complement -- the magnitude, preceded
                     by one 0x00 byte exactly when its top bit is set, never more (Mpint)
        fixed width  EC coordinates: left-padded with zero bytes to the field size of the curve
                     (32 / 48 / 66 bytes), whatever the magnitude's own length (Fixed); the point
                     is 0x04 || X || Y
        raw          Ed25519 public keys (exactly 32 bytes, any content), application strings,
                     names: the bytes as they are
   One state = one key of the boundary key set (SSHKeyBlob_Keys: for every fixed-width or mpint
   component, keys at the boundaries of the rule -- leading zero bytes, top bit set / clear);
   action Encode computes the blob, Decode reads it back as the package's parsers do. *)
EXTENDS Integers, Sequences, FiniteSets, TLC

CONSTANT Keys          \* sequence of key records (SSHKeyBlob_Keys!BoundaryKeys)

VARIABLES k, blob, back, phase
vars == <<k, blob, back, phase>>

-----------------------------------------------------------------------------
RECURSIVE Zeros(_)
Zeros(n) == IF n <= 0 THEN <<>> ELSE <<0>> \o Zeros(n - 1)
U32(n) == <<(n \div 16777216) % 256, (n \div 65536) % 256, (n \div 256) % 256, n % 256>>
Str(b) == U32(Len(b)) \o b
(* width rules *)
Mpint(m) == Str(IF m # <<>> /\ m[1] >= 128 THEN <<0>> \o m ELSE m)
Fixed(m, w) == Zeros(w - Len(m)) \o m
Point(x, y, w) == <<4>> \o Fixed(x, w) \o Fixed(y, w)

(* names as byte sequences *)
Ascii(s) == CASE s = "ssh-rsa" -> <<115,115,104,45,114,115,97>>
              [] s = "ssh-dss" -> <<115,115,104,45,100,115,115>>
              [] s = "ssh-ed25519" -> <<115,115,104,45,101,100,50,53,53,49,57>>
              [] s = "ecdsa-sha2-nistp256" -> <<101,99,100,115,97,45,115,104,97,50,45,110,105,115,116,112,50,53,54>>
              [] s = "ecdsa-sha2-nistp384" -> <<101,99,100,115,97,45,115,104,97,50,45,110,105,115,116,112,51,56,52>>
              [] s = "ecdsa-sha2-nistp521" -> <<101,99,100,115,97,45,115,104,97,50,45,110,105,115,116,112,53,50,49>>
              [] s = "sk-ecdsa-sha2-nistp256@openssh.com" -> <<115,107,45,101,99,100,115,97,45,115,104,97,50,45,110,105,115,116,112,50,53,54,64,111,112,101,110,115,115,104,46,99,111,109>>
              [] s = "sk-ssh-ed25519@openssh.com" -> <<115,107,45,115,115,104,45,101,100,50,53,53,49,57,64,111,112,101,110,115,115,104,46,99,111,109>>
              [] s = "nistp256" -> <<110,105,115,116,112,50,53,54>>
              [] s = "nistp384" -> <<110,105,115,116,112,51,56,52>>
              [] s = "nistp521" -> <<110,105,115,116,112,53,50,49>>
ECTypes == {"ecdsa-sha2-nistp256", "ecdsa-sha2-nistp384", "ecdsa-sha2-nistp521", "sk-ecdsa-sha2-nistp256@openssh.com"}
CurveOf(t) == CASE t = "ecdsa-sha2-nistp384" -> "nistp384" [] t = "ecdsa-sha2-nistp521" -> "nistp521" [] OTHER -> "nistp256"
Width(t)   == CASE t = "ecdsa-sha2-nistp384" -> 48 [] t = "ecdsa-sha2-nistp521" -> 66 [] OTHER -> 32

(* the blob of a key *)
Blob(x) ==
  LET t == x.type IN
  Str(Ascii(t)) \o
  (CASE t = "ssh-rsa" -> Mpint(x.ints[1]) \o Mpint(x.ints[2])                                    \* e, n
     [] t = "ssh-dss" -> Mpint(x.ints[1]) \o Mpint(x.ints[2]) \o Mpint(x.ints[3]) \o Mpint(x.ints[4])   \* p, q, g, y
     [] t \in ECTypes \ {"sk-ecdsa-sha2-nistp256@openssh.com"} ->
          Str(Ascii(CurveOf(t))) \o Str(Point(x.ints[1], x.ints[2], Width(t)))
     [] t = "sk-ecdsa-sha2-nistp256@openssh.com" ->
          Str(Ascii("nistp256")) \o Str(Point(x.ints[1], x.ints[2], 32)) \o Str(x.raws[1])      \* + application
     [] t = "ssh-ed25519" -> Str(x.raws[1])
     [] t = "sk-ssh-ed25519@openssh.com" -> Str(x.raws[1]) \o Str(x.raws[2]))

-----------------------------------------------------------------------------
(* reading it back, as the parsers do: strings by length, mpints tolerant of leading zeros (parseInt),
   EC points exactly 1 + 2w bytes with a leading 4 (elliptic.Unmarshal), Ed25519 keys exactly 32 bytes *)
Bad == [ok |-> FALSE, v |-> <<>>, rest |-> <<>>]
DStr(b) == IF Len(b) < 4 \/ b[1] >= 128 THEN Bad
           ELSE LET n == b[1] * 16777216 + b[2] * 65536 + b[3] * 256 + b[4] IN
                IF Len(b) - 4 < n THEN Bad ELSE [ok |-> TRUE, v |-> SubSeq(b, 5, 4 + n), rest |-> SubSeq(b, 5 + n, Len(b))]
RECURSIVE Strip(_)
Strip(m) == IF m # <<>> /\ m[1] = 0 THEN Strip(Tail(m)) ELSE m          \* the magnitude of a non-negative mpint body
RECURSIVE DFields(_, _)
DFields(b, n) == IF n = 0 THEN (IF b = <<>> THEN <<>> ELSE << <<-1>> >>)
                 ELSE LET r == DStr(b) IN IF ~r.ok THEN << <<-2>> >> ELSE <<r.v>> \o DFields(r.rest, n - 1)
NFields(t) == CASE t = "ssh-rsa" -> 3 [] t = "ssh-dss" -> 5 [] t = "ssh-ed25519" -> 2
                [] t = "sk-ecdsa-sha2-nistp256@openssh.com" -> 4 [] t = "sk-ssh-ed25519@openssh.com" -> 3 [] OTHER -> 3
DPoint(p, w) == IF Len(p) = 1 + 2 * w /\ p[1] = 4
                THEN <<Strip(SubSeq(p, 2, 1 + w)), Strip(SubSeq(p, 2 + w, 1 + 2 * w))>> ELSE << <<-3>> >>
Parse(b, t) ==
  LET f == DFields(b, NFields(t)) IN
  IF Len(f) # NFields(t) \/ f[1] # Ascii(t) THEN [ok |-> FALSE, ints |-> <<>>, raws |-> <<>>]
  ELSE CASE t = "ssh-rsa" -> [ok |-> TRUE, ints |-> <<Strip(f[2]), Strip(f[3])>>, raws |-> <<>>]
         [] t = "ssh-dss" -> [ok |-> TRUE, ints |-> <<Strip(f[2]), Strip(f[3]), Strip(f[4]), Strip(f[5])>>, raws |-> <<>>]
         [] t = "ssh-ed25519" -> [ok |-> Len(f[2]) = 32, ints |-> <<>>, raws |-> <<f[2]>>]
         [] t = "sk-ssh-ed25519@openssh.com" -> [ok |-> Len(f[2]) = 32, ints |-> <<>>, raws |-> <<f[2], f[3]>>]
         [] t = "sk-ecdsa-sha2-nistp256@openssh.com" ->
              [ok |-> f[2] = Ascii("nistp256") /\ Len(DPoint(f[3], 32)) = 2, ints |-> DPoint(f[3], 32), raws |-> <<f[4]>>]
         [] OTHER -> [ok |-> f[2] = Ascii(CurveOf(t)) /\ Len(DPoint(f[3], Width(t))) = 2, ints |-> DPoint(f[3], Width(t)), raws |-> <<>>]

-----------------------------------------------------------------------------
NoBack == [ok |-> FALSE, ints |-> <<>>, raws |-> <<>>]
Init == /\ \E i \in 1..Len(Keys) : k = Keys[i]
        /\ blob = <<>> /\ back = NoBack /\ phase = "init"
Encode == /\ phase = "init" /\ blob' = Blob(k) /\ phase' = "encoded" /\ UNCHANGED <<k, back>>
Decode == /\ phase = "encoded" /\ back' = Parse(blob, k.type) /\ phase' = "done" /\ UNCHANGED <<k, blob>>
Next == Encode \/ Decode
Spec == Init /\ [][Next]_vars

-----------------------------------------------------------------------------
Done == phase = "done"
Minimal(m) == m = <<>> \/ m[1] # 0
(* the key material is well formed: magnitudes carry no leading zero bytes, coordinates fit the field *)
KeyWellFormed == /\ \A i \in 1..Len(k.ints) : Minimal(k.ints[i])
                 /\ (k.type \in ECTypes => \A i \in 1..2 : Len(k.ints[i]) <= Width(k.type))
(* ParsePublicKey(Marshal(k)) = k, in the model *)
RoundTrip == Done => (back.ok /\ back.ints = k.ints /\ back.raws = k.raws)
(* the width rules, stated on the bytes *)
PointWidth == (phase # "init" /\ k.type \in ECTypes) =>
   LET f == DFields(blob, NFields(k.type)) IN Len(f[3]) = 1 + 2 * Width(k.type)        \* whatever the magnitudes' lengths
MpintMinimal == (phase # "init" /\ k.type \in {"ssh-rsa", "ssh-dss"}) =>
   LET f == DFields(blob, NFields(k.type)) IN
   \A i \in 2..Len(f) : /\ (f[i] # <<>> => f[i][1] < 128)                               \* never negative
                        /\ (Len(f[i]) >= 2 /\ f[i][1] = 0 => f[i][2] >= 128)            \* a leading zero only in front of a set top bit
(* the boundary classes are all there (vacuity guard, also checked on the replay side) *)
ClassesOf(t) == UNION {Keys[i].classes : i \in {j \in 1..Len(Keys) : Keys[j].type = t}}
Coverage == /\ \A t \in ECTypes : {"shortX", "shortY", "full"} \subseteq ClassesOf(t)
            /\ {"nTopSet", "nTopClear", "eTopSet", "e3", "e65537"} \subseteq ClassesOf("ssh-rsa")
            /\ {"yShort", "yTopSet", "yTopClear", "gShort", "gTopSet", "gTopClear"} \subseteq ClassesOf("ssh-dss")
            /\ {"lead0", "trail0", "random"} \subseteq ClassesOf("ssh-ed25519")
            /\ {"lead0", "trail0", "appEmpty"} \subseteq ClassesOf("sk-ssh-ed25519@openssh.com")
            /\ "appEmpty" \in ClassesOf("sk-ecdsa-sha2-nistp256@openssh.com")
=============================================================================
