SPECIFICATION Spec
CONSTANTS
  Kinds = {"shake", "fixed", "legacy"}
  WSet = {0, 1, 2, 3, 4, 6, 7}
  RSet = {0, 1, 2, 3, 4, 6, 7}
  MaxLen = 10
  MaxOut = 10
  MaxObjs = 1
  ShakeResetAfterRead = FALSE
  Rate = 3
  OutLen = 2
  Prefixes = {0, 3}
INVARIANTS AbsInv OutIsDefinition BookInv FlagMatchesDir SumPanicsOnlyAfterRead
PROPERTIES Refines AbsSumPure AbsIndependent AbsCloneEqual AbsReadContiguous AbsSqueezingIsFinal
CHECK_DEADLOCK FALSE
