SPECIFICATION Spec
CONSTANTS
  IntBits = 63
  KeyLenGuard = TRUE
  MemLog2 = 27
  WorkLog2 = 20
  NSet <- BigN
  RSet <- BigRP
  PSet <- BigRP
  KSet <- BigK
INVARIANTS NeverPanics Conforms DivisionFormIsProductForm WrapCovered Emit
CHECK_DEADLOCK FALSE
