SPECIFICATION Spec
CONSTANTS
  Menu <- MenuWhole
  AEAD <- MCAEAD
INVARIANTS BothOrNeither Mirror RFCChoice FailIffNoCommon FindCommonIsRFC
CHECK_DEADLOCK FALSE
