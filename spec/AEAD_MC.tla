------------------------------- MODULE AEAD_MC -------------------------------
(***************************************************************************)
(* C01 - model-level theorem about the construction, checked exhaustively  *)
(* on small parameters: MacData (pad16(AD) || pad16(CT) || lengths) is     *)
(* injective in (AD, CT) - the reason RFC 8439 appends the length block.   *)
(* Strings are Prefix zeros followed by at most MaxL letters of Alphabet,  *)
(* so with Prefix = 14 the 16-byte padding boundary is crossed.            *)
(* InjectiveNoLen states the same for the construction without the length  *)
(* block; it is false, which the check confirms (non-vacuity).             *)
(***************************************************************************)
EXTENDS AEAD, TLC

CONSTANTS Alphabet, MaxL, PrefixSet
VARIABLES ad, ct, Prefix

RECURSIVE Strs(_)
Strs(n) == IF n = 0 THEN {<<>>} ELSE LET S == Strs(n - 1) IN S \cup {Append(s, a) : s \in S, a \in Alphabet}
All == {Zeros(Prefix) \o s : s \in Strs(MaxL)}

Init == Prefix \in PrefixSet /\ ad = Zeros(Prefix) /\ ct = Zeros(Prefix)
Next == \/ /\ Len(ad) < Prefix + MaxL /\ \E a \in Alphabet : ad' = Append(ad, a) /\ UNCHANGED <<ct, Prefix>>
        \/ /\ Len(ct) < Prefix + MaxL /\ \E a \in Alphabet : ct' = Append(ct, a) /\ UNCHANGED <<ad, Prefix>>
Spec == Init /\ [][Next]_<<ad, ct, Prefix>>

Injective == \A a2 \in All, c2 \in All : (MacData(a2, c2) = MacData(ad, ct)) => (a2 = ad /\ c2 = ct)
MacDataNoLen(a, c) == Pad16(a) \o Pad16(c)
InjectiveNoLen == \A a2 \in All, c2 \in All : (MacDataNoLen(a2, c2) = MacDataNoLen(ad, ct)) => (a2 = ad /\ c2 = ct)
Shape == /\ Len(MacData(ad, ct)) % 16 = 0
         /\ Len(MacData(ad, ct)) = 16 * ((Len(ad) + 15) \div 16) + 16 * ((Len(ct) + 15) \div 16) + 16
=============================================================================
