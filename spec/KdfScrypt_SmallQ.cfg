SPECIFICATION Spec
CONSTANTS
  IntBits = 63
  KeyLenGuard = TRUE
  MemLog2 = 27
  WorkLog2 = 20
  NSet <- SmallN
  RSet <- SmallRPq
  PSet <- SmallRPq
  KSet <- KeyLens
INVARIANTS NeverPanics Conforms DivisionFormIsProductForm WrapCovered Emit
CHECK_DEADLOCK FALSE
