----------------------------- MODULE PGPMessage -----------------------------
(***************************************************************************)
(* OpenPGP messages as golang.org/x/crypto/openpgp writes and reads them    *)
(* (write.go: Encrypt, SymmetricallyEncrypt, Sign; read.go: ReadMessage,   *)
(* readSignedMessage, checkReader, signatureCheckReader;                   *)
(* packet/symmetrically_encrypted.go: seMDCReader.Close; packet/reader.go: *)
(* Reader.Next skips packets of unknown type).                  [C44]      *)
(*                                                                         *)
(* What a specification can carry here is the composition of a message and *)
(* the structure of the checks, not the ciphers.  A message is a sequence   *)
(* of regions (packets or packet fields); the writer decides which regions *)
(* exist; an attacker flips a byte in one region, truncates the message    *)
(* inside a region, or strips the MDC (tag 18 -> 9, trailer removed); the  *)
(* reader is the packet loop of ReadMessage with one action per packet.    *)
(* Numeric correctness of RSA/ElGamal/DSA/ECDSA/CFB is outside the model:  *)
(* a damaged ciphertext region simply yields a damaged plaintext region    *)
(* (CFB: from the flipped byte on), a damaged key packet yields no or a    *)
(* wrong session key.                                                      *)
(***************************************************************************)
EXTENDS Integers, Sequences, FiniteSets, TLC

(* message kinds produced by the package *)
Kinds == {"enc",        \* Encrypt(to, signed = nil):   ESK+ . SEIPD{ Literal } MDC
          "encsig",     \* Encrypt(to, signed):         ESK+ . SEIPD{ OnePass . Literal . Signature } MDC
          "sym",        \* SymmetricallyEncrypt:        SKESK . SEIPD{ Literal } MDC
          "symz",       \* ... with compression:        SKESK . SEIPD{ Compressed{ Literal } } MDC
          "sig",        \* Sign:                        OnePass . Literal . Signature        (no encryption layer)
          "detached"}   \* DetachSign + CheckDetachedSignature: data, Signature
Encrypted(k) == k \notin {"sig", "detached"}
Signed(k) == k \in {"encsig", "sig", "detached"}

(* regions in wire order.  Fields the format protects by nothing are regions of their own:
   eskslack  = the low bits of an MPI bit count in a public-key session-key packet (same number of octets is read); in a
               passphrase session-key packet the DES parity bits of an encrypted 3DES session key (last CFB block: a flipped
               parity bit yields an equivalent key),
   opshint   = one-pass fields the reader does not use, only tests for non-zero, or that need not matter: public-key algorithm,
               IsLast, the packet's length octet, and the signature type (binary/text: it only selects how the data is fed to
               the hash -- the same octets unless the data contains a bare LF; the signed type is the Signature packet's),
   lithdr    = literal header (format, file name, date): hashed by no signature, protected only by an enclosing MDC,
   sigslack  = in the trailing signature packet: the unhashed subpacket data (the issuer key id, which ReadMessage does not
               consult: the key comes from the one-pass packet) and the MPI bit counts *)
Layout(k) ==
  CASE k = "enc"    -> <<"esk", "eskslack", "ver", "prefix", "lithdr", "litbody", "mdc">>
    [] k = "encsig" -> <<"esk", "eskslack", "ver", "prefix", "ops", "opshint", "lithdr", "litbody", "sigpkt", "sigslack", "mdc">>
    [] k = "sym"    -> <<"esk", "eskslack", "ver", "prefix", "lithdr", "litbody", "mdc">>
    [] k = "symz"   -> <<"esk", "eskslack", "ver", "prefix", "comphdr", "lithdr", "litbody", "mdc">>
    [] k = "sig"    -> <<"ops", "opshint", "lithdr", "litbody", "sigpkt", "sigslack">>
    [] k = "detached" -> <<"litbody", "sigpkt", "sigslack">>       \* DetachSign: the signed data travels separately ("litbody" = that data)
RegionsOf(k) == {Layout(k)[i] : i \in 1..Len(Layout(k))}
InsideSEIPD(k, r) == Encrypted(k) /\ r \notin {"esk", "eskslack"}
Index(k, r) == CHOOSE i \in 1..Len(Layout(k)) : Layout(k)[i] = r

Attacks(k) == {[a |-> "none", r |-> "-"]}
              \cup {[a |-> "flip", r |-> r] : r \in RegionsOf(k)}
              \cup {[a |-> "truncate", r |-> r] : r \in RegionsOf(k)}        \* the message ends inside region r
              \cup (IF Encrypted(k) THEN {[a |-> "stripmdc", r |-> "-"]} ELSE {})

VARIABLES kind, atk,
          known,        \* is the signer's public key in the reader's keyring?
          pc,           \* reader position: index into Layout(kind) of the next region, or Len+1
          stream,       \* "clear" | "ok" (decrypting, plaintext as written) | "garbled" (plaintext differs from here on) | "nomdc-garbled"
          mdcOn,        \* an MDC check is pending (tag 18)
          sigOn,        \* a signature check is pending (one-pass seen, signer known)
          isSigned,     \* md.IsSigned
          bodyState,    \* "none" | "original" | "altered"      -- what UnverifiedBody delivered
          hashOK,       \* running signature hash still equals the signer's
          runOK,        \* running MDC hash still equals the writer's
          out           \* "-" while reading; "error" | "sigerror" | "mdcerror" | "clean"
vars == <<kind, atk, known, pc, stream, mdcOn, sigOn, isSigned, bodyState, hashOK, runOK, out>>

Init == /\ kind \in Kinds
        /\ atk \in Attacks(kind)
        /\ known \in BOOLEAN
        /\ pc = 1 /\ stream = "clear" /\ mdcOn = FALSE /\ sigOn = FALSE /\ isSigned = FALSE
        /\ bodyState = "none" /\ hashOK = TRUE /\ runOK = TRUE /\ out = "-"

Cur == Layout(kind)[pc]
AtEnd == pc > Len(Layout(kind))
AtMdcOrEnd == IF pc > Len(Layout(kind)) THEN TRUE ELSE Layout(kind)[pc] = "mdc"
Hit == atk.a = "flip" /\ ~AtEnd /\ atk.r = Cur                    \* the flipped byte lies in the region being read
Cut == atk.a = "truncate" /\ ~AtEnd /\ atk.r = Cur                \* the input ends inside the region being read
\* plaintext seen by the inner parser is damaged in this region: flipped here, or the stream has been garbled before
Damaged == Hit \/ stream \in {"garbled", "nomdc-garbled"}
Fail(o) == out' = o /\ UNCHANGED <<kind, atk, known, pc, stream, mdcOn, sigOn, isSigned, bodyState, hashOK, runOK>>
Step(changes) == pc' = pc + 1 /\ changes

(* -- session-key packets (EncryptedKey / SymmetricKeyEncrypted) *)
ReadESK ==
  /\ out = "-" /\ ~AtEnd /\ Cur \in {"esk", "eskslack"}
  /\ IF Cut THEN Fail("error")
     ELSE IF Hit /\ Cur = "esk"
          THEN \* no session key (padding/checksum/key id/version/algorithm), or a wrong one that fails the OCFB quick check;
               \* with probability 2^-16 a wrong key passes the quick check and everything after is garbage
               \/ Fail("error")
               \/ Step(stream' = "garbled" /\ UNCHANGED <<kind, atk, known, mdcOn, sigOn, isSigned, bodyState, hashOK, runOK, out>>)
          ELSE Step(UNCHANGED <<kind, atk, known, stream, mdcOn, sigOn, isSigned, bodyState, hashOK, runOK, out>>)      \* eskslack: same octets, same key

(* -- SymmetricallyEncrypted header: version octet (tag 18 only) and the OCFB prefix with its two check octets *)
ReadVer ==
  /\ out = "-" /\ ~AtEnd /\ Cur = "ver"
  /\ IF Cut \/ Hit THEN Fail("error")                                  \* unknown SymmetricallyEncrypted version
     ELSE IF atk.a = "stripmdc"
          THEN Step(mdcOn' = FALSE /\ UNCHANGED <<kind, atk, known, stream, sigOn, isSigned, bodyState, hashOK, runOK, out>>)   \* tag 9: no version octet, no MDC
          ELSE Step(mdcOn' = TRUE /\ UNCHANGED <<kind, atk, known, stream, sigOn, isSigned, bodyState, hashOK, runOK, out>>)
ReadPrefix ==
  /\ out = "-" /\ ~AtEnd /\ Cur = "prefix"
  /\ IF Cut THEN Fail("error")
     ELSE IF stream = "garbled" \/ Hit
          THEN \/ Fail("error")                                        \* quick check fails: ErrKeyIncorrect
               \/ Step(stream' = "garbled" /\ runOK' = FALSE /\ UNCHANGED <<kind, atk, known, mdcOn, sigOn, isSigned, bodyState, hashOK, out>>)
          ELSE IF atk.a = "stripmdc"
               \* tag 9 uses the resynchronising OCFB variant: block alignment shifts by two octets, everything after the prefix is garbage
               THEN Step(stream' = "nomdc-garbled" /\ UNCHANGED <<kind, atk, known, mdcOn, sigOn, isSigned, bodyState, hashOK, runOK, out>>)
               ELSE Step(stream' = "ok" /\ UNCHANGED <<kind, atk, known, mdcOn, sigOn, isSigned, bodyState, hashOK, runOK, out>>)

(* a damaged region inside the encrypted stream: CFB garbles from the flipped octet on *)
Garble == IF Hit /\ InsideSEIPD(kind, Cur) THEN "garbled" ELSE stream
RunAfter == IF Hit /\ InsideSEIPD(kind, Cur) THEN FALSE ELSE runOK

(* -- packet headers inside: compressed-data header, one-pass signature, literal header.
   A damaged header either stops the packet parser (error / unsupported), or is skipped as a packet of unknown type,
   or still parses with different field values. *)
ReadCompHdr ==
  /\ out = "-" /\ ~AtEnd /\ Cur = "comphdr"
  /\ IF Cut THEN Fail("error")
     ELSE IF Damaged THEN Fail("error")          \* unknown algorithm / corrupt deflate stream (everything below is inside the damaged deflate stream)
     ELSE Step(UNCHANGED <<kind, atk, known, stream, mdcOn, sigOn, isSigned, bodyState, hashOK, runOK, out>>)
ReadOPS ==
  /\ out = "-" /\ ~AtEnd /\ Cur \in {"ops", "opshint"}
  /\ IF Cut THEN Fail("error")
     ELSE IF Damaged /\ Cur = "ops"
          THEN \/ Fail("error")                  \* version, unknown hash, unsupported signature type, nested (IsLast = 0), framing
               \/ Step(/\ stream' = Garble /\ runOK' = RunAfter          \* packet skipped as unknown type, or key id changed: signer not found
                       /\ isSigned' \in BOOLEAN /\ sigOn' = FALSE
                       /\ UNCHANGED <<kind, atk, known, mdcOn, bodyState, hashOK, out>>)
               \/ Step(/\ stream' = Garble /\ runOK' = RunAfter          \* another known hash or signature type: the running hash is not the signer's
                       /\ isSigned' = TRUE /\ sigOn' = known /\ hashOK' = FALSE
                       /\ UNCHANGED <<kind, atk, known, mdcOn, bodyState, out>>)
          ELSE IF Cur = "ops"
               THEN Step(/\ isSigned' = TRUE /\ sigOn' = known
                         /\ UNCHANGED <<kind, atk, known, stream, mdcOn, bodyState, hashOK, runOK, out>>)
               ELSE \* opshint: unused fields; a flip here changes nothing the reader looks at (IsLast stays non-zero or becomes 0 = "ops" case above)
                    Step(/\ stream' = Garble /\ runOK' = RunAfter
                         /\ UNCHANGED <<kind, atk, known, mdcOn, sigOn, isSigned, bodyState, hashOK, out>>)
ReadLitHdr ==
  /\ out = "-" /\ ~AtEnd /\ Cur = "lithdr"
  /\ IF Cut THEN Fail("error")
     ELSE IF Damaged
          THEN \/ Fail("error")                  \* framing / no literal packet found before the input ends
               \/ Step(stream' = Garble /\ runOK' = RunAfter /\ UNCHANGED <<kind, atk, known, mdcOn, sigOn, isSigned, bodyState, hashOK, out>>)   \* other format / name / date: not signed
          ELSE Step(UNCHANGED <<kind, atk, known, stream, mdcOn, sigOn, isSigned, bodyState, hashOK, runOK, out>>)

(* -- literal body: delivered to the caller and fed to the signature hash *)
ReadBody ==
  /\ out = "-" /\ ~AtEnd /\ Cur = "litbody" /\ kind # "detached"
  /\ IF Cut THEN (out' = "error" /\ bodyState' = "altered" /\ UNCHANGED <<kind, atk, known, pc, stream, mdcOn, sigOn, isSigned, hashOK, runOK>>)    \* unexpected EOF after a prefix of the data
     ELSE IF Damaged
          THEN Step(/\ bodyState' = "altered" /\ hashOK' = FALSE /\ stream' = Garble /\ runOK' = RunAfter
                    /\ UNCHANGED <<kind, atk, known, mdcOn, sigOn, isSigned, out>>)
          ELSE Step(bodyState' = "original" /\ UNCHANGED <<kind, atk, known, stream, mdcOn, sigOn, isSigned, hashOK, runOK, out>>)

(* -- end of the literal data: signatureCheckReader / checkReader *)
CloseMDCAt(p, sigErr) ==       \* seMDCReader.Close: trailer present and hash equal; reported in place of io.EOF.  p = index of the next region
  IF ~mdcOn THEN out' = (IF sigErr THEN "sigerror" ELSE "clean")
  ELSE IF p > Len(Layout(kind)) \/ Layout(kind)[p] # "mdc" THEN out' = "mdcerror"
  ELSE IF (atk.a \in {"flip", "truncate"} /\ atk.r = "mdc") \/ ~runOK \/ stream = "garbled" THEN out' = "mdcerror"
  ELSE out' = (IF sigErr THEN "sigerror" ELSE "clean")
CloseMDC(sigErr) == CloseMDCAt(pc, sigErr)
ReadSigPkt ==
  /\ out = "-" /\ ~AtEnd /\ Cur \in {"sigpkt", "sigslack"} /\ kind # "detached"
  /\ IF ~sigOn
     THEN \* no verification pending (unsigned as far as the reader knows, or signer unknown): the packet is not looked at;
          \* checkReader closes the MDC at EOF, a clear-text message just ends
          /\ pc' = pc + 1 /\ UNCHANGED <<kind, atk, known, stream, mdcOn, sigOn, isSigned, bodyState, hashOK, out>>
          /\ runOK' = (IF (Hit \/ Cut) /\ InsideSEIPD(kind, Cur) THEN FALSE ELSE runOK)
     ELSE IF Cut \/ (Damaged /\ (Cur = "sigpkt" \/ InsideSEIPD(kind, Cur)))
          THEN \* missing / unparseable signature packet: SignatureError is set and the MDC is NOT closed (early return);
               \* or it parses and verification fails, then the MDC is closed as well
               /\ pc' = Len(Layout(kind)) + 1
               /\ \/ out' = "sigerror"
                  \/ (IF mdcOn THEN out' = "mdcerror" ELSE out' = "sigerror")
               /\ UNCHANGED <<kind, atk, known, stream, mdcOn, sigOn, isSigned, bodyState, hashOK, runOK>>
          ELSE IF Cur = "sigpkt"
               THEN Step(UNCHANGED <<kind, atk, known, stream, mdcOn, sigOn, isSigned, bodyState, hashOK, runOK, out>>)
               ELSE \* sigslack read (a clear-text flip here changes nothing that is used): verify, then close the MDC
                    /\ pc' = pc + 1
                    /\ CloseMDCAt(pc + 1, ~hashOK)
                    /\ UNCHANGED <<kind, atk, known, stream, mdcOn, sigOn, isSigned, bodyState, hashOK, runOK>>
(* CheckDetachedSignature(keyring, signed, signature): issuer from the signature packet, hash of the data, verify *)
CheckDetached ==
  /\ out = "-" /\ kind = "detached" /\ pc = 1
  /\ pc' = Len(Layout(kind)) + 1
  /\ isSigned' = TRUE
  /\ IF ~known THEN out' = "error" /\ sigOn' = FALSE /\ bodyState' = "none"                         \* ErrUnknownIssuer
     ELSE IF atk.a \in {"flip", "truncate"} /\ atk.r \in {"litbody", "sigpkt"} THEN out' = "error" /\ sigOn' = FALSE /\ bodyState' = "none"
     ELSE IF atk.a = "truncate" THEN out' = "error" /\ sigOn' = FALSE /\ bodyState' = "none"
     ELSE out' = "clean" /\ sigOn' = TRUE /\ bodyState' = "original"
  /\ UNCHANGED <<kind, atk, known, stream, mdcOn, hashOK, runOK>>
Finish ==      \* literal data ended and no signature packet follows in the layout (or it was passed over)
  /\ out = "-" /\ AtMdcOrEnd
  /\ kind # "detached"
  /\ IF sigOn /\ (IF pc = 1 THEN TRUE ELSE Layout(kind)[pc - 1] \notin {"sigpkt", "sigslack"})
     THEN out' = "sigerror"                       \* LiteralData not followed by Signature (cannot arise from these layouts)
     ELSE CloseMDC(~hashOK /\ sigOn)
  /\ UNCHANGED <<kind, atk, known, pc, stream, mdcOn, sigOn, isSigned, bodyState, hashOK, runOK>>

Terminated == out # "-" /\ UNCHANGED vars          \* so that TLC's deadlock check means: the reader never gets stuck without an outcome
Next == ReadESK \/ ReadVer \/ ReadPrefix \/ ReadCompHdr \/ ReadOPS \/ ReadLitHdr \/ ReadBody \/ ReadSigPkt \/ CheckDetached \/ Finish \/ Terminated
Spec == Init /\ [][Next]_vars

-----------------------------------------------------------------------------
(* properties *)
Done == out # "-"
\* what the caller may rely on: the data is the original, no error of any kind, and (for signed kinds) a verified signature
VerifiedSig == isSigned /\ sigOn
Silent == out = "clean" /\ bodyState = "original" /\ (Signed(kind) => VerifiedSig)
\* regions no mechanism of the format covers in this kind of message
Unprotected(k, r) == \/ r = "eskslack"
                     \/ (k = "sig" /\ r \in {"opshint", "lithdr", "sigslack"})
                     \/ (k = "detached" /\ r = "sigslack")
\* where signature verification is not possible the reader reports it through IsSigned / SignedBy, and an MDC still protects
Detected == out \in {"error", "sigerror", "mdcerror"} \/ (Signed(kind) /\ ~VerifiedSig)

\* untouched messages read back: original data, no error, verified signature when the signer is known
Untouched == (Done /\ atk.a = "none") =>
               IF kind = "detached" /\ ~known THEN out = "error"            \* ErrUnknownIssuer
               ELSE (out = "clean" /\ bodyState = "original" /\ (Signed(kind) /\ known => VerifiedSig))
\* C44: any modification of a protected region is detected -- never the original data with a clean end and a verified signature
ModificationDetected == (Done /\ atk.a \in {"flip", "truncate"} /\ ~Unprotected(kind, atk.r) /\ known) => Detected
\* altered data is never delivered with a clean end
NoAlteredClean == (Done /\ out = "clean" /\ atk.a # "stripmdc" /\ (Signed(kind) => VerifiedSig)) => bodyState = "original"
\* stripping the MDC never yields the data
StripMDCUseless == (Done /\ atk.a = "stripmdc") => ~(out = "clean" /\ bodyState = "original")
\* an encrypted message: everything after the session-key packets is covered by the MDC even when the signer is unknown
MDCcovers == (Done /\ Encrypted(kind) /\ atk.a \in {"flip", "truncate"} /\ InsideSEIPD(kind, atk.r)) => out \in {"error", "sigerror", "mdcerror"}
\* the reader always terminates with an outcome: TLC's deadlock check (only Terminated stutters)
=============================================================================
