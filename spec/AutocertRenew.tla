---------------------------- MODULE AutocertRenew ----------------------------
(* The renewal delay domainRenewal.next(notBefore, notAfter) of acme/autocert/renewal.go, as its
   doc comment and Manager.RenewBefore's describe it:

     threshold = RenewBefore capped at 30 days if RenewBefore > 0, else min(lifetime/3, 30 days)
     jitter    in [0, maxJitter) with maxJitter = min(threshold/10, 1 hour)   (no jitter when that is 0)
     renewAt   = notAfter - (threshold - jitter)
     next      = max(0, renewAt - now)

   All quantities are integers in one time unit (the nanosecond regime covers the tiny values,
   the second regime hours..years; TLC integers are 32-bit).  A case is (lifetime, RenewBefore,
   now - notBefore); the jitter is the environment's choice.  TLC checks that the delay is
   defined (total), non-negative, and places the renewal inside the documented window; the
   generator emits for every case the interval the real function's result must fall into. *)
EXTENDS Integers, Sequences, TLC, Json

CONSTANTS Lifetimes,     \* notAfter - notBefore
          RenewBefores,  \* Manager.RenewBefore (0 = unset)
          NowOffsets,    \* now - notBefore
          Day30, Hour1   \* 30 days and 1 hour in the unit of this instance

Min(a, b) == IF a < b THEN a ELSE b
Max(a, b) == IF a > b THEN a ELSE b

Threshold(life, rb) == IF rb > 0 THEN Min(rb, Day30) ELSE Min(life \div 3, Day30)
MaxJitter(life, rb) == Min(Threshold(life, rb) \div 10, Hour1)
\* every jitter value for small windows, the boundary values and the middle for large ones
Jitters(life, rb)   == LET m == MaxJitter(life, rb) IN
                       IF m <= 0 THEN {0} ELSE IF m <= 16 THEN 0..(m - 1) ELSE {0, 1, m \div 2, m - 2, m - 1}
\* notBefore is the origin of time: notAfter = life, now = off
RenewAt(life, rb, j) == life - (Threshold(life, rb) - j)
NextDelay(life, rb, off, j) == Max(0, RenewAt(life, rb, j) - off)

VARIABLES life, rb, off, j, delay, phase
vars == <<life, rb, off, j, delay, phase>>

Init == /\ life \in Lifetimes /\ rb \in RenewBefores /\ off \in NowOffsets
        /\ j = 0 /\ delay = 0 /\ phase = "case"
Compute == /\ phase = "case"
           /\ j' \in Jitters(life, rb)
           /\ delay' = NextDelay(life, rb, off, j')
           /\ phase' = "done"
           /\ UNCHANGED <<life, rb, off>>
Next == Compute
Spec == Init /\ [][Next]_vars

Done == phase = "done"
\* R1: the delay is non-negative
R1_NonNegative == Done => delay >= 0
\* R2: when a wait is scheduled, the renewal instant lies in the documented jitter window before expiry
R2_Window == (Done /\ delay > 0) =>
               /\ off + delay >= life - Threshold(life, rb)
               /\ off + delay <= life - Threshold(life, rb) + Max(0, MaxJitter(life, rb) - 1)
\* R3: delay 0 exactly when the earliest renewal instant of the window is not in the future
R3_ZeroOnlyWhenDue == (Done /\ delay = 0) => off >= life - Threshold(life, rb) + j
\* R4: the jitter never moves renewal past expiry, and the threshold never exceeds 30 days
R4_BeforeExpiry == Done => (RenewAt(life, rb, j) <= life /\ Threshold(life, rb) <= Day30 /\ MaxJitter(life, rb) <= Hour1)

\* generator: one line per case with the interval of admissible results
Lo(l_, r_, o_) == NextDelay(l_, r_, o_, 0)
Hi(l_, r_, o_) == NextDelay(l_, r_, o_, Max(0, MaxJitter(l_, r_) - 1))
Emit == (phase = "case") => PrintT("TRACE " \o ToJson([life |-> life, rb |-> rb, off |-> off,
                                       lo |-> Lo(life, rb, off), hi |-> Hi(life, rb, off),
                                       thr |-> Threshold(life, rb), mj |-> MaxJitter(life, rb)]))
=============================================================================
