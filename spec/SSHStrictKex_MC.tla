--------------------------- MODULE SSHStrictKex_MC ---------------------------
EXTENDS SSHStrictKex, Json

InjKinds == {"IGNORE", "DEBUG", "UNIMPL", "OTHER", "NEWKEYS"}

InsertAt(p, pos, it) == SubSeq(p, 1, pos - 1) \o <<it>> \o SubSeq(p, pos, Len(p))
DeleteAt(p, pos) == SubSeq(p, 1, pos - 1) \o SubSeq(p, pos + 1, Len(p))
SwapAt(p, pos) == [p EXCEPT ![pos] = p[pos + 1], ![pos + 1] = p[pos]]
Edits(p) == {InsertAt(p, pos, Inj(k)) : pos \in 1..(Len(p) + 1), k \in InjKinds}
            \cup {DeleteAt(p, pos) : pos \in 1..Len(p)}
            \cup {SwapAt(p, pos) : pos \in 1..(Len(p) - 1)}
KindSeq(p) == [j \in 1..Len(p) |-> IF p[j].t = "inj" THEN p[j].k ELSE Kinds[p[j].i + 1]]
\* a plan whose delivered kinds equal the honest sequence with only the content-free NEWKEYS replaced by a
\* copy is byte-identical to no attack at all
Real(p) == p # Honest /\ KindSeq(p) # KindSeq(Honest)
E1 == {p \in Edits(Honest) : Real(p)}
E2 == {q \in UNION {Edits(p) : p \in Edits(Honest)} : Real(q)}

NoNoise == [x \in Sides |-> <<0, 0, 0, 0>>]
Both == [x \in Sides |-> TRUE]
BothReal == [x \in Sides |-> "real"]
ScK(k, o, pc, ps, nz) == [kind |-> k, offer |-> o, plan |-> [x \in Sides |-> IF x = "c" THEN pc ELSE ps], noise |-> nz]
Sc(o, pc, ps, nz) == ScK(BothReal, o, pc, ps, nz)

\* strict on both sides, one attacker action in either direction
ScStrict1 == {Sc(Both, p, Honest, NoNoise) : p \in E1} \cup {Sc(Both, Honest, p, NoNoise) : p \in E1}
\* two attacker actions (same or different directions)
ScStrict2 == ScStrict1 \cup {Sc(Both, p, Honest, NoNoise) : p \in E2} \cup {Sc(Both, Honest, p, NoNoise) : p \in E2}
                       \cup {Sc(Both, p, q, NoNoise) : p \in E1, q \in E1}
\* legitimate noise from the peers themselves, all offer combinations, no attacker
Offers == {[x \in Sides |-> TRUE], [x \in Sides |-> FALSE]}   \* the hook switches strict KEX off on both sides or on none
NoiseVecs == {<<a, b, c, d>> : a \in 0..1, b \in 0..1, c \in 0..1, d \in 0..2}
ScNoise == {Sc(o, Honest, Honest, [x \in Sides |-> IF x = "c" THEN nc ELSE ns]) : o \in Offers, nc \in NoiseVecs, ns \in NoiseVecs}
\* attacker against peers that did not negotiate strict mode (conformance of the model only; no property attached)
ScWeak1 == {Sc(o, p, Honest, NoNoise) : o \in Offers \ {Both}, p \in E1} \cup {Sc(o, Honest, p, NoNoise) : o \in Offers \ {Both}, p \in E1}
ScHonest == {Sc(o, Honest, Honest, NoNoise) : o \in Offers}
\* one-sided offer: a legacy side L (no marker, never strict; its own IGNORE/DEBUG in any of its four slots) against a
\* real side that offers strict KEX as golang.org/x/crypto/ssh always does; honest network
ScOneSided == {ScK([x \in Sides |-> IF x = L THEN "legacy" ELSE "real"], [x \in Sides |-> x # L], Honest, Honest,
                   [x \in Sides |-> IF x = L THEN nv ELSE <<0, 0, 0, 0>>]) : L \in Sides, nv \in NoiseVecs}

\* the honest-network base set: both real (both offer / neither offers) and every one-sided scenario
ScHonestAll == ScHonest \cup ScOneSided

\* documentation config (ServerStrictRule = "own"): violated iff some reachable state violates S5 and S6 together
S5orS6 == S5 \/ S6

Outcome == [sc |-> sc, st |-> st, ping |-> gotPing, rseq |-> rseq, wseq |-> wseq, strict |-> strict, success |-> Success]
Emit == Terminal => PrintT("TRACE " \o ToJson(Outcome))
=============================================================================
