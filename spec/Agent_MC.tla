------------------------------ MODULE Agent_MC ------------------------------
(* Bounded instances of Agent and the history generator for binding R. *)
EXTENDS Agent, Json
K2 == {"k1", "k2"}
K3 == {"k1", "k2", "k3"}
K5 == {"k1", "k2", "k3", "k4", "k5"}
R1 == {"k1"}
R2 == {"k1", "k4"}
P2 == {"p1", "p2"}
P3 == {"p1", "p2", ""}
L2 == {0, 10}
L3 == {0, 5, 10}
T2 == {4, 7}            \* sums of 4s and 7s never equal 5 or 10: no history lands on an expiry instant
T1 == {10}              \* boundary instance: model checking only (time.After is strict)
C2 == {"a", "b"}
C1 == {"a"}
F3 == {0, 1, 2}
F4 == {0, 1, 2, 4}
F5 == {0, 1, 2, 4, 6}
\* one witness history per (state, last operation): hide the history
View == <<list, akeys, locked, pass, last>>
EmitWitness == hist # <<>> => PrintT("TRACE " \o ToJson([h |-> hist]))
\* all histories of the maximal length
EmitAll == Len(hist) = MaxLen => PrintT("TRACE " \o ToJson([h |-> hist]))
=============================================================================
