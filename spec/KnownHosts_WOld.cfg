SPECIFICATION Spec
CONSTANTS
  CaseSet <- CasesW
  QueriesOf <- QOf
  StarFix = FALSE
  SubjectFix = TRUE
  CAListsPlain = TRUE
  RevokedSubject = TRUE
INVARIANTS WildAgree
CHECK_DEADLOCK FALSE
