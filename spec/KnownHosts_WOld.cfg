SPECIFICATION Spec
CONSTANTS
  FileSet <- FilesW
  QuerySeq <- QueriesW
  StarFix = FALSE
  SubjectFix = TRUE
  CAListsPlain = TRUE
  RevokedSubject = TRUE
INVARIANTS WildAgree
CHECK_DEADLOCK FALSE
