SPECIFICATION Spec
CONSTANTS
  Menus <- MenusFull
  FixTime = TRUE
INVARIANTS CodeIsConjunction LiteralExceptKnown TimeIsLiteral NonCertIsFallback ReasonSound
CHECK_DEADLOCK FALSE
