SPECIFICATION Spec
CONSTANTS
  Menus <- MenusFull
INVARIANTS CodeIsConjunction LiteralExceptKnown NonCertIsFallback ReasonSound
CHECK_DEADLOCK FALSE
