SPECIFICATION Spec
CONSTANTS Scenarios <- ScStrict2
          ServerStrictRule = "peer"
INVARIANTS S1 S2 S3 S3b S5 S6 HonestSucceeds
CHECK_DEADLOCK FALSE
