SPECIFICATION Spec
CONSTANTS Scenarios <- ScStrict2
INVARIANTS S1 S2 S3 S3b HonestSucceeds
CHECK_DEADLOCK FALSE
