SPECIFICATION Spec
CONSTANTS
  SignCapable <- Signers
  Alphabet <- Full
  MaxLen = 3
INVARIANTS Sound Ordered ErrShape Complete Emit
PROPERTIES UnknownInvisible

CHECK_DEADLOCK FALSE
