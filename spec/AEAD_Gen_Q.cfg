INIT Init
NEXT Next
CONSTANTS
  Grid <- GridQuick
  Seeds <- SeedsQuick
  OpenMax = 33
INVARIANTS EmitAndCheck
CHECK_DEADLOCK FALSE
