-------------------------- MODULE StreamCipher_Gen --------------------------
(***************************************************************************)
(* C03, binding R: behaviour generator.  Extends the abstract StreamCipher *)
(* (which StreamCipherImpl is model-checked to refine) with a history      *)
(* variable and prints every maximal history of at most Depth calls        *)
(* (a history ends at Depth or at the first panic) as one TRACE line       *)
(*    {"h": [[op, arg, res, from], ...]}                                   *)
(* op 0 = XORKeyStream(arg bytes), 1 = SetCounter(arg); res 0 = returns,   *)
(* 1 = panics; from = keystream position of the first output byte.         *)
(* Also evaluates, with the executable definition PrimChaCha, the          *)
(* keystream tables the Go harness compares the real Cipher with.          *)
(***************************************************************************)
EXTENDS StreamCipher, PrimChaCha, TLC, Json

CONSTANTS Depth

VARIABLE hist
gvars == <<pos, dead, last, hist>>

Code(e) == << IF e.op = "xor" THEN 0 ELSE 1, e.arg, IF e.res = "ok" THEN 0 ELSE 1,
              IF Len(e.out) > 0 THEN e.out[1].from ELSE -1 >>

GInit == Init /\ hist = <<>>
GNext == /\ Len(hist) < Depth
         /\ Next
         /\ (dead' => pos' = pos)          \* the position after a panic is irrelevant: one representative
         /\ hist' = Append(hist, Code(last'))
GSpec == GInit /\ [][GNext]_gvars

Emit == (dead \/ Len(hist) = Depth) => PrintT("TRACE " \o ToJson([h |-> hist]))

\* ---- instances ------------------------------------------------------------
\* near the limit: L blocks, real counter = 2^32 - L + model block
GL4 == 4
GN4 == {0, 1, 63, 64, 65, 130}
GC4 == 0..3
\* limit out of reach (real counter = model block): L large
GLfar == 100000
GNfar == {1, 63, 64, 65, 130}
GCfar == {0, 1, 2, 4}
\* thorough
GL6 == 6
GN6 == {0, 1, 63, 64, 65, 128, 130}
GC6 == 0..5
GNfarT == {0, 1, 63, 64, 65, 128, 130}
GCfarT == {0, 1, 2, 3, 5}
=============================================================================
