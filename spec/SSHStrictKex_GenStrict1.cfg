SPECIFICATION Spec
CONSTANTS Scenarios <- ScStrict1
          ServerStrictRule = "peer"
INVARIANTS Emit
CHECK_DEADLOCK FALSE
