SPECIFICATION Spec
CONSTANTS Scenarios <- ScStrict1
INVARIANTS Emit
CHECK_DEADLOCK FALSE
