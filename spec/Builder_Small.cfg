SPECIFICATION Spec
CONSTANTS
  Profiles <- ProfSmall
INVARIANTS ErrIff CapErrOnlyFixed FitsAll ParseBack CapRespected LenIsSum PanicOnlyMisuse
CHECK_DEADLOCK FALSE
