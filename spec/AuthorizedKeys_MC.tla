--------------------------- MODULE AuthorizedKeys_MC ---------------------------
(* Bounded instances of AuthorizedKeys and the case generator for binding R. *)
EXTENDS AuthorizedKeys, Json

OptAlpha == {"a", "=", ",", "q", "b", "s"}
RECURSIVE Strings(_, _)
Strings(A, n) == IF n = 0 THEN {<<>>} ELSE LET S == Strings(A, n - 1) IN S \cup {Append(x, c) : x \in S, c \in A}

M(kind, lead, opts, sep1, type, sep2, blob, comment, trail, eol, next) ==
  [kind |-> kind, lead |-> lead, opts |-> opts, sep1 |-> sep1, type |-> type, sep2 |-> sep2, blob |-> blob,
   comment |-> comment, trail |-> trail, eol |-> eol, next |-> next]

S1 == {<<"s">>}
Seps == {<<"s">>, <<"t">>, <<"s", "s">>}
Leads == {<<>>, <<"s">>, <<"t", "s">>, <<"#", "C", "s", "C", "n">>, <<"n">>, <<"s", "n", "s">>}
Types == {<<"T">>, <<"X">>, <<>>}
Blobs == {<<"K">>, <<"B">>, <<"J">>, <<>>}
Comments == {<<>>, <<"s", "C">>, <<"s", "C", "s", "C">>, <<"s", "s", "C", "s", "s", "C">>, <<"t", "C", "t", "C">>, <<"s", "#", "C">>}
Trails == {<<>>, <<"s">>}
Eols == {<<>>, <<"n">>, <<"r", "n">>, <<"r">>}
Nexts == {<<>>, <<"T", "s", "K">>, <<"#", "C">>, <<"a">>}
SomeOpts == {<<>>, <<"a">>, <<"a", ",", "a">>, <<"a", "=", "q", "a", "s", "a", "q">>, <<"a", "=", "q", "a", ",", "a", "q", ",", "a">>,
             <<"a", "=", "q", "b", "q", "q">>, <<"a", "=", "q", "a">>, <<",", "a", ",">>, <<"a", "s", "a">>, <<"q", "s", "q">>,
             <<"a", "=", "q", "t", "q">>, <<"b", "q", "a">>, <<"a", "=", "q", "b", "b", "q">>}

\* (a) every option string up to length n in front of a plain key line
AKOpts(n) == M("ak", {<<>>}, Strings(OptAlpha, n), S1, {<<"T">>}, S1, {<<"K">>}, {<<>>, <<"s", "C">>}, {<<>>}, {<<"n">>}, {<<>>})
\* (b) line level structure x a selection of option strings
AKLines  == M("ak", {<<>>, <<"t", "s">>, <<"#", "C", "s", "C", "n">>, <<"s", "n", "s">>}, SomeOpts, {<<"s">>, <<"t">>}, Types, {<<"s">>, <<"t", "s">>}, Blobs,
              {<<>>, <<"s", "C">>, <<"s", "s", "C", "s", "s", "C">>, <<"s", "#", "C">>}, Trails, Eols, {<<>>, <<"T", "s", "K">>, <<"a">>})
QOpts == {<<>>, <<"a">>, <<"a", "=", "q", "a", "s", "a", "q">>, <<"a", "=", "q", "a", ",", "a", "q", ",", "a">>, <<"a", "=", "q", "b", "q", "q">>,
          <<"a", "=", "q", "a">>, <<"a", "s", "a">>}
AKLinesQ == M("ak", {<<>>, <<"t", "s">>, <<"#", "C", "s", "C", "n">>}, QOpts, {<<"s">>, <<"t">>}, Types, {<<"s">>}, Blobs,
              {<<>>, <<"s", "C", "s", "s", "C">>}, {<<>>}, Eols, {<<>>, <<"T", "s", "K">>})
\* known_hosts: marker field in the opts slot, "hosts ws type" in the type slot
Markers == {<<>>, <<"@", "M">>, <<"@">>}
HostTypes == {<<"H", "s", "T">>, <<"H", ",", "G", "s", "T">>, <<"H", ",", "G", ",", "H", "t", "s", "T">>, <<"H", "s", "X">>, <<"H">>, <<"T">>, <<",", "s", "T">>}
KHComments == {<<>>, <<"s", "C">>, <<"s", "C", "s", "C">>, <<"s", "C", "s", "C", "t", "C">>}
KHLines  == M("kh", {<<>>, <<"t", "s">>, <<"#", "C", "s", "C", "n">>}, Markers, {<<"s">>, <<"t">>}, HostTypes, {<<"s">>, <<"t", "s">>}, Blobs, KHComments, Trails, Eols,
              {<<>>, <<"T", "s", "K">>})
KHLinesQ == M("kh", {<<>>}, Markers, {<<"s">>, <<"t">>}, HostTypes, {<<"s">>}, {<<"K">>, <<"B">>}, KHComments, {<<>>, <<"s">>},
              {<<>>, <<"n">>, <<"r", "n">>}, {<<>>, <<"T", "s", "K">>})

MenusT  == {AKOpts(6), AKLines, KHLines}
MenusGenQ == {AKOpts(4), AKLinesQ, KHLinesQ}
MenusGenT == {AKOpts(6), AKLines, KHLines}

Emit == Done => PrintT("TRACE " \o ToJson(
   IF IsAK THEN [kind |-> "ak", inp |-> inp, ok |-> ak.ok, opts |-> ak.opts, comment |-> ak.comment, rest |-> ak.rest]
   ELSE [kind |-> "kh", inp |-> inp, res |-> kh.res, marker |-> kh.marker, hosts |-> kh.hosts, comment |-> kh.comment, rest |-> kh.rest]))
=============================================================================
