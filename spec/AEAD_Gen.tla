------------------------------- MODULE AEAD_Gen -------------------------------
(***************************************************************************)
(* C01, binding E: TLC evaluates AEAD!Seal for the boundary grid of        *)
(* (plaintext length, AD length) classes - the branch boundaries of the    *)
(* amd64 assembly (16, 32, 64, 128, 160, 192, 256, 320, 384, 480, 512;     *)
(* AD length 13, and AD lengths = 13 mod 256) and their neighbours - for   *)
(* both nonce sizes, with key,                                             *)
(* nonce, plaintext and AD produced by Pat(seed, len), and prints          *)
(*   TRACE {"v","kseed","nseed","pseed","aseed","ptLen","adLen","out"}     *)
(* out = ciphertext || tag.  For plaintexts up to OpenMax it also checks   *)
(* the model-level theorem Open(Seal(x)) = x.                              *)
(***************************************************************************)
EXTENDS AEAD, TLC, Json

CONSTANTS Grid,      \* set of <<variant, ptLen, adLen>>, variant "std" (12-byte nonce) or "x" (24-byte nonce)
          Seeds,     \* set of <<kseed, nseed, pseed, aseed>>
          OpenMax
VARIABLE c

Init == c = [t |-> "root"]
Next == \/ c.t = "root" /\ c' \in {[t |-> "grp", s |-> s, j |-> j] : s \in Seeds, j \in 0..15}
        \/ c.t = "grp"  /\ c' \in {[t |-> "case", v |-> g[1], s |-> c.s, pt |-> g[2], ad |-> g[3]] :
                                       g \in {x \in Grid : (x[2] + x[3] + (IF x[1] = "x" THEN 8 ELSE 0)) % 16 = c.j}}

NonceLen(v) == IF v = "x" THEN 24 ELSE 12

EmitAndCheck ==
  (c.t = "case") =>
    LET key   == Pat(c.s[1], 32)
        nonce == Pat(c.s[2], NonceLen(c.v))
        pt    == Pat(c.s[3], c.pt)
        ad    == Pat(c.s[4], c.ad)
        out   == Seal(key, nonce, pt, ad)
    IN /\ PrintT("TRACE " \o ToJson([v |-> c.v, kseed |-> c.s[1], nseed |-> c.s[2], pseed |-> c.s[3], aseed |-> c.s[4],
                                     ptLen |-> c.pt, adLen |-> c.ad, out |-> out]))
       /\ Len(out) = c.pt + 16
       /\ (c.pt <= OpenMax) => (Open(key, nonce, out, ad) = [ok |-> TRUE, pt |-> pt])

\* ---- grids
PtQuick == {0, 1, 15, 16, 17, 31, 32, 33, 63, 64, 65, 127, 128, 129, 159, 160, 161, 191, 192, 193, 255, 256, 257}
G(V, P, A) == {<<v, p, a>> : v \in V, p \in P, a \in A}
GridQuick == G({"std"}, PtQuick, {0, 13}) \cup G({"std"}, {0, 17, 65, 129}, {1, 12, 14, 15, 16, 17, 32, 33})
        \cup G({"x"}, {0, 1, 16, 63, 64, 65, 129, 257}, {0, 13}) \cup G({"x"}, {17}, {1, 16, 33})
        \cup {<<"std", 320, 13>>, <<"std", 385, 0>>, <<"x", 513, 5>>}
        \cup G({"std"}, {17}, {268, 269, 270, 525}) \cup G({"x"}, {17}, {269})   \* AD length = 13 mod 256
PtFull == PtQuick \cup {319, 320, 321, 383, 384, 385, 479, 480, 481, 511, 512, 513, 1024}
AdFull == {0, 1, 12, 13, 14, 15, 16, 17, 32, 33}
GridThorough == G({"std", "x"}, PtFull, AdFull) \cup G({"std", "x"}, {0, 16, 64, 193}, {47, 48, 49, 64, 80, 200})
        \cup G({"std", "x"}, {0, 17, 129}, {255, 256, 257, 268, 269, 270, 511, 512, 513, 524, 525, 526, 781, 1037})
SeedsQuick == {<<7, 11, 5, 9>>}
SeedsThorough == {<<7, 11, 5, 9>>, <<1, 1, 1, 1>>, <<23, 3, 42, 77>>}
=============================================================================
