\* documented deviation: with cancellation a Put can return nil without having stored (expected violation of D5)
SPECIFICATION Spec
CONSTANTS
  Procs = {1}
  Keys = {"k1"}
  MaxOps = 1
  NChunks = 1
  InPlace = FALSE
  Cancels = TRUE
INVARIANTS D5_PutOkImpliesStored
CHECK_DEADLOCK FALSE
