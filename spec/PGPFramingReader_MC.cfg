SPECIFICATION Spec
CONSTANTS
  Residue = FALSE
  Streams <- Tree
  MaxReaders = 3
  MaxUnread = 2
  MaxOps = 16
INVARIANTS DepthBound Order Complete 
PROPERTIES PushRule Lifo EofSticky
CHECK_DEADLOCK FALSE
