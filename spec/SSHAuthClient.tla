---------------------------- MODULE SSHAuthClient ----------------------------
(* The client side of SSH user authentication as golang.org/x/crypto/ssh does it
   (ssh/client_auth.go): clientAuthenticate (service request, optional EXT_INFO with
   server-sig-algs, the "none"/tried/partialSuccess/lastMethods loop, the 64-attempt bound),
   noneAuth, passwordCallback.auth, KeyboardInteractiveChallenge.auth,
   publicKeyCallback.auth with pickSignatureAlgorithm / validateKey / confirmKeyAck and the
   RSA-certificate SHA-1 compatibility retry, handleAuthResponse and retryableAuthMethod --
   transcribed statement by statement, one action per packet written, per packet read and
   per entry to / exit from an AuthMethod (the events of SSHAuthObserver).  ClientConfig.
   AuthCallback is nil (with it the caller, not the client, picks the methods).

   The server is a script: every packet the client writes makes the server append the
   packets of one item, chosen nondeterministically from Items (at most MaxScript items,
   then silence), to the queue the client reads from; an empty queue reads as io.EOF.
   PK_OK items are relative to the request they answer (same/other key; same algorithm /
   another algorithm of the key's format / the algorithm of the other family -- certificate
   versus plain -- for the same key type / a foreign one).

   The property is SSHAuthObserver's monitor, driven by the events: invariants Q1..Q5.
   Instead of the script the server can be a model of the Go server (serverAuthenticate as
   configured by the harness: per stage a password, a keyboard-interactive verdict and a set
   of accepted keys; PartialSuccessError chains the stages; PublicKeyAuthAlgorithms is also
   what it announces in server-sig-algs): srv.name # "" selects it.  For it, GridOK states the
   last clause of C34: a combination that is compatible (Sufficient) authenticates.

   FixO1 and FixRetry are TRUE for the code as it is (repairs 631f7ef and 97a1b8c).  FixO1 =
   FALSE models publicKeyCallback.auth before the repair: when pickSignatureAlgorithm failed for
   a second signer the loop did not skip it and queried the key with an empty algorithm name
   (DESIGN.md section 9, O1) -- TLC finds the Q3 counterexample (SSHAuthClient_DocO1.cfg).
   FixRetry = FALSE models retryableAuthMethod.auth before the repair: it called the wrapped
   method again after a failure whatever method list came with that failure -- TLC finds the
   Q1r counterexample (SSHAuthClient_DocRetry.cfg).
   FixRetryList is TRUE for the code as it is (repair 226918a: the wrapper returns the most
   recent method list any of its tries received).  FALSE models the wrapper before the repair:
   it returned the list of the last call only, so when a retried publickey attempt returned no
   list (every query rejected) the list an earlier try received with a rejected signature was
   lost and clientAuthenticate fell back to an older one -- TLC finds the Q1 counterexample
   (SSHAuthClient_DocRetryList.cfg). *)
EXTENDS SSHAuthObserver

CONSTANTS Configs,     \* config name -> ClientConfig.Auth: sequence of [m, retry, signers]
                       \*   retry = -1: plain method; n >= 0: RetryableAuthMethod(m, n) (0 = for ever)
                       \*   signers: sequence of [key, fmt, algs, kind] (publickey only)
          CfgNames,    \* names explored
          Pre,         \* preamble items: what the server sends after the service request
          Items,       \* response items [name, pkts]
          MaxScript,
          FixO1, FixRetry, FixRetryList,
          LongNames, LongPre, LongItems, LongMax,   \* configurations run against a different alphabet / bound
          FocusNames, FocusPre, FocusItems, FocusMax,   \* a second such group (deeper scripts over a reduced alphabet)
          FocusDeepNames, FocusDeepMax, FocusDeepItems, \* members of the focus group with a larger bound and a smaller alphabet
          GridCfgNames,\* configurations run against the Go server model (the others: scripted server)
          Servers,     \* Go server configurations: name -> [algs, stages]; stages: sequence of
                       \*   [pw (accepted password, "" = no callback), kbd ("none" | "accept" | "reject"),
                       \*    pkon (PublicKeyCallback set), pk (accepted key names), next (0 = success)]
          SrvNames     \* names explored; "" = the scripted server

VARIABLES cn,          \* the configuration (chosen initially)
          c,           \* the client's state (record, see CInit)
          o,           \* the monitor
          last,        \* the event of the last step
          chosen,      \* the item the server chose in the last step (NoItem if none)
          q,           \* packets sent by the server, not yet read
          nresp, dead, \* items used; server silent from now on
          srv          \* [name, stage]: Go server model and its current stage (name "" = script)
vars == <<cn, c, o, last, chosen, q, nresp, dead, srv>>

Auth == Configs[cn]
NoItem == [name |-> "-", pkts |-> <<>>]
Nil == [known |-> FALSE, list |-> <<>>]

-----------------------------------------------------------------------------
(* pickSignatureAlgorithm, step by step.  s = [key, fmt, algs, ..], e = [present, algs].
   Result [err, algo]; algo = "" on error (the zero value the caller gets). *)
RECURSIVE CertAlgos(_)
CertAlgos(l) == IF l = <<>> THEN <<>>
                ELSE LET a == Head(l)
                         ca == CASE a = R256 -> <<CR256>> [] a = R512 -> <<CR512>> [] a = RSA -> <<CRSA>>
                                 [] a = ED -> <<CED>> [] OTHER -> <<>>
                     IN ca \o CertAlgos(Tail(l))
RECURSIVE KeyAlgos(_, _)
KeyAlgos(signerAlgos, sup) ==
  IF signerAlgos = <<>> THEN <<>>
  ELSE LET I == {i \in 1..Len(sup) : Underlying(sup[i]) = Head(signerAlgos)}
       IN (IF I = {} THEN <<>> ELSE <<sup[MinOf(I)]>>) \o KeyAlgos(Tail(signerAlgos), sup)
RECURSIVE FindCommon(_, _)
FindCommon(cl, sv) == IF cl = <<>> THEN "" ELSE IF InSeq(Head(cl), sv) THEN Head(cl) ELSE FindCommon(Tail(cl), sv)

PickT(s, e) ==
  LET kf == s.fmt
      fb == IF InSeq(Underlying(kf), s.algs) THEN [err |-> FALSE, algo |-> kf] ELSE [err |-> TRUE, algo |-> ""]
  IN IF ~e.present THEN fb
     ELSE LET serverAlgos == e.algs \o CertAlgos(e.algs)
              keyAlgos == KeyAlgos(s.algs, AlgsForFormat(kf))
              common == FindCommon(keyAlgos, serverAlgos)
          IN IF common = "" THEN fb ELSE [err |-> FALSE, algo |-> common]

(* as.SignWithAlgorithm(rand, data, underlyingAlgo(algo)) succeeds? *)
CanSign(s, algo) == InSeq(IF algo = "" THEN Underlying(s.fmt) ELSE Underlying(algo), s.algs)

-----------------------------------------------------------------------------
(* Client state *)
CInit == [pc |-> "start", ext |-> [present |-> FALSE, algs |-> <<>>],
          tried |-> {}, npartial |-> 0, lastM |-> Nil, cur |-> 0, res |-> "",
          rtry |-> 0, rlast |-> Nil, rv |-> [ok |-> "", mk |-> FALSE, ml |-> <<>>, err |-> ""],
          sg |-> <<>>, idx |-> 0, pkM |-> Nil, errSig |-> FALSE, curAlgo |-> "",
          gotExt |-> FALSE, gotReq |-> FALSE]

MethodName(i) == IF i = 0 THEN "none" ELSE Auth[i].m
Retryable(i) == i > 0 /\ Auth[i].retry >= 0
RV(ok, mk, ml, err) == [ok |-> ok, mk |-> mk, ml |-> ml, err |-> err]     \* err: "" | "err" | "disc"
RVErr == RV("failure", FALSE, <<>>, "err")
RVDisc == RV("failure", FALSE, <<>>, "disc")

(* clientAuthenticate after auth.auth returned r for method cc.cur: the switch, the bound,
   lastMethods, findNext. *)
TopNext(cc, r) ==
  IF r.err = "disc" THEN [cc EXCEPT !.res = "disconnect", !.pc = "fin"]
  ELSE LET ok == IF r.err # "" THEN "failure" ELSE r.ok IN
  IF ok = "success" THEN [cc EXCEPT !.res = "success", !.pc = "fin"]
  ELSE LET m  == MethodName(cc.cur)
           tr == IF ok = "failure" THEN cc.tried \cup {m} ELSE cc.tried
           np == IF ok = "partial" THEN cc.npartial + 1 ELSE cc.npartial
           c1 == [cc EXCEPT !.tried = tr, !.npartial = np]
       IN IF np + Cardinality(tr) > MaxTried THEN [c1 EXCEPT !.res = "toomany", !.pc = "fin"]
          ELSE LET lm == IF r.mk THEN [known |-> TRUE, list |-> r.ml] ELSE cc.lastM
                   cand == {i \in 1..Len(Auth) : Auth[i].m \notin tr /\ lm.known /\ InSeq(Auth[i].m, lm.list)}
                   c2 == [c1 EXCEPT !.lastM = lm]
               IN IF cand = {} THEN [c2 EXCEPT !.res = IF r.err # "" THEN "error" ELSE "nomethods", !.pc = "fin"]
                  ELSE [c2 EXCEPT !.cur = MinOf(cand), !.pc = "obegin"]

(* the auth function of the current method returns r *)
MethodReturn(cc, r) ==
  IF cc.cur = 0 THEN TopNext(cc, r)
  ELSE [cc EXCEPT !.rv = r, !.pc = IF Retryable(cc.cur) THEN "iend" ELSE "oend"]

(* publicKeyCallback.auth: the head of the signer loop from index i on *)
RECURSIVE PkAdvance(_, _)
PkAdvance(cc, i) ==
  IF i > Len(cc.sg)
  THEN MethodReturn(cc, RV("failure", cc.pkM.known, cc.pkM.list, IF cc.errSig THEN "err" ELSE ""))
  ELSE LET p == PickT(cc.sg[i], cc.ext) IN
       IF p.err /\ (~cc.errSig \/ FixO1) THEN PkAdvance([cc EXCEPT !.errSig = TRUE], i + 1)
       ELSE [cc EXCEPT !.idx = i, !.curAlgo = p.algo, !.pc = "wQuery"]

Enter(cc) ==
  LET m == MethodName(cc.cur) IN
  CASE m = PW  -> [cc EXCEPT !.pc = "wPw"]
    [] m = KBD -> [cc EXCEPT !.pc = "wKbd"]
    [] m = PK  -> PkAdvance([cc EXCEPT !.sg = Auth[cc.cur].signers, !.pkM = Nil, !.errSig = FALSE], 1)

(* after handleAuthResponse returned r to publicKeyCallback.auth *)
PkAfterSign(cc, r) ==
  IF r.err # "" THEN MethodReturn(cc, RV("failure", FALSE, <<>>, r.err))
  ELSE LET c1 == [cc EXCEPT !.pkM = [known |-> r.mk, list |-> r.ml]] IN
       IF r.ok \in {"success", "partial"} \/ ~InSeq(PK, r.ml) THEN MethodReturn(c1, r)
       ELSE PkAdvance(c1, cc.idx + 1)

HRet(cc, r) == IF MethodName(cc.cur) = PK THEN PkAfterSign(cc, r) ELSE MethodReturn(cc, r)

-----------------------------------------------------------------------------
(* Packets *)
PFail(ms, partial) == [P0 EXCEPT !.t = "failure", !.methods = ms, !.partial = partial]
PSucc    == [P0 EXCEPT !.t = "success"]
PBanner  == [P0 EXCEPT !.t = "banner"]
PExtMid  == [P0 EXCEPT !.t = "ext", !.algs = <<DSS>>]      \* EXT_INFO during authentication: other content
PPkok(k, a) == [P0 EXCEPT !.t = "pkok", !.key = k, !.algo = a]
PInfo(n) == [P0 EXCEPT !.t = "inforeq", !.n = n]
PDisc    == [P0 EXCEPT !.t = "disconnect"]
PUnexp   == [P0 EXCEPT !.t = "unexpected"]
PAccept  == [P0 EXCEPT !.t = "accept"]
PExt(algs) == [P0 EXCEPT !.t = "ext", !.algs = algs]
PExtOther  == [P0 EXCEPT !.t = "ext", !.key = "other-extension"]

(* The Go server (ssh/server.go serverAuthenticate with the harness's callbacks, MaxAuthTries < 0) *)
SrvCfg == Servers[srv.name]
Stage(k) == SrvCfg.stages[k]
MethodsOf(st) == (IF st.pw # "" THEN <<PW>> ELSE <<>>) \o (IF st.pkon THEN <<PK>> ELSE <<>>)
                 \o (IF st.kbd # "none" THEN <<KBD>> ELSE <<>>)
GoAccept(k) == IF Stage(k).next = 0 THEN [pk |-> <<PSucc>>, st |-> k]
               ELSE [pk |-> <<PFail(MethodsOf(Stage(Stage(k).next)), TRUE)>>, st |-> Stage(k).next]
GoAnswer(e) ==
  LET k == srv.stage
      st == Stage(k)
      cred == IF c.cur = 0 THEN "" ELSE Auth[c.cur].cred
      F == [pk |-> <<PFail(MethodsOf(st), FALSE)>>, st |-> k]
  IN CASE e.k = "inforesp" -> IF st.kbd = "accept" /\ cred = "good" THEN GoAccept(k) ELSE F
       [] e.m = "none" -> F
       [] e.m = PW -> IF st.pw # "" /\ cred = st.pw THEN GoAccept(k) ELSE F
       [] e.m = KBD -> IF st.kbd = "none" THEN F ELSE [pk |-> <<PInfo(1)>>, st |-> k]
       [] e.m = PK -> IF ~st.pkon \/ ~InSeq(Underlying(e.algo), SrvCfg.algs) \/ e.key \notin st.pk THEN F
                      ELSE IF e.sig THEN GoAccept(k) ELSE [pk |-> <<PPkok(e.key, e.algo)>>, st |-> k]
       [] OTHER -> F
GoReact(e) == LET a == GoAnswer(e) IN
              /\ q' = q \o a.pk
              /\ srv' = [srv EXCEPT !.stage = a.st]
              /\ chosen' = [name |-> "go", pkts |-> a.pk]
              /\ UNCHANGED <<nresp, dead>>

(* The scripted server *)
AltAlgo(f, a) == LET L == AlgsForFormat(f)
                     I == {i \in 1..Len(L) : L[i] # a}
                 IN IF I = {} THEN a ELSE L[MinOf(I)]
(* the algorithm of the other family (plain <-> certificate) for the same key type *)
CrossAlgo(a) == CASE a = R256 -> CR256 [] a = R512 -> CR512 [] a = RSA -> CRSA [] a = ED -> CED [] a = EC256 -> CEC256
                  [] a = CR256 -> R256 [] a = CR512 -> R512 [] a = CRSA -> RSA [] a = CED -> ED [] a = CEC256 -> EC256
                  [] OTHER -> DSS
Resolve(tpl, req) ==
  IF tpl.t # "pkok" THEN tpl
  ELSE LET isPk == req.k = "req" /\ req.m = PK IN
       [tpl EXCEPT !.key  = IF tpl.key = "@same" /\ isPk THEN req.key ELSE "other",
                   !.algo = IF ~isPk THEN DSS
                            ELSE CASE tpl.algo = "@same" -> req.algo
                                   [] tpl.algo = "@fmt" -> AltAlgo(req.fmt, req.algo)
                                   [] tpl.algo = "@cross" -> CrossAlgo(IF req.algo = "" THEN req.fmt ELSE req.algo)
                                   [] OTHER -> DSS]
ResolveAll(pkts, req) == [j \in 1..Len(pkts) |-> Resolve(pkts[j], req)]

MaxFor   == IF cn \in LongNames THEN LongMax ELSE IF cn \in FocusDeepNames THEN FocusDeepMax
            ELSE IF cn \in FocusNames THEN FocusMax ELSE MaxScript
ItemsFor == IF cn \in LongNames THEN LongItems ELSE IF cn \in FocusDeepNames THEN FocusDeepItems
            ELSE IF cn \in FocusNames THEN FocusItems ELSE Items
PreFor   == IF cn \in LongNames THEN LongPre ELSE IF cn \in FocusNames THEN FocusPre ELSE Pre

React(e) ==
  IF srv.name # "" THEN GoReact(e)
  ELSE /\ srv' = srv
       /\ IF dead \/ nresp >= MaxFor
          THEN /\ q' = q /\ UNCHANGED <<nresp, dead>> /\ chosen' = NoItem
          ELSE \E it \in ItemsFor :
                 /\ chosen' = it
                 /\ nresp' = nresp + 1
                 /\ dead' = (it.name = "silent")
                 /\ q' = q \o ResolveAll(it.pkts, e)

Pkt == IF q = <<>> THEN PEof ELSE Head(q)
Pop == /\ q' = IF q = <<>> THEN q ELSE Tail(q)
       /\ UNCHANGED <<nresp, dead, srv>> /\ chosen' = NoItem

Emit(e) == o' = Obs(Auth, o, e) /\ last' = e
Quiet == UNCHANGED <<q, nresp, dead, srv>> /\ chosen' = NoItem

-----------------------------------------------------------------------------
(* Actions *)
WService ==
  /\ c.pc = "start"
  /\ LET e == EvW("service", "", FALSE, "", "", "") IN
     /\ Emit(e)
     /\ IF srv.name # "" THEN LET pk == <<PExt(SrvCfg.algs), PAccept>> IN chosen' = [name |-> "go", pkts |-> pk] /\ q' = pk
        ELSE \E p \in PreFor : chosen' = p /\ q' = p.pkts
  /\ c' = [c EXCEPT !.pc = "pre"]
  /\ UNCHANGED <<cn, nresp, dead, srv>>

Fail(cc, cls) == [cc EXCEPT !.res = cls, !.pc = "fin"]

ReadPre ==
  /\ c.pc \in {"pre", "pre2"}
  /\ LET p == Pkt IN
     /\ Emit(EvR(p))
     /\ c' = CASE p.t = "disconnect" -> Fail(c, "disconnect")
               [] p.t = "accept" -> [c EXCEPT !.pc = "wNone"]
               [] p.t = "ext" /\ c.pc = "pre" ->
                    [c EXCEPT !.ext = [present |-> p.key = "", algs |-> IF p.key = "" THEN p.algs ELSE <<>>], !.pc = "pre2"]
               [] OTHER -> Fail(c, "error")
  /\ Pop /\ UNCHANGED cn

Write(pcv, e, npc, flags) ==
  /\ c.pc = pcv
  /\ Emit(e)
  /\ React(e)
  /\ c' = [c EXCEPT !.pc = npc, !.gotExt = IF flags THEN FALSE ELSE c.gotExt, !.gotReq = IF flags THEN FALSE ELSE c.gotReq]
  /\ UNCHANGED cn

WNone  == Write("wNone", EvW("req", "none", FALSE, "", "", ""), "H", TRUE)
WPw    == Write("wPw", EvW("req", PW, FALSE, "", "", ""), "H", TRUE)
WKbd   == Write("wKbd", EvW("req", KBD, FALSE, "", "", ""), "I", TRUE)
WInfoResp == Write("wInfoResp", EvW("inforesp", KBD, FALSE, "", "", ""), "I", FALSE)
WQuery == c.pc = "wQuery" /\ Write("wQuery", EvW("req", PK, FALSE, c.sg[c.idx].key, c.sg[c.idx].fmt, c.curAlgo), "K", FALSE)
WSign  == c.pc = "wSign" /\ Write("wSign", EvW("req", PK, TRUE, c.sg[c.idx].key, c.sg[c.idx].fmt, c.curAlgo), "H", TRUE)

(* handleAuthResponse *)
ReadH ==
  /\ c.pc = "H"
  /\ LET p == Pkt IN
     /\ Emit(EvR(p))
     /\ c' = CASE p.t = "banner" -> c
               [] p.t = "ext" -> IF c.gotExt THEN HRet(c, RVErr) ELSE [c EXCEPT !.gotExt = TRUE]
               [] p.t = "failure" -> HRet(c, RV(IF p.partial THEN "partial" ELSE "failure", TRUE, p.methods, ""))
               [] p.t = "success" -> HRet(c, RV("success", FALSE, <<>>, ""))
               [] p.t = "disconnect" -> HRet(c, RVDisc)
               [] OTHER -> HRet(c, RVErr)
  /\ Pop /\ UNCHANGED cn

(* KeyboardInteractiveChallenge.auth *)
ReadI ==
  /\ c.pc = "I"
  /\ LET p == Pkt IN
     /\ Emit(EvR(p))
     /\ c' = CASE p.t = "banner" -> c
               [] p.t = "ext" -> IF c.gotExt THEN MethodReturn(c, RVErr) ELSE [c EXCEPT !.gotExt = TRUE]
               [] p.t = "inforeq" -> [c EXCEPT !.gotReq = TRUE, !.pc = "wInfoResp"]
               [] p.t = "failure" ->
                    MethodReturn(c, IF p.partial THEN RV("partial", TRUE, p.methods, "")
                                    ELSE IF ~c.gotReq THEN RV("failure", TRUE, p.methods, "err")
                                    ELSE RV("failure", TRUE, p.methods, ""))
               [] p.t = "success" -> MethodReturn(c, RV("success", FALSE, <<>>, ""))
               [] p.t = "disconnect" -> MethodReturn(c, RVDisc)
               [] OTHER -> MethodReturn(c, RVErr)
  /\ Pop /\ UNCHANGED cn

(* confirmKeyAck and the rest of the signer loop body up to the signature *)
ReadK ==
  /\ c.pc = "K"
  /\ LET p == Pkt IN
     /\ Emit(EvR(p))
     /\ c' = CASE p.t = "banner" -> c
               [] p.t = "disconnect" -> MethodReturn(c, RVDisc)
               [] p.t \in {"pkok", "failure"} ->
                    LET s == c.sg[c.idx]
                        ok == p.t = "pkok" /\ InSeq(p.algo, AlgsForFormat(s.fmt)) /\ p.key = s.key
                        sg2 == IF ~ok /\ c.idx <= Len(Auth[c.cur].signers) /\ IsRSACert(c.curAlgo)
                                  /\ c.curAlgo # CRSA /\ InSeq(RSA, s.algs)
                               THEN Append(c.sg, [key |-> s.key, fmt |-> s.fmt, algs |-> <<RSA>>, kind |-> "compat"])
                               ELSE c.sg
                        c1 == [c EXCEPT !.sg = sg2]
                    IN IF ~ok THEN PkAdvance(c1, c.idx + 1)
                       ELSE IF CanSign(s, c.curAlgo) THEN [c1 EXCEPT !.pc = "wSign"]
                       ELSE MethodReturn(c1, RVErr)
               [] OTHER -> MethodReturn(c, RVErr)
  /\ Pop /\ UNCHANGED cn

OBegin ==
  /\ c.pc = "obegin"
  /\ Emit(EvBegin(c.cur, FALSE, MethodName(c.cur)))
  /\ c' = IF Retryable(c.cur) THEN [c EXCEPT !.rtry = 0, !.rlast = Nil, !.pc = "ibegin"] ELSE Enter(c)
  /\ Quiet /\ UNCHANGED cn

IBegin ==
  /\ c.pc = "ibegin"
  /\ Emit(EvBegin(c.cur, TRUE, MethodName(c.cur)))
  /\ c' = Enter(c)
  /\ Quiet /\ UNCHANGED cn

(* retryableAuthMethod.auth: the loop condition after the wrapped method returned *)
IEnd ==
  /\ c.pc = "iend"
  /\ Emit(EvEnd(c.cur, TRUE, MethodName(c.cur), c.rv.ok, c.rv.err # ""))
  /\ LET mx == Auth[c.cur].retry
         rl == IF c.rv.mk THEN [known |-> TRUE, list |-> c.rv.ml] ELSE c.rlast      \* most recent list of any try
         rv2 == IF FixRetryList /\ ~c.rv.mk /\ rl.known THEN [c.rv EXCEPT !.mk = TRUE, !.ml = rl.list] ELSE c.rv
     IN
     c' = IF /\ c.rv.ok = "failure" /\ c.rv.err = "" /\ (mx <= 0 \/ c.rtry + 1 < mx)
             /\ (~FixRetry \/ ~c.rv.mk \/ InSeq(MethodName(c.cur), c.rv.ml))
          THEN [c EXCEPT !.rtry = c.rtry + 1, !.rlast = rl, !.pc = "ibegin"]
          ELSE [c EXCEPT !.rv = rv2, !.rlast = rl, !.pc = "oend"]
  /\ Quiet /\ UNCHANGED cn

OEnd ==
  /\ c.pc = "oend"
  /\ Emit(EvEnd(c.cur, FALSE, MethodName(c.cur), c.rv.ok, c.rv.err # ""))
  /\ c' = TopNext(c, c.rv)
  /\ Quiet /\ UNCHANGED cn

Fin ==
  /\ c.pc = "fin"
  /\ Emit(EvDone(c.res))
  /\ c' = [c EXCEPT !.pc = "end"]
  /\ Quiet /\ UNCHANGED cn

Init == /\ cn \in CfgNames
        /\ c = CInit /\ o = ObsInit /\ last = E0 /\ chosen = NoItem
        /\ q = <<>> /\ nresp = 0 /\ dead = FALSE
        /\ \E n \in SrvNames : srv = [name |-> n, stage |-> 1] /\ ((n # "") <=> (cn \in GridCfgNames))

Next == WService \/ ReadPre \/ WNone \/ WPw \/ WKbd \/ WInfoResp \/ WQuery \/ WSign
        \/ ReadH \/ ReadI \/ ReadK \/ OBegin \/ IBegin \/ IEnd \/ OEnd \/ Fin

Spec == Init /\ [][Next]_vars

-----------------------------------------------------------------------------
(* Properties *)
Q1  == HoldsQ1(o)
RetryPk == \E i \in 1..Len(Auth) : Auth[i].m = PK /\ Auth[i].retry >= 0
Q1b == HoldsQ1b(o)
Q1r == HoldsQ1r(o)
Q2  == HoldsQ2(o)
Q3  == HoldsQ3(o)
Q4  == HoldsQ4(o)
Q5  == HoldsQ5(o)
(* the transcription of pickSignatureAlgorithm computes the documented choice, for every signer
   in play and the extension value received *)
AllSigners == UNION {Range(Auth[i].signers) : i \in 1..Len(Auth)} \cup Range(c.sg)
PickIsDoc == \A s \in AllSigners :
               LET p == PickT(s, c.ext) d == DocChoice(s, c.ext)
               IN IF p.err THEN d = ERR ELSE p.algo = d

(* the client's bookkeeping agrees with what the wire says (sanity of the monitor's reading) *)
ViewsAgree == /\ c.ext = o.ext
              /\ (c.pc = "obegin" /\ ~o.errSince /\ o.bad = {} /\ (FixRetryList \/ ~RetryPk)) => (c.lastM.known = o.listKnown /\ Range(c.lastM.list) = o.list)
              /\ (c.pc = "wSign") => o.acc
              /\ (c.res = "success") => o.succ

Done == c.pc = "end"

(* for exhaustive checking the last event and the chosen item are redundant *)
MCView == <<cn, c, o, q, nresp, dead, srv>>

-----------------------------------------------------------------------------
(* The last clause of C34, for the Go server model: "every compatible method combination
   authenticates".  The client uses, for a method name, the first entry of ClientConfig.Auth
   with that name.  A method is usable at a stage if the stage offers it and accepts the
   client's credential for it (publickey: some signer's key is accepted and the documented
   algorithm for it is one the server allows).  Necessary: every stage of the chain has a usable
   method.  Sufficient (= "compatible"): moreover no method the client has is offered at a stage
   where its credential is wrong and offered again at a later stage (a method that failed is
   never tried again, Q1b, so it would be lost for the later stage). *)
RECURSIVE Chain(_)
Chain(k) == IF k = 0 THEN <<>> ELSE <<k>> \o Chain(Stage(k).next)
SrvExt == [present |-> TRUE, algs |-> SrvCfg.algs]
Entry(m) == LET I == {i \in 1..Len(Auth) : Auth[i].m = m} IN IF I = {} THEN 0 ELSE MinOf(I)
Usable(m, k) ==
  LET i == Entry(m) st == Stage(k) IN
  /\ i # 0 /\ InSeq(m, MethodsOf(st))
  /\ CASE m = PW -> Auth[i].cred = st.pw
        [] m = KBD -> st.kbd = "accept" /\ Auth[i].cred = "good"
        [] m = PK -> \E s \in Range(Auth[i].signers) :
                        /\ s.key \in st.pk
                        /\ DocChoice(s, SrvExt) # ERR
                        /\ InSeq(Underlying(DocChoice(s, SrvExt)), SrvCfg.algs)
AllMethods == {PW, KBD, PK}
Necessary == \A k \in Range(Chain(1)) : \E m \in AllMethods : Usable(m, k)
Sufficient == LET ch == Chain(1) IN
  /\ Necessary
  /\ \A j1, j2 \in 1..Len(ch) : j1 < j2 =>
        \A m \in AllMethods : (Entry(m) # 0 /\ InSeq(m, MethodsOf(Stage(ch[j1]))) /\ ~Usable(m, ch[j1]))
                                  => ~InSeq(m, MethodsOf(Stage(ch[j2])))
GridOK == (srv.name # "" /\ Done) => ((Sufficient => (c.res = "success")) /\ ((c.res = "success") => Necessary))
=============================================================================
