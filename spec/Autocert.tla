------------------------------- MODULE Autocert -------------------------------
(* Manager.GetCertificate of golang.org/x/crypto/acme/autocert (autocert.go):

     GetCertificate   name checks, idna normalisation, token-certificate path, HostPolicy,
                      m.cert, m.createCert, m.cachePut
     cert             under stateMu: existing state -> wait on its read lock; else cacheGet
                      (validCert at m.now()) and install the state
     certState        under stateMu: existing state -> waiter; else create the state write-locked
                      (the caller becomes the OWNER of the issuance)
     createCert       owner: authorizedCert (ACME order + finalize + validCert), on failure the
                      state stays (without certificate) until the delayed clean-up removes it
     cacheGet/validCert  which cache contents count as a usable certificate

   One action per critical section.  Part (a) of C51 (the decision of one call over name class x
   host policy x cache content x clock x key type x issuance outcome) is the one-process
   instance; part (b) (concurrent calls for one name: at most one issuance in flight, waiters
   get the owner's result) is the many-process instance.  Part (c), the renewal delay, is
   AutocertRenew.tla.

   Abstractions: every "good" spelling of the name (plain, trailing dot, upper/mixed case, IDN)
   normalises to the one name N, so all processes contend for the same certKey per key type.
   A certificate is a record saying where it came from; ValidNow is the model of validCert. *)
EXTENDS Integers, FiniteSets, TLC

CONSTANTS Procs,          \* concurrent GetCertificate calls
          NameClasses,    \* spellings of hello.ServerName explored
          CacheClasses,   \* initial content of the cache entry for the requested certKey
          ClockPos,       \* position of m.now() relative to the cached certificate's validity
          Outcomes,       \* what the CA does with an issuance
          KeyTypes,       \* {"E","R"}: hello supports ECDSA / RSA only
          Tokens,         \* subset of BOOLEAN: tls-alpn-01 hello (acme-tls/1 only)?
          Cleanups        \* how many times the delayed clean-up of a failed state may run

GoodNames == {"plain", "trailingdot", "upper", "mixed", "idn"}       \* normalise to N
BadNames  == {"empty", "nodot", "dotsonly", "badchar", "port", "space"}  \* rejected before anything else
ASSUME NameClasses \subseteq GoodNames \cup BadNames

(* cache classes: what Cache.Get(name[+rsa]) holds when the call starts
     miss         no entry
     good         key + chain for N, validity window W (clock decides)
     othername    consistent key + certificate for another name
     keymismatch  certificate for N but for an UNRELATED private key (differs from the leaf key in every component)
     keynegated   certificate for N, private key = the negated scalar n-d of the leaf's ECDSA key: its public
                  point (X, p-Y) shares X with the leaf key and differs only in Y (for an RSA certKey there is no
                  such key; the class then coincides with keymismatch)
     wrongtype    consistent key + certificate for N of the OTHER key type
     nopem        not PEM at all              garbage      valid entry followed by non-PEM bytes
     nokeyblock   first PEM block is not a private key
     badkeyder    PRIVATE KEY block whose DER does not parse  (cacheGet returns that error: the
                  call fails, it is NOT treated as a miss)                                     *)
MissLike == {"miss", "othername", "keymismatch", "keynegated", "wrongtype", "nopem", "garbage", "nokeyblock"}
InWindow(c) == c \in {"start", "mid", "end"}          \* NotBefore <= now <= NotAfter (inclusive)

NoProc == "none"
NoCert == [src |-> "none", n |-> 0, ok |-> FALSE]

VARIABLES policyOK, clock, cache, cache0, tokenCache,    \* cache0: the cache as it was when the calls started
          st,          \* st[k] = [s: absent | locked | ready | failed, owner, cert]   (Manager.state)
          orders,      \* orders[k]: issuances started (ACME orders finalised) per key type
          inflight,    \* issuances currently running per key type
          issued,      \* number of certificates the CA issued so far (certificate ids)
          cleanups,    \* clean-ups performed
          pc, nc, kt, tok, res,
          polBefore,   \* history: processes that touched the cache or the CA for a regular name
                       \*          without a positive HostPolicy answer first
          ev
cvars == <<policyOK, clock, cache, cache0, tokenCache, st, orders, inflight, issued, cleanups, pc, nc, kt, tok, res, polBefore>>
vars == <<cvars, ev>>

E(t, g, k, x, n) == [t |-> t, g |-> g, k |-> k, x |-> x, n |-> n]

\* model of validCert for a cached entry of class c when the clock is at position p
CacheValid(c, p) == c = "good" /\ InWindow(p)
CachedCert(k) == [src |-> "cache", n |-> 0, ok |-> TRUE]
NewCert(n, o) == [src |-> "new", n |-> n, ok |-> (o = "ok")]

Init == /\ policyOK \in BOOLEAN
        /\ clock \in ClockPos
        /\ cache \in [KeyTypes -> CacheClasses] /\ cache0 = cache
        /\ tokenCache \in {"miss", "good"}
        \* prune: the clock matters only for "good" entries; the token cache only for token hellos
        /\ (\A k \in KeyTypes : cache[k] # "good") => clock = "mid"
        /\ st = [k \in KeyTypes |-> [s |-> "absent", owner |-> NoProc, cert |-> NoCert]]
        /\ orders = [k \in KeyTypes |-> 0] /\ inflight = [k \in KeyTypes |-> 0]
        /\ issued = 0 /\ cleanups = 0
        /\ pc = [g \in Procs |-> "start"]
        /\ nc \in [Procs -> NameClasses] /\ kt \in [Procs -> KeyTypes] /\ tok \in [Procs -> Tokens]
        /\ ((\A g \in Procs : ~tok[g]) => tokenCache = "miss")
        /\ \A k \in KeyTypes : (\A g \in Procs : kt[g] # k) => cache[k] = "miss"   \* prune: entry nobody asks for
        /\ res = [g \in Procs |-> [t |-> "none", why |-> "", cert |-> NoCert]]
        /\ polBefore = {}
        /\ ev = E("init", NoProc, "", "", 0)

Err(g, why) == res' = [res EXCEPT ![g] = [t |-> "err", why |-> why, cert |-> NoCert]]
Serve(g, c, how) == res' = [res EXCEPT ![g] = [t |-> "cert", why |-> how, cert |-> c]]

\* name checks + normalisation; token hellos branch off before the host policy
Start(g) ==
  /\ pc[g] = "start"
  /\ ev' = E("start", g, kt[g], nc[g], 0)
  /\ IF nc[g] \in BadNames
     THEN Err(g, "name") /\ pc' = [pc EXCEPT ![g] = "done"]
     ELSE IF tok[g]
          THEN \* certTokens / cache entry N+token; never the policy, never an issuance
               \* (the lookup key is the normalised name WITH a trailing dot, if the hello had one: never found)
               /\ IF tokenCache = "good" /\ nc[g] # "trailingdot" THEN Serve(g, [src |-> "token", n |-> 0, ok |-> TRUE], "token") ELSE Err(g, "notoken")
               /\ pc' = [pc EXCEPT ![g] = "done"]
          ELSE pc' = [pc EXCEPT ![g] = "policy"] /\ UNCHANGED res
  /\ UNCHANGED <<policyOK, clock, cache, cache0, tokenCache, st, orders, inflight, issued, cleanups, nc, kt, tok, polBefore>>

Policy(g) ==
  /\ pc[g] = "policy"
  /\ ev' = E("policy", g, kt[g], IF policyOK THEN "accept" ELSE "reject", 0)
  /\ IF policyOK THEN pc' = [pc EXCEPT ![g] = "lookup"] /\ UNCHANGED res
     ELSE Err(g, "policy") /\ pc' = [pc EXCEPT ![g] = "done"]
  /\ UNCHANGED <<policyOK, clock, cache, cache0, tokenCache, st, orders, inflight, issued, cleanups, nc, kt, tok, polBefore>>

\* m.cert under stateMu
Lookup(g) ==
  /\ pc[g] = "lookup"
  /\ LET k == kt[g] IN
     IF st[k].s # "absent"
     THEN /\ pc' = [pc EXCEPT ![g] = "rwait"] /\ ev' = E("lookup", g, k, "state", 0)
          /\ UNCHANGED <<st, res, polBefore>>
     ELSE /\ polBefore' = IF policyOK THEN polBefore ELSE polBefore \cup {g}
          /\ CASE CacheValid(cache[k], clock) ->
                    /\ st' = [st EXCEPT ![k] = [s |-> "ready", owner |-> NoProc, cert |-> CachedCert(k)]]
                    /\ Serve(g, CachedCert(k), "cache") /\ pc' = [pc EXCEPT ![g] = "done"]
                    /\ ev' = E("lookup", g, k, "cachehit", 0)
               [] cache[k] = "badkeyder" ->
                    /\ Err(g, "cache") /\ pc' = [pc EXCEPT ![g] = "done"] /\ UNCHANGED st
                    /\ ev' = E("lookup", g, k, "cacheerr", 0)
               [] OTHER ->
                    /\ pc' = [pc EXCEPT ![g] = "cstate"] /\ UNCHANGED <<st, res>>
                    /\ ev' = E("lookup", g, k, "miss", 0)
  /\ UNCHANGED <<policyOK, clock, cache, cache0, tokenCache, orders, inflight, issued, cleanups, nc, kt, tok>>

\* reader: s.RLock() succeeds once the owner has released the write lock
RWait(g) ==
  /\ pc[g] = "rwait"
  /\ LET k == kt[g] IN
     /\ st[k].s # "locked"
     /\ CASE st[k].s = "ready"  -> Serve(g, st[k].cert, "state")
          [] st[k].s = "failed" -> Err(g, "missing")
          [] OTHER -> Err(g, "missing")        \* state removed meanwhile: the reader still holds the old object
     /\ ev' = E("rwait", g, k, st[k].s, st[k].cert.n)
  /\ pc' = [pc EXCEPT ![g] = "done"]
  /\ UNCHANGED <<policyOK, clock, cache, cache0, tokenCache, st, orders, inflight, issued, cleanups, nc, kt, tok, polBefore>>

\* createCert as a waiter: state.RLock() once the owner is done; like the owner, a waiter that got
\* the certificate goes on to m.cachePut in GetCertificate
CWait(g) ==
  /\ pc[g] = "cwait"
  /\ LET k == kt[g] IN
     /\ st[k].s # "locked"
     /\ IF st[k].s = "ready"
        THEN pc' = [pc EXCEPT ![g] = "put"] /\ UNCHANGED res
        ELSE Err(g, "missing") /\ pc' = [pc EXCEPT ![g] = "done"]
     /\ ev' = E("cwait", g, k, st[k].s, st[k].cert.n)
  /\ UNCHANGED <<policyOK, clock, cache, cache0, tokenCache, st, orders, inflight, issued, cleanups, nc, kt, tok, polBefore>>

\* m.certState under stateMu: owner or waiter
CState(g) ==
  /\ pc[g] = "cstate"
  /\ LET k == kt[g] IN
     IF st[k].s = "absent"
     THEN /\ st' = [st EXCEPT ![k] = [s |-> "locked", owner |-> g, cert |-> NoCert]]
          /\ pc' = [pc EXCEPT ![g] = "order"] /\ ev' = E("cstate", g, k, "owner", 0)
     ELSE /\ pc' = [pc EXCEPT ![g] = "cwait"] /\ UNCHANGED st /\ ev' = E("cstate", g, k, "waiter", 0)
  /\ UNCHANGED <<policyOK, clock, cache, cache0, tokenCache, orders, inflight, issued, cleanups, nc, kt, tok, res, polBefore>>

\* the owner's ACME issuance reaches the CA
Order(g) ==
  /\ pc[g] = "order"
  /\ orders' = [orders EXCEPT ![kt[g]] = @ + 1]
  /\ inflight' = [inflight EXCEPT ![kt[g]] = @ + 1]
  /\ polBefore' = IF policyOK THEN polBefore ELSE polBefore \cup {g}
  /\ pc' = [pc EXCEPT ![g] = "finish"]
  /\ ev' = E("order", g, kt[g], "", 0)
  /\ UNCHANGED <<policyOK, clock, cache, cache0, tokenCache, st, issued, cleanups, nc, kt, tok, res>>

\* o = "ok": a certificate that passes validCert; "cafail": the CA refuses; "badcert": the CA
\* returns a chain that fails validCert (other name / other key / expired)
Finish(g, o) ==
  /\ pc[g] = "finish"
  /\ LET k == kt[g] IN
     /\ inflight' = [inflight EXCEPT ![k] = @ - 1]
     /\ IF o = "ok"
        THEN /\ issued' = issued + 1
             /\ st' = [st EXCEPT ![k] = [s |-> "ready", owner |-> g, cert |-> NewCert(issued + 1, o)]]
             /\ pc' = [pc EXCEPT ![g] = "put"] /\ UNCHANGED res
             /\ ev' = E("finish", g, k, o, issued + 1)
        ELSE /\ issued' = IF o = "badcert" THEN issued + 1 ELSE issued
             /\ st' = [st EXCEPT ![k] = [s |-> "failed", owner |-> g, cert |-> NoCert]]
             /\ Err(g, "issue") /\ pc' = [pc EXCEPT ![g] = "done"]
             /\ ev' = E("finish", g, k, o, 0)
  /\ UNCHANGED <<policyOK, clock, cache, cache0, tokenCache, orders, cleanups, nc, kt, tok, polBefore>>

Put(g) ==
  /\ pc[g] = "put"
  /\ cache' = [cache EXCEPT ![kt[g]] = "new"]
  /\ Serve(g, st[kt[g]].cert, "issued")
  /\ pc' = [pc EXCEPT ![g] = "done"]
  /\ ev' = E("put", g, kt[g], "", st[kt[g]].cert.n)
  /\ UNCHANGED <<policyOK, clock, cache0, tokenCache, st, orders, inflight, issued, cleanups, nc, kt, tok, polBefore>>

\* time.AfterFunc(createCertRetryAfter): a failed state is removed, the next call may try again
Cleanup(k) ==
  /\ st[k].s = "failed" /\ cleanups < Cleanups
  /\ st' = [st EXCEPT ![k] = [s |-> "absent", owner |-> NoProc, cert |-> NoCert]]
  /\ cleanups' = cleanups + 1
  /\ ev' = E("cleanup", NoProc, k, "", 0)
  /\ UNCHANGED <<policyOK, clock, cache, cache0, tokenCache, orders, inflight, issued, pc, nc, kt, tok, res, polBefore>>

Next == \/ \E g \in Procs : Start(g) \/ Policy(g) \/ Lookup(g) \/ RWait(g) \/ CWait(g) \/ CState(g) \/ Order(g) \/ Put(g)
        \/ \E g \in Procs, o \in Outcomes : Finish(g, o)
        \/ \E k \in KeyTypes : Cleanup(k)
Spec == Init /\ [][Next]_vars

-----------------------------------------------------------------------------
Done(g) == pc[g] = "done"
AllDone == \A g \in Procs : Done(g)

\* (a) a non-challenge certificate is returned only for an approved, well-formed name, and only a
\*     certificate that is valid now for the name, key and key type (model of validCert)
S1_OnlyApprovedValid ==
  \A g \in Procs : (Done(g) /\ res[g].t = "cert" /\ res[g].cert.src # "token") =>
      /\ policyOK /\ nc[g] \in GoodNames /\ ~tok[g]
      /\ res[g].cert.ok
      /\ res[g].cert.src = "cache" => CacheValid("good", clock)
\* challenge certificates only to challenge hellos
S2_TokenOnlyForToken == \A g \in Procs : (Done(g) /\ res[g].t = "cert" /\ res[g].cert.src = "token") => tok[g]
\* the host policy is consulted (and accepts) before the cache or the CA is touched for a regular name
S3_PolicyFirst == polBefore = {}
\* (b) E1: at most one issuance in flight per certKey; issuances only restart after a clean-up
E1_OneIssuance == \A k \in KeyTypes : inflight[k] <= 1 /\ orders[k] <= 1 + cleanups
\* waiters receive the owner's result: every served new certificate is the one in the state
E2_OwnersResult ==
  \A g \in Procs : (Done(g) /\ res[g].t = "cert" /\ res[g].cert.src = "new") =>
      /\ st[kt[g]].s = "ready" /\ res[g].cert = st[kt[g]].cert
\* lock discipline: a locked state has an owner that is still working
E3_LockOwner == \A k \in KeyTypes : st[k].s = "locked" => (st[k].owner \in Procs /\ pc[st[k].owner] \in {"order", "finish"})
=============================================================================
