SPECIFICATION Spec
CONSTANTS
  Listeners <- L_One
  Targets <- T_One
  TNet <- CTNet
  LAddr <- A_One
  PreReg <- Reg_None
  MaxOpens = 3
  Cap = 1
  MaxHist = 0
CHECK_DEADLOCK FALSE
INVARIANTS TypeOK R1_OnlyExact R1_Spurious BufConsistent R3_AcceptAfterCloseErr NoSpuriousEOF NoBlockingUnderLock NothingLeftBehind NoCloseStuck NoAcceptAfterCloseStuck R1_Decided
PROPERTIES R2_CloseReturns R3_AcceptAfterCloseReturns R1_DecidedOnceClosed
