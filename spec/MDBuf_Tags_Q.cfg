INIT Init
NEXT Next
CONSTANTS
  Seeds = {7}
  TagMax = 130
  Extra = {}
  Groups = 4
INVARIANTS Emit
CHECK_DEADLOCK FALSE
