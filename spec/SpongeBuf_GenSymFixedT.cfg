SPECIFICATION GSpec
CONSTANTS
  Kinds = {"fixed"}
  WSet = {0, 1, 9999, 10001}
  RSet = {}
  MaxLen = 1000000
  MaxOut = 1000000
  MaxObjs = 2
  ShakeResetAfterRead = FALSE
  Depth = 5
INVARIANTS Emit
CHECK_DEADLOCK FALSE
