------------------------------ MODULE SSHPrelude ------------------------------
(* Growth check X07: SSH transport prelude and transport-level message handling.

   Models golang.org/x/crypto/ssh
     transport.go   exchangeVersions, readVersion (maxVersionStringBytes = 255, maxPreVersionLines = 1024),
                    transport.readPacket (IGNORE / DEBUG skipped outside the strict initial key exchange),
                    connectionState.readPacket (DISCONNECT becomes a *disconnectMsg error, empty packets),
     handshake.go   readLoop / readOnePacket (first packet must be KEXINIT, IGNORE / DEBUG dropped, re-key
                    requests from the read / write thresholds), kexLoop / sendKexInit (ext-info-c and the
                    kex-strict names only in the first KEXINIT), enterKeyExchange (strict mode needs sequence
                    number 1, NEWKEYS, SSH_MSG_EXT_INFO with server-sig-algs and ping@openssh.com "0" after the
                    server's first NEWKEYS iff the client offered ext-info-c), writePacket (packets written
                    during a key exchange are queued, at most maxPendingPackets = 64, and flushed in order
                    after NEWKEYS), the `incoming` channel (chanSize = 16),
     client.go      NewClientConn / clientHandshake, client_auth.go clientAuthenticate (SERVICE_REQUEST
                    ssh-userauth, optional EXT_INFO as the first packet after NEWKEYS, SERVICE_ACCEPT, "none",
                    EXT_INFO ignored once per auth response, server-sig-algs used by pickSignatureAlgorithm),
     server.go      NewServerConn / serverHandshake (SERVICE_REQUEST must name ssh-userauth, SERVICE_ACCEPT),
     mux.go         onePacket (PING -> PONG with the same payload; anything unknown ends the connection),
                    loop / Wait (the error that ended the connection, a *disconnectMsg after DISCONNECT).
   Protocol references: RFC 4253 sections 4.2, 6, 7.1, 9, 10, 11; RFC 8308 sections 2.1 - 2.4;
   OpenSSH PROTOCOL 1.9 (ping@openssh.com) and 1.10 (strict KEX).

   ONE library endpoint (role client or server) against an arbitrary peer.  Big-step semantics: one action
   = one thing the peer sends (a run of identification-string bytes of one class, one packet, a burst of
   packets in one write, end of file) followed by everything the library does until it is quiescent again;
   the replay harness observes exactly that inside a testing/synctest bubble.  Observable per step: packets
   the library wrote (abstract: type and the attributes that matter), the result of NewClientConn /
   NewServerConn if it returned (ok, or the error's class: disc with reason, eof, err), the result of
   Conn.Wait if it returned, whether the library closed the connection, goroutines left blocked.

   The identification-string reader is an explicit small state machine (the DFA pm over the prefix
   "SSH-", the line length, the line count) next to the implementation-shaped line buffer buf; VerRefines
   says the two agree.  Byte classes: S H D(ash) R(CR) N(LF) Z(NUL) X(other ASCII) B(>= 0x80).

   PROPERTIES (names below):
     P1  version exchange: the library writes its own line exactly once and first (never when it contains a
         control character); a peer line is accepted iff it starts with "SSH-" and has at most MaxLine-1
         bytes before LF, after fewer than MaxPre other lines each shorter than MaxLine; what enters the
         exchange hash is the line without LF and without ONE trailing CR; the reader never consumes a byte
         beyond the LF; a full line never leaves the library waiting;
     P2  IGNORE / DEBUG are invisible (outside the strict initial key exchange, which is C30's);
         DISCONNECT ends the connection and is the error every waiting caller gets (reason kept);
         every other unexpected packet ends the connection with an error and nothing is written;
         when the connection has ended nothing stays blocked (NoStall);
     P3  EXT_INFO: the server writes it immediately after its first NEWKEYS iff the client's KEXINIT had
         ext-info-c, never at a re-key; the client offers ext-info-c (and kex-strict) only in its first
         KEXINIT; it accepts EXT_INFO only as the first packet after the first NEWKEYS and then uses
         server-sig-algs; an EXT_INFO during user authentication is ignored once and not recorded;
     P4  every PING received on an established connection is answered by exactly one PONG with the same
         payload, in order; while a key exchange is in progress (between the library's KEXINIT and NEWKEYS)
         no PONG is written, they follow NEWKEYS in order; the library may bound what it queues and end the
         connection with an error, but it never stalls (RFC 4253 section 9: a party MUST be prepared to
         process an arbitrary number of messages in flight before the other side's KEXINIT);
     P5  the client writes SERVICE_REQUEST ssh-userauth exactly once, right after the first NEWKEYS, and goes
         on only after SERVICE_ACCEPT; the server answers SERVICE_REQUEST ssh-userauth with one
         SERVICE_ACCEPT ssh-userauth and ends the connection on anything else.

   AsIs = TRUE adds the two stalls of the implementation (documentation configurations; TLC must find the
   NoStall counterexamples; the replay predictions always come from AsIs = FALSE):
     K1  mux.loop answers PING itself; with maxPendingPackets pongs queued it blocks in writePacket, the
         readLoop then blocks on the full `incoming` channel and never reads the peer's KEXINIT;
     K2  when the consumer of `incoming` has gone (handshake failed, mux.loop left its loop) and more than
         chanSize packets follow, readLoop blocks on `incoming` for ever: kexLoop never ends,
         handshakeTransport.Close (called by mux.loop) never returns, Conn.Wait never returns.

   Repair state: the main configurations (AsIs = FALSE) describe the code WITH fixes/X07-readloop-abandon-minimal.diff
   as far as K2 goes (the hand-over to `incoming` can be abandoned: a connection that has ended leaves nothing
   blocked); SSHPrelude_AsIsK2.cfg keeps the stall and must keep producing the NoStall counterexample.  K1 is an
   open finding: the specification allows "queue" or "end the connection", the code as it is does neither.  The
   harness names a stall from the goroutine dump whether readLoop waits in a plain send or in a select.

   Modelled as the code is, not charged (observations): the protocol version after "SSH-" is not looked at
   ("SSH-1.5-x" is accepted); lines before the identification string are tolerated from clients too; NUL
   and non-ASCII bytes are accepted; the name in SERVICE_ACCEPT is not compared; no DISCONNECT message is
   sent when a handshake is refused; unknown message types (also SSH_MSG_UNIMPLEMENTED and an unsolicited
   PONG) end the connection instead of being answered with SSH_MSG_UNIMPLEMENTED / ignored (RFC 4253
   section 11.4); PING is answered only once user authentication has finished. *)
EXTENDS Integers, Sequences, FiniteSets, TLC

CONSTANTS MaxLine,      \* 255: readVersion gives up when the line buffer reaches this length
          MaxPre,       \* 1024: lines before the identification string
          MaxPending,   \* 64: maxPendingPackets
          ChanSize,     \* 16: chanSize
          Roles, Owns, StrictOpts, ExtcOpts, RkOpts,     \* initial configurations
          StartPh,      \* "ver": start with the version exchange; "kex0": start after a plain one
          VerSteps,     \* version-phase steps the peer may take: records [c |-> class, n |-> run length]
          MaxVer,       \* version-phase steps per history
          Kinds,        \* packet kinds the peer may send
          MaxPkt,       \* packet-phase events per history
          MaxNoise,     \* IGNORE / DEBUG per history
          MaxPing,      \* ping events per history
          PingRuns,     \* n: "n pings in a row" events (while the library waits for the peer's KEXINIT)
          Bursts,       \* n: "a packet that ends the connection, followed by n pings, in one write"
          AsIs          \* TRUE: with the stalls K1 / K2 of the implementation

VARIABLES S,      \* the whole state as one record
          hist    \* history of observations (kept by the generator actions of SSHPrelude_MC only)

-----------------------------------------------------------------------------
Ev(k, c, n) == [k |-> k, c |-> c, n |-> n]
Pk(t, a) == [t |-> t, a |-> a, i |-> 0]
Pong(i) == [t |-> "pong", a |-> "", i |-> i]
NoAlt == [on |-> FALSE, out |-> <<>>, res |-> "", wait |-> ""]
NoFlush == [from |-> 0, n |-> 0]

Client(s) == s.role = "client"

(* ---------------------------------------------------------------- the identification-string reader *)
Prefix == <<"S", "S", "H", "D">>
NextPm(pm, c) == IF pm = 4 THEN 4
                 ELSE IF pm = 5 THEN 5
                 ELSE IF c = Prefix[pm + 1] THEN pm + 1 ELSE 5
\* declaratively: how much of the buffer matches "SSH-" (5: it does not)
Min(a, b) == IF a < b THEN a ELSE b
Progress(buf) == LET m == Min(4, Len(buf)) IN
                 IF \A i \in 1 .. m : buf[i] = Prefix[i] THEN m ELSE 5
HasSSHPrefix(buf) == Len(buf) >= 4 /\ \A i \in 1 .. 4 : buf[i] = Prefix[i]

\* v = [buf, pm, nl, st]; st: "rd" reading, "acc" accepted, "fail" overflow
ReadByte(v, c) ==
  IF c = "N"
    THEN IF v.pm = 4 THEN [v EXCEPT !.st = "acc"]
         ELSE [buf |-> <<>>, pm |-> 0, nl |-> v.nl + 1, st |-> IF v.nl + 1 >= MaxPre THEN "fail" ELSE "rd"]
    ELSE LET b == Append(v.buf, c) IN
         [buf |-> b, pm |-> NextPm(v.pm, c), nl |-> v.nl, st |-> IF Len(b) >= MaxLine THEN "fail" ELSE "rd"]

RECURSIVE ReadRun(_, _, _)
ReadRun(v, c, n) == IF n = 0 \/ v.st # "rd" THEN v ELSE ReadRun(ReadByte(v, c), c, n - 1)

\* what enters the exchange hash: the line without ONE trailing CR
HashLen(buf) == IF buf # <<>> /\ buf[Len(buf)] = "R" THEN Len(buf) - 1 ELSE Len(buf)

(* ---------------------------------------------------------------- initial states *)
KexInitFlags(s) == IF ~s.first THEN "" ELSE IF Client(s) THEN "es" ELSE "s"

Start(role, own, sp, xc, rk) ==
  [role |-> role, own |-> own, strictPeer |-> sp, extc |-> xc, rk |-> rk,
   ph |-> "ver", kx |-> "idle", first |-> TRUE, strict |-> FALSE, pre |-> 0, due |-> FALSE,
   buf |-> <<>>, pm |-> 0, nl |-> 0, hashLen |-> 0,
   ext |-> FALSE, svcext |-> FALSE, authst |-> "", aext |-> FALSE,
   np |-> 0, sent |-> 0,
   nnoise |-> 0, nping |-> 0, nv |-> 0, npk |-> 0, nown |-> 0, nsvc |-> 0,
   out |-> <<>>, res |-> "", disc |-> 0, wait |-> "", closed |-> FALSE, stuck |-> FALSE,
   fl |-> NoFlush, weak |-> FALSE, ovf |-> FALSE,
   last |-> Ev("init", "", 0), alt |-> NoAlt]

\* the library's first act: its own identification line (exchangeVersions writes before it reads)
Opened(s) ==
  IF s.own = "junk"
    THEN [s EXCEPT !.ph = "dead", !.res = "err", !.closed = TRUE]          \* refused before anything is written
    ELSE [s EXCEPT !.out = <<Pk("ver", s.own)>>, !.nown = 1]

PlainLine == <<"S", "S", "H", "D", "X", "X", "R">>
\* the state after a plain version exchange ("SSH-xx\r\n"): the library has written its KEXINIT
AfterPlain(s) ==
  [s EXCEPT !.ph = "kex0", !.kx = "sent", !.buf = PlainLine, !.pm = 4, !.hashLen = Len(PlainLine) - 1,
            !.out = <<Pk("kexinit", KexInitFlags(s))>>]

InitStates ==
  { IF StartPh = "kex0" /\ s0.ph = "ver" THEN [AfterPlain(s0) EXCEPT !.last = Ev("init", "plain", 0)] ELSE s0 :
      s0 \in { Opened(Start(c[1], c[2], c[3], c[4], c[5])) :
                 c \in { x \in Roles \X Owns \X StrictOpts \X ExtcOpts \X RkOpts :
                           x[1] = "client" => x[4] = FALSE } } }       \* ext-info-c is something a client peer offers

Init == S \in InitStates /\ hist = <<>>

(* ---------------------------------------------------------------- ends *)
\* the connection ends with an error of class cls: every waiting caller gets it.
\* As the code is: (a) when a key exchange fails, kexLoop still pushes the packets queued during it before the
\* connection is closed, so an in-order prefix of the pending PONGs may appear (fl); (b) the end of file is reported
\* as io.EOF unless a write was pending (then the write's error may win: weak), and as a *ServerAuthError by
\* serverAuthenticate.
Pend(s) == s.np - s.sent                                    \* PINGs received and not yet answered
Fail(s, cls0) ==
  LET cls == IF cls0 = "eof" /\ s.role = "server" /\ s.ph = "auth" THEN "err" ELSE cls0 IN
  [s EXCEPT !.ph = "dead", !.closed = TRUE, !.kx = "idle",
            !.res = IF s.res = "" THEN cls ELSE s.res,
            !.wait = IF s.res = "ok" THEN cls ELSE s.wait,
            !.fl = IF s.kx \in {"msg", "nk"} /\ Pend(s) > 0 THEN [from |-> s.sent, n |-> Pend(s)] ELSE NoFlush,
            !.weak = (cls = "eof" /\ (Pend(s) > 0 \/ s.kx # "idle"))]

Begin(s, e) == [s EXCEPT !.out = <<>>, !.last = e, !.alt = NoAlt, !.fl = NoFlush, !.weak = FALSE]

(* ---------------------------------------------------------------- version phase *)
VerStep(s0, e) ==
  LET s == [Begin(s0, e) EXCEPT !.nv = @ + 1]
      v == ReadRun([buf |-> s.buf, pm |-> s.pm, nl |-> s.nl, st |-> "rd"], e.c, e.n) IN
  IF v.st = "fail" THEN Fail([s EXCEPT !.buf = v.buf, !.pm = v.pm, !.nl = v.nl], "err")
  ELSE IF v.st = "acc"
    THEN \* readVersion returns; the transport starts and kexLoop writes the first KEXINIT
         [s EXCEPT !.buf = v.buf, !.pm = v.pm, !.nl = v.nl, !.hashLen = HashLen(v.buf),
                   !.ph = "kex0", !.kx = "sent", !.out = <<Pk("kexinit", KexInitFlags(s))>>]
  ELSE [s EXCEPT !.buf = v.buf, !.pm = v.pm, !.nl = v.nl]

(* ---------------------------------------------------------------- packet phases *)
Pongs(a, b) == [i \in 1 .. (b - a) |-> Pong(a + i)]          \* pongs a+1 .. b
StrictInitial(s) == s.first /\ s.strict /\ s.kx \in {"msg", "nk"}
\* K1: mux.loop is blocked in writePacket, `incoming` is full and readLoop holds one more packet
Wedgeable(s) == AsIs /\ s.kx = "sent" /\ Pend(s) >= MaxPending + ChanSize + 2

OnNoise(s) ==
  IF StrictInitial(s) THEN Fail(s, "err")                       \* strict KEX: not skipped, the key exchange fails
  ELSE IF s.ph = "kex0" /\ s.kx = "sent" THEN [s EXCEPT !.pre = @ + 1]    \* counted by the sequence number
  ELSE s

OnKexInit(s) ==
  IF s.kx \in {"msg", "nk"} THEN Fail(s, "err")
  ELSE IF s.ph = "kex0"
    THEN IF s.strictPeer /\ s.pre > 0 THEN Fail(s, "err")        \* "sequence number != 1 when strict KEX mode requested"
         ELSE [s EXCEPT !.strict = s.strictPeer, !.kx = "msg",
                        !.out = IF Client(s) THEN <<Pk("kexmsg", "init")>> ELSE <<>>]
  ELSE [s EXCEPT !.kx = "msg",
                 !.out = (IF s.kx = "idle" THEN <<Pk("kexinit", "")>> ELSE <<>>)
                         \o (IF Client(s) THEN <<Pk("kexmsg", "init")>> ELSE <<>>)]

OnKexMsg(s, good) ==
  IF s.kx # "msg" \/ ~good THEN Fail(s, "err")
  ELSE IF Client(s) THEN [s EXCEPT !.kx = "nk", !.out = <<Pk("newkeys", "")>>]
  ELSE [s EXCEPT !.kx = "nk",
                 !.out = <<Pk("kexmsg", "reply"), Pk("newkeys", "")>>
                         \o (IF s.first /\ s.extc THEN <<Pk("extinfo", "sigalgs+ping0")>> ELSE <<>>)]

OnNewKeys(s) ==
  IF s.kx # "nk" THEN Fail(s, "err")
  ELSE IF s.first
    THEN [s EXCEPT !.first = FALSE, !.kx = "idle", !.ph = "svc",
                   !.out = IF Client(s) THEN <<Pk("svcreq", "ssh-userauth")>> ELSE <<>>,
                   !.nsvc = IF Client(s) THEN @ + 1 ELSE @]
    ELSE [s EXCEPT !.kx = "idle", !.due = FALSE, !.sent = s.np, !.out = Pongs(s.sent, s.np)]

\* n pings (n = 1: one PING; big: its payload exhausts the re-key thresholds when the configuration has a small one)
OnPing(s, n, big) ==
  IF s.ph # "open" \/ s.kx \in {"msg", "nk"} THEN Fail(s, "err")
  ELSE IF s.kx = "idle"
    THEN [s EXCEPT !.np = @ + n, !.sent = @ + n, !.out = Pongs(s.sent, s.sent + n), !.due = @ \/ (big /\ s.rk)]
    ELSE LET t == [s EXCEPT !.np = @ + n] IN
         \* queued until NEWKEYS; beyond MaxPending the library may give up instead (never stall)
         IF Pend(t) > MaxPending
           THEN [t EXCEPT !.alt = [on |-> TRUE, out |-> <<>>, res |-> s.res, wait |-> "err"]]
           ELSE t

\* a global request without want-reply: delivered to the application, no answer; the first packet read after the
\* thresholds are exhausted makes the library start a key exchange
OnGReq0(s) ==
  IF s.ph # "open" \/ s.kx \in {"msg", "nk"} THEN Fail(s, "err")
  ELSE IF s.kx = "idle" /\ s.due THEN [s EXCEPT !.kx = "sent", !.out = <<Pk("kexinit", "")>>]
  ELSE s

OnExtInfo(s, wellformed) ==
  IF s.kx \in {"msg", "nk"} \/ ~Client(s) THEN Fail(s, "err")
  ELSE IF s.ph = "svc"
    THEN IF s.svcext \/ ~wellformed THEN Fail(s, "err") ELSE [s EXCEPT !.svcext = TRUE, !.ext = TRUE]
  ELSE IF s.ph = "auth" /\ s.authst = "none"
    THEN IF s.aext THEN Fail(s, "err") ELSE [s EXCEPT !.aext = TRUE]          \* ignored once, not even parsed
  ELSE Fail(s, "err")

OnSvcAcc(s) ==
  IF Client(s) /\ s.ph = "svc" /\ s.kx = "idle"
    THEN [s EXCEPT !.ph = "auth", !.authst = "none", !.out = <<Pk("authreq", "none")>>]
    ELSE Fail(s, "err")

OnSvcReq(s, good) ==
  IF ~Client(s) /\ s.ph = "svc" /\ s.kx = "idle" /\ good
    THEN [s EXCEPT !.ph = "auth", !.out = <<Pk("svcacc", "ssh-userauth")>>, !.nsvc = @ + 1]
    ELSE Fail(s, "err")

OnAuthOk(s) ==
  IF Client(s) /\ s.ph = "auth" /\ s.authst = "none" /\ s.kx = "idle"
    THEN [s EXCEPT !.ph = "open", !.res = "ok"]
    ELSE Fail(s, "err")

\* USERAUTH_FAILURE listing "publickey"
OnAuthFail(s) ==
  IF Client(s) /\ s.ph = "auth" /\ s.kx = "idle"
    THEN IF s.authst = "none"
           THEN [s EXCEPT !.authst = "pk", !.aext = FALSE,
                          !.out = <<Pk("authreq", IF s.ext THEN "pk:rsa-sha2-512" ELSE "pk:ssh-rsa")>>]
           ELSE Fail(s, "err")                                   \* no method left
    ELSE Fail(s, "err")

OnAuthReq(s, good) ==
  IF ~Client(s) /\ s.ph = "auth" /\ s.kx = "idle" /\ good
    THEN [s EXCEPT !.ph = "open", !.res = "ok", !.out = <<Pk("authok", "")>>]
    ELSE Fail(s, "err")

OnDisc(s, reason) == [Fail(s, "disc") EXCEPT !.disc = reason]

\* a packet the consumer cannot use ends the connection; K2: more than ChanSize packets behind it
OnBurst(s, k, n) ==
  LET f == Fail(s, "err") IN
  IF AsIs /\ n > ChanSize /\ s.ph \in {"svc", "auth", "open"} /\ s.kx \in {"idle", "sent"}
    THEN [f EXCEPT !.stuck = TRUE, !.wait = ""]                 \* mux.loop hangs in Close: Wait never returns
    ELSE f

Apply(s, e) ==
  CASE e.k \in {"ignore", "debug"} -> OnNoise([s EXCEPT !.nnoise = @ + 1])
    [] e.k = "disc" -> OnDisc(s, e.n)
    [] e.k = "eof" -> Fail(s, "eof")
    [] e.k = "kexinit" -> OnKexInit(s)
    [] e.k = "kexmsg" -> OnKexMsg(s, TRUE)
    [] e.k = "kexmsgbad" -> OnKexMsg(s, FALSE)
    [] e.k = "newkeys" -> OnNewKeys(s)
    [] e.k = "ping" -> OnPing([s EXCEPT !.nping = @ + 1], e.n, FALSE)
    [] e.k = "bigping" -> OnPing([s EXCEPT !.nping = @ + 1], 1, TRUE)
    [] e.k = "greq0" -> OnGReq0(s)
    [] e.k = "extinfo" -> OnExtInfo(s, TRUE)
    [] e.k = "extbad" -> OnExtInfo(s, FALSE)
    [] e.k = "svcacc" -> OnSvcAcc(s)
    [] e.k = "svcacc2" -> OnSvcAcc(s)                            \* another service name: not compared
    [] e.k = "svcreq" -> OnSvcReq(s, TRUE)
    [] e.k = "svcreq2" -> OnSvcReq(s, FALSE)
    [] e.k = "authok" -> OnAuthOk(s)
    [] e.k = "authfail" -> OnAuthFail(s)
    [] e.k = "authreq" -> OnAuthReq(s, TRUE)
    [] e.k = "authreq2" -> OnAuthReq(s, FALSE)
    [] e.k = "burst" -> OnBurst(s, e.c, e.n)
    [] OTHER -> Fail(s, "err")           \* empty, zero, unk, unimpl, pong: nothing knows what to do with it

\* the window in which the library waits for the peer's KEXINIT has seen more PINGs than the implementation buffers
Overflowed(s) == s.kx = "sent" /\ s.ph = "open" /\ Pend(s) >= MaxPending + ChanSize + 2

PktStep(s0, e) ==
  LET b == [Begin(s0, e) EXCEPT !.npk = @ + 1, !.ovf = @ \/ Overflowed(s0)] IN
  IF Wedgeable(s0) THEN [b EXCEPT !.stuck = TRUE]              \* K1: nothing is read any more, not even the end of file
  ELSE Apply(b, e)

Step(s, e) == IF e.k = "ver" THEN VerStep(s, e)
              ELSE IF s.ph = "ver" THEN Fail(Begin(s, e), "eof")          \* only "eof" is offered there
              ELSE PktStep(s, e)

(* ---------------------------------------------------------------- what the peer may do *)
PacketKinds == {"ignore", "debug", "disc", "kexinit", "kexmsg", "kexmsgbad", "newkeys", "ping", "bigping", "greq0",
                "extinfo", "extbad", "svcacc", "svcacc2", "svcreq", "svcreq2", "authok", "authfail", "authreq", "authreq2",
                "empty", "zero", "unk", "unimpl", "pong"}
Killers == {"unk", "unimpl"}

\* the library's mux is blocked (K1) or about to race: only what is deterministic is offered
Quiet(s) == (s.kx = "sent" /\ s.ph = "open" /\ Pend(s) > MaxPending) \/ (s.due /\ s.kx = "idle")

\* what a peer event must satisfy for its outcome to be determined (a recorded trace must keep to it as well)
LegalKind(s, k) ==
  /\ k \in PacketKinds
  /\ Overflowed(s) => k \in {"kexinit", "disc"}
  /\ k = "bigping" => s.kx = "idle" /\ ~s.due /\ s.ph = "open"
  /\ k = "kexinit" => s.ph \in {"kex0", "open"}
  /\ k = "kexmsgbad" => Client(s)
  /\ (s.ph = "auth" /\ s.authst = "pk") => k \in {"authfail", "disc"}
  /\ Quiet(s) => k \in {"ignore", "debug", "disc", "kexinit"} \cup (IF s.due /\ s.kx = "idle" THEN {"greq0"} ELSE {"ping"})

Legal(s, e) ==
  /\ s.ph # "dead" /\ ~s.stuck
  /\ \/ e.k = "eof"
     \/ e.k = "ver" /\ s.ph = "ver" /\ e.n >= 1 /\ e.c \in {"S", "H", "D", "R", "N", "Z", "X", "B"} /\ (e.c = "N" /\ e.n > 1 => s.pm # 4)
     \/ e.k = "disc" /\ s.ph # "ver" /\ LegalKind(s, "disc")
     \/ e.k = "ping" /\ s.ph # "ver" /\ LegalKind(s, "ping") /\ e.n >= 1 /\ (e.n > 1 => s.kx = "sent" /\ s.ph = "open")
     \/ e.k = "burst" /\ e.c \in Killers /\ e.n >= 1 /\ s.ph \in {"svc", "auth", "open"} /\ s.kx \in {"idle", "sent"} /\ ~Quiet(s)
                       /\ ~(s.ph = "auth" /\ s.authst = "pk")
     \/ e.k \notin {"eof", "ver", "disc", "ping", "burst"} /\ s.ph # "ver" /\ e.n = 1 /\ LegalKind(s, e.k)

Offered(s, k) ==
  /\ k \in Kinds /\ LegalKind(s, k)
  /\ k \in {"ignore", "debug"} => s.nnoise < MaxNoise
  /\ k \in {"ping", "bigping"} => s.nping < MaxPing
  /\ (s.ovf /\ ~Overflowed(s)) => k \in {"kexmsg", "newkeys"}

PeerEvents(s) ==
  IF s.ph = "dead" \/ s.stuck THEN {}
  ELSE IF s.ph = "ver"
    THEN {Ev("ver", v.c, v.n) : v \in {x \in VerSteps : s.nv < MaxVer /\ (x.c = "N" /\ x.n > 1 => s.pm # 4)}}
         \cup {Ev("eof", "", 0)}
  ELSE IF s.npk >= MaxPkt THEN {}
  ELSE {Ev(k, "", 1) : k \in {x \in PacketKinds \ {"disc"} : Offered(s, x)}}
       \cup {Ev("disc", "", r) : r \in IF Offered(s, "disc") THEN {2, 11} ELSE {}}
       \cup {Ev("ping", "", n) : n \in IF Offered(s, "ping") /\ s.kx = "sent" /\ s.ph = "open" /\ ~s.ovf THEN PingRuns ELSE {}}
       \cup {Ev("burst", k, n) : k \in IF s.ph \in {"svc", "auth", "open"} /\ s.kx \in {"idle", "sent"} /\ ~Quiet(s) /\ ~s.ovf
                                         /\ ~(s.ph = "auth" /\ s.authst = "pk") THEN Killers \cap Kinds ELSE {},
                                 n \in Bursts}
       \cup {Ev("eof", "", 0) : x \in IF s.ovf THEN {} ELSE {1}}

\* the outcomes the specification allows for an event: the step, and where the library may give up instead of
\* queueing (alt), the clean end of the connection
Outcomes(s, e) ==
  LET n == Step(s, e) IN
  {n} \cup (IF n.alt.on THEN {[Fail([n EXCEPT !.alt = NoAlt], "err") EXCEPT !.out = <<>>]} ELSE {})

Peer == \E e \in PeerEvents(S) : S' = Step(S, e) /\ hist' = hist
Next == Peer
Spec == Init /\ [][Next]_<<S, hist>>

\* the harness ends every replay by dropping the connection
Final(s) == IF s.ph = "dead" \/ s.stuck THEN [Begin(s, Ev("eof", "", 0)) EXCEPT !.weak = s.weak] ELSE Step(s, Ev("eof", "", 0))

Obs(s) == [ev |-> s.last, out |-> s.out, res |-> s.res, wait |-> s.wait, disc |-> s.disc, closed |-> s.closed,
           dead |-> s.ph = "dead", hashLen |-> s.hashLen, alt |-> s.alt, fl |-> s.fl, weak |-> s.weak]

-----------------------------------------------------------------------------
(* Properties.  Invariants speak about the state and the step that led to it (S.last, S.out). *)
Has(s, t) == \E i \in 1 .. Len(s.out) : s.out[i].t = t
CountOut(s, t) == Cardinality({i \in 1 .. Len(s.out) : s.out[i].t = t})
InVer(s) == s.ph = "ver"
Accepting(s) == s.last.k = "ver" /\ s.ph = "kex0"          \* the step in which the peer's line was accepted

TypeOK == /\ S.ph \in {"ver", "kex0", "svc", "auth", "open", "dead"}
          /\ S.kx \in {"idle", "sent", "msg", "nk"}
          /\ S.pm \in 0 .. 5 /\ S.nl \in 0 .. MaxPre /\ Len(S.buf) <= MaxLine
          /\ S.sent <= S.np /\ S.res \in {"", "ok", "err", "eof", "disc"} /\ S.wait \in {"", "err", "eof", "disc"}

\* P1: the reader.  The DFA and the buffer agree (refinement of the implementation-shaped reader)
P1_VerRefines == S.pm = Progress(S.buf) /\ (S.ph = "ver" => Len(S.buf) < MaxLine /\ S.nl < MaxPre)
\* accepted iff "SSH-" line, short enough, early enough; hashed without LF and one CR
P1_Accepted == (S.ph \notin {"ver", "dead"} \/ (S.ph = "dead" /\ S.hashLen > 0)) =>
                 /\ HasSSHPrefix(S.buf) /\ Len(S.buf) < MaxLine /\ S.nl < MaxPre
                 /\ S.hashLen = HashLen(S.buf) /\ S.hashLen >= 4
\* a failure before a line was accepted is the refused own line, an overflow, or the end of file -- nothing else
VerDead(s) == s.ph = "dead" /\ s.hashLen = 0
P1_VerFailure == VerDead(S) =>
                   /\ S.out = <<>> /\ S.wait = ""
                   /\ \/ S.last.k = "init" /\ S.own = "junk" /\ S.res = "err" /\ S.nown = 0
                      \/ S.last.k = "ver" /\ S.res = "err" /\ (Len(S.buf) >= MaxLine \/ S.nl >= MaxPre)
                      \/ S.last.k = "eof" /\ S.res = "eof"
\* the own line: exactly once, first, never a line with control characters
P1_OwnLine == /\ S.nown = (IF S.own = "junk" THEN 0 ELSE 1)
              /\ Has(S, "ver") => S.last.k = "init" /\ S.out = <<Pk("ver", S.own)>>
\* a complete "SSH-" line never leaves the library waiting, a step without one writes nothing
P1_NoWait == /\ (S.last.k = "ver" /\ S.last.c = "N" /\ S.ph = "ver") => S.buf = <<>>
             /\ (S.last.k = "ver" /\ S.ph = "ver") => S.out = <<>>
             /\ Accepting(S) => S.out = <<Pk("kexinit", IF Client(S) THEN "es" ELSE "s")>>

\* P2
P2_NoiseInvisible == (S.last.k \in {"ignore", "debug"} /\ S.ph # "dead") => S.out = <<>>
P2_Disconnect == S.last.k = "disc" =>
                   /\ S.ph = "dead" /\ S.closed /\ S.out = <<>> /\ S.disc = S.last.n
                   /\ (S.res = "disc" /\ S.wait = "") \/ (S.res = "ok" /\ S.wait = "disc")
P2_DeadIsFinal == S.ph = "dead" =>
                    /\ S.closed /\ S.res # ""
                    /\ S.res = "ok" => (S.wait # "" \/ S.stuck)
                    /\ S.res # "ok" => S.wait = ""
P2_UnexpectedEnds == (S.last.k \in {"empty", "zero", "unk", "unimpl", "pong", "burst"}) =>
                       S.ph = "dead" /\ S.out = <<>> /\ (S.stuck \/ S.res = "err" \/ S.wait = "err")
\* nothing stays blocked for ever (violated by K1 / K2 when AsIs)
NoStall == ~S.stuck

\* P3
P3_ServerExtInfo ==
  /\ Has(S, "extinfo") => /\ ~Client(S) /\ S.extc /\ S.first /\ S.last.k = "kexmsg"
                          /\ S.out = <<Pk("kexmsg", "reply"), Pk("newkeys", ""), Pk("extinfo", "sigalgs+ping0")>>
  /\ (~Client(S) /\ Has(S, "newkeys") /\ S.first /\ S.extc) => Has(S, "extinfo")
P3_FirstKexInitOnly ==
  \A i \in 1 .. Len(S.out) : S.out[i].t = "kexinit" =>
     S.out[i].a = (IF S.first /\ S.ph = "kex0" THEN (IF Client(S) THEN "es" ELSE "s") ELSE "")
P3_ClientRecords ==
  /\ S.ext => Client(S) /\ S.svcext
  /\ \A i \in 1 .. Len(S.out) : (S.out[i].t = "authreq" /\ S.out[i].a # "none") =>
        S.out[i].a = (IF S.ext THEN "pk:rsa-sha2-512" ELSE "pk:ssh-rsa")

\* P4
P4_PongOrder ==
  \A i \in 1 .. Len(S.out) : S.out[i].t = "pong" =>
     /\ S.out[i].i <= S.sent /\ S.out[i].i >= 1
     /\ (i > 1 /\ S.out[i - 1].t = "pong") => S.out[i].i = S.out[i - 1].i + 1
P4_PongOnlyWhenEstablished == Has(S, "pong") => S.res = "ok" /\ S.last.k \in {"ping", "bigping", "newkeys"}
\* every PING is answered or waits for the end of the key exchange; nothing is answered twice
P4_Answered == (S.ph = "open" /\ S.kx = "idle") => S.sent = S.np
\* RFC 4253 7.1: between KEXINIT and NEWKEYS only key exchange packets
P4_NoPongDuringKex == (S.kx # "idle" /\ S.last.k # "newkeys") =>
                        \A i \in 1 .. Len(S.out) : S.out[i].t \in {"kexinit", "kexmsg", "newkeys", "extinfo"}
P4_FlushAtNewKeys == (S.last.k = "newkeys" /\ S.ph = "open") =>
                       S.sent = S.np /\ \A i \in 1 .. Len(S.out) : S.out[i].t = "pong"

\* P5
P5_ServiceOnce == /\ S.nsvc <= 1
                  /\ Has(S, "svcreq") => Client(S) /\ S.last.k = "newkeys" /\ S.out = <<Pk("svcreq", "ssh-userauth")>> /\ ~S.first
                  /\ Has(S, "svcacc") => ~Client(S) /\ S.last.k = "svcreq" /\ S.out = <<Pk("svcacc", "ssh-userauth")>>
                  /\ (Has(S, "authreq") \/ Has(S, "authok")) => S.nsvc = 1
P5_ServerRefuses == (~Client(S) /\ S.last.k \in {"svcreq2", "authreq2"}) => S.ph = "dead" /\ S.out = <<>> /\ (S.res = "err" \/ S.wait = "err")
P5_Established == S.res = "ok" => ~S.first /\ S.nsvc = 1 /\ S.hashLen >= 4
=============================================================================
