SPECIFICATION Spec
CONSTANTS
  P = 19
  W = 32
  B = 4
  N = 13
INVARIANTS SpecRoundTrip SpecOnlyCurve SpecOneEncoding SpecCanonical ToyZeroShape
CHECK_DEADLOCK FALSE
