---------------------------- MODULE SSHNegotiate_MC ----------------------------
(* Bounded instances of SSHNegotiate, plus the behaviour generator for binding R. *)
EXTENDS SSHNegotiate, Json

\* All lists of length <= n over alphabet A (duplicates allowed).
RECURSIVE Lists(_, _)
Lists(A, n) == IF n = 0 THEN {<<>>} ELSE LET L == Lists(A, n-1) IN L \cup {Append(l, a) : l \in L, a \in A}
AllPairs(A, B, n) == Lists(A, n) \X Lists(B, n)

\* ---- config 1: every slot independently exhaustive (the other slots fixed to a trivially agreeing pair)
\* handled by MenuSlotX below: one slot gets AllPairs, the rest get the single pair <<"a">>,<<"a">>.
Triv == {<< <<"a">>, <<"a">> >>}
CipherNames == {"a", "b", "g"}          \* g is AEAD
MCAEAD == {"g", "g2"}
\* z is unknown to the server, y unknown to the client
Full(n) == AllPairs({"a", "b", "z"}, {"a", "b", "y"}, n)
MenuKex      == [s \in Slots |-> IF s = "kex" THEN Full(3) ELSE Triv]
MenuHostKey  == [s \in Slots |-> IF s = "hostkey" THEN Full(3) ELSE Triv]
MenuCompCS   == [s \in Slots |-> IF s = "compCS" THEN Full(3) ELSE Triv]
MenuCompSC   == [s \in Slots |-> IF s = "compSC" THEN Full(3) ELSE Triv]
\* cipher x MAC interplay, per direction
CM(n) == AllPairs({"a", "g", "z"}, {"a", "g", "y"}, n)
MenuCipherMacCS == [s \in Slots |-> IF s \in {"cipherCS", "macCS"} THEN CM(2) ELSE Triv]
MenuCipherMacSC == [s \in Slots |-> IF s \in {"cipherSC", "macSC"} THEN CM(2) ELSE Triv]

\* ---- config 2: whole-message product over a small menu of shapes per slot, distinct per slot and direction
Shapes(x, y, w) == { << <<x>>, <<x>> >>,              \* agree on the only one
                     << <<x, y>>, <<y, x>> >>,         \* client preference wins (x)
                     << <<w, y>>, <<x, y>> >>,         \* first client entry unknown to server (y)
                     << <<x>>, <<y>> >>,               \* no common
                     << <<>>, <<x>> >> }               \* empty client list
ShapesSmall(x, y, w) == { << <<x, y>>, <<y, x>> >>, << <<w, y>>, <<x, y>> >>, << <<x>>, <<y>> >> }
CipherShapes(x, y) == { << <<x, "g">>, <<"g", x>> >>,    \* non-AEAD wins
                        << <<"g", x>>, <<x, "g">> >>,    \* AEAD wins
                        << <<"g2", y>>, <<"g2">> >> }    \* AEAD only
MenuWhole == [s \in Slots |->
   CASE s = "kex" -> ShapesSmall("k1", "k2", "k9")
     [] s = "hostkey" -> ShapesSmall("h1", "h2", "h9")
     [] s = "cipherCS" -> CipherShapes("c1", "c2")
     [] s = "cipherSC" -> CipherShapes("c3", "c4")
     [] s = "macCS" -> ShapesSmall("m1", "m2", "m9")
     [] s = "macSC" -> ShapesSmall("m3", "m4", "m9")
     [] s = "compCS" -> ShapesSmall("none", "zlib", "z9")
     [] s = "compSC" -> ShapesSmall("none", "zlib", "z9")]
MenuWholeBig == [s \in Slots |->
   CASE s = "kex" -> Shapes("k1", "k2", "k9")
     [] s = "hostkey" -> Shapes("h1", "h2", "h9")
     [] s = "cipherCS" -> CipherShapes("c1", "c2") \cup {<< <<"c1">>, <<"c2">> >>}
     [] s = "cipherSC" -> CipherShapes("c3", "c4") \cup {<< <<"c3">>, <<"c4">> >>}
     [] s = "macCS" -> Shapes("m1", "m2", "m9")
     [] s = "macSC" -> Shapes("m3", "m4", "m9")
     [] s = "compCS" -> ShapesSmall("none", "zlib", "z9")
     [] s = "compSC" -> ShapesSmall("none", "zlib", "z9")]

\* ---- config 3: end-to-end menu. Only what a real Config can express: one cipher list and one MAC list for both
\* directions (the generator keeps CS = SC), no empty lists (empty means "defaults"), compression always "none".
E2EShapes(x, y, w) == { << <<x>>, <<x>> >>, << <<x, y>>, <<y, x>> >>, << <<w, y>>, <<x, y>> >>, << <<y, w>>, <<x, y>> >>, << <<x>>, <<y>> >> }
E2ECipher == { << <<"c1", "g">>, <<"g", "c1">> >>, << <<"g", "c1">>, <<"c1", "g">> >>, << <<"g2", "c2">>, <<"g2">> >>,
               << <<"c1">>, <<"c2", "c1">> >>, << <<"c1">>, <<"c2">> >> }
MenuE2E == [s \in Slots |->
   CASE s = "kex" -> E2EShapes("k1", "k2", "k9")
     [] s = "hostkey" -> E2EShapes("h1", "h2", "h9")
     [] s \in {"cipherCS", "cipherSC"} -> E2ECipher
     [] s \in {"macCS", "macSC"} -> E2EShapes("m1", "m2", "m9")
     [] OTHER -> {<< <<"none">>, <<"none">> >>}]
SameDirs == ci["cipherCS"] = ci["cipherSC"] /\ si["cipherCS"] = si["cipherSC"] /\ ci["macCS"] = ci["macSC"] /\ si["macCS"] = si["macSC"]
EmitE2E == (Done /\ SameDirs) => PrintT("TRACE " \o ToJson([ci |-> ci, si |-> si, c |-> resC, s |-> resS]))

\* ---- generator: print every completed negotiation as one JSON line (binding R)
Emit == Done => PrintT("TRACE " \o ToJson([ci |-> ci, si |-> si, c |-> resC, s |-> resS]))
=============================================================================
