--------------------------- MODULE X25519Wrap_MC ---------------------------
EXTENDS X25519Wrap, Json
MCU == {"0", "1", "pm1", "u8a", "u8b", "9", "2", "18", "r1", "r2"}
MCLow == {"0", "1", "pm1", "u8a", "u8b"}
MCSmall == {"0", "1", "9", "2", "18"}
MCScalars == {"s1", "s2", "s1low", "s1hi", "s1b254", "zero", "ones"}
MCSame == {"s1low", "s1hi", "s1b254"}
Apis == {"X25519", "ScalarMult", "ScalarBaseMult"}

VARIABLE gcase
GInit == dst = 0 /\ res = 0 /\ call = 0 /\ gcase \in {Predict(a, s, e) : a \in {"X25519", "ScalarMult"}, s \in ScalarClasses, e \in ClassEnc}
                     \cup {Predict("ScalarBaseMult", s, [u |-> "9", plusP |-> FALSE, top |-> FALSE]) : s \in ScalarClasses}
GSpec == GInit /\ [][UNCHANGED <<gcase, vars>>]_<<gcase, vars>>
EmitG == PrintT("TRACE " \o ToJson(gcase))
\* the class table agrees with the toy algebra's verdict: error iff low order, base point never errs
TableSane == /\ (gcase.err <=> gcase.u \in LowClasses)
             /\ gcase.api = "ScalarBaseMult" => ~gcase.err
=============================================================================
