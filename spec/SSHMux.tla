-------------------------------- MODULE SSHMux --------------------------------
(* Connection-protocol robustness and reply matching of the SSH mux (property C36).

   Models golang.org/x/crypto/ssh  mux.go / channel.go:
     mux.onePacket / handleChannelOpen / handleGlobalPacket / handleUnknownChannelPacket,
     channel.handlePacket (+ responseMessageReceived, handleData's checks, window.add overflow),
     mux.loop's shutdown (dropAll, ch.close, closing incomingChannels / incomingRequests /
     globalResponses), chanList.add / remove (lowest free slot, slots reused),
     mux.SendRequest / channel.SendRequest (mutex + pending gate + drain + wait),
     mux.openChannel, channel.Accept / Reject / Close, Request.Reply.

   Big-step semantics: one action = one event (a packet the peer injects, or a call the local
   application starts) followed by everything the mux and the waiting callers do until the
   connection is quiescent again.  That is exactly what the replay harness observes (it injects one
   event and waits, inside a testing/synctest bubble, until every goroutine is durably blocked), so
   each step has a deterministic observable: the packets the mux wrote (`out`), the calls that
   returned and their result class (`done`), and whether the loop has exited (`dead`).

   The application modelled (and played by the harness): services both request streams and
   answers every want-reply request with failure; holds incoming channels until an explicit
   Accept / Reject event; starts at most one want-reply request per gate at a time (a second one
   would wait on the gate's mutex, which is not a quiescent state).

   RejectChecksSlot = FALSE is the code as it is: channel.Reject frees table slot ch.localId even
   when the peer already closed that channel and the slot was reused by a younger channel.
   TRUE is the repaired design (free the slot only if it still holds this channel). *)
EXTENDS Integers, Sequences, FiniteSets, TLC

CONSTANTS MaxPeer,            \* peer packets per history
          MaxLocal,           \* local calls per history
          MaxObj,             \* channel objects ever created per history
          Configs,            \* initial configurations: subset of {"empty", "in", "out", "both", "reopen"}
          RejectChecksSlot,   \* BOOLEAN, see above
          Lite,               \* BOOLEAN: reduced peer alphabet (ids 0..1, one malformed variant per kind) for deeper histories
          Hold,               \* BOOLEAN: small-step want-reply requests: "request begun, write held by the transport" / "write
                              \*   returned" with peer replies in between; restricts both alphabets to the request/reply family
          Burst,              \* BOOLEAN: peer "bursts": 2..3 packets already queued on the transport, all handled by the read loop
                              \*   before any local goroutine (opener, waiter) runs; restricts the alphabets to the open/response family
          DecidedInLoop,      \* BOOLEAN: TRUE = responseMessageReceived (read loop) sets decided (the code);
                              \*   FALSE = the goroutine in OpenChannel sets it after waking up (M_dup must reject this design)
          DrainAll            \* BOOLEAN: TRUE = SendRequest discards EVERY buffered reply before a new request (the code);
                              \*   FALSE = discards at most one (a plausible simplification; M1 must reject it)

Slots == 0 .. 2                                  \* channel ids the peer addresses (table never grows beyond 3 here)

VARIABLES S,      \* the whole state as one record (functional big-step style)
          hist    \* history of steps (generator only; hidden from the model checker by VIEW)

-----------------------------------------------------------------------------
(* channel objects *)
NewObj(lid, dir, rid, rwin) ==
  [lid |-> lid, dir |-> dir, decided |-> FALSE, rid |-> rid, rwin |-> rwin,
   closed |-> FALSE,      \* channel.close() ran: msg / incomingRequests closed, buffers at EOF, writers released
   sentClose |-> FALSE, held |-> FALSE,   \* held: the application owns it as a Channel
   inq |-> dir = "in",    \* waiting in the application's list of undecided NewChannels
   reqq |-> <<>>,         \* incoming channel requests not yet seen by the application (want-reply flags)
   opener |-> 0, waiter |-> 0,            \* call blocked in openChannel / SendRequest(wantReply) on ch.msg
   msgq |-> <<>>,         \* replies buffered in ch.msg: [v |-> verdict, ep |-> request number current when it arrived]
   reqno |-> 0,           \* want-reply requests begun on this channel so far
   hold |-> FALSE,        \* the pending request's writePacket has not returned yet (transport stalled, e.g. key exchange)
   eof |-> FALSE]

Pkt(t, a, b) == [t |-> t, a |-> a, b |-> b]
Ev(k, id, v, x) == [k |-> k, id |-> id, v |-> v, x |-> x, b |-> <<>>]
BurstEv(es) == [k |-> "burst", id |-> 0, v |-> "", x |-> 0, b |-> es]
Sub(k, id, v, x) == [k |-> k, id |-> id, v |-> v, x |-> x]          \* one packet of a burst

EmptyS == [tab |-> [i \in Slots |-> 0], obj |-> <<>>, calls |-> <<>>, gwait |-> 0, dead |-> FALSE,
           out |-> <<>>, done |-> {}, last |-> Ev("init", 0, "empty", 0), np |-> 0, nl |-> 0,
           stale |-> FALSE, lost |-> {}, known |-> FALSE, cfg |-> "empty",
           gq |-> <<>>, greqno |-> 0, ghold |-> FALSE,   \* globalResponses (capacity 1), global request number, held write
           bad |-> FALSE,
           dup |-> FALSE]      \* ghost: the read loop saw a second confirm / failure for one locally opened channel                                 \* ghost: a reply was handed to a request begun after it arrived

HasFree(s) == \E i \in Slots : s.tab[i] = 0
FreeSlot(s) == CHOOSE i \in Slots : s.tab[i] = 0 /\ \A j \in Slots : j < i => s.tab[j] # 0
At(s, id) == s.tab[id]                             \* object in slot id, 0 = none (unknown channel)
NObj(s) == Len(s.obj)
Resident(s) == {o \in 1 .. NObj(s) : \E i \in Slots : s.tab[i] = o}

Begin(s, e) == [s EXCEPT !.out = <<>>, !.done = {}, !.last = e]
Emit(s, p) == [s EXCEPT !.out = Append(@, p)]
SetObj(s, o, r) == [s EXCEPT !.obj[o] = r]
Finish(s, c, res) ==                               \* call c returns with result class res
  IF c = 0 THEN s
  ELSE [s EXCEPT !.calls[c] = [@ EXCEPT !.st = "done", !.res = res], !.done = @ \cup {<<c, res>>}]

\* window.add on the abstraction z(ero) / s(mall) / m(ax): result, or "ovf"
WinAdd(w, a) == IF a = "zero" THEN w
                ELSE IF a = "s" THEN (IF w = "m" THEN "ovf" ELSE IF w = "z" THEN "s" ELSE "s")
                ELSE (IF w = "z" THEN "m" ELSE "ovf")

\* the application starts servicing the requests of a channel it now holds: replies failure to
\* every buffered want-reply request (Request.Reply -> ackRequest -> EOF without a packet after close)
RECURSIVE FlushReqs(_, _, _)
FlushReqs(s, o, q) ==
  IF q = <<>> THEN SetObj(s, o, [s.obj[o] EXCEPT !.reqq = <<>>])
  ELSE FlushReqs(IF Head(q) /\ ~s.obj[o].sentClose THEN Emit(s, Pkt("chanfail", s.obj[o].rid, 0)) ELSE s, o, Tail(q))

\* mux.loop leaves its for-loop: dropAll + close every resident channel, close the streams, wake everybody
Die(s) ==
  LET res == Resident(s)
      wake == ({s.obj[o].opener : o \in res} \cup {s.obj[o].waiter : o \in res} \cup {s.gwait}) \ {0}
  IN [s EXCEPT
        !.obj = [o \in 1 .. NObj(s) |->
                   IF o \in res THEN [s.obj[o] EXCEPT !.closed = TRUE, !.sentClose = TRUE, !.opener = 0, !.waiter = 0, !.msgq = <<>>]
                   ELSE s.obj[o]],
        !.tab = [i \in Slots |-> 0], !.dead = TRUE, !.gwait = 0, !.gq = <<>>,
        !.calls = [c \in 1 .. Len(s.calls) |-> IF c \in wake THEN [s.calls[c] EXCEPT !.st = "done", !.res = "err"] ELSE s.calls[c]],
        !.done = @ \cup {<<c, "err">> : c \in wake}]

-----------------------------------------------------------------------------
(* peer packets; s is the state after Begin *)

POpen(s, v) ==
  IF v = "short" THEN Die(s)                                   \* Unmarshal error
  ELSE IF v = "badmax" THEN Emit(s, Pkt("openfail", 100 + NObj(s) + 1, 0))
  ELSE LET o == NObj(s) + 1
           lid == FreeSlot(s) IN
       [s EXCEPT !.obj = Append(@, NewObj(lid, "in", 100 + o, "s")), !.tab[lid] = o]

PConfirm(s, id, v) ==
  LET o == At(s, id) IN
  IF o = 0 THEN Die(s)                                          \* "invalid channel"
  ELSE IF s.obj[o].dir = "in" \/ s.obj[o].decided THEN Die(s)   \* responseMessageReceived
  ELSE IF v = "badmax" THEN Die(SetObj(s, o, [s.obj[o] EXCEPT !.decided = TRUE]))
  ELSE LET w == WinAdd(s.obj[o].rwin, "s")
           s1 == SetObj(s, o, [s.obj[o] EXCEPT !.decided = TRUE, !.rid = 200 + o, !.held = TRUE, !.opener = 0,
                                               !.rwin = IF w = "ovf" THEN @ ELSE w])     \* add's result ignored here
           s2 == Finish(s1, s.obj[o].opener, "opened") IN
       FlushReqs(s2, o, s.obj[o].reqq)

PFail(s, id) ==
  LET o == At(s, id) IN
  IF o = 0 THEN Die(s)
  ELSE IF s.obj[o].dir = "in" \/ s.obj[o].decided THEN Die(s)
  ELSE Finish([SetObj(s, o, [s.obj[o] EXCEPT !.decided = TRUE, !.opener = 0]) EXCEPT !.tab[id] = 0],
              s.obj[o].opener, "rejected")

PData(s, id, v) ==                                              \* channel data / extended data
  IF At(s, id) = 0 THEN Die(s)
  ELSE IF v \in {"ok", "zero", "ext1", "ext2"} THEN s           \* buffered (or discarded and credited); no packet
  ELSE Die(s)                                                   \* "big", "mismatch", "short"

PEof(s, id) ==
  LET o == At(s, id) IN
  IF o = 0 THEN Die(s) ELSE SetObj(s, o, [s.obj[o] EXCEPT !.eof = TRUE])

PClose(s, id) ==
  LET o == At(s, id) IN
  IF o = 0 THEN Die(s)
  ELSE LET r == s.obj[o]
           s1 == IF r.sentClose THEN s ELSE Emit(s, Pkt("close", IF r.rid < 0 THEN 0 ELSE r.rid, 0))
           s2 == [SetObj(s1, o, [r EXCEPT !.closed = TRUE, !.sentClose = TRUE, !.opener = 0, !.waiter = 0, !.msgq = <<>>]) EXCEPT !.tab[id] = 0]
       IN Finish(Finish(s2, r.opener, "err"), r.waiter, "err")

PAdj(s, id, v) ==
  LET o == At(s, id) IN
  IF o = 0 \/ v = "short" THEN Die(s)
  ELSE LET w == WinAdd(s.obj[o].rwin, v) IN
       IF w = "ovf" THEN Die(s) ELSE SetObj(s, o, [s.obj[o] EXCEPT !.rwin = w])

PCReq(s, id, v) ==
  LET o == At(s, id) IN
  IF v = "short" THEN Die(s)
  ELSE IF o = 0 THEN (IF v = "wr" THEN Emit(s, Pkt("chanfail", id, 0)) ELSE s)     \* unknown channel: failure or nothing
  ELSE IF s.obj[o].held
         THEN (IF v = "wr" /\ ~s.obj[o].sentClose THEN Emit(s, Pkt("chanfail", s.obj[o].rid, 0)) ELSE s)
         ELSE SetObj(s, o, [s.obj[o] EXCEPT !.reqq = Append(@, v = "wr")])

Verdict(b) == IF b THEN "true" ELSE "false"
ChanMsgCap == 16                                                 \* chanSize

PCReply(s, id, ok) ==                                            \* channel success / failure
  LET o == At(s, id) IN
  IF o = 0 THEN Die(s)
  ELSE IF s.obj[o].waiter = 0 THEN s                             \* gate closed: dropped
  ELSE IF s.obj[o].hold                                          \* gate open, caller still inside writePacket:
         THEN IF Len(s.obj[o].msgq) < ChanMsgCap                 \* non-blocking send into ch.msg
                THEN SetObj(s, o, [s.obj[o] EXCEPT !.msgq = Append(@, [v |-> ok, ep |-> s.obj[o].reqno, t |-> "reply"])])
                ELSE s
  ELSE Finish(SetObj(s, o, [s.obj[o] EXCEPT !.waiter = 0]), s.obj[o].waiter, Verdict(ok))   \* caller is receiving

PGReq(s, v) == IF v = "wr" THEN Emit(s, Pkt("gfail", 0, 0)) ELSE s
PGReply(s, ok) == IF s.gwait = 0 THEN s
                  ELSE IF s.ghold THEN (IF Len(s.gq) < 1 THEN [s EXCEPT !.gq = Append(@, [v |-> ok, ep |-> s.greqno, t |-> "reply"])] ELSE s)
                  ELSE Finish([s EXCEPT !.gwait = 0], s.gwait, Verdict(ok))
PPing(s, v) == IF v = "short" THEN Die(s) ELSE Emit(s, Pkt("pong", 0, 0))

FullPeerEvents(s) ==
  {Ev("open", 0, v, 100 + NObj(s) + 1) : v \in IF HasFree(s) /\ NObj(s) < MaxObj THEN {"ok", "badmax", "short"} ELSE {"badmax", "short"}}
  \cup {Ev("confirm", id, v, 200 + At(s, id)) : id \in Slots, v \in {"ok", "badmax"}}
  \cup {Ev(k, id, "", 0) : k \in {"fail", "eof", "close", "csucc", "cfail", "unknown"}, id \in Slots}
  \cup {Ev("data", id, v, 0) : id \in Slots, v \in {"ok", "zero", "ext1", "ext2", "big", "mismatch", "short"}}
  \cup {Ev("adj", id, v, 0) : id \in Slots, v \in {"s", "max", "zero", "short"}}
  \cup {Ev("creq", id, v, 0) : id \in Slots, v \in {"wr", "nowr", "short"}}
  \cup {Ev("greq", 0, v, 0) : v \in {"wr", "nowr"}}
  \cup {Ev(k, 0, "", 0) : k \in {"gsucc", "gfail", "tiny", "peereof"}}
  \cup {Ev("ping", 0, v, 0) : v \in {"ok", "short"}}

LiteIds == {0, 1}
LitePeerEvents(s) ==
  {Ev("open", 0, v, 100 + NObj(s) + 1) : v \in IF HasFree(s) /\ NObj(s) < MaxObj THEN {"ok", "badmax"} ELSE {"badmax"}}
  \cup {Ev("confirm", id, "ok", 200 + At(s, id)) : id \in LiteIds}
  \cup {Ev(k, id, "", 0) : k \in {"fail", "eof", "close", "csucc", "cfail"}, id \in LiteIds}
  \cup {Ev("data", id, v, 0) : id \in LiteIds, v \in {"ok", "ext2", "big"}}
  \cup {Ev("adj", id, v, 0) : id \in LiteIds, v \in {"s", "max"}}
  \cup {Ev("creq", id, v, 0) : id \in LiteIds, v \in {"wr", "nowr"}}
  \cup {Ev("greq", 0, "wr", 0), Ev("gsucc", 0, "", 0), Ev("gfail", 0, "", 0), Ev("ping", 0, "ok", 0), Ev("peereof", 0, "", 0)}

-----------------------------------------------------------------------------
(* Bursts: the read loop handles every packet of the burst before any other goroutine runs.  The
   loop's own effects (table, decided, remote id / window, ch.msg, packets it writes itself) happen
   per packet; what the woken goroutines do (OpenChannel returning) is settled afterwards. *)

\* loop exit during a burst: an opener whose answer is already buffered in ch.msg still reads it
\* (a closed Go channel delivers its buffered values first)
BDie(s) ==
  LET keep == {o \in Resident(s) : s.obj[o].opener # 0 /\ s.obj[o].msgq # <<>>}
      d == Die([s EXCEPT !.obj = [o \in 1 .. NObj(s) |-> IF o \in keep THEN [s.obj[o] EXCEPT !.opener = 0] ELSE s.obj[o]]])
  IN [d EXCEPT !.obj = [o \in 1 .. NObj(s) |->
                          IF o \in keep THEN [d.obj[o] EXCEPT !.opener = s.obj[o].opener, !.msgq = s.obj[o].msgq] ELSE d.obj[o]]]

BResponse(s, e, isConfirm) ==                       \* open confirmation / failure handled by the loop only
  LET o == At(s, e.id) IN
  IF o = 0 THEN BDie(s)
  ELSE IF s.obj[o].dir = "in" \/ s.obj[o].decided THEN BDie(s)
  ELSE LET r == s.obj[o]
           w == WinAdd(r.rwin, "s") IN
       IF isConfirm
         THEN SetObj(s, o, [r EXCEPT !.decided = DecidedInLoop, !.rid = e.x,
                                     !.rwin = IF w = "ovf" THEN @ ELSE w,
                                     !.msgq = Append(@, [v |-> TRUE, ep |-> 0, t |-> "confirm"])])
         ELSE [SetObj(s, o, [r EXCEPT !.decided = DecidedInLoop, !.msgq = Append(@, [v |-> FALSE, ep |-> 0, t |-> "fail"])])
                 EXCEPT !.tab[e.id] = 0]

BLoop(s, e) ==
  IF s.dead THEN s                                  \* the loop has exited: the packet is never read
  ELSE CASE e.k = "confirm" -> BResponse(s, e, TRUE)
         [] e.k = "fail" -> BResponse(s, e, FALSE)
         [] e.k = "data" -> IF At(s, e.id) = 0 THEN BDie(s) ELSE s
         [] e.k = "eof" -> IF At(s, e.id) = 0 THEN BDie(s) ELSE SetObj(s, At(s, e.id), [s.obj[At(s, e.id)] EXCEPT !.eof = TRUE])
         [] e.k = "ping" -> Emit(s, Pkt("pong", 0, 0))

RECURSIVE BRun(_, _, _)
BRun(s, es, answered) ==                            \* answered: locally opened channels (objects) already answered in this burst
  IF es = <<>> THEN s
  ELSE LET e == Head(es)
           isResp == e.k \in {"confirm", "fail"}
           o == IF isResp /\ ~s.dead THEN At(s, e.id) ELSE 0
           second == isResp /\ ~s.dead /\ (e.id \in {x[1] : x \in answered})
           s1 == BLoop(IF second THEN [s EXCEPT !.dup = TRUE] ELSE s, e)
       IN BRun(s1, Tail(es), IF isResp /\ o # 0 /\ s.obj[o].dir = "out" THEN answered \cup {<<e.id, o>>} ELSE answered)

\* the goroutines blocked in OpenChannel run: each takes the first message staged for it
RECURSIVE Settle(_, _)
Settle(s, o) ==
  IF o > NObj(s) THEN s
  ELSE LET r == s.obj[o] IN
       IF r.opener = 0 \/ r.msgq = <<>> THEN Settle(s, o + 1)
       ELSE LET m == Head(r.msgq)
                s1 == SetObj(s, o, [r EXCEPT !.opener = 0, !.msgq = Tail(@), !.decided = TRUE, !.held = (m.t = "confirm")])
                s2 == Finish(s1, r.opener, IF m.t = "confirm" THEN "opened" ELSE "rejected") IN
            Settle(IF m.t = "confirm" THEN FlushReqs(s2, o, r.reqq) ELSE s2, o + 1)

PBurst(s, es) == Settle(BRun(s, es, {}), 1)

Resp(id, s) == {Sub("confirm", id, "ok", 200 + At(s, id)), Sub("fail", id, "", 0)}
Filler(id) == {Sub("data", id, "ok", 0), Sub("eof", id, "", 0), Sub("ping", 0, "ok", 0)}
BurstEvents(s) ==
  {BurstEv(<<a, b>>) : a \in UNION {Resp(i, s) : i \in {0, 1}}, b \in UNION {Resp(i, s) \cup Filler(i) : i \in {0, 1}}}
  \cup {BurstEv(<<a, b>>) : a \in UNION {Filler(i) : i \in {0, 1}}, b \in UNION {Resp(i, s) : i \in {0, 1}}}
  \cup UNION {{BurstEv(<<a, x, b>>) : a \in Resp(i, s), x \in Filler(i), b \in Resp(i, s)} : i \in {0, 1}}
  \cup {BurstEv(<<Sub("confirm", i, "ok", 200 + At(s, i)), Sub("data", i, "ok", 0), Sub("data", i, "ok", 0)>>) : i \in {0, 1}}
BurstBaseEvents(s) ==
  {Ev("confirm", id, "ok", 200 + At(s, id)) : id \in {0, 1}} \cup {Ev("fail", id, "", 0) : id \in {0, 1}}
  \cup {Ev("data", id, "ok", 0) : id \in {0, 1}}

Holding(s) == s.ghold \/ \E o \in 1 .. NObj(s) : s.obj[o].hold
HeldIds(s) == {i \in Slots : s.tab[i] # 0 /\ s.obj[s.tab[i]].hold}
\* while a write is held only packets that make neither the loop nor the application write on the same
\* channel are injected (they would queue behind the held write on a mutex, which is not a quiescent state)
HoldPeerEvents(s) ==
  {Ev(k, id, "", 0) : k \in {"csucc", "cfail"}, id \in HeldIds(s)}
  \cup {Ev("gsucc", 0, "", 0), Ev("gfail", 0, "", 0), Ev("ping", 0, "ok", 0)}
ReplyPeerEvents(s) ==
  {Ev(k, id, "", 0) : k \in {"csucc", "cfail"}, id \in LiteIds}
  \cup {Ev("gsucc", 0, "", 0), Ev("gfail", 0, "", 0), Ev("ping", 0, "ok", 0)}

PeerEvents(s) == IF Holding(s) THEN HoldPeerEvents(s)
                 ELSE IF Burst THEN BurstEvents(s) \cup BurstBaseEvents(s)
                 ELSE IF Hold THEN ReplyPeerEvents(s)
                 ELSE IF Lite THEN LitePeerEvents(s) ELSE FullPeerEvents(s)

PeerStep(s0, e) ==
  LET s == [Begin(s0, e) EXCEPT !.np = @ + 1, !.known = (s0.tab[e.id] # 0)] IN
  CASE e.k = "open" -> POpen(s, e.v)
    [] e.k = "confirm" -> PConfirm(s, e.id, e.v)
    [] e.k = "fail" -> PFail(s, e.id)
    [] e.k = "data" -> PData(s, e.id, e.v)
    [] e.k = "eof" -> PEof(s, e.id)
    [] e.k = "close" -> PClose(s, e.id)
    [] e.k = "adj" -> PAdj(s, e.id, e.v)
    [] e.k = "creq" -> PCReq(s, e.id, e.v)
    [] e.k = "csucc" -> PCReply(s, e.id, TRUE)
    [] e.k = "cfail" -> PCReply(s, e.id, FALSE)
    [] e.k = "greq" -> PGReq(s, e.v)
    [] e.k = "gsucc" -> PGReply(s, TRUE)
    [] e.k = "gfail" -> PGReply(s, FALSE)
    [] e.k = "ping" -> PPing(s, e.v)
    [] e.k \in {"unknown", "tiny", "peereof"} -> Die(s)
    [] e.k = "burst" -> PBurst(s, e.b)

-----------------------------------------------------------------------------
(* local calls; the call gets the next index in s.calls *)

NewCall(s, e) == [s EXCEPT !.calls = Append(@, [k |-> e.k, o |-> e.id, st |-> "wait", res |-> ""])]
Me(s) == Len(s.calls)

LOpen(s) ==                                                      \* mux.OpenChannel
  LET o == NObj(s) + 1
      lid == FreeSlot(s)
      s1 == [s EXCEPT !.obj = Append(@, [NewObj(lid, "out", -1, "z") EXCEPT !.opener = Me(s)]), !.tab[lid] = o] IN
  IF s.dead THEN Finish(SetObj(s1, o, [s1.obj[o] EXCEPT !.opener = 0]), Me(s), "err")   \* write fails (the entry stays in the dead table)
  ELSE Emit(s1, Pkt("open", lid, 0))

\* the drain at the start of a want-reply request
Drained(q) == IF DrainAll \/ q = <<>> THEN <<>> ELSE Tail(q)

\* the caller of object o's pending request reaches `<-ch.msg`: it takes the oldest buffered reply, if any
CTake(s, o) ==
  LET r == s.obj[o] IN
  IF r.msgq = <<>> THEN s
  ELSE [Finish(SetObj(s, o, [r EXCEPT !.waiter = 0, !.msgq = Tail(@)]), r.waiter, Verdict(Head(r.msgq).v))
          EXCEPT !.bad = @ \/ Head(r.msgq).ep # r.reqno]
GTake(s) ==
  IF s.gq = <<>> THEN s
  ELSE [Finish([s EXCEPT !.gwait = 0, !.gq = Tail(@)], s.gwait, Verdict(Head(s.gq).v))
          EXCEPT !.bad = @ \/ Head(s.gq).ep # s.greqno]

LGReq(s, v, held) ==                                             \* mux.SendRequest
  IF s.dead THEN Finish(s, Me(s), "err")
  ELSE IF v # "wr" THEN Finish(Emit(s, Pkt("greq", 0, 0)), Me(s), "ok")
  ELSE LET s1 == [s EXCEPT !.gwait = Me(s), !.greqno = @ + 1, !.gq = <<>>, !.ghold = held] IN   \* gate, drain (capacity 1)
       IF held THEN s1 ELSE GTake(Emit(s1, Pkt("greq", 0, 1)))

LCReq(s, o, v, held) ==                                          \* Channel.SendRequest on a held channel
  IF s.obj[o].sentClose \/ s.dead THEN Finish(s, Me(s), "err")   \* writePacket refuses after close: io.EOF
  ELSE IF v # "wr" THEN Finish(Emit(s, Pkt("creq", s.obj[o].rid, 0)), Me(s), "ok")
  ELSE LET s1 == SetObj(s, o, [s.obj[o] EXCEPT !.waiter = Me(s), !.reqno = @ + 1, !.msgq = Drained(@), !.hold = held]) IN
       IF held THEN s1 ELSE CTake(Emit(s1, Pkt("creq", s.obj[o].rid, 1)), o)

\* the transport lets the held write return: the request packet appears and the caller starts receiving
Release(s) ==
  IF s.ghold THEN GTake(Emit([s EXCEPT !.ghold = FALSE], Pkt("greq", 0, 1)))
  ELSE LET o == CHOOSE x \in 1 .. NObj(s) : s.obj[x].hold IN
       CTake(Emit(SetObj(s, o, [s.obj[o] EXCEPT !.hold = FALSE]), Pkt("creq", s.obj[o].rid, 1)), o)

LAccept(s, o) ==
  LET r == s.obj[o] IN
  IF r.sentClose \/ s.dead THEN Finish(SetObj(s, o, [r EXCEPT !.decided = TRUE, !.inq = FALSE]), Me(s), "err")
  ELSE LET s1 == Emit(SetObj(s, o, [r EXCEPT !.decided = TRUE, !.inq = FALSE, !.held = TRUE]), Pkt("confirm", r.rid, r.lid)) IN
       FlushReqs(Finish(s1, Me(s), "ok"), o, r.reqq)

LReject(s, o) ==
  LET r == s.obj[o]
      s1 == SetObj(s, o, [r EXCEPT !.decided = TRUE, !.inq = FALSE])
      s2 == IF r.sentClose \/ s.dead THEN Finish(s1, Me(s), "err") ELSE Finish(Emit(s1, Pkt("openfail", r.rid, 0)), Me(s), "ok")
      cur == s.tab[r.lid]
      staleHit == cur # 0 /\ cur # o                              \* the slot was reused by a younger channel
  IN IF staleHit /\ RejectChecksSlot THEN [s2 EXCEPT !.stale = TRUE]
     ELSE [s2 EXCEPT !.tab[r.lid] = 0, !.stale = @ \/ staleHit,
                     !.lost = IF staleHit THEN @ \cup {cur} ELSE @]   \* ghost: channels that fell out of the table

LClose(s, o) ==
  LET r == s.obj[o] IN
  IF r.sentClose THEN Finish(s, Me(s), "err")
  ELSE IF s.dead THEN Finish(SetObj(s, o, [r EXCEPT !.sentClose = TRUE]), Me(s), "err")
  ELSE Finish(Emit(SetObj(s, o, [r EXCEPT !.sentClose = TRUE]), Pkt("close", r.rid, 0)), Me(s), "ok")

RequestEvents(s) ==
  {Ev("lgreq", 0, v, 0) : v \in IF s.gwait = 0 THEN {"wr", "nowr"} ELSE {"nowr"}}
  \cup {Ev("lcreq", o, v, 0) : o \in {x \in 1 .. NObj(s) : s.obj[x].held},
                              v \in {"wr", "nowr"}}
HoldEvents(s) ==                                   \* want-reply requests whose write the transport holds
  {Ev("lgreqh", 0, "wr", 0) : x \in IF s.gwait = 0 THEN {1} ELSE {}}
  \cup {Ev("lcreqh", o, "wr", 0) : o \in {x \in 1 .. NObj(s) : s.obj[x].held}}
LocalEvents(s) ==
  IF Holding(s) THEN {Ev("release", 0, "", 0)}
  ELSE IF Burst THEN {Ev("opench", 0, "", 0) : x \in IF HasFree(s) /\ NObj(s) < MaxObj THEN {1} ELSE {}}
  ELSE IF Hold THEN RequestEvents(s) \cup HoldEvents(s)
  ELSE
  {Ev("opench", 0, "", 0) : x \in IF HasFree(s) /\ NObj(s) < MaxObj THEN {1} ELSE {}}
  \cup RequestEvents(s)
  \cup {Ev(k, o, "", 0) : k \in {"accept", "reject"}, o \in {x \in 1 .. NObj(s) : s.obj[x].inq}}
  \cup {Ev("closech", o, "", 0) : o \in {x \in 1 .. NObj(s) : s.obj[x].held}}

LocalOK(s, e) == (e.k \in {"lcreq", "lcreqh"} /\ e.v = "wr") => s.obj[e.id].waiter = 0   \* one want-reply request per gate

LocalStep(s0, e) ==
  IF e.k = "release" THEN Release([Begin(s0, e) EXCEPT !.nl = @ + 1])       \* not a call of its own
  ELSE
  LET s == NewCall([Begin(s0, e) EXCEPT !.nl = @ + 1], e) IN
  CASE e.k = "opench" -> LOpen(s)
    [] e.k = "lgreq" -> LGReq(s, e.v, FALSE)
    [] e.k = "lcreq" -> LCReq(s, e.id, e.v, FALSE)
    [] e.k = "lgreqh" -> LGReq(s, e.v, TRUE)
    [] e.k = "lcreqh" -> LCReq(s, e.id, e.v, TRUE)
    [] e.k = "accept" -> LAccept(s, e.id)
    [] e.k = "reject" -> LReject(s, e.id)
    [] e.k = "closech" -> LClose(s, e.id)

-----------------------------------------------------------------------------
(* initial configurations: reached by the ordinary steps (the harness replays the same preamble) *)
Preamble(c) ==
  CASE c = "empty" -> <<>>
    [] c = "in" -> <<Ev("open", 0, "ok", 101), Ev("accept", 1, "", 0)>>
    [] c = "out" -> <<Ev("opench", 0, "", 0), Ev("confirm", 0, "ok", 201)>>
    [] c = "both" -> <<Ev("open", 0, "ok", 101), Ev("accept", 1, "", 0), Ev("opench", 0, "", 0), Ev("confirm", 1, "ok", 202)>>
    [] c = "reopen" -> <<Ev("open", 0, "ok", 101), Ev("close", 0, "", 0), Ev("open", 0, "ok", 102)>>   \* slot 0 reused while
                                                                  \* the application still has to decide the first NewChannel

IsLocal(e) == e.k \in {"opench", "lgreq", "lcreq", "lgreqh", "lcreqh", "release", "accept", "reject", "closech"}
RECURSIVE Run(_, _)
Run(s, es) == IF es = <<>> THEN s
              ELSE Run(IF IsLocal(Head(es)) THEN LocalStep(s, Head(es)) ELSE PeerStep(s, Head(es)), Tail(es))

StartOf(c) == [Run(EmptyS, Preamble(c)) EXCEPT !.np = 0, !.nl = 0, !.out = <<>>, !.done = {}, !.last = Ev("init", 0, c, 0), !.cfg = c]

Init == \E c \in Configs : S = StartOf(c) /\ hist = <<>>

Obs(s) == [ev |-> s.last, out |-> s.out, done |-> s.done, dead |-> s.dead]

Peer == /\ ~S.dead /\ S.np < MaxPeer
        /\ \E e \in PeerEvents(S) : S' = PeerStep(S, e) /\ hist' = Append(hist, Obs(S'))
Local == /\ S.nl < MaxLocal
         /\ \E e \in LocalEvents(S) : LocalOK(S, e) /\ S' = LocalStep(S, e) /\ hist' = Append(hist, Obs(S'))
Next == Peer \/ Local
Spec == Init /\ [][Next]_<<S, hist>>

View == S

-----------------------------------------------------------------------------
(* Properties.  M1..M4 of the design; all are invariants of the big-step state or of one step. *)

Calls == 1 .. Len(S.calls)
ReplyRes == {"true", "false"}

\* M1 a reply value reaches a caller only in the step in which a matching reply packet arrived, and
\*    only a caller whose want-reply request was pending before that packet.
\*    Finer grain (held writes): a reply that arrived while the caller's write was still held is handed over
\*    when that write returns ("release"); it is never handed to a request begun after it arrived (ghost bad),
\*    so a request can return a reply value neither in the step that begins it nor without a reply of its own.
M1 == /\ ~S.bad
      /\ \A d \in S.done : d[2] \in ReplyRes =>
        /\ S.calls[d[1]].k \in {"lgreq", "lcreq", "lgreqh", "lcreqh"}
        /\ \/ /\ S.last.k \in (IF S.calls[d[1]].k \in {"lgreq", "lgreqh"} THEN {"gsucc", "gfail"} ELSE {"csucc", "cfail"})
              /\ d[2] = (IF S.last.k \in {"gsucc", "csucc"} THEN "true" ELSE "false")
           \/ S.last.k = "release" /\ S.calls[d[1]].k \in {"lgreqh", "lcreqh"}
        /\ S.last.k \notin {"lgreq", "lcreq", "lgreqh", "lcreqh"}      \* never in the step that begins a request
\* while a gate is open everything buffered behind it arrived after the current request was begun
M1d == /\ \A o \in 1 .. NObj(S) : S.obj[o].waiter # 0 => \A i \in 1 .. Len(S.obj[o].msgq) : S.obj[o].msgq[i].ep = S.obj[o].reqno
       /\ S.gwait # 0 => \A i \in 1 .. Len(S.gq) : S.gq[i].ep = S.greqno
\* at most one caller per step gets a reply value, and never without a reply packet
M1b == Cardinality({d \in S.done : d[2] \in ReplyRes}) <= 1
\* no waiter is registered on a gate of a closed channel / dead mux (it would wait forever)
M1c == /\ S.dead => S.gwait = 0
       /\ \A o \in 1 .. NObj(S) : S.obj[o].closed => S.obj[o].waiter = 0 /\ S.obj[o].opener = 0

\* M2 packets for unknown channels: a want-reply channel request is answered with failure for that id and
\*    the connection lives; a request without want-reply is ignored; anything else ends the connection.
\*    (checked on the step just taken, using the table before the step = ghost in last.x is not needed:
\*     unknown <=> the step produced exactly that reaction)
ChanAddressed == {"confirm", "fail", "data", "eof", "close", "adj", "csucc", "cfail", "unknown"}
M2 == (~IsLocal(S.last) /\ ~S.known) =>
        /\ S.last.k \in ChanAddressed => S.dead /\ S.out = <<>>
        /\ (S.last.k = "creq" /\ S.last.v = "wr") => ~S.dead /\ S.out = <<Pkt("chanfail", S.last.id, 0)>>
        /\ (S.last.k = "creq" /\ S.last.v = "nowr") => ~S.dead /\ S.out = <<>>

\* M3 an open confirmation / failure is accepted only for an undecided outbound channel; the caller
\*    of OpenChannel gets exactly one answer
M3 == \A d \in S.done : d[2] \in {"opened", "rejected"} =>
        /\ S.calls[d[1]].k = "opench"
        /\ \/ S.last.k = (IF d[2] = "opened" THEN "confirm" ELSE "fail")
           \/ S.last.k = "burst" /\ \E i \in 1 .. Len(S.last.b) : S.last.b[i].k = (IF d[2] = "opened" THEN "confirm" ELSE "fail")
\* M_dup a second confirmation / failure for one locally opened channel ends the connection, whether or not the
\*    goroutine in OpenChannel has already observed the first one
M_dup == S.dup => S.dead

\* M4 once the loop has exited nothing is left open or waiting: every channel the application holds
\*    or could still hold is closed and no call is blocked.
M4 == S.dead =>
        /\ \A c \in Calls : S.calls[c].st = "done"
        /\ \A o \in 1 .. NObj(S) : (S.obj[o].held \/ S.obj[o].inq) => S.obj[o].closed
\* while alive, every channel the application holds is reachable through the table (or already closed)
M4b == ~S.dead => \A o \in 1 .. NObj(S) : (S.obj[o].held /\ ~S.obj[o].closed) => o \in Resident(S)

TypeOK == /\ S.np \in 0 .. MaxPeer /\ S.nl \in 0 .. MaxLocal
          /\ \A i \in Slots : S.tab[i] \in 0 .. NObj(S)
          /\ \A i, j \in Slots : (i # j /\ S.tab[i] # 0) => S.tab[i] # S.tab[j]
          /\ \A i \in Slots : S.tab[i] # 0 => S.obj[S.tab[i]].lid = i /\ ~S.obj[S.tab[i]].closed

\* what must be true after the harness finally closes the connection: used by the generator
Final(s) == IF s.dead THEN s
            ELSE LET b == Begin(s, Ev("peereof", 0, "", 0)) IN Die(IF Holding(b) THEN Release(b) ELSE b)
=============================================================================
