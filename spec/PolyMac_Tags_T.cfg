INIT Init
NEXT Next
CONSTANTS
  TagPairs <- TagPairsT
  TagMax = 130
  EdgeFull = TRUE
  CheckDef = TRUE
INVARIANTS Emit DefAgree
CHECK_DEADLOCK FALSE
