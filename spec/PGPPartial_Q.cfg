SPECIFICATION Spec
CONSTANTS
  Patterns <- PatternsQ
INVARIANTS RoundTrip WireWellFormed FramingRule Emit
CHECK_DEADLOCK FALSE
