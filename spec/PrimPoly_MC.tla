----------------------------- MODULE PrimPoly_MC -----------------------------
(***************************************************************************)
(* C04: model-checks the limb arithmetic of PrimPoly on scaled instances   *)
(* against TLC's native integers.  The operators of PrimPoly take the base *)
(* B = 2^W and the limb count NL as parameters; with W*NL = 10 the modulus *)
(* B^NL - 5 is 1019 and every product fits a native integer, so            *)
(*    ToInt(MulN(a, b))  = a * b                                           *)
(*    ToInt(AddN(a, b))  = a + b                                           *)
(*    ToInt(ModP(x))     = x % (B^NL - 5)                                  *)
(* are checked for all a < 2^11 (an accumulator plus a block exceeds the   *)
(* modulus, as in the real algorithm) and all b in RSet, for the limb      *)
(* shapes (W, NL) = (1, 10) - ten limbs, like the real 13-bit instance -,  *)
(* (2, 5) and (5, 2).  This is what makes PrimPoly "the mathematical       *)
(* definition": the only thing the real instance changes is W = 13.        *)
(***************************************************************************)
EXTENDS PrimPoly, TLC

CONSTANTS Shapes, ASet, RSet     \* Shapes: set of <<W, NL>> with W*NL = 10
VARIABLES ph, a, b, shape
W == shape[1]
NL == shape[2]
B == 2^W
P == B^NL - 5

Init == ph = 0 /\ a = 0 /\ b = 0 /\ shape \in Shapes
Next == \/ ph = 0 /\ ph' = 1 /\ a' \in ASet /\ b' = 0 /\ UNCHANGED shape
        \/ ph = 1 /\ ph' = 2 /\ a' = a /\ b' \in RSet /\ UNCHANGED shape
Spec == Init /\ [][Next]_<<ph, a, b, shape>>

LA == FromInt(a, B, NL + 1)
LB == FromInt(b, B, NL)
MulOK == ToInt(MulN(LA, LB, B), B) = a * b
AddOK == ToInt(AddN(LA, LB, B), B) = a + b
ModOK == /\ ToInt(ModP(MulN(LA, LB, B), B, NL), B) = (a * b) % P
         /\ Len(ModP(MulN(LA, LB, B), B, NL)) = NL
         /\ ToInt(ModP(LA, B, NL), B) = a % P
\* one Horner step: ((acc + blk) * r) mod p with acc, blk < 2^10 taken from a's halves
StepOK == LET acc == a % 1024  blk == (a * 7 + b) % 2048 IN
          ToInt(ModP(MulN(AddN(FromInt(acc, B, NL), FromInt(blk, B, NL + 1), B), LB, B), B, NL), B) = ((acc + blk) * b) % P

MC_RSet == (0..40) \cup {63, 64, 127, 128, 255, 256, 511, 512, 1000, 1014, 1018, 1019, 1020, 1023}
MC_RSetQ == {0, 1, 3, 255, 1018, 1023}
MC_Shapes == {<<1, 10>>, <<2, 5>>, <<5, 2>>}
MC_ASet == 0..2047
MC_ASetQ == (0..16) \cup (1010..1030) \cup (2040..2047)
\* published vectors beyond the one in PrimPoly (RFC 8439 2.5.2 via the literal form; appendix A.3 #1, #5-#9; accumulator at p, p-1, 2^130-1)
ASSUME Poly1305Def(RFCPolyKey, RFCPolyMsg) = RFCPolyTag
\* RFC 8439 appendix A.3 #1 (all zero), #5, #6, #7, #8, #9 (the reduction edge cases)
ASSUME Poly1305(Z16 \o Z16, [i \in 1..64 |-> 0]) = Z16
ASSUME Poly1305(<<2>> \o [i \in 1..31 |-> 0], FF16) = LowByte(3, 0)
ASSUME Poly1305(<<2>> \o [i \in 1..15 |-> 0] \o FF16, LowByte(2, 0)) = LowByte(3, 0)
ASSUME Poly1305(R1Key(0), FF16 \o LowByte(240, 255) \o LowByte(17, 0)) = LowByte(5, 0)
ASSUME Poly1305(R1Key(0), FF16 \o LowByte(251, 254) \o LowByte(1, 1)) = Z16
ASSUME Poly1305(<<2>> \o [i \in 1..31 |-> 0], LowByte(253, 255)) = LowByte(250, 255)
\* (2^130-1) mod p = 4 ; (2^130-5) mod p = 0  (three blocks with r = 1: 3*2^128 + m)
ASSUME Poly1305(R1Key(0), FF16 \o Z16 \o Z16) = LowByte(4, 0)
ASSUME Poly1305(R1Key(0), LowByte(251, 255) \o Z16 \o Z16) = Z16
ASSUME Poly1305(R1Key(0), LowByte(250, 255) \o Z16 \o Z16) = LowByte(250, 255)
=============================================================================
