---------------------------- MODULE ClearSign_MC ----------------------------
(* Bounded instance of ClearSign (C46) and the case generator for binding R: one line per closed writer,
   i.e. per plaintext over the alphabet up to MaxLen, with the model's predictions. *)
EXTENDS ClearSign, Json

Alpha6 == {97, 45, 32, 9, 13, 10}          \* a - space tab CR LF

Emit == Closed => PrintT("TRACE " \o ToJson([txt |-> txt, out |-> out, signed |-> hashed, plain |-> dPlain, bytes |-> dBytes]))
=============================================================================
