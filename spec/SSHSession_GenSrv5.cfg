SPECIFICATION GenSpec
CONSTANTS
  MaxSrv = 5
  MaxCli = 2
  ReqBuf = 16
  Cfgs <- AllCfgs
  Lite = "srv"
VIEW AbsView
CHECK_DEADLOCK FALSE
