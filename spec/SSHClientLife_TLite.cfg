SPECIFICATION Spec
CONSTANTS
  MaxPeer = 4
  MaxLocal = 3
  MaxDial = 2
  MaxGReq = 2
  MaxIn = 1
  MaxReg = 1
  Configs <- AllCfgs
  Alpha = "lite"
  Races = TRUE
  CloseLate = TRUE
INVARIANTS TypeOK L1_Once L1_Result L1_NotStuck L2_NoLeak L2_OrphanClose L3_AllReturn L3_ErrorsOnly L3_Silent L3_WaitOnlyAtEnd L4_OnePerType L4_Routing L4_OnlyOpens L5_Replies L5_ChanReplies L6_Reply L6_OneWaiter L7_Order L7_EOF L7_NoIdleReader L8_NothingAfterClose L8_OneClose L8_CloseWrite
ACTION_CONSTRAINT StepOK
VIEW MCView
CHECK_DEADLOCK FALSE
