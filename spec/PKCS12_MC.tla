------------------------------ MODULE PKCS12_MC ------------------------------
(* Bounded instance of PKCS12 and the case generator for binding R (harness/c21). *)
EXTENDS PKCS12, Json
KT == {"rsa", "p256"}
FP == {"ascii", "latin", "cjk", "long", "empty"}
GV == {"same", "other", "emptystr", "nonbmp"}
ITq == {"1", "2048"}
ITt == {"1", "2", "7", "2048", "4096", "rnd1", "rnd2"}
DM == {"none", "outer-tag", "outer-len", "truncated", "trailing", "version", "mac-digest", "mac-salt", "mac-iter", "content-byte", "padding"}
Emit == IsCase => PrintT("TRACE " \o ToJson(case))
ASSUME BmpFacts
=============================================================================
