SPECIFICATION TraceSpec
CONSTANTS
  Keys = {"ed1", "ed2", "ec1", "rsa1", "dsa1", "ed1c", "ec1c", "rsa1c", "dsa1c"}
  RSAKeys = {"rsa1", "rsa1c"}
  Pass = {"p", "q", "e"}
  Lifetimes = {0}
  Ticks = {}
  Comments = {"a"}
  Flags = {0}
  MaxLen = 0
  TConns = {1, 2, 3, 4, 5, 6}
  TCallers = {1, 2, 3}
INVARIANT TAgentOK
VIEW TView
CONSTRAINT HWM
POSTCONDITION TraceAccepted
CHECK_DEADLOCK FALSE
