------------------------ MODULE AutocertRenewTimer_Trace ------------------------
(* Binding T for X05 (a)/(b): validates event logs recorded from a REAL autocert.Manager run
   against an in-process fake ACME CA inside testing/synctest bubbles (virtual clock: timers fire
   deterministically, no real waiting) against AutocertRenewTimer.  Times are whole seconds since
   a fixed origin; certificates carry the serial, NotBefore and NotAfter the CA gave them.

   Logged events (who = "g1".. for GetCertificate callers, "bg" for the Manager's own goroutines;
   callbacks are attributed by goroutine id; k = certKey.String()):
     preload  the harness stored a certificate in the cache before the run
     call     GetCertificate(who, k) entered                 -> Call
     cget     Cache.Get of a certificate entry               -> Lookup (cache branch) / RCacheGet
     fin      the CA received a finalize request             -> (owner in Issue / renew in RIssue)
     issued   the CA answered it (ok + certificate | fail)   -> Issue / RIssue
     cput     Cache.Put of a certificate entry (ok | error)  -> Put / RCachePut
     loop     hook testDidRenewLoop(next, err): a renewal iteration is over, the timer is re-armed
              with delay next                                -> RRearm
     ret      GetCertificate returned (serial | error)       -> the Serve of that call
     stopb / stope   Manager.stopRenew entered / returned    -> SBegin / ... / done
     xstart   a further startRenew for a registered key (hook VerifStartRenew)  -> no-op
     gate / ungate   the harness holds / releases the renewal of k at the CA
     probe    hook VerifRenewalProbe at a quiescent point: is k registered, has it a timer
     quiet    the bubble is quiescent (synctest.Wait): no renewal may be overdue
   Silent steps (not observable): Lookup through an existing state, Wait, CState, LookupFinish,
   Cleanup, Fire, RStart, RUpdate, RLost, and the inside of stopRenew; TLC explores their placement.

   Beyond "explainable by the model" the trace specification checks what the model leaves open:
   a renewal starts no EARLIER than its timer's window (Fire's guard) and no LATER than its end
   (+1 s of rounding), and the delay the real code re-arms with lies in the model's window. *)
EXTENDS AutocertRenewTimer, TraceLib

VARIABLES open,    \* callers inside GetCertificate
          held     \* keys whose renewal the harness holds at the CA
tvars == <<vars, l, open, held>>

Slack == 1

InitVals ==
  /\ now = 0 /\ cache = [k \in Keys |-> NoCert]
  /\ st = [k \in Keys |-> Absent] /\ ren = [k \in Keys |-> NoRen] /\ tmu = [k \in Keys |-> "free"]
  /\ stateMu = "free" /\ renewalMu = "free"
  /\ rpc = [k \in Keys |-> "idle"] /\ rnew = [k \in Keys |-> NoCert]
  /\ pc = [g \in Callers |-> "idle"] /\ ck = [g \in Callers |-> NoKey] /\ got = [g \in Callers |-> NoCert]
  /\ calls = [g \in Callers |-> 0] /\ res = [g \in Callers |-> [t |-> "none", cert |-> NoCert, k |-> NoKey]]
  /\ spc = "idle" /\ todo = {} /\ scur = NoKey /\ stopped = {}
  /\ cnt = 0
  /\ live = [k \in Keys |-> 0] /\ hiNA = [k \in Keys |-> 0 - 1]
  /\ iter = [k \in Keys |-> NoIter] /\ failing = [k \in Keys |-> FALSE]
  /\ ev = E("init", NoKey)
  /\ open = {} /\ held = {}

TraceInit == InitVals /\ l = 1 /\ HWMInit

TReset ==
  /\ IsEvent("reset")
  /\ now' = 0 /\ cache' = [k \in Keys |-> NoCert]
  /\ st' = [k \in Keys |-> Absent] /\ ren' = [k \in Keys |-> NoRen] /\ tmu' = [k \in Keys |-> "free"]
  /\ stateMu' = "free" /\ renewalMu' = "free"
  /\ rpc' = [k \in Keys |-> "idle"] /\ rnew' = [k \in Keys |-> NoCert]
  /\ pc' = [g \in Callers |-> "idle"] /\ ck' = [g \in Callers |-> NoKey] /\ got' = [g \in Callers |-> NoCert]
  /\ calls' = [g \in Callers |-> 0] /\ res' = [g \in Callers |-> [t |-> "none", cert |-> NoCert, k |-> NoKey]]
  /\ spc' = "idle" /\ todo' = {} /\ scur' = NoKey /\ stopped' = {}
  /\ cnt' = 0
  /\ live' = [k \in Keys |-> 0] /\ hiNA' = [k \in Keys |-> 0 - 1]
  /\ iter' = [k \in Keys |-> NoIter] /\ failing' = [k \in Keys |-> FALSE]
  /\ ev' = E("init", NoKey)
  /\ open' = {} /\ held' = {}

Same == UNCHANGED <<open, held>>
AllSame == UNCHANGED <<vars, open, held>>
CertEv == [k |-> Ev.k, id |-> Ev.id, nb |-> Ev.nb, na |-> Ev.na]
IsCaller(w) == w \in Callers
OutEv == IF Ev.o = "ok" THEN "ok" ELSE "fail"

\* the virtual clock advances to the time of the next recorded event
TTime == /\ l <= Len(Trace) /\ Trace[l].ev # "reset" /\ Trace[l].t > now
         /\ now' = Trace[l].t
         /\ UNCHANGED <<cache, st, ren, tmu, stateMu, renewalMu, rpc, rnew, pc, ck, got, calls, res,
                        spc, todo, scur, stopped, cnt, live, hiNA, iter, failing, ev, l, open, held>>
AtTime == Ev.t = now

TPreload == /\ IsEvent("preload") /\ AtTime /\ Ev.k \in Keys
            /\ cache' = [cache EXCEPT ![Ev.k] = CertEv]
            /\ UNCHANGED <<now, st, ren, tmu, stateMu, renewalMu, rpc, rnew, pc, ck, got, calls, res,
                           spc, todo, scur, stopped, cnt, live, hiNA, iter, failing, ev>> /\ Same

TCall == /\ IsEvent("call") /\ AtTime /\ IsCaller(Ev.who) /\ Ev.who \notin open /\ Ev.k \in Keys
         /\ Call(Ev.who, Ev.k)
         /\ open' = open \cup {Ev.who} /\ UNCHANGED held

HitOK(k) == (Ev.hit = Valid(cache[k], now)) \/ now = cache[k].na \/ now = cache[k].nb
TCGet == /\ IsEvent("cget") /\ AtTime /\ Ev.k \in Keys
         /\ IF IsCaller(Ev.who)
            THEN /\ Ev.who \in open /\ ck[Ev.who] = Ev.k /\ ~st[Ev.k].has /\ HitOK(Ev.k)
                 /\ Lookup(Ev.who)
            ELSE /\ ren[Ev.k].timer.hi + Slack >= now          \* the renewal is not late
                 /\ HitOK(Ev.k)
                 /\ \E b \in BOOLEAN : RCacheGet(Ev.k, b)
         /\ Same

TFin == /\ IsEvent("fin") /\ AtTime /\ Ev.k \in Keys
        /\ IF IsCaller(Ev.who) THEN pc[Ev.who] = "issue" /\ ck[Ev.who] = Ev.k ELSE rpc[Ev.k] = "ca"
        /\ AllSame

TIssued == /\ IsEvent("issued") /\ AtTime /\ Ev.k \in Keys
           /\ IF IsCaller(Ev.who)
              THEN ck[Ev.who] = Ev.k /\ Issue(Ev.who, OutEv, CertEv)
              ELSE RIssue(Ev.k, OutEv, CertEv)
           /\ Same

TCPut == /\ IsEvent("cput") /\ AtTime /\ Ev.k \in Keys
         /\ IF IsCaller(Ev.who)
            THEN ck[Ev.who] = Ev.k /\ got[Ev.who].id = Ev.id /\ Ev.ok /\ Put(Ev.who)
            ELSE rnew[Ev.k].id = Ev.id /\ RCachePut(Ev.k, IF Ev.ok THEN "ok" ELSE "fail")
         /\ Same

\* RRearm with the delay the real code chose: it must lie in the model's window
TLoop == /\ IsEvent("loop") /\ AtTime /\ Ev.k \in Keys
         /\ LET k == Ev.k
                tm == IF iter[k].o = "fail" THEN ArmRetry(now) ELSE ArmFor(rnew[k], now) IN
            /\ rpc[k] = "rearm"
            /\ Ev.err = (iter[k].o = "fail")
            /\ tm.lo <= now + Ev.next /\ now + Ev.next <= tm.hi + Slack
            /\ ren' = [ren EXCEPT ![k].timer = [tm EXCEPT !.lo = now + Ev.next, !.hi = now + Ev.next]]
            /\ tmu' = [tmu EXCEPT ![k] = "free"] /\ rpc' = [rpc EXCEPT ![k] = "idle"]
            /\ failing' = [failing EXCEPT ![k] = (iter[k].o = "fail")]
            /\ iter' = [iter EXCEPT ![k].o = IF @ = "fail" THEN "failed" ELSE IF @ = "ok" THEN "renewed" ELSE "deferred"]
            /\ ev' = E("rrearm", k)
         /\ UNCHANGED <<now, cache, st, stateMu, renewalMu, rnew, pc, ck, got, calls, res, spc, todo, scur, stopped, cnt, live, hiNA>>
         /\ Same

TRet == /\ IsEvent("ret") /\ AtTime /\ Ev.who \in open
        /\ pc[Ev.who] = "idle" /\ res[Ev.who].k = Ev.k /\ res[Ev.who].cert.id = Ev.id
        /\ open' = open \ {Ev.who} /\ UNCHANGED <<vars, held>>

TStopB == /\ IsEvent("stopb") /\ AtTime
          /\ spc \in {"idle", "done"} /\ renewalMu = "free"
          /\ renewalMu' = "stop" /\ todo' = {k \in Keys : ren[k].inmap} /\ spc' = "next"
          /\ ev' = E("sbegin", NoKey)
          /\ UNCHANGED <<now, cache, st, ren, tmu, stateMu, rpc, rnew, pc, ck, got, calls, res, scur, stopped, cnt, live, hiNA, iter, failing>>
          /\ Same
TStopE == IsEvent("stope") /\ AtTime /\ spc = "done" /\ AllSame

TXStart == /\ IsEvent("xstart") /\ AtTime /\ Ev.k \in Keys
           /\ ren[Ev.k].inmap /\ renewalMu = "free"
           /\ AllSame

TGate == /\ IsEvent("gate") /\ AtTime /\ held' = held \cup {Ev.k} /\ UNCHANGED <<vars, open>>
TUngate == /\ IsEvent("ungate") /\ AtTime /\ held' = held \ {Ev.k} /\ UNCHANGED <<vars, open>>

TProbe == /\ IsEvent("probe") /\ AtTime /\ Ev.k \in Keys
          /\ Ev.inmap = ren[Ev.k].inmap
          /\ CASE Ev.timer = "busy" -> tmu[Ev.k] # "free"
               [] Ev.timer = "set"  -> ren[Ev.k].timer.s # "nil" /\ tmu[Ev.k] = "free"
               [] Ev.timer = "nil"  -> ren[Ev.k].timer.s = "nil" /\ tmu[Ev.k] = "free"
               [] OTHER -> TRUE
          /\ AllSame

\* quiescent bubble: every due timer has fired and every renewal has run to its end (unless held)
TQuiet == /\ IsEvent("quiet") /\ AtTime
          /\ \A k \in Keys : /\ rpc[k] = "idle" \/ k \in held
                             /\ (ren[k].timer.s = "armed") => ren[k].timer.hi + Slack >= now
                             /\ (st[k].cert.id # 0 /\ k \notin stopped) => ren[k].timer.s # "nil"
          /\ AllSame

Silent == /\ \/ \E g \in Callers : \/ (pc[g] = "lookup" /\ st[ck[g]].has /\ Lookup(g))
                                   \/ LookupFinish(g) \/ Wait(g) \/ CState(g)
             \/ \E k \in Keys : Cleanup(k) \/ Fire(k) \/ RStart(k) \/ RUpdate(k) \/ RLost(k)
             \/ SNext \/ SLock \/ SLoop \/ SWait
          /\ UNCHANGED <<l, open, held>>

TraceNext == TReset \/ TTime \/ TPreload \/ TCall \/ TCGet \/ TFin \/ TIssued \/ TCPut \/ TLoop \/ TRet
             \/ TStopB \/ TStopE \/ TXStart \/ TGate \/ TUngate \/ TProbe \/ TQuiet \/ Silent
TraceSpec == TraceInit /\ [][TraceNext]_tvars
=============================================================================
