SPECIFICATION Spec
CONSTANTS
  KSCases <- KSQuick
  XSCases <- XSQuick
  HSCases <- HSQuick
  C208Cases <- C208Quick
INVARIANTS Emit Laws
CHECK_DEADLOCK FALSE
