----------------------------- MODULE PolyMac_Gen -----------------------------
(***************************************************************************)
(* C04, binding R: history generator.  Every sequence of at most MaxWrites *)
(* Write calls (sizes in WSet, incl. empty writes, total <= MaxLen)        *)
(* followed by Sum, from the abstract PolyMac (which PolyBuf is            *)
(* model-checked to refine): TRACE {"w": [sizes]}.  The model's prediction *)
(* is: the tag is Poly1305(key, m[0..sum of sizes)) whatever the chunking; *)
(* the tag bytes come from PolyMac_Tags.                                   *)
(***************************************************************************)
EXTENDS PolyMac, TLC, Json

CONSTANTS MaxWrites
VARIABLES hist
gvars == <<written, finalized, last, hist>>

GInit == Init /\ hist = <<>>
GNext == /\ ~finalized
         /\ \/ (Len(hist) < MaxWrites /\ \E n \in WSet : Write(n) /\ hist' = Append(hist, n))
            \/ (Sum /\ hist' = hist)
Emit == finalized => PrintT("TRACE " \o ToJson([w |-> hist]))
=============================================================================
