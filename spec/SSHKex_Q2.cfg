SPECIFICATION Spec
CONSTANTS
  PlanSet <- Plans2
INVARIANTS TypeOK Agreement AcceptIffSigned InvalidRejected Binding HonestCompletes GexChoice ChooseAgree Emit
CHECK_DEADLOCK FALSE
