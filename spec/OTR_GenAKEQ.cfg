SPECIFICATION GSpec
CONSTANTS
  Starts <- AnyStart
  MaxData = 0
  FragChoices <- F1
  MaxFaults = 0
  FaultKinds <- NoFaults
  MaxAuth = 0
  Secrets <- S1
  Questions <- Q0
  AllowEnd = FALSE
  MaxRequery = 0
  FixCommitState = TRUE
  SeqSMP = FALSE
  FixSMPReset = TRUE
INVARIANTS EmitAll
CHECK_DEADLOCK FALSE
