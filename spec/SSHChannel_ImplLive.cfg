SPECIFICATION MCLive
CONSTANTS
  Windows = {4}
  MaxPayloads = {1, 2, 3}
  Budget <- B433
  MaxCalls = 1
  MaxRead = 2
  Greedy = TRUE
  CreditFirst = TRUE
  RecvPolicy = "impl"
INVARIANTS TypeOK NoSleepWithWindow F1 F1b F2 NoError NoStuck
PROPERTIES WritesReturn AllDelivered
CHECK_DEADLOCK FALSE
