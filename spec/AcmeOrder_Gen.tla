---------------------------- MODULE AcmeOrder_Gen ----------------------------
(* Behaviour generator for binding R of X02: every complete behaviour of the bounded instance
   (server evolution x reply shapes x client calls) is printed with the model's predictions:
   the requests sent with the virtual time slept before each, and the result of every call. *)
EXTENDS AcmeOrder_MC, Json
VARIABLE hist
GenInit == Init /\ hist = <<ev>>
GenNext == Next /\ hist' = Append(hist, ev')
GenSpec == GenInit /\ [][GenNext]_<<vars, hist>>
\* one witness history per distinct (state, last event): hides only the history
GenView == vars
\* emitted when the last call has its result but has not returned yet: the Return step forgets the last
\* reply (two histories that differ only there would be merged by the VIEW), so the result travels separately
Emit == (pc = "done" /\ calls = MaxCalls) => PrintT("TRACE " \o ToJson([h |-> hist, res |-> res]))
=============================================================================
