-------------------------- MODULE StreamCipher_MC --------------------------
(* Bounded instances of StreamCipherImpl (exhaustive model checking of the refinement
   StreamCipherImpl => StreamCipher) for C03. *)
EXTENDS StreamCipherImpl
MC_L == 6
MC_NSet == {0, 1, 63, 64, 65, 128, 130, 200, 256, 257}
MC_CSet == 0..5
MC_L8 == 8
MC_CSet8 == 0..7
=============================================================================
