SPECIFICATION GenSpec
CONSTANTS
  Configs <- AllConfigs
  Servers <- GridServers
  SrvNames <- SrvBoth
  GridCfgNames <- NamesGrid
  CfgNames <- NamesQuickAll
  Pre <- PreQuick4
  Items <- ItemsQuick
  MaxScript = 2
  LongNames <- NamesLong1
  LongPre <- PreLong
  LongItems <- ItemsLong1
  LongMax = 70
  FocusNames <- NamesFocus
  FocusPre <- PreFocus
  FocusItems <- ItemsFocus
  FocusMax = 4
  FocusDeepNames <- NamesFocusRetry
  FocusDeepMax = 6
  FocusDeepItems <- ItemsFocusDeep
  FixO1 = TRUE
  FixRetry = TRUE
  FixRetryList = TRUE
  MaxTried = 64
INVARIANTS Q1 Q1b Q1r Q2 Q3 Q4 Q5 PickIsDoc ViewsAgree GridOK EmitCase EmitGrid
VIEW GenView
CHECK_DEADLOCK FALSE
