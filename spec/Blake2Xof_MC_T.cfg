SPECIFICATION Spec
CONSTANTS
  N = 4
  LSet <- MC_LSet
  Max = 12
  KSet <- MC_KSet
  WSet <- MC_WSet
  Readers = 2
  MaxW = 1
INVARIANTS TypeOK XofInv AbsTypeOK AbsEofExact AbsReadIsStream
PROPERTIES Refines AbsWriteMode AbsIndependent AbsCloneCopies
CHECK_DEADLOCK FALSE
