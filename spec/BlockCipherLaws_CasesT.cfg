SPECIFICATION CSpec
CONSTANTS
  Blocks = {0}
  Pairs = 40
INVARIANTS AcceptIffDocumented ReferenceInverts EmitC
CHECK_DEADLOCK FALSE
