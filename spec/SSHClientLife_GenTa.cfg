SPECIFICATION GenSpec
CONSTANTS
  MaxPeer = 2
  MaxLocal = 2
  MaxDial = 2
  MaxGReq = 2
  MaxIn = 1
  MaxReg = 2
  Configs <- CfgCore
  Alpha = "full"
  Races = TRUE
  CloseLate = TRUE
VIEW AbsView
CHECK_DEADLOCK FALSE
