SPECIFICATION Spec
CONSTANTS
  Kinds = {"shake", "fixed", "legacy"}
  WSet = {0, 1, 3, 4, 5}
  RSet = {0, 1, 3, 4, 5}
  MaxLen = 9
  MaxOut = 9
  MaxObjs = 1
  ShakeResetAfterRead = FALSE
  Rate = 4
  OutLen = 2
  Prefixes = {0, 4}
INVARIANTS AbsInv OutIsDefinition BookInv FlagMatchesDir SumPanicsOnlyAfterRead
PROPERTIES Refines AbsSumPure AbsIndependent AbsCloneEqual AbsReadContiguous AbsSqueezingIsFinal
CHECK_DEADLOCK FALSE
