SPECIFICATION SpecAll
CONSTANTS
  FixPrec = TRUE
  FixBase = FALSE
  FixZero = TRUE
  FixRevReason = TRUE
  FixSerRev = TRUE
  Slice = "SelQ"
  BaseMenu <- BaseMenuMC
  SubMenu <- SubMenuMC
  Nows <- AllNows
  MaxT = 4
  MaxSubs = 2
  MaxSubSigs = 3
  MaxIdSigs = 2
  LifeAlgos = {"rsa"}
  LifeFlags <- LifeFlagsMC
  LifeLives <- LifeLivesMC
INVARIANTS InvK1
CHECK_DEADLOCK FALSE
