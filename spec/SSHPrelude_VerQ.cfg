SPECIFICATION Spec
CONSTANTS
  MaxLine = 6
  MaxPre = 2
  MaxPending = 1
  ChanSize = 1
  Roles <- BothRoles
  Owns <- OwnsTwo
  StrictOpts <- OnlyT
  ExtcOpts <- OnlyF
  RkOpts <- OnlyF
  StartPh = "ver"
  VerSteps <- VerScaledS
  MaxVer = 7
  Kinds <- KindsConf
  MaxPkt = 3
  MaxNoise = 0
  MaxPing = 0
  PingRuns <- NoRuns
  Bursts <- NoRuns
  AsIs = FALSE
INVARIANTS TypeOK P1_VerRefines P1_Accepted P1_VerFailure P1_OwnLine P1_NoWait P2_NoiseInvisible P2_Disconnect P2_DeadIsFinal P2_UnexpectedEnds NoStall P3_ServerExtInfo P3_FirstKexInitOnly P3_ClientRecords P4_PongOrder P4_PongOnlyWhenEstablished P4_Answered P4_NoPongDuringKex P4_FlushAtNewKeys P5_ServiceOnce P5_ServerRefuses P5_Established
CHECK_DEADLOCK FALSE
