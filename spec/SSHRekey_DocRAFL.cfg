SPECIFICATION Spec
CONSTANTS
  MaxPending = 2
  ChanSize = 1
  Writers = {1}
  NPkts = 2
  MaxRekeys = 1
  Threshold = 1000
  PktLens = {1}
  ExtInfo = FALSE
  NetCap = 1
  ReleaseAfterFlush = TRUE
INVARIANTS TypeOK K3 NetBounded
PROPERTIES K4
CHECK_DEADLOCK FALSE
