SPECIFICATION Spec
CONSTANTS
  Modes <- ConformingModes
  MaxPacket = 64
  SeqMod = 8
  CtrBase = 3
  CtrLimbs = 2
  Sizes <- SizesScaled
  StartSeqs <- Seq0
  StartCtrs <- Ctr0Small
  MaxPkts = 1
  MaxFaults = 0
  AttackOps <- NoOps
  Phased = TRUE
  PadRule = "code"
INVARIANTS TypeOK FramingRFC RoundTripFit DeliveredPrefix ErrorHasCause
CHECK_DEADLOCK FALSE
