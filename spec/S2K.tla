-------------------------------- MODULE S2K --------------------------------
(***************************************************************************)
(* C20 - OpenPGP string-to-key specifiers, RFC 4880 section 3.7.1, as      *)
(* implemented by /repo/openpgp/s2k/s2k.go (Simple, Salted, Iterated,      *)
(* Parse, Serialize, decodeCount/encodeCount, HashIdToHash).               *)
(*                                                                         *)
(* The hash is a CONSTANT operator; HLen is its output size.  For a key of *)
(* keyLen octets, ceil(keyLen/HLen) hash contexts are used; context i      *)
(* (from 0) is preloaded with i zero octets, then fed                      *)
(*    Simple   (3.7.1.1):  passphrase                                      *)
(*    Salted   (3.7.1.2):  salt | passphrase                               *)
(*    Iterated (3.7.1.3):  salt | passphrase repeated and truncated to     *)
(*                         max(count, |salt|+|passphrase|) octets          *)
(* and the outputs are concatenated and truncated to keyLen.               *)
(* The coded count octet c stands for (16 + (c & 15)) << ((c >> 4) + 6).   *)
(*                                                                         *)
(* Specifier wire format: <<mode, hashId>> | salt(8) if mode in {1,3} |    *)
(* <<c>> if mode = 3.  Parse accepts modes 0, 1, 3 and the hash ids of     *)
(* HashIds; Serialize always writes mode 3 with the smallest c whose count *)
(* is >= the configured S2KCount (clamped to [1024, 65011712]; 0 -> 96).   *)
(***************************************************************************)
EXTENDS Integers, Sequences, Bitwise

CONSTANTS Hash(_), HLen

SForce(s) == s \o <<>>
SZeros(n) == SForce([i \in 1..n |-> 0])

\* ---- coded count (3.7.1.3)
Count(c) == (16 + (c % 16)) * (2 ^ ((c \div 16) + 6))
\* the RFC's C expression, with TLC's Bitwise operators:  (16 + (c & 15)) << ((c >> 4) + 6)
RECURSIVE Shl(_, _)
Shl(x, n) == IF n = 0 THEN x ELSE Shl(2 * x, n - 1)
CountRFC(c) == Shl(16 + (c & 15), shiftR(c, 4) + 6)
MinCount == 1024
MaxCount == 65011712
\* encodeCount: the smallest coded octet whose count is at least i (i in MinCount..MaxCount)
EncodeCount(i) == CHOOSE c \in 0..255 : Count(c) >= i /\ \A d \in 0..255 : Count(d) >= i => c <= d
\* Config.encodedCount: S2KCount = 0 means "default" = 96 (65536); otherwise clamp, then encode
ConfigCount(s2kCount) ==
  IF s2kCount = 0 THEN 96
  ELSE EncodeCount(IF s2kCount < MinCount THEN MinCount ELSE IF s2kCount > MaxCount THEN MaxCount ELSE s2kCount)

\* ---- the octets fed to hash context i
\* first n octets of unit repeated for ever (Len(unit) > 0 unless n = 0)
Repeat(unit, n) == SForce([k \in 1..n |-> unit[((k - 1) % Len(unit)) + 1]])
IterLen(count, l) == IF count < l THEN l ELSE count
Body(mode, salt, pass, count) ==
  CASE mode = 0 -> pass
    [] mode = 1 -> salt \o pass
    [] mode = 3 -> Repeat(salt \o pass, IterLen(count, Len(salt) + Len(pass)))
Preimage(mode, i, salt, pass, count) == SZeros(i) \o Body(mode, salt, pass, count)
\* the same in run-length form (for counts too large to write out): i zero octets, then `unit`
\* repeated and truncated to `total` octets
PreimageRL(mode, i, salt, pass, count) ==
  [zeros |-> i,
   unit  |-> IF mode = 0 THEN pass ELSE salt \o pass,
   total |-> IF mode = 3 THEN IterLen(count, Len(salt) + Len(pass)) ELSE (IF mode = 0 THEN Len(pass) ELSE Len(salt) + Len(pass))]
ExpandRL(rl) == SZeros(rl.zeros) \o (IF rl.total = 0 THEN <<>> ELSE Repeat(rl.unit, rl.total))

\* ---- the derived key
NCtx(keyLen) == (keyLen + HLen - 1) \div HLen
RECURSIVE KeyFrom(_, _, _, _, _, _)
KeyFrom(mode, salt, pass, count, i, n) ==
  IF i >= n THEN <<>> ELSE Hash(Preimage(mode, i, salt, pass, count)) \o KeyFrom(mode, salt, pass, count, i + 1, n)
Key(mode, salt, pass, count, keyLen) == SubSeq(KeyFrom(mode, salt, pass, count, 0, NCtx(keyLen)), 1, keyLen)

\* ---- specifiers
HashIds == {1, 2, 3, 8, 9, 10, 11}     \* MD5, SHA-1, RIPEMD-160, SHA-256, SHA-384, SHA-512, SHA-224 (RFC 4880 9.4)
Spec(mode, hashId, salt8, c) ==
  <<mode, hashId>> \o (IF mode \in {1, 3} THEN salt8 ELSE <<>>) \o (IF mode = 3 THEN <<c>> ELSE <<>>)
\* Parse on an octet string: what it yields and how many octets it consumes
Parse(b) ==
  IF Len(b) < 2 THEN [t |-> "short"]
  ELSE IF b[2] \notin HashIds THEN [t |-> "unsupported-hash"]
  ELSE IF b[1] = 0 THEN [t |-> "ok", mode |-> 0, hash |-> b[2], salt |-> <<>>, c |-> 0, used |-> 2]
  ELSE IF b[1] = 1 THEN (IF Len(b) < 10 THEN [t |-> "short"]
                         ELSE [t |-> "ok", mode |-> 1, hash |-> b[2], salt |-> SubSeq(b, 3, 10), c |-> 0, used |-> 10])
  ELSE IF b[1] = 3 THEN (IF Len(b) < 11 THEN [t |-> "short"]
                         ELSE [t |-> "ok", mode |-> 3, hash |-> b[2], salt |-> SubSeq(b, 3, 10), c |-> b[11], used |-> 11])
  ELSE [t |-> "unsupported-mode"]
\* Serialize(config hash id, 8 random octets, Config.S2KCount): the specifier written
Serialize(hashId, salt8, s2kCount) == Spec(3, hashId, salt8, ConfigCount(s2kCount))
=============================================================================
