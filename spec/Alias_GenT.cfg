INIT Init
NEXT Next
CONSTANTS
  TagLen = 16
  EpkLen = 32
  SigLen = 64
  Fixed = {}
  Mode = "gen"
  Base = 0
  Span = 0
  MaxN = 0
  MaxP = 0
  GenClasses <- AllClasses
  GenLens = {0, 1, 16, 63, 64, 65, 200}
  GenXtsLens = {0, 16, 64, 208}
  GenPrefixes = {0, 5}
  GenCaps = {"exact", "spare", "short"}
  GenAds = {"sep", "outstart", "outend", "in", "prefix"}
  DMin <- Minus64
  DMax = 64
  Strict = FALSE
INVARIANTS GroupOK
CHECK_DEADLOCK FALSE
