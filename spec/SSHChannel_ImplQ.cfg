SPECIFICATION MCSpec
CONSTANTS
  Windows = {4}
  MaxPayloads = {1, 2, 3}
  Budget <- B322
  MaxCalls = 1
  MaxRead = 2
  Greedy = TRUE
  RecvPolicy = "impl"
INVARIANTS TypeOK NoSleepWithWindow F1 F1b F2 SenderWithinWindow NoError F3 NoStuck
CHECK_DEADLOCK FALSE
