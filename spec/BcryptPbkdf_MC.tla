--------------------------- MODULE BcryptPbkdf_MC ---------------------------
(***************************************************************************)
(* Bounded instances of BcryptPbkdf (C19), parts A and B (no primitives     *)
(* needed: Hash and BHash are bound to placeholders).                       *)
(*  Loop : part B, every key length 1..bs*bs for bs in {1,2,3,4,5,8,32}     *)
(*         (32 = the real block size: all of 1..1024), both loop forms;     *)
(*         the quick tier replaces 32 by 12 (1..144).                       *)
(*  Args : part A, the decision table over argument classes; emits cases    *)
(*         (one dummy state per case: the variable klen carries the case    *)
(*         index, so that TLC workers share the evaluation).                *)
(* Part C (vectors) is in BcryptPbkdf_Vec.                                  *)
(***************************************************************************)
EXTENDS BcryptPbkdf, TLC, Json

MCHash(m) == m            \* placeholders: parts A and B never apply them
MCBHash(p, s) == s

\* ---------------------------------------------------------------- Loop
LoopInitMC == LoopInit({1, 2, 3, 4, 5, 8, 32})
LoopInitQ == LoopInit({1, 2, 3, 4, 5, 8, 12})

\* ---------------------------------------------------------------- dummy states for the table / vector runs
Dummy(tag, idSet) == /\ impl = tag /\ bs = 0 /\ klen \in idSet /\ count = 0 /\ remaining = 0 /\ amt = 0
                     /\ key = <<>> /\ pc = "case" /\ bad = {}
Stutter == UNCHANGED lvars

\* ---------------------------------------------------------------- Args
ArgRounds == <<-1, 0, 1, 2>>
ArgPass   == <<0, 1, 2>>
ArgSalt   == <<0, 1, 16, MaxSaltLen, MaxSaltLen + 1>>
ArgKey    == <<-1025, -65, -33, -32, -31, -1, 0, 1, 31, 32, 33, 1023, 1024, 1025, 1056, 2048>>
\* case id -> (rounds, passLen, saltLen, keyLen), mixed radix
NArgs == Len(ArgRounds) * Len(ArgPass) * Len(ArgSalt) * Len(ArgKey)
ArgCase(n) ==
  LET m == n - 1
      k == m % Len(ArgKey)              m1 == m \div Len(ArgKey)
      s == m1 % Len(ArgSalt)            m2 == m1 \div Len(ArgSalt)
      p == m2 % Len(ArgPass)            r  == m2 \div Len(ArgPass)
  IN [rounds |-> ArgRounds[r + 1], passLen |-> ArgPass[p + 1], saltLen |-> ArgSalt[s + 1], keyLen |-> ArgKey[k + 1]]
ArgsInit == Dummy("args", 1..NArgs)
\* parts A and B in one TLC run (the dummy states of part A have no successors)
LoopArgsInitMC == LoopInitMC \/ ArgsInit
LoopArgsInitQ == LoopInitQ \/ ArgsInit
CONSTANT NegFix
ArgsHold == impl = "args" => LET c == ArgCase(klen) IN ArgsOK(NegFix, c.rounds, c.passLen, c.saltLen, c.keyLen)
\* the guard sequence alone agrees with the documentation wherever the key length is not negative
GuardHold == impl = "args" => LET c == ArgCase(klen) IN
  c.keyLen >= 0 => LET d == Documented(c.rounds, c.passLen, c.saltLen, c.keyLen)
                       g == GoGuard(c.rounds, c.passLen, c.saltLen, c.keyLen)
                   IN (d = "error") <=> (g # "pass")
ArgsEmit == impl = "args" => LET c == ArgCase(klen) IN
  PrintT("TRACE " \o ToJson([k |-> "arg", rounds |-> c.rounds, passLen |-> c.passLen, saltLen |-> c.saltLen, keyLen |-> c.keyLen,
                             want |-> Documented(c.rounds, c.passLen, c.saltLen, c.keyLen),
                             model |-> GoOutcome(NegFix, c.rounds, c.passLen, c.saltLen, c.keyLen),
                             guard |-> GoGuard(c.rounds, c.passLen, c.saltLen, c.keyLen)]))
=============================================================================
