SPECIFICATION TraceSpec
CONSTANTS
  MaxPeer = 1000000
  MaxLocal = 1000000
  MaxDial = 1000000
  MaxGReq = 1000000
  MaxIn = 1000000
  MaxReg = 1000000
  Configs = {}
  Alpha = "full"
  Races = TRUE
  CloseLate = TRUE
INVARIANTS TypeOK L1_Once L1_Result L1_NotStuck L2_NoLeak L2_OrphanClose L3_AllReturn L3_ErrorsOnly L3_Silent L3_WaitOnlyAtEnd L4_OnePerType L4_Routing L4_OnlyOpens L5_Replies L5_ChanReplies L6_Reply L6_OneWaiter L7_Order L7_EOF L7_NoIdleReader L8_NothingAfterClose L8_OneClose L8_CloseWrite
CONSTRAINT HWM
POSTCONDITION TraceAccepted
CHECK_DEADLOCK FALSE
