SPECIFICATION Spec
CONSTANTS
  Menu <- MenuWholeBig
  AEAD <- MCAEAD
INVARIANTS BothOrNeither Mirror RFCChoice FailIffNoCommon FindCommonIsRFC
CHECK_DEADLOCK FALSE
