----------------------------- MODULE X25519Wrap -----------------------------
(***************************************************************************)
(* C11 - curve25519.X25519 / ScalarMult / ScalarBaseMult are RFC 7748's    *)
(* function with the error <=> all-zero mapping.                           *)
(*                                                                         *)
(* Models /repo/curve25519/curve25519.go, a wrapper over crypto/ecdh:      *)
(*   X25519(scalar, point)     value, or (nil, error) when ecdh refuses    *)
(*                             (wrong length, or all-zero shared secret)   *)
(*   ScalarMult(dst, s, p)     dst = value; dst = 0^32 on error            *)
(*   ScalarBaseMult(dst, s)    dst = public key of s (ecdh), i.e. X(s, 9)  *)
(*                                                                         *)
(* The 255-bit field arithmetic is NOT transcribed (a Montgomery ladder on *)
(* limbs costs TLC seconds per evaluation and adds nothing the RFC vectors *)
(* and an independent implementation do not give).  What the model carries *)
(* is the structure the property is about, on a toy instance of the same   *)
(* algebra: a group Z_8 x Z_Q (cofactor 8, prime Q), u-coordinates = points *)
(* up to sign with the neutral element and the 2-torsion point sharing     *)
(* u = 0, clamped scalars = 8k with k in 1..Q-1, byte encodings with the   *)
(* ignored top bit and the non-canonical aliases u + p of small u.  TLC    *)
(* checks that under clamping "output all zero" <=> "input of low order",  *)
(* that the wrapper's error/zeroing mapping is exact, that aliases and     *)
(* clamp-equivalent scalars give the same output, base-point equivalence   *)
(* and Diffie-Hellman symmetry.  The generator part names the real input   *)
(* classes for the replay.                                                 *)
(***************************************************************************)
EXTENDS Integers, Sequences, FiniteSets, TLC

CONSTANT Q                        \* odd prime: order of the large subgroup in the toy group

(******************************* toy algebra ********************************)
Points == (0..7) \X (0..(Q - 1))
O == <<0, 0>>                                           \* neutral element
T2 == <<4, 0>>                                          \* the point of order 2 (u = 0 on Curve25519)
Neg(P) == <<(8 - P[1]) % 8, (Q - P[2]) % Q>>
Mul(n, P) == <<(n * P[1]) % 8, (n * P[2]) % Q>>
Less(P, R) == P[1] < R[1] \/ (P[1] = R[1] /\ P[2] < R[2])
Rep(P) == IF Less(Neg(P), P) THEN Neg(P) ELSE P         \* a u-coordinate = a point up to sign
\* the ladder returns u = 0 for the neutral element, which is also the u of T2
UVal(P) == IF P = O THEN T2 ELSE Rep(P)
UCoords == {Rep(P) : P \in Points \ {O}}                 \* every u that decodes to a point of the toy curve
IsZeroU(u) == u = T2
LowOrder(u) == u[2] = 0                                  \* in the 8-torsion
G == <<1, 1>>                                            \* a base point of full order 8Q; BaseU plays u = 9
BaseU == Rep(G)

\* raw 32-byte scalars: clamping clears the low 3 bits and bit 255 and sets bit 254: only k survives
RawScalars == [k : 1..(Q - 1), low : 0..7, hi : 0..1]
Clamp(raw) == 8 * raw.k
X(raw, u) == UVal(Mul(Clamp(raw), u))                    \* RFC 7748 X25519 on decoded inputs

\* 32-byte encodings of u: canonical, with the top bit set (masked by decoding), and, for u < 19 only, u + p (reduced by decoding)
Small == {T2, Rep(<<2, 0>>), BaseU, Rep(<<0, 1>>)}       \* play u = 0, 1, 9 and one more value below 19
Encodings == {e \in [u : UCoords, plusP : BOOLEAN, top : BOOLEAN] : e.plusP => e.u \in Small}
Decode(e) == e.u

(******************************* the wrapper ********************************)
Nil == [t |-> "nil"]
Val(u) == [t |-> "val", u |-> u]
Zeros == Val(T2)                                         \* 32 zero bytes
\* x25519(dst, scalar, point): ecdh.NewPublicKey / NewPrivateKey refuse wrong lengths; ECDH refuses an all-zero result
Core(raw, ls, e, lp) == IF lp # 32 \/ ls # 32 THEN [out |-> Nil, err |-> TRUE]
                        ELSE LET v == X(raw, Decode(e)) IN
                             IF IsZeroU(v) THEN [out |-> Nil, err |-> TRUE] ELSE [out |-> Val(v), err |-> FALSE]

VARIABLES dst, res, call
vars == <<dst, res, call>>
Init == dst = [t |-> "dirty"] /\ res = [out |-> Nil, err |-> FALSE] /\ call = [api |-> "none"]
CallX25519 == \E raw \in RawScalars, e \in Encodings, ls \in {31, 32, 33}, lp \in {0, 32, 33} :
                 /\ (ls # 32 => lp = 32 /\ raw = [k |-> 1, low |-> 0, hi |-> 0])      \* keep the length product small
                 /\ res' = Core(raw, ls, e, lp) /\ UNCHANGED dst
                 /\ call' = [api |-> "X25519", raw |-> raw, e |-> e, ls |-> ls, lp |-> lp]
CallScalarMult == \E raw \in RawScalars, e \in Encodings :
                 /\ LET r == Core(raw, 32, e, 32) IN dst' = IF r.err THEN Zeros ELSE r.out
                 /\ UNCHANGED res /\ call' = [api |-> "ScalarMult", raw |-> raw, e |-> e, ls |-> 32, lp |-> 32]
CallScalarBaseMult == \E raw \in RawScalars :
                 /\ dst' = Val(X(raw, BaseU))                                           \* priv.PublicKey().Bytes()
                 /\ UNCHANGED res /\ call' = [api |-> "ScalarBaseMult", raw |-> raw, e |-> [u |-> BaseU, plusP |-> FALSE, top |-> FALSE], ls |-> 32, lp |-> 32]
Next == call.api = "none" /\ (CallX25519 \/ CallScalarMult \/ CallScalarBaseMult)
Spec == Init /\ [][Next]_vars

(******************************* properties *********************************)
Is32 == call.api # "none" /\ call.ls = 32 /\ call.lp = 32
RFC == X(call.raw, call.e.u)                             \* the RFC 7748 function value for the call's inputs
\* X25519: the RFC value, or an error exactly when that value is all zero
X25519Exact == call.api = "X25519" /\ Is32 => /\ res.err <=> IsZeroU(RFC)
                                              /\ ~res.err => res.out = Val(RFC)
                                              /\ res.err => res.out = Nil
WrongLengthIsError == call.api = "X25519" /\ ~Is32 => res.err /\ res.out = Nil
\* ScalarMult writes the same value, all zero on error (whatever dst held)
ScalarMultExact == call.api = "ScalarMult" => dst = Val(RFC)
\* ScalarBaseMult equals X25519 with the base point, in any of its encodings, and never fails
BaseEquivalence == call.api = "ScalarBaseMult" =>
                     \A e \in Encodings : e.u = BaseU => Core(call.raw, 32, e, 32) = [out |-> dst, err |-> FALSE]
\* the all-zero value arises exactly for inputs of low order (this is why ecdh's "all-zero" error is the only one)
ZeroIffLowOrder == Is32 => (IsZeroU(RFC) <=> LowOrder(call.e.u))
\* the ignored top bit, the aliases u + p, and the clamped scalar bits do not matter
EncodingIrrelevant == Is32 => \A e \in Encodings : e.u = call.e.u => Core(call.raw, 32, e, 32) = Core(call.raw, 32, call.e, 32)
ClampIrrelevant == Is32 => \A r2 \in RawScalars : r2.k = call.raw.k => Core(r2, 32, call.e, 32) = Core(call.raw, 32, call.e, 32)
\* two parties always derive the same shared secret (their public keys are never of low order)
DHSymmetry == call.api = "ScalarBaseMult" =>
                \A b \in RawScalars :
                   LET pa == X(call.raw, BaseU)  pb == X(b, BaseU)
                       ea == [u |-> pa, plusP |-> FALSE, top |-> FALSE]  eb == [u |-> pb, plusP |-> FALSE, top |-> FALSE]
                   IN /\ Core(call.raw, 32, eb, 32) = Core(b, 32, ea, 32)
                      /\ ~Core(call.raw, 32, eb, 32).err

(******************************* real input classes *************************)
(* For the replay the classes are named; the harness materialises them as 32-byte strings:                 *)
(*   u:  "0" "1" "pm1" (p-1) "u8a" "u8b" (the two order-8 values)  - low order                             *)
(*       "9" (base point) "2" "18"                                     - small, not low order (have u+p aliases) *)
(*       "r1" "r2" (seeded random canonical values >= 19, not low order)                                  *)
(*   alias: plusP (only for u < 19), top (bit 255 set)                                                    *)
(*   scalar: "s1" "s2" random; "s1low" "s1hi" "s1b254" = s1 with low bits / bit 255 / bit 254 changed;     *)
(*           "zero" (all 0), "ones" (all 0xff)                                                            *)
CONSTANTS UClasses, LowClasses, SmallClasses, ScalarClasses, SameAsS1
ClassEnc == {e \in [u : UClasses, plusP : BOOLEAN, top : BOOLEAN] : e.plusP => e.u \in SmallClasses}
\* predicted: error iff the u class is of low order; value identity = (clamped scalar class, canonical u class)
ScalarId(s) == IF s \in SameAsS1 THEN "s1" ELSE s        \* clamping maps these to the scalar "s1"
Predict(api, s, e) == [api |-> api, scalar |-> s, u |-> e.u, plusP |-> e.plusP, top |-> e.top,
                       err |-> e.u \in LowClasses, valueId |-> <<ScalarId(s), e.u>>]
=============================================================================
