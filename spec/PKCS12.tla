------------------------------- MODULE PKCS12 -------------------------------
(* golang.org/x/crypto/pkcs12: the decision Decode / ToPEM make on a PFX file and a password
   (pkcs12.go: Decode, ToPEM, getSafeContents; mac.go: verifyMac; crypto.go: pbDecrypt; bmp-string.go: bmpString;
   safebags.go).  A decision model, deliberately modest: the stages of getSafeContents in the order the code runs
   them, each either passing or ending the call with an outcome; plus the BMPString encoding of the password as an
   executable definition.

   A case is: a PFX file written by an independent implementation (openssl pkcs12 -export -legacy: PBE-SHA1-RC2-40
   for the certificate bag, PBE-SHA1-3DES for the shrouded key bag, HMAC-SHA1 MAC) for a key of some type under a
   file password and an iteration count; a damage class applied to the file; the password the caller gives.
   Outcomes: "ok" (exactly the key and the certificate of the file), "badpw" (ErrIncorrectPassword), "error" (any
   other error).  A panic is not an outcome: the harness treats it as a violation.

   Stages (getSafeContents, then the bags):
     1 bmpString(password)                      not encodable in UCS-2            -> error (ToPEM: badpw)
     2 asn1 parse of the PFX PDU, no trailing   damaged outer structure           -> error
     3 version / content type / MAC present     unsupported                        -> error
     4 verifyMac with the BMP password; if that is the encoding of "" (00 00) and it fails, once more with the
       empty byte string                        mismatch                          -> badpw
     5 pbDecrypt of the encrypted parts with the password that verified: PKCS#7 padding check
                                                bad padding                       -> error
     6 parse of safe bags, certificate, PKCS#8 key                                 -> error / ok
   The MAC covers the whole authenticated safe, so any change inside it that is not re-authenticated ends at stage 4;
   a change that is re-authenticated by someone who knows the password (class "padding": last ciphertext block of the
   key bag changed, MAC recomputed) reaches stage 5.  The RFC 7292 appendix-B key derivation is NOT modelled: it is
   checked only through these end-to-end decodes (a wrong derivation fails stage 4 on every genuine file). *)
EXTENDS Integers, Sequences, FiniteSets, TLC

CONSTANTS KeyTypes,    \* {"rsa", "p256"}
          FilePw,      \* password classes files are written with: "ascii", "latin", "cjk", "long", "empty"
          Given,       \* what the caller gives: "same", "other", "emptystr", "nonbmp"
          Iters,       \* iteration-count classes
          Damage       \* damage classes, see Stage2Ok .. below

VARIABLES phase, case
vars == <<phase, case>>

-----------------------------------------------------------------------------
(* The password as BMPString (RFC 7292 B.1): every code point below 2^16 as two bytes, high byte first, then a
   two-byte NUL terminator; a string with a code point outside the Basic Multilingual Plane cannot be encoded. *)
RECURSIVE BmpBody(_)
BmpBody(cps) == IF cps = <<>> THEN <<>> ELSE <<Head(cps) \div 256, Head(cps) % 256>> \o BmpBody(Tail(cps))
Encodable(cps) == \A i \in 1..Len(cps) : cps[i] < 65536
Bmp(cps) == BmpBody(cps) \o <<0, 0>>

(* sample passwords per class, as code points (the harness uses the same strings) *)
Sample(cls) ==
  CASE cls = "ascii" -> <<115, 101, 99, 114, 101, 116>>                          \* "secret"
    [] cls = "latin" -> <<112, 228, 223, 119, 246, 114, 100, 233>>               \* "paesswoerde" with a-umlaut, sharp s, o-umlaut, e-acute
    [] cls = "cjk"   -> <<23494, 30721, 20013, 25991, 12354>>                    \* CJK ideographs and a hiragana letter
    [] cls = "edge"  -> <<255, 256, 65535, 1>>                                   \* boundaries of the byte split
    [] cls = "empty" -> <<>>
    [] cls = "nonbmp" -> <<97, 128512>>                                          \* "a" and U+1F600
    [] OTHER -> <<120>>

BmpFacts ==
  /\ Bmp(Sample("empty")) = <<0, 0>>
  /\ Bmp(Sample("ascii")) = <<0, 115, 0, 101, 0, 99, 0, 114, 0, 101, 0, 116, 0, 0>>
  /\ Bmp(Sample("cjk")) = <<91, 198, 120, 1, 78, 45, 101, 135, 48, 66, 0, 0>>
  /\ Bmp(Sample("edge")) = <<0, 255, 1, 0, 255, 255, 0, 1, 0, 0>>
  /\ ~Encodable(Sample("nonbmp")) /\ Encodable(Sample("cjk")) /\ Encodable(Sample("edge"))
  /\ \A c \in {"ascii", "latin", "cjk", "edge", "empty"} : Len(Bmp(Sample(c))) = 2 * Len(Sample(c)) + 2

-----------------------------------------------------------------------------
(* Damage classes and the stage each one trips. *)
OuterDamage == {"outer-tag", "outer-len", "truncated", "trailing"}        \* the PFX PDU no longer parses
Unsupported == {"version"}                                                \* parses, but not a v3 password-integrity PFX
MacDamage == {"mac-digest", "mac-salt", "mac-iter", "content-byte"}       \* parses, MAC no longer matches
ReMaced == {"padding"}                                                    \* inside the authenticated safe, MAC recomputed with the file password

(* does the caller's password verify the MAC of an undamaged file? *)
PwMatches(filepw, given) ==
  \/ given = "same"
  \/ given = "emptystr" /\ filepw = "empty"

Outcome(api, filepw, given, dmg) ==
  IF given = "nonbmp" THEN (IF api = "ToPEM" THEN "badpw" ELSE "error")                   \* stage 1
  ELSE IF dmg \in OuterDamage THEN "error"                                                 \* stage 2
  ELSE IF dmg \in Unsupported THEN "error"                                                 \* stage 3
  ELSE IF dmg \in MacDamage \/ ~PwMatches(filepw, given) THEN "badpw"                      \* stage 4
  ELSE IF dmg \in ReMaced THEN "error"                                                     \* stage 5
  ELSE "ok"                                                                                \* stage 6

-----------------------------------------------------------------------------
NoCase == [key |-> "", filepw |-> "", given |-> "", iter |-> "", dmg |-> "", decode |-> "", topem |-> ""]
Cases == {[key |-> k, filepw |-> f, given |-> g, iter |-> i, dmg |-> d,
           decode |-> Outcome("Decode", f, g, d), topem |-> Outcome("ToPEM", f, g, d)] :
            k \in KeyTypes, f \in FilePw, g \in Given, i \in Iters, d \in Damage}

Init == phase = "start" /\ case = NoCase
Next == phase = "start" /\ phase' = "case" /\ \E c \in Cases : case' = c
Spec == Init /\ [][Next]_vars

IsCase == phase = "case"
(* the property's clauses, on the decision table *)
CorrectPasswordRecovers == (IsCase /\ case.dmg = "none" /\ PwMatches(case.filepw, case.given)) => (case.decode = "ok" /\ case.topem = "ok")
WrongPasswordIsBadPw == (IsCase /\ case.dmg = "none" /\ case.given \in {"other", "emptystr"} /\ ~PwMatches(case.filepw, case.given))
                           => (case.decode = "badpw" /\ case.topem = "badpw")
DamageNeverOk == (IsCase /\ case.dmg # "none") => (case.decode # "ok" /\ case.topem # "ok")
ApisAgree == (IsCase /\ case.given # "nonbmp") => case.decode = case.topem
EmptyPasswordBothWays == (IsCase /\ case.dmg = "none" /\ case.filepw = "empty") => (case.given \in {"same", "emptystr"} <=> case.decode = "ok")
OutcomeType == IsCase => case.decode \in {"ok", "badpw", "error"} /\ case.topem \in {"ok", "badpw", "error"}
=============================================================================
