\* non-vacuity: the deliberately wrong client noTimer must violate P4_PollSpacing
SPECIFICATION Spec
CONSTANTS
  OpSet <- WaitOps
  Bundles = {TRUE, FALSE}
  MaxCalls = 1
  MaxReq = 3
  MaxEnv = 1
  Shapes <- CoreShapes
  RetrySet = {0, 3}
  Budget = 1
  Malformed = TRUE
  CertKinds <- FewCerts
  AltSet = {0, 2}
  InitStates <- InitRFC
  CallOK <- AnyCall
  EnvOK <- AnyEnv
  FixNegRA = FALSE
  Mut = "noTimer"
VIEW MCView
INVARIANTS P4_PollSpacing
CHECK_DEADLOCK FALSE
