SPECIFICATION SpecAll
CONSTANTS
  FixPrec = TRUE
  FixBase = TRUE
  FixZero = TRUE
  FixRevReason = TRUE
  FixSerRev = TRUE
  Slice = "SelQ"
  BaseMenu <- BaseMenuMC
  SubMenu <- SubMenuMC
  Nows <- AllNows
  MaxT = 4
  MaxSubs = 2
  MaxSubSigs = 3
  MaxIdSigs = 2
  LifeAlgos = {"rsa"}
  LifeFlags <- LifeFlagsMC
  LifeLives <- LifeLivesMC
INVARIANTS DocK3x
CHECK_DEADLOCK FALSE
