SPECIFICATION Spec
CONSTANTS
  Keys <- K2
  RSAKeys <- R1
  Pass <- P2
  Lifetimes <- L2
  Ticks <- T2
  Comments <- C1
  Flags <- F3
  MaxLen = 8
INVARIANTS EmitWitness NoBoundary
VIEW View
CHECK_DEADLOCK FALSE
