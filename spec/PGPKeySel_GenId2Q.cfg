SPECIFICATION SpecAll
CONSTANTS
  FixPrec = FALSE
  FixBase = FALSE
  FixZero = FALSE
  FixRevReason = FALSE
  FixSerRev = FALSE
  Slice = "Id2Q"
  BaseMenu <- BaseMenuMC
  SubMenu <- SubMenuMC
  Nows <- AllNows
  MaxT = 4
  MaxSubs = 2
  MaxSubSigs = 3
  MaxIdSigs = 2
  LifeAlgos = {"rsa"}
  LifeFlags <- LifeFlagsMC
  LifeLives <- LifeLivesMC
INVARIANTS EmitAll
CHECK_DEADLOCK FALSE
