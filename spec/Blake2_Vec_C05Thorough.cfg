SPECIFICATION Spec
CONSTANTS
  Cases <- C05Thorough
  Groups = 24
INVARIANTS Emit
CHECK_DEADLOCK FALSE
