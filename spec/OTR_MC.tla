------------------------------- MODULE OTR_MC -------------------------------
(* Bounded instances of OTR (constant menus for the configs). *)
EXTENDS OTR

NoStart   == {{}}
OneSided  == {{"a"}, {"b"}}
BothSides == {{"a", "b"}}
AnyStart  == {{"a"}, {"b"}, {"a", "b"}}
StartA    == {{"a"}}
F1 == {1}
F12 == {1, 2}
F123 == {1, 2, 3}
F3 == {3}
F23 == {2, 3}
NoFaults == {}
AllFaults == {"drop", "dup", "tamper"}
DropDup == {"drop", "dup"}
TamperOnly == {"tamper"}
S1 == {"s1"}
S12 == {"s1", "s2"}
Q0 == {0}
Q01 == {0, 1}

=============================================================================
