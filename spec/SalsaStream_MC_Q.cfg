SPECIFICATION Spec
CONSTANTS
  BS = 2
  Wide = 4
  DB = 2
  ND = 4
  MaxLen = 20
  Impls = {"gen", "asm"}
  NoCarry = FALSE
INVARIANTS TypeOK PrefixOK CounterOK DoneOK
PROPERTIES Terminates
CHECK_DEADLOCK FALSE
