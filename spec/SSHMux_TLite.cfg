SPECIFICATION Spec
CONSTANTS
  MaxPeer = 5
  MaxLocal = 2
  MaxObj = 3
  Configs <- AllConfigs
  Lite = TRUE
  Hold = FALSE
  Burst = FALSE
  DecidedInLoop = TRUE
  DrainAll = TRUE
  RejectChecksSlot = TRUE
INVARIANTS TypeOK M1 M1d M_dup M1b M1c M2 M3 M4 M4b
VIEW View
CHECK_DEADLOCK FALSE
