--------------------------- MODULE SSHSession_Trace ---------------------------
(* Binding T for X01: validates executions recorded from the REAL ssh.Session by the model-independent
   long-session driver (harness/x01 TestLong) against SSHSession.  A recorded line is one event:
     "step"  - the event and what was observed at the quiescent point after it (control packets the
               client wrote, calls that returned, tokens fully delivered to Session.Stdout / Stderr /
               the pipes / returned by Output, stdin tokens the server read, keepalive answer);
               the spec takes the same big step and must predict exactly that observation;
     "quiet" - a server event followed by the next one without waiting (a burst such as data, EOF,
               exit-status, close sent back to back): the spec takes the step, nothing is compared;
     "burst" - the last event of a burst: the calls that returned during the whole burst and the
               delivered tokens must be as predicted (control packets and keepalive answers depend
               on the timing inside a burst and are not compared).
   Plumbing as in TraceLib.tla (own names, because SSHSession already defines Ev). *)
EXTENDS SSHSession, Json

VARIABLES l, acc,     \* acc: calls that returned during the burst in progress
          cv         \* variant (request name) of each call, by call index

JTrace == ndJsonDeserialize("trace.ndjson")
Ln == JTrace[l]
IsLn(e) == l <= Len(JTrace) /\ JTrace[l].ev = e /\ l' = l + 1

HWM == IF l > TLCGet(1) THEN TLCSet(1, l) ELSE TRUE
TraceAccepted == IF TLCGet(1) = Len(JTrace) + 1 THEN TRUE
                 ELSE /\ PrintT("HWM " \o ToString(TLCGet(1)))
                      /\ FALSE

HWMInit == TLCSet(1, 1)

SrvKinds == {"sreply", "sdata", "seof", "sexit", "sexitbad", "ssig", "ssigbad", "ska", "sclose", "sdrop"}

\* the level at which the driver classifies results: errors other than *ExitError / *ExitMissingError are one class
Norm(res, k, v) ==
  IF res.c \in {"err", "malformed", "copyerr"} THEN R("other", 0, "")
  ELSE IF res.c = "false" /\ k = "reqwr" /\ v # "raw" THEN R("other", 0, "")    \* Setenv & co: failure reply = error
  ELSE res

NormDone(s, c) == {<<d[1], Norm(d[2], s.calls[d[1]].k, c[d[1]])>> : d \in s.done}
CvNext(ln) == IF ln.k \in SrvKinds \/ ~IsCall(Ev(ln.k, ln.v, ln.x)) THEN cv ELSE Append(cv, ln.v)
LnDone(ln) == {<<ln.done[i][1], ln.done[i][2]>> : i \in 1 .. Len(ln.done)}

\* what does not depend on timing inside a burst of server events
Delivered(s, ln) ==
  /\ ln.uo = (IF s.outMode = "copy" /\ s.outW = -1 THEN s.gotOut ELSE <<>>)
  /\ ln.ue = (IF s.errMode = "copy" /\ s.errW = -1 THEN s.gotErr ELSE <<>>)
  /\ ln.po = (IF s.outMode = "pipe" THEN s.gotOut ELSE <<>>)
  /\ ln.pe = (IF s.errMode = "pipe" THEN s.gotErr ELSE <<>>)
  /\ ln.rc # 0 => /\ ln.ro = (IF s.outMode = "copy" /\ s.outW = ln.rc THEN s.gotOut ELSE <<>>)
                  /\ ln.re = (IF s.errMode = "copy" /\ s.errW = ln.rc THEN s.gotErr ELSE <<>>)
  /\ ln.si = s.srvIn

\* see TakeExit in SSHSession: in a step flagged ioRace a nil result may be observed as an I/O error
Racy(D) == {<<d[1], IF d[2].c = "nil" THEN R("other", 0, "") ELSE d[2]>> : d \in D}
DoneOK(s, D, ln) == D = LnDone(ln) \/ (s.ioRace /\ Racy(D) = LnDone(ln))

\* after an early return of Session.wait the answers to keepalives are not compared (SSHSession.Unserviced)
NoFail(q) == SelectSeq(q, LAMBDA x : x # "fail")
ObsOK(s, ln) ==
  /\ IF s.early THEN NoFail(s.out) = NoFail(ln.out) ELSE s.out = ln.out
  /\ DoneOK(s, NormDone(s, CvNext(ln)), ln)
  /\ Delivered(s, ln)
  /\ s.early \/ ln.ka = s.ka

StepOf(ln) == LET e == Ev(ln.k, ln.v, ln.x) IN
              IF ln.k \in SrvKinds THEN SrvStep(S, e) ELSE CliStep(S, e)

TReset == IsLn("reset") /\ UNCHANGED <<S, hist>> /\ acc' = {} /\ cv' = <<>>
TCfg == IsLn("cfg") /\ S' = Init0([stdin |-> Ln.k, outs |-> Ln.v]) /\ hist' = hist /\ acc' = {} /\ cv' = <<>>
\* one event, observed at the quiescent point after it
TStep == /\ IsLn("step")
         /\ LET ns == StepOf(Ln) IN ObsOK(ns, Ln) /\ S' = ns
         /\ hist' = hist /\ acc' = {} /\ cv' = CvNext(Ln)
\* a server event inside a burst (the next one was sent without waiting): nothing was observed
TQuiet == /\ IsLn("quiet")
          /\ LET ns == StepOf(Ln) IN S' = ns /\ acc' = acc \cup NormDone(ns, CvNext(Ln))
          /\ hist' = hist /\ cv' = CvNext(Ln)
\* the last event of a burst: calls that returned during the burst, and what was delivered
TBurst == /\ IsLn("burst")
          /\ LET ns == StepOf(Ln) IN
               /\ DoneOK(ns, acc \cup NormDone(ns, CvNext(Ln)), Ln)
               /\ Delivered(ns, Ln)
               /\ S' = ns
          /\ hist' = hist /\ acc' = {} /\ cv' = CvNext(Ln)

TraceInit == S = Init0([stdin |-> "nil", outs |-> "nil"]) /\ hist = <<>> /\ l = 1 /\ acc = {} /\ cv = <<>> /\ HWMInit
TraceNext == TReset \/ TCfg \/ TStep \/ TQuiet \/ TBurst
TraceSpec == TraceInit /\ [][TraceNext]_<<S, hist, l, acc, cv>>
=============================================================================
