------------------------ MODULE SSHForwardBacklog_MC ------------------------
EXTENDS SSHForwardBacklog, Json
LA == {"A"}
LAB == {"A", "B"}
KTcp == [l \in LAB |-> "tcp"]
KUnix == [l \in LAB |-> "unix"]
KMix == [l \in LAB |-> IF l = "A" THEN "tcp" ELSE "unix"]
OCode == [k \in {"tcp", "unix"} |-> "remove-first"]                                   \* the code
OUnixSwapped == [k \in {"tcp", "unix"} |-> IF k = "unix" THEN "cancel-first" ELSE "remove-first"]
NoBursts == {}
B20 == {20}
B40 == {40}
Emit == (Rec /\ Len(hist) = MaxHist /\ Quiescent) => PrintT("TRACE " \o ToJson([model |-> "backlog", kind |-> Kind, order |-> Order, hist |-> hist, final |-> Obs]))
=============================================================================
