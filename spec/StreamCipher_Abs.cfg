SPECIFICATION Spec
CONSTANTS
  L = 6
  NSet = {0, 1, 63, 64, 65, 128, 130, 200, 256, 257}
  CSet = {0, 1, 2, 3, 4, 5}
INVARIANTS TypeOK
PROPERTIES Monotone Contiguous PanicExact Seek
CHECK_DEADLOCK FALSE
