--------------------------------- MODULE AEAD ---------------------------------
(***************************************************************************)
(* C01 / C02 - the RFC 8439 section 2.8 AEAD construction and its          *)
(* XChaCha20-Poly1305 variant (draft-irtf-cfrg-xchacha-01 section 2.3),    *)
(* composed from the executable definitions PrimChaCha and PrimPoly and    *)
(* evaluated by TLC.  Reference for /repo/chacha20poly1305 (Seal/Open of   *)
(* chacha20poly1305.go, xchacha20poly1305.go; sealGeneric/openGeneric and  *)
(* the amd64 assembly are two implementations of exactly this function).   *)
(*                                                                         *)
(*   poly key  = keystream bytes 0..31 of block 0                          *)
(*   CT        = PT xor keystream from block 1 on                          *)
(*   mac data  = pad16(AD) || pad16(CT) || le64(|AD|) || le64(|CT|)        *)
(*   Seal      = CT || Poly1305(poly key, mac data)                        *)
(*   24-byte nonce: key' = HChaCha20(key, nonce[0..15]),                   *)
(*                  nonce' = 00 00 00 00 || nonce[16..23]                  *)
(* Open recomputes the tag and releases the plaintext only if it matches.  *)
(***************************************************************************)
EXTENDS PrimChaCha, PrimPoly

Pad16(s) == s \o Zeros((16 - (Len(s) % 16)) % 16)
MacData(ad, ct) == Pad16(ad) \o Pad16(ct) \o LE64(Len(ad)) \o LE64(Len(ct))

PolyKeyOf(k, n) == KS(k, n, <<0, 0>>, 0, 32)
Crypt(k, n, data) == IF Len(data) = 0 THEN <<>> ELSE XorBytes(data, KS(k, n, <<0, 0>>, 64, Len(data)))

TagOf(key, nonce, ct, ad) == Poly1305(PolyKeyOf(EffKey(key, nonce), EffNonce(nonce)), MacData(ad, ct))

\* nonce of 12 (ChaCha20-Poly1305) or 24 bytes (XChaCha20-Poly1305); result = ciphertext || tag
Seal(key, nonce, pt, ad) ==
  LET k  == EffKey(key, nonce)
      n  == EffNonce(nonce)
      ct == Crypt(k, n, Force(pt))
  IN ct \o Poly1305(PolyKeyOf(k, n), MacData(Force(ad), ct))

Rejected == [ok |-> FALSE, pt |-> <<>>]
Open(key, nonce, sealed, ad) ==
  IF Len(sealed) < 16 THEN Rejected
  ELSE LET k   == EffKey(key, nonce)
           n   == EffNonce(nonce)
           ct  == SubSeq(sealed, 1, Len(sealed) - 16)
           tag == SubSeq(sealed, Len(sealed) - 15, Len(sealed))
       IN IF Poly1305(PolyKeyOf(k, n), MacData(Force(ad), ct)) = tag
          THEN [ok |-> TRUE, pt |-> Crypt(k, n, ct)]
          ELSE Rejected

(***************************************************************************)
(* RFC 8439 section 2.8.2                                                  *)
(***************************************************************************)
RFCAeadKey == [i \in 1..32 |-> 127 + i]          \* 80 81 .. 9f
RFCAeadNonce == <<7,0,0,0, 64,65,66,67,68,69,70,71>>
RFCAeadAD == <<80,81,82,83, 192,193,194,195,196,197,198,199>>
\* "Ladies and Gentlemen of the class of '99: If I could offer you only one tip for the future, sunscreen would be it."
RFCAeadPT ==
  << 76,97,100,105,101,115,32,97,110,100,32,71,101,110,116,108, 101,109,101,110,32,111,102,32,116,104,101,32,99,108,97,115,
     115,32,111,102,32,39,57,57,58,32,73,102,32,73,32,99, 111,117,108,100,32,111,102,102,101,114,32,121,111,117,32,111,
     110,108,121,32,111,110,101,32,116,105,112,32,102,111,114,32, 116,104,101,32,102,117,116,117,114,101,44,32,115,117,110,115,
     99,114,101,101,110,32,119,111,117,108,100,32,98,101,32,105, 116,46 >>
RFCAeadCT ==
  << 211,26,141,52,100,142,96,219,123,134,175,188,83,239,126,194, 164,173,237,81,41,110,8,254,169,226,181,167,54,238,98,214,
     61,190,164,94,140,169,103,18,130,250,251,105,218,146,114,139, 26,113,222,10,158,6,11,41,5,214,165,182,126,205,59,54,
     146,221,189,127,45,119,139,140,152,3,174,227,40,9,27,88, 250,179,36,228,250,214,117,148,85,133,128,139,72,49,215,188,
     63,244,222,240,142,75,122,157,229,118,210,101,134,206,198,75, 97,22 >>
RFCAeadTag == <<26,225,11,89,79,9,226,106,126,144,46,203,208,96,6,145>>
\* poly key of section 2.8.2 (first 32 keystream bytes of block 0)
RFCAeadPolyKey == << 123,172,43,37, 45,180,71,175, 9,182,122,85, 164,233,85,132, 10,225,214,115, 16,117,217,235, 42,147,117,120, 62,213,83,255 >>

ASSUME PolyKeyOf(RFCAeadKey, RFCAeadNonce) = RFCAeadPolyKey
ASSUME Seal(RFCAeadKey, RFCAeadNonce, RFCAeadPT, RFCAeadAD) = RFCAeadCT \o RFCAeadTag
=============================================================================
