SPECIFICATION Spec
CONSTANTS
  Profiles <- ProfGenBigC
INVARIANTS ErrIff CapErrOnlyFixed FitsAll ParseBack CapRespected LenIsSum PanicOnlyMisuse Emit
CHECK_DEADLOCK FALSE
