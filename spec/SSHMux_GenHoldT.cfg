SPECIFICATION GenSpec
CONSTANTS
  MaxPeer = 5
  MaxLocal = 5
  MaxObj = 3
  Configs <- HoldConfigs
  Lite = TRUE
  Hold = TRUE
  Burst = FALSE
  DecidedInLoop = TRUE
  DrainAll = TRUE
  RejectChecksSlot = TRUE
VIEW AbsView
CHECK_DEADLOCK FALSE
