\* quick, no stopRenew: GetCertificate is never blocked by a renewal in flight, no lock cycle
SPECIFICATION Spec
CONSTANTS
  Keys = {"a", "b"}
  Callers = {"g1", "g2"}
  MaxCalls = 1
  MaxT = 3
  Life = 4
  Thr = 2
  MaxJit = 1
  RetryLo = 1
  RetryHi = 2
  MaxCerts = 2
  CAOutcomes = {"ok", "fail"}
  PutOutcomes = {"ok"}
  Preload = {"a"}
  WithStop = FALSE
INVARIANTS T1_OneTimer T3_StopFinal T4_RenewReplaces T4b_Deferred T45_Rearmed T5_FailKeeps T7_Monotone T9_LoopAlive T10_ExpiredOnlyWhileDueOrFailing T11_KeyMatch T8_NonBlocking NoLockCycle
PROPERTIES T2_StartNoop T3b_NoRestart T6_Independent T7b_ServedMonotone
CHECK_DEADLOCK FALSE
