\* documentation: RFC 6960 4.2.2.2 (OCSPSigning EKU on delegated responder certificates) is not implemented; TLC must refute this
SPECIFICATION Spec
INVARIANTS RFC6960Delegation
CHECK_DEADLOCK FALSE
