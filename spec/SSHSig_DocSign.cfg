SPECIFICATION Spec
CONSTANTS
  Menus <- MenusQ
INVARIANTS SignAlsoRefuses
CHECK_DEADLOCK FALSE
