SPECIFICATION Spec
CONSTANTS
  Menus <- MenusQ
  FixSign = FALSE
INVARIANTS SignAlsoRefuses
CHECK_DEADLOCK FALSE
