SPECIFICATION Spec
CONSTANTS
  Residue = FALSE
  Streams <- Tree
  MaxReaders = 32
  MaxUnread = 2
  MaxOps = 15
INVARIANTS DepthBound Order Complete EmitStreams Emit
PROPERTIES PushRule Lifo EofSticky
CHECK_DEADLOCK FALSE
