\* quick generator: one witness history per distinct (state, last event); malformed server, every operation
SPECIFICATION GenSpec
CONSTANTS
  OpSet <- AllOps
  Bundles = {TRUE, FALSE}
  MaxCalls = 1
  MaxReq = 3
  MaxEnv = 1
  Shapes <- QuickShapes
  RetrySet = {0, 3}
  Budget = 1
  Malformed = TRUE
  CertKinds <- AllCerts
  AltSet = {0, 2}
  InitStates <- InitRFC
  CallOK <- FocusCall
  EnvOK <- FocusEnv
  FixNegRA = FALSE
  Mut = "none"
VIEW GenView
INVARIANTS Emit TypeOK P1_NoFalseSuccess P2_TypedFailures P3_FinalizeOnce P4_PollSpacing P5_StopOnCancel P6_CertAfterValid P7_LastObserved P8_ChainLimits P9_PollExactlyWhileNotFinal ServerSane
CHECK_DEADLOCK FALSE
