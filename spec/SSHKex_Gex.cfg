SPECIFICATION Spec
CONSTANTS
  PlanSet <- GexPlans
INVARIANTS TypeOK Agreement AcceptIffSigned InvalidRejected Binding HonestCompletes GexChoice ChooseAgree Emit
CHECK_DEADLOCK FALSE
