SPECIFICATION GSpec
CONSTANTS
  L <- GL6
  NSet <- GN6
  CSet <- GC6
  Depth = 5
INVARIANTS Emit
CHECK_DEADLOCK FALSE
