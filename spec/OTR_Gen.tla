------------------------------- MODULE OTR_Gen -------------------------------
(* Behaviour generator for binding R (harness/c47): OTR plus a history of the calls made, each with the
   model's predicted observables (IsEncrypted on both sides, delivered message, SecurityChange, error,
   kinds of the messages to transmit). *)
EXTENDS OTR_MC, Json

VARIABLES hist, inbox0     \* inbox0: the parties that find a query message in their channel initially
GInit == Init /\ hist = <<>> /\ inbox0 = {p \in Parties : net[p] # <<>>}
GNext == Next /\ hist' = Append(hist, last') /\ UNCHANGED inbox0
GSpec == GInit /\ [][GNext]_<<vars, hist, inbox0>>

\* one witness history per (state, last call): hide the histories
View == <<cv, net, hi, nf, runs, bud, last, inbox0>>
Record == [hi |-> hi, nf |-> nf, inbox0 |-> inbox0, h |-> hist]
\* all maximal histories
EmitAll == (hist # <<>> /\ ~ENABLED Next) => PrintT("TRACE " \o ToJson(Record))
\* one history per reachable (state, last call)
EmitWitness == hist # <<>> => PrintT("TRACE " \o ToJson(Record))
\* simulation: histories that ran to the end or to the depth bound
EmitLong40 == (hist # <<>> /\ (Len(hist) >= 40 \/ ~ENABLED Next)) => PrintT("TRACE " \o ToJson(Record))
=============================================================================
