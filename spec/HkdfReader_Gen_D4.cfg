INIT GInit
NEXT GNext
CONSTANTS
  Depth = 4
INVARIANTS Emit TypeOK
CHECK_DEADLOCK FALSE
