SPECIFICATION Spec
CONSTANTS
  Kinds = {"shake", "fixed"}
  WSet = {0, 1, 3}
  RSet = {0, 2}
  MaxLen = 3
  MaxOut = 2
  MaxObjs = 3
  ShakeResetAfterRead = FALSE
  Rate = 2
  OutLen = 1
  Prefixes = {0, 2}
INVARIANTS AbsInv OutIsDefinition BookInv FlagMatchesDir SumPanicsOnlyAfterRead
PROPERTIES Refines AbsSumPure AbsIndependent AbsCloneEqual AbsReadContiguous AbsSqueezingIsFinal
CHECK_DEADLOCK FALSE
