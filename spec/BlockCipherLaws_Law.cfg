SPECIFICATION LSpec
CONSTANTS
  Blocks = {0, 1, 2, 3}
INVARIANTS RoundTripLaw SrcUntouched InPlaceSame
CHECK_DEADLOCK FALSE
