SPECIFICATION Spec
CONSTANTS
  Modes <- AuthModes
  MaxPacket = 262144
  SeqMod = 16
  CtrBase = 256
  CtrLimbs = 8
  Sizes <- SizesTamperSim
  StartSeqs <- SeqNearWrap16
  StartCtrs <- CtrReal
  MaxPkts = 5
  MaxFaults = 2
  AttackOps <- AllOps
  Phased = TRUE
  PadRule = "code"
INVARIANTS EmitTable EmitFinished
CHECK_DEADLOCK FALSE
ACTION_CONSTRAINT CloseLate
