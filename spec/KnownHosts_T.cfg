SPECIFICATION Spec
CONSTANTS
  CaseSet <- CasesT
  QueriesOf <- QOfBig
  StarFix = TRUE
  SubjectFix = TRUE
  CAListsPlain = TRUE
  RevokedSubject = TRUE
INVARIANTS TypeOK Agree AcceptSound RevokedDominates WantExact OrderIndependent WildAgreeBig WildSelf RemoteIrrelevantF EmitT
CHECK_DEADLOCK FALSE
