--------------------------- MODULE KnownHosts_MCBig ---------------------------
(* The larger bounded instances of KnownHosts (thorough tier); see KnownHosts_MC. *)
EXTENDS KnownHosts_MCQ

\* W: patterns of length <= 4 against hosts of length <= 5
FilesWBig == WFiles(4)
WildAgreeBig == WildAgreeN(5)
QueriesWGBig == HostQueries(4)
\* L: one line with up to three signed patterns
FilesL3 == LFiles(3)
\* three-line files over a reduced menu: 16 non-revoked lines and 2 @revoked ones
F3Shapes == << Unh(<<Pos(A)>>), Unh(<<Pos(Star), Pat(TRUE, A, P22)>>), Hsh(A, P22), Unh(<<Pos(AStar)>>) >>
FL3 == Prod3(F3Shapes, <<"none", "ca">>, <<"k1", "ca1">>, MkLine)
       \o Prod3(<<Unh(<<Pos(Star)>>)>>, <<"revoked">>, <<"k1", "ca1">>, MkLine)
FilesF3r == {<<l1, l2, l3>> : l1, l2, l3 \in Range(FL3)}
QOfBig(tag) == CASE tag = "WB" -> QueriesWGBig [] tag = "L3" -> QueriesL [] tag = "F3" -> QueriesFq [] OTHER -> QOf(tag)
\* one TLC run for the thorough tier: long patterns, three-pattern lines, two-line files with every remote
\* address, three-line files; only the families WB and F3 are emitted for replay
CasesT == Cases("WB", FilesWBig) \cup Cases("L3", FilesL3) \cup CasesF2full \cup Cases("F3", FilesF3r)
EmitT == fam \in {"WB", "F3"} => Emit
ASSUME \A tag \in {"WB", "F3"} : EmitQueries(tag, QOfBig(tag))
=============================================================================
