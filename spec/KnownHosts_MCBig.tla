--------------------------- MODULE KnownHosts_MCBig ---------------------------
(* The larger bounded instances of KnownHosts (thorough tier); see KnownHosts_MC. *)
EXTENDS KnownHosts_MCL, KnownHosts_MCF

\* W: patterns of length <= 4 against hosts of length <= 5
FilesWBig == WFiles(4)
WildAgreeBig == WildAgreeN(5)
QueriesWGBig == HostQueries(4)
\* L: one line with up to three signed patterns
FilesL3 == LFiles(3)
\* three-line files over a reduced menu: 16 non-revoked lines and 2 @revoked ones
F3Shapes == << Unh(<<Pos(A)>>), Unh(<<Pos(Star), Pat(TRUE, A, P22)>>), Hsh(A, P22), Unh(<<Pos(AStar)>>) >>
FL3 == Prod3(F3Shapes, <<"none", "ca">>, <<"k1", "ca1">>, MkLine)
       \o Prod3(<<Unh(<<Pos(Star)>>)>>, <<"revoked">>, <<"k1", "ca1">>, MkLine)
FilesF3r == {<<l1, l2, l3>> : l1, l2, l3 \in Range(FL3)}
=============================================================================
