INIT Init
NEXT Next
CONSTANTS
  TagPairs <- TagPairsQ
  TagMax = 80
  EdgeFull = FALSE
  CheckDef = FALSE
INVARIANTS Emit
CHECK_DEADLOCK FALSE
