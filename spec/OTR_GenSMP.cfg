SPECIFICATION GSpec
CONSTANTS
  Starts <- StartA
  MaxData = 1
  FragChoices <- F12
  MaxFaults = 0
  FaultKinds <- NoFaults
  MaxAuth = 1
  Secrets <- S12
  Questions <- Q01
  AllowEnd = FALSE
  MaxRequery = 0
  FixCommitState = TRUE
  SeqSMP = FALSE
  FixSMPReset = TRUE
INVARIANTS EmitWitness
VIEW View
CHECK_DEADLOCK FALSE
