SPECIFICATION Spec
CONSTANTS
  Modes <- CBCEtMModes
  MaxPacket = 262144
  SeqMod = 8
  CtrBase = 3
  CtrLimbs = 2
  Sizes <- Sizes300
  StartSeqs <- Seq0
  StartCtrs <- Ctr0Small
  MaxPkts = 1
  MaxFaults = 0
  AttackOps <- NoOps
  Phased = TRUE
  PadRule = "code"
INVARIANTS TypeOK FramingRFC ReaderAcceptsRFC RoundTrip DeliveredPrefix SeqCounts SeqAgree
CHECK_DEADLOCK FALSE
