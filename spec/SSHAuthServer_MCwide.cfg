SPECIFICATION Spec
CONSTANTS
  Configs <- ConfigsGeneral
  ReqAt <- AtWide
  General = {"K1", "K2", "K2n", "K3", "K4", "K5", "K5b", "K6", "K6b", "K7", "K7b", "K8"}
  MaxAttempts = 128
  MaxLen = 2
  ShallowLen = 2
  DeepConfigs = {}
INVARIANTS TypeOK SoundSuccess PermsFromFinalCallback PartialSwitch NoneOnlyBeforePartial FailureLimit AttemptLimit UserBound SrcEnforced PkOkSrc LastPkIsAuthKey
VIEW View
ACTION_CONSTRAINT CheckAC
CHECK_DEADLOCK FALSE
