---------------------------- MODULE SSHPacket ----------------------------
(* The SSH binary packet protocol of golang.org/x/crypto/ssh, one direction of one key epoch:

     cipher.go     cipherModes, streamPacketCipher (encrypt-and-MAC and EtM), gcmCipher (incIV,
                   AAD = length), cbcCipher, chacha20Poly1305Cipher, noneCipher
     mac.go        macModes (tag sizes, EtM flag)
     transport.go  connectionState.readPacket / writePacket (sequence numbers)

   A byte string is abstract: a packet on the wire is a record saying which payload it carries,
   how it was framed (payload length n, padding length pad), and what it was cryptographically
   bound to when the writer produced it: the sequence number that went into the MAC / nonce
   (seq), the GCM invocation counter (ctr), the key-stream / CBC-chain offset at which it was
   encrypted (off).  MACs, AEAD tags and ciphers are ideal: a tag verifies iff every input of the
   tag computation at the reader equals the input at the writer; a packet decrypts to the
   written plaintext iff the reader's key-stream offset equals the writer's.  The reader model
   accepts or rejects by these mechanisms only, per class of mode; that every accepted payload is
   the one written at that position is then a THEOREM checked by TLC, not an assumption.

   One action per call: Write(n) = writeCipherPacket + seqNum++ (connectionState.writePacket),
   Read = readCipherPacket + seqNum++ (connectionState.readPacket; the increment also happens on
   error), Close = the byte stream ends.  Attacker actions edit the in-flight part of the
   stream: Flip(i, field), Drop(i), Dup(i, j), Swap(i, j), Inject(j), Truncate(i).

   After the first read error the reader stops (handshakeTransport.readLoop returns on the first
   error and the connection is torn down); Read is disabled in state "err". *)
EXTENDS Integers, Sequences, FiniteSets, TLC

CONSTANTS
  Modes,      \* set of mode records (see Mode below) explored by this instance
  MaxPacket,  \* cipher.go maxPacket (262144); scaled in the exhaustive instances
  SeqMod,     \* sequence numbers are uint32: 2^32; scaled in the exhaustive instances
  CtrBase,    \* the GCM invocation counter is CtrLimbs limbs in base CtrBase (8 limbs, base 256)
  CtrLimbs,
  Sizes,      \* payload lengths Write may choose
  StartSeqs,  \* sequence number at the start of the epoch (same for reader and writer)
  StartCtrs,  \* initial invocation counters (sequences of CtrLimbs limbs)
  MaxPkts,    \* bound on packets written
  MaxFaults,  \* bound on attacker actions
  AttackOps,  \* subset of {"flip","drop","dup","swap","inject","trunc"}
  Phased,     \* TRUE: all writes, then Close, then all attacker actions, then reads (replay shape)
  PadRule     \* "code": the writer pads as cipher.go does; "rfc": any padding the RFCs allow (<= MaxPadRFC)

VARIABLES
  mode,       \* the negotiated mode of this direction (constant during a behaviour)
  startSeq, startCtr,
  sent,       \* ghost: every packet as the writer produced it, in order
  wire,       \* in-flight items, head is read next
  consumed,   \* ghost: items the reader has taken off the wire
  delivered,  \* what Read returned so far: k = "the payload written k-th", 0 = any other bytes
  seqW, seqR, \* connectionState.seqNum of writer and reader
  ctrW, ctrR, \* gcmCipher.iv[4:12] of writer and reader
  offW, offR, \* bytes of key stream / cipher chain consumed by writer and reader
  rstate,     \* "ok" | "err"
  closed,     \* the byte stream has ended after the in-flight items
  ops         \* attacker actions so far (history; also bounds them)
vars == <<mode, startSeq, startCtr, sent, wire, consumed, delivered, seqW, seqR, ctrW, ctrR, offW, offR, rstate, closed, ops>>

Max(a, b) == IF a > b THEN a ELSE b
Garbage == 0

-----------------------------------------------------------------------------
(* Modes.  The tables are the specification's view of what the standards define for each
   registered name (RFC 4253 6, RFC 4344, RFC 4345, RFC 5647, OpenSSH PROTOCOL 1.6 (-etm MACs),
   PROTOCOL.chacha20poly1305).  bs = cipher block size as the RFC counts it. *)
CipherTable == {
  [name |-> "aes128-ctr", kind |-> "stream", bs |-> 16, key |-> 16, iv |-> 16, skip |-> 0],
  [name |-> "aes192-ctr", kind |-> "stream", bs |-> 16, key |-> 24, iv |-> 16, skip |-> 0],
  [name |-> "aes256-ctr", kind |-> "stream", bs |-> 16, key |-> 32, iv |-> 16, skip |-> 0],
  [name |-> "arcfour",    kind |-> "stream", bs |-> 8,  key |-> 16, iv |-> 0,  skip |-> 0],
  [name |-> "arcfour128", kind |-> "stream", bs |-> 8,  key |-> 16, iv |-> 0,  skip |-> 1536],
  [name |-> "arcfour256", kind |-> "stream", bs |-> 8,  key |-> 32, iv |-> 0,  skip |-> 1536],
  [name |-> "aes128-gcm@openssh.com", kind |-> "gcm", bs |-> 16, key |-> 16, iv |-> 12, skip |-> 0],
  [name |-> "aes256-gcm@openssh.com", kind |-> "gcm", bs |-> 16, key |-> 32, iv |-> 12, skip |-> 0],
  [name |-> "chacha20-poly1305@openssh.com", kind |-> "chachapoly", bs |-> 8, key |-> 64, iv |-> 0, skip |-> 0],
  [name |-> "aes128-cbc", kind |-> "cbc", bs |-> 16, key |-> 16, iv |-> 16, skip |-> 0],
  [name |-> "3des-cbc",   kind |-> "cbc", bs |-> 8,  key |-> 24, iv |-> 8,  skip |-> 0] }

MacTable == {
  [name |-> "hmac-sha2-256-etm@openssh.com", etm |-> TRUE,  tag |-> 32, key |-> 32, hash |-> "sha256"],
  [name |-> "hmac-sha2-512-etm@openssh.com", etm |-> TRUE,  tag |-> 64, key |-> 64, hash |-> "sha512"],
  [name |-> "hmac-sha2-256", etm |-> FALSE, tag |-> 32, key |-> 32, hash |-> "sha256"],
  [name |-> "hmac-sha2-512", etm |-> FALSE, tag |-> 64, key |-> 64, hash |-> "sha512"],
  [name |-> "hmac-sha1",     etm |-> FALSE, tag |-> 20, key |-> 20, hash |-> "sha1"],
  [name |-> "hmac-sha1-96",  etm |-> FALSE, tag |-> 12, key |-> 20, hash |-> "sha1"] }

NoMac == [name |-> "", etm |-> FALSE, tag |-> 0, key |-> 0, hash |-> ""]

(* class: how the standards frame and authenticate packets of this mode.
   aad  : bytes of the packet (the length field) that stay unencrypted and are excluded from
          the alignment requirement.
   tag  : bytes of MAC / AEAD tag after the encrypted part. *)
ModeOf(c, m) ==
  [cipher |-> c.name, mac |-> m.name, bs |-> c.bs,
   class |-> CASE c.kind = "stream" /\ m.etm -> "StreamEtM"
               [] c.kind = "stream" /\ ~m.etm -> "StreamEaM"
               [] c.kind = "gcm" -> "GCM"
               [] c.kind = "chachapoly" -> "ChaChaPoly"
               [] c.kind = "cbc" /\ m.etm -> "CBCEtM"
               [] c.kind = "cbc" /\ ~m.etm -> "CBC",
   aad |-> IF c.kind \in {"gcm", "chachapoly"} \/ m.etm THEN 4 ELSE 0,
   tag |-> IF c.kind \in {"gcm", "chachapoly"} THEN 16 ELSE m.tag,
   auth |-> TRUE]

NoneMode == [cipher |-> "none", mac |-> "", bs |-> 8, class |-> "None", aad |-> 0, tag |-> 0, auth |-> FALSE]

AEADKinds == {"gcm", "chachapoly"}
AllModes == { ModeOf(c, m) : c \in {x \in CipherTable : x.kind \notin AEADKinds}, m \in MacTable }
            \cup { ModeOf(c, NoMac) : c \in {x \in CipherTable : x.kind \in AEADKinds} }
            \cup { NoneMode }

-----------------------------------------------------------------------------
(* Framing arithmetic. *)

(* What the standards require of a packet with payload n and padding pad:
   RFC 4253 6: 4 <= padding_length (one byte, so <= 255), and the length of
   packet_length || padding_length || payload || padding -- without the unencrypted length
   field for EtM MACs (OpenSSH PROTOCOL 1.6), AES-GCM (RFC 5647 7.2) and
   chacha20-poly1305@openssh.com -- is a multiple of max(8, cipher block size). *)
Align(m) == Max(8, m.bs)
PktLen(n, pad) == 1 + n + pad
RFCValid(m, n, pad) == /\ pad >= 4 /\ pad <= 255
                       /\ (4 + PktLen(n, pad) - m.aad) % Align(m) = 0

(* What cipher.go computes (transcription of the four writeCipherPacket methods).
   streamPacketCipher pads to packetSizeMultiple = 16 whatever the cipher; gcmCipher to 16;
   chacha20Poly1305Cipher to 8; cbcCipher to max(8, block size) with a minimum of 16 bytes up to
   the MAC, where with an -etm MAC (cbcCipher.etm, since commit 78606fd) the unencrypted length
   field is left out of the alignment (aadLen = 4). *)
CodeAad(m) == CASE m.class \in {"StreamEtM", "GCM", "ChaChaPoly", "CBCEtM"} -> 4 [] OTHER -> 0
CodePad(m, n) ==
  CASE m.class \in {"StreamEaM", "StreamEtM", "None"} ->
         LET p == 16 - ((5 + n - CodeAad(m)) % 16) IN IF p < 4 THEN p + 16 ELSE p
    [] m.class = "GCM" ->
         LET p == 16 - ((1 + n) % 16) IN IF p < 4 THEN p + 16 ELSE p
    [] m.class = "ChaChaPoly" ->
         LET p == 8 - ((1 + n) % 8) IN IF p < 4 THEN p + 8 ELSE p
    [] m.class \in {"CBC", "CBCEtM"} ->
         LET eb  == Max(8, m.bs)
             aad == CodeAad(m)
             e0  == Max(5 + n + 4, 16)
             enc == aad + ((e0 - aad + eb - 1) \div eb) * eb
         IN  (enc - 4) - (1 + n)

MaxPadRFC == 40     \* bound on the paddings explored under PadRule = "rfc" (real bound: 255)
PadChoices(m, n) == IF PadRule = "code" THEN {CodePad(m, n)}
                    ELSE {p \in 4..MaxPadRFC : RFCValid(m, n, p)}

(* The structural checks each readCipherPacket makes on the decrypted length / padding length
   of an authentic packet (before or after the tag check; the order does not matter here). *)
ReaderStructOK(m, n, pad) ==
  LET len == PktLen(n, pad) IN
  CASE m.class \in {"StreamEaM", "StreamEtM", "None"} -> len > pad + 1 /\ len <= MaxPacket
    [] m.class \in {"GCM", "ChaChaPoly"} -> len <= MaxPacket /\ len >= 1 /\ pad >= 4 /\ pad + 1 < len
    [] m.class = "CBC" -> /\ len <= MaxPacket
                          /\ len + 4 >= Max(16, m.bs)
                          /\ (len + 4) % Max(8, m.bs) = 0
                          /\ pad >= 4 /\ len > pad + 1
    [] m.class = "CBCEtM" -> /\ len <= MaxPacket            \* readCipherPacketEtM
                             /\ len >= Max(8, m.bs)
                             /\ len % Max(8, m.bs) = 0
                             /\ pad >= 4 /\ len > pad + 1

(* streamPacketCipher.writeCipherPacket is the only writer with a size check. *)
WriterAccepts(m, n) == m.class \in {"StreamEaM", "StreamEtM", "None"} => n <= MaxPacket

-----------------------------------------------------------------------------
(* GCM invocation counter: gcmCipher.incIV, byte-wise increment with carry from the last limb
   towards limb 1 and no carry out of the 8-byte field (the 4-byte fixed field is untouched). *)
RECURSIVE IncFrom(_, _)
IncFrom(c, i) == IF i = 0 THEN c
                 ELSE IF c[i] + 1 = CtrBase THEN IncFrom([c EXCEPT ![i] = 0], i - 1)
                 ELSE [c EXCEPT ![i] = c[i] + 1]
IncIV(c) == IncFrom(c, CtrLimbs)

RECURSIVE Pow(_, _)
Pow(b, e) == IF e = 0 THEN 1 ELSE b * Pow(b, e - 1)
RECURSIVE ValUpTo(_, _)
ValUpTo(c, i) == IF i = 0 THEN 0 ELSE ValUpTo(c, i - 1) * CtrBase + c[i]
CtrVal(c) == ValUpTo(c, CtrLimbs)       \* only evaluated in instances where it fits TLC's integers

-----------------------------------------------------------------------------
(* Items on the wire: all records have the same shape. *)
Pkt(id, n, pad, seq, ctr, off) ==
  [t |-> "pkt", id |-> id, n |-> n, pad |-> pad, seq |-> seq, ctr |-> ctr, off |-> off, dmg |-> "none"]
Junk == [t |-> "junk", id |-> 0, n |-> 0, pad |-> 0, seq |-> 0, ctr |-> <<>>, off |-> 0, dmg |-> "junk"]
ItemLen(m, p) == IF p.t = "junk" THEN 16 ELSE 4 + PktLen(p.n, p.pad) + m.tag

Fields(m) == {"len", "padlen", "payload", "padding"} \cup (IF m.tag > 0 THEN {"tag"} ELSE {})

Init ==
  /\ mode \in Modes
  /\ startSeq \in StartSeqs
  /\ startCtr \in (IF mode.class = "GCM" THEN StartCtrs ELSE {<<>>})
  /\ sent = <<>> /\ wire = <<>> /\ consumed = <<>> /\ delivered = <<>>
  /\ seqW = startSeq /\ seqR = startSeq
  /\ ctrW = startCtr /\ ctrR = startCtr
  /\ offW = 0 /\ offR = 0
  /\ rstate = "ok" /\ closed = FALSE /\ ops = <<>>

(* connectionState.writePacket: writeCipherPacket(seqNum, ...); seqNum++. *)
Write(n) ==
  /\ ~closed /\ Len(sent) < MaxPkts
  /\ WriterAccepts(mode, n)
  /\ \E pad \in PadChoices(mode, n) :
       LET p == Pkt(Len(sent) + 1, n, pad, seqW, ctrW, offW) IN
       /\ sent' = Append(sent, p)
       /\ wire' = Append(wire, p)
       /\ offW' = offW + ItemLen(mode, p)
  /\ seqW' = (seqW + 1) % SeqMod
  /\ ctrW' = IF mode.class = "GCM" THEN IncIV(ctrW) ELSE ctrW
  /\ UNCHANGED <<mode, startSeq, startCtr, consumed, delivered, seqR, ctrR, offR, rstate, closed, ops>>

Close ==
  /\ ~closed /\ closed' = TRUE
  /\ UNCHANGED <<mode, startSeq, startCtr, sent, wire, consumed, delivered, seqW, seqR, ctrW, ctrR, offW, offR, rstate, ops>>

-----------------------------------------------------------------------------
(* The reader's decision, by mechanism.  p is the item at the head of the wire. *)
InSync(p)   == p.off = offR                 \* same key-stream offset / CBC chain position
Undamaged(p) == p.t = "pkt" /\ p.dmg = "none"

(* Does the MAC / tag the reader computes equal the one on the wire? *)
TagOK(p) ==
  CASE mode.class \in {"StreamEaM", "CBC"} ->     \* HMAC(seq || plaintext)
         Undamaged(p) /\ p.seq = seqR /\ InSync(p)
    [] mode.class \in {"StreamEtM", "CBCEtM"} ->  \* HMAC(seq || length || ciphertext), verified before decrypting
         Undamaged(p) /\ p.seq = seqR
    [] mode.class = "GCM" ->                     \* nonce = fixed || counter, AAD = length
         Undamaged(p) /\ p.ctr = ctrR
    [] mode.class = "ChaChaPoly" ->              \* Poly1305 key and both ChaCha20 nonces = seq
         Undamaged(p) /\ p.seq = seqR
    [] mode.class = "None" -> TRUE               \* no MAC

(* Given the tag verified: does the decrypted payload equal the written one? *)
PayloadRight(p) ==
  CASE mode.class \in {"StreamEaM", "StreamEtM", "CBC", "CBCEtM"} -> InSync(p)
    [] mode.class \in {"GCM", "ChaChaPoly"} -> TRUE
    [] mode.class = "None" -> Undamaged(p)

ReadEOF ==
  /\ wire = <<>> /\ closed
  /\ rstate' = "err"
  /\ seqR' = (seqR + 1) % SeqMod
  /\ UNCHANGED <<mode, startSeq, startCtr, sent, wire, consumed, delivered, seqW, ctrW, ctrR, offW, offR, closed, ops>>

ReadItem ==
  /\ wire # <<>>
  /\ LET p == Head(wire) IN
     /\ wire' = Tail(wire) /\ consumed' = Append(consumed, p)
     /\ seqR' = (seqR + 1) % SeqMod          \* readPacket increments also on error
     /\ \/ /\ mode.auth                       \* authenticated modes: deterministic
           /\ IF TagOK(p) /\ ReaderStructOK(mode, p.n, p.pad)
              THEN /\ delivered' = Append(delivered, IF PayloadRight(p) THEN p.id ELSE Garbage)
                   /\ ctrR' = IF mode.class = "GCM" THEN IncIV(ctrR) ELSE ctrR
                   /\ offR' = offR + ItemLen(mode, p)
                   /\ rstate' = "ok"
              ELSE /\ rstate' = "err" /\ UNCHANGED <<delivered, ctrR, offR>>
        \/ /\ ~mode.auth /\ Undamaged(p)       \* none: an intact packet parses, wherever it is
           /\ IF ReaderStructOK(mode, p.n, p.pad)
              THEN /\ delivered' = Append(delivered, p.id) /\ rstate' = "ok"
                   /\ offR' = offR + ItemLen(mode, p)
              ELSE /\ rstate' = "err" /\ UNCHANGED <<delivered, offR>>
           /\ UNCHANGED ctrR
        \/ /\ ~mode.auth /\ ~Undamaged(p)      \* none: damaged bytes parse as something or fail
           /\ \/ delivered' = Append(delivered, Garbage) /\ rstate' = "ok"
              \/ rstate' = "err" /\ UNCHANGED delivered
           /\ UNCHANGED <<ctrR, offR>>
  /\ UNCHANGED <<mode, startSeq, startCtr, sent, seqW, ctrW, offW, closed, ops>>

Read == rstate = "ok" /\ (ReadEOF \/ ReadItem)

-----------------------------------------------------------------------------
(* The attacker edits the in-flight items. *)
InsertAt(s, j, x) == SubSeq(s, 1, j - 1) \o <<x>> \o SubSeq(s, j, Len(s))
RemoveAt(s, i) == SubSeq(s, 1, i - 1) \o SubSeq(s, i + 1, Len(s))

AttackerMay == /\ Len(ops) < MaxFaults /\ rstate = "ok"
               /\ Phased => (closed /\ consumed = <<>>)
Op(name, i, j, f) == [op |-> name, i |-> i, j |-> j, f |-> f]
Edit(w, o) == /\ wire' = w /\ ops' = Append(ops, o)
              /\ UNCHANGED <<mode, startSeq, startCtr, sent, consumed, delivered, seqW, seqR, ctrW, ctrR, offW, offR, rstate>>

Flip == /\ "flip" \in AttackOps /\ AttackerMay
        /\ \E i \in 1..Len(wire), f \in Fields(mode) :
             /\ Undamaged(wire[i])
             /\ Edit([wire EXCEPT ![i].dmg = f], Op("flip", i, 0, f))
        /\ UNCHANGED closed
Drop == /\ "drop" \in AttackOps /\ AttackerMay
        /\ \E i \in 1..Len(wire) : Edit(RemoveAt(wire, i), Op("drop", i, 0, ""))
        /\ UNCHANGED closed
Dup ==  /\ "dup" \in AttackOps /\ AttackerMay
        /\ \E i \in 1..Len(wire), j \in 1..(Len(wire) + 1) :
             Edit(InsertAt(wire, j, wire[i]), Op("dup", i, j, ""))
        /\ UNCHANGED closed
Swap == /\ "swap" \in AttackOps /\ AttackerMay
        /\ \E i \in 1..Len(wire), j \in 1..Len(wire) :
             /\ i < j
             /\ Edit([wire EXCEPT ![i] = wire[j], ![j] = wire[i]], Op("swap", i, j, ""))
        /\ UNCHANGED closed
Inject == /\ "inject" \in AttackOps /\ AttackerMay
          /\ \E j \in 1..(Len(wire) + 1) : Edit(InsertAt(wire, j, Junk), Op("inject", 0, j, ""))
          /\ UNCHANGED closed
(* cut the stream inside item i (at least one byte of it is lost, possibly all of it) *)
Truncate == /\ "trunc" \in AttackOps /\ AttackerMay
            /\ \E i \in 1..Len(wire) :
                 Edit(SubSeq(wire, 1, i - 1) \o <<[wire[i] EXCEPT !.dmg = "trunc"]>>, Op("trunc", i, 0, ""))
            /\ closed' = TRUE

Attack == Flip \/ Drop \/ Dup \/ Swap \/ Inject \/ Truncate

WriteStep == /\ ~closed /\ Len(sent) < MaxPkts       \* (hoisted guard of Write: cheaper for TLC)
             /\ \E n \in Sizes : Write(n)
ReadStep  == /\ (Phased => closed) /\ Read

Next == WriteStep \/ Close \/ Attack \/ ReadStep
Spec == Init /\ [][Next]_vars

-----------------------------------------------------------------------------
(* Properties. *)
Finished == rstate = "err"

(* C25/C26: what the reader returned is, position by position, what was written there. *)
DeliveredPrefix == \A k \in 1..Len(delivered) : k <= Len(sent) /\ delivered[k] = k

(* C25: sequence numbers increment and wrap per packet, and reader and writer agree. *)
SeqCounts == /\ seqW = (startSeq + Len(sent)) % SeqMod
             /\ \A k \in 1..Len(sent) : sent[k].seq = (startSeq + k - 1) % SeqMod
SeqAgree  == (ops = <<>> /\ rstate = "ok") =>
               /\ seqR = (startSeq + Len(consumed)) % SeqMod
               /\ wire # <<>> => Head(wire).seq = seqR /\ Head(wire).ctr = ctrR /\ Head(wire).off = offR
               /\ wire = <<>> => seqR = seqW /\ ctrR = ctrW /\ offR = offW

(* C25: every packet the writer produces is framed as the standards require. *)
FramingRFC == \A k \in 1..Len(sent) : RFCValid(mode, sent[k].n, sent[k].pad)

(* C25: the reader accepts every packet framed as the standards allow (instances with
   PadRule = "rfc"), as long as the declared length respects maxPacket. *)
ReaderAcceptsRFC == \A k \in 1..Len(sent) :
    PktLen(sent[k].n, sent[k].pad) <= MaxPacket => ReaderStructOK(mode, sent[k].n, sent[k].pad)

(* C25: without an attacker everything written is delivered before the stream ends.  RoundTrip
   is the property as stated (payloads up to maxPacket); RoundTripFit is what the code can
   offer: the reader bounds the declared length (1 + n + pad), not the payload, by maxPacket. *)
RoundTrip == (ops = <<>> /\ Finished) => Len(delivered) = Len(sent)
Fits(p) == PktLen(p.n, p.pad) <= MaxPacket
RoundTripFit == (ops = <<>> /\ Finished /\ \A k \in 1..Len(sent) : Fits(sent[k])) => Len(delivered) = Len(sent)

(* C25 (RFC 5647 7.1): the invocation counter is a 64-bit counter: never repeats under one key. *)
NonceUnique == mode.class = "GCM" =>
                 \A i, j \in 1..Len(sent) : i # j => sent[i].ctr # sent[j].ctr
NonceCounts == mode.class = "GCM" =>
                 \A k \in 1..Len(sent) : CtrVal(sent[k].ctr) = (CtrVal(startCtr) + k - 1) % Pow(CtrBase, CtrLimbs)

(* C26: in an authenticated mode whatever was consumed without an error is exactly what the
   writer produced at that position; so the first item that is not, raises the error. *)
OnlyIntactAccepted == (mode.auth /\ rstate = "ok") =>
                        /\ Len(delivered) = Len(consumed)
                        /\ \A k \in 1..Len(consumed) : k <= Len(sent) /\ consumed[k] = sent[k]
(* ... and an error is raised only for a reason: tampering, end of stream, or a declared
   length above maxPacket. *)
ErrorHasCause == (mode.auth /\ Finished) =>
   \/ Len(consumed) = Len(delivered)                              \* EOF
   \/ LET k == Len(consumed) IN
        \/ k > Len(sent) \/ consumed[k] # sent[k]                 \* tampered / out of place
        \/ ~ReaderStructOK(mode, consumed[k].n, consumed[k].pad)
(* C26: nothing is delivered after the first error. *)
NothingAfterError == [][rstate = "err" => (delivered' = delivered /\ rstate' = "err")]_vars

(* Prediction used by the replay: how many payloads the reader returns before the error. *)
RECURSIVE LCP(_, _, _)
LCP(a, b, k) == IF k < Len(a) /\ k < Len(b) /\ a[k + 1] = b[k + 1] THEN LCP(a, b, k + 1) ELSE k
PredictedDelivered == LCP(consumed \o wire, sent, 0)
PredictionRight == (mode.auth /\ Finished /\ \A k \in 1..Len(sent) : ReaderStructOK(mode, sent[k].n, sent[k].pad))
                     => Len(delivered) = LCP(consumed, sent, 0)

TypeOK == /\ rstate \in {"ok", "err"} /\ closed \in BOOLEAN
          /\ seqW \in 0..(SeqMod - 1) /\ seqR \in 0..(SeqMod - 1)
          /\ Len(sent) <= MaxPkts /\ Len(ops) <= MaxFaults
=============================================================================
