SPECIFICATION Spec
CONSTANTS
  Modes <- NoneOnly
  MaxPacket = 262144
  SeqMod = 8
  CtrBase = 3
  CtrLimbs = 2
  Sizes <- SizesAttack
  StartSeqs <- Seq0
  StartCtrs <- Ctr0Small
  MaxPkts = 2
  MaxFaults = 1
  AttackOps <- AllOps
  Phased = FALSE
  PadRule = "code"
INVARIANTS DeliveredPrefix
CHECK_DEADLOCK FALSE
