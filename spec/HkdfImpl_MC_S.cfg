SPECIFICATION Spec
CONSTANTS
  H = 2
  NBufs = 2
  Design = "own"
  MaxBlocks = 5
  ReadSizes = {0, 1, 2, 3, 4, 5, 6, 7, 8, 9, 10, 11, 12}
INVARIANTS TypeOK ImplInv ReaderOwnsItsState
PROPERTIES Refines AbsErrorConsumesNothing AbsContiguous AbsFailsExactlyBeyondLimit AbsZeroReadIsNoop AbsScribbleIsInvisible ScribbleKeepsReaderState
CHECK_DEADLOCK FALSE
