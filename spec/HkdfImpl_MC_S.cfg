SPECIFICATION Spec
CONSTANTS
  H = 2
  MaxBlocks = 5
  ReadSizes = {0, 1, 2, 3, 4, 5, 6, 7, 8, 9, 10, 11, 12}
INVARIANTS TypeOK ImplInv
PROPERTIES Refines AbsErrorConsumesNothing AbsContiguous AbsFailsExactlyBeyondLimit AbsZeroReadIsNoop
CHECK_DEADLOCK FALSE
