SPECIFICATION Spec
CONSTANTS
  KexL <- aKexL
  HostL <- aHostL
  CipherL <- aCipherL
  MacL <- aMacL
  UserL <- aUserL
  RekeyL <- aRekeyL
  SizeL <- aSizeL
  AeadS <- aAeadS
  Tier = "each"
  Seed = 1
INVARIANT Emit
CHECK_DEADLOCK FALSE
