------------------------------ MODULE PGPKeySel ------------------------------
(* X08 (growth): validity of the components of an OpenPGP entity and the key selection rules of
   golang.org/x/crypto/openpgp.

   Code modelled (what the code does, laxities included):
     keys.go          ReadEntity / addUserID / addSubkey / shouldReplaceSubkeySig  (which self-signature, binding signature
                      or revocation a component ends up with), Entity.primaryIdentity, Entity.encryptionKey(now),
                      Entity.signingKey(now), EntityList.KeysById / KeysByIdUsage / DecryptionKeys, Entity.Serialize
     packet/signature.go   Signature.KeyExpired, the key flags (FlagsValid and the four Flag fields), IsPrimaryId, KeyLifetimeSecs,
                      RevocationReason; packet.go PublicKeyAlgorithm.CanEncrypt / CanSign
     write.go         Encrypt / Sign: which key id the PKESK / one-pass signature carries, which calls fail
     read.go          ReadMessage (decryption candidates = KeysById), CheckDetachedSignature (signer = KeysByIdUsage(.., Sign))

   X03 (PGPFramingKeyring) decides which packet sequences parse into which entity structure; this module starts from a
   well-formed *wire entity* -- a primary key, user ids each followed by certifications, subkeys each followed by binding
   signatures / revocations, all made by the primary key and all verifying -- and decides validity and selection.

   Two layers, both pure operators:
     Parse(w)         wire entity  -> parsed entity (one signature per component, components without one dropped)
     EncKey, SignKey, KeysById, Kbu, DecKeys, PrimaryIdx, SerRT   on the parsed entity, transcribed loop by loop,
   next to the *declarative* rules a user relies on (K1-K7, below), stated with the RFC 4880 notion of expiry.
   Entity.Identities is a Go map: everything that ranges over it is parameterised by an iteration order `ord`, and the
   result a user can rely on is the set of results over all orders.

   Five decisions of the code are switchable (CONSTANT Fix*, FALSE = the code as it was found, TRUE = the repaired rule);
   they are the findings of this check (DESIGN.md 13, X08) and the Doc configurations keep their counterexamples:
     FixPrec       encryptionKey / signingKey: `!FlagsValid || Flag && capable && !expired` binds as `a || (b && c && d)`,
                   so a primary key without a key flags subpacket is selected although it is expired or cannot encrypt
     FixBase       KeyExpired adds the key lifetime to the *signature* creation time; RFC 4880 5.2.3.6 counts from the
                   *key* creation time (a key whose expiry was set or moved later is used past its expiry)
     FixZero       a key expiration subpacket with value 0 means "never expires" (5.2.3.6); KeyExpired treats it as
                   "expired as soon as the signature is older than now"
     FixRevReason  KeysByIdUsage recognises a revoked subkey by the reason-for-revocation subpacket (optional, 5.2.3.23)
                   instead of the signature type: a revocation without a reason does not revoke
     FixSerRev     Entity.Serialize does not write Entity.Revocations: a revoked key is no longer revoked after a
                   Serialize / ReadEntity round trip

   The second part of the module is a small state machine: an entity evolving in time (Tick, AddSubkey, ReBind,
   RevokeSubkey, ReSign, RevokeEntity) with action properties L1-L4. *)
EXTENDS Integers, Sequences, FiniteSets, TLC

CONSTANTS FixPrec, FixBase, FixZero, FixRevReason, FixSerRev

NoLife == 0 - 1                 \* key expiration subpacket absent
None == "none"

(* A signature is one record shape for all uses:
     y   "pos" | "gen" (certifications 0x13 / 0x10 accepted as self-signatures), "cas" (0x12, not accepted),
         "urev" (0x30 certification revocation), "bind" (0x18), "rev" (0x28 subkey revocation)
     t   creation time;  l  key lifetime (NoLife = subpacket absent, 0 = subpacket with value 0)
     pr  primary user id subpacket: "absent" | "false" | "true"
     fv  key flags subpacket present;  f  the flags among "C" certify, "S" sign, "E" encrypt communications, "T" storage
     rs  reason-for-revocation subpacket present *)
Sig(y, t, l, pr, fv, f, rs) == [y |-> y, t |-> t, l |-> l, pr |-> pr, fv |-> fv, f |-> f, rs |-> rs]

CanEncrypt(a) == a \in {"rsa", "elg"}          \* PublicKeyAlgorithm.CanEncrypt: RSA, RSA-E, ElGamal
CanSign(a) == a \in {"rsa", "ecdsa", "dsa"}    \* PublicKeyAlgorithm.CanSign: RSA, RSA-S, DSA, ECDSA

Max(S) == CHOOSE x \in S : \A y \in S : y <= x
Min(S) == CHOOSE x \in S : \A y \in S : x <= y

-----------------------------------------------------------------------------
(* Expiry.  created = creation time of the key the signature is about. *)
KeyExpiredCode(created, s, now) ==
  IF s.l = NoLife THEN FALSE
  ELSE IF FixZero /\ s.l = 0 THEN FALSE
  ELSE now > (IF FixBase THEN created ELSE s.t) + s.l          \* currentTime.After(expiry): not yet expired at the instant itself

KeyExpiredRFC(created, s, now) == s.l # NoLife /\ s.l # 0 /\ now > created + s.l

-----------------------------------------------------------------------------
(* Layer 1: ReadEntity on a well-formed wire entity
     w = [prim |-> [algo, c, pv], nrev, ids |-> Seq([n, sigs]), subs |-> Seq([algo, c, pv, sigs])]  *)
IsSelfCert(s) == s.y \in {"pos", "gen"}

\* addUserID: every accepted self-signature overwrites the previous one: the LAST one parsed wins (not the newest)
IdPick(sigs) == LET S == {i \in 1..Len(sigs) : IsSelfCert(sigs[i])} IN IF S = {} THEN 0 ELSE Max(S)

\* addSubkey + shouldReplaceSubkeySig: a revocation always replaces and is never replaced; among binding signatures
\* the strictly newest, the first parsed among equals
RECURSIVE SubPickFrom(_, _, _)
SubPickFrom(sigs, i, cur) ==
  IF i > Len(sigs) THEN cur
  ELSE LET s == sigs[i] IN
       SubPickFrom(sigs, i + 1,
         IF s.y = "rev" THEN i
         ELSE IF cur = 0 THEN i
         ELSE IF sigs[cur].y = "rev" THEN cur
         ELSE IF s.t > sigs[cur].t THEN i ELSE cur)
SubPick(sigs) == SubPickFrom(sigs, 1, 0)

KeptIds(w) == SelectSeq(w.ids, LAMBDA d : IdPick(d.sigs) # 0)
Parse(w) ==
  LET K == KeptIds(w) IN
  [prim |-> w.prim, nrev |-> w.nrev,
   ids  |-> [i \in 1..Len(K) |-> [n |-> K[i].n, sig |-> K[i].sigs[IdPick(K[i].sigs)]]],
   subs |-> [i \in 1..Len(w.subs) |-> [algo |-> w.subs[i].algo, c |-> w.subs[i].c, pv |-> w.subs[i].pv,
                                        sig |-> w.subs[i].sigs[SubPick(w.subs[i].sigs)]]]]
\* ReadEntity fails for an entity without any accepted identity, and for a subkey without a signature (X03)
ParseOK(w) == Len(KeptIds(w)) > 0 /\ \A i \in 1..Len(w.subs) : Len(w.subs[i].sigs) > 0

-----------------------------------------------------------------------------
(* Layer 2: selection on the parsed entity e.  ord = an iteration order of the identities map (a permutation). *)
Perms(n) == {p \in [1..n -> 1..n] : \A i, j \in 1..n : p[i] = p[j] => i = j}
Orders(e) == Perms(Len(e.ids))

\* primaryIdentity: the first identity (in iteration order) flagged primary, else the first
PrimaryIdx(e, ord) ==
  LET F == {k \in 1..Len(ord) : e.ids[ord[k]].sig.pr = "true"} IN
  IF F = {} THEN ord[1] ELSE ord[Min(F)]

\* KeysById for the primary key: the first identity's signature, replaced by the first LATER identity flagged primary
KbiSelfIdx(e, ord) ==
  LET F == {k \in 2..Len(ord) : e.ids[ord[k]].sig.pr = "true"} IN
  IF F = {} THEN ord[1] ELSE ord[Min(F)]

SubName(i) == "S" \o ToString(i)

\* encryptionKey -------------------------------------------------------------
SubEncOK(sk, now) == /\ sk.sig.fv /\ "E" \in sk.sig.f /\ CanEncrypt(sk.algo)
                     /\ ~KeyExpiredCode(sk.c, sk.sig, now)
RECURSIVE EncScan(_, _, _, _)
EncScan(subs, now, i, cand) ==      \* "maxTime.IsZero() || CreationTime.After(maxTime)": first candidate, then strictly newer
  IF i > Len(subs) THEN cand
  ELSE EncScan(subs, now, i + 1,
         IF SubEncOK(subs[i], now) /\ (cand = 0 \/ subs[i].sig.t > subs[cand].sig.t) THEN i ELSE cand)
PrimEncOK(e, s, now) ==
  IF FixPrec THEN (~s.fv \/ "E" \in s.f) /\ CanEncrypt(e.prim.algo) /\ ~KeyExpiredCode(e.prim.c, s, now)
  ELSE ~s.fv \/ ("E" \in s.f /\ CanEncrypt(e.prim.algo) /\ ~KeyExpiredCode(e.prim.c, s, now))
EncKey(e, now, ord) ==
  LET c == EncScan(e.subs, now, 1, 0) IN
  IF c # 0 THEN SubName(c)
  ELSE IF PrimEncOK(e, e.ids[PrimaryIdx(e, ord)].sig, now) THEN "P" ELSE None

\* signingKey ----------------------------------------------------------------
SubSignOK(sk, now) == /\ sk.sig.fv /\ "S" \in sk.sig.f /\ CanSign(sk.algo)
                      /\ ~KeyExpiredCode(sk.c, sk.sig, now)
PrimSignOK(e, s, now) ==
  IF FixPrec THEN (~s.fv \/ "S" \in s.f) /\ ~KeyExpiredCode(e.prim.c, s, now)
  ELSE ~s.fv \/ ("S" \in s.f /\ ~KeyExpiredCode(e.prim.c, s, now))
SignKey(e, now, ord) ==
  LET C == {i \in 1..Len(e.subs) : SubSignOK(e.subs[i], now)} IN
  IF C # {} THEN SubName(Min(C))          \* the FIRST subkey that qualifies (break), not the newest
  ELSE IF PrimSignOK(e, e.ids[PrimaryIdx(e, ord)].sig, now) THEN "P" ELSE None

\* the results a caller can rely on: over all iteration orders
EncKeys(e, now) == {EncKey(e, now, ord) : ord \in Orders(e)}
SignKeys(e, now) == {SignKey(e, now, ord) : ord \in Orders(e)}

\* Encrypt / Sign (write.go): which key id is used, or which class of failure
AlgoOf(e, k) == IF k = "P" THEN e.prim.algo ELSE e.subs[CHOOSE i \in 1..Len(e.subs) : SubName(i) = k].algo
PrivOf(e, k) == IF k = "P" THEN e.prim.pv ELSE e.subs[CHOOSE i \in 1..Len(e.subs) : SubName(i) = k].pv
EncryptRes(e, now, ord) ==
  LET k == EncKey(e, now, ord) IN
  IF k = None THEN "err:nokey"                              \* InvalidArgumentError "... has no encryption keys"
  ELSE IF ~CanEncrypt(AlgoOf(e, k)) THEN "err:algo"         \* SerializeEncryptedKey refuses the algorithm
  ELSE k
SignRes(e, now, ord) ==
  LET k == SignKey(e, now, ord) IN
  IF k = None THEN "err:nokey"                              \* InvalidArgumentError "no valid signing keys"
  ELSE IF ~PrivOf(e, k) THEN "err:nopriv"                   \* "no private key in signing key"
  ELSE k
EncryptResults(e, now) == {EncryptRes(e, now, ord) : ord \in Orders(e)}
SignResults(e, now) == {SignRes(e, now, ord) : ord \in Orders(e)}

\* KeysById / KeysByIdUsage / DecryptionKeys ----------------------------------
KeyNames(e) == {"P"} \cup {SubName(i) : i \in 1..Len(e.subs)}
SelfSigOf(e, k, ord) == IF k = "P" THEN e.ids[KbiSelfIdx(e, ord)].sig
                        ELSE e.subs[CHOOSE i \in 1..Len(e.subs) : SubName(i) = k].sig
SigRevoked(s) == IF FixRevReason THEN s.y = "rev" ELSE s.rs
\* is key k returned by KeysByIdUsage(id of k, usage u)?  (u = {} stands for requiredUsage = 0)
Kbu(e, k, u, ord) ==
  /\ e.nrev = 0
  /\ LET s == SelfSigOf(e, k, ord) IN
     /\ ~SigRevoked(s)
     /\ (s.fv /\ u # {}) => u \subseteq s.f
KbuResults(e, k, u) == {Kbu(e, k, u, ord) : ord \in Orders(e)}
\* DecryptionKeys: subkeys only, with private key, flags absent or any encryption flag (the algorithm is not looked at)
DecOK(sk) == sk.pv /\ (~sk.sig.fv \/ sk.sig.f \cap {"E", "T"} # {})
DecKeys(e) == LET sel == SelectSeq([i \in 1..Len(e.subs) |-> i], LAMBDA i : DecOK(e.subs[i])) IN
              [j \in 1..Len(sel) |-> SubName(sel[j])]
\* CheckDetachedSignature / ReadMessage: the signer of a signature made by key k is found iff KeysByIdUsage(k, Sign) is non-empty
SignerFound(e, k, ord) == Kbu(e, k, {"S"}, ord)

\* Entity.Serialize followed by ReadEntity: public parts, the chosen signature of every component, no key revocations
SerRT(e) == [prim |-> [e.prim EXCEPT !.pv = FALSE], nrev |-> IF FixSerRev THEN e.nrev ELSE 0, ids |-> e.ids,
             subs |-> [i \in 1..Len(e.subs) |-> [e.subs[i] EXCEPT !.pv = FALSE]]]

-----------------------------------------------------------------------------
(* The rules a user relies on, stated on the parsed entity with the RFC notion of expiry.  They are properties of the
   functions above for EVERY iteration order. *)
SubRevoked(sk) == sk.sig.y = "rev"
UsableEncSub(sk, now) == /\ ~SubRevoked(sk) /\ sk.sig.fv /\ "E" \in sk.sig.f /\ CanEncrypt(sk.algo)
                         /\ ~KeyExpiredRFC(sk.c, sk.sig, now)
UsableSignSub(sk, now) == /\ ~SubRevoked(sk) /\ sk.sig.fv /\ "S" \in sk.sig.f /\ CanSign(sk.algo)
                          /\ ~KeyExpiredRFC(sk.c, sk.sig, now)
UsableEncPrim(e, s, now) == (~s.fv \/ "E" \in s.f) /\ CanEncrypt(e.prim.algo) /\ ~KeyExpiredRFC(e.prim.c, s, now)
UsableSignPrim(e, s, now) == (~s.fv \/ "S" \in s.f) /\ ~KeyExpiredRFC(e.prim.c, s, now)

SubIdx(k) == CHOOSE i \in 1..8 : SubName(i) = k

\* K1: the encryption key is not expired, not revoked, encryption capable and flagged (or the flag-less primary), a
\*     usable subkey is preferred over the primary key, among usable subkeys the one with the newest binding signature
\*     (the first among equals), and "no key" is reported only when nothing is usable
K1_Enc(e, now) == \A ord \in Orders(e) : \A k \in {EncKey(e, now, ord)} :
  \A U \in {{i \in 1..Len(e.subs) : UsableEncSub(e.subs[i], now)}} :
  LET ps == e.ids[PrimaryIdx(e, ord)].sig IN
  /\ k = "P" => UsableEncPrim(e, ps, now) /\ U = {}
  /\ k \notin {"P", None} => /\ SubIdx(k) \in U
                             /\ \A j \in U : e.subs[j].sig.t <= e.subs[SubIdx(k)].sig.t
                             /\ \A j \in U : e.subs[j].sig.t = e.subs[SubIdx(k)].sig.t => SubIdx(k) <= j
  /\ k = None => U = {} /\ ~UsableEncPrim(e, ps, now)

\* K2: the same for signing; among usable subkeys the FIRST one (the code breaks at the first match)
K2_Sign(e, now) == \A ord \in Orders(e) : \A k \in {SignKey(e, now, ord)} :
  \A U \in {{i \in 1..Len(e.subs) : UsableSignSub(e.subs[i], now)}} :
  LET ps == e.ids[PrimaryIdx(e, ord)].sig IN
  /\ k = "P" => UsableSignPrim(e, ps, now) /\ U = {}
  /\ k \notin {"P", None} => SubIdx(k) \in U /\ \A j \in U : SubIdx(k) <= j
  /\ k = None => U = {} /\ ~UsableSignPrim(e, ps, now)

\* K3 (what the code promises about revocation): KeysByIdUsage returns nothing from an entity with a key revocation and
\*     never a revoked subkey; a revoked subkey is never selected for encryption or signing
K3_Revoked(e, now) ==
  /\ \A k \in KeyNames(e), ord \in Orders(e), u \in {{}, {"S"}, {"E"}} :
        Kbu(e, k, u, ord) => e.nrev = 0 /\ (k # "P" => ~SubRevoked(e.subs[SubIdx(k)]))
  /\ \A ord \in Orders(e) : \A i \in 1..Len(e.subs) :
        SubRevoked(e.subs[i]) => EncKey(e, now, ord) # SubName(i) /\ SignKey(e, now, ord) # SubName(i)
\* what the code does NOT promise (documented counterexample): a key of a revoked entity is selected
K3x_NoKeyFromRevokedEntity(e, now) == e.nrev > 0 => EncKeys(e, now) = {None} /\ SignKeys(e, now) = {None}

\* K4: primaryIdentity returns the identity flagged primary when exactly one is flagged
K4_Primary(e) ==
  LET F == {i \in 1..Len(e.ids) : e.ids[i].sig.pr = "true"} IN
  /\ Cardinality(F) = 1 => \A ord \in Orders(e) : PrimaryIdx(e, ord) \in F
  /\ F # {} => \A ord \in Orders(e) : PrimaryIdx(e, ord) \in F
\* not promised (documented counterexample): the result does not depend on the map iteration order
K4x_Deterministic(e, now) == Cardinality(EncKeys(e, now)) = 1 /\ Cardinality(SignKeys(e, now)) = 1

\* K5: Encrypt uses exactly the key encryptionKey selects and fails when there is none; likewise Sign
K5_Use(e, now) == \A ord \in Orders(e) :
  /\ EncryptRes(e, now, ord) \in KeyNames(e) => EncryptRes(e, now, ord) = EncKey(e, now, ord)
  /\ EncKey(e, now, ord) = None => EncryptRes(e, now, ord) = "err:nokey"
  /\ SignRes(e, now, ord) \in KeyNames(e) => SignRes(e, now, ord) = SignKey(e, now, ord) /\ PrivOf(e, SignRes(e, now, ord))
  /\ SignKey(e, now, ord) = None => SignRes(e, now, ord) = "err:nokey"
\* with the repaired precedence Encrypt never reaches SerializeEncryptedKey with a key that cannot encrypt
K5x_NoAlgoError(e, now) == "err:algo" \notin EncryptResults(e, now)

\* K6: KeysByIdUsage = the key with that id, unless the entity or the key is revoked, unless flags are present and do not
\*     cover the usage (a key without a key flags subpacket meets every usage); DecryptionKeys = the private subkeys
\*     whose flags are absent or include an encryption flag, in order
K6_Usage(e) == \A k \in KeyNames(e), ord \in Orders(e), u \in {{}, {"C"}, {"S"}, {"E"}, {"E", "T"}, {"S", "E"}, {"C", "S", "E", "T"}} :
  LET s == SelfSigOf(e, k, ord) IN
  Kbu(e, k, u, ord) <=> /\ e.nrev = 0
                        /\ (k # "P" => ~SubRevoked(e.subs[SubIdx(k)]))
                        /\ (~s.fv \/ u \subseteq s.f)
K6_Dec(e) == \A D \in {DecKeys(e)} :
  /\ \A j \in 1..Len(D) : DecOK(e.subs[SubIdx(D[j])])
  /\ \A i \in 1..Len(e.subs) : DecOK(e.subs[i]) => \E j \in 1..Len(D) : D[j] = SubName(i)
  /\ \A j1, j2 \in 1..Len(D) : j1 < j2 => SubIdx(D[j1]) < SubIdx(D[j2])
\* every key Encrypt can pick for an entity with private keys can be used to decrypt: KeysById finds it (trivially) --
\* but DecryptionKeys (used for the wildcard key id 0) lists subkeys only.  Not promised; documented counterexample.
K6x_DecCoversEnc(e, now) == \A k \in EncryptResults(e, now) :
  (k \in KeyNames(e) /\ PrivOf(e, k)) => \E j \in 1..Len(DecKeys(e)) : DecKeys(e)[j] = k

\* K7: the selection results survive Entity.Serialize / ReadEntity
K7_RoundTrip(e, now) ==
  LET r == SerRT(e) IN
  /\ EncKeys(r, now) = EncKeys(e, now) /\ SignKeys(r, now) = SignKeys(e, now)
  /\ \A k \in KeyNames(e), u \in {{}, {"S"}, {"E"}} : KbuResults(r, k, u) = KbuResults(e, k, u)

\* Parser rules (RFC 4880 5.2.3.3 recommends the most recent self-signature)
P1_SubNewest(w) == \A i \in 1..Len(w.subs) :
  LET sigs == w.subs[i].sigs  p == SubPick(sigs) IN
  IF \E j \in 1..Len(sigs) : sigs[j].y = "rev" THEN sigs[p].y = "rev"
  ELSE \A j \in 1..Len(sigs) : sigs[j].t <= sigs[p].t
\* not what the code does for user ids (documented counterexample): the newest self-signature wins
P1x_IdNewest(w) == \A i \in 1..Len(w.ids) :
  LET sigs == w.ids[i].sigs  p == IdPick(sigs) IN
  p # 0 => \A j \in 1..Len(sigs) : IsSelfCert(sigs[j]) => sigs[j].t <= sigs[p].t
\* not what the code does (documented counterexample): a revoked user id is not used
P2x_RevokedIdDropped(w) == \A i \in 1..Len(w.ids) :
  (\E j \in 1..Len(w.ids[i].sigs) : w.ids[i].sigs[j].y = "urev") => IdPick(w.ids[i].sigs) = 0

-----------------------------------------------------------------------------
(* State: a wire entity, the clock, and a phase.
     static enumeration ("all small entities"):  Init picks the primary key and the user ids, AddSubs the subkeys
     evolution: Tick / AddSubkey / ReBind / RevokeSubkey / ReSign / RevokeEntity on one entity *)
CONSTANTS Slice,          \* name of the menu slice
          BaseMenu(_),    \* BaseMenu(Slice) = set of wire entities without subkeys
          SubMenu(_, _),  \* SubMenu(Slice, base) = set of sequences of wire subkeys to combine with that base
          Nows,           \* the instants at which every entity is queried (static part)
          MaxT, MaxSubs, MaxSubSigs, MaxIdSigs, LifeAlgos, LifeFlags, LifeLives   \* bounds of the evolution
VARIABLES ent, now, phase
vars == <<ent, now, phase>>

InitAll == ent \in BaseMenu(Slice) /\ now = 0 /\ phase = "base"
AddSubs == /\ phase = "base"
           /\ \E ss \in SubMenu(Slice, ent) : ent' = [ent EXCEPT !.subs = ss]
           /\ phase' = "full" /\ UNCHANGED now
SpecAll == InitAll /\ [][AddSubs]_vars

Full == phase = "full"
E == Parse(ent)

InvK1 == Full => \A e \in {E} : \A n \in Nows : K1_Enc(e, n)
InvK2 == Full => \A e \in {E} : \A n \in Nows : K2_Sign(e, n)
InvK3 == Full => \A e \in {E} : \A n \in Nows : K3_Revoked(e, n)
InvK4 == Full => \A e \in {E} : K4_Primary(e)
InvK5 == Full => \A e \in {E} : \A n \in Nows : K5_Use(e, n)
InvK5x == Full => \A e \in {E} : \A n \in Nows : K5x_NoAlgoError(e, n)
InvK6 == Full => \A e \in {E} : K6_Usage(e) /\ K6_Dec(e)
InvK7 == Full => \A e \in {E} : \A n \in Nows : K7_RoundTrip(e, n)
InvP1 == Full => P1_SubNewest(ent)
\* documented counterexamples (each must be violated)
DocK3x == Full => \A e \in {E} : \A n \in Nows : K3x_NoKeyFromRevokedEntity(e, n)
DocK4x == Full => \A e \in {E} : \A n \in Nows : K4x_Deterministic(e, n)
DocK6x == Full => \A e \in {E} : \A n \in Nows : K6x_DecCoversEnc(e, n)
DocP1x == Full => P1x_IdNewest(ent)
DocP2x == Full => P2x_RevokedIdDropped(ent)

\* ---- evolution ------------------------------------------------------------
InitLife == ent \in BaseMenu(Slice) /\ now = 0 /\ phase = "life"

LastBind(sigs) == LET B == {i \in 1..Len(sigs) : sigs[i].y = "bind"} IN sigs[Max(B)]
Tick == /\ now < MaxT /\ now' = now + 1 /\ UNCHANGED <<ent, phase>>
AddSubkey == /\ Len(ent.subs) < MaxSubs
             /\ \E a \in LifeAlgos, f \in LifeFlags, l \in LifeLives :
                  /\ (("S" \in f) => CanSign(a))              \* a signing subkey needs a cross-signature by itself
                  /\ ent' = [ent EXCEPT !.subs = Append(@, [algo |-> a, c |-> now, pv |-> TRUE,
                                   sigs |-> <<Sig("bind", now, l, "absent", TRUE, f, FALSE)>>])]
             /\ UNCHANGED <<now, phase>>
ReBind == \E i \in 1..Len(ent.subs), l \in LifeLives :
             /\ Len(ent.subs[i].sigs) < MaxSubSigs
             /\ \E j \in 1..Len(ent.subs[i].sigs) : ent.subs[i].sigs[j].y = "bind"
             /\ LET b == LastBind(ent.subs[i].sigs) IN
                ent' = [ent EXCEPT !.subs[i].sigs = Append(@, Sig("bind", now, l, "absent", b.fv, b.f, FALSE))]
             /\ UNCHANGED <<now, phase>>
RevokeSubkey == \E i \in 1..Len(ent.subs), rs \in BOOLEAN :
             /\ Len(ent.subs[i].sigs) < MaxSubSigs
             /\ ent' = [ent EXCEPT !.subs[i].sigs = Append(@, Sig("rev", now, NoLife, "absent", FALSE, {}, rs))]
             /\ UNCHANGED <<now, phase>>
ReSign == \E i \in 1..Len(ent.ids), l \in LifeLives :
             /\ Len(ent.ids[i].sigs) < MaxIdSigs
             /\ LET s == ent.ids[i].sigs[Len(ent.ids[i].sigs)] IN
                ent' = [ent EXCEPT !.ids[i].sigs = Append(@, Sig(s.y, now, l, s.pr, s.fv, s.f, FALSE))]
             /\ UNCHANGED <<now, phase>>
RevokeEntity == /\ ent.nrev = 0 /\ ent' = [ent EXCEPT !.nrev = 1] /\ UNCHANGED <<now, phase>>
NextLife == Tick \/ AddSubkey \/ ReBind \/ RevokeSubkey \/ ReSign \/ RevokeEntity
SpecLife == InitLife /\ [][NextLife]_vars

Life == phase = "life"
LifeK1 == Life => \A e \in {E} : K1_Enc(e, now)
LifeK2 == Life => \A e \in {E} : K2_Sign(e, now)
LifeK3 == Life => \A e \in {E} : K3_Revoked(e, now)
LifeK5 == Life => \A e \in {E} : K5_Use(e, now)
LifeK6 == Life => \A e \in {E} : K6_Usage(e) /\ K6_Dec(e)
LifeK7 == Life => \A e \in {E} : K7_RoundTrip(e, now)

E2 == Parse(ent')
\* L1: once a subkey is revoked it stays revoked, whatever is signed later, and is never selected again
L1_RevokedForGood == [][\A i \in 1..Len(ent.subs) : SubRevoked(E.subs[i]) =>
                           /\ SubRevoked(E2.subs[i])
                           /\ SubName(i) \notin EncKeys(E2, now') /\ SubName(i) \notin SignKeys(E2, now')]_vars
\* L2: a strictly later binding signature supersedes the earlier ones (unless the subkey is revoked); a later
\*     self-signature on a user id (appended after the earlier ones) supersedes
IsTick == now' # now
IsResign == \E i \in 1..Len(ent.ids) : Len(ent'.ids[i].sigs) > Len(ent.ids[i].sigs)
IsRebind == \E i \in 1..Len(ent.subs) : /\ Len(ent'.subs) = Len(ent.subs) /\ Len(ent'.subs[i].sigs) > Len(ent.subs[i].sigs)
                                        /\ ent'.subs[i].sigs[Len(ent'.subs[i].sigs)].y = "bind"
IsRevEntity == ent'.nrev # ent.nrev
L2_SupersedeId == [][IsResign => \A i \in 1..Len(ent.ids) :
                         Len(ent'.ids[i].sigs) = Len(ent.ids[i].sigs) + 1
                            => E2.ids[i].sig = ent'.ids[i].sigs[Len(ent'.ids[i].sigs)]]_vars
L2_SupersedeBind == [][IsRebind => \A i \in 1..Len(ent.subs) :
                          (Len(ent'.subs[i].sigs) = Len(ent.subs[i].sigs) + 1 /\ ~SubRevoked(E.subs[i]) /\ E.subs[i].sig.t < now)
                             => E2.subs[i].sig = ent'.subs[i].sigs[Len(ent'.subs[i].sigs)]]_vars
\* L3: time alone never makes a key usable: what is not selectable now is not selectable later (entity unchanged)
L3_TickMonotone == [][IsTick =>
                         /\ (EncKeys(E, now) = {None} => EncKeys(E2, now') = {None})
                         /\ (SignKeys(E, now) = {None} => SignKeys(E2, now') = {None})
                         /\ \A i \in 1..Len(ent.subs) : (SubName(i) \in EncKeys(E2, now') => UsableEncSub(E.subs[i], now))]_vars
\* L4: a key revocation never changes which key Encrypt / Sign pick (the code ignores it: stated as it is), but
\*     removes every key from KeysByIdUsage
L4_EntityRevocation == [][IsRevEntity =>
                         /\ EncKeys(E2, now') = EncKeys(E, now) /\ SignKeys(E2, now') = SignKeys(E, now)
                         /\ \A k \in KeyNames(E2), u \in {{}, {"S"}} : KbuResults(E2, k, u) = {FALSE}]_vars
=============================================================================
