SPECIFICATION Spec
CONSTANTS
  Menu <- MenuWhole
  AEAD <- MCAEAD
INVARIANTS Emit
CHECK_DEADLOCK FALSE
