SPECIFICATION Spec
CONSTANTS
  Menu <- MenuCipherMacCS
  AEAD <- MCAEAD
INVARIANTS BothOrNeither Mirror RFCChoice FailIffNoCommon FindCommonIsRFC
CHECK_DEADLOCK FALSE
