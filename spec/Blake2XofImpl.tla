---------------------------- MODULE Blake2XofImpl ----------------------------
(***************************************************************************)
(* C06 - implementation-shaped specification of type xof in                *)
(* /repo/blake2b/blake2x.go and /repo/blake2s/blake2x.go (same code up to  *)
(* Size and the width of the length field):                                *)
(*   fields d (the digest absorbing the message), length, remaining,       *)
(*   cfg (parameter block of the output nodes; cfg[0] = digest length of   *)
(*   the next node), root, block (the last node computed), offset (bytes   *)
(*   of block already handed out), nodeOffset, readMode.                   *)
(* Read: first call finalizes the root; remaining = 0 -> io.EOF; clamp n   *)
(* to remaining; serve the tail of block; whole nodes straight into p;     *)
(* a last partial read computes one more node - with cfg[0] = remaining    *)
(* if fewer than Size bytes remain (the short last node) - and keeps the   *)
(* rest of it in block.  A node is modelled by what determines it:         *)
(* [w (message length behind the root), node offset, cfg[0]].              *)
(* TLC checks the refinement Blake2XofImpl => Blake2Xof under              *)
(* pos = Limit - remaining.                                                *)
(***************************************************************************)
EXTENDS Integers, Sequences

CONSTANTS N, LSet, Max, KSet, WSet, Readers, MaxW
Materialize == TRUE

VARIABLES L,
          xi,       \* slot -> [used, readMode, w, remaining, offset, nodeOffset, cfg0, block]
          last
ivars == <<L, xi, last>>

A == INSTANCE Blake2Xof WITH
       xs <- [r \in 1..Readers |-> [used |-> xi[r].used,
                                    mode |-> IF xi[r].readMode THEN "squeeze" ELSE "absorb",
                                    w |-> xi[r].w,
                                    pos |-> (IF L = -1 THEN Max ELSE L) - xi[r].remaining]]

NoBlock == [w |-> 0, node |-> 0, dlen |-> 0]
\* Reset(): cfg[0] = Size; d.Reset(); remaining = length (or maxOutputLength); offset, nodeOffset = 0; readMode = false
FreshI == [used |-> TRUE, readMode |-> FALSE, w |-> 0, remaining |-> A!Limit(L), offset |-> 0,
           nodeOffset |-> 0, cfg0 |-> N, block |-> NoBlock]
FreeI == [used |-> FALSE, readMode |-> FALSE, w |-> 0, remaining |-> A!Limit(L), offset |-> 0,
          nodeOffset |-> 0, cfg0 |-> N, block |-> NoBlock]

Init == /\ L \in LSet
        /\ xi = [r \in 1..Readers |-> IF r = 1 THEN FreshI ELSE FreeI]
        /\ last = A!Ev("new", 1, 0, 0, "ok", <<>>)

Write(r, n) ==
  /\ xi[r].used
  /\ UNCHANGED L
  /\ IF xi[r].readMode
     THEN /\ UNCHANGED xi /\ last' = A!Ev("write", r, n, 0, "panic", <<>>)
     ELSE /\ xi[r].w + n <= MaxW
          /\ xi' = [xi EXCEPT ![r].w = @ + n]          \* x.d.Write(p): the digest's buffering is Blake2Buf's subject
          /\ last' = A!Ev("write", r, n, n, "ok", <<>>)

\* bytes [from, to) (0-based) of the node held in block
BlockBytes(b, from, to) == [j \in 1..(to - from) |-> [w |-> b.w, node |-> b.node, dlen |-> b.dlen, idx |-> from + j - 1]]

\* the loop `for len(p) >= Size`: k whole nodes starting at node offset no, all with digest length c0
RECURSIVE WholeNodes(_, _, _, _)
WholeNodes(w, no, c0, k) ==
  IF k = 0 THEN <<>> ELSE BlockBytes([w |-> w, node |-> no, dlen |-> c0], 0, N) \o WholeNodes(w, no + 1, c0, k - 1)

Read(r, k) ==
  /\ xi[r].used
  /\ UNCHANGED L
  /\ LET x == xi[r] IN
     IF x.remaining = 0
     THEN /\ xi' = [xi EXCEPT ![r].readMode = TRUE]
          /\ last' = A!Ev("read", r, k, 0, "eof", <<>>)
     ELSE
       LET n == IF k > x.remaining THEN x.remaining ELSE k IN
       IF x.offset > 0 /\ n < N - x.offset
       THEN \* x.offset += copy(p, x.block[x.offset:]); x.remaining -= n; return
            /\ xi' = [xi EXCEPT ![r].readMode = TRUE, ![r].offset = @ + n, ![r].remaining = @ - n]
            /\ last' = A!Ev("read", r, k, n, "ok", BlockBytes(x.block, x.offset, x.offset + n))
       ELSE
         LET br   == IF x.offset > 0 THEN N - x.offset ELSE 0                      \* blockRemaining
             out1 == IF x.offset > 0 THEN BlockBytes(x.block, x.offset, N) ELSE <<>>
             rem1 == x.remaining - br
             p1   == n - br                                                        \* len(p) after the tail
             kw   == p1 \div N                                                     \* whole nodes
             out2 == WholeNodes(x.w, x.nodeOffset, x.cfg0, kw)
             blk2 == IF kw > 0 THEN [w |-> x.w, node |-> x.nodeOffset + kw - 1, dlen |-> x.cfg0] ELSE x.block
             no2  == x.nodeOffset + kw
             rem2 == rem1 - kw * N
             todo == p1 - kw * N
             c03  == IF todo > 0 /\ rem2 < N THEN rem2 ELSE x.cfg0                 \* x.cfg[0] = byte(x.remaining)
             blk3 == IF todo > 0 THEN [w |-> x.w, node |-> no2, dlen |-> c03] ELSE blk2
             out3 == IF todo > 0 THEN BlockBytes(blk3, 0, todo) ELSE <<>>
         IN /\ xi' = [xi EXCEPT ![r].readMode = TRUE, ![r].offset = todo, ![r].remaining = rem2 - todo,
                                ![r].nodeOffset = IF todo > 0 THEN no2 + 1 ELSE no2,
                                ![r].cfg0 = c03, ![r].block = blk3]
            /\ last' = A!Ev("read", r, k, n, "ok", out1 \o out2 \o out3)

Clone(r) ==
  /\ xi[r].used
  /\ \E q \in 1..Readers : /\ ~xi[q].used
                           /\ \A q2 \in 1..(q - 1) : xi[q2].used
                           /\ xi' = [xi EXCEPT ![q] = xi[r]]                       \* clone := *x
                           /\ last' = A!Ev("clone", r, q, 0, "ok", <<>>)
  /\ UNCHANGED L

Reset(r) ==
  /\ xi[r].used
  /\ xi' = [xi EXCEPT ![r] = [FreshI EXCEPT !.block = xi[r].block]]               \* block keeps its stale contents
  /\ last' = A!Ev("reset", r, 0, 0, "ok", <<>>)
  /\ UNCHANGED L

Next == \E r \in 1..Readers : \/ \E n \in WSet : Write(r, n)
                              \/ \E k \in KSet : Read(r, k)
                              \/ Clone(r) \/ Reset(r)
Spec == Init /\ [][Next]_ivars

TypeOK == \A r \in 1..Readers :
            /\ xi[r].remaining \in 0..A!Limit(L) /\ xi[r].offset \in 0..(N - 1)
            /\ xi[r].cfg0 \in 1..N /\ xi[r].nodeOffset >= 0
\* the bookkeeping behind the refinement: with pos = Limit - remaining,
\* offset = pos % N, nodeOffset = ceil(pos / N), block holds node (pos-1) \div N when offset > 0,
\* and cfg[0] differs from Size only once the short last node has been produced
XofInv == \A r \in 1..Readers :
            LET x == xi[r]
                pos == A!Limit(L) - x.remaining
            IN x.used =>
                /\ x.offset = pos % N
                /\ x.nodeOffset = (pos + N - 1) \div N
                /\ (x.offset > 0 => x.block = [w |-> x.w, node |-> pos \div N, dlen |-> A!NodeLen(L, pos \div N)])
                /\ (x.cfg0 # N => x.remaining < N)
Refines == A!Spec
AbsTypeOK == A!TypeOK
AbsEofExact == A!EofExact
AbsReadIsStream == A!ReadIsStream
AbsWriteMode == A!WriteMode
AbsIndependent == A!Independent
AbsCloneCopies == A!CloneCopies
=============================================================================
