-------------------------- MODULE PGPFramingReader_MC --------------------------
(* Bounded instances of PGPFramingReader (X03 c) and the history generator for binding R. *)
EXTENDS PGPFramingReader, Json

\* a tree with unknown and unparsable packets, an empty container and two levels of nesting
Tree == [s \in 1..4 |->
           CASE s = 1 -> <<Pkt(1), Unk, Cont(2), Pkt(2), Bad, Cont(3), Unk, Pkt(3)>>
             [] s = 2 -> <<Pkt(4), Cont(4), Unk>>
             [] s = 3 -> <<>>
             [] OTHER -> <<Unk, Pkt(5)>>]
\* a chain of containers deeper than the recursion limit: stream i holds one container with body i+1
Chain(n) == [s \in 1..n |-> IF s < n THEN <<Cont(s + 1)>> ELSE <<Pkt(1)>>]
Chain34 == Chain(34)
Chain5 == Chain(5)

Final == Len(hist) = MaxOps \/ ret.k = "toomany"
Emit == Final => PrintT("TRACE " \o ToJson([hist |-> hist]))
\* the stream table, once
EmitStreams == hist = <<>> => PrintT("TRACE " \o ToJson([streams |-> Streams]))
=============================================================================
