SPECIFICATION GenSpec
CONSTANTS
  Ops = {1}
  Budgets = {0, 1, 3}
  PhaseSet = {1, 2}
  MaxNonces = 100
  MaxReplies = 5
  NonceURLs = {TRUE, FALSE}
  InitPools = {0, 1}
INVARIANTS Emit
CHECK_DEADLOCK FALSE
