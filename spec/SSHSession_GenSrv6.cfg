SPECIFICATION GenSpec
CONSTANTS
  MaxSrv = 6
  MaxCli = 2
  Cfgs <- AllCfgs
  Lite = "srv"
VIEW AbsView
CHECK_DEADLOCK FALSE
