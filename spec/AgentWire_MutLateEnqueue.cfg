SPECIFICATION Spec
CONSTANTS
  Keys = {"k1", "k2"}
  RSAKeys = {}
  Pass = {"p"}
  Lifetimes = {0}
  Ticks = {}
  Comments = {"a", "b"}
  Flags = {0}
  MaxLen = 0
  Conns <- One
  PipeConns <- Only1
  Callers <- Two
  MaxCalls = 1
  Budget = 2
  ReqMenu <- MenuMut
  NoMutex = FALSE
  LateEnqueue = TRUE
  ContinueAfterOversize = FALSE
  UnknownKills = FALSE
  Faults = FALSE
  Sticky = FALSE
INVARIANTS OwnReply

VIEW View
CHECK_DEADLOCK FALSE
