SPECIFICATION Spec
CONSTANTS
  Menu <- MenuHostKey
  AEAD <- MCAEAD
INVARIANTS BothOrNeither Mirror RFCChoice FailIffNoCommon FindCommonIsRFC
CHECK_DEADLOCK FALSE
