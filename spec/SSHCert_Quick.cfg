SPECIFICATION Spec
CONSTANTS
  Menus <- MenusQuick
  FixTime = TRUE
INVARIANTS CodeIsConjunction LiteralExceptKnown TimeIsLiteral NonCertIsFallback ReasonSound
CHECK_DEADLOCK FALSE
