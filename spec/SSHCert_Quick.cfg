SPECIFICATION Spec
CONSTANTS
  Menus <- MenusQuick
INVARIANTS CodeIsConjunction LiteralExceptKnown NonCertIsFallback ReasonSound
CHECK_DEADLOCK FALSE
