INIT Init
NEXT Next
CONSTANTS
  SBCases <- SBThorough
  BoxCases <- BoxThorough
  OpenMax = 100
INVARIANTS EmitAndLaws
CHECK_DEADLOCK FALSE
