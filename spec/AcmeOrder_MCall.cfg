\* thorough: every combination of initial order/authorization/challenge statuses
SPECIFICATION Spec
CONSTANTS
  OpSet <- AllOps
  Bundles = {TRUE, FALSE}
  MaxCalls = 1
  MaxReq = 4
  MaxEnv = 2
  Shapes <- CoreShapes
  RetrySet = {0, 3}
  Budget = 1
  Malformed = FALSE
  CertKinds <- FewCerts
  AltSet = {0, 2}
  InitStates <- InitAll
  CallOK <- AnyCall
  EnvOK <- AnyEnv
  FixNegRA = FALSE
  Mut = "none"
VIEW MCView
INVARIANTS TypeOK P1_NoFalseSuccess P2_TypedFailures P3_FinalizeOnce P4_PollSpacing P5_StopOnCancel P6_CertAfterValid P7_LastObserved P8_ChainLimits P9_PollExactlyWhileNotFinal ServerSane
CHECK_DEADLOCK FALSE
