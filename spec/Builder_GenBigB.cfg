SPECIFICATION Spec
CONSTANTS
  Profiles <- ProfGenBigB
INVARIANTS ErrIff CapErrOnlyFixed FitsAll ParseBack CapRespected LenIsSum PanicOnlyMisuse Emit
CHECK_DEADLOCK FALSE
