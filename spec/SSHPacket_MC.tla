---------------------------- MODULE SSHPacket_MC ----------------------------
(* Bounded instances of SSHPacket and the behaviour generators for binding R (C25, C26). *)
EXTENDS SSHPacket, Json

\* ---- mode sets
ClassOf(cl) == {m \in AllModes : m.class = cl}
Rep(cipher, mac) == CHOOSE m \in AllModes : m.cipher = cipher /\ m.mac = mac
ConformingModes == AllModes      \* every registered mode (CBC x -etm MAC included since the repair 78606fd)
CBCEtMModes == ClassOf("CBCEtM")
RepEaM    == Rep("aes128-ctr", "hmac-sha2-256")
RepEaM8   == Rep("arcfour128", "hmac-sha1-96")
RepEtM    == Rep("aes256-ctr", "hmac-sha2-512-etm@openssh.com")
RepGCM    == Rep("aes128-gcm@openssh.com", "")
RepChaCha == Rep("chacha20-poly1305@openssh.com", "")
RepCBC    == Rep("aes128-cbc", "hmac-sha1")
RepCBC8   == Rep("3des-cbc", "hmac-sha2-256")
RepCBCEtM == Rep("aes128-cbc", "hmac-sha2-256-etm@openssh.com")
AuthReps  == {RepEaM, RepEaM8, RepEtM, RepGCM, RepChaCha, RepCBC, RepCBC8}
SeqReps   == AuthReps \cup {NoneMode}
AttackReps == AuthReps \cup {RepCBCEtM}
NoneOnly  == {NoneMode}
WrapWeak  == {RepEtM, RepChaCha, RepCBCEtM} \* tag does not depend on the key-stream / chain offset
WrapStrong == {RepEaM, RepCBC, RepGCM}
AuthModes == {m \in AllModes : m.auth}
\* three-way split of AllModes so that the single-packet generator can run as three TLC instances
ModesA == {m \in AllModes : m.cipher \in {"aes128-ctr", "aes192-ctr", "aes256-ctr", "none"}}
ModesB == {m \in AllModes : m.cipher \in {"arcfour", "arcfour128", "arcfour256"}}
ModesC == AllModes \ (ModesA \cup ModesB)

\* ---- scalars
RealMaxPacket == 262144
NoOps == {}
AllOps == {"flip", "drop", "dup", "swap", "inject", "trunc"}
DupOnly == {"dup"}
Seq0 == {0}
SeqNearWrap8 == {0, 6}
SeqWrap8 == {6}
SeqNearWrap16 == {0, 13, 14, 15}
SeqWrap16 == {14}
Ctr0Small == {<<0, 0>>}
CtrSmall == {<<0, 0>>, <<0, 2>>, <<1, 2>>, <<2, 1>>}      \* base 3, 2 limbs: carries and the full wrap
Ctr0Real == {<<0, 0, 0, 0, 0, 0, 0, 0>>}
CtrReal == {<<0, 0, 0, 0, 0, 0, 0, 0>>, <<0, 0, 0, 0, 0, 0, 0, 254>>, <<0, 0, 0, 0, 0, 0, 255, 253>>,
            <<0, 0, 0, 0, 255, 255, 255, 254>>, <<18, 52, 255, 255, 255, 255, 255, 255>>,
            <<255, 255, 255, 255, 255, 255, 255, 253>>}

\* ---- payload sizes
Sizes600 == 1..600
Sizes300 == 1..300
Sizes64 == 1..64
SizesSmall == {1, 2, 11, 12}
SizesAttack == {1, 12}
SizesScaled == 1..64                       \* with MaxPacket = 64: up to "maxPacket"
NearMax == (RealMaxPacket - 28)..RealMaxPacket
NearMaxQ == (RealMaxPacket - 21)..RealMaxPacket
SizesReal == (1..300) \cup NearMaxQ
SizesRealBig == (1..1200) \cup NearMax \cup {32768, 32769, 65535, 65536, 131072}
SizesSeqGen == {1, 2, 3, 4, 5, 7, 8, 9, 11, 12, 13, 15, 16, 17, 23, 24, 25, 31, 32, 33, 63, 64, 65, 100, 127, 128, 129, 255, 256, 257,
                299, 300, 511, 512, 1023, 1024, 4095, 4096, 32768, 35000, RealMaxPacket - 30, RealMaxPacket - 21}
SizesTamperQ == {1, 40}
Sizes12 == {12}
SizesTamperT == {1, 27, 300}
SizesTamperSim == {1, 2, 7, 8, 15, 16, 17, 31, 32, 33, 100, 255, 256, 300}

\* ---- simulation-mode generators: TLC picks among enabled actions uniformly, so Close would come too early
CloseLate == (~closed /\ closed') => Len(sent) >= 3
NoClose == ~closed'       \* GenFrame: single Write steps only

\* ---- generators: one JSON line per behaviour (binding R)
PktJ(p) == [id |-> p.id, n |-> p.n, pad |-> p.pad, seq |-> p.seq, ctr |-> p.ctr]
Case == [mode |-> mode, startSeq |-> startSeq, startCtr |-> startCtr,
         pkts |-> [k \in 1..Len(sent) |-> PktJ(sent[k])],
         ops |-> ops, delivered |-> delivered, seqW |-> seqW, seqR |-> seqR, seqMod |-> SeqMod, fin |-> Finished]
EmitFrame == (Len(sent) = 1 /\ Len(wire) = 1 /\ ~closed) => PrintT("TRACE " \o ToJson(Case))
EmitFinished == Finished => PrintT("TRACE " \o ToJson(Case))
EmitTable == (sent = <<>> /\ ~closed) => PrintT("TRACE " \o ToJson([ciphers |-> CipherTable, macs |-> MacTable, maxPacket |-> RealMaxPacket]))
=============================================================================
