SPECIFICATION Spec
CONSTANTS
  Configs <- AllConfigs
  Servers <- GridServers
  SrvNames <- SrvScript
  GridCfgNames <- NoNames
  CfgNames <- NamesFocusRetry
  Pre <- PreLong
  Items <- ItemsSmall
  MaxScript = 0
  LongNames <- NoNames
  LongPre <- PreLong
  LongItems <- ItemsLong
  LongMax = 70
  FocusNames <- NamesFocus
  FocusPre <- PreFocus
  FocusItems <- ItemsFocus
  FocusMax = 6
  FocusDeepNames <- NoNames
  FocusDeepMax = 6
  FocusDeepItems <- ItemsFocusDeep
  FixO1 = TRUE
  FixRetry = TRUE
  FixRetryList = FALSE
  MaxTried = 64
INVARIANTS Q1
VIEW MCView
CHECK_DEADLOCK FALSE
