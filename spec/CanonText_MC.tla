---------------------------- MODULE CanonText_MC ----------------------------
(* Bounded instance of CanonText and the generator for binding R: one line per (text, way of cutting it into chunks). *)
EXTENDS CanonText, Json
Alpha3 == {97, 13, 10}          \* a CR LF
Never == FALSE
Emit == (Finished /\ Len(cuts) <= 3) => PrintT("TRACE " \o ToJson([txt |-> txt, cuts |-> cuts, out |-> out]))
=============================================================================
