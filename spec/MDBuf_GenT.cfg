SPECIFICATION GSpec
CONSTANTS
  BS = 64
  LF = 8
  WSet = {0, 1, 8, 55, 56, 57, 63, 64, 65, 119, 120, 127, 128}
  MaxLen = 260
  Depth = 5
INVARIANTS Emit
CHECK_DEADLOCK FALSE
