--------------------------- MODULE SSHChannel_Trace ---------------------------
(* Binding T for C35: validates executions recorded from real ssh muxes (harness/c35) against
   SSHChannel with the REAL constants of each recorded channel direction (2 MiB / 32 KiB for a Go
   receiver, the tiny window / max packet 9..64 of the scripted raw peer).

   One recorded trace = one direction of one channel, projected by the harness from the single
   linear order in which the monitored packetConn saw all packets:
     init(ws, mp)            the receiver's open / open-confirm: advertised window and max packet
     sdata(s, from, n, ok)   sender's writePacket(channel data / extended data); ok = payload is the
                             expected byte pattern of stream s at offset from
     rdata(s, from, n)       receiver's readPacket returned that packet
     sadj(a) / radj(a)       receiver wrote / sender read a window adjust
     seof / reof             CloseWrite
     read(s, from, n, ok)    the receiving application got n bytes from Read (logged after return)
     q_*                     snapshots at quiescent points (all goroutines durably blocked)
   The unlogged steps BeginWrite and Reserve are taken lazily, immediately before the sdata they
   lead to (sound: they only touch win, and later credit only makes Reserve more permissive).
   Compared at the property's level: a chunk may be any size 0..min(win, maxPayload) (Greedy =
   FALSE), the receiver may credit whenever and whatever it likes (RecvPolicy = "any", CreditRoom
   unbounded because reads are logged after the fact). *)
EXTENDS SSHChannel, TraceLib

TraceBudget == [s \in 0 .. 2 |-> 0]
TraceCreditRoom == 2147483647 - myWin
\* the only chunk worth trying is the logged one (it must still fit: 1 .. min(win, maxPayload, remaining))
TraceChunks(k) == IF l <= Len(Trace) /\ Trace[l].ev = "sdata" /\ Trace[l].n >= 1 /\ Trace[l].n <= k THEN {Trace[l].n} ELSE {}

tvars == <<vars, l>>
NextIs(e) == l <= Len(Trace) /\ Trace[l].ev = e

TraceInit == InitWith(1, 1) /\ l = 1 /\ HWMInit

TReset == IsEvent("reset") /\ UNCHANGED vars
TInit ==                                     \* InitWith(Ev.ws, Ev.mp) for the next state
  /\ IsEvent("init")
  /\ ws' = Ev.ws /\ mp' = Ev.mp /\ win' = Ev.ws
  /\ wpc' = [s \in Strm |-> "idle"] /\ wrem' = [s \in Strm |-> 0] /\ whold' = [s \in Strm |-> 0]
  /\ woff' = [s \in Strm |-> 0] /\ wleft' = Budget /\ wcalls' = [s \in Strm |-> 0] /\ eofSent' = FALSE
  /\ netF' = <<>> /\ netB' = <<>>
  /\ myWin' = Ev.ws /\ myCons' = 0 /\ roff' = [s \in Strm |-> 0] /\ rdoff' = [s \in RdStrm |-> 0]
  /\ apc' = [p \in Procs |-> "idle"] /\ aamt' = [p \in Procs |-> 0]
  /\ consumed' = 0 /\ credited' = 0 /\ eofRecv' = FALSE /\ err' = "none"

\* silent, guided by the next logged event
TBegin == /\ NextIs("sdata") /\ Trace[l].n > 0 /\ wpc[Trace[l].s] = "idle"
          /\ BeginWrite(Trace[l].s, Trace[l].n) /\ UNCHANGED l
TReserve == /\ NextIs("sdata") /\ wpc[Trace[l].s] = "res"
            /\ Reserve(Trace[l].s) /\ whold'[Trace[l].s] = Trace[l].n /\ UNCHANGED l
TSendData == /\ IsEvent("sdata") /\ Ev.n > 0 /\ wpc[Ev.s] = "send"
             /\ Ev.from = woff[Ev.s] /\ Ev.n = whold[Ev.s] /\ Ev.ok = TRUE
             /\ SendData(Ev.s)
TSendZero == /\ IsEvent("sdata") /\ Ev.n = 0 /\ Ev.from = woff[Ev.s]
             /\ netF' = Append(netF, Data(Ev.s, Ev.from, 0))
             /\ UNCHANGED <<ws, mp, wvars, netB, rvars>>
TRecvData == /\ IsEvent("rdata") /\ netF # <<>> /\ Head(netF) = Data(Ev.s, Ev.from, Ev.n)
             /\ RecvData
TSendAdj == IsEvent("sadj") /\ Credit(Ev.a)
TRecvAdj == IsEvent("radj") /\ netB # <<>> /\ Head(netB) = Ev.a /\ RecvAdjust
TSendEOF == IsEvent("seof") /\ SendEOF
TRecvEOF == IsEvent("reof") /\ RecvEOF
TRead == IsEvent("read") /\ Ev.from = rdoff[Ev.s] /\ Ev.ok = TRUE /\ Read(Ev.s, Ev.n)

\* snapshots: the model's state must equal the real state, nothing may have leaked, nobody may be stuck
TQNet == IsEvent("q_net") /\ netF = <<>> /\ netB = <<>> /\ UNCHANGED vars
TQSwin == IsEvent("q_swin") /\ Ev.v = win /\ UNCHANGED vars
TQRwin == IsEvent("q_rwin") /\ Ev.v = myWin /\ UNCHANGED vars
TQNoLeak == IsEvent("q_noleak") /\ Ev.mywin + Ev.mycons + Unread >= ws /\ UNCHANGED vars
TQWriters == /\ IsEvent("q_writers")
             /\ Ev.pending > 0 => win = 0                          \* blocked only when the window is used up
             /\ (Ev.pending > 0 /\ Ev.active = TRUE) => Unread > 0  \* and never while the peer has read everything
             /\ UNCHANGED vars

TraceNext == \/ TReset \/ TInit \/ TBegin \/ TReserve \/ TSendData \/ TSendZero \/ TRecvData
             \/ TSendAdj \/ TRecvAdj \/ TSendEOF \/ TRecvEOF \/ TRead
             \/ TQNet \/ TQSwin \/ TQRwin \/ TQNoLeak \/ TQWriters
TraceSpec == TraceInit /\ [][TraceNext]_tvars

TraceInv == NoError /\ F2
=============================================================================
