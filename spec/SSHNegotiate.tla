---------------------------- MODULE SSHNegotiate ----------------------------
(* RFC 4253 section 7.1 algorithm negotiation as golang.org/x/crypto/ssh does it
   (common.go: findCommon, findAgreedAlgorithms).

   A KEXINIT is a record of eight name-lists (slots).  One action, Negotiate,
   computes what the client computes and what the server computes from the same
   pair of KEXINITs.  The algorithm side (FindCommon, a transcription of the nested
   loop) is checked against the declarative RFC rule ("the first algorithm on the
   client's list that is also on the server's list"), and the two roles are checked
   to agree up to the read/write swap.  MACs are not negotiated for AEAD ciphers. *)
EXTENDS Integers, Sequences, FiniteSets, TLC

CONSTANTS Menu,     \* Menu[slot] = set of <<clientList, serverList>> pairs to explore for that slot
          AEAD      \* set of cipher names that carry their own MAC

Slots == {"kex", "hostkey", "cipherCS", "cipherSC", "macCS", "macSC", "compCS", "compSC"}
NoAlg == "-"        \* "not negotiated / nothing chosen"

VARIABLES ci, si,   \* client's and server's KEXINIT: [Slots -> Seq(name)]
          resC, resS,  \* result record computed by client / server, or [err |-> slot]
          phase
vars == <<ci, si, resC, resS, phase>>

-----------------------------------------------------------------------------
(* Transcription of findCommon: first c in client (in order) such that some s in server equals it. *)
RECURSIVE FindCommon(_, _)
FindCommon(c, s) ==
  IF c = <<>> THEN NoAlg
  ELSE IF \E j \in 1..Len(s) : s[j] = Head(c) THEN Head(c)
  ELSE FindCommon(Tail(c), s)

(* Declarative RFC 4253 7.1 rule. *)
IsRFCChoice(x, c, s) ==
  \E i \in 1..Len(c) : /\ c[i] = x
                       /\ \E j \in 1..Len(s) : s[j] = x
                       /\ \A k \in 1..(i-1) : \A j \in 1..Len(s) : s[j] # c[k]
NoCommon(c, s) == \A i \in 1..Len(c), j \in 1..Len(s) : c[i] # s[j]

Pick(slot) == FindCommon(ci[slot], si[slot])

(* The order of evaluation in findAgreedAlgorithms decides which slot is reported on failure. *)
Order == <<"kex", "hostkey", "cipherCS", "cipherSC", "macCS", "macSC", "compCS", "compSC">>
Needed(slot) == CASE slot = "macCS" -> Pick("cipherCS") \notin AEAD
                  [] slot = "macSC" -> Pick("cipherSC") \notin AEAD
                  [] OTHER -> TRUE
Failing == { i \in 1..8 : Needed(Order[i]) /\ Pick(Order[i]) = NoAlg }
FirstFailing == CHOOSE i \in Failing : \A j \in Failing : i <= j

Chosen(slot) == IF Needed(slot) THEN Pick(slot) ELSE NoAlg

(* role-specific view: Read/Write directions. client writes c->s; server writes s->c *)
View(isClient) ==
  IF Failing # {} THEN [ok |-> FALSE, what |-> Order[FirstFailing]]
  ELSE [ok |-> TRUE, what |-> "",
        kex |-> Chosen("kex"), hostkey |-> Chosen("hostkey"),
        wCipher |-> IF isClient THEN Chosen("cipherCS") ELSE Chosen("cipherSC"),
        rCipher |-> IF isClient THEN Chosen("cipherSC") ELSE Chosen("cipherCS"),
        wMAC    |-> IF isClient THEN Chosen("macCS") ELSE Chosen("macSC"),
        rMAC    |-> IF isClient THEN Chosen("macSC") ELSE Chosen("macCS"),
        wComp   |-> IF isClient THEN Chosen("compCS") ELSE Chosen("compSC"),
        rComp   |-> IF isClient THEN Chosen("compSC") ELSE Chosen("compCS")]

None == [ok |-> FALSE, what |-> "unset"]

Init == \E p1 \in Menu["kex"], p2 \in Menu["hostkey"], p3 \in Menu["cipherCS"], p4 \in Menu["cipherSC"],
            p5 \in Menu["macCS"], p6 \in Menu["macSC"], p7 \in Menu["compCS"], p8 \in Menu["compSC"] :
        LET P == [s \in Slots |-> CASE s = "kex" -> p1 [] s = "hostkey" -> p2 [] s = "cipherCS" -> p3
                                    [] s = "cipherSC" -> p4 [] s = "macCS" -> p5 [] s = "macSC" -> p6
                                    [] s = "compCS" -> p7 [] s = "compSC" -> p8] IN
        /\ ci = [s \in Slots |-> P[s][1]]
        /\ si = [s \in Slots |-> P[s][2]]
        /\ resC = None /\ resS = None /\ phase = "init"

Negotiate == /\ phase = "init"
             /\ resC' = View(TRUE) /\ resS' = View(FALSE)
             /\ phase' = "done"
             /\ UNCHANGED <<ci, si>>

Next == Negotiate
Spec == Init /\ [][Next]_vars

-----------------------------------------------------------------------------
(* Properties *)
Done == phase = "done"

\* both fail or both succeed
BothOrNeither == Done => (resC.ok = resS.ok)

\* same algorithms, mirrored directions
Mirror == (Done /\ resC.ok) =>
   /\ resC.kex = resS.kex /\ resC.hostkey = resS.hostkey
   /\ resC.wCipher = resS.rCipher /\ resC.rCipher = resS.wCipher
   /\ resC.wMAC = resS.rMAC /\ resC.rMAC = resS.wMAC
   /\ resC.wComp = resS.rComp /\ resC.rComp = resS.wComp

\* each negotiated choice is the RFC choice
RFCChoice == (Done /\ resC.ok) =>
   /\ IsRFCChoice(resC.kex, ci["kex"], si["kex"])
   /\ IsRFCChoice(resC.hostkey, ci["hostkey"], si["hostkey"])
   /\ IsRFCChoice(resC.wCipher, ci["cipherCS"], si["cipherCS"])
   /\ IsRFCChoice(resC.rCipher, ci["cipherSC"], si["cipherSC"])
   /\ IsRFCChoice(resC.wComp, ci["compCS"], si["compCS"])
   /\ IsRFCChoice(resC.rComp, ci["compSC"], si["compSC"])
   /\ IF resC.wCipher \in AEAD THEN resC.wMAC = NoAlg ELSE IsRFCChoice(resC.wMAC, ci["macCS"], si["macCS"])
   /\ IF resC.rCipher \in AEAD THEN resC.rMAC = NoAlg ELSE IsRFCChoice(resC.rMAC, ci["macSC"], si["macSC"])

\* failure exactly when a needed slot has no common algorithm
FailIffNoCommon == Done =>
   (~resC.ok <=> \E s \in Slots : Needed(s) /\ NoCommon(ci[s], si[s]))

\* FindCommon agrees with the declarative rule on every slot in every state
FindCommonIsRFC == \A s \in Slots :
   LET x == Pick(s) IN IF x = NoAlg THEN NoCommon(ci[s], si[s]) ELSE IsRFCChoice(x, ci[s], si[s])
=============================================================================
