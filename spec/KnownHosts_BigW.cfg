SPECIFICATION Spec
CONSTANTS
  FileSet <- FilesWBig
  QuerySeq <- QueriesWGBig
  StarFix = TRUE
  SubjectFix = TRUE
  CAListsPlain = TRUE
  RevokedSubject = TRUE
INVARIANTS TypeOK WildAgreeBig WildSelf Agree WantExact Emit
CHECK_DEADLOCK FALSE
