--------------------------- MODULE PGPFramingStream ---------------------------
(***************************************************************************)
(* The partial-length WRITER and the body READERS of                       *)
(* golang.org/x/crypto/openpgp/packet as state machines, one action per    *)
(* public call:                                                            *)
(*   Write(k)      partialLengthWriter.Write(p), len(p) = k                *)
(*   Close         partialLengthWriter.Close                               *)
(*   Open(cut,sty) an adversary may cut the stream anywhere; packet.Read   *)
(*                 parses the header (readHeader) and hands out the body   *)
(*                 reader (partialLengthReader or spanReader)              *)
(*   ReadCall(k)   body.Read(p), len(p) = k                                *)
(* packet.go: partialLengthWriter.Write/Close, serializeStreamHeader,      *)
(* readHeader, readLength, partialLengthReader.Read, spanReader.Read.      *)
(*                                                         [growth X03 b]  *)
(*                                                                         *)
(* The writer/reader transformers are the pure operators of PGPFraming     *)
(* (WWrite, WClose) resp. RStep below; the case generator of binding R     *)
(* evaluates the same operators with the real constants (512, 2^30), this  *)
(* module explores them exhaustively with scaled constants (MinFirst = 8,  *)
(* MaxPow = 3) over all write-size sequences, all cut points, all          *)
(* read-size schedules and both ways an io.Reader may report the end of    *)
(* its input ("separate": (n, nil) then (0, EOF); "with-data": the last    *)
(* octets together with EOF, as compress/flate and iotest.DataErrReader    *)
(* do).                                                                    *)
(*                                                                         *)
(* PROPERTIES                                                              *)
(*  WriteReturns     every Write(p) returns len(p)                         *)
(*  BufferBound      before the first chunk fewer than MinFirst octets are *)
(*                   held back, afterwards none                            *)
(*  Conservation     emitted + buffered octets = accepted octets, in order *)
(*  ChunkShape       a length octet 224+k is followed by exactly 2^k       *)
(*                   octets, k <= MaxPow                                   *)
(*  FirstChunkKept   the first partial chunk is >= MinFirst whenever       *)
(*                   >= MinFirst octets were written (B3 as the code keeps *)
(*                   it); FirstChunkRFC: always (holds only with FixShort) *)
(*  OnePacket        after Close the stream parses (PGPFraming!ParsePacket)*)
(*                   as ONE packet of tag Tag, body = all octets written,  *)
(*                   nothing left over                                     *)
(*  RoundTrip        reading the uncut stream with any read sizes delivers *)
(*                   exactly the written octets, then io.EOF, and has      *)
(*                   consumed the whole stream; never an error             *)
(*  NoSilentTruncation  reading a cut stream never ends in io.EOF: it ends *)
(*                   in io.ErrUnexpectedEOF after a prefix of the octets   *)
(*  AgreesWithFunction  the step-wise readers compute PGPFraming!          *)
(*                   ParsePacket, whatever the read sizes                  *)
(*  Progress         every Read call with len(p) > 0 delivers octets or    *)
(*                   ends the stream                                       *)
(* FixEof = TRUE models partialLengthReader.Read as it is since the repair *)
(* of finding X03-R1 (io.EOF from the underlying reader with octets of the *)
(* chunk outstanding, or a further length due, is io.ErrUnexpectedEOF).    *)
(* FixEof = FALSE is the earlier code (only n < toRead was converted):     *)
(* with a "with-data" underlying reader NoSilentTruncation FAILS there --  *)
(* PGPFramingStream_DocEof.cfg keeps that counterexample as documentation; *)
(* it is never expected on the code.                                       *)
(***************************************************************************)
EXTENDS PGPFraming

CONSTANTS Sizes, MaxWrites,      \* Write sizes and number of Write calls
          ReadSizes,             \* len(p) of Read calls
          EofStyles,             \* subset of {"separate", "with-data"}
          CutAll,                \* explore every cut point of the stream
          FixEof,                \* TRUE: the code as it is (X03-R1 repaired); FALSE: the earlier reader (documentation)
          FixShort,              \* proposed repair of X03-W1 (FALSE: the code as it is)
          Tag,
          Crafted                \* crafted streams (segment lists) for SpecCrafted

VARIABLES phase,      \* "write" | "closed" | "read"
          ws, nw,     \* writer state (PGPFraming!WInit ...), number of writes so far
          last,       \* size of the last Write (for WriteReturns)
          wire,       \* the stream handed to the reader (possibly cut)
          fullN,      \* length of the uncut stream
          total,      \* octets written = expected body length
          cut, style, \* adversary / environment choices
          rs          \* reader state
vars == <<phase, ws, nw, last, wire, fullN, total, cut, style, rs>>

Seed == 5
NoWire == MkWire(<<>>, Seed)
RNone == [st |-> "none", span |-> FALSE, rem |-> 0, partial |-> FALSE, off |-> 0, got |-> <<>>]

Init == /\ phase = "write" /\ ws = WInit /\ nw = 0 /\ last = 0 /\ wire = NoWire /\ fullN = 0 /\ total = 0
        /\ cut = -1 /\ style = "separate" /\ rs = RNone

Write(k) == /\ phase = "write" /\ nw < MaxWrites
            /\ ws' = WWrite(ws, k) /\ nw' = nw + 1 /\ last' = k
            /\ UNCHANGED <<phase, wire, fullN, total, cut, style, rs>>

Close == /\ phase = "write"
         /\ \E s \in {WClose(ws, FixShort)} :
              /\ ws' = s
              /\ wire' = MkWire(<<H(<<NewTag(Tag)>>)>> \o s.out, Seed)
              /\ fullN' = wire'.n
         /\ total' = ws.pos /\ phase' = "closed"
         /\ UNCHANGED <<nw, last, cut, style, rs>>

-----------------------------------------------------------------------------
(* readHeader on the (cut) stream: the state of the body reader *)
ROpen(w) ==
  IF w.n = 0 THEN [RNone EXCEPT !.st = "eof"]                          \* io.EOF from readHeader: no packet
  ELSE LET b == At(w, 0) IN
  IF b < 128 THEN [RNone EXCEPT !.st = "structural"]
  ELSE IF b < 192 THEN                                                 \* old format, length types 0..2 (3 is not explored here)
       LET nb == Pow2(b % 4) IN
       IF 1 + nb > w.n THEN [RNone EXCEPT !.st = "uneof", !.off = w.n]
       ELSE [RNone EXCEPT !.st = "run", !.span = TRUE, !.off = 1 + nb,
                          !.rem = IF nb = 1 THEN At(w, 1) ELSE IF nb = 2 THEN At(w, 1) * 256 + At(w, 2)
                                  ELSE IntOf(Limbs(At(w, 1), At(w, 2), At(w, 3), At(w, 4)))]
  ELSE LET l == DecLen(w, 1) IN
       IF l.st # "ok" THEN [RNone EXCEPT !.st = "uneof", !.off = w.n]
       ELSE [RNone EXCEPT !.st = "run", !.span = ~l.partial, !.rem = l.len, !.partial = l.partial, !.off = 1 + l.used]

\* the loop `for r.remaining == 0` of partialLengthReader.Read: at most one length is read before data or EOF
RLen(w, r) ==
  IF r.span \/ r.rem # 0 \/ ~r.partial THEN r
  ELSE LET l == DecLen(w, r.off) IN
       IF l.st # "ok" THEN [r EXCEPT !.st = "uneof", !.off = w.n]
       ELSE [r EXCEPT !.rem = l.len, !.partial = l.partial, !.off = r.off + l.used]

\* one Read(p), len(p) = k > 0, on reader state r0 (st = "run"); rem = -1 stands for a length >= 2^31
RStep(w, r0, k, sty, fixEof) ==
  LET r == RLen(w, r0) IN
  IF r.st # "run" THEN r
  ELSE IF r.rem = 0 THEN [r EXCEPT !.st = "eof"]                       \* spanReader: l.n <= 0; partial reader: !isPartial
  ELSE LET toRead == IF r.rem < 0 THEN k ELSE Min2(k, r.rem)
           avail == w.n - r.off
           n == Min2(toRead, avail)
           eof == avail = 0 \/ (sty = "with-data" /\ n = avail)        \* the underlying Read returned io.EOF
           rem2 == IF r.rem < 0 THEN -1 ELSE r.rem - n
           r2 == [r EXCEPT !.rem = rem2, !.off = r.off + n, !.got = Norm(r.got \o Slice(w, r.off, n))] IN
       IF ~eof THEN r2
       ELSE IF r.span THEN [r2 EXCEPT !.st = IF rem2 # 0 THEN "uneof" ELSE "eof"]       \* spanReader: l.n > 0 && err == io.EOF
       ELSE IF fixEof THEN [r2 EXCEPT !.st = IF rem2 # 0 \/ r.partial THEN "uneof" ELSE "eof"]   \* err == io.EOF && (remaining > 0 || isPartial)
       ELSE [r2 EXCEPT !.st = IF n < toRead THEN "uneof" ELSE "eof"]                    \* before the repair: n < toRead && err == io.EOF

Open(m, sty) == /\ phase = "closed"
                /\ cut' = m /\ style' = sty
                /\ \E w \in {IF m = -1 THEN wire ELSE Trunc(wire, m)} : wire' = w /\ rs' = ROpen(w)
                /\ ws' = WInit /\ nw' = 0 /\ last' = 0          \* the writer is gone
                /\ phase' = "read"
                /\ UNCHANGED <<fullN, total>>

ReadCall(k) == /\ phase = "read" /\ rs.st = "run"
               /\ rs' = RStep(wire, rs, k, style, FixEof)
               /\ UNCHANGED <<phase, ws, nw, last, wire, fullN, total, cut, style>>

Next == \/ \E k \in Sizes : Write(k)
        \/ Close
        \/ \E sty \in EofStyles : \E m \in {-1} \cup (IF CutAll THEN 1..(wire.n - 1) ELSE {}) : Open(m, sty)
        \/ \E k \in ReadSizes : ReadCall(k)
Spec == Init /\ [][Next]_vars

\* crafted streams instead of the writer's
InitCrafted == /\ phase = "closed" /\ ws = WInit /\ nw = 0 /\ last = 0
               /\ \E segs \in Crafted : wire = MkWire(segs, Seed) /\ fullN = wire.n /\ total = SegSum(segs)
               /\ cut = -1 /\ style = "separate" /\ rs = RNone
SpecCrafted == InitCrafted /\ [][Next]_vars

-----------------------------------------------------------------------------
(* writer properties *)
Writing == phase = "write"
WriteReturns == Writing => ws.ret = last
BufferBound == Writing => ws.bufN < MinFirst /\ (ws.sent => ws.bufN = 0) /\ (~ws.sent => ws.out = <<>>)
Conservation == Writing => Norm(SelectSeq(ws.out, LAMBDA s : s.t = "d")) = Data(ws.pos - ws.bufN)
ShapeOf(segs) == LET cs == ChunkSizes(segs) IN
                 \A i \in 1..Len(segs) :
                    /\ cs[i] > 0 => (i < Len(segs) /\ segs[i + 1].t = "d" /\ segs[i + 1].n = cs[i] /\ cs[i] <= Pow2(MaxPow))
                    /\ (segs[i].t = "d" /\ i > 1) => segs[i - 1].t = "h"
ChunkShape == (Writing => ShapeOf(ws.out)) /\ (phase = "closed" => ShapeOf(wire.segs))
FirstDuringWrites == (Writing /\ ws.out # <<>>) => ws.out[2].n >= MinFirst
\* the first length octet after the tag octet
FirstChunk(w) == ChunkSizes(w.segs)[2]
FirstChunkKept == (phase = "closed" /\ total >= MinFirst) => FirstChunk(wire) >= MinFirst
FirstChunkRFC == phase = "closed" => (FirstChunk(wire) = 0 \/ FirstChunk(wire) >= MinFirst)
OnePacket == phase = "closed" => LET r == ParsePacket(wire, 0) IN
                r.st = "ok" /\ r.tag = Tag /\ r.body = Data(total) /\ r.used = wire.n
                /\ ParsePacket(wire, r.used).st = "eof"

(* reader properties *)
Reading == phase = "read"
Ended == Reading /\ rs.st \in {"eof", "uneof", "structural"}
RoundTrip == (Reading /\ cut = -1) => /\ rs.st \in {"run", "eof"}
                                      /\ (rs.st = "eof" => (rs.got = Data(total) /\ rs.off = fullN))
NoSilentTruncation == (Reading /\ cut # -1) => rs.st # "eof"
PrefixOnly == Reading => (rs.got = <<>> \/ (Len(rs.got) = 1 /\ rs.got[1].t = "d" /\ rs.got[1].from = 0 /\ rs.got[1].n <= total))
AgreesWithFunction == (Ended /\ (style = "separate" \/ FixEof)) =>
                        LET r == ParsePacket(wire, 0) IN
                        /\ (rs.st = "eof") = (r.st = "ok")
                        /\ (rs.st = "uneof") = (r.st = "uneof")
                        /\ rs.got = r.body
                        /\ (r.st = "ok" => rs.off = r.used)
\* every Read call makes progress (so a reading loop terminates)
Progress == [][(phase = "read" /\ phase' = "read") => (rs'.off > rs.off \/ rs'.st # "run")]_vars
=============================================================================
