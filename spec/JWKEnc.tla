------------------------------- MODULE JWKEnc -------------------------------
(* Executable definition of the JSON Web Key text that golang.org/x/crypto/acme must produce
   (jws.go: jwkEncode; consumers: the `jwk` protected-header member written by jwsEncodeJSON,
   JWKThumbprint and with it every key authorization, the payload of the external-account-binding
   JWS), stated from the RFCs, on octet sequences (TLC integers are 32-bit, so big integers are
   big-endian octet sequences of ANY length, possibly with leading zero octets -- the rules below
   are what removes or adds them):

     RFC 7518 2 / 6.3.1   RSA "n" and "e" are Base64urlUInt: the unsigned big-endian representation
                          with the MINIMUM number of octets (zero is the single octet 00)
     RFC 7518 6.2.1.2/3   EC "x" and "y" are the coordinate as an octet string of EXACTLY
                          ceil(bits/8) octets (32 / 48 / 66), left-padded with zeros
     RFC 4648 5           base64url without padding
     RFC 7638 3.2/3.3     thumbprint input: required members only, lexicographic order, no
                          white space:  {"e":..,"kty":"RSA","n":..}   {"crv":..,"kty":"EC","x":..,"y":..}

   TLC evaluates JWK(key) for every key of the boundary key set (module JWKKeys: RSA public
   exponents around every octet boundary, moduli with the top octet at every kind of boundary, EC
   points whose X, Y or both have leading zero octets on all three curves) and the harness
   compares the text with what the real code emits.  SHA-256 is not transcribed: the harness
   hashes TLC's text with the standard library to obtain the expected thumbprint. *)
EXTENDS Integers, Sequences, TLC

Alphabet == << "A","B","C","D","E","F","G","H","I","J","K","L","M","N","O","P","Q","R","S","T","U","V","W","X","Y","Z",
               "a","b","c","d","e","f","g","h","i","j","k","l","m","n","o","p","q","r","s","t","u","v","w","x","y","z",
               "0","1","2","3","4","5","6","7","8","9","-","_" >>
Ch(v) == Alphabet[v + 1]
Enc3(a, b, c) == Ch(a \div 4) \o Ch((a % 4) * 16 + b \div 16) \o Ch((b % 16) * 4 + c \div 64) \o Ch(c % 64)
Enc2(a, b)    == Ch(a \div 4) \o Ch((a % 4) * 16 + b \div 16) \o Ch((b % 16) * 4)
Enc1(a)       == Ch(a \div 4) \o Ch((a % 4) * 16)
RECURSIVE B64(_)
B64(bs) == CASE Len(bs) = 0 -> ""
             [] Len(bs) = 1 -> Enc1(bs[1])
             [] Len(bs) = 2 -> Enc2(bs[1], bs[2])
             [] OTHER -> Enc3(bs[1], bs[2], bs[3]) \o B64(SubSeq(bs, 4, Len(bs)))
\* number of characters of the unpadded base64url text of n octets
B64Len(n) == (4 * n + 2) \div 3

\* RFC 4648 section 10 test vectors ("f", "fo", "foo", "foob", "fooba", "foobar") and two exponents
ASSUME /\ B64(<<102>>) = "Zg" /\ B64(<<102, 111>>) = "Zm8" /\ B64(<<102, 111, 111>>) = "Zm9v"
       /\ B64(<<102, 111, 111, 98>>) = "Zm9vYg" /\ B64(<<102, 111, 111, 98, 97>>) = "Zm9vYmE"
       /\ B64(<<102, 111, 111, 98, 97, 114>>) = "Zm9vYmFy"
       /\ B64(<<1, 0, 1>>) = "AQAB" /\ B64(<<3>>) = "Aw" /\ B64(<<251, 255>>) = "-_8"

\* minimal unsigned big-endian representation (zero = one zero octet)
RECURSIVE Minimal(_)
Minimal(bs) == IF Len(bs) <= 1 THEN (IF Len(bs) = 0 THEN <<0>> ELSE bs)
               ELSE IF bs[1] = 0 THEN Minimal(Tail(bs)) ELSE bs
Zeros(n) == [i \in 1..n |-> 0]
\* fixed-width representation; defined only when the value fits
FixedWidth(bs, w) == LET m == IF Minimal(bs) = <<0>> THEN <<>> ELSE Minimal(bs) IN Zeros(w - Len(m)) \o m
Fits(bs, w) == Len(Minimal(bs)) <= w

CurveWidth(crv) == CASE crv = "P-256" -> 32 [] crv = "P-384" -> 48 [] crv = "P-521" -> 66

\* a key: [id, kty, crv, a, b]   RSA: a = e, b = n      EC: a = x, b = y   (octet sequences, any length)
OctA(k) == IF k.kty = "RSA" THEN Minimal(k.a) ELSE FixedWidth(k.a, CurveWidth(k.crv))
OctB(k) == IF k.kty = "RSA" THEN Minimal(k.b) ELSE FixedWidth(k.b, CurveWidth(k.crv))
JWK(k) == IF k.kty = "RSA"
          THEN "{\"e\":\"" \o B64(OctA(k)) \o "\",\"kty\":\"RSA\",\"n\":\"" \o B64(OctB(k)) \o "\"}"
          ELSE "{\"crv\":\"" \o k.crv \o "\",\"kty\":\"EC\",\"x\":\"" \o B64(OctA(k)) \o "\",\"y\":\"" \o B64(OctB(k)) \o "\"}"

CONSTANT KeySet
VARIABLES key, out, phase
vars == <<key, out, phase>>
NoOut == [jwk |-> "", a |-> "", b |-> "", alen |-> 0, blen |-> 0]
Init == key \in KeySet /\ out = NoOut /\ phase = "key"
Encode == /\ phase = "key"
          /\ out' = [jwk |-> JWK(key), a |-> B64(OctA(key)), b |-> B64(OctB(key)), alen |-> Len(OctA(key)), blen |-> Len(OctB(key))]
          /\ phase' = "done" /\ UNCHANGED key
Next == Encode
Spec == Init /\ [][Next]_vars

Done == phase = "done"
\* K1: RSA members are minimal: no leading zero octet (except the value zero itself), value unchanged
K1_RsaMinimal == (Done /\ key.kty = "RSA") =>
     /\ (out.alen > 1 => OctA(key)[1] # 0) /\ (out.blen > 1 => OctB(key)[1] # 0)
     /\ OctA(key) = Minimal(key.a) /\ OctB(key) = Minimal(key.b)
     /\ out.alen <= Len(key.a) /\ out.blen <= Len(key.b)
\* K2: EC members have exactly the curve's width whatever the value's leading zero octets, value unchanged
K2_EcFixedWidth == (Done /\ key.kty = "EC") =>
     /\ Fits(key.a, CurveWidth(key.crv)) /\ Fits(key.b, CurveWidth(key.crv))
     /\ out.alen = CurveWidth(key.crv) /\ out.blen = CurveWidth(key.crv)
     /\ Minimal(OctA(key)) = Minimal(key.a) /\ Minimal(OctB(key)) = Minimal(key.b)
\* K3: the two rules differ exactly on values with leading zero octets (the boundary the key set is about)
ShortA == Len(Minimal(key.a)) < (IF key.kty = "EC" THEN CurveWidth(key.crv) ELSE 4)
ShortB == key.kty = "EC" /\ Len(Minimal(key.b)) < CurveWidth(key.crv)
=============================================================================
