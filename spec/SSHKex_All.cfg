SPECIFICATION Spec
CONSTANTS
  PlanSet <- AllPlans
INVARIANTS TypeOK Agreement AcceptIffSigned InvalidRejected Binding HonestCompletes GexChoice ChooseAgree
CHECK_DEADLOCK FALSE
