SPECIFICATION Spec
CONSTANTS
  Menu <- MenuE2E
  AEAD <- MCAEAD
INVARIANTS BothOrNeither Mirror RFCChoice FailIffNoCommon FindCommonIsRFC
CHECK_DEADLOCK FALSE
