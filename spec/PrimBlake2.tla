----------------------------- MODULE PrimBlake2 -----------------------------
(***************************************************************************)
(* Layer P (binding E): BLAKE2b and BLAKE2s exactly as RFC 7693 defines    *)
(* them (compression function F, section 3.2; parameter block, section     *)
(* 2.5 / BLAKE2 paper section 2.8 with the BLAKE2X reading of the node     *)
(* offset field; keyed hashing, section 3.3), and the BLAKE2X extendable   *)
(* output construction (blake2x.pdf section 2), as executable TLA+         *)
(* definitions evaluated by TLC.  This is the byte oracle against which    *)
(* /repo/blake2b and /repo/blake2s (digest.Write/Sum, Sum256/384/512,      *)
(* xof.Read; every hashBlocks variant) are compared (C05, C06).  It is     *)
(* the textbook algorithm: whole message in, digest out; no buffering, no  *)
(* precomputed message schedule, no SIMD.                                  *)
(*                                                                         *)
(* BLAKE2s words are PrimWords 32-bit words <<hi, lo>>; BLAKE2b words are  *)
(* four 16-bit limbs <<l3, l2, l1, l0>> (most significant first), because  *)
(* TLC integers are 32-bit.  Byte counters t are naturals < 2^31 (the      *)
(* high counter word is 0): the model evaluates short messages only.       *)
(* The ASSUMEs at the end are the published vectors (RFC 7693 appendix A   *)
(* and B, keyed KAT and BLAKE2X KAT entries of the reference               *)
(* implementation's blake2-kat.json): a wrong module refuses to run.       *)
(***************************************************************************)
EXTENDS PrimWords, SequencesExt

(***************************************************************************)
(* 64-bit words                                                            *)
(***************************************************************************)
Add64(a, b) == LET s4 == a[4] + b[4]
                   s3 == a[3] + b[3] + (s4 \div 65536)
                   s2 == a[2] + b[2] + (s3 \div 65536)
                   s1 == a[1] + b[1] + (s2 \div 65536)
               IN <<s1 % 65536, s2 % 65536, s3 % 65536, s4 % 65536>>
Xor64(a, b) == <<a[1] ^^ b[1], a[2] ^^ b[2], a[3] ^^ b[3], a[4] ^^ b[4]>>

\* rotate right by n, 0 < n < 64: by whole limbs (n \div 16), then by n % 16 bits
Rotr64(a, n) ==
  LET q == n \div 16
      r == n % 16
      l == [i \in 1..4 |-> a[((i - 1 - q + 4) % 4) + 1]]          \* rotr by 16q: limb i receives limb i-q
  IN IF r = 0 THEN <<l[1], l[2], l[3], l[4]>>
     ELSE LET p == 2^r  s == 2^(16 - r) IN
          << (l[1] \div p) + (l[4] % p) * s, (l[2] \div p) + (l[1] % p) * s,
             (l[3] \div p) + (l[2] % p) * s, (l[4] \div p) + (l[3] % p) * s >>

\* the four rotation amounts of BLAKE2b written out limb by limb (what TLC evaluates in G; an ASSUME
\* below checks them against the general definition)
R32b(a) == <<a[3], a[4], a[1], a[2]>>
R16b(a) == <<a[4], a[1], a[2], a[3]>>
R24b(a) == << (a[4] \div 256) + (a[3] % 256) * 256, (a[1] \div 256) + (a[4] % 256) * 256,
              (a[2] \div 256) + (a[1] % 256) * 256, (a[3] \div 256) + (a[2] % 256) * 256 >>
R63b(a) == << ((a[1] * 2) % 65536) + (a[2] \div 32768), ((a[2] * 2) % 65536) + (a[3] \div 32768),
              ((a[3] * 2) % 65536) + (a[4] \div 32768), ((a[4] * 2) % 65536) + (a[1] \div 32768) >>

Rotr32(a, n) == Rotl32(a, 32 - n)

\* little-endian bytes b[i..i+7] (1-based) -> 64-bit word, and back
LE64w(b, i) == << b[i+7] * 256 + b[i+6], b[i+5] * 256 + b[i+4], b[i+3] * 256 + b[i+2], b[i+1] * 256 + b[i] >>
Bytes64(w) == << w[4] % 256, w[4] \div 256, w[3] % 256, w[3] \div 256,
                 w[2] % 256, w[2] \div 256, w[1] % 256, w[1] \div 256 >>

\* a natural n < 2^31 as a word
Nat64(n) == <<0, 0, n \div 65536, n % 65536>>
Nat32(n) == <<n \div 65536, n % 65536>>
Ones64 == <<65535, 65535, 65535, 65535>>
Ones32 == <<65535, 65535>>
Zero64 == <<0, 0, 0, 0>>

(***************************************************************************)
(* RFC 7693 section 2.6 / 2.7: IVs and the message schedule SIGMA          *)
(***************************************************************************)
IVb == << <<27145, 58983, 62396, 51464>>,    \* 6a09e667f3bcc908
          <<47975, 44677, 33994, 42811>>,    \* bb67ae8584caa73b
          <<15470, 62322, 65172, 63531>>,    \* 3c6ef372fe94f82b
          <<42319, 62778, 24349, 14065>>,    \* a54ff53a5f1d36f1
          <<20750, 21119, 44518, 33489>>,    \* 510e527fade682d1
          <<39685, 26764, 11070, 27679>>,    \* 9b05688c2b3e6c1f
          <<8067, 55723, 64321, 48491>>,     \* 1f83d9abfb41bd6b
          <<23520, 52505, 4990, 8569>> >>    \* 5be0cd19137e2179
\* BLAKE2s IV = the high halves of the BLAKE2b IV words (both are the SHA-2 IVs)
IVs == [i \in 1..8 |-> <<IVb[i][1], IVb[i][2]>>]

SIGMA == << << 0, 1, 2, 3, 4, 5, 6, 7, 8, 9, 10, 11, 12, 13, 14, 15 >>,
            << 14, 10, 4, 8, 9, 15, 13, 6, 1, 12, 0, 2, 11, 7, 5, 3 >>,
            << 11, 8, 12, 0, 5, 2, 15, 13, 10, 14, 3, 6, 7, 1, 9, 4 >>,
            << 7, 9, 3, 1, 13, 12, 11, 14, 2, 6, 5, 10, 4, 0, 15, 8 >>,
            << 9, 0, 5, 7, 2, 4, 10, 15, 14, 1, 11, 12, 6, 8, 3, 13 >>,
            << 2, 12, 6, 10, 0, 11, 8, 3, 4, 13, 7, 5, 15, 14, 1, 9 >>,
            << 12, 5, 1, 15, 14, 13, 4, 10, 0, 7, 6, 3, 9, 2, 8, 11 >>,
            << 13, 11, 7, 14, 12, 1, 3, 9, 5, 0, 15, 4, 8, 6, 2, 10 >>,
            << 6, 15, 14, 9, 11, 3, 0, 8, 12, 2, 13, 7, 1, 4, 10, 5 >>,
            << 10, 2, 8, 4, 7, 6, 1, 5, 15, 11, 9, 14, 3, 12, 13, 0 >> >>

(***************************************************************************)
(* RFC 7693 section 3.1: the mixing function G, section 3.2: compression F *)
(* v: function 0..15 -> word; m: function 0..15 -> word.                   *)
(***************************************************************************)
Gb(v, a, b, c, d, x, y) ==
  LET a1 == Add64(Add64(v[a], v[b]), x)
      d1 == R32b(Xor64(v[d], a1))
      c1 == Add64(v[c], d1)
      b1 == R24b(Xor64(v[b], c1))
      a2 == Add64(Add64(a1, b1), y)
      d2 == R16b(Xor64(d1, a2))
      c2 == Add64(c1, d2)
      b2 == R63b(Xor64(b1, c2))
  IN [v EXCEPT ![a] = a2, ![b] = b2, ![c] = c2, ![d] = d2]

Gs(v, a, b, c, d, x, y) ==
  LET a1 == Add32(Add32(v[a], v[b]), x)
      d1 == Rotr32(Xor32(v[d], a1), 16)
      c1 == Add32(v[c], d1)
      b1 == Rotr32(Xor32(v[b], c1), 12)
      a2 == Add32(Add32(a1, b1), y)
      d2 == Rotr32(Xor32(d1, a2), 8)
      c2 == Add32(c1, d2)
      b2 == Rotr32(Xor32(b1, c2), 7)
  IN [v EXCEPT ![a] = a2, ![b] = b2, ![c] = c2, ![d] = d2]

RoundB(v, m, s) ==
  LET v1 == Gb(v,  0, 4,  8, 12, m[s[1]],  m[s[2]])
      v2 == Gb(v1, 1, 5,  9, 13, m[s[3]],  m[s[4]])
      v3 == Gb(v2, 2, 6, 10, 14, m[s[5]],  m[s[6]])
      v4 == Gb(v3, 3, 7, 11, 15, m[s[7]],  m[s[8]])
      v5 == Gb(v4, 0, 5, 10, 15, m[s[9]],  m[s[10]])
      v6 == Gb(v5, 1, 6, 11, 12, m[s[11]], m[s[12]])
      v7 == Gb(v6, 2, 7,  8, 13, m[s[13]], m[s[14]])
      v8 == Gb(v7, 3, 4,  9, 14, m[s[15]], m[s[16]])
  IN v8

RoundS(v, m, s) ==
  LET v1 == Gs(v,  0, 4,  8, 12, m[s[1]],  m[s[2]])
      v2 == Gs(v1, 1, 5,  9, 13, m[s[3]],  m[s[4]])
      v3 == Gs(v2, 2, 6, 10, 14, m[s[5]],  m[s[6]])
      v4 == Gs(v3, 3, 7, 11, 15, m[s[7]],  m[s[8]])
      v5 == Gs(v4, 0, 5, 10, 15, m[s[9]],  m[s[10]])
      v6 == Gs(v5, 1, 6, 11, 12, m[s[11]], m[s[12]])
      v7 == Gs(v6, 2, 7,  8, 13, m[s[13]], m[s[14]])
      v8 == Gs(v7, 3, 4,  9, 14, m[s[15]], m[s[16]])
  IN v8

RECURSIVE RoundsB(_, _, _, _)
RoundsB(v, m, r, n) == IF r = n THEN v ELSE RoundsB(RoundB(v, m, SIGMA[(r % 10) + 1]), m, r + 1, n)
RECURSIVE RoundsS(_, _, _, _)
RoundsS(v, m, r, n) == IF r = n THEN v ELSE RoundsS(RoundS(v, m, SIGMA[(r % 10) + 1]), m, r + 1, n)

\* F(h, block, t, final): h is a sequence of 8 words, block a sequence of 128 (64) bytes,
\* t the byte counter (natural < 2^31), final the last-block flag.  12 rounds (b), 10 rounds (s).
Fb(h, block, t, final) ==
  LET m == [i \in 0..15 |-> LE64w(block, 8 * i + 1)]
      v0 == [i \in 0..15 |->
               IF i < 8 THEN h[i + 1]
               ELSE IF i = 12 THEN Xor64(IVb[5], Nat64(t))
               ELSE IF i = 14 /\ final THEN Xor64(IVb[7], Ones64)
               ELSE IVb[i - 7]]                       \* v[13] = IV[5] ^ t_hi with t_hi = 0
      v == RoundsB(v0, m, 0, 12)
  IN Force([i \in 1..8 |-> Xor64(Xor64(h[i], v[i - 1]), v[i + 7])])

Fs(h, block, t, final) ==
  LET m == [i \in 0..15 |-> LE32(block, 4 * i + 1)]
      v0 == [i \in 0..15 |->
               IF i < 8 THEN h[i + 1]
               ELSE IF i = 12 THEN Xor32(IVs[5], Nat32(t))
               ELSE IF i = 14 /\ final THEN Xor32(IVs[7], Ones32)
               ELSE IVs[i - 7]]
      v == RoundsS(v0, m, 0, 10)
  IN Force([i \in 1..8 |-> Xor32(Xor32(h[i], v[i - 1]), v[i + 7])])

(***************************************************************************)
(* Parameter blocks (RFC 7693 section 2.5 for the sequential fields;       *)
(* BLAKE2 paper table 2.8 / blake2x.pdf for the tree and XOF fields).      *)
(* 32-bit fields (leaf length, node offset, XOF length of BLAKE2b) are     *)
(* PrimWords words <<hi, lo>> so that 2^32-1 is representable; the 16-bit  *)
(* XOF length of BLAKE2s is a natural.  Salt and personalisation are zero  *)
(* (the packages do not expose them).                                      *)
(***************************************************************************)
ParamB(dlen, klen, fanout, depth, leaf, node, xoflen, nodeDepth, inner) ==
  <<dlen, klen, fanout, depth>> \o Bytes32(leaf) \o Bytes32(node) \o Bytes32(xoflen)
    \o <<nodeDepth, inner>> \o Zeros(14) \o Zeros(32)
ParamS(dlen, klen, fanout, depth, leaf, node, xoflen, nodeDepth, inner) ==
  <<dlen, klen, fanout, depth>> \o Bytes32(leaf) \o Bytes32(node) \o <<xoflen % 256, xoflen \div 256>>
    \o <<nodeDepth, inner>> \o Zeros(16)
W0 == <<0, 0>>
SeqParamB(dlen, klen) == ParamB(dlen, klen, 1, 1, W0, W0, W0, 0, 0)
SeqParamS(dlen, klen) == ParamS(dlen, klen, 1, 1, W0, W0, 0, 0, 0)

(***************************************************************************)
(* RFC 7693 section 3.3: the hash.  data = key block (if keyed) || message *)
(* is cut into blocks d[0..dd-1]; all but the last are compressed with     *)
(* t = (i+1)*bb; the last one, zero-padded, with t = Len(data) and the     *)
(* final flag.  Empty unkeyed input: one all-zero block with t = 0.        *)
(***************************************************************************)
PadTo(s, n) == s \o Zeros(n - Len(s))

RECURSIVE ChainB(_, _, _)
ChainB(h, data, done) ==        \* done = bytes already compressed
  IF Len(data) - done <= 128
  THEN Fb(h, PadTo(SubSeq(data, done + 1, Len(data)), 128), Len(data), TRUE)
  ELSE ChainB(Fb(h, SubSeq(data, done + 1, done + 128), done + 128, FALSE), data, done + 128)
RECURSIVE ChainS(_, _, _)
ChainS(h, data, done) ==
  IF Len(data) - done <= 64
  THEN Fs(h, PadTo(SubSeq(data, done + 1, Len(data)), 64), Len(data), TRUE)
  ELSE ChainS(Fs(h, SubSeq(data, done + 1, done + 64), done + 64, FALSE), data, done + 64)

\* param: 64 (32) bytes; key: 0..64 (0..32) bytes; returns the first outlen bytes of the final state
Blake2bP(param, key, msg, outlen) ==
  LET h0 == Force([i \in 1..8 |-> Xor64(IVb[i], LE64w(param, 8 * (i - 1) + 1))])
      data == (IF Len(key) > 0 THEN PadTo(key, 128) ELSE <<>>) \o msg
      h == ChainB(h0, data, 0)
  IN SubSeq(FlattenSeq([i \in 1..8 |-> Bytes64(h[i])]), 1, outlen)
Blake2sP(param, key, msg, outlen) ==
  LET h0 == Force([i \in 1..8 |-> Xor32(IVs[i], LE32(param, 4 * (i - 1) + 1))])
      data == (IF Len(key) > 0 THEN PadTo(key, 64) ELSE <<>>) \o msg
      h == ChainS(h0, data, 0)
  IN SubSeq(FlattenSeq([i \in 1..8 |-> Bytes32(h[i])]), 1, outlen)

\* the sequential hash functions of RFC 7693: digest length 1..64 (1..32), key 0..64 (0..32) bytes
Blake2b(dlen, key, msg) == Blake2bP(SeqParamB(dlen, Len(key)), key, msg, dlen)
Blake2s(dlen, key, msg) == Blake2sP(SeqParamS(dlen, Len(key)), key, msg, dlen)

(***************************************************************************)
(* BLAKE2X (blake2x.pdf section 2).  L is the declared output length       *)
(* (xoflen field); "unknown" is the all-ones field value and then every    *)
(* node has full length.                                                   *)
(*   root H0   = BLAKE2(msg) with digest length 64 (32), the key, and the  *)
(*               XOF length in the parameter block;                        *)
(*   node i    = BLAKE2(H0) with digest length min(64, L - 64 i), no key,  *)
(*               fanout 0, depth 0, leaf length 64, node offset i, XOF     *)
(*               length L, node depth 0, inner length 64   (32 for 2s).    *)
(* For BLAKE2b, L is a natural < 2^31 or -1 (unknown -> field 2^32-1); for *)
(* BLAKE2s a natural < 65535 or -1 (unknown -> field 65535).               *)
(***************************************************************************)
Min2(a, b) == IF a < b THEN a ELSE b
XofFieldB(L) == IF L = -1 THEN <<65535, 65535>> ELSE Nat32(L)
XofFieldS(L) == IF L = -1 THEN 65535 ELSE L
XofRootB(L, key, msg) == Blake2bP(ParamB(64, Len(key), 1, 1, W0, W0, XofFieldB(L), 0, 0), key, msg, 64)
XofRootS(L, key, msg) == Blake2sP(ParamS(32, Len(key), 1, 1, W0, W0, XofFieldS(L), 0, 0), key, msg, 32)
NodeLenB(L, i) == IF L = -1 THEN 64 ELSE Min2(64, L - 64 * i)
NodeLenS(L, i) == IF L = -1 THEN 32 ELSE Min2(32, L - 32 * i)
XofNodeB(L, root, i) ==
  Blake2bP(ParamB(NodeLenB(L, i), 0, 0, 0, Nat32(64), Nat32(i), XofFieldB(L), 0, 64), <<>>, root, NodeLenB(L, i))
XofNodeS(L, root, i) ==
  Blake2sP(ParamS(NodeLenS(L, i), 0, 0, 0, Nat32(32), Nat32(i), XofFieldS(L), 0, 32), <<>>, root, NodeLenS(L, i))

\* output bytes [from, from+n) of the XOF (0-based offsets; the caller keeps from+n <= L when L is known)
XofSliceB(L, key, msg, from, n) ==
  IF n = 0 THEN <<>> ELSE
  LET root == XofRootB(L, key, msg)
      i0 == from \div 64
      i1 == (from + n - 1) \div 64
      all == FlattenSeq([j \in 1..(i1 - i0 + 1) |-> XofNodeB(L, root, i0 + j - 1)])
  IN SubSeq(all, from - 64 * i0 + 1, from - 64 * i0 + n)
XofSliceS(L, key, msg, from, n) ==
  IF n = 0 THEN <<>> ELSE
  LET root == XofRootS(L, key, msg)
      i0 == from \div 32
      i1 == (from + n - 1) \div 32
      all == FlattenSeq([j \in 1..(i1 - i0 + 1) |-> XofNodeS(L, root, i0 + j - 1)])
  IN SubSeq(all, from - 32 * i0 + 1, from - 32 * i0 + n)

(***************************************************************************)
(* Published vectors                                                       *)
(***************************************************************************)
Abc == <<97, 98, 99>>
Count(n) == [i \in 1..n |-> i - 1]          \* bytes 00 01 02 ... (KAT keys and inputs)

ASSUME /\ Add64(Ones64, <<0, 0, 0, 1>>) = Zero64
       /\ Add64(<<4660, 22136, 39612, 57072>>, <<0, 0, 65535, 65535>>) = <<4660, 22137, 39612, 57071>>
       /\ Rotr64(<<4660, 22136, 39612, 57072>>, 32) = <<39612, 57072, 4660, 22136>>
       /\ Rotr64(<<4660, 22136, 39612, 57072>>, 16) = <<57072, 4660, 22136, 39612>>
       /\ Rotr64(<<4660, 22136, 39612, 57072>>, 24) = <<48350, 61458, 13398, 30874>>   \* 0xbcdef0123456789a
       /\ Rotr64(<<4660, 22136, 39612, 57072>>, 63) = <<9320, 44273, 13689, 48608>>    \* rotl 1: 0x2468acf13579bde0
       /\ \A w \in {<<4660, 22136, 39612, 57072>>, <<65535, 1, 32768, 255>>, <<33153, 65280, 4080, 43690>>} :
            /\ R32b(w) = Rotr64(w, 32) /\ R24b(w) = Rotr64(w, 24) /\ R16b(w) = Rotr64(w, 16) /\ R63b(w) = Rotr64(w, 63)
       /\ LE64w(<<240, 222, 188, 154, 120, 86, 52, 18>>, 1) = <<4660, 22136, 39612, 57072>>
       /\ Bytes64(<<4660, 22136, 39612, 57072>>) = <<240, 222, 188, 154, 120, 86, 52, 18>>
       /\ Rotr32(<<4660, 22136>>, 12) = <<26497, 9029>>                                \* 0x67812345
       /\ Rotr32(<<4660, 22136>>, 7) = <<61476, 26796>>                                \* 0xf02468ac

\* RFC 7693 appendix A: BLAKE2b-512("abc")
ASSUME Blake2b(64, <<>>, Abc) =
  <<186,128,165,63,152,28,77,13,106,39,151,182,159,18,246,233,76,33,47,20,104,90,196,183,75,18,187,111,219,255,162,209,
    125,135,197,57,42,171,121,45,194,82,213,222,69,51,204,149,24,211,138,168,219,241,146,90,185,35,134,237,212,0,153,35>>
\* RFC 7693 appendix B: BLAKE2s-256("abc")
ASSUME Blake2s(32, <<>>, Abc) =
  <<80,140,94,140,50,124,20,226,225,167,43,163,78,235,69,47,55,69,139,32,158,214,58,41,77,153,155,76,134,103,89,130>>
\* blake2-kat.json, keyed BLAKE2b (key 00..3f) of the 255-byte input 00..fe: two full blocks after the key block
ASSUME Blake2b(64, Count(64), Count(255)) =
  <<20,39,9,214,46,40,252,204,208,175,151,250,208,248,70,91,151,30,130,32,29,197,16,112,250,160,55,42,164,62,146,72,
    75,225,193,231,59,161,9,6,213,209,133,61,182,164,16,110,10,123,249,128,13,55,61,109,238,45,70,214,46,242,164,97>>
\* blake2-kat.json, keyed BLAKE2s (key 00..1f) of the 255-byte input 00..fe
ASSUME Blake2s(32, Count(32), Count(255)) =
  <<63,183,53,6,26,188,81,157,254,151,158,84,193,238,91,250,208,169,216,88,179,49,91,173,52,189,233,153,239,215,36,221>>
\* blake2-kat.json, BLAKE2Xb (key 00..3f, input 00..ff), output lengths 1 and 70 (two nodes, the last of 6 bytes)
ASSUME XofSliceB(1, Count(64), Count(256), 0, 1) = <<100>>
ASSUME XofSliceB(70, Count(64), Count(256), 0, 70) =
  <<194,168,52,40,26,6,254,123,115,13,58,3,249,7,97,218,240,39,20,192,102,227,63,192,126,31,89,172,128,30,194,244,
    67,52,134,181,162,218,143,170,81,160,207,60,52,226,155,41,96,205,0,19,55,137,56,219,212,124,58,61,18,215,13,176,
    29,125,6,195,233,30>>
\* blake2-kat.json, BLAKE2Xs (key 00..1f, input 00..ff), output length 40 (two nodes, the last of 8 bytes)
ASSUME XofSliceS(40, Count(32), Count(256), 0, 40) =
  <<163,88,68,227,76,32,180,185,55,27,108,82,250,196,18,175,229,216,10,76,30,64,170,58,14,90,114,157,195,212,28,44,
    55,25,208,150,246,22,240,186>>
=============================================================================
