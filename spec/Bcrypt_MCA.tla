----------------------------- MODULE Bcrypt_MCA -----------------------------
(* C17 part A: (1) exhaustive check of the key-equivalence theorems on a scaled key length over all password pairs up
   to MaxLen over a small alphabet with NUL; (2) generator of password/candidate families at the real key length 72
   with TLC's verdict SameKey(p, q), for binding R. *)
EXTENDS Bcrypt, Json

CONSTANTS Alphabet, MaxLen, Seeds, Lens, Costs

RECURSIVE Strs(_)
Strs(n) == IF n = 0 THEN {<<>>} ELSE LET S == Strs(n - 1) IN S \cup {Append(s, a) : s \in {t \in S : Len(t) = n - 1}, a \in Alphabet}

VARIABLES p, q, ph, op
vars == <<p, q, ph, op>>

\* ---- (1) exhaustive pairs
InitX == p \in Strs(MaxLen) /\ q = <<>> /\ ph = 0 /\ op = "-"
NextX == ph = 0 /\ ph' = 1 /\ q' \in Strs(MaxLen) /\ UNCHANGED <<p, op>>
SpecX == InitX /\ [][NextX]_vars

T1 == TranscriptionIsExpand(p)
T2 == RoundTrip(p) /\ TooLongRejected(p)
T3 == LongIsPrefix(p)
T4 == ph = 1 => Truncation(p, q)
T5 == ph = 1 => NulBoundary(p, q)
T6 == ph = 1 => EqualLengthInjective(p, q)
T7 == ph = 1 => Periodic(p, q)
T8 == ph = 1 => ShortSensitive(p, q)
T9 == ph = 1 => (SameKey(p, q) <=> SameKey(q, p)) /\ SameKey(p, p)
\* what the binding asserts about the real code, as one statement
CompareIffSameKey == ph = 1 /\ Len(p) <= KeyBytes => (Compare(Generate(p, MinCost), q) = "ok" <=> SameKey(p, q))

\* ---- (2) families at the real key length
\* bytes 0..250 (NUL included, 0xff excluded: libxcrypt's $2a$ deliberately deviates for some 0xff patterns)
PatByte(seed, i) == (seed * 37 + i * 101 + (i \div 5) * 17 + (i \div 11) * seed) % 251
Pat(seed, n) == [i \in 1..n |-> PatByte(seed, i)] \o <<>>
\* NUL-free variant (1..250) for the interop clauses: C strings cannot carry NUL
PatNZ(seed, n) == [i \in 1..n |-> 1 + (PatByte(seed, i) % 250)] \o <<>>
Base(seed, n) == IF seed % 2 = 0 THEN Pat(seed, n) ELSE PatNZ(seed, n)

Flip(s, i) == [s EXCEPT ![i] = IF s[i] % 2 = 0 THEN s[i] + 1 ELSE s[i] - 1]
Junk(n) == [i \in 1..n |-> 33 + i] \o <<>>
Ops == {"same", "flip-first", "flip-mid", "flip-last", "append-nul", "append-nul-junk", "append-x", "drop-last",
        "periodic", "periodic-nul", "periodic-broken", "prefix72-junk", "prefix72", "prefix71", "flip-73", "nul-to-x"}
Applicable(o, s) == CASE o \in {"flip-first", "flip-mid", "flip-last", "drop-last", "periodic", "periodic-nul", "periodic-broken"} -> Len(s) >= 1
                      [] o = "flip-73" -> Len(s) >= 73
                      [] OTHER -> TRUE
Apply(o, s) == CASE o = "same" -> s
                 [] o = "flip-first" -> Flip(s, 1)
                 [] o = "flip-mid" -> Flip(s, (Len(s) + 1) \div 2)
                 [] o = "flip-last" -> Flip(s, Len(s))
                 [] o = "append-nul" -> s \o <<0>>
                 [] o = "append-nul-junk" -> s \o <<0>> \o Junk(3)
                 [] o = "append-x" -> s \o <<120>>
                 [] o = "drop-last" -> SubSeq(s, 1, Len(s) - 1)
                 [] o = "periodic" -> s \o <<0>> \o s
                 [] o = "periodic-nul" -> s \o <<0>> \o s \o <<0>>
                 [] o = "periodic-broken" -> s \o <<0>> \o Flip(s, Len(s))
                 [] o = "prefix72-junk" -> Prefix(s, 72) \o Junk(5)
                 [] o = "prefix72" -> Prefix(s, 72)
                 [] o = "prefix71" -> Prefix(s, 71)
                 [] o = "flip-73" -> Flip(s, 73)
                 [] o = "nul-to-x" -> s \o <<120, 0>>

InitG == ph = 0 /\ q = <<>> /\ op = "-" /\ \E sd \in Seeds, n \in Lens : p = Base(sd, n)
NextG == ph = 0 /\ ph' = 1 /\ UNCHANGED p /\ \E o \in Ops : Applicable(o, p) /\ op' = o /\ q' = Apply(o, p)
SpecG == InitG /\ [][NextG]_vars

\* the password whose hash is made: GenerateFromPassword refuses more than 72 bytes, so the hash of the first 72 is used
HashedPw == Prefix(p, KeyBytes)
EmitA == ph = 1 => PrintT("TRACE " \o ToJson([p |-> p, hp |-> HashedPw, q |-> q, op |-> op,
                                               gen |-> Generate(p, MinCost).t, same |-> SameKey(HashedPw, q)]))
\* sanity of the family (non-vacuity): both verdicts occur, and the theorems hold on it too
FamilyTheorems == ph = 1 => /\ TranscriptionIsExpand(p) /\ TranscriptionIsExpand(q) /\ Truncation(p, q) /\ NulBoundary(p, q)
                            /\ EqualLengthInjective(p, q) /\ Periodic(p, q) /\ LongIsPrefix(p) /\ LongIsPrefix(q)
                            /\ SameKey(p, HashedPw)
=============================================================================
