----------------------------- MODULE AgentWireCli -----------------------------
(* X06 (growth), binding E+R, client direction -- agent.NewClient as (i) a function from an API call to
   the octets written and (ii) a function from the octets of a reply to the result of the call.

   (i)  "req" cases: for every API call of the menu (List, Signers, RemoveAll, Remove, Lock, Unlock, Sign,
        SignWithFlags, Extension, Add for every pool key -- plain, DSA, ECDSA, Ed25519, RSA and the four
        certificate kinds -- with every combination of lifetime / confirm / 0..2 extension constraints) TLC
        computes the exact frame  uint32 length || type || contents  with the encoders of AgentWireCodec.
   (ii) "rep" cases: for every kind of call (simple = Add/Remove/RemoveAll/Lock/Unlock, list, sign, ext) and
        every reply of the menu -- the replies ServeAgent can produce, and replies only a broken or hostile
        agent produces: key count larger than the entries present (truncated answer), smaller than the entries
        present (over-long answer), an entry cut in the middle, a key blob that is not a blob, absurd counts,
        signature blobs with missing / extra parts, unknown tags, an empty message, a declared length above
        the maximum, a frame cut by the end of the stream -- TLC computes the outcome with ClientOutcome:
        ok (with the keys / signature / raw extension reply), err, or unsupported (ErrExtensionUnsupported).

   The harness makes the real client perform each call over a recording transport and compares the octets
   written (i), and plays each reply to the real client -- serialised and pipelined -- and compares the
   outcome (ii).  One case per initial state; there are no transitions. *)
EXTENDS AgentWireCodec, TLC, Json

CONSTANTS MaxMsg, GenKeys

VARIABLE case
cvars == <<case>>

Ext1 == << <<B("x"), <<1, 2, 3>> >> >>
Ext2 == << <<B("x"), <<>> >>, << <<121, 64, 118>>, <<255, 0>> >> >>
ExtsOf(n) == IF n = 0 THEN <<>> ELSE IF n = 1 THEN Ext1 ELSE Ext2

Call(op, k, c, n) == [op |-> op, k |-> k, c |-> c, n |-> n, confirm |-> FALSE, exts |-> 0]
ReqCalls ==
  { Call("list", "", "", 0), Call("signers", "", "", 0), Call("removeall", "", "", 0),
    Call("lock", "", "p", 0), Call("lock", "", "e", 0), Call("unlock", "", "p", 0), Call("unlock", "", "q", 0),
    Call("ext", "", "x", 0) }
  \cup { Call("remove", k, "", 0) : k \in GenKeys }
  \cup { Call("sign", k, c, f) : k \in GenKeys, c \in {"d", "e"}, f \in {0, 1, 2, 4, 6} }
  \cup { [Call("add", k, c, life) EXCEPT !.confirm = cf, !.exts = ne] :
            k \in GenKeys, c \in {"a", "e"}, life \in {0, 1, 3600}, cf \in BOOLEAN, ne \in 0..2 }

CallBytes(c) ==
  CASE c.op \in {"list", "signers"} -> ReqList
    [] c.op = "removeall" -> ReqRemoveAll
    [] c.op = "remove" -> ReqRemove(Blob(c.k))
    [] c.op = "lock" -> ReqLock(B(c.c))
    [] c.op = "unlock" -> ReqUnlock(B(c.c))
    [] c.op = "sign" -> ReqSign(Blob(c.k), B(c.c), c.n)
    [] c.op = "ext" -> ReqExtension(B(c.c), <<9, 9>>)
    [] c.op = "add" -> ReqAdd(c.k, B(c.c), Constraints(c.n, c.confirm, ExtsOf(c.exts)))

\* ---- replies: [name, hdr, body] -- the stream ends after hdr ++ body
Rpl(name, body) == [name |-> name, hdr |-> EncLen(Len(body)), body |-> body, pad |-> 0]
E1 == IdEntry(Blob("ed1"), B("a"))
E2 == IdEntry(Blob("rsa1c"), B("b"))
E3 == IdEntry(Blob("ed1"), B("e"))
Ids(n, bytes) == <<MsgIdentitiesAnswer>> \o EncLen(n) \o bytes
SomeSig == [i \in 1..64 |-> (i * 3) % 256]
Replies ==
  { Rpl("failure", RepFailure), Rpl("success", RepSuccess),
    Rpl("failure-trail", RepFailure \o <<1, 2>>), Rpl("success-trail", RepSuccess \o <<0>>),
    Rpl("ids0", RepIdentities(<<>>)), Rpl("ids1", RepIdentities(<<E1>>)), Rpl("ids2", RepIdentities(<<E1, E2>>)),
    Rpl("ids1-emptycomment", RepIdentities(<<E3>>)),
    Rpl("ids-count3-have2", Ids(3, E1 \o E2)),                                 \* truncated answer
    Rpl("ids-count1-have2", Ids(1, E1 \o E2)),                                 \* over-long answer
    Rpl("ids-count0-have1", Ids(0, E1)),
    Rpl("ids-count1-have0", Ids(1, <<>>)),
    Rpl("ids-count2-cut", Ids(2, E1 \o SubSeq(E2, 1, Len(E2) - 2))),           \* second entry cut
    Rpl("ids-count2-cutblob", Ids(2, E1 \o SubSeq(E2, 1, 9))),
    Rpl("ids-trailing-junk", Ids(1, E1 \o <<7, 7, 7>>)),
    Rpl("ids-blob-not-a-blob", Ids(1, IdEntry(<<1, 2>>, B("a")))),
    Rpl("ids-blob-empty", Ids(1, IdEntry(<<>>, B("a")))),
    Rpl("ids-count-too-many", Ids(2097153, E1)),
    Rpl("ids-count-max-allowed", Ids(2097152, E1)),
    Rpl("ids-count-huge", <<MsgIdentitiesAnswer, 255, 255, 255, 255>> \o E1),
    Rpl("ids-short", <<MsgIdentitiesAnswer, 0, 0>>),
    Rpl("ids-bare", <<MsgIdentitiesAnswer>>),
    Rpl("sig", RepSign(SigBlob(KeyMat["ed1"].sigfmt, SomeSig))),
    Rpl("sig-rest", RepSign(SigBlob(KeyMat["ed1"].sigfmt, SomeSig) \o <<4, 5>>)),
    Rpl("sig-nosig", RepSign(EncString(KeyMat["ed1"].sigfmt))),
    Rpl("sig-emptyblob", RepSign(<<>>)),
    Rpl("sig-cutsig", RepSign(SubSeq(SigBlob(KeyMat["ed1"].sigfmt, SomeSig), 1, 30))),
    Rpl("sig-trail", RepSign(SigBlob(KeyMat["ed1"].sigfmt, SomeSig)) \o <<0>>),
    Rpl("sig-cut", <<MsgSignResponse, 0, 0, 0, 9, 1>>),
    Rpl("sig-bare", <<MsgSignResponse>>),
    Rpl("v1ids", RepV1Identities), Rpl("v1ids-trail", RepV1Identities \o <<0>>),
    Rpl("tag99", <<99>>), Rpl("tag0", <<0>>), Rpl("extfail", <<MsgExtensionFailure>>), Rpl("extfail-body", <<MsgExtensionFailure, 1>>),
    Rpl("tag-request-11", <<MsgRequestIdentities>>),
    Rpl("empty", <<>>),
    [name |-> "toolarge", hdr |-> EncLen(MaxMsg + 1), body |-> <<MsgSuccess>>, pad |-> 0],
    [name |-> "toolarge-complete", hdr |-> EncLen(MaxMsg + 1), body |-> <<MsgSuccess>>, pad |-> MaxMsg],   \* every declared octet is there
    [name |-> "huge", hdr |-> <<255, 255, 255, 255>>, body |-> <<MsgSuccess>>, pad |-> 0],
    [name |-> "exactmax", hdr |-> EncLen(MaxMsg), body |-> <<MsgSuccess>>, pad |-> MaxMsg - 1],
    [name |-> "cut-frame", hdr |-> EncLen(10), body |-> <<MsgSuccess, 0, 0>>, pad |-> 0],
    [name |-> "cut-header", hdr |-> <<0, 0>>, body |-> <<>>, pad |-> 0],
    [name |-> "eof", hdr |-> <<>>, body |-> <<>>, pad |-> 0] }
CallKinds == {"simple", "list", "sign", "ext"}

\* padded replies are decided by their first octet (success with trailing octets)
OutcomeOf(kind, r) ==
  IF Len(r.hdr) < 4 \/ HdrHuge(r.hdr) \/ HdrLen(r.hdr) > MaxMsg \/ Len(r.body) + r.pad < HdrLen(r.hdr)
  THEN Out("err")
  ELSE ClientOutcome(kind, r.body)

Cases == { [kind |-> "req", call |-> c, bytes |-> Frame(CallBytes(c)), callkind |-> "", reply |-> "", out |-> Out("none")] : c \in ReqCalls }
         \cup { [kind |-> "rep", call |-> Call("none", "", "", 0), bytes |-> <<>>, callkind |-> ck, reply |-> r.name, out |-> OutcomeOf(ck, r)] :
                  ck \in CallKinds, r \in Replies }

CInit == case \in Cases
CNext == UNCHANGED case
CSpec == CInit /\ [][CNext]_cvars

\* ---- properties of the two functions
\* the server's parser reads every client request back as the call it came from (the two directions of the codec agree)
ReqReadBack == case.kind = "req" =>
  LET pr == ParseReq(CallBytes(case.call)) c == case.call IN
  CASE c.op \in {"list", "signers"} -> pr.op = "list"
    [] c.op = "add" -> pr.op = "add" /\ KeyOfVals(pr.kind, pr.vals) = c.k /\ pr.s = B(c.c) /\ pr.n = c.n
                       /\ pr.confirm = c.confirm /\ pr.exts = c.exts
    [] c.op = "sign" -> pr.op = "sign" /\ pr.blob = Blob(c.k) /\ pr.data = B(c.c) /\ pr.n = c.n
    [] c.op = "remove" -> pr.op = "remove" /\ pr.blob = Blob(c.k)
    [] c.op \in {"lock", "unlock"} -> pr.op = c.op /\ pr.s = B(c.c)
    [] OTHER -> pr.op = c.op
\* a frame never exceeds what it declares; add-identity switches to the constrained message exactly when constrained
FrameShape == case.kind = "req" =>
  /\ HdrLen(SubSeq(case.bytes, 1, 4)) = Len(case.bytes) - 4
  /\ case.call.op = "add" => (case.bytes[5] = MsgAddIdConstrained) = (case.call.n # 0 \/ case.call.confirm \/ case.call.exts > 0)
\* W1 at the level of one reply: a truncated identities answer is never reported as success, and no call of one
\* kind accepts the reply of another kind as success
NoFalseSuccess == case.kind = "rep" =>
  /\ case.reply \in {"toolarge", "toolarge-complete", "huge", "cut-frame", "cut-header", "eof", "empty"} => case.out.t # "ok"
  /\ (case.callkind = "list" /\ case.reply \in {"ids-count3-have2", "ids-count1-have0", "ids-count2-cut", "ids-count2-cutblob",
                                                "ids-blob-not-a-blob", "ids-blob-empty", "ids-count-too-many", "ids-count-huge",
                                                "ids-count-max-allowed", "ids-short", "ids-bare"}) => case.out.t # "ok"
  /\ (case.callkind = "simple" /\ case.out.t = "ok") => case.reply \in {"success", "success-trail", "exactmax"}
  /\ (case.callkind = "list" /\ case.out.t = "ok") => ClientMsg((CHOOSE r \in Replies : r.name = case.reply).body) = "ids"
  /\ (case.callkind = "sign" /\ case.out.t = "ok") => ClientMsg((CHOOSE r \in Replies : r.name = case.reply).body) = "sig"
  /\ (case.callkind = "ext" /\ case.reply = "failure") => case.out.t = "unsupported"

Emit == PrintT("TRACE " \o ToJson(case))
ReplyTable == {[name |-> r.name, hdr |-> r.hdr, body |-> r.body, pad |-> r.pad] : r \in Replies}
EmitTable == (case.kind = "req" /\ case.call.op = "removeall") => PrintT("TRACE " \o ToJson([table |-> ReplyTable, maxmsg |-> MaxMsg]))
=============================================================================
