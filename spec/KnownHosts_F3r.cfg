SPECIFICATION Spec
CONSTANTS
  FileSet <- FilesF3r
  QuerySeq <- QueriesFq
  StarFix = TRUE
  SubjectFix = TRUE
  CAListsPlain = TRUE
  RevokedSubject = TRUE
INVARIANTS TypeOK Agree AcceptSound RevokedDominates WantExact OrderIndependent Emit
CHECK_DEADLOCK FALSE
