SPECIFICATION GenSpec
CONSTANTS
  Ops = {1}
  Budgets = {0, 1, 3}
  PhaseSet = {1, 2}
  MaxNonces = 100
  MaxReplies = 4
  NonceURLs = {TRUE, FALSE}
  InitPools = {0, 1}
  StopVals = {"zero", "neg"}
INVARIANTS Emit TypeOK N1_FreshNonces N1_Discipline N2_Bounded N2_Cancel N3_LastReply N4_PoolCap MutexOK
CHECK_DEADLOCK FALSE
