INIT Init
NEXT Next
CONSTANTS
  TagLen = 2
  EpkLen = 3
  SigLen = 2
  Fixed = {}
  Mode = "small"
  Base = 20
  Span = 3
  MaxN = 2
  MaxP = 1
  GenClasses = {}
  GenLens = {}
  GenXtsLens = {}
  GenPrefixes = {}
  GenCaps = {}
  GenAds = {}
  DMin = 0
  DMax = 0
  Strict = FALSE
INVARIANTS PairsOK CallsOK ExecOK
CHECK_DEADLOCK FALSE
