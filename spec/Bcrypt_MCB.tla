----------------------------- MODULE Bcrypt_MCB -----------------------------
(* C17 part B: hash strings.  Templates (canonical strings for a version form and cost) are mutated (one or two byte
   replacements, truncation, extension); TLC checks the parser transcription against the grammar the property names and
   emits each string with the predicted outcome of Cost and CompareHashAndPassword, for binding R. *)
EXTENDS Bcrypt, Json

CONSTANTS Templates,     \* set of <<major, minor, c1, c2>> byte codes (minor 0: no minor version byte)
          Repl,          \* replacement byte codes tried at every position
          Pos2,          \* positions for double mutations ({} = none)
          Repl2          \* replacement codes for double mutations

TemplatesQ == { <<50, 97, 48, 52>>, <<50, 98, 48, 53>>, <<50, 0, 48, 52>> }                       \* $2a$04$ $2b$05$ $2$04$
TemplatesT == TemplatesQ \cup { <<50, 121, 48, 54>> }                                                \* + $2y$06$
ReplQ == {36, 49, 50, 51, 97, 120, 88, 33, 48, 57, 43, 45, 0, 255, 10, 61, 32, 900, 901}
ReplT == ReplQ \cup {98, 121, 52, 53, 13, 47}
Pos2T == {1, 2, 3, 4, 5, 6, 7, 8, 29, 30, 60}
Repl2T == {36, 50, 51, 97, 48, 57, 43, 33, 900}

VARIABLES s, tm, kind
vars == <<s, tm, kind>>

T(t) == Canon(t[1], t[2], t[3], t[4])
TCost(t) == 10 * (t[3] - 48) + (t[4] - 48)
\* symbolic replacements only where a salt/hash character sits; 901 only on the 22nd salt character
Fits(str, i, c) == /\ c # str[i]
                   /\ c = 900 => str[i] >= 1000
                   /\ c = 901 => str[i] = 1022
Mut(str, i, c) == [str EXCEPT ![i] = c]
Ext == {<<10>>, <<0>>, <<Dollar>>, <<46, 46, 46, 46, 46, 46, 46, 46, 46, 46>>}

Init == \E t \in Templates : tm = t /\ s = T(t) /\ kind = "canonical"
Next == /\ kind = "canonical" /\ UNCHANGED tm
        /\ \/ \E i \in 1..Len(s), c \in Repl : Fits(s, i, c) /\ s' = Mut(s, i, c) /\ kind' = "replace1"
           \/ \E n \in 0..(Len(s) - 1) : s' = SubSeq(s, 1, n) /\ kind' = "truncate"
           \/ \E e \in Ext : s' = s \o e /\ kind' = "extend"
           \/ \E i \in Pos2, j \in Pos2, c \in Repl2, d \in Repl2 :
                i < j /\ j <= Len(s) /\ Fits(s, i, c) /\ Fits(s, j, d) /\ s' = Mut(Mut(s, i, c), j, d) /\ kind' = "replace2"
Spec == Init /\ [][Next]_vars

Right == CompareOutcome(s, TCost(tm), TRUE)      \* candidate = the password (or any same-key candidate)
Wrong == CompareOutcome(s, TCost(tm), FALSE)     \* candidate = a different key

\* ---- what TLC checks about the transcription
\* a string of the property's grammar made from this template parses, gives its cost, verifies the right key only
GrammarAccepted == WellFormed(s) /\ kind = "canonical" => /\ CostOutcome(s) = [t |-> "ok", cost |-> TCost(tm)]
                                                          /\ Right = "ok" /\ Wrong = "mismatch"
\* no string, however mangled, verifies a different key
NeverAcceptsWrongKey == Wrong # "ok"
\* every outcome is a value or one of the error classes: the parser never indexes outside the string
Total == /\ CostOutcome(s).t \in {"ok"} \cup MustFail
         /\ Right \in {"ok", "mismatch"} \cup MustFail
\* Cost succeeds exactly when the first seven bytes parse (it never looks at salt or hash)
CostIgnoresTail == CostOutcome(s).t = "ok" <=> Parse(s).t = "parsed"
\* a well-formed string that is not the template's own does not verify
OnlyOwnHash == WellFormed(s) /\ kind # "canonical" /\ Right = "ok" => \A i \in 1..60 : s[i] = T(tm)[i] \/ i \in {3, 5, 6}
\* documented leniency of the parser (not demanded, not forbidden by the property): strings outside the grammar that verify
Lenient == ~WellFormed(s) /\ Right = "ok"

EmitB == PrintT("TRACE " \o ToJson([s |-> s, kind |-> kind, tmpl |-> tm, wf |-> WellFormed(s),
                                    cost |-> CostOutcome(s), right |-> Right, wrong |-> Wrong]))
=============================================================================
