----------------------------- MODULE Argon2Index -----------------------------
(***************************************************************************)
(* C15, the structural part of Argon2: which block may be referenced when  *)
(* block [lane][col] is computed (RFC 9106 section 3.4.2), as a state      *)
(* machine over the memory matrix.                                         *)
(*                                                                         *)
(* The machine fills a matrix of Lanes x (4 * SegLen) blocks the way       *)
(* /repo/argon2/argon2.go processBlocks does: Passes passes, each of four  *)
(* slices; inside a slice every lane works through its segment on its own  *)
(* goroutine (action Step(l), arbitrary interleaving), and a barrier       *)
(* (wg.Wait, action Barrier) separates slices.  `ver` records what has     *)
(* really been written (the pass that last wrote each block, -1 = never).  *)
(* A step picks its reference block with the arithmetic of indexAlpha/phi  *)
(* (GoM, GoS, GoPhi below are that code, with the pseudo-random inputs     *)
(* abstracted: the reference lane is any lane, and phi's scaled value pp = *)
(* (J1^2 / 2^32 * m) / 2^32 is any value in 0..m-1).                       *)
(*                                                                         *)
(* The invariants compare that choice with the RFC read declaratively:     *)
(* the set W is *listed* from the state (segments of the reference lane    *)
(* that are completely written and are not the slice in progress, oldest   *)
(* first; for the own lane also what the current segment has produced;     *)
(* minus the excluded last element), and                                   *)
(*   AreaAgrees   |W| = Go's m = Argon2Area!AreaSize,                      *)
(*   BlockAgrees  Go's block = the zz-th element of W = Argon2Area!AreaCol *)
(*                with zz = |W| - 1 - pp,                                   *)
(*   RefWritten   the referenced block has been written,                   *)
(*   NoRace       it is not in a segment another goroutine is writing in   *)
(*                this slice, it is not the block being computed, and in   *)
(*                the own lane it is neither B[i][j-1] nor a block of the  *)
(*                current segment not yet rewritten in this pass,          *)
(*   FirstSlice   in slice 0 of pass 0 the reference lane is the own lane. *)
(* Variant = "rfc" is the code as it is; the other values are deliberate   *)
(* mistakes of the kind the invariants exist to catch (documentation       *)
(* configurations; TLC must find a counterexample).                        *)
(***************************************************************************)
EXTENDS Argon2Area, Sequences, FiniteSets, TLC

CONSTANTS Lanes,      \* p
          SegLen,     \* columns per segment (>= 2: a lane has at least 8 blocks)
          Passes,     \* t
          Variant     \* "rfc" | "area-plus-one" | "prev-not-excluded" | "start-at-current" | "first-not-excluded"

Q == SyncPoints * SegLen                       \* columns per lane (Go: `lanes`)
LaneIds == 0..(Lanes - 1)
NoRef == [l |-> -1, idx |-> 0, rl |-> 0, rc |-> 0, pp |-> 0, m |-> 0, W |-> <<>>, pass |-> 0, slice |-> 0, refver |-> 0,
          asize |-> 0, acol |-> 0]

VARIABLES pass, slice,
          pos,      \* pos[l]: next position of lane l in its current segment
          ver,      \* ver[l][c]: pass that last wrote block [l][c], -1 = never
          last      \* the reference chosen by the last step (NoRef after Init/Barrier)
vars == <<pass, slice, pos, ver, last>>

(***************************************************************************)
(* /repo/argon2/argon2.go indexAlpha and phi                               *)
(***************************************************************************)
GoRefLane(j2lane, n, sl, lane) == IF n = 0 /\ sl = 0 THEN lane ELSE j2lane

GoM(n, sl, lane, refLane, index) ==
  LET m0 == 3 * SegLen + (IF lane = refLane THEN index ELSE 0)
      m1 == IF n = 0 THEN sl * SegLen + (IF sl = 0 \/ lane = refLane THEN index ELSE 0) ELSE m0
      dec == CASE Variant = "prev-not-excluded"  -> IF index = 0 THEN 1 ELSE 0
               [] Variant = "first-not-excluded" -> IF lane = refLane THEN 1 ELSE 0
               [] OTHER                          -> IF index = 0 \/ lane = refLane THEN 1 ELSE 0
  IN m1 - dec + (IF Variant = "area-plus-one" THEN 1 ELSE 0)

GoS(n, sl) == IF n = 0 THEN 0
              ELSE IF Variant = "start-at-current" THEN sl * SegLen
              ELSE ((sl + 1) % SyncPoints) * SegLen

\* column part of phi: (s + m - (p + 1)) % lanes
GoPhiCol(pp, m, s) == (s + m - (pp + 1)) % Q

(***************************************************************************)
(* RFC 9106 section 3.4.2 read from the state                              *)
(***************************************************************************)
SegCols(s) == [i \in 1..SegLen |-> s * SegLen + i - 1]
SegWritten(l, s) == \A i \in 1..SegLen : ver[l][SegCols(s)[i]] >= 0
\* the other three segments, oldest first (the one after the slice in progress was written longest ago)
Others == [k \in 1..3 |-> (slice + k) % SyncPoints]
RECURSIVE Concat(_, _)
Concat(ss, k) == IF k > Len(ss) THEN <<>> ELSE ss[k] \o Concat(ss, k + 1)
FinishedCols(rl) == Concat([k \in 1..3 |-> IF SegWritten(rl, Others[k]) THEN SegCols(Others[k]) ELSE <<>>], 1)
\* W for lane l at position idx of its segment, reference lane rl
W(l, idx, rl) ==
  LET own == IF rl = l THEN SubSeq(SegCols(slice), 1, idx) ELSE <<>>      \* computed in the current segment in this pass
      all == FinishedCols(rl) \o own
      drop == IF rl = l \/ idx = 0 THEN 1 ELSE 0                          \* B[i][j-1], or the very last index
  IN SubSeq(all, 1, Len(all) - drop)

(***************************************************************************)
(* The machine                                                             *)
(***************************************************************************)
Init == /\ pass = 0 /\ slice = 0
        /\ pos = [l \in LaneIds |-> 2]                \* initBlocks has written columns 0 and 1 of every lane
        /\ ver = [l \in LaneIds |-> [c \in 0..(Q - 1) |-> IF c < 2 THEN 0 ELSE -1]]
        /\ last = NoRef

Step(l) ==
  /\ pass < Passes
  /\ pos[l] < SegLen
  /\ \E j2lane \in LaneIds :
       LET idx == pos[l]
           rl == GoRefLane(j2lane, pass, slice, l)
           m == GoM(pass, slice, l, rl, idx)
           s == GoS(pass, slice)
       IN \E pp \in 0..(m - 1) :
            LET rc == GoPhiCol(pp, m, s) IN
            /\ last' = [l |-> l, idx |-> idx, rl |-> rl, rc |-> rc, pp |-> pp, m |-> m, W |-> W(l, idx, rl),
                        pass |-> pass, slice |-> slice, refver |-> ver[rl][rc],
                        asize |-> AreaSize(pass, slice, idx, SegLen, rl = l),
                        acol |-> IF m - 1 - pp >= 0 THEN AreaCol(pass, slice, SegLen, m - 1 - pp) ELSE -1]
            /\ ver' = [ver EXCEPT ![l][slice * SegLen + idx] = pass]
            /\ pos' = [pos EXCEPT ![l] = idx + 1]
            /\ UNCHANGED <<pass, slice>>

Barrier ==
  /\ pass < Passes
  /\ \A l \in LaneIds : pos[l] = SegLen
  /\ slice' = (slice + 1) % SyncPoints
  /\ pass' = IF slice = SyncPoints - 1 THEN pass + 1 ELSE pass
  /\ pos' = [l \in LaneIds |-> 0]
  /\ last' = NoRef
  /\ UNCHANGED ver

Next == Barrier \/ \E l \in LaneIds : Step(l)
Spec == Init /\ [][Next]_vars

(***************************************************************************)
(* Properties                                                              *)
(***************************************************************************)
TypeOK == /\ pass \in 0..Passes /\ slice \in 0..(SyncPoints - 1)
          /\ pos \in [LaneIds -> 0..SegLen]
          /\ \A l \in LaneIds, c \in 0..(Q - 1) : ver[l][c] \in -1..(Passes - 1)

Stepped == last.l >= 0
CurCol == last.slice * SegLen + last.idx
PrevCol == (CurCol + Q - 1) % Q

AreaAgrees == Stepped => /\ last.m = Len(last.W)
                         /\ last.asize = Len(last.W)
                         /\ last.m >= 1                                  \* there is always a block to refer to
BlockAgrees == Stepped => /\ last.m - 1 - last.pp \in 0..(Len(last.W) - 1)
                          /\ last.rc = last.W[last.m - last.pp]          \* the zz-th element, zz = |W| - 1 - pp (0-based)
                          /\ last.acol = last.rc
RefWritten == Stepped => last.refver >= 0
InCurSeg(c) == c \div SegLen = last.slice
NoRace == Stepped =>
  /\ (last.rl # last.l) => ~InCurSeg(last.rc)                            \* another goroutine's segment of this slice
  /\ (last.rl = last.l) => (last.rc # CurCol /\ last.rc # PrevCol)
  /\ (last.rl = last.l /\ InCurSeg(last.rc)) => (last.rc < CurCol /\ last.refver = last.pass)
FirstSlice == Stepped /\ last.pass = 0 /\ last.slice = 0 => last.rl = last.l

\* every block is rewritten in every pass: at the end the whole matrix carries the last pass
Complete == pass = Passes => \A l \in LaneIds, c \in 0..(Q - 1) : ver[l][c] = Passes - 1
\* coverage witnesses (negated: TLC must reach them in the vacuity run)
SomeOtherLaneFirstPos == ~(Stepped /\ last.rl # last.l /\ last.idx = 0)
=============================================================================
