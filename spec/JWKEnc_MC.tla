------------------------------ MODULE JWKEnc_MC ------------------------------
EXTENDS JWKEnc, JWKKeys, Json
Emit == (phase = "done") => PrintT("TRACE " \o ToJson([key |-> [id |-> key.id, kty |-> key.kty, crv |-> key.crv], out |-> out]))
=============================================================================
