----------------------------- MODULE SSHWire_MC -----------------------------
(* Bounded instances of SSHWire (C24): boundary-value menus per field kind, the case generator
   for binding E+R, and the numeric anchoring of PrimTwos. *)
EXTENDS SSHWire, Json

FullTable == Table
\* userAuthSuccessMsg has no fields and no type tag: no wire format of its own (see the claim note)
AllMessages == DOMAIN FullTable \ {"userAuthSuccessMsg"}
AdHocOnly == DOMAIN AdHocTable
OneMsg == {"kexInitMsg"}

Str(n) == [i \in 1..n |-> 97 + ((i * 7) % 26)]
Bin(n) == [i \in 1..n |-> (i * 37 + 200) % 256]
U32s == { <<0, 0>>, <<0, 1>>, <<0, 255>>, <<0, 256>>, <<0, 65535>>, <<1, 0>>, <<256, 0>>, <<32767, 65535>>, <<32768, 0>>, <<65535, 65535>> }
Ks == {7, 8, 15, 16, 23, 24, 31, 32, 63, 64}
KsBig == Ks \cup {33, 127, 128, 255, 256, 1023, 1024, 2047, 2048}
Mags(K) == UNION {{Pow2m1(k), Pow2(k), Pow2p1(k)} : k \in K} \cup {<<1>>, <<2>>, <<255, 255, 255>>}
Mpints(K) == {BigZero} \cup {BigInt(FALSE, m) : m \in Mags(K)} \cup {BigInt(TRUE, m) : m \in Mags(K)}
Names == { <<>>, << <<97>> >>, << <<97>>, <<98>> >>, << Str(3), Str(20), <<45>> >>, << Str(255) >>, << Str(130), Str(125) >>, << <<0>>, <<200, 128>> >> }

ArrLen(k) == CASE k = "arr1" -> 1 [] k = "arr4" -> 4 [] k = "arr8" -> 8 [] OTHER -> 16
BaseQ(k) == CASE k = "byte" -> 7 [] k = "bool" -> TRUE [] k = "u32" -> <<1, 2>> [] k = "u64" -> <<1, 2, 3, 4>>
              [] k = "string" -> Str(3) [] k = "bytes" -> <<1, 2, 3>> [] k = "rest" -> <<9, 8>>
              [] k = "namelist" -> << <<97, 98>>, <<99>> >> [] k = "mpint" -> BigInt(FALSE, <<1, 0>>)
              [] OTHER -> [i \in 1..ArrLen(k) |-> i]
MenuOf(k, K, big) ==
         CASE k = "byte" -> {0, 1, 127, 128, 255}
           [] k = "bool" -> {TRUE, FALSE}
           [] k = "u32" -> U32s
           [] k = "u64" -> {<<0, 0, 0, 0>>, <<0, 0, 0, 1>>, <<0, 0, 1, 0>>, <<0, 1, 0, 0>>, <<1, 0, 0, 0>>, <<32768, 0, 0, 0>>, <<65535, 65535, 65535, 65535>>}
           [] k = "string" -> {<<>>, <<97>>, <<0>>, <<44>>, <<255, 128>>, Str(255), Str(256), Str(257)} \cup (IF big THEN {Str(65535), Str(65536)} ELSE {})
           [] k = "bytes" -> {<<>>, <<0>>, <<255>>, Bin(127), Bin(128), Bin(255), Bin(256)} \cup (IF big THEN {Bin(65536)} ELSE {})
           [] k = "rest" -> {<<>>, <<0>>, <<0, 0, 0, 1>>, Bin(5), Bin(256)}
           [] k = "namelist" -> Names
           [] k = "mpint" -> Mpints(K)
           [] OTHER -> {Zeros(ArrLen(k)), Rep(255, ArrLen(k))}
MenuQ(k) == MenuOf(k, Ks, FALSE)
MenuT(k) == MenuOf(k, KsBig, TRUE)

\* ---- generator
Record == [name |-> c.name, vals |-> c.vals, wire |-> wire,
           restOff |-> IF HasRest(SigC) THEN RestOffset(SigC, c.vals) ELSE -1,
           muts |-> [j \in 1..Len(muts) |-> [m |-> muts[j].m, a |-> muts[j].a, b |-> muts[j].b, ok |-> out.mres[j].u.ok,
                                              vals |-> out.mres[j].u.vals]],
           decOwn |-> (SigC.types # <<>> /\ <<SigC.types[1], c.name>> \in DecodeTable),
           dec |-> out.dec]
Emit == Done => PrintT("TRACE " \o ToJson(Record))
\* the signature tables, once
EmitTable == (phase = "init" /\ c.name = "adhocNoTag" /\ c.vals = BaseVals("adhocNoTag")) =>
               PrintT("TRACE " \o ToJson([table |-> FullTable, decode |-> DecodeTable]))
=============================================================================
