---------------------------- MODULE AcmeAccount_Gen ----------------------------
(* Behaviour generator for binding R of X09: one witness history per distinct (model state, last event),
   printed at every state in which a call has just returned (so every transition of the bounded
   instance lies on an emitted history); the events carry the model's predictions. *)
EXTENDS AcmeAccount_MC, Json
VARIABLE hist
GenInit == Init /\ hist = <<ev>>
GenNext == Next /\ hist' = Append(hist, ev')
GenSpec == GenInit /\ [][GenNext]_<<vars, hist>>
GenView == vars
Emit == (ev.ev = "ret" /\ AllIdle) => PrintT("TRACE " \o ToJson(hist))
=============================================================================
