SPECIFICATION Spec
CONSTANTS
  Alphabet <- Alphabet17
  MaxEnum = 4
  AlphabetLong <- Alphabet17
  LongLen = 5
  Inputs <- InputsThorough
  Values <- ValuesAll
INVARIANTS TLVIsDER DERIsTLV IntCanon EnumCanon FitsByValue OidCanon TimeCanon EncDec TypedImpliesTLV Emit
CHECK_DEADLOCK FALSE
