SPECIFICATION Spec
CONSTANTS
  Listeners <- L_Two
  Targets <- T_Two
  TNet <- CTNet
  LAddr <- A_Two
  PreReg <- Reg_L1L2
  MaxOpens = 3
  Cap = 1
  MaxHist = 0
CHECK_DEADLOCK FALSE
INVARIANTS TypeOK R1_OnlyExact R1_Spurious BufConsistent
