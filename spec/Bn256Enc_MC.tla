---------------------------- MODULE Bn256Enc_MC ----------------------------
(* Bounded instance of Bn256Enc and the case generator for binding R (harness/c52). *)
EXTENDS Bn256Enc, Json
Emit == case.kind # "none" => PrintT("TRACE " \o ToJson(case))
=============================================================================
