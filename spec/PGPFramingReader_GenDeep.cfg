SPECIFICATION Spec
CONSTANTS
  Residue = FALSE
  Streams <- Chain34
  MaxReaders = 32
  MaxUnread = 0
  MaxOps = 70
INVARIANTS DepthBound Order Complete EmitStreams Emit
PROPERTIES PushRule Lifo EofSticky
CHECK_DEADLOCK FALSE
