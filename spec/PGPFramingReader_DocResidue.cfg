SPECIFICATION Spec
CONSTANTS
  Residue = TRUE
  Streams <- Tree
  MaxReaders = 3
  MaxUnread = 2
  MaxOps = 16
INVARIANTS Order
CHECK_DEADLOCK FALSE
