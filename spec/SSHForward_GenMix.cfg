SPECIFICATION GenSpec
CONSTANTS
  Listeners <- L_Mix
  Targets <- T_Mix
  TNet <- CTNet
  LAddr <- A_Mix
  PreReg <- Reg_L1L3
  MaxOpens = 3
  Cap = 1
  MaxHist = 5
CHECK_DEADLOCK FALSE
INVARIANT Emit
