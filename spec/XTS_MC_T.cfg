INIT Init
NEXT Next
CONSTANTS
  Groups <- GroupsT
  CheckImpl = TRUE
INVARIANTS Check ToyVec
CHECK_DEADLOCK FALSE
