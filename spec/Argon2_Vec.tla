----------------------------- MODULE Argon2_Vec -----------------------------
(***************************************************************************)
(* C15, binding E: TLC evaluates the executable RFC 9106 definitions       *)
(* (PrimArgon2) on the enumerated cases and prints the expected values;    *)
(* the Go harness (harness/c15) compares the real argon2 package with them *)
(* on the assembly and the portable build, and validates its Go            *)
(* transcription harness/c15ref against every one of them in the same run. *)
(* The three RFC 9106 section 5 vectors are cases of kind "rfc": the       *)
(* invariant Published compares TLC's value with the published tag, so a   *)
(* wrong PrimArgon2 fails the run.                                         *)
(*                                                                         *)
(* A case is a record [k, y, t, m, p, T, pl, ps, sl, ss]:                  *)
(*  k = "a":   tag of Argon2 type y (1 = i, 2 = id), t passes, m KiB       *)
(*             requested, p lanes, tag length T, password Pat(ps, pl),     *)
(*             salt Pat(ss, sl), no secret, no associated data;            *)
(*  k = "rfc": the RFC 9106 section 5 vector of type y (0 = d, 1 = i,      *)
(*             2 = id) with its secret and associated data;                *)
(*  k = "g":   G(X, Y), X, Y the blocks of the bytes Pat(ps, 1024),        *)
(*             Pat(ss, 1024), as 1024 bytes;                               *)
(*  k = "hp":  H'^T(Pat(ps, pl));                                          *)
(*  k = "ix":  the reference-block table of (p lanes, segment length m,    *)
(*             pass t, slice T): rows <<l, idx, w1, w2, w3, w4, rl, col>>  *)
(*             for every lane l, position idx and pseudo-random word w of  *)
(*             IxWords (limbs, most significant first).                    *)
(* Value is computed once, in Next, and kept in the state variable val;    *)
(* the two-level Next (root -> group -> case) spreads the evaluation over  *)
(* TLC's workers (GroupOf).                                                *)
(***************************************************************************)
EXTENDS PrimArgon2, TLC, Json

CONSTANTS Cases,      \* a sequence of cases
          Groups,     \* number of groups
          Heavy       \* the first Heavy cases (minutes of evaluation each) get a group of their own
VARIABLES c, val
vars == <<c, val>>

Case(k, y, t, m, p, T, pl, ps, sl, ss) ==
  [k |-> k, y |-> y, t |-> t, m |-> m, p |-> p, T |-> T, pl |-> pl, ps |-> ps, sl |-> sl, ss |-> ss]

Rep(b, n) == Force([i \in 1..n |-> b])
RfcTag(y) ==
  CASE y = 0 -> <<81,43,57,27,111,17,98,151,83,113,211,9,25,115,66,148,248,104,227,190,57,132,243,193,161,58,77,185,250,190,74,203>>
    [] y = 1 -> <<200,20,217,209,220,127,55,170,19,240,215,127,36,148,189,161,200,222,107,1,109,211,136,210,153,82,164,196,103,43,108,232>>
    [] y = 2 -> <<13,100,13,245,141,120,118,108,8,192,55,163,74,139,83,201,208,30,240,69,45,117,182,94,181,37,32,233,107,1,230,89>>

\* pseudo-random words for the index tables: J2 (high half) x J1 (low half)
IxJ2 == << <<0, 0>>, <<0, 1>>, <<0, 2>>, <<65535, 65535>>, <<39612, 57072>> >>
IxJ1 == << <<0, 0>>, <<0, 1>>, <<1, 0>>, <<4660, 22136>>, <<32768, 0>>, <<46340, 62259>>, <<65535, 65535>> >>
IxWords == [i \in 1..(Len(IxJ2) * Len(IxJ1)) |->
              LET a == IxJ2[((i - 1) \div Len(IxJ1)) + 1]
                  b == IxJ1[((i - 1) % Len(IxJ1)) + 1]
              IN <<a[1], a[2], b[1], b[2]>>] \o <<>>

IxTable(p, seglen, r, sl) ==
  LET first == IF r = 0 /\ sl = 0 THEN 2 ELSE 0
      nIdx == seglen - first
      nW == Len(IxWords)
  IN Force([i \in 1..(p * nIdx * nW) |->
        LET l == (i - 1) \div (nIdx * nW)
            idx == first + (((i - 1) \div nW) % nIdx)
            w == IxWords[((i - 1) % nW) + 1]
            rb == RefBlock(p, seglen, r, sl, l, idx, w)
        IN <<l, idx, w[1], w[2], w[3], w[4], rb[1], rb[2]>>])

Value(x) ==
  CASE x.k = "a"   -> Argon2(x.y, Pat(x.ps, x.pl), Pat(x.ss, x.sl), x.t, x.m, x.p, x.T)
    [] x.k = "rfc" -> Argon2KX(x.y, Rep(1, 32), Rep(2, 16), Rep(3, 8), Rep(4, 12), 3, 32, 4, 32)
    [] x.k = "g"   -> BytesOfBlock(G(BlockOfBytes(Pat(x.ps, 1024)), BlockOfBytes(Pat(x.ss, 1024))))
    [] x.k = "hp"  -> HPrime(x.T, Pat(x.ps, x.pl))
    [] x.k = "ix"  -> IxTable(x.p, x.m, x.t, x.T)

GroupOf(i) == IF i <= Heavy THEN i - 1 ELSE Heavy + (i % (Groups - Heavy))
Root == Case("root", 0, 0, 0, 0, 0, 0, 0, 0, 0)
Init == c = Root /\ val = <<>>
Next == \/ /\ c = Root
           /\ \E g \in 0..(Groups - 1) : c' = Case("group", g, 0, 0, 0, 0, 0, 0, 0, 0)
           /\ val' = <<>>
        \/ /\ c.k = "group"
           /\ \E i \in 1..Len(Cases) : /\ GroupOf(i) = c.y
                                       /\ c' = Cases[i]
                                       /\ val' = Value(Cases[i])
Spec == Init /\ [][Next]_vars

IsCase == c.k \notin {"root", "group"}
Emit == IsCase => PrintT("TRACE " \o ToJson([k |-> c.k, y |-> c.y, t |-> c.t, m |-> c.m, p |-> c.p, T |-> c.T,
                                             pl |-> c.pl, ps |-> c.ps, sl |-> c.sl, ss |-> c.ss, bytes |-> val]))
\* the published vectors
Published == c.k = "rfc" => val = RfcTag(c.y)
\* shape
Shape == /\ c.k \in {"a", "rfc", "hp"} => Len(val) = c.T /\ \A i \in 1..Len(val) : val[i] \in 0..255
         /\ c.k = "g" => Len(val) = 1024

(***************************************************************************)
(* Case tables                                                             *)
(***************************************************************************)
PS == 23    \* password pattern seed
SS == 7     \* salt pattern seed
A(y, t, m, p, T, pl, sl) == Case("a", y, t, m, p, T, pl, PS, sl, SS)
Rfc(y) == Case("rfc", y, 3, 32, 4, 32, 32, 0, 16, 0)
Gc(s1, s2) == Case("g", 0, 0, 0, 0, 0, 1024, s1, 1024, s2)
Hp(T, n, s) == Case("hp", 0, 0, 0, 0, T, n, s, 0, 0)
Ix(p, seglen, r, sl) == Case("ix", 0, r, seglen, p, sl, 0, 0, 0, 0)

Types == {TypeI, TypeID}
IxAll == { Ix(p, seglen, r, sl) : p \in 1..3, seglen \in 2..5, r \in 0..1, sl \in 0..3 }
          \ { Ix(p, 2, 0, 0) : p \in 1..3 }                      \* nothing to compute in that segment
GQ == { Gc(5, 9), Gc(0, 1), Gc(1, 1), Gc(311, 0) }
HpQ == { Hp(T, 1024, 41) : T \in {1, 4, 32, 64, 65, 96, 97, 100, 128, 129, 300} } \cup { Hp(1024, 72, 43), Hp(64, 0, 0), Hp(65, 1, 1) }

QuickBoth(y) == { A(y, 1, 8, 1, 32, 8, 8),          \* the smallest instance
                  A(y, 1, 5, 1, 16, 8, 8),          \* m < 8p: 8 blocks, H_0 hashes 5
                  A(y, 2, 13, 1, 65, 8, 16),        \* 12 blocks (segments of 3), second pass, H' in two parts
                  A(y, 1, 19, 2, 100, 8, 8),        \* two lanes, rounds down to a multiple of 4p = 8; H' in three parts
                  A(y, 1, 24, 3, 33, 8, 8) }        \* three lanes
QuickOne(y) == { A(y, 1, 11, 1, 64, 0, 8),          \* rounds down to 8; empty password
                 A(y, 1, 16, 2, 4, 8, 8),           \* two lanes, exact
                 A(y, 1, 10, 2, 32, 8, 8),          \* m < 8p with two lanes
                 A(y, 3, 8, 1, 32, 200, 130),       \* three passes; password and salt longer than a BLAKE2b block
                 A(y, 1, 35, 4, 32, 8, 0) }         \* four lanes, rounds down to 32; empty salt
QuickA == QuickBoth(TypeI) \cup QuickBoth(TypeID) \cup QuickOne(TypeID)
QuickRest == QuickOne(TypeI)
C15QuickSet == QuickA \cup GQ \cup HpQ \cup IxAll
C15Quick == <<Rfc(TypeID), Rfc(TypeI)>> \o SetToSeq(C15QuickSet)

TLens == <<4, 16, 32, 64, 65, 100>>
MemOf(p, mi) == << 8 * p - 1, 8 * p, 12 * p - 1, 12 * p + 1, 18 * p >>[mi]    \* -> 8p, 8p, 8p, 12p, 16p blocks
ThoroughA ==
       { A(y, t, MemOf(p, mi), p, TLens[((y + t + p + mi) % 6) + 1], 8, 8) : y \in Types, t \in 1..3, p \in 1..4, mi \in 1..5 }
  \cup { A(y, t, MemOf(p, mi), p, TLens[((y + t + p + mi + 3) % 6) + 1], 8, 8) : y \in Types, t \in 1..2, p \in 1..4, mi \in 1..5 }
  \cup { A(y, 1, 8 * p + 3, p, 32, 8, 8) : y \in Types, p \in {5, 6, 8} }
  \cup { A(y, 1, 8, 1, T, 8, 8) : y \in Types, T \in {1, 2, 4, 16, 31, 32, 33, 63, 64, 65, 96, 97, 100, 128, 129, 300} }
  \cup { A(y, 1, 8, 1, 32, pl, sl) : y \in Types, pl \in {0, 1, 127, 128, 200}, sl \in {0, 8, 16, 130} }
  \cup { A(y, 1, 1, p, 32, 8, 8) : y \in Types, p \in {2, 4} }                 \* m = 1
  \cup { A(y, 1, 56, 7, 32, 8, 8) : y \in Types }                              \* seven lanes
  \cup { A(y, 2, 21, 1, 32, 8, 8) : y \in Types }                              \* segments of 5
GT == GQ \cup { Gc(s, s + 100) : s \in 2..9 }
HpT == HpQ \cup { Hp(T, 1024, 47) : T \in {2, 16, 31, 33, 63, 127, 160, 192, 193, 511, 512, 513, 1000} }
             \cup { Hp(T, n, 53) : T \in {32, 64, 65, 1024}, n \in {0, 1, 59, 60, 61, 72, 123, 124, 125, 200} }
C15ThoroughSet == QuickA \cup QuickRest \cup ThoroughA \cup GT \cup HpT \cup IxAll
\* the two long ones first (516 blocks: segments of 129 positions need a second address block)
C15Thorough == <<A(TypeI, 1, 516, 1, 32, 8, 8), A(TypeID, 1, 516, 1, 32, 8, 8), Rfc(TypeID), Rfc(TypeI), Rfc(TypeD)>>
               \o SetToSeq(C15ThoroughSet)
=============================================================================
