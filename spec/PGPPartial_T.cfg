SPECIFICATION Spec
CONSTANTS
  Patterns <- PatternsT
INVARIANTS RoundTrip WireWellFormed FramingRule Emit
CHECK_DEADLOCK FALSE
