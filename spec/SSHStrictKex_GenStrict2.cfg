SPECIFICATION Spec
CONSTANTS Scenarios <- ScStrict2
          ServerStrictRule = "peer"
INVARIANTS Emit
CHECK_DEADLOCK FALSE
