SPECIFICATION Spec
CONSTANTS Scenarios <- ScStrict2
INVARIANTS Emit
CHECK_DEADLOCK FALSE
