SPECIFICATION Spec
CONSTANTS
  Profiles <- ProfGenBigA
INVARIANTS ErrIff CapErrOnlyFixed FitsAll ParseBack CapRespected LenIsSum PanicOnlyMisuse Emit
CHECK_DEADLOCK FALSE
