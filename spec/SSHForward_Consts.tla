-------------------------- MODULE SSHForward_Consts --------------------------
(* Bounded instances shared by SSHForward_MC (repaired design) and SSHForward_Old_MC (current
   code).  Targets: t1, t2 tcp addresses (same host, different ports), u1 a unix socket whose path
   is the same string as t1's host:port ("overlapping" address across networks), x / xu targets
   nobody registers (tcp / unix). *)
EXTENDS Integers, Sequences
CTargets == {"t1", "t2", "u1", "x", "xu"}
CTNet == [t \in CTargets |-> IF t \in {"u1", "xu"} THEN "unix" ELSE "tcp"]
\* one listener
L_One == {"L1"}
T_One == {"t1", "x"}
A_One == [l \in L_One |-> "t1"]
\* two tcp listeners, distinct addresses
L_Two == {"L1", "L2"}
T_Two == {"t1", "t2", "x"}
A_Two == [l \in L_Two |-> IF l = "L1" THEN "t1" ELSE "t2"]
\* a tcp and a unix listener (both dispatcher goroutines contend for the list mutex)
L_Mix == {"L1", "L3"}
T_Mix == {"t1", "u1", "xu"}
A_Mix == [l \in L_Mix |-> IF l = "L1" THEN "t1" ELSE "u1"]
\* two listeners for the same address
L_Dup == {"L1", "L2"}
T_Dup == {"t1", "x"}
A_Dup == [l \in L_Dup |-> "t1"]
\* three listeners
L_Three == {"L1", "L2", "L3"}
T_Three == {"t1", "t2", "u1", "x"}
A_Three == [l \in L_Three |-> CASE l = "L1" -> "t1" [] l = "L2" -> "t2" [] l = "L3" -> "u1"]
Reg_None == <<>>
Reg_L1 == <<"L1">>
Reg_L1L2 == <<"L1", "L2">>
Reg_L1L3 == <<"L1", "L3">>
Reg_All == <<"L1", "L2", "L3">>
=============================================================================
