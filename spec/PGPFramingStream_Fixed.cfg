SPECIFICATION Spec
CONSTANTS
  MinFirst = 8
  MaxPow = 3
  Sizes <- SizesQ
  MaxWrites = 3
  ReadSizes <- ReadsQ
  EofStyles = {"separate", "with-data"}
  CutAll = TRUE
  FixEof = TRUE
  FixShort = TRUE
  Tag = 11
  Crafted <- CraftedSet
INVARIANTS WriteReturns BufferBound Conservation ChunkShape FirstDuringWrites FirstChunkKept OnePacket FirstChunkRFC RoundTrip NoSilentTruncation PrefixOnly AgreesWithFunction
PROPERTIES Progress
CHECK_DEADLOCK FALSE
