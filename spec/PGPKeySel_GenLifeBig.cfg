SPECIFICATION SpecLife
CONSTANTS
  FixPrec = FALSE
  FixBase = FALSE
  FixZero = FALSE
  FixRevReason = FALSE
  FixSerRev = FALSE
  Slice = "Life1"
  BaseMenu <- BaseMenuMC
  SubMenu <- SubMenuMC
  Nows <- AllNows
  MaxT = 3
  MaxSubs = 1
  MaxSubSigs = 3
  MaxIdSigs = 2
  LifeAlgos = {"rsa"}
  LifeFlags <- LifeFlagsMC
  LifeLives <- LifeLivesMC
INVARIANTS EmitLife
CHECK_DEADLOCK FALSE
