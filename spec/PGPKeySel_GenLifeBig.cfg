SPECIFICATION SpecLife
CONSTANTS
  FixPrec = FALSE
  FixBase = FALSE
  FixZero = FALSE
  FixRevReason = FALSE
  FixSerRev = FALSE
  Slice = "Life"
  BaseMenu <- BaseMenuMC
  SubMenu <- SubMenuMC
  Nows <- AllNows
  MaxT = 3
  MaxSubs = 1
  MaxSubSigs = 3
  MaxIdSigs = 2
  LifeAlgos = {"rsa", "ecdsa"}
  LifeFlags <- LifeFlagsMC
  LifeLives <- LifeLivesBig
INVARIANTS EmitLife
CHECK_DEADLOCK FALSE
