------------------------------ MODULE Alias_MC ------------------------------
(***************************************************************************)
(* C53 - bounded instances of Alias.tla.                                   *)
(*                                                                         *)
(* Small (exhaustive) instance - AliasExec_Q/T.cfg (run through            *)
(* AliasExec.tla, which adds the symbolic-execution check to the same      *)
(* states) and Alias_SmallStrict.cfg: TagLen = 2, EpkLen = 3, SigLen = 2;  *)
(* every call of every class with payload length 0..MaxN, the input at     *)
(* address Base, the destination's tail starting anywhere in               *)
(* Base-Span..Base+Span, prefix lengths 0..MaxP, every capacity from "one  *)
(* short" to "two spare", additional data nowhere or at any address/length *)
(* near the buffers.  Invariants: AliasDocOK for every pair of small       *)
(* buffers (PairsOK), InPlaceWorks and MisuseCaughtExcept for every call   *)
(* (CallsOK); with Strict = TRUE (Alias_SmallStrict.cfg) MisuseCaught      *)
(* itself is checked and must fail while one of the deviations named in    *)
(* Alias.tla is open (constant Fixed).                                     *)
(*                                                                         *)
(* Real-size instance - Alias_Gen*.cfg: TagLen = 16, EpkLen = 32,          *)
(* SigLen = 64, the offsets and lengths of the property's quantifier       *)
(* (tail start = input start + d for d in -64..64; payload lengths 0, 1,   *)
(* 16, 63, 64, 65, 200; xts: 0, 16, 64, 208; prefix 0 or 5; capacity       *)
(* exact / 9 spare / one short; additional data separate, across the start *)
(* of the output, across its end, inside the input, on the prefix).  One   *)
(* state per group (class, n, p, capacity, ad placement); the invariants   *)
(* are checked for all 129 offsets of the group and the group is printed   *)
(* as                                                                      *)
(*   TRACE {cls, n, p, capv, adv, dmin, pred: "PPS..U..", allowed: "FFA..", *)
(*          devat: "--DD..", dev}                                           *)
(* pred[d] in P(anic) S(ame) U(nspecified), allowed[d] in A(llowed)        *)
(* F(orbidden), devat[d] = D where the class's named deviation `dev` shows  *)
(* (repaired or not), for the conformance harness to replay on the real    *)
(* code.                                                                   *)
(***************************************************************************)
EXTENDS Alias, TLC, Json

CONSTANTS Mode,        \* "small" or "gen"
          Base, Span, MaxN, MaxP,            \* small instance
          GenClasses, GenLens, GenXtsLens, GenPrefixes, GenCaps, GenAds, DMin, DMax,
          Strict       \* TRUE: check MisuseCaught without the exception (expected to fail)
VARIABLE c
AllClasses == Classes
Minus64 == -64          \* (a cfg file cannot hold a negative number)

\* ------------------------------------------------------------------ small instance
SmallBufs == {Buf(a, n) : a \in (Base - 3)..(Base + 3), n \in 0..3}
SmallAds == {Buf(Far, 2)} \cup {Buf(a, m) : a \in (Base - Span - 2)..(Base + Span + 4), m \in 1..2}
NoAd == {Buf(Far, 0)}
\* the calls of class cls with payload length n whose output (tail) starts at address t
SmallCalls(cls, n, t) ==
  LET need == Need(cls, n)
      in   == Buf(Base, InLen(cls, n))
  IN IF cls \in Stream
     THEN {[cls |-> cls, in |-> in, d |-> Dst(t, 0, n + e), ad |-> Buf(Far, 0)] : e \in 0..1}
     ELSE UNION {{[cls |-> cls, in |-> in, d |-> Dst(t - p, p, cc), ad |-> ad] :
                    cc \in {x \in (p + need - 1)..(p + need + 2) : x >= p},
                    ad \in IF cls \in AeadSeal \cup AeadOpen THEN SmallAds ELSE NoAd} :
                 p \in 0..MaxP}

\* ------------------------------------------------------------------ real-size groups
GBase == 10000
CapOf(capv, p, need) == CASE capv = "exact" -> p + need [] capv = "spare" -> p + need + 9 [] capv = "short" -> p + need - 1
AdOf(adv, cls, n, tstart, p) ==
  LET need == Need(cls, n) IN
  CASE adv = "sep"      -> Buf(Far, 13)
    [] adv = "outstart" -> Buf(tstart - 3, 8)                       \* across the first byte the call writes
    [] adv = "outend"   -> Buf(tstart + need - 4, 8)                \* across the last byte the call writes
    [] adv = "in"       -> Buf(GBase + 2, 6)                        \* inside the input (if it is long enough), wherever the output is
    [] adv = "prefix"   -> Buf(tstart - p, p)                       \* exactly the bytes of dst that are kept
GroupCall(g, dd) ==
  LET need == Need(g.cls, g.n)
      t    == GBase + dd
  IN IF g.cls \in Stream
     THEN [cls |-> g.cls, in |-> Buf(GBase, g.n), d |-> Dst(t, 0, g.n + (IF g.capv = "spare" THEN 9 ELSE 0)), ad |-> Buf(Far, 0)]
     ELSE [cls |-> g.cls, in |-> Buf(GBase, InLen(g.cls, g.n)), d |-> Dst(t - g.p, g.p, CapOf(g.capv, g.p, need)),
           ad |-> AdOf(g.adv, g.cls, g.n, t, g.p)]
Groups ==
  {[cls |-> cls, n |-> n, p |-> 0, capv |-> cv, adv |-> "sep"] :
       cls \in GenClasses \cap Stream, n \in GenLens, cv \in GenCaps \cap {"exact", "spare"}}
  \cup UNION {{[cls |-> cls, n |-> n, p |-> p, capv |-> cv, adv |-> av] :
                  n \in GenLens, p \in GenPrefixes, cv \in GenCaps,
                  av \in IF cls \in AeadSeal \cup AeadOpen THEN GenAds ELSE {"sep"}} : cls \in GenClasses \ Stream}
\* a capacity one short of nothing does not exist; an empty prefix cannot hold additional data; xts has its own lengths (whole blocks)
ValidGroup(g) == /\ ~(g.capv = "short" /\ Need(g.cls, g.n) = 0)
                 /\ ~(g.adv = "prefix" /\ g.p = 0)
XtsGroups == {[cls |-> cls, n |-> n, p |-> 0, capv |-> cv, adv |-> "sep"] :
                cls \in GenClasses \cap {"xts.Encrypt", "xts.Decrypt"}, n \in GenXtsLens, cv \in GenCaps \cap {"exact", "spare"}}
AllGroups == {g \in Groups : g.cls \notin {"xts.Encrypt", "xts.Decrypt"} /\ ValidGroup(g)} \cup XtsGroups
Bucket(g) == (g.n + g.p + (IF g.capv = "exact" THEN 0 ELSE IF g.capv = "spare" THEN 1 ELSE 2)) % 16

\* ------------------------------------------------------------------ behaviour: a tree root -> bucket -> leaf
Init == c = [t |-> "root"]
Next ==
  \/ /\ c.t = "root" /\ Mode = "small"
     /\ c' \in {[t |-> "bkt", cls |-> cls, n |-> n, at |-> at] : cls \in Classes, n \in 0..MaxN, at \in (Base - Span)..(Base + Span)}
  \/ /\ c.t = "bkt" /\ Mode = "small"
     /\ c' \in {[t |-> "call", x |-> x] : x \in SmallCalls(c.cls, c.n, c.at)}
  \/ /\ c.t = "root" /\ Mode = "small"
     /\ c' \in {[t |-> "pair", x |-> x, y |-> y] : x \in SmallBufs, y \in SmallBufs}
  \/ /\ c.t = "root" /\ Mode = "gen"
     /\ c' \in {[t |-> "gbkt", j |-> j] : j \in 0..15}
  \/ /\ c.t = "gbkt"
     /\ c' \in {[t |-> "group", g |-> g] : g \in {x \in AllGroups : Bucket(x) = c.j}}

CallOK(x) == /\ InPlaceWorks(x)
             /\ IF Strict THEN MisuseCaught(x) ELSE MisuseCaughtExcept(x)
             \* a deviation is only ever claimed where the property really fails, and every failure has a name
             /\ (DeviationApplies(x) /\ ~MisuseCaught(x)) => (Deviation(x) # "none")

PairsOK == (c.t = "pair") => AliasDocOK(c.x, c.y)
CallsOK == (c.t = "call") => CallOK(c.x)

RECURSIVE Cat(_)
Cat(s) == IF Len(s) = 0 THEN "" ELSE Head(s) \o Cat(Tail(s))

\* the buffers of a call relative to the input's address (printed for two offsets of every group so that the harness can
\* check that it lays its arena out exactly as the model does)
Layout(x) == <<x.in.n, x.d.a - x.in.a, x.d.p, x.d.c, IF x.ad.a >= Far THEN 0 - 1000 ELSE x.ad.a - x.in.a, x.ad.n>>

\* the same judgement as CallOK, from one evaluation of Allowed / Panics / Hazard / DeviationApplies per call
Judge(x) == [a |-> Allowed(x), p |-> Panics(x), h |-> Hazard(Prog(x)), dv |-> DeviationApplies(x), dr |-> DeviationRegion(x)]
JudgeOK(r) == /\ r.a => (~r.p /\ ~r.h)                                   \* InPlaceWorks
              /\ ~r.a => (r.p \/ ~r.h \/ (~Strict /\ r.dv))              \* MisuseCaught / MisuseCaughtExcept
OutcomeOf(r) == IF r.p THEN "P" ELSE IF r.h THEN "U" ELSE "S"

GroupOK ==
  (c.t = "group") =>
    LET g  == c.g
        nd == DMax - DMin + 1
        rs == [i \in 1..nd |-> Judge(GroupCall(g, DMin + i - 1))] \o <<>>      \* (\o <<>> makes TLC evaluate it once)
    IN /\ \A i \in 1..nd : JudgeOK(rs[i])
       /\ (g.n = 1 /\ g.p = 0) => \A i \in 1..nd : CallOK(GroupCall(g, DMin + i - 1))     \* the two formulations agree
       /\ PrintT("TRACE " \o ToJson([cls |-> g.cls, n |-> g.n, p |-> g.p, capv |-> g.capv, adv |-> g.adv, dmin |-> DMin,
                                     pred |-> Cat([i \in 1..nd |-> OutcomeOf(rs[i])]),
                                     allowed |-> Cat([i \in 1..nd |-> IF rs[i].a THEN "A" ELSE "F"]),
                                     devat |-> Cat([i \in 1..nd |-> IF rs[i].dr THEN "D" ELSE "-"]),
                                     dev |-> Deviation(GroupCall(g, 0)),
                                     lay0 |-> Layout(GroupCall(g, 0)), layMin |-> Layout(GroupCall(g, DMin))]))
=============================================================================
