SPECIFICATION Spec
CONSTANTS
  Menu <- MenuCipherMacCS
  AEAD <- MCAEAD
INVARIANTS Emit
CHECK_DEADLOCK FALSE
