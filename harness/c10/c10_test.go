// Binding E+R for C10 (NaCl secretbox / box / sign / auth interoperate with libsodium).
//
// TestDefinition (VERIF_CASES = secretbox/box outputs evaluated by TLC from spec/SecretBox.tla over
// PrimSalsa + PrimPoly): the real secretbox.Seal/Open and box.SealAfterPrecomputation/
// OpenAfterPrecomputation are compared byte-for-byte with them; box.Precompute/Seal/Open are compared
// with HSalsa20(X25519(sk, pk), 0^16) (X25519 = crypto/ecdh, trusted) incl. every low-order peer key,
// whose box key must be the TLC-evaluated LowOrderBoxKey; Precompute symmetry; then the amplifier:
// the Go transcription c09ref.SecretBoxSeal, first checked equal to every TLC vector, judges every
// message length 0..2000.
//
// With VERIF_C10_FILE set, TestDefinition finally writes what the Go code produces for libsodium to compare/open;
// TestInteropConsume opens/verifies what libsodium produced (VERIF_CASES).  The check driver
// (checks/C10.py) sits in between.
package c10

import (
	"bytes"
	"crypto/ecdh"
	"crypto/ed25519"
	"crypto/hmac"
	"crypto/sha512"
	"encoding/hex"
	"encoding/json"
	"fmt"
	"math/big"
	"os"
	"testing"

	"golang.org/x/crypto/nacl/auth"
	"golang.org/x/crypto/nacl/box"
	"golang.org/x/crypto/nacl/secretbox"
	"golang.org/x/crypto/nacl/sign"
	"verif/harness/c03ref"
	"verif/harness/c09ref"
	"verif/harness/vutil"
)

func hx(b []byte) string {
	if len(b) > 48 {
		return hex.EncodeToString(b[:24]) + ".." + hex.EncodeToString(b[len(b)-24:])
	}
	return hex.EncodeToString(b)
}

func toBytes(v []int) []byte {
	b := make([]byte, len(v))
	for i, x := range v {
		b[i] = byte(x)
	}
	return b
}

func firstDiff(a, b []byte) int {
	for i := 0; i < len(a) && i < len(b); i++ {
		if a[i] != b[i] {
			return i
		}
	}
	if len(a) != len(b) {
		return min(len(a), len(b))
	}
	return -1
}

func a32(b []byte) *[32]byte { var a [32]byte; copy(a[:], b); return &a }
func a24(b []byte) *[24]byte { var a [24]byte; copy(a[:], b); return &a }

type env struct {
	t   *testing.T
	out *vutil.Out
	bad int
}

func (e *env) fail(sig, what string, d map[string]any) {
	e.bad++
	e.out.Violation(sig, what, d)
	if e.bad <= 10 {
		e.t.Errorf("%s: %s %v", sig, what, d)
	} else {
		e.t.Fail()
	}
}

// x25519 is the trusted interpretation of the specification's X25519 parameter: crypto/ecdh.
// For a low-order point the shared secret is 0^32 (ecdh reports it as an error).
func x25519(sk, pk []byte) []byte {
	c := ecdh.X25519()
	priv, err := c.NewPrivateKey(sk)
	if err != nil {
		panic(err)
	}
	pub, err := c.NewPublicKey(pk)
	if err != nil {
		panic(err)
	}
	s, err := priv.ECDH(pub)
	if err != nil {
		return make([]byte, 32)
	}
	return s
}

func pubOf(sk []byte) []byte {
	priv, err := ecdh.X25519().NewPrivateKey(sk)
	if err != nil {
		panic(err)
	}
	return priv.PublicKey().Bytes()
}

// lowOrderPoints: the little-endian encodings of the points of order 1, 2, 4, 8 on Curve25519 and its twist, and their
// non-canonical aliases (u + p < 2^255): 0, 1, two points of order 8, p-1, p, p+1.
func lowOrderPoints() [][]byte {
	p := new(big.Int).Sub(new(big.Int).Lsh(big.NewInt(1), 255), big.NewInt(19))
	dec := []string{"0", "1",
		"325606250916557431795983626356110631294008115727848805560023387167927233504",
		"39382357235489614581723060781553021112529911719440698176882885853963445705823"}
	var out [][]byte
	le := func(x *big.Int) []byte {
		b := x.Bytes()
		o := make([]byte, 32)
		for i := range b {
			o[i] = b[len(b)-1-i]
		}
		return o
	}
	for _, d := range dec {
		x, _ := new(big.Int).SetString(d, 10)
		out = append(out, le(x))
	}
	for _, d := range []int64{-1, 0, 1} {
		out = append(out, le(new(big.Int).Add(p, big.NewInt(d))))
	}
	return out
}

type dstVar struct {
	name   string
	prefix int
	spare  func(need int) int // capacity beyond the prefix; <0: nil dst
}

var dstVars = []dstVar{
	{"nil", 0, func(int) int { return -1 }},
	{"prefix5-nospare", 5, func(int) int { return 0 }},
	{"prefix5-exact", 5, func(n int) int { return n }},
	{"prefix0-plus7", 0, func(n int) int { return n + 7 }},
	{"prefix3-short", 3, func(n int) int { return n / 2 }},
	{"prefix0-plus40", 0, func(n int) int { return n + 40 }},
}

func mkDst(v dstVar, need int) []byte {
	sp := v.spare(need)
	if sp < 0 {
		return nil
	}
	buf := make([]byte, v.prefix, v.prefix+sp)
	for i := range buf {
		buf[i] = byte(0xC0 + i)
	}
	full := buf[:cap(buf)]
	for i := v.prefix; i < len(full); i++ {
		full[i] = byte(0x5A + 31*i) // dirty spare capacity: looks like a previous result, not like zeros
	}
	return buf
}

// sbCheck: secretbox.Seal/Open and box.*AfterPrecomputation against the expected tag||ct.
func (e *env) sbCheck(label string, key, nonce, msg, want []byte, allDst bool) (ok bool) {
	defer func() {
		if p := recover(); p != nil { // the real code panicked on a legal input: that is its behaviour, not an infrastructure problem
			e.fail("c10-panic", "secretbox/box Seal or Open panicked on a legal input",
				map[string]any{"case": label, "key": hx(key), "nonce": hx(nonce), "len": len(msg), "panic": fmt.Sprint(p)})
			ok = false
		}
	}()
	return e.sbCheck1(label, key, nonce, msg, want, allDst)
}

func (e *env) sbCheck1(label string, key, nonce, msg, want []byte, allDst bool) bool {
	vars := dstVars[:2]
	if allDst {
		vars = dstVars
	}
	k, n := a32(key), a24(nonce)
	ok := true
	for _, v := range vars {
		for _, api := range []string{"secretbox", "box-afternm"} {
			dst := mkDst(v, len(msg)+16)
			prefix := append([]byte(nil), dst...)
			var got []byte
			if api == "secretbox" {
				got = secretbox.Seal(dst, msg, n, k)
			} else {
				got = box.SealAfterPrecomputation(dst, msg, n, k)
			}
			exp := append(append([]byte(nil), prefix...), want...)
			if !bytes.Equal(got, exp) {
				e.fail("c10-seal-mismatch", api+" Seal output differs from out || Poly1305 tag || XSalsa20 ciphertext of the definition",
					map[string]any{"case": label, "api": api, "dst": v.name, "key": hx(key), "nonce": hx(nonce), "len": len(msg),
						"firstDiff": firstDiff(got, exp) - len(prefix), "got": hx(got), "want": hx(exp)})
				ok = false
				continue
			}
			dst2 := mkDst(v, len(msg))
			prefix2 := append([]byte(nil), dst2...)
			var back []byte
			var good bool
			if api == "secretbox" {
				back, good = secretbox.Open(dst2, want, n, k)
			} else {
				back, good = box.OpenAfterPrecomputation(dst2, want, n, k)
			}
			exp2 := append(append([]byte(nil), prefix2...), msg...)
			if !good || !bytes.Equal(back, exp2) {
				e.fail("c10-open-mismatch", api+" Open of the definition's box does not return out || message",
					map[string]any{"case": label, "api": api, "dst": v.name, "key": hx(key), "nonce": hx(nonce), "len": len(msg), "ok": good, "got": hx(back)})
				ok = false
			}
		}
	}
	return ok
}

type tlcVec struct {
	T     string `json:"t"`
	Kseed int    `json:"kseed"`
	Sseed int    `json:"sseed"`
	Nseed int    `json:"nseed"`
	Mseed int    `json:"mseed"`
	Len   int    `json:"len"`
	Key   []int  `json:"key"`
	Out   []int  `json:"out"`
	// box vectors: contents Pat(seed, 32) of the caller's sharedKey array on entry to Precompute for which the model
	// states PrecomputeBufferIndependent (0 = fresh zero array)
	Bufseeds []int `json:"bufseeds"`
}

func TestDefinition(t *testing.T) {
	out := vutil.NewOut()
	defer func() {
		if err := out.Write(); err != nil {
			t.Fatal(err)
		}
	}()
	e := &env{t: t, out: out}
	rng := vutil.Rand(1010)
	nsb, nbox := 0, 0
	var lowKey []byte
	bufSeeds := map[int]bool{}
	type lowCase struct{ nonce, msg, want []byte }
	var lowCases []lowCase
	err := vutil.ReadNDJSON(vutil.Env("VERIF_CASES", ""), func(line []byte) error {
		var v tlcVec
		if err := json.Unmarshal(line, &v); err != nil {
			return err
		}
		nonce, msg, want := c03ref.Pat(v.Nseed, 24), c03ref.Pat(v.Mseed, v.Len), toBytes(v.Out)
		if len(want) != v.Len+16 {
			return fmt.Errorf("bad TLC vector length")
		}
		var key []byte
		switch v.T {
		case "sb":
			key = c03ref.Pat(v.Kseed, 32)
			nsb++
		case "box":
			shared := c03ref.Pat(v.Sseed, 32)
			key = toBytes(v.Key)
			if !bytes.Equal(c09ref.HSalsa20(shared, make([]byte, 16)), key) {
				return fmt.Errorf("refimpl HSalsa20 differs from the TLC-evaluated box key (sseed=%d)", v.Sseed)
			}
			for _, b := range v.Bufseeds {
				bufSeeds[b] = true
			}
			if v.Sseed == 0 {
				lowKey = key
				lowCases = append(lowCases, lowCase{nonce, msg, want})
			}
			nbox++
		default:
			return fmt.Errorf("unknown vector type %q", v.T)
		}
		if !bytes.Equal(c09ref.SecretBoxSeal(key, nonce, msg), want) {
			return fmt.Errorf("refimpl SecretBoxSeal differs from the TLC-evaluated definition (%s len=%d)", v.T, v.Len)
		}
		if pt, ok := c09ref.SecretBoxOpen(key, nonce, want); !ok || !bytes.Equal(pt, msg) {
			return fmt.Errorf("refimpl SecretBoxOpen does not invert the TLC-evaluated box")
		}
		label := fmt.Sprintf("tlc %s seeds %d/%d/%d len=%d", v.T, v.Kseed+v.Sseed, v.Nseed, v.Mseed, v.Len)
		out.Case(label)
		e.sbCheck(label, key, nonce, msg, want, true)
		if (nsb+nbox)%9 == 1 {
			out.Sample(map[string]any{"t": v.T, "len": v.Len, "tag": hx(want[:16])})
		}
		return nil
	})
	if err != nil {
		t.Fatal(err)
	}
	if nsb == 0 || nbox == 0 || lowKey == nil {
		t.Fatal("no TLC-evaluated vectors (sb, box, low-order box)")
	}
	out.Extra["tlc_vectors_secretbox"] = nsb
	out.Extra["tlc_vectors_box"] = nbox

	// ---- low-order peer keys (decision cases): X25519 yields 0^32, so Precompute must return the TLC-evaluated
	// LowOrderBoxKey and Seal must equal the TLC-evaluated boxes under it; Open must invert.
	if !bufSeeds[0] || len(bufSeeds) < 3 {
		t.Fatal("the model did not name the entry contents of Precompute's output array (bufseeds)")
	}
	// precomputeAll calls box.Precompute(pk, sk) into every kind of caller-owned array the model names - Pat(seed, 32)
	// (seed 0 = fresh zero array), the result of a previous Precompute with another peer, and the same array twice in a
	// row - and reports the entry contents for which the result is not `want`.
	otherSk, otherPk := make([]byte, 32), []byte(nil)
	rng.Read(otherSk)
	otherPk = pubOf(otherSk)
	precomputeAll := func(pk, sk, want []byte) (bad []string) {
		try := func(name string, k *[32]byte) {
			box.Precompute(k, a32(pk), a32(sk))
			if !bytes.Equal(k[:], want) {
				bad = append(bad, fmt.Sprintf("%s -> %s", name, hx(k[:])))
			}
		}
		for b := range bufSeeds {
			try(fmt.Sprintf("entry contents Pat(%d,32)", b), a32(c03ref.Pat(b, 32)))
		}
		var reused [32]byte
		box.Precompute(&reused, a32(otherPk), a32(sk)) // the array now holds another peer's key
		try("array reused after a Precompute with another peer", &reused)
		try("same array, second call in a row", &reused)
		return
	}
	for i, lp := range lowOrderPoints() {
		sk := make([]byte, 32)
		rng.Read(sk)
		var k [32]byte
		box.Precompute(&k, a32(lp), a32(sk))
		out.Case(fmt.Sprintf("low-order|%d", i))
		if bad := precomputeAll(lp, sk, lowKey); len(bad) > 0 {
			e.fail("c10-precompute-depends-on-output-buffer", "box.Precompute with a low-order peer key: the result depends on what the caller's sharedKey array held before (it must be HSalsa20(0^32, 0^16), a function of the keys only)",
				map[string]any{"peer": hx(lp), "sk": hx(sk), "want": hx(lowKey), "wrongFor": bad, "freshZeroArray": hx(k[:])})
		}
		if !bytes.Equal(k[:], lowKey) {
			e.fail("c10-precompute-low-order", "box.Precompute with a low-order peer key is not HSalsa20(0^32, 0^16) (X25519 of a low-order point is 0^32)",
				map[string]any{"peer": hx(lp), "sk": hx(sk), "got": hx(k[:]), "want": hx(lowKey)})
			continue
		}
		for _, lc := range lowCases {
			got := box.Seal(nil, lc.msg, a24(lc.nonce), a32(lp), a32(sk))
			back, ok := box.Open(nil, lc.want, a24(lc.nonce), a32(lp), a32(sk))
			// through a reused key array, as a caller looping over peers would do it
			var reused [32]byte
			box.Precompute(&reused, a32(otherPk), a32(sk))
			box.Precompute(&reused, a32(lp), a32(sk))
			got2 := box.SealAfterPrecomputation(nil, lc.msg, a24(lc.nonce), &reused)
			back2, ok2 := box.OpenAfterPrecomputation(nil, lc.want, a24(lc.nonce), &reused)
			if !bytes.Equal(got, lc.want) || !ok || !bytes.Equal(back, lc.msg) || !bytes.Equal(got2, lc.want) || !ok2 || !bytes.Equal(back2, lc.msg) {
				e.fail("c10-box-low-order", "box.Seal/Open and SealAfterPrecomputation/OpenAfterPrecomputation (key array reused) with a low-order peer key differ from the definition under LowOrderBoxKey",
					map[string]any{"peer": hx(lp), "len": len(lc.msg), "sealOK": bytes.Equal(got, lc.want), "openOK": ok,
						"sealAfterPrecomputationOK": bytes.Equal(got2, lc.want), "openAfterPrecomputationOK": ok2})
			}
		}
	}

	// ---- Precompute = HSalsa20(X25519(sk, pk), 0^16), symmetric; Seal/Open = the definition under that key
	npairs := 40
	if vutil.Thorough() {
		npairs = 600
	}
	for i := 0; i < npairs; i++ {
		skA, skB := make([]byte, 32), make([]byte, 32)
		rng.Read(skA)
		rng.Read(skB)
		if i%10 == 3 {
			for j := range skA {
				skA[j] = 0xff
			}
		}
		pkA, pkB := pubOf(skA), pubOf(skB)
		var kAB, kBA [32]byte
		box.Precompute(&kAB, a32(pkB), a32(skA))
		box.Precompute(&kBA, a32(pkA), a32(skB))
		want := c09ref.HSalsa20(x25519(skA, pkB), make([]byte, 16))
		out.Case(fmt.Sprintf("precompute|%d", i))
		if !bytes.Equal(kAB[:], kBA[:]) {
			e.fail("c10-precompute-asymmetric", "box.Precompute is not symmetric between the two parties",
				map[string]any{"skA": hx(skA), "skB": hx(skB), "kAB": hx(kAB[:]), "kBA": hx(kBA[:])})
		}
		if !bytes.Equal(kAB[:], want) {
			e.fail("c10-precompute-mismatch", "box.Precompute differs from HSalsa20(X25519(sk, pk), 0^16)",
				map[string]any{"skA": hx(skA), "pkB": hx(pkB), "got": hx(kAB[:]), "want": hx(want)})
			continue
		}
		if bad := precomputeAll(pkB, skA, want); len(bad) > 0 {
			e.fail("c10-precompute-depends-on-output-buffer", "box.Precompute: the result depends on what the caller's sharedKey array held before",
				map[string]any{"skA": hx(skA), "pkB": hx(pkB), "want": hx(want), "wrongFor": bad})
		}
		nonce, msg := make([]byte, 24), make([]byte, []int{0, 1, 31, 32, 33, 64, 65, 200, 1000}[i%9]+rng.Intn(3))
		rng.Read(nonce)
		rng.Read(msg)
		exp := c09ref.SecretBoxSeal(want, nonce, msg)
		got := box.Seal(nil, msg, a24(nonce), a32(pkB), a32(skA))
		back, ok := box.Open(nil, exp, a24(nonce), a32(pkA), a32(skB))
		if !bytes.Equal(got, exp) || !ok || !bytes.Equal(back, msg) {
			e.fail("c10-box-mismatch", "box.Seal / box.Open (receiver side) differ from SecretBox under HSalsa20(X25519(sk, pk), 0^16)",
				map[string]any{"skA": hx(skA), "skB": hx(skB), "nonce": hx(nonce), "len": len(msg), "sealOK": bytes.Equal(got, exp), "openOK": ok})
		}
	}
	// ---- the other outputs the caller owns: sign.Sign / sign.Open / box.SealAnonymous / box.OpenAnonymous appending to a
	// dst whose spare capacity is dirty (every arrangement of dstVars): result = kept prefix || f(inputs), nothing else
	{
		seed := make([]byte, 32)
		rng.Read(seed)
		spk, ssk, err := sign.GenerateKey(bytes.NewReader(seed))
		if err != nil {
			t.Fatal(err)
		}
		rsk := make([]byte, 32)
		rng.Read(rsk)
		rpk := pubOf(rsk)
		for _, n := range []int{0, 1, 31, 32, 33, 64, 200} {
			m := make([]byte, n)
			rng.Read(m)
			esk := make([]byte, 32)
			rng.Read(esk)
			sig := ed25519.Sign(ed25519.PrivateKey(ssk[:]), m)
			wantSm := append(append([]byte(nil), sig...), m...)
			wantAnon, err := box.SealAnonymous(nil, m, a32(rpk), bytes.NewReader(esk))
			if err != nil {
				t.Fatal(err)
			}
			for _, v := range dstVars {
				out.Case(fmt.Sprintf("dirty-dst|%s|%d", v.name, n))
				chk := func(api string, need int, want []byte, f func(dst []byte) ([]byte, bool)) {
					dst := mkDst(v, need)
					prefix := append([]byte(nil), dst...)
					got, ok := f(dst)
					if exp := append(prefix, want...); !ok || !bytes.Equal(got, exp) {
						e.fail("c10-output-depends-on-dst-contents", api+": the result is not (kept prefix of out) || (function of the inputs) when out has a used (non-zero) spare capacity",
							map[string]any{"api": api, "dst": v.name, "len": n, "ok": ok, "firstDiff": firstDiff(got, exp), "got": hx(got), "want": hx(exp)})
					}
				}
				chk("sign.Sign", n+64, wantSm, func(d []byte) ([]byte, bool) { return sign.Sign(d, m, ssk), true })
				chk("sign.Open", n, m, func(d []byte) ([]byte, bool) { return sign.Open(d, wantSm, spk) })
				chk("box.SealAnonymous", n+48, wantAnon, func(d []byte) ([]byte, bool) {
					r, err := box.SealAnonymous(d, m, a32(rpk), bytes.NewReader(esk))
					return r, err == nil
				})
				chk("box.OpenAnonymous", n, m, func(d []byte) ([]byte, bool) { return box.OpenAnonymous(d, wantAnon, a32(rpk), a32(rsk)) })
			}
		}
	}
	if e.bad > 0 {
		return
	}

	// ---- amplifier: every message length 0..2000 (oracle: the transcription just validated against the TLC vectors)
	nkeys := 1
	if vutil.Thorough() {
		nkeys = 4
	}
	for ki := 0; ki < nkeys; ki++ {
		for n := 0; n <= 2000; n++ {
			key, nonce, msg := make([]byte, 32), make([]byte, 24), make([]byte, n)
			rng.Read(key)
			rng.Read(nonce)
			rng.Read(msg)
			out.Case(fmt.Sprintf("sweep|%d", n))
			allDst := n <= 130 || n%64 <= 1 || n%64 == 63
			if !e.sbCheck(fmt.Sprintf("sweep key#%d (seed %d)", ki, vutil.Seed()), key, nonce, msg, c09ref.SecretBoxSeal(key, nonce, msg), allDst) && e.bad >= 20 {
				return
			}
		}
	}
	if f := os.Getenv("VERIF_C10_FILE"); f != "" {
		produce(t, out, f)
	}
}

// ------------------------------------------------------------------------------------------------ interop

type rec struct {
	ID   int    `json:"id"`
	Kind string `json:"kind"`
	// hex fields
	K     string `json:"k,omitempty"`
	N     string `json:"n,omitempty"`
	M     string `json:"m"`
	C     string `json:"c,omitempty"`
	CPre  string `json:"cpre,omitempty"`
	SkA   string `json:"skA,omitempty"`
	PkA   string `json:"pkA,omitempty"`
	SkB   string `json:"skB,omitempty"`
	PkB   string `json:"pkB,omitempty"`
	Esk   string `json:"esk,omitempty"`
	Seed  string `json:"seed,omitempty"`
	Sk64  string `json:"sk64,omitempty"`
	Sm    string `json:"sm,omitempty"`
	A     string `json:"a,omitempty"`
	Nonce string `json:"nonce,omitempty"` // consume: expected sealed-box nonce BLAKE2b-192(epk || pk) (hashlib)
}

func hh(b []byte) string { return hex.EncodeToString(b) }
func uh(s string) []byte {
	b, err := hex.DecodeString(s)
	if err != nil {
		panic(err)
	}
	return b
}

func interopLengths(rng interface{ Intn(int) int }, thorough bool) []int {
	var l []int
	for n := 0; n <= 70; n++ {
		l = append(l, n)
	}
	l = append(l, 95, 96, 97, 127, 128, 129, 191, 192, 193, 255, 256, 257, 511, 512, 513, 1023, 1024, 1025, 1999, 2000)
	extra := 20
	if thorough {
		for n := 71; n <= 400; n++ {
			l = append(l, n)
		}
		extra = 300
	}
	for i := 0; i < extra; i++ {
		l = append(l, rng.Intn(2001))
	}
	return l
}

// produce: what the Go code produces, for libsodium to compare with its own output and to open
// (called at the end of TestDefinition when VERIF_C10_FILE is set).
func produce(t *testing.T, out *vutil.Out, file string) {
	rng := vutil.Rand(2020)
	var recs []rec
	id := 0
	rb := func(n int) []byte { b := make([]byte, n); rng.Read(b); return b }
	for _, n := range interopLengths(rng, vutil.Thorough()) {
		m := rb(n)
		// secretbox
		k, nn := rb(32), rb(24)
		recs = append(recs, rec{ID: id, Kind: "secretbox", K: hh(k), N: hh(nn), M: hh(m), C: hh(secretbox.Seal(nil, m, a24(nn), a32(k)))})
		id++
		// box
		skA, skB := rb(32), rb(32)
		pkA, pkB := pubOf(skA), pubOf(skB)
		var kAB [32]byte
		box.Precompute(&kAB, a32(pkB), a32(skA))
		recs = append(recs, rec{ID: id, Kind: "box", SkA: hh(skA), PkA: hh(pkA), SkB: hh(skB), PkB: hh(pkB), N: hh(nn), M: hh(m), K: hh(kAB[:]),
			C: hh(box.Seal(nil, m, a24(nn), a32(pkB), a32(skA))), CPre: hh(box.SealAfterPrecomputation(nil, m, a24(nn), &kAB))})
		id++
		// sealed box: the ephemeral private key is the 32 bytes the rand reader delivers
		esk := rb(32)
		c, err := box.SealAnonymous(nil, m, a32(pkB), bytes.NewReader(esk))
		if err != nil {
			t.Fatal(err)
		}
		recs = append(recs, rec{ID: id, Kind: "anon", SkB: hh(skB), PkB: hh(pkB), Esk: hh(esk), M: hh(m), C: hh(c)})
		id++
		// sign: key pair from a 32-byte seed (the seed is read back from the private key: a Go release may ignore the reader)
		seed := rb(32)
		spk, ssk, err := sign.GenerateKey(bytes.NewReader(seed))
		if err != nil {
			t.Fatal(err)
		}
		recs = append(recs, rec{ID: id, Kind: "sign", Seed: hh(ssk[:32]), PkA: hh(spk[:]), Sk64: hh(ssk[:]), M: hh(m), Sm: hh(sign.Sign(nil, m, ssk))})
		id++
		// auth
		ak := rb(32)
		recs = append(recs, rec{ID: id, Kind: "auth", K: hh(ak), M: hh(m), A: hh(auth.Sum(m, a32(ak))[:])})
		id++
	}
	// low-order peer keys: what Go produces; libsodium is expected to refuse them (recorded, not judged)
	for _, lp := range lowOrderPoints() {
		sk, nn, m := rb(32), rb(24), rb(40)
		var k [32]byte
		box.Precompute(&k, a32(lp), a32(sk))
		recs = append(recs, rec{ID: id, Kind: "lowbox", SkA: hh(sk), PkB: hh(lp), N: hh(nn), M: hh(m), K: hh(k[:]), C: hh(box.Seal(nil, m, a24(nn), a32(lp), a32(sk)))})
		id++
	}
	b, err := json.Marshal(recs)
	if err != nil {
		t.Fatal(err)
	}
	if err := os.WriteFile(file, b, 0o644); err != nil {
		t.Fatal(err)
	}
	out.Extra["go_produced_values"] = len(recs)
}

// TestInteropConsume: values produced by libsodium (and the sealed-box nonces computed by hashlib) are opened/verified by the Go code.
func TestInteropConsume(t *testing.T) {
	out := vutil.NewOut()
	defer func() {
		if err := out.Write(); err != nil {
			t.Fatal(err)
		}
	}()
	e := &env{t: t, out: out}
	n := 0
	err := vutil.ReadNDJSON(vutil.Env("VERIF_CASES", ""), func(line []byte) error {
		var r rec
		if err := json.Unmarshal(line, &r); err != nil {
			return err
		}
		n++
		m := uh(r.M)
		out.Case(fmt.Sprintf("%s|%d|%d", r.Kind, r.ID, len(m)))
		d := func() map[string]any { return map[string]any{"kind": r.Kind, "id": r.ID, "len": len(m), "record": r} }
		switch r.Kind {
		case "secretbox": // c = crypto_secretbox_easy(m, n, k)
			got, ok := secretbox.Open(nil, uh(r.C), a24(uh(r.N)), a32(uh(r.K)))
			if !ok || !bytes.Equal(got, m) {
				e.fail("c10-go-rejects-libsodium-secretbox", "secretbox.Open does not open a crypto_secretbox_easy output", d())
			}
		case "box": // c = crypto_box_easy(m, n, pkB, skA); opened by B
			got, ok := box.Open(nil, uh(r.C), a24(uh(r.N)), a32(uh(r.PkA)), a32(uh(r.SkB)))
			var k [32]byte
			box.Precompute(&k, a32(uh(r.PkA)), a32(uh(r.SkB)))
			got2, ok2 := box.OpenAfterPrecomputation(nil, uh(r.C), a24(uh(r.N)), &k)
			if !ok || !bytes.Equal(got, m) || !ok2 || !bytes.Equal(got2, m) {
				e.fail("c10-go-rejects-libsodium-box", "box.Open / OpenAfterPrecomputation do not open a crypto_box_easy output", d())
			}
			if r.K != "" && !bytes.Equal(k[:], uh(r.K)) {
				e.fail("c10-precompute-differs-from-libsodium", "box.Precompute differs from crypto_box_beforenm", d())
			}
		case "anon": // c = crypto_box_seal(m, pkB)
			got, ok := box.OpenAnonymous(nil, uh(r.C), a32(uh(r.PkB)), a32(uh(r.SkB)))
			if !ok || !bytes.Equal(got, m) {
				e.fail("c10-go-rejects-libsodium-sealed-box", "box.OpenAnonymous does not open a crypto_box_seal output", d())
			}
		case "anon-def": // Go-produced sealed box re-derived from the definition with nonce = BLAKE2b-192(epk || pk) computed by hashlib
			c, esk, pkB := uh(r.C), uh(r.Esk), uh(r.PkB)
			epk := pubOf(esk)
			want := append(append([]byte(nil), epk...), c09ref.SecretBoxSeal(c09ref.HSalsa20(x25519(esk, pkB), make([]byte, 16)), uh(r.Nonce), m)...)
			if !bytes.Equal(c, want) {
				e.fail("c10-sealed-box-mismatch", "box.SealAnonymous differs from epk || SecretBox(HSalsa20(X25519(esk, pk), 0^16), nonce = BLAKE2b-192(epk || pk), m)",
					map[string]any{"id": r.ID, "len": len(m), "epkOK": len(c) >= 32 && bytes.Equal(c[:32], epk), "firstDiff": firstDiff(c, want)})
			}
		case "sign": // sm = crypto_sign(m, sk)
			var pk [32]byte
			copy(pk[:], uh(r.PkA))
			got, ok := sign.Open(nil, uh(r.Sm), &pk)
			if !ok || !bytes.Equal(got, m) {
				e.fail("c10-go-rejects-libsodium-signature", "sign.Open does not accept a crypto_sign output", d())
			}
			// format under the trusted primitive: Ed25519 signature || message
			sm := uh(r.Sm)
			if len(sm) != 64+len(m) || !bytes.Equal(sm[64:], m) || !ed25519.Verify(ed25519.PublicKey(pk[:]), m, sm[:64]) {
				return fmt.Errorf("libsodium crypto_sign output is not Ed25519 sig || message (helper problem)")
			}
		case "auth": // a = crypto_auth(m, k)
			if !auth.Verify(uh(r.A), m, a32(uh(r.K))) {
				e.fail("c10-go-rejects-libsodium-auth", "auth.Verify does not accept a crypto_auth output", d())
			}
			mac := hmac.New(sha512.New, uh(r.K))
			mac.Write(m)
			if !bytes.Equal(mac.Sum(nil)[:32], uh(r.A)) {
				return fmt.Errorf("libsodium crypto_auth output is not HMAC-SHA-512[:32] (helper problem)")
			}
		default:
			return fmt.Errorf("unknown record kind %q", r.Kind)
		}
		return nil
	})
	if err != nil {
		t.Fatal(err)
	}
	if n == 0 {
		t.Fatal("no records to consume")
	}
}
