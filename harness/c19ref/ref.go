// Package c19ref is the "amplifier" of binding E for C19: a plain Go transcription of the executable
// TLA+ definitions in spec/PrimBlowfish.tla (textbook Blowfish with its scale parameters, the two
// state expansions, bcrypt_pbkdf.c's bcrypt_hash) and of the declarative key definition in
// spec/BcryptPbkdf.tla (KeySpec: counter encoding, round fold, output interleaving).  It has no
// authority of its own: the harness first checks it byte-for-byte against every vector TLC evaluated
// from the TLA+ definitions in the same run (at the scales TLC evaluates) and only then uses it to
// judge further cases.  It deliberately shares no code with golang.org/x/crypto: the pi tables are
// parsed from spec/PrimBlowfishPi.tla, the rounds are a loop, the S-boxes one flat slice.
package c19ref

import (
	"fmt"
	"os"
	"regexp"
	"strconv"
)

// Scale mirrors the record sc of PrimBlowfish: nr Feistel rounds, sb entries per S-box,
// cost expansion pairs, mag encryptions of each magic block.
type Scale struct{ NR, SB, Cost, Mag int }

// Full is PrimBlowfish!BfFull.
var Full = Scale{16, 256, 64, 64}

var piP, piS []uint32

// LoadPi parses the tables of spec/PrimBlowfishPi.tla (<<hi, lo>> limb pairs).
func LoadPi(path string) error {
	src, err := os.ReadFile(path)
	if err != nil {
		return err
	}
	re := regexp.MustCompile(`<<(\d+), (\d+)>>`)
	var ws []uint32
	for _, m := range re.FindAllSubmatch(src, -1) {
		hi, _ := strconv.Atoi(string(m[1]))
		lo, _ := strconv.Atoi(string(m[2]))
		ws = append(ws, uint32(hi)<<16|uint32(lo))
	}
	if len(ws) != 18+1024 {
		return fmt.Errorf("PrimBlowfishPi.tla: %d words, want 1042", len(ws))
	}
	piP, piS = ws[:18], ws[18:]
	return nil
}

// State is <<P, S>> of PrimBlowfish.
type State struct {
	sc Scale
	P  []uint32
	S  []uint32
}

// Init: PrimBlowfish!BfInit.
func Init(sc Scale) *State {
	if piP == nil {
		panic("c19ref: LoadPi not called")
	}
	st := &State{sc: sc, P: append([]uint32(nil), piP[:sc.NR+2]...), S: make([]uint32, 4*sc.SB)}
	for j := 0; j < 4*sc.SB; j++ {
		st.S[j] = piS[256*(j/sc.SB)+j%sc.SB]
	}
	return st
}

func (st *State) f(x uint32) uint32 {
	sb := uint32(st.sc.SB)
	a, b, c, d := (x>>24)%sb, ((x>>16)&255)%sb, ((x>>8)&255)%sb, (x&255)%sb
	return ((st.S[a] + st.S[sb+b]) ^ st.S[2*sb+c]) + st.S[3*sb+d]
}

// EncLR: PrimBlowfish!BfEncLR.
func (st *State) EncLR(l, r uint32) (uint32, uint32) {
	nr := st.sc.NR
	for i := 0; i < nr; i++ {
		l ^= st.P[i]
		r ^= st.f(l)
		l, r = r, l
	}
	l, r = r, l
	r ^= st.P[nr]
	l ^= st.P[nr+1]
	return l, r
}

// streamWord: PrimBlowfish!BfStreamWord.
func streamWord(data []byte, off int) uint32 {
	n := len(data)
	var w uint32
	for k := 0; k < 4; k++ {
		w = w<<8 | uint32(data[(off+k)%n])
	}
	return w
}

// refill: PrimBlowfish!BfRefill (salt == nil: no salt stream).
func (st *State) refill(salt []byte) {
	np := st.sc.NR + 2
	var l, r uint32
	steps := np/2 + 2*st.sc.SB
	for t := 1; t <= steps; t++ {
		if len(salt) > 0 {
			l ^= streamWord(salt, 8*(t-1))
			r ^= streamWord(salt, 8*(t-1)+4)
		}
		l, r = st.EncLR(l, r)
		if 2*t <= np {
			st.P[2*t-2], st.P[2*t-1] = l, r
		} else {
			st.S[2*t-2-np], st.S[2*t-1-np] = l, r
		}
	}
}

func (st *State) keyXor(key []byte) {
	for i := range st.P {
		st.P[i] ^= streamWord(key, 4*i)
	}
}

// Expand0: PrimBlowfish!BfExpand0; Expand: PrimBlowfish!BfExpand.
func (st *State) Expand0(key []byte)      { st.keyXor(key); st.refill(nil) }
func (st *State) Expand(key, salt []byte) { st.keyXor(key); st.refill(salt) }

// NewCipher: PrimBlowfish!BfNewCipher.
func NewCipher(sc Scale, key []byte) *State { st := Init(sc); st.Expand0(key); return st }

// EncryptBlock: PrimBlowfish!BfEncryptBlock.
func (st *State) EncryptBlock(b []byte) []byte {
	l, r := st.EncLR(streamWord(b[:4], 0), streamWord(b[4:8], 0))
	return []byte{byte(l >> 24), byte(l >> 16), byte(l >> 8), byte(l), byte(r >> 24), byte(r >> 16), byte(r >> 8), byte(r)}
}

var magic = []byte("OxychromaticBlowfishSwatDynamite")

// Stages returns the cipher state after BcStart and i expansion pairs (PrimBlowfish!BcStart, BcPair).
func Stages(sc Scale, pass, salt []byte, pairs int) *State {
	st := Init(sc)
	st.Expand(pass, salt)
	for i := 0; i < pairs; i++ {
		st.Expand0(salt)
		st.Expand0(pass)
	}
	return st
}

// Finish: PrimBlowfish!BcFinish.
func (st *State) Finish() []byte {
	out := make([]byte, 0, 32)
	for k := 0; k < 4; k++ {
		l, r := streamWord(magic[8*k:8*k+4], 0), streamWord(magic[8*k+4:8*k+8], 0)
		for i := 0; i < st.sc.Mag; i++ {
			l, r = st.EncLR(l, r)
		}
		out = append(out, byte(l), byte(l>>8), byte(l>>16), byte(l>>24), byte(r), byte(r>>8), byte(r>>16), byte(r>>24))
	}
	return out
}

// BcryptHash: PrimBlowfish!BcryptHash.
func BcryptHash(sc Scale, pass, salt []byte) []byte { return Stages(sc, pass, salt, sc.Cost).Finish() }

// Params mirrors the CONSTANTS of spec/BcryptPbkdf.tla: the hash (SHA-512 / toy), the block function
// (bcrypt_hash at some scale) and the block size.
type Params struct {
	Hash  func([]byte) []byte
	BHash func(pass, salt []byte) []byte
	BS    int
}

// Block: BcryptPbkdf!OutBlock -- the XOR fold over the rounds for counter c (1-based).
func (p Params) Block(hpass, salt []byte, rounds, c int) []byte {
	in := append(append([]byte(nil), salt...), byte(c>>24), byte(c>>16), byte(c>>8), byte(c))
	t := p.BHash(hpass, p.Hash(in))
	out := append([]byte(nil), t...)
	for r := 2; r <= rounds; r++ {
		t = p.BHash(hpass, p.Hash(t))
		for j := range out {
			out[j] ^= t[j]
		}
	}
	return out
}

// Key: BcryptPbkdf!KeySpec -- byte d of the key is byte d div stride of block (d mod stride) + 1.
func (p Params) Key(pass, salt []byte, rounds, keyLen int) []byte {
	stride := (keyLen + p.BS - 1) / p.BS
	hpass := p.Hash(pass)
	blocks := make([][]byte, stride)
	for c := 1; c <= stride; c++ {
		blocks[c-1] = p.Block(hpass, salt, rounds, c)
	}
	key := make([]byte, keyLen)
	for d := range key {
		key[d] = blocks[d%stride][d/stride]
	}
	return key
}
