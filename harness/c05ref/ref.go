// Package c05ref is the "amplifier" of binding E for C05-C07: a plain Go transcription of the
// executable TLA+ definitions in spec/PrimBlake2.tla (RFC 7693 F, parameter blocks, keyed hashing,
// the BLAKE2X root/node construction).  It has no authority of its own: every harness first checks
// it byte-for-byte against the vectors TLC evaluated from the TLA+ definitions in the same run, and
// only then uses it to judge further cases.  It deliberately shares no code with
// golang.org/x/crypto: whole message in, digest out; no buffering, textbook SIGMA schedule.
package c05ref

import (
	"encoding/binary"
	"math/bits"
)

var ivb = [8]uint64{
	0x6a09e667f3bcc908, 0xbb67ae8584caa73b, 0x3c6ef372fe94f82b, 0xa54ff53a5f1d36f1,
	0x510e527fade682d1, 0x9b05688c2b3e6c1f, 0x1f83d9abfb41bd6b, 0x5be0cd19137e2179,
}

var sigma = [10][16]int{
	{0, 1, 2, 3, 4, 5, 6, 7, 8, 9, 10, 11, 12, 13, 14, 15},
	{14, 10, 4, 8, 9, 15, 13, 6, 1, 12, 0, 2, 11, 7, 5, 3},
	{11, 8, 12, 0, 5, 2, 15, 13, 10, 14, 3, 6, 7, 1, 9, 4},
	{7, 9, 3, 1, 13, 12, 11, 14, 2, 6, 5, 10, 4, 0, 15, 8},
	{9, 0, 5, 7, 2, 4, 10, 15, 14, 1, 11, 12, 6, 8, 3, 13},
	{2, 12, 6, 10, 0, 11, 8, 3, 4, 13, 7, 5, 15, 14, 1, 9},
	{12, 5, 1, 15, 14, 13, 4, 10, 0, 7, 6, 3, 9, 2, 8, 11},
	{13, 11, 7, 14, 12, 1, 3, 9, 5, 0, 15, 4, 8, 6, 2, 10},
	{6, 15, 14, 9, 11, 3, 0, 8, 12, 2, 13, 7, 1, 4, 10, 5},
	{10, 2, 8, 4, 7, 6, 1, 5, 15, 11, 9, 14, 3, 12, 13, 0},
}

// fb: PrimBlake2!Fb
func fb(h *[8]uint64, block []byte, t uint64, final bool) {
	var m, v [16]uint64
	for i := range m {
		m[i] = binary.LittleEndian.Uint64(block[8*i:])
	}
	copy(v[:8], h[:])
	copy(v[8:], ivb[:])
	v[12] ^= t
	if final {
		v[14] ^= ^uint64(0)
	}
	g := func(a, b, c, d int, x, y uint64) {
		v[a] = v[a] + v[b] + x
		v[d] = bits.RotateLeft64(v[d]^v[a], -32)
		v[c] = v[c] + v[d]
		v[b] = bits.RotateLeft64(v[b]^v[c], -24)
		v[a] = v[a] + v[b] + y
		v[d] = bits.RotateLeft64(v[d]^v[a], -16)
		v[c] = v[c] + v[d]
		v[b] = bits.RotateLeft64(v[b]^v[c], -63)
	}
	for r := 0; r < 12; r++ {
		s := &sigma[r%10]
		g(0, 4, 8, 12, m[s[0]], m[s[1]])
		g(1, 5, 9, 13, m[s[2]], m[s[3]])
		g(2, 6, 10, 14, m[s[4]], m[s[5]])
		g(3, 7, 11, 15, m[s[6]], m[s[7]])
		g(0, 5, 10, 15, m[s[8]], m[s[9]])
		g(1, 6, 11, 12, m[s[10]], m[s[11]])
		g(2, 7, 8, 13, m[s[12]], m[s[13]])
		g(3, 4, 9, 14, m[s[14]], m[s[15]])
	}
	for i := range h {
		h[i] ^= v[i] ^ v[i+8]
	}
}

// fs: PrimBlake2!Fs
func fs(h *[8]uint32, block []byte, t uint32, final bool) {
	var m, v [16]uint32
	for i := range m {
		m[i] = binary.LittleEndian.Uint32(block[4*i:])
	}
	copy(v[:8], h[:])
	for i := 0; i < 8; i++ {
		v[8+i] = uint32(ivb[i] >> 32)
	}
	v[12] ^= t
	if final {
		v[14] ^= ^uint32(0)
	}
	g := func(a, b, c, d int, x, y uint32) {
		v[a] = v[a] + v[b] + x
		v[d] = bits.RotateLeft32(v[d]^v[a], -16)
		v[c] = v[c] + v[d]
		v[b] = bits.RotateLeft32(v[b]^v[c], -12)
		v[a] = v[a] + v[b] + y
		v[d] = bits.RotateLeft32(v[d]^v[a], -8)
		v[c] = v[c] + v[d]
		v[b] = bits.RotateLeft32(v[b]^v[c], -7)
	}
	for r := 0; r < 10; r++ {
		s := &sigma[r]
		g(0, 4, 8, 12, m[s[0]], m[s[1]])
		g(1, 5, 9, 13, m[s[2]], m[s[3]])
		g(2, 6, 10, 14, m[s[4]], m[s[5]])
		g(3, 7, 11, 15, m[s[6]], m[s[7]])
		g(0, 5, 10, 15, m[s[8]], m[s[9]])
		g(1, 6, 11, 12, m[s[10]], m[s[11]])
		g(2, 7, 8, 13, m[s[12]], m[s[13]])
		g(3, 4, 9, 14, m[s[14]], m[s[15]])
	}
	for i := range h {
		h[i] ^= v[i] ^ v[i+8]
	}
}

// Params are the parameter-block fields the packages use (salt and personalisation are zero).
type Params struct {
	DLen, KLen, Fanout, Depth int
	Leaf, Node, XofLen        uint32 // XofLen: 32 bits for BLAKE2b, 16 for BLAKE2s
	NodeDepth, Inner          int
}

// ParamB / ParamS: PrimBlake2!ParamB / ParamS
func ParamB(p Params) []byte {
	b := make([]byte, 64)
	b[0], b[1], b[2], b[3] = byte(p.DLen), byte(p.KLen), byte(p.Fanout), byte(p.Depth)
	binary.LittleEndian.PutUint32(b[4:], p.Leaf)
	binary.LittleEndian.PutUint32(b[8:], p.Node)
	binary.LittleEndian.PutUint32(b[12:], p.XofLen)
	b[16], b[17] = byte(p.NodeDepth), byte(p.Inner)
	return b
}

func ParamS(p Params) []byte {
	b := make([]byte, 32)
	b[0], b[1], b[2], b[3] = byte(p.DLen), byte(p.KLen), byte(p.Fanout), byte(p.Depth)
	binary.LittleEndian.PutUint32(b[4:], p.Leaf)
	binary.LittleEndian.PutUint32(b[8:], p.Node)
	binary.LittleEndian.PutUint16(b[12:], uint16(p.XofLen))
	b[14], b[15] = byte(p.NodeDepth), byte(p.Inner)
	return b
}

// Blake2bP: PrimBlake2!Blake2bP
func Blake2bP(param, key, msg []byte, outlen int) []byte {
	var h [8]uint64
	for i := range h {
		h[i] = ivb[i] ^ binary.LittleEndian.Uint64(param[8*i:])
	}
	var data []byte
	if len(key) > 0 {
		kb := make([]byte, 128)
		copy(kb, key)
		data = append(data, kb...)
	}
	data = append(data, msg...)
	done := 0
	for len(data)-done > 128 {
		fb(&h, data[done:done+128], uint64(done+128), false)
		done += 128
	}
	last := make([]byte, 128)
	copy(last, data[done:])
	fb(&h, last, uint64(len(data)), true)
	out := make([]byte, 64)
	for i, v := range h {
		binary.LittleEndian.PutUint64(out[8*i:], v)
	}
	return out[:outlen]
}

// Blake2sP: PrimBlake2!Blake2sP
func Blake2sP(param, key, msg []byte, outlen int) []byte {
	var h [8]uint32
	for i := range h {
		h[i] = uint32(ivb[i]>>32) ^ binary.LittleEndian.Uint32(param[4*i:])
	}
	var data []byte
	if len(key) > 0 {
		kb := make([]byte, 64)
		copy(kb, key)
		data = append(data, kb...)
	}
	data = append(data, msg...)
	done := 0
	for len(data)-done > 64 {
		fs(&h, data[done:done+64], uint32(done+64), false)
		done += 64
	}
	last := make([]byte, 64)
	copy(last, data[done:])
	fs(&h, last, uint32(len(data)), true)
	out := make([]byte, 32)
	for i, v := range h {
		binary.LittleEndian.PutUint32(out[4*i:], v)
	}
	return out[:outlen]
}

// Blake2b / Blake2s: the sequential hashes of RFC 7693 (PrimBlake2!Blake2b, Blake2s).
func Blake2b(dlen int, key, msg []byte) []byte {
	return Blake2bP(ParamB(Params{DLen: dlen, KLen: len(key), Fanout: 1, Depth: 1}), key, msg, dlen)
}

func Blake2s(dlen int, key, msg []byte) []byte {
	return Blake2sP(ParamS(Params{DLen: dlen, KLen: len(key), Fanout: 1, Depth: 1}), key, msg, dlen)
}

// Xof is the BLAKE2X stream of (L, key, msg); L = -1: unknown length.  PrimBlake2!XofSliceB/S.
type Xof struct {
	S    bool // BLAKE2Xs (else BLAKE2Xb)
	L    int64
	root []byte
}

func NewXof(s bool, L int64, key, msg []byte) *Xof {
	x := &Xof{S: s, L: L}
	if s {
		x.root = Blake2sP(ParamS(Params{DLen: 32, KLen: len(key), Fanout: 1, Depth: 1, XofLen: x.field()}), key, msg, 32)
	} else {
		x.root = Blake2bP(ParamB(Params{DLen: 64, KLen: len(key), Fanout: 1, Depth: 1, XofLen: x.field()}), key, msg, 64)
	}
	return x
}

func (x *Xof) field() uint32 {
	if x.L == -1 {
		if x.S {
			return 65535
		}
		return 1<<32 - 1
	}
	return uint32(x.L)
}

func (x *Xof) n() int64 {
	if x.S {
		return 32
	}
	return 64
}

// Node returns output node i.
func (x *Xof) Node(i int64) []byte {
	n := x.n()
	dl := n
	if x.L != -1 && x.L-n*i < n {
		dl = x.L - n*i
	}
	p := Params{DLen: int(dl), Leaf: uint32(n), Node: uint32(i), XofLen: x.field(), Inner: int(n)}
	if x.S {
		return Blake2sP(ParamS(p), nil, x.root, int(dl))
	}
	return Blake2bP(ParamB(p), nil, x.root, int(dl))
}

// Slice returns output bytes [from, from+cnt).
func (x *Xof) Slice(from, cnt int64) []byte {
	if cnt == 0 {
		return nil
	}
	n := x.n()
	i0, i1 := from/n, (from+cnt-1)/n
	var all []byte
	for i := i0; i <= i1; i++ {
		all = append(all, x.Node(i)...)
	}
	return all[from-n*i0 : from-n*i0+cnt]
}
