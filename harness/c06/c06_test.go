// Binding R+E for C06 (BLAKE2X extendable output follows the BLAKE2X specification).
//
// Input: (1) XOF output slices evaluated by TLC from the executable definition spec/PrimBlake2.tla
// (spec/Blake2_Vec.tla, t = "xb"/"xs"; file VERIF_C06_VEC); (2) call histories enumerated by TLC from
// spec/Blake2Xof.tla at the real node sizes (VERIF_CASES; {"w","L","h":[[op,r,k,n,res,from,mlen],...]})
// with the model's prediction for every call: bytes returned and which slice of which stream they
// are, io.EOF exactly at the declared length, panic of Write after the first Read, independence of
// clones.  Drives the real blake2b.NewXOF / blake2s.NewXOF objects.
package c06

import (
	"bytes"
	"encoding/hex"
	"encoding/json"
	"fmt"
	"io"
	"os"
	"strconv"
	"testing"

	"golang.org/x/crypto/blake2b"
	"golang.org/x/crypto/blake2s"
	"verif/harness/c03ref"
	"verif/harness/c05ref"
	"verif/harness/vutil"
)

type vec struct {
	T     string `json:"t"`
	A     int64  `json:"a"`
	K     int    `json:"k"`
	Ks    int    `json:"ks"`
	M     int    `json:"m"`
	Ms    int    `json:"ms"`
	From  int64  `json:"from"`
	N     int64  `json:"n"`
	Bytes []int  `json:"bytes"`
}

type histCase struct {
	W string  `json:"w"`
	L int64   `json:"L"`
	H [][]int `json:"h"`
}

// xof is the common surface of blake2b.XOF and blake2s.XOF (their Clone methods return different types)
type xof interface {
	io.Writer
	io.Reader
	Reset()
}

func newXOF(alg string, L int64, key []byte) (xof, error) {
	if alg == "b" {
		if L == -1 {
			return blake2b.NewXOF(blake2b.OutputLengthUnknown, key)
		}
		return blake2b.NewXOF(uint32(L), key)
	}
	if L == -1 {
		return blake2s.NewXOF(blake2s.OutputLengthUnknown, key)
	}
	return blake2s.NewXOF(uint16(L), key)
}

func clone(x xof) xof {
	switch v := x.(type) {
	case blake2b.XOF:
		return v.Clone()
	case blake2s.XOF:
		return v.Clone()
	}
	panic("unknown XOF type")
}

func toBytes(v []int) []byte {
	b := make([]byte, len(v))
	for i, x := range v {
		b[i] = byte(x)
	}
	return b
}

func hx(b []byte) string {
	if len(b) > 80 {
		b = b[:80]
	}
	return hex.EncodeToString(b)
}

type env struct {
	t     *testing.T
	out   *vutil.Out
	nviol int
	bySig map[string]int
}

// at most 3 violations per signature are recorded (vutil.Out keeps 50 in all)
func (e *env) fail(sig, what string, d map[string]any) {
	e.nviol++
	if e.bySig == nil {
		e.bySig = map[string]int{}
	}
	e.bySig[sig]++
	if e.bySig[sig] > 3 {
		return
	}
	e.out.Violation(sig, what, d)
	if e.nviol <= 20 {
		e.t.Errorf("%s: %s %v", sig, what, d)
	}
}

func maxKey(alg string) int {
	if alg == "b" {
		return 64
	}
	return 32
}

// skip n output bytes with reads of at most 4096
func skip(x xof, n int64) error {
	buf := make([]byte, 4096)
	for n > 0 {
		k := int64(len(buf))
		if k > n {
			k = n
		}
		m, err := x.Read(buf[:k])
		if err != nil {
			return err
		}
		n -= int64(m)
	}
	return nil
}

// (1) TLC-evaluated slices: validate the transcription, compare the real XOF
func (e *env) vectors(path string) int {
	n := 0
	err := vutil.ReadNDJSON(path, func(line []byte) error {
		var v vec
		if err := json.Unmarshal(line, &v); err != nil {
			return err
		}
		if v.T != "xb" && v.T != "xs" {
			return nil
		}
		n++
		alg := v.T[1:]
		key, msg, want := c03ref.Pat(v.Ks, v.K), c03ref.Pat(v.Ms, v.M), toBytes(v.Bytes)
		if got := c05ref.NewXof(alg == "s", v.A, key, msg).Slice(v.From, v.N); !bytes.Equal(got, want) {
			return fmt.Errorf("harness/c05ref disagrees with the TLC-evaluated BLAKE2X definition on %s L=%d klen=%d mlen=%d from=%d n=%d (transcription wrong; not a verdict)", v.T, v.A, v.K, v.M, v.From, v.N)
		}
		d := map[string]any{"alg": alg, "L": v.A, "klen": v.K, "mlen": v.M, "from": v.From, "n": v.N, "want": hx(want), "oracle": "TLC PrimBlake2"}
		for _, chunk := range []int64{0, 1, 7} {
			e.out.Case(fmt.Sprintf("vec|%s|%d|%d|%d|%d|%d|c%d", v.T, v.A, v.K, v.M, v.From, v.N, chunk))
			x, err := newXOF(alg, v.A, key)
			if err != nil {
				d["err"] = err.Error()
				e.fail("c06-newxof-rejects-valid-parameters", "NewXOF rejects a declared length / key the property covers", d)
				return nil
			}
			x.Write(msg)
			if err := skip(x, v.From); err != nil {
				d["err"] = err.Error()
				e.fail("c06-early-eof", "Read failed before the declared length was produced", d)
				return nil
			}
			got := make([]byte, v.N)
			var rerr error
			if chunk == 0 {
				_, rerr = io.ReadFull(x, got)
			} else {
				for off := int64(0); off < v.N && rerr == nil; off += chunk {
					end := off + chunk
					if end > v.N {
						end = v.N
					}
					_, rerr = io.ReadFull(x, got[off:end])
				}
			}
			if rerr != nil || !bytes.Equal(got, want) {
				d["got"], d["chunk"], d["err"] = hx(got), chunk, fmt.Sprint(rerr)
				e.fail("c06-stream-mismatch:"+alg, "XOF output differs from the BLAKE2X construction", d)
				return nil
			}
		}
		return nil
	})
	if err != nil {
		e.t.Fatalf("vectors: %v", err)
	}
	return n
}

type obj struct {
	x   xof
	msg []byte
	ref *c05ref.Xof
}

func safeWrite(x xof, p []byte) (panicked bool, n int, err error) {
	defer func() {
		if r := recover(); r != nil {
			panicked = true
		}
	}()
	n, err = x.Write(p)
	return
}

// (2) one history on one key
func (e *env) history(hc *histCase, klen, idx int) {
	alg := hc.W
	key := c03ref.Pat(7+klen, klen)
	x, err := newXOF(alg, hc.L, key)
	d := func(step int) map[string]any {
		return map[string]any{"alg": alg, "L": hc.L, "klen": klen, "history": hc.H, "step": step}
	}
	if err != nil {
		x := d(-1)
		x["err"] = err.Error()
		e.fail("c06-newxof-rejects-valid-parameters", "NewXOF rejects a declared length / key the property covers", x)
		return
	}
	objs := map[int]*obj{1: {x: x}}
	seed := 23 + idx%7
	for i, op := range hc.H {
		code, r, k, n, res, from, mlen := op[0], op[1], op[2], op[3], op[4], int64(op[5]), op[6]
		o := objs[r]
		if o == nil {
			e.t.Fatalf("history uses object %d before it exists: %v", r, hc.H)
		}
		switch code {
		case 0: // Write
			p := make([]byte, k)
			for j := range p {
				p[j] = c03ref.PatByte(seed, len(o.msg)+j)
			}
			panicked, wn, werr := safeWrite(o.x, p)
			if res == 2 {
				if !panicked {
					e.fail("c06-write-after-read-no-panic:"+alg, "Write after the first Read did not panic", d(i))
					return
				}
			} else {
				if panicked || wn != k || werr != nil {
					x := d(i)
					x["panicked"] = panicked
					e.fail("c06-write-failed:"+alg, "Write before the first Read panicked or did not consume its argument", x)
					return
				}
				o.msg = append(o.msg, p...)
			}
		case 1: // Read
			if o.ref == nil {
				o.ref = c05ref.NewXof(alg == "s", hc.L, key, o.msg)
			}
			if len(o.msg) != mlen {
				e.t.Fatalf("harness and model disagree on the absorbed length (%d vs %d): %v", len(o.msg), mlen, hc.H)
			}
			buf := make([]byte, k+3)
			for j := range buf {
				buf[j] = 0xEE
			}
			gn, gerr := o.x.Read(buf[:k])
			x := d(i)
			x["got_n"], x["got_err"], x["want_n"], x["from"] = gn, fmt.Sprint(gerr), n, from
			if res == 1 {
				if gn != 0 || gerr != io.EOF {
					e.fail("c06-no-eof-at-declared-length:"+alg, "Read past the declared length did not return (0, io.EOF)", x)
					return
				}
				continue
			}
			// io.EOF together with the last bytes would also satisfy "exactly the declared length before io.EOF"
			atEnd := hc.L >= 0 && from+int64(n) == hc.L
			if gn != n || (gerr != nil && !(gerr == io.EOF && atEnd && n > 0)) {
				sig := "c06-read-length:" + alg
				if gerr == io.EOF {
					sig = "c06-early-eof:" + alg
				}
				e.fail(sig, "Read returned a different number of bytes than min(len(p), declared length - position), or an early error", x)
				return
			}
			want := o.ref.Slice(from, int64(n))
			if !bytes.Equal(buf[:n], want) {
				x["got"], x["want"] = hx(buf[:n]), hx(want)
				e.fail("c06-stream-mismatch:"+alg, "XOF output differs from the BLAKE2X construction at this stream position", x)
				return
			}
			for j := n; j < len(buf); j++ {
				if buf[j] != 0xEE {
					e.fail("c06-read-overrun:"+alg, "Read wrote beyond the bytes it reported", x)
					return
				}
			}
		case 2: // Clone into slot k
			c := &obj{x: clone(o.x), msg: append([]byte(nil), o.msg...), ref: o.ref}
			objs[k] = c
		case 3:
			o.x.Reset()
			o.msg, o.ref = nil, nil
		}
	}
}

// (3) a whole stream read in random chunks of 0..200 bytes, up to limit bytes; EOF exactly at L
func (e *env) longRead(alg string, L int64, klen, mlen int, limit int64, salt int64) {
	rnd := vutil.Rand(salt)
	key, msg := c03ref.Pat(9, klen), c03ref.Pat(31, mlen)
	x, err := newXOF(alg, L, key)
	if err != nil {
		e.t.Fatalf("NewXOF: %v", err)
	}
	x.Write(msg)
	ref := c05ref.NewXof(alg == "s", L, key, msg)
	var c xof
	cloneAt := int64(-1)
	if limit > 10 {
		cloneAt = rnd.Int63n(limit)
	}
	pos, cpos := int64(0), int64(0)
	total := limit
	if L >= 0 && L < total {
		total = L
	}
	d := map[string]any{"alg": alg, "L": L, "klen": klen, "mlen": mlen, "seed": vutil.Seed()}
	step := func(x xof, pos *int64, who string) bool {
		k := rnd.Intn(201)
		buf := make([]byte, k)
		n, err := x.Read(buf)
		want := int64(k)
		if L >= 0 && L-*pos < want {
			want = L - *pos
		}
		d["pos"], d["k"], d["n"], d["err"], d["who"] = *pos, k, n, fmt.Sprint(err), who
		if L >= 0 && *pos == L {
			if n != 0 || err != io.EOF {
				e.fail("c06-no-eof-at-declared-length:"+alg, "Read past the declared length did not return (0, io.EOF)", d)
				return false
			}
			return true
		}
		if int64(n) != want || (err != nil && !(err == io.EOF && L >= 0 && *pos+want == L && n > 0)) {
			e.fail("c06-read-length:"+alg, "chunked read returned a different number of bytes than predicted", d)
			return false
		}
		if w := ref.Slice(*pos, want); !bytes.Equal(buf[:n], w) {
			d["got"], d["want"] = hx(buf[:n]), hx(w)
			e.fail("c06-stream-mismatch:"+alg, "chunked XOF output differs from the BLAKE2X construction", d)
			return false
		}
		*pos += want
		return true
	}
	for pos < total {
		if c == nil && cloneAt >= 0 && pos >= cloneAt {
			c = clone(x)
			cpos = pos
		}
		if !step(x, &pos, "original") {
			return
		}
		if c != nil && cpos < total && rnd.Intn(3) == 0 { // the clone reads its own way from its own position
			if !step(c, &cpos, "clone") {
				return
			}
		}
	}
	if L >= 0 && L <= limit {
		for i := 0; i < 2; i++ { // at the end: EOF, repeatedly
			if !step(x, &pos, "original") {
				return
			}
		}
	}
	for c != nil && cpos < total {
		if !step(c, &cpos, "clone") {
			return
		}
	}
	e.out.Case(fmt.Sprintf("long|%s|%d|%d|%d|%d", alg, L, klen, mlen, salt))
}

func TestReplay(t *testing.T) {
	out := vutil.NewOut()
	defer out.Write()
	e := &env{t: t, out: out}
	nvec := e.vectors(os.Getenv("VERIF_C06_VEC"))
	out.Extra["tlc_vectors"] = nvec
	if nvec < 10 {
		t.Fatalf("too few TLC vectors (%d)", nvec)
	}
	nh := 0
	if p := os.Getenv("VERIF_CASES"); p != "" {
		err := vutil.ReadNDJSON(p, func(line []byte) error {
			var hc histCase
			if err := json.Unmarshal(line, &hc); err != nil {
				return err
			}
			nh++
			klens := []int{0, maxKey(hc.W)}
			if vutil.Thorough() {
				klens = append(klens, 1)
			}
			for _, kl := range klens {
				e.history(&hc, kl, nh)
				out.Case(fmt.Sprintf("h|%s|%d|%d|%d", hc.W, hc.L, kl, nh))
			}
			if nh <= 3 {
				out.Sample(map[string]any{"alg": hc.W, "L": hc.L, "history": hc.H})
			}
			return nil
		})
		if err != nil {
			t.Fatalf("histories: %v", err)
		}
	}
	out.Extra["histories"] = nh
	// (3) long chunked reads
	limit, _ := strconv.ParseInt(vutil.Env("VERIF_C06_LONG", "70000"), 10, 64)
	reps, _ := strconv.Atoi(vutil.Env("VERIF_C06_LONGREPS", "1"))
	for rep := 0; rep < reps; rep++ {
		for i, c := range []struct {
			alg  string
			L    int64
			klen int
		}{{"b", 70000, 0}, {"b", -1, 64}, {"s", 65534, 32}, {"s", -1, 0}, {"b", 1000, 1}, {"s", 1000, 1}, {"b", 64, 0}, {"s", 32, 0}} {
			e.longRead(c.alg, c.L, c.klen, 3+i, limit, int64(rep*100+i))
		}
	}
	// declared lengths 1..N+2 and a sample up to 70000 (65534): whole stream in one Read against the transcription
	rnd := vutil.Rand(606)
	nl, _ := strconv.Atoi(vutil.Env("VERIF_C06_LENGTHS", "60"))
	for i := 0; i < nl; i++ {
		for _, alg := range []string{"b", "s"} {
			maxL := int64(70000)
			if alg == "s" {
				maxL = 65534
			}
			L := int64(i + 1)
			if i >= 140 || (nl < 200 && i >= nl/2) {
				L = 1 + rnd.Int63n(maxL)
			}
			key, msg := c03ref.Pat(5, i%(maxKey(alg)+1)), c03ref.Pat(29, i%131)
			x, err := newXOF(alg, L, key)
			if err != nil {
				t.Fatalf("NewXOF(%d): %v", L, err)
			}
			x.Write(msg)
			got := make([]byte, L+5)
			n, _ := x.Read(got)
			n2, err2 := x.Read(got[n:])
			want := c05ref.NewXof(alg == "s", L, key, msg).Slice(0, L)
			out.Case(fmt.Sprintf("len|%s|%d", alg, L))
			if int64(n) != L || n2 != 0 || err2 != io.EOF || !bytes.Equal(got[:n], want) {
				e.fail("c06-declared-length:"+alg, "one Read of the whole stream: wrong length, missing io.EOF or wrong bytes", map[string]any{"alg": alg, "L": L, "n": n, "n2": n2, "err2": fmt.Sprint(err2), "klen": len(key), "mlen": len(msg)})
			}
		}
	}
}
