package c32

import (
	"crypto/ed25519"
	"crypto/rand"
	"errors"
	"fmt"
	"net"
	"strings"
	"testing"
	"time"

	"golang.org/x/crypto/ssh"
	"verif/harness/memconn"
	"verif/harness/vutil"
)

// e2e runs a real client against a real NewServerConn over an in-memory connection and reports
// how often the server's PasswordCallback ran, and both ends' errors.
func e2e(t *testing.T, sc *ssh.ServerConfig, remote net.Addr, clientTries int, password string) (calls int, serverErr, clientErr error, perms *ssh.Permissions, stalled bool) {
	_, hostPriv, _ := ed25519.GenerateKey(rand.Reader)
	hk, err := ssh.NewSignerFromKey(hostPriv)
	if err != nil {
		t.Fatal(err)
	}
	inner := sc.PasswordCallback
	cfg := *sc
	cfg.PasswordCallback = func(c ssh.ConnMetadata, pw []byte) (*ssh.Permissions, error) {
		calls++
		return inner(c, pw)
	}
	cfg.AddHostKey(hk)
	cc, scConn := memconn.Pair()
	if remote != nil {
		scConn.SetAddrs(&net.TCPAddr{IP: net.IPv4(192, 0, 2, 1), Port: 22}, remote)
	}
	done := make(chan struct{})
	go func() {
		defer close(done)
		conn, chans, reqs, err := ssh.NewServerConn(scConn, &cfg)
		serverErr = err
		if err == nil {
			perms = conn.Permissions
			go ssh.DiscardRequests(reqs)
			go func() {
				for c := range chans {
					c.Reject(ssh.Prohibited, "verif")
				}
			}()
			conn.Close()
		}
	}()
	tries := 0
	ccfg := &ssh.ClientConfig{User: "u1", HostKeyCallback: ssh.InsecureIgnoreHostKey(),
		Auth: []ssh.AuthMethod{ssh.RetryableAuthMethod(ssh.PasswordCallback(func() (string, error) { tries++; return password, nil }), clientTries)}}
	cdone := make(chan struct{})
	go func() {
		defer close(cdone)
		c, _, _, err := ssh.NewClientConn(cc, "verif", ccfg)
		clientErr = err
		if err == nil {
			c.Close()
		}
		cc.Close()
	}()
	// A server that neither answers nor disconnects would leave both ends blocked; the watchdog only
	// unblocks them (closing the connection). The judgement is made on the callback count.
	select {
	case <-cdone:
	case <-time.After(30 * time.Second):
		cc.Close()
		scConn.Close()
		<-cdone
		stalled = true
	}
	<-done
	return
}

// TestE2E checks, through the real NewServerConn, what the hook-based replays take from a
// transcription: the MaxAuthTries defaulting (0 means 6, negative means unlimited) and that the
// source-address option is matched against the connection's remote address.
func TestE2E(t *testing.T) {
	out := vutil.NewOut()
	defer func() {
		if err := out.Write(); err != nil {
			t.Fatal(err)
		}
	}()
	reject := func(ssh.ConnMetadata, []byte) (*ssh.Permissions, error) { return nil, errors.New("no") }
	for _, tc := range []struct{ maxTries, clientTries, wantCalls int }{{0, 20, 6}, {2, 20, 2}, {1, 20, 1}, {6, 20, 6}, {-1, 20, 20}, {3, 2, 2}} {
		calls, serr, _, _, stalled := e2e(t, &ssh.ServerConfig{MaxAuthTries: tc.maxTries, PasswordCallback: reject}, nil, tc.clientTries, "bad")
		out.Case(fmt.Sprintf("e2e-maxauthtries-%d-%d", tc.maxTries, tc.clientTries))
		disconnected := serr != nil && strings.Contains(serr.Error(), "too many authentication failures")
		wantDisc := tc.wantCalls < tc.clientTries
		if stalled && calls == tc.wantCalls {
			// nothing wrong was observed except that the exchange did not finish in time: not a verdict
			t.Fatalf("MaxAuthTries=%d: exchange stalled after %d callback runs", tc.maxTries, calls)
		}
		if calls != tc.wantCalls || disconnected != wantDisc {
			out.Violation("c33-e2e-maxauthtries", fmt.Sprintf("NewServerConn with MaxAuthTries=%d: PasswordCallback ran %d times against a client offering %d passwords (after the free none), disconnect=%v; expected %d, disconnect=%v",
				tc.maxTries, calls, tc.clientTries, disconnected, tc.wantCalls, wantDisc), map[string]any{"maxAuthTries": tc.maxTries, "serverErr": fmt.Sprint(serr)})
			t.Errorf("MaxAuthTries=%d: %d callback runs, server error %v", tc.maxTries, calls, serr)
		}
	}
	type srcCase struct {
		remote net.Addr
		list   string
		allow  bool
	}
	for _, tc := range []srcCase{
		{&net.TCPAddr{IP: net.ParseIP("192.0.2.7"), Port: 4000}, "192.0.2.7", true},
		{&net.TCPAddr{IP: net.ParseIP("192.0.2.7"), Port: 4000}, "198.51.100.0/24,192.0.2.0/24", true},
		{&net.TCPAddr{IP: net.ParseIP("192.0.2.7"), Port: 4000}, "198.51.100.0/24", false},
		{&net.TCPAddr{IP: net.ParseIP("192.0.2.7"), Port: 4000}, "", false},
		{&net.TCPAddr{IP: net.ParseIP("2001:db8::1"), Port: 4000}, "2001:db8::/32", true},
		{&net.TCPAddr{IP: net.ParseIP("2001:db8::1"), Port: 4000}, "192.0.2.0/24", false},
		{nil, "10.0.0.0/8", false}, // memconn's own address type is not a *net.TCPAddr
	} {
		accept := func(ssh.ConnMetadata, []byte) (*ssh.Permissions, error) {
			return &ssh.Permissions{CriticalOptions: map[string]string{"source-address": tc.list}}, nil
		}
		_, serr, _, perms, _ := e2e(t, &ssh.ServerConfig{MaxAuthTries: 2, PasswordCallback: accept}, tc.remote, 1, "pw")
		out.Case(fmt.Sprintf("e2e-source-address-%v-%q", tc.remote, tc.list))
		if (serr == nil) != tc.allow {
			out.Violation("c33-e2e-source-address", fmt.Sprintf("NewServerConn from %v with source-address %q: error %v, expected allow=%v", tc.remote, tc.list, serr, tc.allow),
				map[string]any{"remote": fmt.Sprint(tc.remote), "list": tc.list})
			t.Errorf("source-address %q from %v: server error %v, want allow=%v", tc.list, tc.remote, serr, tc.allow)
		}
		if serr == nil && (perms == nil || perms.CriticalOptions["source-address"] != tc.list) {
			t.Errorf("permissions not returned")
		}
	}
}
