package c32

import (
	"encoding/json"
	"fmt"
	"hash/fnv"
	"os"
	"runtime"
	"sort"
	"strings"
	"sync"
	"testing"

	"verif/harness/vutil"
)

type job struct {
	cfg  *Cfg
	hist []StepExp
	line int
}

type jobResult struct {
	job  job
	got  *replayResult
	fs   []finding
	err  error
	seed int64
}

func histKey(cfg Name, h []StepExp) string {
	var b strings.Builder
	b.WriteString(string(cfg))
	for _, s := range h {
		b.WriteByte('|')
		b.WriteString(s.Req.String())
	}
	return b.String()
}

// TestReplay replays every history of VERIF_CASES on the real serverAuthenticate.  VERIF_PROP
// (C32 or C33) selects which property's clauses are violations; differences the selected
// property does not state are counted as informational and never fail the test.
func TestReplay(t *testing.T) {
	out := vutil.NewOut()
	defer func() {
		if err := out.Write(); err != nil {
			t.Fatal(err)
		}
	}()
	prop := vutil.Env("VERIF_PROP", "C32")
	ks := newKeySet()
	cfgs := map[Name]*Cfg{}
	var jobs []job
	ln := 0
	err := vutil.ReadNDJSON(vutil.Env("VERIF_CASES", ""), func(line []byte) error {
		ln++
		l, err := parseLine(line)
		if err != nil {
			return err
		}
		switch l.Kind {
		case "cfg":
			l.Def.Name = l.Name
			cfgs[l.Name] = l.Def
		case "hist":
			jobs = append(jobs, job{hist: l.Hist, line: ln})
			jobs[len(jobs)-1].cfg = &Cfg{Name: l.Cfg} // resolved below
		}
		return nil
	})
	if err != nil {
		t.Fatal(err)
	}
	for i := range jobs {
		c, ok := cfgs[jobs[i].cfg.Name]
		if !ok {
			t.Fatalf("history at line %d refers to unknown configuration %q", jobs[i].line, jobs[i].cfg.Name)
		}
		jobs[i].cfg = c
	}
	results := make([]jobResult, len(jobs))
	var wg sync.WaitGroup
	ch := make(chan int, 1024)
	nw := runtime.GOMAXPROCS(0)
	if nw > 16 {
		nw = 16
	}
	for w := 0; w < nw; w++ {
		wg.Add(1)
		go func() {
			defer wg.Done()
			for i := range ch {
				j := jobs[i]
				h := fnv.New64a()
				h.Write([]byte(histKey(j.cfg.Name, j.hist)))
				seed := vutil.Seed()*1000003 + int64(h.Sum64()&0x7fffffff)
				func() {
					defer func() {
						if p := recover(); p != nil {
							results[i] = jobResult{job: j, err: fmt.Errorf("panic: %v", p), seed: seed}
						}
					}()
					got, err := replay(ks, j.cfg, j.hist, seed)
					r := jobResult{job: j, got: got, err: err, seed: seed}
					if err == nil {
						r.fs = compare(j.cfg, j.hist, got)
					}
					results[i] = r
				}()
			}
		}()
	}
	for i := range jobs {
		ch <- i
	}
	close(ch)
	wg.Wait()

	info := map[string]int{}
	var infoSamples []string
	stats := map[string]int{}
	for _, r := range results {
		if r.err != nil {
			t.Fatalf("harness error on history at line %d: %v", r.job.line, r.err)
		}
		nontrivial := len(r.job.hist) > 0
		if nontrivial {
			out.Case(histKey(r.job.cfg.Name, r.job.hist))
		} else {
			out.Case("")
		}
		stats["requests_replayed"] += r.got.Fed
		stats["real_"+r.got.Status]++
		for _, s := range r.got.Steps {
			for _, p := range s.Out {
				if p.T == "FAILURE" && p.Partial {
					stats["real_partial_success_steps"]++
				}
				if p.T == "PK_OK" {
					stats["real_pk_ok_steps"]++
				}
			}
		}
		if len(r.job.hist) > stats["longest_history"] {
			stats["longest_history"] = len(r.job.hist)
		}
		if len(out.Samples) < 3 && r.got.Status == "success" && len(r.job.hist) > 1 {
			var reqs []string
			for _, s := range r.job.hist {
				reqs = append(reqs, s.Req.String())
			}
			out.Sample(map[string]any{"cfg": r.job.cfg.Name, "requests": reqs, "status": r.got.Status, "permissions": r.got.PermsID})
		}
		for _, f := range r.fs {
			if f.Prop == prop {
				var reqs []string
				for _, s := range r.job.hist {
					reqs = append(reqs, s.Req.String())
				}
				detail := map[string]any{"cfg": r.job.cfg.Name, "requests": reqs, "step": f.Step, "history": r.job.hist, "config": r.job.cfg,
					"real": r.got, "seed": r.seed}
				out.Violation(f.Sig, f.What+fmt.Sprintf(" [configuration %s, request %d of %v]", r.job.cfg.Name, f.Step+1, reqs), detail)
				t.Errorf("%s %s: %s (cfg %s, history %v)", prop, f.Sig, f.What, r.job.cfg.Name, reqs)
			} else if f.Prop == "" {
				info[f.Sig]++
				if len(infoSamples) < 12 {
					infoSamples = append(infoSamples, fmt.Sprintf("[%s step %d] %s", r.job.cfg.Name, f.Step+1, f.What))
				}
			} else {
				stats["findings_of_other_property_"+f.Prop]++
			}
		}
	}
	for k, v := range stats {
		out.Extra[k] = v
	}
	ninfo := 0
	var keys []string
	for k, v := range info {
		ninfo += v
		keys = append(keys, fmt.Sprintf("%s:%d", k, v))
	}
	sort.Strings(keys)
	out.Extra["informational_mismatches"] = ninfo
	if ninfo > 0 {
		out.Extra["informational_kinds"] = strings.Join(keys, " ")
		out.Extra["informational_samples"] = infoSamples
		for _, s := range infoSamples {
			t.Logf("informational: %s", s)
		}
	}
	if b, err := json.Marshal(stats); err == nil {
		t.Logf("stats: %s", b)
	}
	_ = os.Getenv
}
