package c32

import (
	"encoding/binary"
	"errors"
	"fmt"
	"io"
	mrand "math/rand"
	"reflect"
	"strings"

	"golang.org/x/crypto/ssh"
	"verif/harness/vutil"
)

// ---- the server side under test: a real ServerConfig whose callbacks follow the configuration tables ----

type cbRec struct {
	ev    CbEv
	step  int
	perms *ssh.Permissions
	err   error
}

type run struct {
	ks     *keySet
	cfg    *Cfg
	rnd    *mrand.Rand
	step   int // index of the request being handled
	log    []cbRec
	remote string
	stageC map[int]*ssh.ServerAuthCallbacks
	// what PublicKeyCallback returned last for a (user,key), to check what VerifiedPublicKeyCallback is given
	pkPerms    map[string]*ssh.Permissions
	notes      []string
	srcStrings map[string]string
}

var errRejected = errors.New("verif: rejected by callback")

func (r *run) mkPerms(p Perms, origin string) *ssh.Permissions {
	if p.ID == "nil" {
		return nil
	}
	out := &ssh.Permissions{Extensions: map[string]string{"verif-id": p.ID, "verif-origin": origin}}
	if p.Has {
		key := p.ID
		s, ok := r.srcStrings[key]
		if !ok {
			var parts []string
			for _, e := range p.Src {
				parts = append(parts, srcEntry(e, r.rnd))
			}
			s = strings.Join(parts, ",")
			r.srcStrings[key] = s
		}
		out.CriticalOptions = map[string]string{"source-address": s, "force-command": "/bin/true"}
	}
	return out
}

func (r *run) result(o Outcome, origin string) (*ssh.Permissions, error) {
	p := r.mkPerms(o.Perms, origin)
	switch o.T {
	case "accept":
		return p, nil
	case "reject":
		return p, errRejected
	case "partial":
		return p, &ssh.PartialSuccessError{Next: *r.callbacks(o.Next)}
	case "banner":
		return p, &ssh.BannerError{Err: errRejected, Message: o.Msg}
	}
	panic("outcome " + o.T + " cannot be returned by this callback")
}

func (r *run) record(cb string, stage int, user, key string, p *ssh.Permissions, err error) {
	r.log = append(r.log, cbRec{ev: CbEv{Cb: cb, Stage: stage, U: user, K: key}, step: r.step, perms: p, err: err})
}

// callbacks builds (once) the ServerAuthCallbacks of a stage.
func (r *run) callbacks(i int) *ssh.ServerAuthCallbacks {
	if c, ok := r.stageC[i]; ok {
		return c
	}
	c := &ssh.ServerAuthCallbacks{}
	r.stageC[i] = c
	st := r.cfg.Stages[i-1]
	if st.HasPw {
		c.PasswordCallback = func(conn ssh.ConnMetadata, pw []byte) (*ssh.Permissions, error) {
			u := conn.User()
			var p *ssh.Permissions
			err := error(errRejected)
			if string(pw) == "good-"+u {
				p, err = r.result(st.Pw[u], fmt.Sprintf("password/%d/%s/", i, u))
			}
			r.record("password", i, u, "", p, err)
			return p, err
		}
	}
	if st.HasKbd {
		c.KeyboardInteractiveCallback = func(conn ssh.ConnMetadata, ch ssh.KeyboardInteractiveChallenge) (*ssh.Permissions, error) {
			u := conn.User()
			var p *ssh.Permissions
			ans, err := ch("", "verif", []string{"answer?"}, []bool{true})
			if err == nil {
				if len(ans) == 1 && ans[0] == "good" {
					p, err = r.result(st.Kbd[u], fmt.Sprintf("kbdint/%d/%s/", i, u))
				} else {
					err = errRejected
				}
			}
			r.record("kbdint", i, u, "", p, err)
			return p, err
		}
	}
	if st.HasPk {
		c.PublicKeyCallback = func(conn ssh.ConnMetadata, key ssh.PublicKey) (*ssh.Permissions, error) {
			u := conn.User()
			k, ok := r.ks.byBlob[string(key.Marshal())]
			if !ok {
				r.record("publickey", i, u, "?", nil, errRejected)
				return nil, errRejected
			}
			p, err := r.result(st.Pk[u][k], fmt.Sprintf("publickey/%d/%s/%s", i, u, k))
			r.pkPerms[u+"/"+k] = p
			r.record("publickey", i, u, k, p, err)
			return p, err
		}
	}
	return c
}

func (r *run) serverConfig() (*ssh.ServerConfig, error) {
	c := r.cfg
	sc := &ssh.ServerConfig{NoClientAuth: c.NoClientAuth, MaxAuthTries: c.MaxTries}
	if !c.PkaaDefault {
		sc.PublicKeyAuthAlgorithms = append([]string(nil), c.Pkaa...)
	}
	st := r.callbacks(1)
	sc.PasswordCallback, sc.PublicKeyCallback, sc.KeyboardInteractiveCallback = st.PasswordCallback, st.PublicKeyCallback, st.KeyboardInteractiveCallback
	if c.HasNoneCb {
		sc.NoClientAuthCallback = func(conn ssh.ConnMetadata) (*ssh.Permissions, error) {
			p, err := r.result(c.NoneCb, fmt.Sprintf("none/0/%s/", conn.User()))
			r.record("none", 0, conn.User(), "", p, err)
			return p, err
		}
	}
	if c.HasVerified {
		sc.VerifiedPublicKeyCallback = func(conn ssh.ConnMetadata, key ssh.PublicKey, given *ssh.Permissions, sigAlgo string) (*ssh.Permissions, error) {
			u := conn.User()
			k := r.ks.byBlob[string(key.Marshal())]
			if want := r.pkPerms[u+"/"+k]; want != given {
				r.notes = append(r.notes, fmt.Sprintf("VerifiedPublicKeyCallback(%s,%s) was not given the Permissions object PublicKeyCallback returned for that user and key", u, k))
			}
			o := c.Verified[k]
			var p *ssh.Permissions
			var err error
			if o.T == "acceptSame" {
				p = given
			} else {
				p, err = r.result(o, fmt.Sprintf("verified/0/%s/%s", u, k))
			}
			r.record("verified", 0, u, k, p, err)
			return p, err
		}
	}
	switch c.Banner {
	case "empty":
		sc.BannerCallback = func(conn ssh.ConnMetadata) string { r.record("banner", 0, conn.User(), "", nil, nil); return "" }
	case "text":
		sc.BannerCallback = func(conn ssh.ConnMetadata) string { r.record("banner", 0, conn.User(), "", nil, nil); return "motd" }
	}
	return ssh.VerifServerAuthPrepareConfig(sc)
}

// ---- decoding what the server wrote ----

func (r *run) decode(p []byte, req Req) Pkt {
	if len(p) == 0 {
		return Pkt{T: "EMPTY"}
	}
	switch p[0] {
	case 1:
		if len(p) >= 5 {
			msg, _, ok := getString(p[5:])
			if ok {
				switch string(msg) {
				case "too many authentication failures":
					return Pkt{T: "DISCONNECT", A: "failures"}
				case "too many authentication attempts":
					return Pkt{T: "DISCONNECT", A: "attempts"}
				}
				return Pkt{T: "DISCONNECT", A: string(msg)}
			}
		}
		return Pkt{T: "DISCONNECT", A: "?"}
	case 51:
		l, rest, ok := getString(p[1:])
		if !ok || len(rest) != 1 {
			return Pkt{T: "FAILURE?"}
		}
		var ms []string
		if len(l) > 0 {
			ms = strings.Split(string(l), ",")
		}
		return Pkt{T: "FAILURE", Methods: ms, Partial: rest[0] != 0}
	case 52:
		if len(p) == 1 {
			return Pkt{T: "SUCCESS"}
		}
		return Pkt{T: "SUCCESS?"}
	case 53:
		m, _, ok := getString(p[1:])
		if !ok {
			return Pkt{T: "BANNER?"}
		}
		return Pkt{T: "BANNER", A: string(m)}
	case 60:
		if req.M == "kbdint" {
			return Pkt{T: "INFO_REQUEST"}
		}
		algo, rest, ok := getString(p[1:])
		if !ok {
			return Pkt{T: "PK_OK?"}
		}
		blob, rest, ok := getString(rest)
		if !ok || len(rest) != 0 {
			return Pkt{T: "PK_OK?"}
		}
		k, known := r.ks.byBlob[string(blob)]
		if !known {
			k = "?"
		}
		return Pkt{T: "PK_OK", A: string(algo), K: k}
	}
	return Pkt{T: fmt.Sprintf("MSG%d", p[0])}
}

// ---- one replay ----

var errStop = errors.New("verif: end of scripted history")

// sessionPool holds the session identifiers used by the replays (SHA-1, SHA-256 and SHA-512 sized).
// A small pool lets the deterministic RSA signatures be reused between histories.
var sessionPool = func() [][]byte {
	rnd := mrand.New(mrand.NewSource(vutil.Seed()*7919 + 17))
	var p [][]byte
	for _, n := range []int{20, 32, 32, 64, 32, 20} {
		b := make([]byte, n)
		rnd.Read(b)
		p = append(p, b)
	}
	return p
}()

type stepGot struct {
	Out []Pkt
	Cbs []CbEv
}

type replayResult struct {
	Steps    []stepGot // per request fed
	Fed      int       // number of requests the server read
	ReadMore bool      // the server asked for a request beyond the history
	Status   string    // success | error | eof | disc_failures | disc_attempts | running
	PermsID  string
	Origin   string
	LastPk   *CbEv // most recent PublicKeyCallback invocation
	Err      string
	Notes    []string
}

func infoResponse(answers ...string) []byte {
	b := []byte{61}
	b = binary.BigEndian.AppendUint32(b, uint32(len(answers)))
	for _, a := range answers {
		b = putStr(b, a)
	}
	return b
}

func replay(ks *keySet, cfg *Cfg, hist []StepExp, seed int64) (res *replayResult, err error) {
	rnd := mrand.New(mrand.NewSource(seed))
	r := &run{ks: ks, cfg: cfg, rnd: rnd, stageC: map[int]*ssh.ServerAuthCallbacks{}, pkPerms: map[string]*ssh.Permissions{}, srcStrings: map[string]string{}}
	sc, err := r.serverConfig()
	if err != nil {
		return nil, err
	}
	session := sessionPool[rnd.Intn(len(sessionPool))]
	remote := remoteAddr(cfg.Remote, rnd)
	res = &replayResult{}
	r.step = -1
	answered := false
	var buildErr error
	sentEOF := false
	script := func(written [][]byte) ([]byte, error) {
		if r.step >= 0 {
			for _, w := range written {
				res.Steps[r.step].Out = append(res.Steps[r.step].Out, r.decode(w, hist[r.step].Req))
			}
			cur := hist[r.step].Req
			if cur.M == "kbdint" && !answered && len(written) > 0 && written[len(written)-1][0] == 60 {
				answered = true
				switch cur.Arg {
				case "good":
					return infoResponse("good"), nil
				case "bad":
					return infoResponse("bad"), nil
				default: // badresp: a packet of the wrong type
					return authRequest(cur.U, serviceSSH, "none", nil), nil
				}
			}
		} else if len(written) > 0 {
			res.Notes = append(res.Notes, "server wrote before the first request")
		}
		if r.step+1 >= len(hist) {
			res.ReadMore = true
			return nil, errStop
		}
		r.step++
		answered = false
		res.Steps = append(res.Steps, stepGot{})
		res.Fed = r.step + 1
		req := hist[r.step].Req
		if req.M == "eof" {
			sentEOF = true
			return nil, io.EOF
		}
		p, e := ks.buildRequest(req, session, rnd)
		if e != nil {
			buildErr = e
			return nil, errStop
		}
		return p, nil
	}
	out := ssh.VerifServerAuthenticate(sc, script, session, remote)
	if buildErr != nil {
		return nil, buildErr
	}
	if r.step >= 0 {
		for _, w := range out.Tail {
			res.Steps[r.step].Out = append(res.Steps[r.step].Out, r.decode(w, hist[r.step].Req))
		}
	}
	for _, c := range r.log {
		if c.step >= 0 && c.step < len(res.Steps) {
			res.Steps[c.step].Cbs = append(res.Steps[c.step].Cbs, c.ev)
		}
		if c.ev.Cb == "publickey" {
			ev := c.ev
			res.LastPk = &ev
		}
	}
	res.Notes = append(res.Notes, r.notes...)
	res.PermsID = "nil"
	switch {
	case out.Err == nil:
		res.Status = "success"
		if out.Permissions != nil {
			res.PermsID = out.Permissions.Extensions["verif-id"]
			res.Origin = out.Permissions.Extensions["verif-origin"]
		}
	case errors.Is(out.Err, errStop):
		res.Status = "running"
	default:
		res.Err = out.Err.Error()
		res.Status = "error"
		if n := len(res.Steps); n > 0 {
			for _, p := range res.Steps[n-1].Out {
				if p.T == "DISCONNECT" && (p.A == "failures" || p.A == "attempts") {
					res.Status = "disc_" + p.A
				}
			}
		}
		var sae *ssh.ServerAuthError
		if res.Status == "error" && sentEOF && errors.As(out.Err, &sae) {
			res.Status = "eof"
		}
	}
	if out.Permissions != nil && out.Err != nil {
		res.Notes = append(res.Notes, "non-nil Permissions returned together with an error")
	}
	return res, nil
}

// ---- comparison ----

type finding struct {
	Prop  string // "C32", "C33" or "" (informational: not stated by either property)
	Sig   string
	What  string
	Step  int
	Extra map[string]any
}

func pktsEqual(a, b []Pkt) bool {
	if len(a) != len(b) {
		return false
	}
	for i := range a {
		if a[i].T != b[i].T || a[i].Partial != b[i].Partial || a[i].A != b[i].A || a[i].K != b[i].K || !reflect.DeepEqual(append([]string{}, a[i].Methods...), append([]string{}, b[i].Methods...)) {
			return false
		}
	}
	return true
}

func findPkt(ps []Pkt, t string) *Pkt {
	for i := range ps {
		if ps[i].T == t {
			return &ps[i]
		}
	}
	return nil
}

func sameSet(a, b []string) bool {
	if len(a) != len(b) {
		return false
	}
	m := map[string]int{}
	for _, x := range a {
		m[x]++
	}
	for _, x := range b {
		m[x]--
	}
	for _, v := range m {
		if v != 0 {
			return false
		}
	}
	return true
}

// compare judges one replay against the model's prediction.  Differences that contradict a
// clause of C32 or C33 get that property; everything else the model predicts more precisely
// than the properties state (exact packets, banners, error-versus-failure, callback lists) is
// informational.
func compare(cfg *Cfg, hist []StepExp, got *replayResult) []finding {
	var fs []finding
	add := func(prop, sig, what string, step int, extra map[string]any) {
		fs = append(fs, finding{Prop: prop, Sig: sig, What: what, Step: step, Extra: extra})
	}
	n := got.Fed
	for i := 0; i < n && i < len(hist); i++ {
		exp, g := hist[i], got.Steps[i]
		last := i == n-1
		realStatus := "running"
		if last {
			realStatus = got.Status
		}
		expStatus := exp.Status
		// the history ends where the model is still running: the server reads on, as predicted
		// ---------- C32 / C33: success ----------
		if realStatus == "success" && expStatus != "success" {
			ok, why := c32Satisfied(cfg, exp)
			if !ok {
				add("C32", "c32-unsound-success", fmt.Sprintf("authentication succeeded on %v although %s", exp.Req, why), i, nil)
			} else {
				// the method was satisfied; the model refuses for a C33 reason
				pu, hadPartial := partialUser(hist, i)
				userChanged := exp.Partial && hadPartial && pu != exp.Req.U
				srcDenied := false
				if o, ok := finalOutcomes(cfg, exp); ok {
					for _, p := range o {
						if !srcOK(cfg.Remote, p) {
							srcDenied = true
						}
					}
				}
				switch {
				case userChanged:
					add("C33", "c33-user-change-accepted", fmt.Sprintf("authentication succeeded for %v after a partial success obtained under another user name", exp.Req), i, nil)
				case srcDenied:
					add("C33", "c33-source-address-not-enforced", fmt.Sprintf("authentication succeeded on %v from remote %q although a successful Permissions carries a source-address option that does not admit it", exp.Req, cfg.Remote), i, nil)
				default:
					add("", "success-not-predicted", fmt.Sprintf("authentication succeeded on %v, the model predicts %s", exp.Req, expStatus), i, nil)
				}
			}
		}
		if realStatus == "success" && expStatus == "success" {
			if got.PermsID != exp.Perms {
				add("C32", "c32-wrong-permissions", fmt.Sprintf("Permissions %q returned on %v, those of the final successful callback are %q", got.PermsID, exp.Req, exp.Perms), i, nil)
			} else if want := expectedPermsOrigin(cfg, exp); got.PermsID != "nil" && want != got.Origin {
				add("C32", "c32-wrong-permissions", fmt.Sprintf("Permissions returned on %v were produced by %q, the final successful callback is %q", exp.Req, got.Origin, want), i, nil)
			}
			if exp.Req.M == "pksign" {
				if got.LastPk == nil || got.LastPk.U != exp.Req.U || got.LastPk.K != exp.Req.K {
					add("C33", "c33-last-publickeycallback-other-key", fmt.Sprintf("publickey success for %v but the last PublicKeyCallback invocation was %v", exp.Req, got.LastPk), i, nil)
				}
			}
		}
		if realStatus != "success" && expStatus == "success" {
			add("", "success-refused", fmt.Sprintf("the model predicts success on %v, the server answered %v (%s)", exp.Req, g.Out, realStatus), i, nil)
		}
		// ---------- C32: partial success switches callbacks ----------
		ef, gf := findPkt(exp.Out, "FAILURE"), findPkt(g.Out, "FAILURE")
		switch {
		case ef != nil && ef.Partial && (gf == nil || !gf.Partial):
			if realStatus == "running" || gf != nil {
				add("C32", "c32-partial-success-not-applied", fmt.Sprintf("a callback returned PartialSuccessError on %v but the server answered %v", exp.Req, g.Out), i, nil)
			}
		case gf != nil && gf.Partial && (ef == nil || !ef.Partial):
			add("C32", "c32-partial-success-invented", fmt.Sprintf("the server reported partial success on %v (%v), the model predicts %v", exp.Req, g.Out, exp.Out), i, nil)
		case ef != nil && gf != nil && ef.Partial && gf.Partial && !sameSet(ef.Methods, gf.Methods):
			add("C32", "c32-partial-success-methods", fmt.Sprintf("after the partial success on %v the server offers %v, the callbacks it names are %v", exp.Req, gf.Methods, ef.Methods), i, nil)
		}
		for _, c := range g.Cbs {
			if c.Stage != 0 && c.Stage != exp.Stage {
				add("C32", "c32-callback-of-wrong-stage", fmt.Sprintf("%v consulted callback %v, the callbacks in force are those of stage %d", exp.Req, c, exp.Stage), i, nil)
			}
		}
		// ---------- C33: limits ----------
		for _, kind := range []string{"failures", "attempts"} {
			e, r := expStatus == "disc_"+kind, realStatus == "disc_"+kind
			name := map[string]string{"failures": "c33-maxauthtries", "attempts": "c33-attempt-cap"}[kind]
			if e && !r {
				add("C33", name+"-not-enforced", fmt.Sprintf("the server must disconnect (too many authentication %s) after request %d %v; it answered %v (%s)", kind, i+1, exp.Req, g.Out, realStatus), i, nil)
			}
			if r && !e {
				add("C33", name+"-premature", fmt.Sprintf("the server disconnected (too many authentication %s) after request %d %v; the model predicts %v (%s)", kind, i+1, exp.Req, exp.Out, expStatus), i, nil)
			}
		}
		// ---------- informational: everything else the model predicts ----------
		if realStatus != expStatus && !(realStatus == "success" || expStatus == "success" || strings.HasPrefix(realStatus, "disc_") || strings.HasPrefix(expStatus, "disc_")) {
			add("", "status", fmt.Sprintf("status after %v: %s, model %s (%s)", exp.Req, realStatus, expStatus, got.Err), i, nil)
		}
		if !pktsEqual(exp.Out, g.Out) {
			add("", "packets", fmt.Sprintf("packets after %v: %v, model %v", exp.Req, g.Out, exp.Out), i, nil)
		}
		if !reflect.DeepEqual(append([]CbEv{}, exp.Cbs...), append([]CbEv{}, g.Cbs...)) {
			add("", "callbacks", fmt.Sprintf("callbacks on %v: %v, model %v", exp.Req, g.Cbs, exp.Cbs), i, nil)
		}
	}
	for _, nt := range got.Notes {
		add("", "note", nt, -1, nil)
	}
	return fs
}

// partialUser returns the user name under which the first partial success before step i was obtained.
func partialUser(hist []StepExp, i int) (string, bool) {
	for j := 0; j < i && j < len(hist); j++ {
		if f := findPkt(hist[j].Out, "FAILURE"); f != nil && f.Partial {
			return hist[j].Req.U, true
		}
	}
	return "", false
}

// finalOutcomes lists the Permissions that successful callbacks returned for the accepted
// request (PublicKeyCallback's and VerifiedPublicKeyCallback's for publickey).
func finalOutcomes(c *Cfg, st StepExp) ([]Perms, bool) {
	if st.Stage < 1 || st.Stage > len(c.Stages) {
		return nil, false
	}
	s := c.Stages[st.Stage-1]
	r := st.Req
	switch r.M {
	case "none":
		if c.HasNoneCb {
			return []Perms{c.NoneCb.Perms}, true
		}
		return nil, true
	case "password":
		return []Perms{s.Pw[r.U].Perms}, true
	case "kbdint":
		return []Perms{s.Kbd[r.U].Perms}, true
	case "pksign":
		ps := []Perms{s.Pk[r.U][r.K].Perms}
		if c.HasVerified && c.Verified[r.K].T == "accept" {
			ps = append(ps, c.Verified[r.K].Perms)
		}
		return ps, true
	}
	return nil, false
}
