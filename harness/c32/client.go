package c32

// The scripted client: real keys, real signatures (standard library crypto), and an
// independent RFC 4252 encoder for the requests and the data to be signed.

import (
	"crypto"
	"crypto/ecdsa"
	"crypto/ed25519"
	"crypto/elliptic"
	"crypto/rand"
	"crypto/rsa"
	"crypto/sha1"
	"crypto/sha256"
	"crypto/sha512"
	"encoding/binary"
	"fmt"
	"math/big"
	mrand "math/rand"
	"net"
	"sync"

	"golang.org/x/crypto/ssh"
)

// ---- wire encoding (RFC 4251 section 5) ----

func putString(b []byte, s []byte) []byte {
	b = binary.BigEndian.AppendUint32(b, uint32(len(s)))
	return append(b, s...)
}
func putStr(b []byte, s string) []byte { return putString(b, []byte(s)) }
func putBool(b []byte, v bool) []byte {
	if v {
		return append(b, 1)
	}
	return append(b, 0)
}

func getString(b []byte) (s []byte, rest []byte, ok bool) {
	if len(b) < 4 {
		return nil, nil, false
	}
	n := binary.BigEndian.Uint32(b)
	if uint64(len(b)-4) < uint64(n) {
		return nil, nil, false
	}
	return b[4 : 4+n], b[4+n:], true
}

// ---- keys ----

type keyMat struct {
	name string
	pub  ssh.PublicKey // what the client offers (a certificate for *cert1)
	blob []byte
	priv crypto.Signer
	kind string // "ed", "rsa", "ec"
}

type keySet struct {
	byName map[string]*keyMat
	byBlob map[string]string
	other  map[string]*keyMat // a different key of the same kind, for "otherKey" signatures
	sigMu  sync.Mutex
	sigs   map[string][]byte
}

func mustPub(k any) ssh.PublicKey {
	p, err := ssh.NewPublicKey(k)
	if err != nil {
		panic(err)
	}
	return p
}

func newKeySet() *keySet {
	ks := &keySet{byName: map[string]*keyMat{}, byBlob: map[string]string{}, other: map[string]*keyMat{}, sigs: map[string][]byte{}}
	add := func(name, kind string, priv crypto.Signer, pub ssh.PublicKey) *keyMat {
		m := &keyMat{name: name, pub: pub, blob: pub.Marshal(), priv: priv, kind: kind}
		ks.byName[name] = m
		ks.byBlob[string(m.blob)] = name
		return m
	}
	_, ed1, _ := ed25519.GenerateKey(rand.Reader)
	_, ed2, _ := ed25519.GenerateKey(rand.Reader)
	_, ed3, _ := ed25519.GenerateKey(rand.Reader)
	rsa1, err := rsa.GenerateKey(rand.Reader, 2048)
	if err != nil {
		panic(err)
	}
	rsa2, err := rsa.GenerateKey(rand.Reader, 2048)
	if err != nil {
		panic(err)
	}
	rsa3, err := rsa.GenerateKey(rand.Reader, 2048)
	if err != nil {
		panic(err)
	}
	ec1, _ := ecdsa.GenerateKey(elliptic.P256(), rand.Reader)
	ec2, _ := ecdsa.GenerateKey(elliptic.P256(), rand.Reader)
	_, caPriv, _ := ed25519.GenerateKey(rand.Reader)
	ca, err := ssh.NewSignerFromKey(caPriv)
	if err != nil {
		panic(err)
	}
	mkCert := func(pub ssh.PublicKey) *ssh.Certificate {
		c := &ssh.Certificate{Key: pub, Serial: 1, CertType: ssh.UserCert, KeyId: "verif", ValidPrincipals: []string{"u1", "u2"},
			ValidAfter: 0, ValidBefore: ssh.CertTimeInfinity}
		if err := c.SignCert(rand.Reader, ca); err != nil {
			panic(err)
		}
		// the server sees the parsed form
		p, err := ssh.ParsePublicKey(c.Marshal())
		if err != nil {
			panic(err)
		}
		return p.(*ssh.Certificate)
	}
	mEd1 := add("ed1", "ed", ed1, mustPub(ed1.Public()))
	mEd2 := add("ed2", "ed", ed2, mustPub(ed2.Public()))
	mRsa1 := add("rsa1", "rsa", rsa1, mustPub(rsa1.Public()))
	add("ec1", "ec", ec1, mustPub(ec1.Public()))
	add("edcert1", "ed", ed3, mkCert(mustPub(ed3.Public())))
	add("rsacert1", "rsa", rsa3, mkCert(mustPub(rsa3.Public())))
	ks.other["ed1"] = mEd2
	ks.other["ed2"] = mEd1
	ks.other["edcert1"] = mEd1
	ks.other["rsa1"] = &keyMat{name: "rsa2", priv: rsa2, kind: "rsa"}
	ks.other["rsacert1"] = mRsa1
	ks.other["ec1"] = &keyMat{name: "ec2", priv: ec2, kind: "ec"}
	return ks
}

// rawSign produces the signature blob over data with the key, hashing as the format label asks
// where the key kind supports it (RSA: ssh-rsa SHA-1, rsa-sha2-256, rsa-sha2-512).
func (ks *keySet) rawSign(m *keyMat, format string, data []byte) []byte {
	h := sha256.Sum256(data)
	ck := m.name + "|" + format + "|" + string(h[:])
	if m.kind == "rsa" { // deterministic and slow: cache
		ks.sigMu.Lock()
		s, ok := ks.sigs[ck]
		ks.sigMu.Unlock()
		if ok {
			return s
		}
	}
	var blob []byte
	switch m.kind {
	case "ed":
		blob = ed25519.Sign(m.priv.(ed25519.PrivateKey), data)
	case "rsa":
		var hh crypto.Hash
		var digest []byte
		switch format {
		case "ssh-rsa", "ssh-rsa-cert-v01@openssh.com":
			d := sha1.Sum(data)
			hh, digest = crypto.SHA1, d[:]
		case "rsa-sha2-512", "rsa-sha2-512-cert-v01@openssh.com":
			d := sha512.Sum512(data)
			hh, digest = crypto.SHA512, d[:]
		default:
			hh, digest = crypto.SHA256, h[:]
		}
		var err error
		blob, err = rsa.SignPKCS1v15(nil, m.priv.(*rsa.PrivateKey), hh, digest)
		if err != nil {
			panic(err)
		}
		ks.sigMu.Lock()
		ks.sigs[ck] = blob
		ks.sigMu.Unlock()
	case "ec":
		r, s, err := ecdsa.Sign(rand.Reader, m.priv.(*ecdsa.PrivateKey), h[:])
		if err != nil {
			panic(err)
		}
		blob = ssh.Marshal(struct{ R, S *big.Int }{r, s})
	}
	return blob
}

const serviceSSH = "ssh-connection"

// signedData is RFC 4252 section 7: the data a publickey signature covers.
func signedData(session []byte, user, service, algo string, keyBlob []byte) []byte {
	var b []byte
	b = putString(b, session)
	b = append(b, 50)
	b = putStr(b, user)
	b = putStr(b, service)
	b = putStr(b, "publickey")
	b = putBool(b, true)
	b = putStr(b, algo)
	b = putString(b, keyBlob)
	return b
}

func authRequest(user, service, method string, payload []byte) []byte {
	b := []byte{50}
	b = putStr(b, user)
	b = putStr(b, service)
	b = putStr(b, method)
	return append(b, payload...)
}

func otherUser(u string) string {
	if u == "u1" {
		return "u2"
	}
	return "u1"
}

// buildRequest encodes one abstract request as the packet a client would send.
func (ks *keySet) buildRequest(r Req, session []byte, rnd *mrand.Rand) ([]byte, error) {
	switch r.M {
	case "none":
		return authRequest(r.U, serviceSSH, "none", nil), nil
	case "unknown":
		return authRequest(r.U, serviceSSH, []string{"hostbased", "verif-unknown", ""}[rnd.Intn(3)], []byte{1, 2, 3}), nil
	case "gssapi":
		return authRequest(r.U, serviceSSH, "gssapi-with-mic", []byte{0, 0, 0, 0}), nil
	case "wrongService":
		return authRequest(r.U, []string{"ssh-userauth", "ssh-connection2", ""}[rnd.Intn(3)], "none", nil), nil
	case "badpacket":
		switch rnd.Intn(3) {
		case 0:
			return []byte{50, 0, 0, 0, 9, 'u'}, nil // truncated user name
		case 1:
			return []byte{21}, nil // NEWKEYS: wrong message type
		default:
			return []byte{5, 0, 0, 0, 12, 's', 's', 'h', '-', 'u', 's', 'e', 'r', 'a', 'u', 't', 'h'}, nil // SERVICE_REQUEST again
		}
	case "password":
		switch r.Arg {
		case "good":
			return authRequest(r.U, serviceSSH, "password", putStr([]byte{0}, "good-"+r.U)), nil
		case "bad":
			return authRequest(r.U, serviceSSH, "password", putStr([]byte{0}, "bad")), nil
		case "malformed":
			switch rnd.Intn(4) {
			case 0:
				return authRequest(r.U, serviceSSH, "password", putStr([]byte{1}, "good-"+r.U)), nil // change-password flag set
			case 1:
				return authRequest(r.U, serviceSSH, "password", append(putStr([]byte{0}, "good-"+r.U), 0)), nil // trailing byte
			case 2:
				return authRequest(r.U, serviceSSH, "password", []byte{0, 0, 0, 0, 9, 'x'}), nil // truncated string
			default:
				return authRequest(r.U, serviceSSH, "password", nil), nil // empty payload
			}
		}
	case "kbdint":
		return authRequest(r.U, serviceSSH, "keyboard-interactive", putStr(putStr(nil, ""), "")), nil
	case "pkquery", "pksign":
		var blob []byte
		var m *keyMat
		if r.K == "junk" {
			if rnd.Intn(2) == 0 {
				blob = putString(putStr(nil, "ssh-ed25519"), []byte{1, 2, 3, 4, 5}) // wrong key size
			} else {
				blob = putString(putStr(nil, "verif-no-such-key-type"), make([]byte, 32))
			}
		} else {
			m = ks.byName[r.K]
			if m == nil {
				return nil, fmt.Errorf("unknown key %q", r.K)
			}
			blob = m.blob
		}
		p := putBool(nil, r.M == "pksign")
		p = putStr(p, r.Algo)
		p = putString(p, blob)
		if r.M == "pkquery" {
			if r.Arg == "trailing" {
				p = append(p, 0, 0, 0, 0)
			}
			return authRequest(r.U, serviceSSH, "publickey", p), nil
		}
		// signature
		var sigBlob []byte
		if m == nil { // junk key: the server never gets as far as the signature
			sigBlob = make([]byte, 64)
		} else {
			sess, user, algo, signer := session, r.U, r.Algo, m
			switch r.Sig {
			case "valid", "malformed", "trailing":
			case "wrongSession":
				sess = append([]byte(nil), session...)
				switch rnd.Intn(3) {
				case 0:
					sess[len(sess)/2] ^= 0x10
				case 1:
					sess = sess[:len(sess)-1]
				default:
					sess = nil
				}
			case "otherUser":
				user = otherUser(r.U)
			case "otherAlgo":
				for _, a := range []string{"rsa-sha2-512", "ssh-ed25519-cert-v01@openssh.com", "ssh-rsa", "ssh-ed25519"} {
					if a != r.Algo {
						algo = a
						break
					}
				}
			case "otherKey":
				signer = ks.other[r.K]
			case "garbage":
			default:
				return nil, fmt.Errorf("unknown sig kind %q", r.Sig)
			}
			if r.Sig == "garbage" {
				n := 64
				if m.kind == "rsa" {
					n = 256
				}
				if m.kind == "ec" {
					sigBlob = ssh.Marshal(struct{ R, S *big.Int }{big.NewInt(rnd.Int63() + 1), big.NewInt(rnd.Int63() + 1)})
				} else {
					sigBlob = make([]byte, n)
					rnd.Read(sigBlob)
					sigBlob[0] &= 0x7f
				}
			} else {
				sigBlob = ks.rawSign(signer, r.Fmt, signedData(sess, user, serviceSSH, algo, blob))
			}
		}
		sig := putString(putStr(nil, r.Fmt), sigBlob)
		switch r.Sig {
		case "malformed":
			switch rnd.Intn(3) {
			case 0:
				sig = sig[:len(sig)-3] // blob length exceeds the data
				p = putString(p, sig)
			case 1:
				p = append(p, 0, 0, 1, 0, 7) // signature string longer than the packet
			default:
				p = putString(p, append(sig, 9, 9)) // junk inside the signature string
			}
		case "trailing":
			p = putString(p, sig)
			p = append(p, 0)
		default:
			p = putString(p, sig)
		}
		return authRequest(r.U, serviceSSH, "publickey", p), nil
	}
	return nil, fmt.Errorf("unknown request %+v", r)
}

// ---- addresses ----

type unixish struct{}

func (unixish) Network() string { return "unix" }
func (unixish) String() string  { return "/run/verif.sock" }

var addrIPs = map[string]string{"a1": "192.0.2.7", "a2": "192.0.2.99", "a3": "198.51.100.5", "b1": "2001:db8::1"}

func remoteAddr(a string, rnd *mrand.Rand) net.Addr {
	switch a {
	case "none":
		return nil
	case "unix":
		if rnd.Intn(2) == 0 {
			return &net.UnixAddr{Name: "/run/verif.sock", Net: "unix"}
		}
		return unixish{}
	}
	ip := net.ParseIP(addrIPs[a])
	if ip4 := ip.To4(); ip4 != nil && rnd.Intn(2) == 0 {
		ip = ip4 // 4-byte form; otherwise the 16-byte IPv4-in-IPv6 form, as a dual-stack listener reports it
	}
	return &net.TCPAddr{IP: ip, Port: 1024 + rnd.Intn(60000)}
}

func srcEntry(e string, rnd *mrand.Rand) string {
	switch e {
	case "ip_a1", "ip_a2", "ip_a3", "ip_b1":
		return addrIPs[e[3:]]
	case "net_n1":
		return []string{"192.0.2.0/24", "192.0.2.0/25", "192.0.0.0/16"}[rnd.Intn(3)]
	case "net_n2":
		return []string{"198.51.100.0/24", "198.51.100.5/32"}[rnd.Intn(2)]
	case "net_m1":
		return []string{"2001:db8::/32", "2001:db8::1/128"}[rnd.Intn(2)]
	case "bad":
		return []string{"not-an-address", "192.0.2.0/33", "300.1.1.1", "192.0.2.7/", "*"}[rnd.Intn(5)]
	case "empty":
		return ""
	}
	panic("unknown source-address entry " + e)
}
