// Package vutil holds helpers shared by the conformance harnesses: reading
// TLC-generated cases (ndjson), writing results, and seeded randomness.
package vutil

import (
	"bufio"
	"encoding/json"
	"fmt"
	"math/rand"
	"os"
	"strconv"
)

// Seed returns VERIF_SEED (default 1).
func Seed() int64 {
	if s := os.Getenv("VERIF_SEED"); s != "" {
		if v, err := strconv.ParseInt(s, 10, 64); err == nil {
			return v
		}
	}
	return 1
}

// Rand returns a rand.Rand seeded from VERIF_SEED and a per-use salt.
func Rand(salt int64) *rand.Rand { return rand.New(rand.NewSource(Seed()*1000003 + salt)) }

// Thorough reports whether VERIF_TIER=thorough.
func Thorough() bool { return os.Getenv("VERIF_TIER") == "thorough" }

// ReadNDJSON calls f for every line of the ndjson file at path.
func ReadNDJSON(path string, f func(line []byte) error) error {
	fh, err := os.Open(path)
	if err != nil {
		return err
	}
	defer fh.Close()
	sc := bufio.NewScanner(fh)
	sc.Buffer(make([]byte, 1<<20), 1<<28)
	n := 0
	for sc.Scan() {
		n++
		b := sc.Bytes()
		if len(b) == 0 {
			continue
		}
		if err := f(b); err != nil {
			return fmt.Errorf("line %d: %w", n, err)
		}
	}
	return sc.Err()
}

// Out is the result file of a harness run (VERIF_OUT): one JSON object.
type Out struct {
	Evaluations int              `json:"evaluations"`
	Distinct    int              `json:"distinct"`
	Violations  []map[string]any `json:"violations"`
	Known       []map[string]any `json:"known"`
	Samples     []any            `json:"samples"`
	Extra       map[string]any   `json:"extra"`
	seen        map[string]bool
}

func NewOut() *Out {
	return &Out{Extra: map[string]any{}, seen: map[string]bool{}}
}

// Case counts one evaluation; key identifies distinct non-trivial cases ("" = trivial).
func (o *Out) Case(key string) {
	o.Evaluations++
	if key != "" && !o.seen[key] {
		o.seen[key] = true
		o.Distinct++
	}
}

// Sample records up to 5 sample cases.
func (o *Out) Sample(v any) {
	if len(o.Samples) < 5 {
		o.Samples = append(o.Samples, v)
	}
}

// Violation records a property violation exhibited by the real code.
// sig is a stable signature matched against known_findings.json.
func (o *Out) Violation(sig, what string, detail any) {
	if len(o.Violations) < 50 {
		o.Violations = append(o.Violations, map[string]any{"sig": sig, "what": what, "detail": detail})
	}
}

// Write stores the result at VERIF_OUT.
func (o *Out) Write() error {
	p := os.Getenv("VERIF_OUT")
	if p == "" {
		return fmt.Errorf("VERIF_OUT not set")
	}
	b, err := json.Marshal(o)
	if err != nil {
		return err
	}
	return os.WriteFile(p, b, 0o644)
}

// Env returns the environment variable or a default.
func Env(k, def string) string {
	if v := os.Getenv(k); v != "" {
		return v
	}
	return def
}
