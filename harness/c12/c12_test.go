// Binding R for C12: every (cipher, key length, aux, in-place) case TLC enumerated from
// spec/BlockCipherLaws_MC.tla is run on the REAL constructors and Encrypt/Decrypt methods of
// blowfish, twofish, cast5, tea, xtea and the PKCS#12 RC2 cipher (hook pkcs12.VerifRC2New):
// acceptance must equal the documented table, accepted ciphers must be permutations with
// Decrypt the inverse of Encrypt (in place and out of place, neighbours untouched), TEA/XTEA
// ciphertexts must equal the values TLC evaluated from spec/PrimTea.tla.  TestKAT runs the
// published vectors (RFC 2268 for RC2, the Twofish submission's ecb_ival / ecb_tbl chains).
// Samples for the external references (OpenSSL legacy provider, python cryptography) are written
// to VERIF_C12_SAMPLES.
package c12

import (
	"bytes"
	"crypto/cipher"
	"encoding/hex"
	"encoding/json"
	"fmt"
	"os"
	"testing"

	"golang.org/x/crypto/blowfish"
	"golang.org/x/crypto/cast5"
	"golang.org/x/crypto/pkcs12"
	"golang.org/x/crypto/tea"
	"golang.org/x/crypto/twofish"
	"golang.org/x/crypto/xtea"
	"verif/harness/vutil"
)

type vecT struct {
	Key []int `json:"key"`
	Pt  []int `json:"pt"`
	Ct  []int `json:"ct"`
}
type tcase struct {
	Cipher    string `json:"cipher"`
	KeyLen    int    `json:"keyLen"`
	Aux       int    `json:"aux"`
	InPlace   bool   `json:"inplace"`
	Defined   bool   `json:"defined"`
	Accept    bool   `json:"accept"`
	BlockSize int    `json:"blockSize"`
	Vecs      []vecT `json:"vecs"`
}

func bs(x []int) []byte {
	b := make([]byte, len(x))
	for i, v := range x {
		b[i] = byte(v)
	}
	return b
}

// block is the part of cipher.Block all seven constructors give
type block interface {
	BlockSize() int
	Encrypt(dst, src []byte)
	Decrypt(dst, src []byte)
}

func construct(c string, key []byte, aux int, salt []byte) (b block, err error, pan string) {
	defer func() {
		if e := recover(); e != nil {
			b, err, pan = nil, nil, fmt.Sprint(e)
		}
	}()
	switch c {
	case "blowfish":
		x, e := blowfish.NewCipher(key)
		if e != nil {
			return nil, e, ""
		}
		return x, nil, ""
	case "blowfish-salted":
		x, e := blowfish.NewSaltedCipher(key, salt)
		if e != nil {
			return nil, e, ""
		}
		return x, nil, ""
	case "twofish":
		x, e := twofish.NewCipher(key)
		if e != nil {
			return nil, e, ""
		}
		return x, nil, ""
	case "cast5":
		x, e := cast5.NewCipher(key)
		if e != nil {
			return nil, e, ""
		}
		return x, nil, ""
	case "tea":
		var x cipher.Block
		var e error
		if aux == 64 && len(key)%2 == 0 { // the standard-rounds constructor on half of the keys
			x, e = tea.NewCipher(key)
		} else {
			x, e = tea.NewCipherWithRounds(key, aux)
		}
		if e != nil {
			return nil, e, ""
		}
		return x, nil, ""
	case "xtea":
		x, e := xtea.NewCipher(key)
		if e != nil {
			return nil, e, ""
		}
		return x, nil, ""
	case "rc2":
		x, e := pkcs12.VerifRC2New(key, aux)
		if e != nil {
			return nil, e, ""
		}
		return x, nil, ""
	}
	return nil, fmt.Errorf("unknown cipher %s", c), ""
}

type sample struct {
	Cipher string `json:"cipher"`
	Key    string `json:"key"`
	Aux    int    `json:"aux"`
	Pt     string `json:"pt"` // concatenated blocks
	Ct     string `json:"ct"`
}

// laws runs n random blocks through b; returns a description of the first broken law, or "".
func laws(b block, bsz, n int, inplace bool, salt int64) (string, map[string]any) {
	rng := vutil.Rand(salt)
	const guard = 5
	buf := make([]byte, bsz+2*guard)
	pt, ct, back, keep := make([]byte, bsz), make([]byte, bsz), make([]byte, bsz), make([]byte, bsz)
	for i := 0; i < n; i++ {
		switch {
		case i == 0:
			for j := range pt {
				pt[j] = 0
			}
		case i == 1:
			for j := range pt {
				pt[j] = 0xff
			}
		default:
			rng.Read(pt)
		}
		copy(keep, pt)
		// out of place, destination inside a larger buffer with guard bytes
		for j := range buf {
			buf[j] = 0xA5
		}
		dst := buf[guard : guard+bsz]
		b.Encrypt(dst, pt)
		copy(ct, dst)
		d := map[string]any{"pt": hex.EncodeToString(keep), "ct": hex.EncodeToString(ct)}
		if !bytes.Equal(pt, keep) {
			return "Encrypt(dst, src) with dst != src changed src", d
		}
		for j := 0; j < guard; j++ {
			if buf[j] != 0xA5 || buf[guard+bsz+j] != 0xA5 {
				return "Encrypt wrote outside the destination block", d
			}
		}
		b.Decrypt(back, ct)
		if !bytes.Equal(back, keep) {
			d["got"] = hex.EncodeToString(back)
			return "Decrypt(Encrypt(x)) != x", d
		}
		// the other composition: Encrypt(Decrypt(y)) = y (Encrypt is onto)
		b.Decrypt(back, pt)
		b.Encrypt(dst, back)
		if !bytes.Equal(dst, keep) {
			d["got"] = hex.EncodeToString(dst)
			return "Encrypt(Decrypt(y)) != y", d
		}
		if inplace {
			copy(dst, keep)
			b.Encrypt(dst, dst)
			if !bytes.Equal(dst, ct) {
				d["got"] = hex.EncodeToString(dst)
				return "Encrypt in place (dst == src) differs from Encrypt out of place", d
			}
			b.Decrypt(dst, dst)
			if !bytes.Equal(dst, keep) {
				d["got"] = hex.EncodeToString(dst)
				return "Decrypt in place (dst == src) does not restore the block", d
			}
			for j := 0; j < guard; j++ {
				if buf[j] != 0xA5 || buf[guard+bsz+j] != 0xA5 {
					return "in-place operation wrote outside the block", d
				}
			}
		}
	}
	return "", nil
}

func TestCases(t *testing.T) {
	out := vutil.NewOut()
	defer func() {
		if err := out.Write(); err != nil {
			t.Fatal(err)
		}
	}()
	nBlocks, nKeys := 1000, 2
	if vutil.Thorough() {
		nBlocks, nKeys = 30000, 4
	}
	var samples []sample
	sampled := map[string]bool{}
	undefinedProbe := map[string]string{}
	vecsChecked, blocks := 0, 0
	idx := 0
	err := vutil.ReadNDJSON(vutil.Env("VERIF_CASES", ""), func(line []byte) error {
		var c tcase
		if err := json.Unmarshal(line, &c); err != nil {
			return err
		}
		idx++
		id := fmt.Sprintf("%s|%d|%d|%v", c.Cipher, c.KeyLen, c.Aux, c.InPlace)
		viol := func(sig, what string, extra map[string]any) {
			d := map[string]any{"case": c}
			for k, v := range extra {
				d[k] = v
			}
			out.Violation(sig, what, d)
			t.Errorf("%s: %s: %s %v", sig, what, id, extra)
		}
		rng := vutil.Rand(int64(12000 + idx))
		for ki := 0; ki < nKeys; ki++ {
			key := make([]byte, c.KeyLen)
			rng.Read(key)
			if ki == 1 { // one degenerate key per case
				for j := range key {
					key[j] = 0
				}
			}
			var salt []byte
			if c.Cipher == "blowfish-salted" {
				salt = make([]byte, c.Aux)
				rng.Read(salt)
			}
			b, err, pan := construct(c.Cipher, key, c.Aux, salt)
			if !c.Defined { // outside the constructor's domain (RC2 only): recorded, not judged
				r := "accepted"
				if pan != "" {
					r = "panic: " + pan
				} else if err != nil {
					r = "error: " + err.Error()
				}
				undefinedProbe[fmt.Sprintf("rc2 keyLen=%d t1=%d", c.KeyLen, c.Aux)] = r
				out.Case("")
				break
			}
			out.Case(id + fmt.Sprint("|", ki))
			kd := map[string]any{"key": hex.EncodeToString(key), "salt": hex.EncodeToString(salt)}
			switch {
			case pan != "":
				viol("c12-constructor-panics:"+c.Cipher, "the constructor panicked: "+pan, kd)
				continue
			case c.Accept && err != nil:
				viol("c12-rejects-documented-key:"+c.Cipher, "the constructor rejected a key/parameter the documentation allows: "+err.Error(), kd)
				continue
			case !c.Accept && err == nil:
				viol("c12-accepts-undocumented-key:"+c.Cipher, "the constructor accepted a key/parameter the documentation excludes", kd)
				continue
			case !c.Accept:
				continue
			}
			if b.BlockSize() != c.BlockSize {
				viol("c12-blocksize:"+c.Cipher, fmt.Sprintf("BlockSize() = %d", b.BlockSize()), kd)
			}
			var what string
			var d map[string]any
			func() {
				defer func() {
					if e := recover(); e != nil {
						what, d = "Encrypt/Decrypt panicked: "+fmt.Sprint(e), map[string]any{}
					}
				}()
				what, d = laws(b, c.BlockSize, nBlocks, c.InPlace, int64(idx*10+ki))
				if what == "" && c.Cipher == "blowfish-salted" && c.Aux > 0 {
					// ExpandKey on a set-up cipher (what bcrypt does): still a permutation with Decrypt its inverse
					bc := b.(*blowfish.Cipher)
					for r := 0; r < 3; r++ {
						blowfish.ExpandKey(key, bc)
						blowfish.ExpandKey(salt, bc)
					}
					what, d = laws(bc, c.BlockSize, nBlocks/4+2, c.InPlace, int64(idx*10+ki+5))
					if what != "" {
						what = "after ExpandKey: " + what
					}
				}
			}()
			blocks += nBlocks
			if what != "" {
				for k, v := range kd {
					d[k] = v
				}
				viol("c12-law-broken:"+c.Cipher, what, d)
				continue
			}
			// reference samples (one key per (cipher, key length, aux))
			sk := fmt.Sprintf("%s|%d|%d", c.Cipher, c.KeyLen, c.Aux)
			if ki == 0 && !sampled[sk] && (c.Cipher == "blowfish" || c.Cipher == "cast5" || c.Cipher == "rc2") {
				sampled[sk] = true
				pt := make([]byte, 8*c.BlockSize)
				rng.Read(pt)
				ct := make([]byte, len(pt))
				for o := 0; o < len(pt); o += c.BlockSize {
					b.Encrypt(ct[o:o+c.BlockSize], pt[o:o+c.BlockSize])
				}
				samples = append(samples, sample{c.Cipher, hex.EncodeToString(key), c.Aux, hex.EncodeToString(pt), hex.EncodeToString(ct)})
			}
		}
		// TEA / XTEA against the executable definitions
		for _, v := range c.Vecs {
			key, pt, ct := bs(v.Key), bs(v.Pt), bs(v.Ct)
			b, err, pan := construct(c.Cipher, key, c.Aux, nil)
			if err != nil || pan != "" {
				viol("c12-rejects-documented-key:"+c.Cipher, "the constructor rejected a 16-byte key: "+pan+fmt.Sprint(err), nil)
				break
			}
			got, back := make([]byte, 8), make([]byte, 8)
			b.Encrypt(got, pt)
			b.Decrypt(back, ct)
			vecsChecked++
			out.Case(fmt.Sprintf("vec|%s|%d|%x|%x", c.Cipher, c.Aux, key, pt))
			if !bytes.Equal(got, ct) || !bytes.Equal(back, pt) {
				viol("c12-differs-from-reference:"+c.Cipher, "Encrypt/Decrypt differs from the reference algorithm (TLC evaluation of PrimTea)",
					map[string]any{"key": hex.EncodeToString(key), "pt": hex.EncodeToString(pt), "want_ct": hex.EncodeToString(ct), "got_ct": hex.EncodeToString(got), "got_pt": hex.EncodeToString(back)})
				break
			}
		}
		out.Sample(map[string]any{"cipher": c.Cipher, "keyLen": c.KeyLen, "aux": c.Aux, "inplace": c.InPlace, "accept": c.Accept})
		return nil
	})
	if err != nil {
		t.Fatal(err)
	}
	out.Extra["tea_xtea_vectors_from_tlc_compared"] = vecsChecked
	out.Extra["random_blocks_per_key"] = nBlocks
	out.Extra["blocks_through_laws"] = blocks
	out.Extra["rc2_outside_rfc2268_domain_informational"] = undefinedProbe
	// informational: blowfish.ExpandKey with an empty key (no error result, not documented)
	func() {
		defer func() {
			if e := recover(); e != nil {
				out.Extra["blowfish_ExpandKey_empty_key_informational"] = "panic: " + fmt.Sprint(e)
			}
		}()
		c, _ := blowfish.NewCipher([]byte{1})
		blowfish.ExpandKey(nil, c)
		out.Extra["blowfish_ExpandKey_empty_key_informational"] = "returned"
	}()
	if p := os.Getenv("VERIF_C12_SAMPLES"); p != "" {
		var buf bytes.Buffer
		for _, s := range samples {
			b, _ := json.Marshal(s)
			buf.Write(b)
			buf.WriteByte('\n')
		}
		os.WriteFile(p, buf.Bytes(), 0o644)
	}
}

func unhex(s string) []byte {
	b, err := hex.DecodeString(s)
	if err != nil {
		panic(err)
	}
	return b
}

// TestKAT: published vectors.
func TestKAT(t *testing.T) {
	out := vutil.NewOut()
	defer func() {
		if err := out.Write(); err != nil {
			t.Fatal(err)
		}
	}()
	fail := func(sig, what string, d map[string]any) {
		out.Violation(sig, what, d)
		t.Errorf("%s: %s %v", sig, what, d)
	}
	// RFC 2268 section 5
	rc2 := []struct {
		key, pt, ct string
		t1          int
	}{
		{"0000000000000000", "0000000000000000", "ebb773f993278eff", 63},
		{"ffffffffffffffff", "ffffffffffffffff", "278b27e42e2f0d49", 64},
		{"3000000000000000", "1000000000000001", "30649edf9be7d2c2", 64},
		{"88", "0000000000000000", "61a8a244adacccf0", 64},
		{"88bca90e90875a", "0000000000000000", "6ccf4308974c267f", 64},
		{"88bca90e90875a7f0f79c384627bafb2", "0000000000000000", "1a807d272bbe5db1", 64},
		{"88bca90e90875a7f0f79c384627bafb2", "0000000000000000", "2269552ab0f85ca6", 128},
		{"88bca90e90875a7f0f79c384627bafb216f80a6f85920584c42fceb0be255daf1e", "0000000000000000", "5b78d3a43dfff1f1", 129},
	}
	for _, v := range rc2 {
		b, err, pan := construct("rc2", unhex(v.key), v.t1, nil)
		out.Case("rc2|" + v.key + fmt.Sprint(v.t1))
		if err != nil || pan != "" {
			fail("c12-differs-from-reference:rc2", "RFC 2268 vector: constructor failed", map[string]any{"key": v.key, "t1": v.t1})
			continue
		}
		got, back := make([]byte, 8), make([]byte, 8)
		b.Encrypt(got, unhex(v.pt))
		b.Decrypt(back, unhex(v.ct))
		if hex.EncodeToString(got) != v.ct || hex.EncodeToString(back) != v.pt {
			fail("c12-differs-from-reference:rc2", "RC2 differs from the RFC 2268 test vector", map[string]any{"key": v.key, "t1": v.t1, "got": hex.EncodeToString(got), "want": v.ct})
		}
	}
	// Twofish submission: ecb_ival.txt single vectors and the ecb_tbl.txt chains (49 dependent keys per key size)
	ival := []struct{ key, ct string }{
		{"00000000000000000000000000000000", "9f589f5cf6122c32b6bfec2f2ae8c35a"},
		{"0123456789abcdeffedcba98765432100011223344556677", "cfd1d2e5a9be9cdf501f13b892bd2248"},
		{"0123456789abcdeffedcba987654321000112233445566778899aabbccddeeff", "37527be0052334b89f0cfccae87cfa20"},
	}
	for _, v := range ival {
		c, err := twofish.NewCipher(unhex(v.key))
		out.Case("twofish-ival|" + v.key)
		if err != nil {
			fail("c12-differs-from-reference:twofish", "constructor failed on a published vector", map[string]any{"key": v.key})
			continue
		}
		got := make([]byte, 16)
		c.Encrypt(got, make([]byte, 16))
		if hex.EncodeToString(got) != v.ct {
			fail("c12-differs-from-reference:twofish", "Twofish differs from ecb_ival.txt", map[string]any{"key": v.key, "got": hex.EncodeToString(got), "want": v.ct})
		}
	}
	tbl := map[int]string{16: "5d9d4eeffa9151575524f115815a12e0", 24: "e75449212beef9f4a390bd860a640941", 32: "37fe26ff1cf66175f5ddf4c33b97a205"}
	for _, kl := range []int{16, 24, 32} {
		// KEY_1 = 0, PT_1 = 0; CT_i = E(KEY_i, PT_i); PT_{i+1} = CT_i; KEY_{i+1} = (CT_{i-1} || CT_{i-2})[:kl] with CT_0 = CT_{-1} = 0
		prev1, prev2 := make([]byte, 16), make([]byte, 16) // CT_{i-1}, CT_{i-2}
		pt := make([]byte, 16)
		var ct []byte
		for i := 1; i <= 49; i++ {
			key := append(append([]byte{}, prev1...), prev2...)[:kl]
			c, err := twofish.NewCipher(key)
			if err != nil {
				t.Fatal(err)
			}
			ct = make([]byte, 16)
			c.Encrypt(ct, pt)
			back := make([]byte, 16)
			c.Decrypt(back, ct)
			if !bytes.Equal(back, pt) {
				fail("c12-law-broken:twofish", "Decrypt(Encrypt(x)) != x in the ecb_tbl chain", map[string]any{"key": hex.EncodeToString(key)})
			}
			prev2 = prev1
			prev1 = pt
			pt = ct
			_ = i
		}
		out.Case(fmt.Sprint("twofish-tbl|", kl))
		if hex.EncodeToString(ct) != tbl[kl] {
			fail("c12-differs-from-reference:twofish", "Twofish differs from the 49th entry of the ecb_tbl.txt chain", map[string]any{"keyLen": kl, "got": hex.EncodeToString(ct), "want": tbl[kl]})
		}
	}
}
