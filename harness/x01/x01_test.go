// Binding R for X01 (SSH session layer, spec/SSHSession.tla).
//
// Every history TLC generated (client calls / Stdin reader events interleaved with server
// actions, with the model's per-step prediction) is replayed on a REAL ssh.Session whose peer is a
// real server-side mux + channel driven by this harness.  Each history runs in its own
// testing/synctest bubble: after every event synctest.Wait() returns only when every goroutine is
// durably blocked, so the control packets the client wrote, the calls that returned (with their
// result class, exit status, signal), the bytes delivered to the configured writers / pipes /
// returned by Output, the stdin bytes the server read and the answer to the server's keepalive are
// read at a deterministic quiescent point and compared with the prediction.  At the end the
// connection is dropped and the final results are compared.  The replay runs in a child process
// (the same test binary): a panic or a goroutine left blocked inside package ssh kills the child,
// the parent turns the crash into a violation for the history that was running and restarts
// after it.
package x01

import (
	"bufio"
	"bytes"
	"encoding/json"
	"fmt"
	"os"
	"os/exec"
	"reflect"
	"regexp"
	"sort"
	"strconv"
	"strings"
	"sync"
	"testing"
	"testing/synctest"

	"verif/harness/vutil"
)

type evT struct {
	K string `json:"k"`
	V string `json:"v"`
	X int    `json:"x"`
}

type resT struct {
	C   string `json:"c"`
	St  int    `json:"st"`
	Sig string `json:"sig"`
}

type stepT struct {
	Ev     evT               `json:"ev"`
	Out    []string          `json:"out"`
	Done   []json.RawMessage `json:"done"`
	Go     []int             `json:"go"`
	Ge     []int             `json:"ge"`
	Om     string            `json:"om"`
	Em     string            `json:"em"`
	Ow     int               `json:"ow"`
	Ew     int               `json:"ew"`
	Si     []int             `json:"si"`
	Ka     string            `json:"ka"`
	Closed bool              `json:"closed"`
	Race   bool              `json:"race"`
	Kf     bool              `json:"kf"`
}

type caseT struct {
	Cfg struct {
		Stdin string `json:"stdin"`
		Outs  string `json:"outs"`
	} `json:"cfg"`
	Steps []stepT `json:"steps"`
	Final struct {
		Done    []json.RawMessage `json:"done"`
		Pending []int             `json:"pending"`
		Go      []int             `json:"go"`
		Ge      []int             `json:"ge"`
		Ka      string            `json:"ka"`
		Race    bool              `json:"race"`
		Kf      bool              `json:"kf"`
	} `json:"final"`
}

type mismatch struct {
	Step   int    `json:"step"`
	What   string `json:"what"`
	Got    any    `json:"got"`
	Want   any    `json:"want"`
	Events []evT  `json:"events"`
}

// normWant maps the model's result to the level at which results are compared: error values
// other than *ExitError / *ExitMissingError are one class.
func normWant(r resT) callRes {
	switch r.C {
	case "err", "malformed", "copyerr", "false-env":
		return callRes{C: "other"}
	}
	return callRes{C: r.C, St: r.St, Sig: r.Sig}
}

func wantDone(raw []json.RawMessage) (map[int]resT, error) {
	m := map[int]resT{}
	for _, r := range raw {
		var pair []json.RawMessage
		if err := json.Unmarshal(r, &pair); err != nil || len(pair) != 2 {
			return nil, fmt.Errorf("bad done entry %s", r)
		}
		var c int
		var res resT
		if json.Unmarshal(pair[0], &c) != nil || json.Unmarshal(pair[1], &res) != nil {
			return nil, fmt.Errorf("bad done entry %s", r)
		}
		m[c] = res
	}
	return m, nil
}

var serverKinds = map[string]bool{"sreply": true, "sdata": true, "seof": true, "sexit": true, "sexitbad": true, "ssig": true,
	"ssigbad": true, "ska": true, "sclose": true, "sdrop": true}

func isClientEvent(k string) bool { return !serverKinds[k] }

// server events that a server program performs back to back without waiting for the client.  A reply
// needs the request to have arrived, and a want-reply keepalive blocks the server until it is
// answered (two of them in flight would contend for the channel's request mutex, which is not a
// durable block for synctest), so those two are always run to quiescence on their own.
// A connection loss (sdrop) is never sent right behind data in one burst: output still in flight when the
// connection dies may be lost (the client's window adjustment fails on the dead connection and aborts the
// copy) -- the documented guarantees cover a channel that is closed, not a connection that disappears.
var burstKinds = map[string]bool{"sdata": true, "seof": true, "sexit": true, "sexitbad": true, "ssig": true, "ssigbad": true,
	"sclose": true, "sdrop": true}

func noFail(q []string) []string {
	r := []string{}
	for _, x := range q {
		if x != "fail" {
			r = append(r, x)
		}
	}
	return r
}

func short(b []byte) string {
	if len(b) <= 24 {
		return fmt.Sprintf("%d bytes %x", len(b), b)
	}
	return fmt.Sprintf("%d bytes %x..%x", len(b), b[:12], b[len(b)-8:])
}

func firstDiff(a, b []byte) int {
	n := len(a)
	if len(b) < n {
		n = len(b)
	}
	for i := 0; i < n; i++ {
		if a[i] != b[i] {
			return i
		}
	}
	return n
}

func cmpBytes(what string, got, want []byte) *mismatch {
	if bytes.Equal(got, want) {
		return nil
	}
	return &mismatch{What: what, Got: short(got) + fmt.Sprintf(" (first difference at offset %d)", firstDiff(got, want)), Want: short(want)}
}

// kinds of the calls of a history, by call index (1-based), derived from the events
type callInfo struct{ k, v string }

// compareStep compares the quiescent state of the world with the model's step.
// mode: cmpFull after a single event; cmpFinal after the connection was dropped; cmpBurst after
// several server events executed back to back (only what does not depend on the timing inside the
// burst is compared: results of calls, delivered bytes, stdin at the server).
const (
	cmpFull = iota
	cmpFinal
	cmpBurst
)

func (w *world) compareStep(st *stepT, calls []callInfo, wantD map[int]resT, mode int) *mismatch {
	finalStep := mode == cmpFinal
	w.mu.Lock()
	out := w.out
	w.out = nil
	done := w.done
	w.done = map[int]callRes{}
	ka := strings.Join(w.ka, ",")
	w.ka = nil
	srvIn := append([]byte(nil), w.srvIn...)
	pendW := w.pendW
	srvErr := append([]string(nil), w.srvErr...)
	ret := map[int][]byte{}
	for k, v := range w.ret {
		ret[k] = v
	}
	snap := map[int][2]int{}
	for k, v := range w.snap {
		snap[k] = v
	}
	w.mu.Unlock()
	if len(srvErr) > 0 {
		return &mismatch{What: "server side: " + srvErr[0], Got: srvErr}
	}
	if pendW != 0 {
		return &mismatch{What: "a server Write of one chunk (at most 71000 bytes, window 2 MiB) did not complete", Got: pendW, Want: 0}
	}
	if mode == cmpBurst {
		// order and presence of control packets inside a burst depend on timing
	} else if !finalStep {
		want := st.Out
		if st.Kf {
			// Session.wait has returned early (malformed exit-*): whether later keepalives are still answered is not
			// compared (code as it is: no; repaired code: yes) -- see SSHSession.Unserviced
			out, want = noFail(out), noFail(want)
		}
		st = &stepT{Ev: st.Ev, Out: want, Done: st.Done, Go: st.Go, Ge: st.Ge, Om: st.Om, Em: st.Em, Ow: st.Ow, Ew: st.Ew, Si: st.Si,
			Ka: st.Ka, Closed: st.Closed, Race: st.Race, Kf: st.Kf}
		if len(out) != len(st.Out) || (len(out) > 0 && !reflect.DeepEqual(out, st.Out)) {
			return &mismatch{What: "control packets written by the client", Got: out, Want: st.Out}
		}
	} else if len(out) != 0 {
		return &mismatch{What: "control packets written by the client after the connection was dropped", Got: out, Want: []string{}}
	}
	// calls that returned
	gotD := map[int]callRes{}
	errTexts := map[int]string{}
	for c, r := range done {
		if r.Note != "" {
			return &mismatch{What: fmt.Sprintf("call %d (%s): %s", c, calls[c-1].k, r.Note)}
		}
		gotD[c] = callRes{C: r.C, St: r.St, Sig: r.Sig}
		if r.Err != "" {
			errTexts[c] = r.Err
		}
	}
	wantN := map[int]callRes{}
	for c, r := range wantD {
		n := normWant(r)
		if c-1 < len(calls) && calls[c-1].k == "reqwr" && calls[c-1].v != "raw" && n.C == "false" {
			n = callRes{C: "other"} // Setenv / RequestPty / RequestSubsystem turn a failure reply into an error
		}
		wantN[c] = n
	}
	if st.Race {
		// connection lost while the stdin copy still had to CloseWrite (SSHSession.TakeExit): an I/O error may replace nil
		for c, r := range wantN {
			if g, ok := gotD[c]; ok && r.C == "nil" && g.C == "other" {
				wantN[c] = g
			}
		}
	}
	if len(gotD) != len(wantN) || (len(wantN) > 0 && !reflect.DeepEqual(gotD, wantN)) {
		return &mismatch{What: "calls that returned (call -> result class, exit status, signal)", Got: map[string]any{"results": gotD, "error texts": errTexts}, Want: wantN}
	}
	// bytes returned by Output / CombinedOutput
	for c := range gotD {
		k := calls[c-1].k
		if k != "output" && k != "combined" {
			continue
		}
		var wo, we []byte
		if st.Om == "copy" && st.Ow == c {
			wo = tokensBytes(st.Go, w.salt, false)
		}
		if st.Em == "copy" && st.Ew == c {
			we = tokensBytes(st.Ge, w.salt, true)
		}
		if k == "output" {
			if mm := cmpBytes(fmt.Sprintf("bytes returned by Output (call %d)", c), ret[c], wo); mm != nil {
				return mm
			}
		} else {
			if mm := cmpBytes(fmt.Sprintf("stdout part of the bytes returned by CombinedOutput (call %d)", c), project(ret[c], false), wo); mm != nil {
				return mm
			}
			if mm := cmpBytes(fmt.Sprintf("stderr part of the bytes returned by CombinedOutput (call %d)", c), project(ret[c], true), we); mm != nil {
				return mm
			}
		}
	}
	// delivered output
	var uo, ue, po, pe []byte
	if st.Om == "copy" && st.Ow == -1 {
		uo = tokensBytes(st.Go, w.salt, false)
	}
	if st.Em == "copy" && st.Ew == -1 {
		ue = tokensBytes(st.Ge, w.salt, true)
	}
	if st.Om == "pipe" {
		po = tokensBytes(st.Go, w.salt, false)
	}
	if st.Em == "pipe" {
		pe = tokensBytes(st.Ge, w.salt, true)
	}
	for _, c := range []struct {
		what      string
		got, want []byte
	}{
		{"bytes delivered to Session.Stdout", w.userOut.Bytes(), uo},
		{"bytes delivered to Session.Stderr", w.userErr.Bytes(), ue},
		{"bytes read from StdoutPipe", w.pipeOut.Bytes(), po},
		{"bytes read from StderrPipe", w.pipeErr.Bytes(), pe},
	} {
		if mm := cmpBytes(c.what, c.got, c.want); mm != nil {
			return mm
		}
	}
	// S2 at the moment of return: what Wait / Run found in the writers when it returned
	for c := range gotD {
		if k := calls[c-1].k; k == "wait" || k == "run" {
			sn, ok := snap[c]
			if !ok {
				continue
			}
			if sn[0] != len(uo) || sn[1] != len(ue) {
				return &mismatch{What: fmt.Sprintf("bytes present in Session.Stdout / Session.Stderr at the moment %s (call %d) returned", k, c),
					Got: []int{sn[0], sn[1]}, Want: []int{len(uo), len(ue)}}
			}
		}
	}
	if !finalStep {
		if mm := cmpBytes("stdin bytes read by the server", srvIn, tokensBytes(st.Si, w.salt+7, false)); mm != nil {
			return mm
		}
	}
	if mode != cmpBurst && !st.Kf && ka != st.Ka {
		return &mismatch{What: "result of the server's want-reply keepalive request", Got: ka, Want: st.Ka}
	}
	return nil
}

// replayIn runs one history in its own bubble.  burst: consecutive server events are executed back
// to back (as a real server does: data, EOF, exit-status, close in one go) and compared once.
func replayIn(t *testing.T, c *caseT, salt int64, burst bool) (mm *mismatch, infra error) {
	synctest.Test(t, func(t *testing.T) {
		w, err := newWorld(c.Cfg.Stdin, c.Cfg.Outs, salt, quiesce)
		defer w.release(quiesce)
		if err != nil {
			infra = err
			return
		}
		w.syncWrites = burst
		var evs []evT
		var calls []callInfo
		tok := 0
		var last *stepT
		acc := map[int]resT{}
		inBurst, dataInBurst := false, false
		for i := range c.Steps {
			st := &c.Steps[i]
			last = st
			evs = append(evs, st.Ev)
			if isClientEvent(st.Ev.K) {
				if st.Ev.K != "feed" && st.Ev.K != "feedeof" && st.Ev.K != "feederr" {
					calls = append(calls, callInfo{st.Ev.K, st.Ev.V})
				}
				err = w.clientEvent(st.Ev.K, st.Ev.V)
			} else {
				if st.Ev.K == "sdata" {
					tok++
				}
				err = w.serverEvent(st.Ev.K, st.Ev.V, st.Ev.X, tok)
			}
			if err != nil {
				mm = &mismatch{Step: i, What: "the event could not be executed as the model expects: " + err.Error(), Events: evs}
				return
			}
			want, err := wantDone(st.Done)
			if err != nil {
				infra = err
				return
			}
			if st.Ev.K == "sdata" {
				dataInBurst = true
			}
			if burst && burstKinds[st.Ev.K] && i+1 < len(c.Steps) && burstKinds[c.Steps[i+1].Ev.K] &&
				!(dataInBurst && c.Steps[i+1].Ev.K == "sdrop") {
				for k, v := range want {
					acc[k] = v
				}
				inBurst = true
				continue
			}
			quiesce()
			mode := cmpFull
			if inBurst {
				mode = cmpBurst
				for k, v := range want {
					acc[k] = v
				}
				want = acc
			}
			if m := w.compareStep(st, calls, want, mode); m != nil {
				m.Step, m.Events = i, evs
				if inBurst {
					m.What = "after a burst of server events: " + m.What
				}
				mm = m
				return
			}
			acc, inBurst, dataInBurst = map[int]resT{}, false, false
		}
		// the connection is dropped
		w.pair.Ends[1].Close()
		quiesce()
		want, err := wantDone(c.Final.Done)
		if err != nil {
			infra = err
			return
		}
		fs := stepT{Go: c.Final.Go, Ge: c.Final.Ge, Ka: c.Final.Ka, Race: c.Final.Race, Kf: c.Final.Kf}
		if last != nil {
			fs.Om, fs.Em, fs.Ow, fs.Ew = last.Om, last.Em, last.Ow, last.Ew
		}
		if m := w.compareStep(&fs, calls, want, cmpFinal); m != nil {
			m.Step, m.Events = len(c.Steps), evs
			m.What = "after the connection was dropped: " + m.What
			mm = m
			return
		}
		var pend []int
		w.mu.Lock()
		for i := 1; i <= w.ncalls; i++ {
			if !w.completed[i] {
				pend = append(pend, i)
			}
		}
		w.mu.Unlock()
		wp := append([]int(nil), c.Final.Pending...)
		sort.Ints(wp)
		if len(pend) != len(wp) || (len(pend) > 0 && !reflect.DeepEqual(pend, wp)) {
			mm = &mismatch{Step: len(c.Steps), What: "after the connection was dropped: calls still blocked", Got: pend, Want: wp, Events: evs}
		}
	})
	return mm, infra
}

// hasBurst: the history contains two consecutive server events that can be sent back to back.
func hasBurst(c *caseT) bool {
	for i := 0; i+1 < len(c.Steps); i++ {
		if burstKinds[c.Steps[i].Ev.K] && burstKinds[c.Steps[i+1].Ev.K] {
			return true
		}
	}
	return false
}

// ---------------------------------------------------------------- child: replay cases START.. and report

type childReport struct {
	Case     int       `json:"case"`
	Sig      string    `json:"sig"`
	What     string    `json:"what"`
	Mismatch *mismatch `json:"mismatch"`
	Infra    string    `json:"infra,omitempty"`
}

func sigOf(c *caseT, mm *mismatch) string {
	k := "end"
	if mm.Step >= 0 && mm.Step < len(c.Steps) {
		k = c.Steps[mm.Step].Ev.K
	}
	return "session-mismatch:" + k
}

func TestReplayChild(t *testing.T) {
	if os.Getenv("VERIF_X01_CHILD") != "replay" {
		t.Skip("child only")
	}
	start, _ := strconv.Atoi(os.Getenv("VERIF_X01_START"))
	shard, _ := strconv.Atoi(os.Getenv("VERIF_X01_SHARD"))
	nshard, _ := strconv.Atoi(vutil.Env("VERIF_X01_NSHARD", "1"))
	prog, err := os.OpenFile(os.Getenv("VERIF_X01_PROGRESS"), os.O_CREATE|os.O_WRONLY, 0o644)
	if err != nil {
		t.Fatal(err)
	}
	rep, err := os.OpenFile(os.Getenv("VERIF_X01_REPORT"), os.O_CREATE|os.O_WRONLY|os.O_APPEND, 0o644)
	if err != nil {
		t.Fatal(err)
	}
	defer rep.Close()
	salt := vutil.Seed()
	i := -1
	err = vutil.ReadNDJSON(os.Getenv("VERIF_CASES"), func(line []byte) error {
		i++
		if i < start || i%nshard != shard {
			return nil
		}
		var c caseT
		if err := json.Unmarshal(line, &c); err != nil {
			return err
		}
		prog.WriteAt([]byte(fmt.Sprintf("%-12d", i)), 0)
		mm, infra := replayIn(t, &c, salt+int64(i%5), false)
		if mm == nil && infra == nil && hasBurst(&c) {
			mm, infra = replayIn(t, &c, salt+int64(i%5), true)
		}
		if infra != nil {
			b, _ := json.Marshal(childReport{Case: i, Infra: infra.Error()})
			rep.Write(append(b, '\n'))
		} else if mm != nil {
			b, _ := json.Marshal(childReport{Case: i, Sig: sigOf(&c, mm), What: mm.What, Mismatch: mm})
			rep.Write(append(b, '\n'))
		}
		return nil
	})
	if err != nil {
		t.Fatal(err)
	}
	prog.WriteAt([]byte(fmt.Sprintf("%-12s", "done")), 0)
}

var sshFrame = regexp.MustCompile(`golang\.org/x/crypto/ssh\.(\(\*?\w+\)\.\w+|\w+)`)

// classifyCrash inspects the output of a crashed child.
func classifyCrash(out string) (sig, what string, verdict bool) {
	i := strings.Index(out, "panic: ")
	j := strings.Index(out, "fatal error: ")
	if i < 0 && j < 0 {
		return "", "child died without a Go panic", false
	}
	if i < 0 || (j >= 0 && j < i) {
		i = j
	}
	msg := out[i:]
	first := strings.SplitN(msg, "\n", 2)[0]
	if strings.Contains(first, "test timed out") {
		// a stalled bubble (e.g. a goroutine waiting for a mutex is not durably blocked): never a verdict
		return "", "child timed out: " + first, false
	}
	if strings.Contains(first, "deadlock: main bubble goroutine has exited but blocked goroutines remain") ||
		strings.Contains(first, "all goroutines in bubble are blocked") || strings.Contains(first, "all goroutines are asleep") {
		if f := sshFrame.FindString(msg); f != "" {
			return "session-goroutine-stuck:" + strings.TrimPrefix(f, "golang.org/x/crypto/ssh."), "goroutines remained blocked for ever inside package ssh after the connection ended: " + first, true
		}
		return "", "bubble deadlock outside package ssh: " + first, false
	}
	stack := msg
	if k := strings.Index(msg, "\n\ngoroutine "); k >= 0 {
		rest := msg[k+2:]
		if e := strings.Index(rest, "\n\n"); e >= 0 {
			stack = msg[:k+2+e]
		}
	}
	if f := sshFrame.FindString(stack); f != "" {
		return "session-panic:" + strings.TrimPrefix(f, "golang.org/x/crypto/ssh."), "panic in package ssh during a session: " + first, true
	}
	return "", "child panicked outside package ssh: " + first, false
}

func tail(s string, n int) string {
	if len(s) > n {
		return s[len(s)-n:]
	}
	return s
}

// runChildren runs the child test over all cases in nshard concurrent child processes (child k
// replays the cases with index = k mod nshard), restarting a child after a crash.
func runChildren(t *testing.T, out *vutil.Out, childTest string, ncases int, cases []json.RawMessage) {
	nshard, _ := strconv.Atoi(vutil.Env("VERIF_X01_PAR", "4"))
	if nshard < 1 {
		nshard = 1
	}
	dir := t.TempDir()
	var mu sync.Mutex
	crashes := 0
	var fatal []string
	var wg sync.WaitGroup
	for k := 0; k < nshard; k++ {
		wg.Add(1)
		go func(k int) {
			defer wg.Done()
			progress := fmt.Sprintf("%s/progress%d", dir, k)
			report := fmt.Sprintf("%s/report%d.ndjson", dir, k)
			start := 0
			for start < ncases {
				os.WriteFile(progress, []byte(fmt.Sprintf("%-12d", -1)), 0o644)
				cmd := exec.Command(os.Args[0], "-test.run=^"+childTest+"$", "-test.timeout=1500s")
				cmd.Env = append(os.Environ(), "VERIF_X01_CHILD=replay", "VERIF_X01_START="+strconv.Itoa(start), "VERIF_X01_PROGRESS="+progress,
					"VERIF_X01_REPORT="+report, "VERIF_X01_SHARD="+strconv.Itoa(k), "VERIF_X01_NSHARD="+strconv.Itoa(nshard))
				var buf bytes.Buffer
				cmd.Stdout, cmd.Stderr = &buf, &buf
				err := cmd.Run()
				pb, _ := os.ReadFile(progress)
				ps := strings.TrimSpace(string(pb))
				if ps == "done" {
					return
				}
				last, _ := strconv.Atoi(ps)
				mu.Lock()
				if err == nil || last < start {
					fatal = append(fatal, fmt.Sprintf("x01 child %d stopped at %q without finishing (err=%v):\n%s", k, ps, err, tail(buf.String(), 4000)))
					mu.Unlock()
					return
				}
				sig, what, verdict := classifyCrash(buf.String())
				if !verdict {
					fatal = append(fatal, fmt.Sprintf("x01 child crashed at case %d, not attributable to package ssh (%s):\n%s", last, what, tail(buf.String(), 6000)))
					mu.Unlock()
					return
				}
				var detail any
				if last < len(cases) {
					detail = map[string]any{"case": cases[last], "crash": tail(buf.String(), 3000)}
				} else {
					detail = map[string]any{"case_index": last, "crash": tail(buf.String(), 3000)}
				}
				out.Violation(sig, what, detail)
				t.Errorf("%s at case %d: %s", sig, last, what)
				crashes++
				tooMany := crashes > 25
				mu.Unlock()
				if tooMany {
					return
				}
				start = last + 1
			}
		}(k)
	}
	wg.Wait()
	if len(fatal) > 0 {
		t.Fatal(fatal[0])
	}
	out.Extra["child_crashes"] = crashes
	for k := 0; k < nshard; k++ {
		fh, err := os.Open(fmt.Sprintf("%s/report%d.ndjson", dir, k))
		if err != nil {
			continue
		}
		sc := bufio.NewScanner(fh)
		sc.Buffer(make([]byte, 1<<20), 1<<26)
		for sc.Scan() {
			var r childReport
			if json.Unmarshal(sc.Bytes(), &r) != nil {
				continue
			}
			if r.Infra != "" {
				fh.Close()
				t.Fatalf("x01 replay infrastructure problem at case %d: %s", r.Case, r.Infra)
			}
			var cs any
			if r.Case < len(cases) {
				cs = cases[r.Case]
			}
			out.Violation(r.Sig, "real Session differs from SSHSession: "+r.What, map[string]any{"mismatch": r.Mismatch, "case": cs})
			t.Errorf("%s: case %d: %s got=%v want=%v", r.Sig, r.Case, r.What, r.Mismatch.Got, r.Mismatch.Want)
		}
		fh.Close()
	}
}

func TestReplay(t *testing.T) {
	out := vutil.NewOut()
	defer func() {
		if err := out.Write(); err != nil {
			t.Fatal(err)
		}
	}()
	var cases []json.RawMessage
	keep := 100000
	err := vutil.ReadNDJSON(vutil.Env("VERIF_CASES", ""), func(line []byte) error {
		if len(cases) < keep {
			cases = append(cases, append(json.RawMessage(nil), line...))
		}
		out.Case(string(line))
		if len(out.Samples) < 3 && len(line) < 2500 && out.Evaluations%997 == 5 {
			out.Sample(json.RawMessage(append([]byte(nil), line...)))
		}
		return nil
	})
	if err != nil {
		t.Fatal(err)
	}
	runChildren(t, out, "TestReplayChild", out.Evaluations, cases)
}
