// Package x01 binds spec/SSHSession.tla (growth check X01) to the real ssh.Session.
//
// A "world" is one real client Session (ssh.NewClient(...).NewSession(), unchanged code) over a
// real client mux, connected through the monitored in-memory packetConn pair c35conn to a real
// server-side mux whose session channel is operated by the harness ("the server") through the
// public Channel / Request API.  Everything blocks on sync.Cond / channels, so inside a
// testing/synctest bubble synctest.Wait() returns exactly when the connection is quiescent.
package x01

import (
	"bytes"
	"encoding/binary"
	"errors"
	"fmt"
	"io"
	"net"
	"sync"
	"testing/synctest"
	"time"

	"golang.org/x/crypto/ssh"
	"verif/harness/c35conn"
)

// ---------------------------------------------------------------- byte patterns

// outLen is the length of server token t (seeded by salt): small, medium, or larger than
// io.Copy's 32 KiB buffer and the 32 KiB maximum packet.
func tokLen(t int, salt int64) int {
	x := uint64(t)*0x9E3779B97F4A7C15 + uint64(salt)*0xBF58476D1CE4E5B9
	x ^= x >> 29
	x *= 0x94D049BB133111EB
	x ^= x >> 32
	switch x % 7 {
	case 0:
		return 1
	case 1, 2:
		return 2 + int((x>>8)%30)
	case 3, 4:
		return 500 + int((x>>8)%3000)
	case 5:
		return 32768 + int((x>>8)%9000)
	}
	return 66000 + int((x>>8)%5000)
}

// pattern fills the bytes of token t; bit 7 carries the stream (0 stdout / stdin, 1 stderr).
func pattern(t, n int, stderr bool) []byte {
	b := make([]byte, n)
	hi := byte(0)
	if stderr {
		hi = 0x80
	}
	for j := range b {
		b[j] = hi | byte((t*53+j*7+(j>>8)*3+(j>>16))&0x7f)
	}
	return b
}

func tokensBytes(toks []int, salt int64, stderr bool) []byte {
	var b []byte
	for _, t := range toks {
		b = append(b, pattern(t, tokLen(t, salt), stderr)...)
	}
	return b
}

// project returns the bytes of b that belong to the given stream.
func project(b []byte, stderr bool) []byte {
	var r []byte
	for _, c := range b {
		if (c&0x80 != 0) == stderr {
			r = append(r, c)
		}
	}
	return r
}

// quiesce returns when every virtual sleep has expired and every goroutine of the bubble is
// durably blocked.
func quiesce() {
	time.Sleep(time.Hour)
	synctest.Wait()
}

// ---------------------------------------------------------------- helpers: writers / reader

type lockedBuf struct {
	mu sync.Mutex
	b  bytes.Buffer
}

// Write is slow in virtual time: inside a synctest bubble the sleep ends only when every other
// goroutine is durably blocked, so a Wait that does not wait for the copy goroutines returns
// while the writer still sleeps, deterministically.
func (l *lockedBuf) Write(p []byte) (int, error) {
	time.Sleep(time.Millisecond)
	l.mu.Lock()
	defer l.mu.Unlock()
	return l.b.Write(p)
}

func (l *lockedBuf) Len() int {
	l.mu.Lock()
	defer l.mu.Unlock()
	return l.b.Len()
}

func (l *lockedBuf) Bytes() []byte {
	l.mu.Lock()
	defer l.mu.Unlock()
	return append([]byte(nil), l.b.Bytes()...)
}

// feedReader is the application's Stdin: Read blocks (durably, on a sync.Cond) until the
// harness feeds a chunk, EOF or an error.
type feedReader struct {
	mu   sync.Mutex
	cond *sync.Cond
	q    []byte
	eof  bool
	err  error
}

func newFeedReader() *feedReader {
	f := &feedReader{}
	f.cond = sync.NewCond(&f.mu)
	return f
}

func (f *feedReader) Read(p []byte) (int, error) {
	f.mu.Lock()
	defer f.mu.Unlock()
	for len(f.q) == 0 {
		if f.err != nil {
			return 0, f.err
		}
		if f.eof {
			return 0, io.EOF
		}
		f.cond.Wait()
	}
	n := copy(p, f.q)
	f.q = f.q[n:]
	return n, nil
}

func (f *feedReader) feed(b []byte) {
	f.mu.Lock()
	f.q = append(f.q, b...)
	f.cond.Broadcast()
	f.mu.Unlock()
}
func (f *feedReader) end(err error) {
	f.mu.Lock()
	if err != nil {
		f.err = err
	} else {
		f.eof = true
	}
	f.cond.Broadcast()
	f.mu.Unlock()
}

var errFeed = errors.New("x01: stdin reader failed")

// ---------------------------------------------------------------- ssh.Conn over the mux hook

type addr struct{}

func (addr) Network() string { return "mem" }
func (addr) String() string  { return "mem" }

type muxConn struct{ m *ssh.VerifMux }

func (c muxConn) User() string          { return "verif" }
func (c muxConn) SessionID() []byte     { return []byte("x01") }
func (c muxConn) ClientVersion() []byte { return []byte("SSH-2.0-x01c") }
func (c muxConn) ServerVersion() []byte { return []byte("SSH-2.0-x01s") }
func (c muxConn) RemoteAddr() net.Addr  { return addr{} }
func (c muxConn) LocalAddr() net.Addr   { return addr{} }
func (c muxConn) SendRequest(name string, wantReply bool, payload []byte) (bool, []byte, error) {
	return c.m.SendRequest(name, wantReply, payload)
}
func (c muxConn) OpenChannel(name string, data []byte) (ssh.Channel, <-chan *ssh.Request, error) {
	return c.m.OpenChannel(name, data)
}
func (c muxConn) Close() error { return c.m.Close() }
func (c muxConn) Wait() error  { return c.m.Wait() }

// ---------------------------------------------------------------- packets

func u32(v uint32) []byte    { b := make([]byte, 4); binary.BigEndian.PutUint32(b, v); return b }
func sshStr(s string) []byte { return append(u32(uint32(len(s))), s...) }

func cat(parts ...[]byte) []byte {
	var b []byte
	for _, p := range parts {
		b = append(b, p...)
	}
	return b
}

func getStr(p []byte) (string, []byte, bool) {
	if len(p) < 4 {
		return "", nil, false
	}
	n := binary.BigEndian.Uint32(p)
	if uint32(len(p)-4) < n {
		return "", nil, false
	}
	return string(p[4 : 4+n]), p[4+n:], true
}

// decodeCtl maps a control packet written by the client to the model's vocabulary ("" = not
// part of the session-level observable: data, window adjust, channel open).
func decodeCtl(p []byte) string {
	switch p[0] {
	case 98:
		if len(p) < 5 {
			return "req:?"
		}
		name, rest, ok := getStr(p[5:])
		if !ok || len(rest) < 1 {
			return "req:?"
		}
		return fmt.Sprintf("req:%s:%d", name, rest[0])
	case 96:
		return "eof"
	case 97:
		return "close"
	case 99:
		return "success"
	case 100:
		return "fail"
	case 90, 93, 94, 95:
		return ""
	}
	return fmt.Sprintf("type%d", p[0])
}

// ---------------------------------------------------------------- the world

type world struct {
	mu   sync.Mutex
	salt int64
	pair *c35conn.Pair
	cm   *ssh.VerifMux
	sm   *ssh.VerifMux
	cl   *ssh.Client
	sess *ssh.Session
	sch  ssh.Channel

	out        []string // control packets the client wrote since the last step
	srvReqs    []*ssh.Request
	srvIn      []byte
	srvInEOF   bool
	srvErr     []string // problems seen by the server (payload formats, failed writes)
	ka         []string // results of server keepalive requests since the last step
	pendW      int      // server writes in flight
	syncWrites bool     // burst mode: server writes are done inline

	stdin            *feedReader
	userOut, userErr *lockedBuf
	pipeOut, pipeErr *lockedBuf
	stdinPipe        io.WriteCloser
	ncalls           int
	done             map[int]callRes
	completed        map[int]bool
	started, waited  bool
	nIn              int
	lastSig          string
	ret              map[int][]byte // bytes returned by Output / CombinedOutput, by call
	snap             map[int][2]int // bytes in Session.Stdout / Stderr at the moment Wait / Run returned, by call
}

type callRes struct {
	C    string `json:"c"`
	St   int    `json:"st"`
	Sig  string `json:"sig"`
	Err  string `json:"err,omitempty"`  // text of a non-Exit error (informative, not compared)
	Note string `json:"note,omitempty"` // harness-level findings about the returned value (bytes, Msg/Lang)
}

func (w *world) monitor(ep int, send bool, p []byte) {
	if ep != 0 || !send || len(p) == 0 {
		return
	}
	if s := decodeCtl(p); s != "" {
		w.mu.Lock()
		w.out = append(w.out, s)
		w.mu.Unlock()
	}
}

// newWorld builds the connection, opens the session (preamble, not part of the history) and
// starts the server's collectors.  cfgStdin: "nil" | "reader"; cfgOuts: "nil" | "buf".
func newWorld(cfgStdin, cfgOuts string, salt int64, wait func()) (*world, error) {
	w := &world{salt: salt, done: map[int]callRes{}, completed: map[int]bool{}}
	w.pair = c35conn.NewPair(w.monitor)
	w.cm = ssh.VerifMuxNew(w.pair.Ends[0])
	w.sm = ssh.VerifMuxNew(w.pair.Ends[1])
	w.cl = ssh.NewClient(muxConn{w.cm}, w.cm.IncomingChannels(), w.cm.IncomingRequests())
	var serr error
	var sreqs <-chan *ssh.Request
	var aerr error
	accepted := make(chan struct{})
	go func() {
		defer close(accepted)
		nc, ok := <-w.sm.IncomingChannels()
		if !ok {
			aerr = errors.New("server mux closed before the session was opened")
			return
		}
		if nc.ChannelType() != "session" {
			aerr = fmt.Errorf("channel type %q", nc.ChannelType())
			nc.Reject(ssh.UnknownChannelType, "no")
			return
		}
		w.sch, sreqs, aerr = nc.Accept()
	}()
	opened := make(chan struct{})
	go func() {
		defer close(opened)
		w.sess, serr = w.cl.NewSession()
	}()
	wait()
	select {
	case <-opened:
	default:
		return w, errors.New("NewSession did not return")
	}
	<-accepted
	if serr != nil || aerr != nil {
		return w, fmt.Errorf("NewSession: %v / accept: %v", serr, aerr)
	}
	w.mu.Lock()
	w.out = nil
	w.mu.Unlock()
	// server: global requests are not used; collect channel requests (answered by explicit events)
	go func() {
		for r := range w.sm.IncomingRequests() {
			if r.WantReply {
				r.Reply(false, nil)
			}
		}
	}()
	go func() {
		for r := range sreqs {
			w.checkPayload(r)
			if r.WantReply {
				w.mu.Lock()
				w.srvReqs = append(w.srvReqs, r)
				w.mu.Unlock()
			}
		}
	}()
	go func() {
		buf := make([]byte, 1<<16)
		for {
			n, err := w.sch.Read(buf)
			w.mu.Lock()
			w.srvIn = append(w.srvIn, buf[:n]...)
			if err != nil {
				w.srvInEOF = true
				w.mu.Unlock()
				return
			}
			w.mu.Unlock()
		}
	}()
	if cfgStdin == "reader" {
		w.stdin = newFeedReader()
		w.sess.Stdin = w.stdin
	}
	w.userOut, w.userErr = &lockedBuf{}, &lockedBuf{}
	w.pipeOut, w.pipeErr = &lockedBuf{}, &lockedBuf{}
	if cfgOuts == "buf" {
		w.sess.Stdout = w.userOut
		w.sess.Stderr = w.userErr
	}
	return w, nil
}

func (w *world) srvProblem(s string) {
	w.mu.Lock()
	if len(w.srvErr) < 10 {
		w.srvErr = append(w.srvErr, s)
	}
	w.mu.Unlock()
}

// checkPayload verifies the RFC 4254 wire format of the requests the Session methods build.
func (w *world) checkPayload(r *ssh.Request) {
	p := r.Payload
	bad := func(why string) { w.srvProblem(fmt.Sprintf("request %q: %s (payload %x)", r.Type, why, p)) }
	switch r.Type {
	case "exec":
		s, rest, ok := getStr(p)
		if !ok || len(rest) != 0 || s != "the-command" {
			bad("want string \"the-command\"")
		}
	case "shell":
		if len(p) != 0 {
			bad("want empty payload")
		}
	case "env":
		n, rest, ok := getStr(p)
		v, rest2, ok2 := getStr(rest)
		if !ok || !ok2 || len(rest2) != 0 || n != "NAME" || v != "value" {
			bad("want string NAME, string value")
		}
	case "subsystem":
		s, rest, ok := getStr(p)
		if !ok || len(rest) != 0 || s != "sftp" {
			bad("want string sftp")
		}
	case "signal":
		s, rest, ok := getStr(p)
		if !ok || len(rest) != 0 || s != "TERM" {
			bad("want string TERM")
		}
	case "window-change":
		if !bytes.Equal(p, cat(u32(80), u32(24), u32(640), u32(192))) {
			bad("want cols 80, rows 24, width 640, height 192")
		}
	case "pty-req":
		term, rest, ok := getStr(p)
		if !ok || term != "xterm" || len(rest) < 16 || !bytes.Equal(rest[:16], cat(u32(80), u32(24), u32(640), u32(192))) {
			bad("want xterm, cols 80, rows 24, width 640, height 192")
			return
		}
		modes, rest2, ok := getStr(rest[16:])
		if !ok || len(rest2) != 0 || !bytes.Equal([]byte(modes), cat([]byte{53}, u32(0), []byte{0})) {
			bad("want encoded modes ECHO=0, TTY_OP_END")
		}
	case "raw":
		if string(p) != "raw-payload" {
			bad("want the caller's payload")
		}
	}
}

func (w *world) finish(call int, r callRes) {
	w.mu.Lock()
	w.done[call] = r
	w.completed[call] = true
	w.mu.Unlock()
}

func errClass(err error) string {
	if err == nil {
		return "ok"
	}
	return "other"
}

// waitClass classifies the result of Wait / Run / Output / CombinedOutput.
func (w *world) waitClass(err error) callRes {
	var ee *ssh.ExitError
	var em *ssh.ExitMissingError
	switch {
	case err == nil:
		return callRes{C: "nil"}
	case errors.As(err, &ee):
		r := callRes{C: "exit", St: ee.ExitStatus(), Sig: ee.Signal()}
		w.mu.Lock()
		ls := w.lastSig
		w.mu.Unlock()
		if ee.Signal() != "" && ee.Signal() == ls {
			if ee.Msg() != "msg-"+ls || ee.Lang() != "lang-"+ls {
				r.Note = fmt.Sprintf("ExitError.Msg()=%q Lang()=%q, the server sent %q %q", ee.Msg(), ee.Lang(), "msg-"+ls, "lang-"+ls)
			}
		}
		return r
	case errors.As(err, &em):
		return callRes{C: "missing"}
	}
	return callRes{C: "other", Err: err.Error()}
}

// startCall launches the application call of a client event in its own goroutine.
func (w *world) startCall(k, v string) error {
	w.ncalls++
	call := w.ncalls
	s := w.sess
	switch k {
	case "start":
		go func() {
			err := s.Start("the-command")
			w.noteStarted(err)
			w.finish(call, callRes{C: errClass(err)})
		}()
	case "shell":
		go func() {
			err := s.Shell()
			w.noteStarted(err)
			w.finish(call, callRes{C: errClass(err)})
		}()
	case "run":
		w.markWaited()
		go func() {
			err := s.Run("the-command")
			w.snapshot(call)
			w.finish(call, w.waitClass(err))
		}()
	case "output":
		w.markWaited()
		go func() {
			b, err := s.Output("the-command")
			r := w.waitClass(err)
			w.mu.Lock()
			w.retBytes(call, b)
			w.mu.Unlock()
			w.finish(call, r)
		}()
	case "combined":
		w.markWaited()
		go func() {
			b, err := s.CombinedOutput("the-command")
			r := w.waitClass(err)
			w.mu.Lock()
			w.retBytes(call, b)
			w.mu.Unlock()
			w.finish(call, r)
		}()
	case "wait":
		w.mu.Lock()
		if w.started {
			w.waited = true
		}
		w.mu.Unlock()
		go func() {
			err := s.Wait()
			w.snapshot(call)
			w.finish(call, w.waitClass(err))
		}()
	case "reqwr":
		go func() {
			var err error
			switch v {
			case "env":
				err = s.Setenv("NAME", "value")
			case "pty-req":
				err = s.RequestPty("xterm", 24, 80, ssh.TerminalModes{ssh.ECHO: 0})
			case "subsystem":
				err = s.RequestSubsystem("sftp")
			default:
				ok, e := s.SendRequest("raw", true, []byte("raw-payload"))
				switch {
				case e != nil:
					w.finish(call, callRes{C: "other"})
				case ok:
					w.finish(call, callRes{C: "true"})
				default:
					w.finish(call, callRes{C: "false"})
				}
				return
			}
			if err == nil {
				w.finish(call, callRes{C: "true"})
			} else {
				w.finish(call, callRes{C: "other"})
			}
		}()
	case "reqnw":
		go func() {
			var err error
			switch v {
			case "signal":
				err = s.Signal(ssh.SIGTERM)
			case "window-change":
				err = s.WindowChange(24, 80)
			default:
				_, err = s.SendRequest("raw", false, []byte("raw-payload"))
			}
			w.finish(call, callRes{C: errClass(err)})
		}()
	case "stdinpipe":
		p, err := s.StdinPipe()
		if err == nil {
			w.stdinPipe = p
		}
		w.finish(call, callRes{C: errClass(err)})
	case "stdoutpipe":
		r, err := s.StdoutPipe()
		if err == nil {
			go io.Copy(w.pipeOut, r)
		}
		w.finish(call, callRes{C: errClass(err)})
	case "stderrpipe":
		r, err := s.StderrPipe()
		if err == nil {
			go io.Copy(w.pipeErr, r)
		}
		w.finish(call, callRes{C: errClass(err)})
	case "close":
		go func() { w.finish(call, callRes{C: errClass(s.Close())}) }()
	case "pwrite":
		if w.stdinPipe == nil {
			return errors.New("pwrite without a StdinPipe")
		}
		w.nIn++
		b := pattern(w.nIn, tokLen(w.nIn, w.salt+7), false)
		go func() {
			n, err := w.stdinPipe.Write(b)
			if err == nil && n != len(b) {
				err = io.ErrShortWrite
			}
			w.finish(call, callRes{C: errClass(err)})
		}()
	case "pclose":
		if w.stdinPipe == nil {
			return errors.New("pclose without a StdinPipe")
		}
		go func() { w.finish(call, callRes{C: errClass(w.stdinPipe.Close())}) }()
	default:
		return fmt.Errorf("unknown client call %q", k)
	}
	return nil
}

// retBytes records the bytes returned by Output / CombinedOutput (w.mu held).
func (w *world) retBytes(call int, b []byte) {
	if w.ret == nil {
		w.ret = map[int][]byte{}
	}
	w.ret[call] = append([]byte(nil), b...)
}

func (w *world) snapshot(call int) {
	a, b := w.userOut.Len(), w.userErr.Len()
	w.mu.Lock()
	if w.snap == nil {
		w.snap = map[int][2]int{}
	}
	w.snap[call] = [2]int{a, b}
	w.mu.Unlock()
}

func (w *world) noteStarted(err error) {
	if err == nil {
		w.mu.Lock()
		w.started = true
		w.mu.Unlock()
	}
}

func (w *world) markWaited() { w.mu.Lock(); w.waited = true; w.mu.Unlock() }

// clientEvent executes a client-side event (a call, or something the Stdin reader does).
func (w *world) clientEvent(k, v string) error {
	switch k {
	case "feed":
		if w.stdin == nil {
			return errors.New("feed without a Stdin reader")
		}
		w.nIn++
		w.stdin.feed(pattern(w.nIn, tokLen(w.nIn, w.salt+7), false))
	case "feedeof":
		w.stdin.end(nil)
	case "feederr":
		w.stdin.end(errFeed)
	default:
		return w.startCall(k, v)
	}
	return nil
}

func sigPayload(sig string, core bool, truncated bool) []byte {
	c := byte(0)
	if core {
		c = 1
	}
	if truncated {
		return cat(sshStr(sig), []byte{c}, []byte{0, 0})
	}
	return cat(sshStr(sig), []byte{c}, sshStr("msg-"+sig), sshStr("lang-"+sig))
}

// serverEvent makes the server do one thing on its end of the session channel.
func (w *world) serverEvent(k, v string, x int, tok int) error {
	switch k {
	case "sreply":
		w.mu.Lock()
		if len(w.srvReqs) == 0 {
			w.mu.Unlock()
			return errors.New("sreply: the server has no want-reply request to answer")
		}
		r := w.srvReqs[0]
		w.srvReqs = w.srvReqs[1:]
		w.mu.Unlock()
		if err := r.Reply(v == "ok", nil); err != nil {
			return fmt.Errorf("sreply: %v", err)
		}
	case "sdata":
		return w.serverWrite(v == "err", pattern(tok, tokLen(tok, w.salt), v == "err"), tok)
	case "seof":
		if err := w.sch.CloseWrite(); err != nil {
			return fmt.Errorf("seof: %v", err)
		}
	case "sexit":
		if _, err := w.sch.SendRequest("exit-status", false, u32(uint32(x))); err != nil {
			return fmt.Errorf("sexit: %v", err)
		}
	case "sexitbad":
		if _, err := w.sch.SendRequest("exit-status", false, []byte{0, 0}); err != nil {
			return fmt.Errorf("sexitbad: %v", err)
		}
	case "ssig":
		w.mu.Lock()
		w.lastSig = v
		w.mu.Unlock()
		if _, err := w.sch.SendRequest("exit-signal", false, sigPayload(v, x == 1, false)); err != nil {
			return fmt.Errorf("ssig: %v", err)
		}
	case "ssigbad":
		if _, err := w.sch.SendRequest("exit-signal", false, sigPayload("KILL", false, true)); err != nil {
			return fmt.Errorf("ssigbad: %v", err)
		}
	case "ska":
		go func() {
			ok, err := w.sch.SendRequest("keepalive@openssh.com", true, nil)
			r := "false"
			if err != nil {
				r = "err"
			} else if ok {
				r = "true"
			}
			w.mu.Lock()
			w.ka = append(w.ka, r)
			w.mu.Unlock()
		}()
	case "sclose":
		if err := w.sch.Close(); err != nil {
			return fmt.Errorf("sclose: %v", err)
		}
	case "sdrop":
		w.pair.Ends[1].Close()
	default:
		return fmt.Errorf("unknown server event %q", k)
	}
	return nil
}

// serverWrite starts one Write of the server on stdout / stderr; it must complete within the step.
func (w *world) serverWrite(stderr bool, b []byte, tok int) error {
	var wr io.Writer = w.sch
	if stderr {
		wr = w.sch.Stderr()
	}
	w.mu.Lock()
	w.pendW++
	w.mu.Unlock()
	do := func() {
		n, err := wr.Write(b)
		w.mu.Lock()
		w.pendW--
		w.mu.Unlock()
		if err != nil || n != len(b) {
			w.srvProblem(fmt.Sprintf("server Write of token %d: n=%d of %d err=%v", tok, n, len(b), err))
		}
	}
	if w.syncWrites {
		do() // burst mode: the server program writes, then goes on (the chunk fits the window)
	} else {
		go do()
	}
	return nil
}

// pipeWrite starts a Write of b on the StdinPipe as a new call.
func (w *world) pipeWrite(b []byte) error {
	if w.stdinPipe == nil {
		return errors.New("pwrite without a StdinPipe")
	}
	w.ncalls++
	call := w.ncalls
	go func() {
		n, err := w.stdinPipe.Write(b)
		if err == nil && n != len(b) {
			err = io.ErrShortWrite
		}
		w.finish(call, callRes{C: errClass(err)})
	}()
	return nil
}

// release lets every goroutine the world started come to an end (after the verdicts).
func (w *world) release(wait func()) {
	w.pair.Ends[1].Close()
	w.pair.Ends[0].Close()
	wait()
	if w.stdin != nil {
		w.stdin.end(nil)
	}
	w.mu.Lock()
	st, wd := w.started, w.waited
	w.mu.Unlock()
	if st && !wd && w.sess != nil {
		// Wait closes the internal stdin pipe; the channel is closed, so it returns at once
		go w.sess.Wait()
	}
	w.cm.Close()
	w.sm.Close()
	wait()
}
