package x01

// Binding T for X01: a seeded random long-session driver that does NOT use the model.  It plays
// application and server of one real ssh.Session: requests before the command, a start call of a
// random kind, outputs of up to 1 MiB per server Write split arbitrarily over stdout and stderr,
// stdin through a reader or the StdinPipe, signals, keepalives, exit-status / exit-signal before
// or after EOF (or missing, or malformed), and one of the three ways a session ends.  After every
// event the bubble is brought to quiescence and the observation is recorded; the recorded
// executions are validated by spec/SSHSession_Trace.tla.  Independently of the model the driver
// reports bytes that are not a prefix of what was sent (corruption, loss, reordering).

import (
	"bytes"
	"encoding/json"
	"fmt"
	"math/rand"
	"os"
	"strconv"
	"testing"
	"testing/synctest"

	"verif/harness/vutil"
)

func TestWarm(t *testing.T) {
	out := vutil.NewOut()
	if err := out.Write(); err != nil {
		t.Fatal(err)
	}
}

type longLine struct {
	Ev   string   `json:"ev"`
	K    string   `json:"k"`
	V    string   `json:"v"`
	X    int      `json:"x"`
	Out  []string `json:"out"`
	Done [][2]any `json:"done"`
	Uo   []int    `json:"uo"`
	Ue   []int    `json:"ue"`
	Po   []int    `json:"po"`
	Pe   []int    `json:"pe"`
	Rc   int      `json:"rc"`
	Ro   []int    `json:"ro"`
	Re   []int    `json:"re"`
	Si   []int    `json:"si"`
	Ka   string   `json:"ka"`
}

type tokT struct {
	id int
	b  []byte
}

// prefixTokens returns the ids of the tokens whose concatenation equals got, or an error if got is
// not a concatenation of a prefix of toks.
func prefixTokens(got []byte, toks []tokT) ([]int, error) {
	ids := []int{}
	off := 0
	for _, tk := range toks {
		if off == len(got) {
			break
		}
		if len(got)-off < len(tk.b) {
			return nil, fmt.Errorf("%d bytes delivered: ends inside token %d (token boundary at %d, next at %d) at a quiescent point", len(got), tk.id, off, off+len(tk.b))
		}
		if !bytes.Equal(got[off:off+len(tk.b)], tk.b) {
			return nil, fmt.Errorf("delivered bytes differ from token %d (first difference at offset %d)", tk.id, off+firstDiff(got[off:off+len(tk.b)], tk.b))
		}
		ids = append(ids, tk.id)
		off += len(tk.b)
	}
	if off != len(got) {
		return nil, fmt.Errorf("%d bytes delivered but only %d were sent", len(got), off)
	}
	return ids, nil
}

func longSize(rng *rand.Rand) int {
	switch rng.Intn(10) {
	case 0:
		return 1 + rng.Intn(3)
	case 1, 2, 3:
		return 1 + rng.Intn(2000)
	case 4, 5:
		return 30000 + rng.Intn(40000)
	case 6, 7:
		return 100000 + rng.Intn(300000)
	}
	return 600000 + rng.Intn(1<<20-600000+1)
}

type longProblem struct {
	Sig   string
	What  string
	Trace []longLine
}

// longOne runs one random session and returns its recorded trace.
func longOne(t *testing.T, seed int64) (trace []longLine, prob *longProblem, bytesOut int) {
	synctest.Test(t, func(t *testing.T) {
		rng := rand.New(rand.NewSource(seed))
		cfgStdin := []string{"nil", "reader"}[rng.Intn(2)]
		cfgOuts := []string{"nil", "buf"}[rng.Intn(2)]
		w, err := newWorld(cfgStdin, cfgOuts, seed, quiesce)
		defer w.release(quiesce)
		if err != nil {
			prob = &longProblem{Sig: "", What: "infra: " + err.Error()}
			return
		}
		e0 := []int{}
		trace = append(trace, longLine{Ev: "cfg", K: cfgStdin, V: cfgOuts, Out: []string{}, Done: [][2]any{}, Uo: e0, Ue: e0, Po: e0, Pe: e0, Ro: e0, Re: e0, Si: e0})
		var sentOut, sentErr, sentIn []tokT
		var calls []callInfo
		nTok, nIn := 0, 0
		closed, sEOF, reqPending, started, waited, inpipe, rdOpen := false, false, false, false, false, false, cfgStdin == "reader"
		startKindPending, kaPending := false, false
		preData := 0

		// do executes one event, waits for quiescence and records the observation
		var doM func(k, v string, x int, mode int) bool
		do := func(k, v string, x int) bool { return doM(k, v, x, 0) }
		doM = func(k, v string, x int, mode int) bool {
			var e error
			w.syncWrites = mode != 0
			switch {
			case k == "sdata":
				nTok++
				n := longSize(rng)
				b := pattern(nTok, n, v == "err")
				if v == "err" {
					sentErr = append(sentErr, tokT{nTok, b})
				} else {
					sentOut = append(sentOut, tokT{nTok, b})
				}
				bytesOut += n
				e = w.serverWrite(v == "err", b, nTok)
			case k == "feed" || k == "pwrite":
				nIn++
				b := pattern(nIn, 1+rng.Intn(200000), false)
				if k == "feed" {
					w.nIn = nIn
					w.stdin.feed(b)
				} else {
					calls = append(calls, callInfo{k, v})
					e = w.pipeWrite(b)
				}
				sentIn = append(sentIn, tokT{nIn, b})
			case serverKinds[k]:
				e = w.serverEvent(k, v, x, 0)
			case k == "feedeof" || k == "feederr":
				e = w.clientEvent(k, v)
			default:
				calls = append(calls, callInfo{k, v})
				e = w.clientEvent(k, v)
			}
			if e != nil {
				prob = &longProblem{Sig: "", What: "infra: event " + k + ": " + e.Error(), Trace: trace}
				return false
			}
			bookkeep := func() {
				switch k {
				case "sclose", "close", "sdrop":
					closed = true
				case "seof":
					sEOF = true
				}
			}
			if mode == 1 {
				e0 := []int{}
				trace = append(trace, longLine{Ev: "quiet", K: k, V: v, X: x, Out: []string{}, Done: [][2]any{}, Uo: e0, Ue: e0, Po: e0, Pe: e0, Ro: e0, Re: e0, Si: e0})
				bookkeep()
				return true
			}
			quiesce()
			ln := longLine{Ev: "step", K: k, V: v, X: x, Done: [][2]any{}}
			if mode == 2 {
				ln.Ev = "burst"
			}
			w.mu.Lock()
			ln.Out = append([]string{}, w.out...)
			w.out = nil
			done := w.done
			w.done = map[int]callRes{}
			for _, r := range w.ka {
				ln.Ka += r
			}
			w.ka = nil
			srvIn := append([]byte(nil), w.srvIn...)
			pendW := w.pendW
			srvErr := append([]string(nil), w.srvErr...)
			ret := map[int][]byte{}
			for c, b := range w.ret {
				ret[c] = b
			}
			w.mu.Unlock()
			fail := func(sig, what string) bool {
				trace = append(trace, ln)
				prob = &longProblem{Sig: sig, What: what, Trace: trace}
				return false
			}
			if len(srvErr) > 0 {
				return fail("long-server-side", "server side: "+srvErr[0])
			}
			if pendW != 0 {
				return fail("long-server-write-stuck", fmt.Sprintf("a server Write did not complete although the client consumes the stream (event %s)", k))
			}
			for c, r := range done {
				if r.Note != "" {
					return fail("long-exit-message", fmt.Sprintf("call %d: %s", c, r.Note))
				}
				ln.Done = append(ln.Done, [2]any{c, map[string]any{"c": r.C, "st": r.St, "sig": r.Sig}})
				if kk := calls[c-1].k; kk == "output" || kk == "combined" {
					ln.Rc = c
					var e1, e2 error
					if kk == "output" {
						ln.Ro, e1 = prefixTokens(ret[c], sentOut)
						ln.Re = []int{}
					} else {
						ln.Ro, e1 = prefixTokens(project(ret[c], false), sentOut)
						ln.Re, e2 = prefixTokens(project(ret[c], true), sentErr)
					}
					if e1 != nil || e2 != nil {
						return fail("long-output-corrupt", fmt.Sprintf("bytes returned by %s: %v %v", kk, e1, e2))
					}
				}
			}
			if ln.Ro == nil {
				ln.Ro, ln.Re = []int{}, []int{}
			}
			// S2 directly: when Wait / Run returned, everything the server had written was in the writers
			if cfgOuts == "buf" {
				w.mu.Lock()
				snap := w.snap
				w.mu.Unlock()
				for c := range done {
					if kk := calls[c-1].k; (kk == "wait" || kk == "run") && done[c].C != "other" {
						so, se := 0, 0
						for _, tk := range sentOut {
							so += len(tk.b)
						}
						for _, tk := range sentErr {
							se += len(tk.b)
						}
						if sn, ok := snap[c]; ok && (sn[0] != so || sn[1] != se) {
							return fail("long-data-missing-at-exit", fmt.Sprintf("%s returned (%s) when Session.Stdout held %d of %d bytes and Session.Stderr %d of %d bytes the server had written before closing", kk, done[c].C, sn[0], so, sn[1], se))
						}
					}
				}
			}
			var e1, e2, e3, e4, e5 error
			ln.Uo, e1 = prefixTokens(w.userOut.Bytes(), sentOut)
			ln.Ue, e2 = prefixTokens(w.userErr.Bytes(), sentErr)
			ln.Po, e3 = prefixTokens(w.pipeOut.Bytes(), sentOut)
			ln.Pe, e4 = prefixTokens(w.pipeErr.Bytes(), sentErr)
			ln.Si, e5 = prefixTokens(srvIn, sentIn)
			for i, e := range []error{e1, e2, e3, e4, e5} {
				if e != nil {
					return fail("long-output-corrupt", fmt.Sprintf("%s: %v", []string{"Session.Stdout", "Session.Stderr", "StdoutPipe", "StderrPipe", "stdin at the server"}[i], e))
				}
			}
			trace = append(trace, ln)
			if k == "ska" && ln.Ka == "" {
				kaPending = true
			}
			// the driver's own bookkeeping (what it did, not what the model says)
			switch k {
			case "sclose", "close", "sdrop":
				closed = true
			case "seof":
				sEOF = true
			case "sreply":
				reqPending = false
				if startKindPending && v == "ok" {
					started = true
				}
				startKindPending = false
			case "feedeof", "feederr":
				rdOpen = false
			}
			return true
		}

		// 1. before the command: pipes and requests
		if cfgStdin == "nil" && rng.Intn(3) == 0 {
			if !do("stdinpipe", "", 0) {
				return
			}
			inpipe = true
		}
		if cfgOuts == "nil" && rng.Intn(3) == 0 {
			if !do("stdoutpipe", "", 0) {
				return
			}
		}
		if cfgOuts == "nil" && rng.Intn(3) == 0 {
			if !do("stderrpipe", "", 0) {
				return
			}
		}
		for i := rng.Intn(3); i > 0; i-- {
			name := []string{"env", "pty-req", "subsystem", "raw"}[rng.Intn(4)]
			if !do("reqwr", name, 0) {
				return
			}
			if rng.Intn(4) == 0 && preData < 1<<20 {
				preData += 1 << 20
				if !do("sdata", []string{"out", "err"}[rng.Intn(2)], 0) {
					return
				}
			}
			if !do("sreply", []string{"ok", "ok", "fail"}[rng.Intn(3)], 0) {
				return
			}
		}
		// 2. the start call
		kinds := []string{"start", "shell", "run", "start", "run"}
		if cfgOuts == "nil" {
			kinds = append(kinds, "output", "combined", "output", "combined")
		}
		kind := kinds[rng.Intn(len(kinds))]
		startKindPending, reqPending = true, true
		if kind != "start" && kind != "shell" {
			waited = true
		}
		if !do(kind, "", 0) {
			return
		}
		// the server may already produce output and even the exit status before it answers
		for rng.Intn(3) == 0 && preData < 1<<20 {
			preData += 1 << 20
			if !do("sdata", []string{"out", "err"}[rng.Intn(2)], 0) {
				return
			}
		}
		exitSent := false
		sendExit := func() bool {
			exitSent = true
			switch rng.Intn(8) {
			case 0, 1, 2:
				return do("sexit", "", 0)
			case 3, 4:
				return do("sexit", "", 1+rng.Intn(200))
			case 5:
				return do("ssig", []string{"KILL", "TERM", "USR1", "SEGV"}[rng.Intn(4)], rng.Intn(2))
			case 6:
				if rng.Intn(2) == 0 {
					return do("sexitbad", "", 0)
				}
				return do("ssigbad", "", 0)
			}
			return true // no exit status at all
		}
		if rng.Intn(8) == 0 {
			if !sendExit() {
				return
			}
		}
		if !do("sreply", []string{"ok", "ok", "ok", "ok", "ok", "fail"}[rng.Intn(6)], 0) {
			return
		}
		// 3. the body
		steps := 6 + rng.Intn(30)
		for i := 0; i < steps && !closed; i++ {
			switch r := rng.Intn(20); {
			case r < 9:
				if !sEOF && (started || preData < 1<<20) {
					if !started {
						preData += 1 << 20
					}
					if !do("sdata", []string{"out", "out", "err"}[rng.Intn(3)], 0) {
						return
					}
				}
			case r < 12:
				if inpipe {
					if !do("pwrite", "", 0) {
						return
					}
				} else if rdOpen && started {
					if !do("feed", "", 0) {
						return
					}
				}
			case r == 12:
				if !do("reqnw", []string{"signal", "window-change", "raw"}[rng.Intn(3)], 0) {
					return
				}
			case r == 13:
				// a second want-reply request while one is unanswered would wait for the channel's request mutex
				if !kaPending {
					if !do("ska", "", 0) {
						return
					}
				}
			case r == 14:
				if started && !waited {
					waited = true
					if !do("wait", "", 0) {
						return
					}
				}
			case r == 15:
				if !exitSent && i > steps/2 {
					if !sendExit() {
						return
					}
				}
			case r == 16:
				if inpipe && rng.Intn(2) == 0 {
					if !do("pclose", "", 0) {
						return
					}
				} else if rdOpen && started {
					if !do([]string{"feedeof", "feedeof", "feederr"}[rng.Intn(3)], "", 0) {
						return
					}
				}
			case r == 17:
				if !reqPending {
					reqPending = true
					if !do("reqwr", "raw", 0) {
						return
					}
					if !do("sreply", []string{"ok", "fail"}[rng.Intn(2)], 0) {
						return
					}
				}
			case r == 18:
				if !sEOF && i > steps/2 {
					if !do("seof", "", 0) {
						return
					}
				}
			}
		}
		// 4. the end: exit status before / after EOF, then one of the ways a session ends
		if !closed && rng.Intn(2) == 0 {
			// a real server: last output, EOF, exit status and close back to back
			var evs [][3]any
			if !sEOF && (started || preData < 1<<20) {
				for i := rng.Intn(3); i > 0; i-- {
					evs = append(evs, [3]any{"sdata", []string{"out", "err"}[rng.Intn(2)], 0})
				}
			}
			order := rng.Intn(2)
			ex := func() {
				if exitSent {
					return
				}
				exitSent = true
				switch rng.Intn(5) {
				case 0, 1:
					evs = append(evs, [3]any{"sexit", "", 0})
				case 2:
					evs = append(evs, [3]any{"sexit", "", 1 + rng.Intn(200)})
				case 3:
					evs = append(evs, [3]any{"ssig", []string{"KILL", "TERM", "USR1"}[rng.Intn(3)], rng.Intn(2)})
				}
			}
			if order == 0 {
				ex()
			}
			if !sEOF && rng.Intn(4) != 0 {
				evs = append(evs, [3]any{"seof", "", 0})
			}
			if order == 1 {
				ex()
			}
			endKind := []string{"sclose", "sclose", "sdrop"}[rng.Intn(3)]
			if len(evs) > 0 && evs[0][0] == "sdata" {
				endKind = "sclose" // data still in flight when the connection disappears may be lost: not a session-layer promise
			}
			evs = append(evs, [3]any{endKind, "", 0})
			for i, e := range evs {
				mode := 1
				if i == len(evs)-1 {
					mode = 2
					if len(evs) == 1 {
						mode = 0
					}
				}
				if !doM(e[0].(string), e[1].(string), e[2].(int), mode) {
					return
				}
			}
		}
		if !closed {
			order := rng.Intn(3)
			if order == 0 && !exitSent {
				if !sendExit() {
					return
				}
			}
			if !sEOF && rng.Intn(4) != 0 {
				if !do("seof", "", 0) {
					return
				}
			}
			if order != 0 && !exitSent {
				if !sendExit() {
					return
				}
			}
			if started && !waited && rng.Intn(2) == 0 {
				waited = true
				if !do("wait", "", 0) {
					return
				}
			}
			if !do([]string{"sclose", "sclose", "sclose", "close", "sdrop"}[rng.Intn(5)], "", 0) {
				return
			}
		}
		if started && !waited {
			waited = true
			if !do("wait", "", 0) {
				return
			}
		}
		_ = sentIn
	})
	return trace, prob, bytesOut
}

func TestLong(t *testing.T) {
	out := vutil.NewOut()
	defer func() {
		if err := out.Write(); err != nil {
			t.Fatal(err)
		}
	}()
	n, _ := strconv.Atoi(vutil.Env("VERIF_X01_LONG", "10"))
	fh, err := os.Create(vutil.Env("VERIF_TRACE_OUT", os.DevNull))
	if err != nil {
		t.Fatal(err)
	}
	defer fh.Close()
	total := 0
	for i := 0; i < n; i++ {
		seed := vutil.Seed()*100003 + int64(i)
		tr, prob, nb := longOne(t, seed)
		total += nb
		if prob != nil {
			if prob.Sig == "" {
				t.Fatalf("long session %d (seed %d): %s", i, seed, prob.What)
			}
			out.Violation(prob.Sig, "long random session: "+prob.What, map[string]any{"seed": seed, "trace": prob.Trace})
			t.Errorf("%s: long session %d: %s", prob.Sig, i, prob.What)
			continue
		}
		b, _ := json.Marshal(tr)
		fh.Write(append(b, '\n'))
		out.Case(fmt.Sprintf("long:%d", seed))
	}
	out.Extra["long_output_bytes"] = total
}
