package x01

// Directed scenario for S9 (nothing of package ssh stays blocked after the connection ended) that
// lies beyond the bounds of the generated histories: spec/SSHSession.tla, constant ReqBuf.  After a
// malformed exit-status / exit-signal Session.wait returns; if it thereby stops servicing the
// channel's request stream, ReqBuf (= chanSize = 16) further requests fill the stream's buffer and
// the next one blocks the mux read loop: the whole connection stalls, and the loop goroutine,
// mux.Wait and every pending OpenChannel stay blocked even after the connection is closed.
// The scenario runs in a child process: a bubble that ends with blocked goroutines panics, the
// parent classifies the goroutine dump.

import (
	"bytes"
	"fmt"
	"os"
	"os/exec"
	"strings"
	"testing"
	"testing/synctest"

	"verif/harness/vutil"
)

const stallSig = "malformed-exit-stops-request-service-mux-stalls"

func stallScenario(t *testing.T, variant string, nreq int) {
	synctest.Test(t, func(t *testing.T) {
		w, err := newWorld("nil", "buf", 1, quiesce)
		if err != nil {
			t.Fatalf("infra: %v", err)
		}
		step := func(e error) {
			if e != nil {
				t.Fatalf("infra: %v", e)
			}
			quiesce()
		}
		step(w.clientEvent("start", ""))
		step(w.serverEvent("sreply", "ok", 0, 0))
		step(w.serverEvent(variant, "", 0, 0))
		for i := 0; i < nreq; i++ {
			if _, err := w.sch.SendRequest("x01-notice", false, nil); err != nil {
				t.Fatalf("infra: server SendRequest: %v", err)
			}
		}
		quiesce()
		// another channel on the same connection: needs the client's read loop
		opened := make(chan error, 1)
		go func() {
			_, err := w.cl.NewSession()
			opened <- err
		}()
		go func() {
			if nc, ok := <-w.sm.IncomingChannels(); ok {
				nc.Accept()
			}
		}()
		quiesce()
		select {
		case <-opened:
			fmt.Println("X01STALL second-session=returned")
		default:
			fmt.Println("X01STALL second-session=blocked")
		}
		w.release(quiesce)
		select {
		case <-opened:
		default:
			fmt.Println("X01STALL second-session-after-close=blocked")
		}
	})
}

func TestStallChild(t *testing.T) {
	v := os.Getenv("VERIF_X01_STALL")
	if v == "" {
		t.Skip("child only")
	}
	stallScenario(t, v, 40)
	fmt.Println("X01STALL finished")
}

func TestStall(t *testing.T) {
	out := vutil.NewOut()
	defer func() {
		if err := out.Write(); err != nil {
			t.Fatal(err)
		}
	}()
	// control first: a well-formed exit-status followed by the same requests must leave nothing blocked
	for _, variant := range []string{"sexit", "sexitbad", "ssigbad"} {
		cmd := exec.Command(os.Args[0], "-test.run=^TestStallChild$", "-test.timeout=120s", "-test.v")
		cmd.Env = append(os.Environ(), "VERIF_X01_STALL="+variant)
		var buf bytes.Buffer
		cmd.Stdout, cmd.Stderr = &buf, &buf
		err := cmd.Run()
		o := buf.String()
		out.Case("stall:" + variant)
		if err == nil && strings.Contains(o, "X01STALL finished") && strings.Contains(o, "second-session=returned") {
			continue
		}
		_, what, verdict := classifyCrash(o)
		stuckInLoop := strings.Contains(o, "ssh.(*channel).handlePacket") && strings.Contains(o, "ssh.(*mux).loop")
		if variant == "sexit" || !verdict || !stuckInLoop || strings.Contains(o, "infra:") {
			t.Fatalf("x01 stall scenario %s: not attributable to package ssh (%s):\n%s", variant, what, tail(o, 6000))
		}
		what = fmt.Sprintf("after a malformed %s request Session.wait returns and stops servicing the channel's request stream: 16 further requests "+
			"fill its buffer, the 17th blocks the mux read loop (channel.handlePacket), the connection stalls (second NewSession blocked: %v) and "+
			"the loop goroutine stays blocked after the connection is closed", map[string]string{"sexitbad": "exit-status", "ssigbad": "exit-signal"}[variant],
			strings.Contains(o, "second-session=blocked"))
		out.Violation(stallSig, what, map[string]any{"scenario": []string{"Start", "reply success", variant, "40 x channel request (no reply wanted)", "NewSession", "connection closed"},
			"crash": tail(o, 2500)})
		t.Errorf("%s: %s", stallSig, what)
	}
}
