// Package c09ref is the "amplifier" of binding E for C09 and C10: a plain Go transcription of the
// executable TLA+ definitions spec/PrimSalsa.tla (quarterround, rowround, columnround, Salsa20 hash
// with 20 and 8 rounds, the 32-byte-key expansion, the 64-bit little-endian block counter, HSalsa20,
// XSalsa20) and spec/SecretBox.tla (Seal/Open over PrimSalsa + PrimPoly).  It has no authority of its
// own: every harness first checks it byte-for-byte against the vectors TLC evaluated from the TLA+
// definitions in the same run, and only then uses it to judge further cases.  It deliberately shares
// no code with golang.org/x/crypto and is written in the shape of the specification (a 16-word state
// and index tuples), not in the unrolled shape of the implementation.
package c09ref

import (
	"encoding/binary"
	"math/bits"

	"verif/harness/c03ref"
)

// PrimSalsa!SQR
func sqr(s *[16]uint32, a, b, c, d int) {
	s[b] ^= bits.RotateLeft32(s[a]+s[d], 7)
	s[c] ^= bits.RotateLeft32(s[b]+s[a], 9)
	s[d] ^= bits.RotateLeft32(s[c]+s[b], 13)
	s[a] ^= bits.RotateLeft32(s[d]+s[c], 18)
}

var colIdx = [4][4]int{{0, 4, 8, 12}, {5, 9, 13, 1}, {10, 14, 2, 6}, {15, 3, 7, 11}}
var rowIdx = [4][4]int{{0, 1, 2, 3}, {5, 6, 7, 4}, {10, 11, 8, 9}, {15, 12, 13, 14}}

// PrimSalsa!SDoubleRound = RowRound o ColumnRound
func doubleRound(s *[16]uint32) {
	for _, q := range colIdx {
		sqr(s, q[0], q[1], q[2], q[3])
	}
	for _, q := range rowIdx {
		sqr(s, q[0], q[1], q[2], q[3])
	}
}

func words(b []byte) (w [16]uint32) {
	for i := range w {
		w[i] = binary.LittleEndian.Uint32(b[4*i:])
	}
	return
}

// CoreHash: PrimSalsa!CoreHash (x + doubleround^dr(x)) of a 64-byte string.
func CoreHash(b64 []byte, dr int) []byte {
	x := words(b64)
	z := x
	for i := 0; i < dr; i++ {
		doubleRound(&z)
	}
	out := make([]byte, 64)
	for i := range z {
		binary.LittleEndian.PutUint32(out[4*i:], x[i]+z[i])
	}
	return out
}

// Core208: PrimSalsa!Core208.
func Core208(b64 []byte) []byte { return CoreHash(b64, 4) }

// Sigma: "expand 32-byte k".
var Sigma = []byte("expand 32-byte k")

// layout: PrimSalsa!Layout.
func layout(key, in16, c []byte) []byte {
	b := make([]byte, 0, 64)
	b = append(b, c[0:4]...)
	b = append(b, key[0:16]...)
	b = append(b, c[4:8]...)
	b = append(b, in16...)
	b = append(b, c[8:12]...)
	b = append(b, key[16:32]...)
	b = append(b, c[12:16]...)
	return b
}

// Block: PrimSalsa!SalsaBlock.
func Block(key, in16 []byte) []byte { return CoreHash(layout(key, in16, Sigma), 10) }

// HSalsa20C: PrimSalsa!HSalsa20C.
func HSalsa20C(key, in16, c []byte) []byte {
	z := words(layout(key, in16, c))
	for i := 0; i < 10; i++ {
		doubleRound(&z)
	}
	out := make([]byte, 32)
	for i, j := range []int{0, 5, 10, 15, 6, 7, 8, 9} {
		binary.LittleEndian.PutUint32(out[4*i:], z[j])
	}
	return out
}

// HSalsa20: PrimSalsa!HSalsa20.
func HSalsa20(key, in16 []byte) []byte { return HSalsa20C(key, in16, Sigma) }

// CtrAdd: PrimSalsa!CtrAdd: counter block with the 64-bit little-endian counter in bytes 8..15 advanced by k (mod 2^64).
func CtrAdd(cb []byte, k uint64) []byte {
	out := append([]byte(nil), cb[:16]...)
	binary.LittleEndian.PutUint64(out[8:], binary.LittleEndian.Uint64(cb[8:16])+k)
	return out
}

// KS: PrimSalsa!SKS: the first n keystream bytes of the stream whose first counter block is cb.
func KS(key, cb []byte, n int) []byte {
	out := make([]byte, 0, n+64)
	for j := 0; len(out) < n; j++ {
		out = append(out, Block(key, CtrAdd(cb, uint64(j)))...)
	}
	return out[:n]
}

// Eff: PrimSalsa!SEffKey / SEffBlock for an 8- or 24-byte nonce.
func Eff(key, nonce []byte) (k, cb []byte) {
	cb = make([]byte, 16)
	if len(nonce) == 24 {
		copy(cb, nonce[16:24])
		return HSalsa20(key, nonce[:16]), cb
	}
	copy(cb, nonce)
	return key, cb
}

// XOR: PrimSalsa!SalsaXOR.
func XOR(key, nonce, in []byte) []byte {
	k, cb := Eff(key, nonce)
	ks := KS(k, cb, len(in))
	out := make([]byte, len(in))
	for i := range in {
		out[i] = in[i] ^ ks[i]
	}
	return out
}

// SecretBoxSeal: SecretBox!Seal: tag || ciphertext.
func SecretBoxSeal(key, nonce24, msg []byte) []byte {
	k, cb := Eff(key, nonce24)
	ks := KS(k, cb, 32+len(msg))
	ct := make([]byte, len(msg))
	for i := range msg {
		ct[i] = msg[i] ^ ks[32+i]
	}
	return append(c03ref.Poly1305(ks[:32], ct), ct...)
}

// SecretBoxOpen: SecretBox!Open.
func SecretBoxOpen(key, nonce24, box []byte) ([]byte, bool) {
	if len(box) < 16 {
		return nil, false
	}
	k, cb := Eff(key, nonce24)
	ct := box[16:]
	ks := KS(k, cb, 32+len(ct))
	tag := c03ref.Poly1305(ks[:32], ct)
	for i := range tag {
		if tag[i] != box[i] {
			return nil, false
		}
	}
	pt := make([]byte, len(ct))
	for i := range ct {
		pt[i] = ct[i] ^ ks[32+i]
	}
	return pt, true
}
